package main

// Facts for C11, operator registration (Model/OperatorReg.lean, Props/C11Commission.lean): the commission rate
// that AllocateTokensToValidator multiplies in BeginBlock is validated in exactly two places before it is
// stored, and both delegate to cosmos-sdk's CommissionRates.Validate, which is outside the repository.
//
//	shapeRegisterOperatorReqValidateBasic / shapeOperatorInfoValidateBasic
//	    the significant statements of the two ValidateBasic functions (baseapp runs them on every
//	    RegisterOperatorReq before the handler): the model transcribes them check by check; the commission
//	    check must be the call `info.Commission.Validate()`
//	shapeRegisterOperator / shapeSetOperatorInfoPublic / shapeSetOperatorInfo
//	    message server → SetOperatorInfo → setOperatorInfo: a registered address is refused, the record is
//	    stored as it came (no edit, no delete)
//	sliceShape_ValidateOperators_Commission
//	    the statements of GenesisState.ValidateOperators that mention `Commission` (nil test of the three
//	    rates, then Commission.Validate()) plus every return
//	storeKeyWriters_OperatorInfo
//	    every function that mentions the store prefix KeyPrefixOperatorInfo with its Set calls: setOperatorInfo
//	    is the only writer
//	sdkReplacePinned
//	    the version of github.com/cosmos/cosmos-sdk the repository builds against (require + replace lines of
//	    go.mod): the model of CommissionRates.Validate is the switch of that version
//	    (x/staking/types/commission.go); the harness compares it with the compiled function on every generated
//	    triple (domain liveness_commission)

import (
	"bufio"
	"fmt"
	"os"
	"path/filepath"
	"strings"
)

func init() {
	rwShapes = append(rwShapes,
		rwShapeSpec{"shapeRegisterOperatorReqValidateBasic", "x/operator/types/msg.go", "RegisterOperatorReq.ValidateBasic"},
		rwShapeSpec{"shapeOperatorInfoValidateBasic", "x/operator/types/validation.go", "OperatorInfo.ValidateBasic"},
		rwShapeSpec{"shapeRegisterOperator", "x/operator/keeper/msg_server.go", "MsgServerImpl.RegisterOperator"},
		rwShapeSpec{"shapeSetOperatorInfoPublic", "x/operator/keeper/operator.go", "Keeper.SetOperatorInfo"},
		rwShapeSpec{"shapeSetOperatorInfo", "x/operator/keeper/operator.go", "Keeper.setOperatorInfo"},
	)
	sliceShapes = append(sliceShapes,
		sliceShapeSpec{"sliceShape_ValidateOperators_Commission", "x/operator/types", "GenesisState.ValidateOperators", []string{"Commission"}},
	)
	storeWriterSpecs = append(storeWriterSpecs, storeWriterSpec{"OperatorInfo", "KeyPrefixOperatorInfo"})
	factGens = append(factGens, func(repo string, emit func(name, leanDef string, err error)) {
		l, err := sdkReplaceLines(repo)
		emit("sdkReplacePinned", "/-- go.mod: the require and replace lines of github.com/cosmos/cosmos-sdk -/\ndef sdkReplacePinned : List String := "+leanStrList(l), err)
	})
}

// sdkReplaceLines: the lines of go.mod that name the module github.com/cosmos/cosmos-sdk itself (not its
// sub-modules), comments and surrounding blanks stripped, in file order.
func sdkReplaceLines(repo string) ([]string, error) {
	f, err := os.Open(filepath.Join(repo, "go.mod"))
	if err != nil {
		return nil, err
	}
	defer f.Close()
	var out []string
	sc := bufio.NewScanner(f)
	for sc.Scan() {
		line := sc.Text()
		if i := strings.Index(line, "//"); i >= 0 {
			line = line[:i]
		}
		fields := strings.Fields(line)
		hit := false
		for _, w := range fields {
			if w == "github.com/cosmos/cosmos-sdk" {
				hit = true
			}
		}
		if hit {
			out = append(out, strings.Join(fields, " "))
		}
	}
	if err := sc.Err(); err != nil {
		return nil, err
	}
	if len(out) == 0 {
		return nil, fmt.Errorf("go.mod does not mention github.com/cosmos/cosmos-sdk")
	}
	return out, nil
}
