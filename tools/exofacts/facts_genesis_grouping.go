package main

// C18 fact for the exporter loops of x/assets (the part of ExportGenesis that is neither a prefix nor a setter):
//   assetsExportLoops   per exporter (AllDeposits, AllOperatorAssets, GetAllStakingAssetsInfo): the declarations of the
//                       result slice / the "previous id" variable before the loop, and the statements of the loop body, in
//                       source order, one rendered statement each.
// Model/GenesisAssets.groupLoop is the transcription of the two grouping loops (a new group is opened when the first key part
// differs from the previous row's, the row is added to the LAST group, the previous id is updated at the end of the body);
// C18_export_loop_eq_groupAdj proves that this loop computes the model's groupAdj for rows with non-empty ids. A deleted
// `previous = current`, a changed comparison, a different index or a result slice that does not start empty changes the
// rendered statements and breaks C18_tie_assets_export_loops.

import (
	"fmt"
	"go/ast"
	"go/parser"
	"go/token"
	"strings"
)

func exportLoopShape(fd *ast.FuncDecl) (pre, body []string, err error) {
	var loop *ast.ForStmt
	for _, st := range fd.Body.List {
		switch s := st.(type) {
		case *ast.ForStmt:
			if loop != nil {
				return nil, nil, fmt.Errorf("%s: more than one loop", fd.Name.Name)
			}
			loop = s
		case *ast.AssignStmt, *ast.DeclStmt:
			if loop == nil {
				t := goSrc(s)
				if strings.HasPrefix(t, "ret :=") || strings.HasPrefix(t, "var previous") || strings.HasPrefix(t, "var ret") {
					pre = append(pre, t)
				}
			}
		}
	}
	if loop == nil {
		return nil, nil, fmt.Errorf("%s: no loop", fd.Name.Name)
	}
	if loop.Init != nil || goSrc(loop.Cond) != "iterator.Valid()" || goSrc(loop.Post) != "iterator.Next()" {
		return nil, nil, fmt.Errorf("%s: loop header is not `for ; iterator.Valid(); iterator.Next()`", fd.Name.Name)
	}
	for _, st := range loop.Body.List {
		body = append(body, goSrc(st))
	}
	return pre, body, nil
}

func genesisGroupingGen(repo string, emit func(name, leanDef string, err error)) {
	fset := token.NewFileSet()
	var rows []string
	for _, c := range []struct{ file, fn string }{
		{"x/assets/keeper/staker_asset.go", "AllDeposits"},
		{"x/assets/keeper/operator_asset.go", "AllOperatorAssets"},
		{"x/assets/keeper/client_chain_asset.go", "GetAllStakingAssetsInfo"},
	} {
		f, err := parser.ParseFile(fset, repo+"/"+c.file, nil, 0)
		if err != nil {
			emit("assetsExportLoops", "", err)
			return
		}
		fd := findFunc(f, "Keeper."+c.fn)
		if fd == nil || fd.Body == nil {
			emit("assetsExportLoops", "", fmt.Errorf("%s not found in %s", c.fn, c.file))
			return
		}
		pre, body, err := exportLoopShape(fd)
		if err != nil {
			emit("assetsExportLoops", "", err)
			return
		}
		rows = append(rows, fmt.Sprintf("(%q, %s,\n    %s)", c.fn, leanStrList(pre), leanStrListNL(body)))
	}
	emit("assetsExportLoops", "/-- x/assets exporters: (function, declarations of the result / previous-id variables before the loop, statements of the loop body) -/\ndef assetsExportLoops : List (String × List String × List String) := [\n  "+strings.Join(rows, ",\n  ")+"]", nil)
}

func init() { factGens = append(factGens, genesisGroupingGen) }
