package main

// C18 fact for the exporter loops of x/assets (the part of ExportGenesis that is neither a prefix nor a setter):
//   assetsExportLoops   per exporter (AllDeposits, AllOperatorAssets, GetAllStakingAssetsInfo): the declarations of the
//                       result slice / the "previous id" variable before the loop, and the statements of the loop body, in
//                       source order, one rendered statement each.
// Model/GenesisAssets.groupLoop is the transcription of the two grouping loops (a new group is opened when the first key part
// differs from the previous row's, the row is added to the LAST group, the previous id is updated at the end of the body);
// C18_export_loop_eq_groupAdj proves that this loop computes the model's groupAdj for rows with non-empty ids. A deleted
// `previous = current`, a changed comparison, a different index or a result slice that does not start empty changes the
// rendered statements and breaks C18_tie_assets_export_loops.

import (
	"fmt"
	"go/ast"
	"go/parser"
	"go/token"
	"strings"
)

func exportLoopShape(fd *ast.FuncDecl) (pre, body []string, err error) {
	var loop *ast.ForStmt
	for _, st := range fd.Body.List {
		switch s := st.(type) {
		case *ast.ForStmt:
			if loop != nil {
				return nil, nil, fmt.Errorf("%s: more than one loop", fd.Name.Name)
			}
			loop = s
		case *ast.AssignStmt, *ast.DeclStmt:
			if loop == nil {
				t := goSrc(s)
				if strings.HasPrefix(t, "ret :=") || strings.HasPrefix(t, "var previous") || strings.HasPrefix(t, "var ret") {
					pre = append(pre, t)
				}
			}
		}
	}
	if loop == nil {
		return nil, nil, fmt.Errorf("%s: no loop", fd.Name.Name)
	}
	if loop.Init != nil || goSrc(loop.Cond) != "iterator.Valid()" || goSrc(loop.Post) != "iterator.Next()" {
		return nil, nil, fmt.Errorf("%s: loop header is not `for ; iterator.Valid(); iterator.Next()`", fd.Name.Name)
	}
	for _, st := range loop.Body.List {
		body = append(body, goSrc(st))
	}
	return pre, body, nil
}

func genesisGroupingGen(repo string, emit func(name, leanDef string, err error)) {
	fset := token.NewFileSet()
	var rows []string
	for _, c := range []struct{ file, fn string }{
		{"x/assets/keeper/staker_asset.go", "AllDeposits"},
		{"x/assets/keeper/operator_asset.go", "AllOperatorAssets"},
		{"x/assets/keeper/client_chain_asset.go", "GetAllStakingAssetsInfo"},
	} {
		f, err := parser.ParseFile(fset, repo+"/"+c.file, nil, 0)
		if err != nil {
			emit("assetsExportLoops", "", err)
			return
		}
		fd := findFunc(f, "Keeper."+c.fn)
		if fd == nil || fd.Body == nil {
			emit("assetsExportLoops", "", fmt.Errorf("%s not found in %s", c.fn, c.file))
			return
		}
		pre, body, err := exportLoopShape(fd)
		if err != nil {
			emit("assetsExportLoops", "", err)
			return
		}
		rows = append(rows, fmt.Sprintf("(%q, %s,\n    %s)", c.fn, leanStrList(pre), leanStrListNL(body)))
	}
	emit("assetsExportLoops", "/-- x/assets exporters: (function, declarations of the result / previous-id variables before the loop, statements of the loop body) -/\ndef assetsExportLoops : List (String × List String × List String) := [\n  "+strings.Join(rows, ",\n  ")+"]", nil)
}

// exportLoopsSkipNothing: the collection exporters behind ExportGenesis of x/assets and x/delegation append EVERY entry
// their iterator yields. Per exporter: (function, loops, branch statements — continue / break / goto — anywhere in the
// function, append calls inside a loop — or inside the callback handed to an Iterate… helper — that sit under an `if`). The only guarded appends of the code as it is are the two
// that open a new group in AllDeposits / AllOperatorAssets (pinned statement by statement by assetsExportLoops); a filter
// in an exporter loop (`if … { continue }`, or the append moved under a test) changes a count and breaks
// C18_tie_export_loops_skip_nothing. What a filter costs is C18_assets_filtered_export_roundtrip_iff (Props/C18Pools.lean).
func exportSkipShape(fd *ast.FuncDecl) (loops, branches, guardedAppends int) {
	var walk func(n ast.Node, inLoop, underIf bool)
	walk = func(n ast.Node, inLoop, underIf bool) {
		if n == nil {
			return
		}
		switch s := n.(type) {
		case *ast.ForStmt:
			loops++
			walk(s.Body, true, false)
			return
		case *ast.RangeStmt:
			loops++
			walk(s.Body, true, false)
			return
		case *ast.BranchStmt:
			branches++
			return
		case *ast.IfStmt:
			if s.Init != nil {
				walk(s.Init, inLoop, underIf)
			}
			walk(s.Body, inLoop, true)
			if s.Else != nil {
				walk(s.Else, inLoop, true)
			}
			return
		case *ast.SwitchStmt:
			walk(s.Body, inLoop, true)
			return
		case *ast.CallExpr:
			if id, ok := s.Fun.(*ast.Ident); ok && id.Name == "append" && inLoop && underIf {
				guardedAppends++
			}
		case *ast.FuncLit:
			// the per-entry callback of an Iterate… helper is a loop body (GetAllClientChainInfo)
			walk(s.Body, true, false)
			return
		}
		ast.Inspect(n, func(c ast.Node) bool {
			if c == nil || c == n {
				return true
			}
			walk(c, inLoop, underIf)
			return false
		})
	}
	walk(fd.Body, false, false)
	return
}

func genesisExportSkipGen(repo string, emit func(name, leanDef string, err error)) {
	const name = "exportLoopsSkipNothing"
	fset := token.NewFileSet()
	var rows []string
	for _, c := range []struct{ file, fn string }{
		{"x/assets/keeper/client_chain.go", "IterateAllClientChains"},
		{"x/assets/keeper/client_chain.go", "GetAllClientChainInfo"},
		{"x/assets/keeper/client_chain_asset.go", "GetAllStakingAssetsInfo"},
		{"x/assets/keeper/staker_asset.go", "AllDeposits"},
		{"x/assets/keeper/operator_asset.go", "AllOperatorAssets"},
		{"x/delegation/keeper/delegation_state.go", "GetAllAssociations"},
		{"x/delegation/keeper/delegation_state.go", "AllDelegationStates"},
		{"x/delegation/keeper/delegation_state.go", "AllStakerList"},
		{"x/delegation/keeper/un_delegation_state.go", "AllUndelegations"},
	} {
		f, err := parser.ParseFile(fset, repo+"/"+c.file, nil, 0)
		if err != nil {
			emit(name, "", err)
			return
		}
		fd := findFunc(f, "Keeper."+c.fn)
		if fd == nil || fd.Body == nil {
			emit(name, "", fmt.Errorf("%s not found in %s", c.fn, c.file))
			return
		}
		l, b, g := exportSkipShape(fd)
		rows = append(rows, fmt.Sprintf("(%q, %d, %d, %d)", c.fn, l, b, g))
	}
	emit(name, "/-- collection exporters of x/assets and x/delegation: (function, loops, continue/break/goto statements, append calls under an `if` inside a loop) -/\ndef "+name+" : List (String × Nat × Nat × Nat) := [\n  "+strings.Join(rows, ",\n  ")+"]", nil)
}

func init() { factGens = append(factGens, genesisGroupingGen, genesisExportSkipGen) }
