package main

// C11: facts behind panic sites whose safety is decided by OTHER code, regenerated so that Props/C11Sites.lean can
// prove the site safe from them (instead of a justification by reading):
//
//	typeSwitchCases_<Func> / typeSwitchCallers_<Func>
//	    an explicit panic in the `default:` clause of a type switch over a parameter (Cache.AddCache): the case
//	    types of the switch, and for EVERY call of a method / function of that name in the repository (non-test
//	    files, resolved by name: over-approximation) the static type of the argument, read off its syntactic form
//	    (conversion T(x), composite literal &T{…} / T{…}, a local defined once by one of those, or the declared
//	    type the typer knows). The theorem: every caller type is one of the case types. An argument whose type
//	    cannot be named is listed as "?<expr>" and fails the theorem.
//	storeKeyWriters_<Prefix>
//	    every `<store>.Set(K, …)` in a function that opens the KV store with the given key-prefix constant, with
//	    the definition of K (single `K := e` in the function) — the inventory of the shapes of keys of that store.
//	delimiterForCombinedKey
//	    the string constant utils.DelimiterForCombinedKey
//
// plus statement shapes (mentionShape, facts_siteguards.go) of the functions through which the keys reach the
// unchecked `keys[1]` of IterateOperatorsForAVS / IterateAssetsForOperator.

import (
	"fmt"
	"go/ast"
	"go/token"
	"sort"
	"strconv"
	"strings"
)

func init() {
	sliceShapes = append(sliceShapes,
		sliceShapeSpec{"sliceShape_IterateOperatorsForAVS", "x/operator/keeper", "Keeper.IterateOperatorsForAVS", []string{"iterator", "keys"}},
		sliceShapeSpec{"sliceShape_IterateOperatorsForAVSPrefix", "x/operator/types", "IterateOperatorsForAVSPrefix", []string{"tmp"}},
		sliceShapeSpec{"sliceShape_ParseJoinedKey", "x/assets/types", "ParseJoinedKey", []string{"stringList"}},
		sliceShapeSpec{"sliceShape_GetJoinedStoreKey", "x/assets/types", "GetJoinedStoreKey", []string{"keys"}},
		sliceShapeSpec{"sliceShape_IterateAssetsForOperator", "x/assets/keeper", "Keeper.IterateAssetsForOperator", []string{"iterator", "keys", "store"}},
	)
	factGens = append(factGens, genSiteCallerFacts)
}

type typeSwitchSpec struct {
	name, dir, fn string
}

var typeSwitchSpecs = []typeSwitchSpec{
	{"AddCache", "x/oracle/keeper/cache", "Cache.AddCache"},
}

type storeWriterSpec struct {
	name, prefixConst string
}

var storeWriterSpecs = []storeWriterSpec{
	{"OperatorAssetInfos", "KeyPrefixOperatorAssetInfos"},
}

// stripQual: "cache.ItemP" -> "ItemP", "*cache.ItemM" -> "*ItemM"
func stripQual(t string) string {
	star := ""
	for strings.HasPrefix(t, "*") {
		star += "*"
		t = t[1:]
	}
	if i := strings.LastIndex(t, "."); i >= 0 && !strings.ContainsAny(t, "[]({ ") {
		t = t[i+1:]
	}
	return star + t
}

// staticArgType: the type of a call argument, from its syntactic form; "?<expr>" when it cannot be named
func staticArgType(ix *xIndex, fn *xFunc, s *xScope, e ast.Expr, depth int) string {
	switch x := e.(type) {
	case *ast.ParenExpr:
		return staticArgType(ix, fn, s, x.X, depth)
	case *ast.CallExpr:
		if len(x.Args) == 1 && s.isTypeExpr(x.Fun) {
			return stripQual(exprText(x.Fun))
		}
	case *ast.UnaryExpr:
		if x.Op == token.AND {
			if cl, ok := x.X.(*ast.CompositeLit); ok && cl.Type != nil {
				return "*" + stripQual(exprText(cl.Type))
			}
		}
	case *ast.CompositeLit:
		if x.Type != nil {
			return stripQual(exprText(x.Type))
		}
	case *ast.Ident:
		if depth < 3 {
			// a local defined exactly once by `v := e` and never assigned again
			var def ast.Expr
			defs, writes := 0, 0
			ast.Inspect(fn.Decl.Body, func(n ast.Node) bool {
				if as, ok := n.(*ast.AssignStmt); ok {
					for i, l := range as.Lhs {
						if id, ok := l.(*ast.Ident); ok && id.Name == x.Name {
							if as.Tok == token.DEFINE && len(as.Lhs) == len(as.Rhs) {
								defs++
								def = as.Rhs[i]
							} else {
								writes++
							}
						}
					}
				}
				return true
			})
			if defs == 1 && writes == 0 && def != nil {
				if t := staticArgType(ix, fn, s, def, depth+1); !strings.HasPrefix(t, "?") {
					return t
				}
			}
		}
		if t := s.typeOf(x); t.E != nil {
			return stripQual(exprText(t.E))
		}
	}
	return "?" + srcText(e)
}

func leanStrPairList(ps [][2]string) string {
	var items []string
	for _, p := range ps {
		items = append(items, "("+strconv.Quote(p[0])+", "+strconv.Quote(p[1])+")")
	}
	if len(items) == 0 {
		return "[]"
	}
	return "[\n  " + strings.Join(items, ",\n  ") + "]"
}

func genSiteCallerFacts(repo string, emit func(name, leanDef string, err error)) {
	ix, err := loadIndex(repo)
	// ---- type switches whose default clause panics
	for _, sp := range typeSwitchSpecs {
		cn, ln := "typeSwitchCases_"+sp.name, "typeSwitchCallers_"+sp.name
		if err != nil {
			emit(cn, "", err)
			emit(ln, "", err)
			continue
		}
		var fn *xFunc
		if pk := ix.Pkgs[sp.dir]; pk != nil {
			for _, f := range pk.allFuncs() {
				if f.QName() == sp.fn {
					fn = f
				}
			}
		}
		if fn == nil {
			e := fmt.Errorf("%s: %s not found", sp.dir, sp.fn)
			emit(cn, "", e)
			emit(ln, "", e)
			continue
		}
		params := map[string]int{}
		pi := 0
		for _, f := range fn.Decl.Type.Params.List {
			for _, n := range f.Names {
				params[n.Name] = pi
				pi++
			}
		}
		var cases []string
		argIdx := -1
		var serr error
		nSwitch := 0
		ast.Inspect(fn.Decl.Body, func(n ast.Node) bool {
			ts, ok := n.(*ast.TypeSwitchStmt)
			if !ok {
				return true
			}
			// subject: `x.(type)` or `v := x.(type)` with x a parameter
			var ta *ast.TypeAssertExpr
			switch a := ts.Assign.(type) {
			case *ast.ExprStmt:
				ta, _ = a.X.(*ast.TypeAssertExpr)
			case *ast.AssignStmt:
				if len(a.Rhs) == 1 {
					ta, _ = a.Rhs[0].(*ast.TypeAssertExpr)
				}
			}
			if ta == nil {
				return true
			}
			id, ok := ta.X.(*ast.Ident)
			if !ok {
				return true
			}
			idx, isParam := params[id.Name]
			if !isParam {
				return true
			}
			// the parameter must not be written before the switch
			written := false
			ast.Inspect(fn.Decl.Body, func(m ast.Node) bool {
				if as, ok := m.(*ast.AssignStmt); ok && as.Pos() < ts.Pos() {
					for _, l := range as.Lhs {
						if lid, ok := l.(*ast.Ident); ok && lid.Name == id.Name {
							written = true
						}
					}
				}
				return true
			})
			hasPanicDefault := false
			var cs []string
			for _, st := range ts.Body.List {
				cc := st.(*ast.CaseClause)
				if cc.List == nil {
					ast.Inspect(cc, func(m ast.Node) bool {
						if c, ok := m.(*ast.CallExpr); ok {
							if f, ok := c.Fun.(*ast.Ident); ok && f.Name == "panic" {
								hasPanicDefault = true
							}
						}
						return true
					})
					continue
				}
				for _, te := range cc.List {
					cs = append(cs, stripQual(exprText(te)))
				}
			}
			if !hasPanicDefault {
				return true
			}
			nSwitch++
			if written {
				serr = fmt.Errorf("%s: parameter %s is assigned before the type switch", sp.fn, id.Name)
			}
			cases, argIdx = cs, idx
			return true
		})
		if nSwitch != 1 && serr == nil {
			serr = fmt.Errorf("%s: %d type switches over a parameter with a panicking default clause (want 1)", sp.fn, nSwitch)
		}
		sort.Strings(cases)
		emit(cn, fmt.Sprintf("/-- %s: %s — the case types of the type switch whose `default:` clause panics -/\ndef %s : List String := ", fn.File.Rel, sp.fn, cn)+leanStrListNL(cases), serr)
		// callers, by name
		var callers [][2]string
		name := fn.Decl.Name.Name
		if serr == nil {
			for _, pk := range ix.sortedPkgs() {
				for _, g := range pk.allFuncs() {
					if strings.HasSuffix(g.File.Rel, "_test.go") {
						continue
					}
					ix.walkFunc(g, func(s *xScope, n ast.Node, stack []ast.Node) {
						c, ok := n.(*ast.CallExpr)
						if !ok {
							return
						}
						callee := ""
						switch f := c.Fun.(type) {
						case *ast.Ident:
							callee = f.Name
						case *ast.SelectorExpr:
							callee = f.Sel.Name
						}
						if callee != name || len(c.Args) <= argIdx {
							return
						}
						ty := "?" + srcText(c)
						if c.Ellipsis == token.NoPos {
							ty = staticArgType(ix, g, s, c.Args[argIdx], 0)
						}
						callers = append(callers, [2]string{g.File.Rel + ":" + g.QName() + ":" + srcText(c), ty})
					})
				}
			}
		}
		sort.Slice(callers, func(i, j int) bool { return callers[i][0] < callers[j][0] })
		var cerr error = serr
		if cerr == nil && len(callers) == 0 {
			cerr = fmt.Errorf("no call of %s found", name)
		}
		emit(ln, fmt.Sprintf("/-- every call of a function / method named %s in the repository (non-test files) with the static type of the switched argument -/\ndef %s : List (String × String) := ", name, ln)+leanStrPairList(callers), cerr)
	}

	// ---- writers of a prefixed KV store
	for _, sp := range storeWriterSpecs {
		fname := "storeKeyWriters_" + sp.name
		if err != nil {
			emit(fname, "", err)
			continue
		}
		var out []string
		for _, pk := range ix.sortedPkgs() {
			for _, g := range pk.allFuncs() {
				if strings.HasSuffix(g.File.Rel, "_test.go") || g.Decl.Body == nil {
					continue
				}
				mentions := false
				ast.Inspect(g.Decl.Body, func(n ast.Node) bool {
					switch x := n.(type) {
					case *ast.SelectorExpr:
						if x.Sel.Name == sp.prefixConst {
							mentions = true
						}
					case *ast.Ident:
						if x.Name == sp.prefixConst {
							mentions = true
						}
					}
					return true
				})
				if !mentions {
					continue
				}
				nw := 0
				ast.Inspect(g.Decl.Body, func(n ast.Node) bool {
					c, ok := n.(*ast.CallExpr)
					if !ok {
						return true
					}
					sel, ok := c.Fun.(*ast.SelectorExpr)
					if !ok || sel.Sel.Name != "Set" || len(c.Args) != 2 {
						return true
					}
					key := c.Args[0]
					def := ""
					if id, ok := key.(*ast.Ident); ok {
						n := 0
						ast.Inspect(g.Decl.Body, func(m ast.Node) bool {
							if as, ok := m.(*ast.AssignStmt); ok {
								for i, l := range as.Lhs {
									if lid, ok := l.(*ast.Ident); ok && lid.Name == id.Name {
										n++
										if len(as.Lhs) == len(as.Rhs) {
											def = longText(as.Rhs[i])
										}
									}
								}
							}
							return true
						})
						if n != 1 {
							def = fmt.Sprintf("?(%d assignments)", n)
						}
					}
					line := g.File.Rel + ":" + g.QName() + ":" + srcText(sel.X) + ".Set(" + longText(key) + ")"
					if def != "" {
						line += " <= " + longText(key) + " := " + def
					}
					out = append(out, line)
					nw++
					return true
				})
				if nw == 0 {
					out = append(out, g.File.Rel+":"+g.QName()+":no Set")
				}
			}
		}
		sort.Strings(out)
		var e error
		if len(out) == 0 {
			e = fmt.Errorf("no function mentions %s", sp.prefixConst)
		}
		emit(fname, fmt.Sprintf("/-- every function that mentions the store prefix %s, with each `<store>.Set(K, …)` it contains and the single definition of K -/\ndef %s : List String := ", sp.prefixConst, fname)+leanStrListNL(out), e)
	}

	// ---- the delimiter of joined store keys
	{
		var e error = err
		val := ""
		if e == nil {
			if pk := ix.Pkgs["utils"]; pk != nil {
				if lit := constLiteral(pk, "DelimiterForCombinedKey"); lit != nil && lit.Kind == token.STRING {
					val, e = strconv.Unquote(lit.Value)
				} else {
					e = fmt.Errorf("utils.DelimiterForCombinedKey is not a string literal constant")
				}
			} else {
				e = fmt.Errorf("package utils not found")
			}
		}
		emit("delimiterForCombinedKey", "/-- utils/utils.go: const DelimiterForCombinedKey -/\ndef delimiterForCombinedKey : String := "+strconv.Quote(val), e)
	}
}
