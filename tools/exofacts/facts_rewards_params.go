package main

// Facts for C17, parameter updates (Model/DistributionParams.lean): the shapes of the two UpdateParams
// handlers and of the validation / override helpers the model transcribes, and the list of every store
// write of x/exomint and x/feedistribution (non-test keeper code). The model keeps, per module, the
// parameters and the booked claims and nothing else: a new piece of stored state (e.g. a "last minted
// epoch" marker consulted by the hook) shows up as a new write site and breaks `C17_tie_mintStoreWrites`
// / `C17_tie_distrStoreWrites`.

import (
	"fmt"
	"go/ast"
	"go/parser"
	"go/token"
	"os"
	"path/filepath"
	"sort"
	"strings"
)

func init() {
	rwShapes = append(rwShapes,
		rwShapeSpec{"shapeMintUpdateParams", "x/exomint/keeper/msg_server.go", "Keeper.UpdateParams"},
		rwShapeSpec{"shapeMintOverrideIfRequired", "x/exomint/types/params.go", "Params.OverrideIfRequired"},
		rwShapeSpec{"shapeMintParamsValidate", "x/exomint/types/params.go", "Params.Validate"},
		rwShapeSpec{"shapeMintValidateEpochReward", "x/exomint/types/params.go", "ValidateEpochReward"},
		rwShapeSpec{"shapeMintValidateMintDenom", "x/exomint/types/params.go", "ValidateMintDenom"},
		rwShapeSpec{"shapeValidateEpochIdentifierString", "x/epochs/types/identifier.go", "ValidateEpochIdentifierString"},
		rwShapeSpec{"shapeDistrUpdateParams", "x/feedistribution/keeper/msg_update_params.go", "msgServer.UpdateParams"},
		rwShapeSpec{"shapeDistrParamsValidate", "x/feedistribution/types/params.go", "Params.Validate"},
		rwShapeSpec{"shapeMintMsgValidateBasic", "x/exomint/types/msg.go", "MsgUpdateParams.ValidateBasic"},
		rwShapeSpec{"shapeDistrMsgValidateBasic", "x/feedistribution/types/msg_update_params.go", "MsgUpdateParams.ValidateBasic"},
		rwShapeSpec{"shapeMintGetParams", "x/exomint/keeper/params.go", "Keeper.GetParams"},
		rwShapeSpec{"shapeMintSetParams", "x/exomint/keeper/params.go", "Keeper.SetParams"},
		rwShapeSpec{"shapeDistrGetParams", "x/feedistribution/keeper/params.go", "Keeper.GetParams"},
		rwShapeSpec{"shapeDistrSetParams", "x/feedistribution/keeper/params.go", "Keeper.SetParams"},
	)
	factGens = append(factGens, func(repo string, emit func(name, leanDef string, err error)) {
		for _, m := range []struct{ name, dir string }{
			{"mintStoreWrites", "x/exomint/keeper"},
			{"distrStoreWrites", "x/feedistribution/keeper"},
		} {
			l, err := storeWrites(repo, m.dir)
			emit(m.name, "/-- "+m.dir+" (non-test files): every KVStore write (Set/Delete), as file: function: call -/\ndef "+m.name+" : List String := "+leanStrList(l), err)
		}
	})
}

// storeWrites lists every call `<x>.Set(…)` / `<x>.Delete(…)` whose receiver is a KVStore (an expression
// mentioning `store`/`Store`) in the non-test Go files of dir, sorted.
func storeWrites(repo, dir string) ([]string, error) {
	files, err := filepath.Glob(filepath.Join(repo, dir, "*.go"))
	if err != nil {
		return nil, err
	}
	sort.Strings(files)
	out := []string{}
	n := 0
	for _, path := range files {
		if strings.HasSuffix(path, "_test.go") {
			continue
		}
		src, err := os.ReadFile(path)
		if err != nil {
			return nil, err
		}
		fset := token.NewFileSet()
		f, err := parser.ParseFile(fset, path, src, 0)
		if err != nil {
			return nil, err
		}
		n++
		for _, d := range f.Decls {
			fd, ok := d.(*ast.FuncDecl)
			if !ok || fd.Body == nil {
				continue
			}
			name := fd.Name.Name
			if fd.Recv != nil && len(fd.Recv.List) == 1 {
				name = strings.TrimPrefix(exprText(fd.Recv.List[0].Type), "*") + "." + name
			}
			ast.Inspect(fd.Body, func(nd ast.Node) bool {
				c, ok := nd.(*ast.CallExpr)
				if !ok {
					return true
				}
				sel, ok := c.Fun.(*ast.SelectorExpr)
				if !ok || (sel.Sel.Name != "Set" && sel.Sel.Name != "Delete") {
					return true
				}
				recv := rwRender(fset, sel.X)
				if !strings.Contains(strings.ToLower(recv), "store") {
					return true
				}
				out = append(out, fmt.Sprintf("%s: %s: %s", filepath.Base(path), name, rwRender(fset, c)))
				return true
			})
		}
	}
	if n == 0 {
		return nil, fmt.Errorf("no Go files in %s", dir)
	}
	sort.Strings(out)
	return out, nil
}
