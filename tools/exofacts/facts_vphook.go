package main

// Two pointed facts for C05 (voting power), beside the statement shapes of facts_rewards.go:
//
//   hookUpdateErrorExits  x/operator/keeper/impl_epoch_hook.go: AfterEpochEnd — what the branch
//                         taken when UpdateVotingPower returns an error does with the rest of the
//                         AVS list: the control-flow exits of that branch in source order
//                         ("continue" on the unchanged code; "return"/"break" end the loop for the
//                         AVSs that come later in the AVS store). The Lean model's loop
//                         (`hookLoopWith`) is parametrised by exactly this; the tie theorem
//                         instantiates it with the regenerated value.
//   selfAmountSource      x/operator/keeper/usd_value.go: CalculateUSDValueForOperator — the
//                         expression that defines the amount whose USD value is added to
//                         SelfStaking (the model's `opValue` takes
//                         tokensFromShares operatorShare totalShare totalAmount).

import (
	"fmt"
	"go/ast"
	"go/parser"
	"go/token"
	"strings"
)

func vpContainsCall(n ast.Node, suffix string) bool {
	found := false
	if n == nil {
		return false
	}
	ast.Inspect(n, func(x ast.Node) bool {
		if c, ok := x.(*ast.CallExpr); ok && strings.HasSuffix(exprText(c.Fun), suffix) {
			found = true
		}
		return !found
	})
	return found
}

func hookUpdateErrorExits(repo string) ([]string, error) {
	fset := token.NewFileSet()
	f, err := parser.ParseFile(fset, repo+"/x/operator/keeper/impl_epoch_hook.go", nil, 0)
	if err != nil {
		return nil, err
	}
	fd := findFunc(f, "EpochsHooksWrapper.AfterEpochEnd")
	if fd == nil {
		return nil, fmt.Errorf("EpochsHooksWrapper.AfterEpochEnd not found")
	}
	var loops []*ast.RangeStmt
	for _, st := range fd.Body.List {
		if r, ok := st.(*ast.RangeStmt); ok {
			loops = append(loops, r)
		}
	}
	if len(loops) != 1 {
		return nil, fmt.Errorf("AfterEpochEnd: expected exactly one top-level range loop, found %d", len(loops))
	}
	body := loops[0].Body.List
	idx := -1
	for i, st := range body {
		ifs, ok := st.(*ast.IfStmt)
		if !ok || rwRender(fset, ifs.Cond) != "err != nil" {
			continue
		}
		if idx >= 0 {
			return nil, fmt.Errorf("AfterEpochEnd: more than one `if err != nil` in the loop body")
		}
		idx = i
	}
	if idx < 0 {
		return nil, fmt.Errorf("AfterEpochEnd: no `if err != nil` in the loop body")
	}
	ifs := body[idx].(*ast.IfStmt)
	if ifs.Else != nil {
		return nil, fmt.Errorf("AfterEpochEnd: the error check has an else branch")
	}
	inInit := ifs.Init != nil && vpContainsCall(ifs.Init, "UpdateVotingPower")
	before := idx > 0 && vpContainsCall(body[idx-1], "UpdateVotingPower")
	if !inInit && !before {
		return nil, fmt.Errorf("AfterEpochEnd: the checked error is not the result of UpdateVotingPower")
	}
	exits := []string{}
	ast.Inspect(ifs.Body, func(x ast.Node) bool {
		switch y := x.(type) {
		case *ast.FuncLit:
			return false
		case *ast.BranchStmt:
			exits = append(exits, y.Tok.String())
		case *ast.ReturnStmt:
			exits = append(exits, "return")
			return false
		case *ast.CallExpr:
			if exprText(y.Fun) == "panic" {
				exits = append(exits, "panic")
			}
		}
		return true
	})
	if len(exits) == 0 {
		if idx == len(body)-1 {
			exits = append(exits, "end-of-body")
		} else {
			exits = append(exits, "falls-through")
		}
	}
	return exits, nil
}

func selfAmountSource(repo string) (string, error) {
	fset := token.NewFileSet()
	f, err := parser.ParseFile(fset, repo+"/x/operator/keeper/usd_value.go", nil, 0)
	if err != nil {
		return "", err
	}
	fd := findFunc(f, "Keeper.CalculateUSDValueForOperator")
	if fd == nil {
		return "", fmt.Errorf("Keeper.CalculateUSDValueForOperator not found")
	}
	// ret.SelfStaking = ret.SelfStaking.Add(CalculateUSDValue(X, …))
	var args []ast.Expr
	ast.Inspect(fd.Body, func(n ast.Node) bool {
		as, ok := n.(*ast.AssignStmt)
		if !ok || len(as.Lhs) != 1 || len(as.Rhs) != 1 || exprText(as.Lhs[0]) != "ret.SelfStaking" {
			return true
		}
		add, ok := as.Rhs[0].(*ast.CallExpr)
		if !ok || exprText(add.Fun) != "ret.SelfStaking.Add" || len(add.Args) != 1 {
			args = append(args, nil)
			return true
		}
		cv, ok := add.Args[0].(*ast.CallExpr)
		if !ok || exprText(cv.Fun) != "CalculateUSDValue" || len(cv.Args) < 1 {
			args = append(args, nil)
			return true
		}
		args = append(args, cv.Args[0])
		return true
	})
	if len(args) != 1 || args[0] == nil {
		return "", fmt.Errorf("CalculateUSDValueForOperator: expected exactly one `ret.SelfStaking = ret.SelfStaking.Add(CalculateUSDValue(x, …))`, found %d", len(args))
	}
	id, ok := args[0].(*ast.Ident)
	if !ok {
		// the amount is an expression in place: that expression is the source
		return rwRender(fset, args[0]), nil
	}
	var defs []string
	ast.Inspect(fd.Body, func(n ast.Node) bool {
		as, ok := n.(*ast.AssignStmt)
		if !ok || len(as.Lhs) == 0 || len(as.Rhs) != 1 {
			return true
		}
		if l, ok := as.Lhs[0].(*ast.Ident); ok && l.Name == id.Name {
			defs = append(defs, rwRender(fset, as.Rhs[0]))
		}
		return true
	})
	if len(defs) != 1 {
		return "", fmt.Errorf("CalculateUSDValueForOperator: %s is assigned %d times", id.Name, len(defs))
	}
	return defs[0], nil
}

func init() {
	factGens = append(factGens, func(repo string, emit func(name, leanDef string, err error)) {
		ex, err := hookUpdateErrorExits(repo)
		emit("hookUpdateErrorExits", "/-- impl_epoch_hook.go: AfterEpochEnd — control-flow exits of the branch taken when UpdateVotingPower fails, inside the loop over the epoch-end AVSs -/\ndef hookUpdateErrorExits : List String := "+leanStrList(ex), err)
		src, err := selfAmountSource(repo)
		emit("selfAmountSource", "/-- usd_value.go: CalculateUSDValueForOperator — definition of the amount whose USD value is added to SelfStaking -/\ndef selfAmountSource : String := "+fmt.Sprintf("%q", src), err)
	})
}
