package main

// C18 fact pinning the heights an undelegation record is written with and the height guard of the writer the genesis
// import goes through:
//   delegationDueHeights   (where, Go text) rows, in this order
//       x/delegation/keeper/un_delegation_state.go SetUndelegationRecords: the statement defining `currentHeight` and every
//           if statement of the loop over the records as `if <cond> => <how the body leaves>` (the guard InitGenesis,
//           UndelegateFrom and the re-queue of EndBlock all pass through),
//       x/delegation/keeper/abci.go EndBlock: the height GetPendingUndelegationRecords is asked for, every assignment to a
//           CompleteBlockNumber field (the re-queue of a held record),
//       x/delegation/keeper/delegation.go UndelegateFrom: the BlockNumber of the record literal and every assignment to a
//           CompleteBlockNumber field,
//       x/operator/keeper/keeper.go GetUnbondingExpirationBlockNumber: its return statement,
//       x/operator/types/keys.go: the constant UnbondingExpiration.
// The model (Model/GenesisDue.lean: rejects codeDueCfg, endBlockRec, undelegate, unbondingExpiration) carries exactly
// these. A guard that also rejects `CompleteBlockNumber == currentHeight` (seeded change C18-a), a re-queue at another
// height or another delay changes the fact and breaks C18_tie_due_heights.

import (
	"fmt"
	"go/ast"
	"go/parser"
	"go/token"
	"strings"
)

func genesisDueGen(repo string, emit func(name, leanDef string, err error)) {
	const name = "delegationDueHeights"
	fail := func(f string, a ...interface{}) { emit(name, "", fmt.Errorf(f, a...)) }
	parse := func(rel string) *ast.File {
		f, err := parser.ParseFile(token.NewFileSet(), repo+"/"+rel, nil, 0)
		if err != nil {
			return nil
		}
		return f
	}
	var rows [][2]string
	add := func(where, text string) { rows = append(rows, [2]string{where, text}) }
	// every assignment whose left side is a selector `.CompleteBlockNumber`, and key-value pairs of composite literals
	assigns := func(fd *ast.FuncDecl, where string, fields ...string) int {
		n := 0
		ast.Inspect(fd.Body, func(nd ast.Node) bool {
			switch x := nd.(type) {
			case *ast.AssignStmt:
				for _, l := range x.Lhs {
					if s, ok := l.(*ast.SelectorExpr); ok {
						for _, f := range fields {
							if s.Sel.Name == f {
								add(where, goSrc(x))
								n++
							}
						}
					}
				}
			case *ast.KeyValueExpr:
				if id, ok := x.Key.(*ast.Ident); ok {
					for _, f := range fields {
						if id.Name == f {
							add(where, id.Name+": "+goSrc(x.Value))
							n++
						}
					}
				}
			}
			return true
		})
		return n
	}

	// 1. the writer and its guard
	f := parse("x/delegation/keeper/un_delegation_state.go")
	if f == nil {
		fail("un_delegation_state.go does not parse")
		return
	}
	fd := findFunc(f, "Keeper.SetUndelegationRecords")
	if fd == nil {
		fail("Keeper.SetUndelegationRecords not found")
		return
	}
	loops := 0
	for _, st := range fd.Body.List {
		switch x := st.(type) {
		case *ast.AssignStmt:
			if len(x.Lhs) == 1 && goSrc(x.Lhs[0]) == "currentHeight" {
				add("SetUndelegationRecords", goSrc(x))
			}
		case *ast.RangeStmt:
			loops++
			add("SetUndelegationRecords", "for "+goSrc(x.Key)+" := range "+goSrc(x.X))
			ast.Inspect(x.Body, func(nd ast.Node) bool {
				if is, ok := nd.(*ast.IfStmt); ok {
					c := goSrc(is.Cond)
					if is.Init != nil {
						c = goSrc(is.Init) + "; " + c
					}
					add("SetUndelegationRecords", "if "+c+" => "+bodyExit(is.Body))
				}
				return true
			})
		case *ast.IfStmt:
			add("SetUndelegationRecords", "if "+goSrc(x.Cond)+" => "+bodyExit(x.Body))
		}
	}
	if loops != 1 {
		fail("SetUndelegationRecords: %d top-level loops (want 1)", loops)
		return
	}
	// 2. EndBlock: the height asked for and the re-queue
	f = parse("x/delegation/keeper/abci.go")
	if f == nil {
		fail("abci.go does not parse")
		return
	}
	fd = findFunc(f, "Keeper.EndBlock")
	if fd == nil {
		fail("x/delegation Keeper.EndBlock not found")
		return
	}
	asked := 0
	ast.Inspect(fd.Body, func(nd ast.Node) bool {
		if c, ok := nd.(*ast.CallExpr); ok && strings.HasSuffix(exprText(c.Fun), "GetPendingUndelegationRecords") {
			var as []string
			for _, a := range c.Args {
				as = append(as, goSrc(a))
			}
			add("EndBlock", "GetPendingUndelegationRecords("+strings.Join(as, ", ")+")")
			asked++
		}
		return true
	})
	if asked != 1 {
		fail("x/delegation EndBlock: %d calls of GetPendingUndelegationRecords (want 1)", asked)
		return
	}
	// the test deciding between re-queue and completion
	ast.Inspect(fd.Body, func(nd ast.Node) bool {
		if is, ok := nd.(*ast.IfStmt); ok && strings.Contains(goSrc(is.Cond), "GetUndelegationHoldCount") {
			add("EndBlock", "if "+goSrc(is.Cond))
		}
		return true
	})
	assigns(fd, "EndBlock", "CompleteBlockNumber")
	// 3. UndelegateFrom
	f = parse("x/delegation/keeper/delegation.go")
	if f == nil {
		fail("delegation.go does not parse")
		return
	}
	fd = findFunc(f, "Keeper.UndelegateFrom")
	if fd == nil {
		fail("Keeper.UndelegateFrom not found")
		return
	}
	if assigns(fd, "UndelegateFrom", "BlockNumber", "CompleteBlockNumber") == 0 {
		fail("UndelegateFrom: no assignment of BlockNumber / CompleteBlockNumber")
		return
	}
	// 4. the delay
	f = parse("x/operator/keeper/keeper.go")
	if f == nil {
		fail("x/operator/keeper/keeper.go does not parse")
		return
	}
	fd = findFunc(f, "Keeper.GetUnbondingExpirationBlockNumber")
	if fd == nil {
		fail("Keeper.GetUnbondingExpirationBlockNumber not found")
		return
	}
	for _, st := range fd.Body.List {
		add("GetUnbondingExpirationBlockNumber", goSrc(st))
	}
	f = parse("x/operator/types/keys.go")
	if f == nil {
		fail("x/operator/types/keys.go does not parse")
		return
	}
	found := false
	ast.Inspect(f, func(nd ast.Node) bool {
		if vs, ok := nd.(*ast.ValueSpec); ok {
			for i, id := range vs.Names {
				if id.Name == "UnbondingExpiration" && i < len(vs.Values) {
					add("operatortypes", "UnbondingExpiration = "+goSrc(vs.Values[i]))
					found = true
				}
			}
		}
		return true
	})
	if !found {
		fail("constant UnbondingExpiration not found")
		return
	}
	emit(name, "/-- the heights an undelegation record is written with (UndelegateFrom, the re-queue of x/delegation EndBlock) and the height guard of SetUndelegationRecords, the writer x/delegation InitGenesis goes through: (function, Go text) -/\ndef "+name+
		" : List (String × String) := "+leanStrPairList(rows), nil)
}

func init() { factGens = append(factGens, genesisDueGen) }
