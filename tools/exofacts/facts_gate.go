package main

// Tie A for C07's gate (`validatorTarget`, Model/ConsKeys.lean; Props/C07Gate.lean): x/slashing and
// x/evidence ask the staking keeper for `ValidatorByConsAddr(consAddr)` before they slash or jail and do
// nothing when the answer is nil.
//   x/dogfood/keeper/impl_sdk.go          : Keeper.ValidatorByConsAddr          (full skeleton)
//   x/operator/keeper/consensus_keys.go   : Keeper.ValidatorByConsAddrForChainID (GUARDS: every early
//     return `if … {return …}` together with the assignment that feeds its condition, and the final return)
// The model assumes: nil iff the reverse lookup fails or the resolved operator has no current key
// (`!found || err != nil`) — the remaining early returns are configuration errors (unknown AVS, no
// minimum self delegation, USD value not computable) that the harness never sees (the correspondence run
// compares the gate of every key after every operation). The assignments of Tokens / DelegatorShares /
// MinSelfDelegation / Jailed are NOT part of the fact (no property clause depends on them through this
// function: the gov tally reads IterateBondedValidatorsByPower, which overwrites Tokens and shares).

import (
	"fmt"
	"go/ast"
)

func init() { factGens = append(factGens, genGateFacts) }

// guardSkeleton: the early returns of a body, each preceded by the assignment statement right before
// it (when there is one), and the last statement.
func guardSkeleton(list []ast.Stmt) []string {
	var out []string
	emitted := map[int]bool{}
	for i, st := range list {
		x, ok := st.(*ast.IfStmt)
		if !ok || len(x.Body.List) == 0 {
			continue
		}
		if _, isRet := x.Body.List[len(x.Body.List)-1].(*ast.ReturnStmt); !isRet {
			continue
		}
		if i > 0 && !emitted[i-1] {
			if _, isAssign := list[i-1].(*ast.AssignStmt); isAssign {
				out = append(out, stmtSkeleton(list[i-1:i])...)
				emitted[i-1] = true
			}
		}
		out = append(out, stmtSkeleton(list[i:i+1])...)
		emitted[i] = true
	}
	if n := len(list); n > 0 && !emitted[n-1] {
		out = append(out, stmtSkeleton(list[n-1:])...)
	}
	return out
}

func genGateFacts(repo string, emit func(name, leanDef string, err error)) {
	for _, f := range []struct {
		file, fn, name, doc string
		guards              bool
	}{
		{"x/dogfood/keeper/impl_sdk.go", "Keeper.ValidatorByConsAddr", "dogfoodValidatorByConsAddrSkeleton",
			"top-level statements; staking interface, the first call of x/slashing's downtime handler and of x/evidence's equivocation handler", false},
		{"x/operator/keeper/consensus_keys.go", "Keeper.ValidatorByConsAddrForChainID", "validatorByConsAddrGuards",
			"early returns (with the assignment feeding each condition) and the final return", true},
	} {
		_, file, err := vParse(repo, f.file)
		if err != nil {
			emit(f.name, "", err)
			continue
		}
		fd := findFunc(file, f.fn)
		if fd == nil || fd.Body == nil {
			emit(f.name, "", fmt.Errorf("%s not found in %s", f.fn, f.file))
			continue
		}
		var sk []string
		if f.guards {
			sk = guardSkeleton(fd.Body.List)
		} else {
			sk = stmtSkeleton(fd.Body.List)
		}
		emit(f.name, fmt.Sprintf("/-- %s: %s — %s -/\ndef %s : List String := %s", f.file, f.fn, f.doc, f.name, leanStrList(sk)), nil)
		if f.guards {
			// F-07c (repaired in 72c0938): every top-level assignment to a field of the returned validator whose
			// name is Status. stakingtypes.NewValidator initialises Status to Unbonded and x/evidence drops
			// equivocation evidence for `validator.IsUnbonded()`: the function must overwrite it.
			var as []string
			for _, st := range fd.Body.List {
				a, ok := st.(*ast.AssignStmt)
				if !ok || len(a.Lhs) != 1 {
					continue
				}
				if sel, ok := a.Lhs[0].(*ast.SelectorExpr); ok && sel.Sel.Name == "Status" {
					as = append(as, skelText(st))
				}
			}
			emit("validatorByConsAddrStatusAssignments", fmt.Sprintf("/-- %s: %s — top-level assignments to the Status of the validator it returns (NewValidator's default is Unbonded, for which x/evidence drops equivocation evidence: F-07c) -/\ndef validatorByConsAddrStatusAssignments : List String := %s", f.file, f.fn, leanStrList(as)), nil)
		}
	}
}
