package main

// Tie A for C07 / C16: the unbonding-completion expression, the default finish epoch, the
// branch structure of the two operator hooks, the order of AfterEpochEnd's moves and the order
// of the guards of setOperatorConsKeyForChainID — re-read from the Go source on every run.

import (
	"fmt"
	"go/ast"
	"go/token"
	"strings"
)

// callNames lists, in source order, the method / function names called inside n.
func callNames(n ast.Node, keep func(string) bool) []string {
	var out []string
	ast.Inspect(n, func(x ast.Node) bool {
		if c, ok := x.(*ast.CallExpr); ok {
			name := ""
			switch f := c.Fun.(type) {
			case *ast.SelectorExpr:
				name = f.Sel.Name
			case *ast.Ident:
				name = f.Name
			}
			if name != "" && keep(name) {
				out = append(out, name)
			}
		}
		return true
	})
	return out
}

func isStoreCall(n string) bool {
	for _, p := range []string{"Get", "Set", "Append", "Delete", "Clear", "Mark", "Increment", "Decrement", "Complete"} {
		if strings.HasPrefix(n, p) {
			return true
		}
	}
	return false
}

// foundBranches: the `if found { A } else { B }` inside fn -> (calls of A, calls of B)
func foundBranches(fd *ast.FuncDecl) ([]string, []string, error) {
	var a, b []string
	ok := false
	ast.Inspect(fd.Body, func(x ast.Node) bool {
		ifs, is := x.(*ast.IfStmt)
		if !is || ok {
			return true
		}
		if id, isID := ifs.Cond.(*ast.Ident); isID && id.Name == "found" && ifs.Else != nil {
			a = callNames(ifs.Body, isStoreCall)
			b = callNames(ifs.Else, isStoreCall)
			ok = true
			return false
		}
		return true
	})
	if !ok {
		return nil, nil, fmt.Errorf("if found {…} else {…} not found in %s", fd.Name.Name)
	}
	return a, b, nil
}

func genKeysFacts(repo string, emit func(name, leanDef string, err error)) {
	// ---- unbonding.go: GetUnbondingCompletionEpoch
	func() {
		fset, f, err := vParse(repo, "x/dogfood/keeper/unbonding.go")
		if err != nil {
			emit("unbondingCompletionEpoch", "", err)
			return
		}
		fd := findFunc(f, "Keeper.GetUnbondingCompletionEpoch")
		if fd == nil {
			emit("unbondingCompletionEpoch", "", fmt.Errorf("GetUnbondingCompletionEpoch not found"))
			return
		}
		t := &vtr{fset: fset, atoms: map[string]vAtom{
			"epochInfo.CurrentEpoch": {"cur", "Int"}, "params.EpochsUntilUnbonded": {"n", "Int"},
		}}
		var ret *ast.ReturnStmt
		for _, st := range fd.Body.List {
			if r, ok := st.(*ast.ReturnStmt); ok {
				ret = r
			}
		}
		if ret == nil || len(ret.Results) != 1 {
			emit("unbondingCompletionEpoch", "", fmt.Errorf("single return not found"))
			return
		}
		body, err := vGuard(func() string { s, _ := t.expr(ret.Results[0]); return s })
		emit("unbondingCompletionEpoch", "/-- unbonding.go: GetUnbondingCompletionEpoch (cur = epochInfo.CurrentEpoch, n = params.EpochsUntilUnbonded) -/\ndef unbondingCompletionEpoch (cur n : Int) : Int := "+body, err)
	}()
	// ---- opt_out.go: GetOperatorOptOutFinishEpoch default
	func() {
		_, f, err := vParse(repo, "x/dogfood/keeper/opt_out.go")
		if err != nil {
			emit("optOutFinishEpochMissing", "", err)
			return
		}
		fd := findFunc(f, "Keeper.GetOperatorOptOutFinishEpoch")
		val := ""
		if fd != nil {
			ast.Inspect(fd.Body, func(x ast.Node) bool {
				ifs, ok := x.(*ast.IfStmt)
				if !ok || val != "" {
					return true
				}
				if be, ok := ifs.Cond.(*ast.BinaryExpr); ok && exprText(be.X) == "bz" && exprText(be.Y) == "nil" && be.Op == token.EQL {
					if r, ok := ifs.Body.List[0].(*ast.ReturnStmt); ok && len(r.Results) == 1 {
						switch v := r.Results[0].(type) {
						case *ast.UnaryExpr:
							if bl, ok := v.X.(*ast.BasicLit); ok && v.Op == token.SUB {
								val = "-" + bl.Value
							}
						case *ast.BasicLit:
							val = v.Value
						}
					}
				}
				return true
			})
		}
		if val == "" {
			emit("optOutFinishEpochMissing", "", fmt.Errorf("`if bz == nil { return <literal> }` not found"))
		} else {
			emit("optOutFinishEpochMissing", "/-- opt_out.go: GetOperatorOptOutFinishEpoch when nothing is stored -/\ndef optOutFinishEpochMissing : Int := ("+val+" : Int)", nil)
		}
	}()
	// ---- impl_operator_hooks.go: branch structure
	func() {
		_, f, err := vParse(repo, "x/dogfood/keeper/impl_operator_hooks.go")
		for _, h := range []struct{ fn, name string }{
			{"OperatorHooksWrapper.AfterOperatorKeyReplaced", "hookKeyReplacedBranches"},
			{"OperatorHooksWrapper.AfterOperatorKeyRemovalInitiated", "hookKeyRemovalBranches"},
		} {
			if err != nil {
				emit(h.name, "", err)
				continue
			}
			fd := findFunc(f, h.fn)
			if fd == nil {
				emit(h.name, "", fmt.Errorf("%s not found", h.fn))
				continue
			}
			a, b, e := foundBranches(fd)
			emit(h.name, fmt.Sprintf("/-- impl_operator_hooks.go: %s — store calls when the key is in the validator set / when it is not -/\ndef %s : List String × List String := (%s, %s)", h.fn, h.name, leanStrList(a), leanStrList(b)), e)
		}
	}()
	// ---- AfterOperatorKeyRemovalInitiated: `if !found { … previous key … }` before the branch
	func() {
		_, f, err := vParse(repo, "x/dogfood/keeper/impl_operator_hooks.go")
		if err != nil {
			emit("hookKeyRemovalPrevKeyCheck", "", err)
			return
		}
		fd := findFunc(f, "OperatorHooksWrapper.AfterOperatorKeyRemovalInitiated")
		if fd == nil {
			emit("hookKeyRemovalPrevKeyCheck", "", fmt.Errorf("AfterOperatorKeyRemovalInitiated not found"))
			return
		}
		var calls []string
		ok := false
		ast.Inspect(fd.Body, func(x ast.Node) bool {
			ifs, is := x.(*ast.IfStmt)
			if !is || ok {
				return true
			}
			if u, isU := ifs.Cond.(*ast.UnaryExpr); isU && u.Op == token.NOT && exprText(u.X) == "found" && ifs.Else == nil {
				calls = callNames(ifs.Body, isStoreCall)
				// the result must be assigned back to `found`
				assigns := false
				ast.Inspect(ifs.Body, func(y ast.Node) bool {
					if as, isA := y.(*ast.AssignStmt); isA && as.Tok == token.ASSIGN && len(as.Lhs) == 2 && exprText(as.Lhs[1]) == "found" {
						assigns = true
					}
					return true
				})
				ok = assigns
				return false
			}
			return true
		})
		if !ok {
			emit("hookKeyRemovalPrevKeyCheck", "", fmt.Errorf("`if !found { …; _, found = … }` (previous-key check) not found in AfterOperatorKeyRemovalInitiated"))
			return
		}
		emit("hookKeyRemovalPrevKeyCheck", "/-- impl_operator_hooks.go: AfterOperatorKeyRemovalInitiated — when the current key is not in the set, `found` is recomputed from these calls -/\ndef hookKeyRemovalPrevKeyCheck : List String := "+leanStrList(calls), nil)
	}()
	// ---- impl_delegation_hooks.go: the opting-out branch of AfterUndelegationStarted
	func() {
		fset, f, err := vParse(repo, "x/dogfood/keeper/impl_delegation_hooks.go")
		names := []string{"undelegationMissingFinishEpoch", "undelegationOptOutBranch"}
		if err != nil {
			for _, n := range names {
				emit(n, "", err)
			}
			return
		}
		fd := findFunc(f, "DelegationHooksWrapper.AfterUndelegationStarted")
		if fd == nil {
			for _, n := range names {
				emit(n, "", fmt.Errorf("AfterUndelegationStarted not found"))
			}
			return
		}
		t := &vtr{fset: fset, atoms: map[string]vAtom{"unbondingCompletionEpoch": {"f", "Int"}}}
		// the branch taken for an operator that is removing its key: the first if whose condition
		// calls IsOperatorRemovingKeyFromChainID
		var branch *ast.BlockStmt
		ast.Inspect(fd.Body, func(x ast.Node) bool {
			ifs, is := x.(*ast.IfStmt)
			if is && branch == nil && strings.Contains(t.src(ifs.Cond), "IsOperatorRemovingKeyFromChainID(") {
				branch = ifs.Body
				return false
			}
			return true
		})
		if branch == nil {
			for _, n := range names {
				emit(n, "", fmt.Errorf("opting-out branch not found"))
			}
			return
		}
		// shape of the branch: every statement that touches unbondingCompletionEpoch, in order
		var shape []string
		cond := ""
		for _, st := range branch.List {
			txt := t.src(st)
			if !strings.Contains(txt, "unbondingCompletionEpoch") {
				continue
			}
			switch x := st.(type) {
			case *ast.AssignStmt:
				if len(x.Lhs) == 1 && exprText(x.Lhs[0]) == "unbondingCompletionEpoch" && len(x.Rhs) == 1 {
					if c, ok := x.Rhs[0].(*ast.CallExpr); ok {
						if sel, ok := c.Fun.(*ast.SelectorExpr); ok {
							shape = append(shape, "assign:"+sel.Sel.Name)
							continue
						}
					}
				}
				shape = append(shape, "assign:?")
			case *ast.IfStmt:
				if x.Init == nil && x.Else == nil && len(x.Body.List) == 1 {
					if r, isR := x.Body.List[0].(*ast.ReturnStmt); isR && len(r.Results) == 1 && exprText(r.Results[0]) == "nil" {
						c, e := vGuard(func() string { s, _ := t.expr(x.Cond); return s })
						if e == nil {
							cond = c
							shape = append(shape, "return-nil-if")
							continue
						}
					}
				}
				shape = append(shape, "if:?")
			default:
				shape = append(shape, "stmt:?")
			}
		}
		if cond == "" {
			emit("undelegationMissingFinishEpoch", "", fmt.Errorf("`if unbondingCompletionEpoch <cmp> … { return nil }` not found in the opting-out branch of AfterUndelegationStarted"))
		} else {
			emit("undelegationMissingFinishEpoch", "/-- impl_delegation_hooks.go: AfterUndelegationStarted — condition on the opt-out finish epoch f under which the hook returns nil without holding -/\ndef undelegationMissingFinishEpoch (f : Int) : Bool := "+cond, nil)
		}
		emit("undelegationOptOutBranch", "/-- impl_delegation_hooks.go: AfterUndelegationStarted, operator opting out — the statements that read or write the completion epoch, in order -/\ndef undelegationOptOutBranch : List String := "+leanStrList(shape), nil)
	}()
	// ---- impl_epochs_hooks.go: AfterEpochEnd
	func() {
		_, f, err := vParse(repo, "x/dogfood/keeper/impl_epochs_hooks.go")
		if err != nil {
			emit("afterEpochEndMoves", "", err)
			return
		}
		fd := findFunc(f, "EpochsHooksWrapper.AfterEpochEnd")
		if fd == nil {
			emit("afterEpochEndMoves", "", fmt.Errorf("AfterEpochEnd not found"))
			return
		}
		emit("afterEpochEndMoves", "/-- impl_epochs_hooks.go: AfterEpochEnd — store calls in source order -/\ndef afterEpochEndMoves : List String := "+
			leanStrList(callNames(fd.Body, func(n string) bool { return isStoreCall(n) && n != "GetEpochIdentifier" })), nil)
	}()
	// ---- consensus_keys.go: guards of setOperatorConsKeyForChainID, in order
	func() {
		_, f, err := vParse(repo, "x/operator/keeper/consensus_keys.go")
		if err != nil {
			emit("setConsKeyGuards", "", err)
			return
		}
		fd := findFunc(f, "Keeper.setOperatorConsKeyForChainID")
		if fd == nil {
			emit("setConsKeyGuards", "", fmt.Errorf("setOperatorConsKeyForChainID not found"))
			return
		}
		var errs []string
		ast.Inspect(fd.Body, func(x ast.Node) bool {
			if r, ok := x.(*ast.ReturnStmt); ok && len(r.Results) == 1 {
				if sel, ok := r.Results[0].(*ast.SelectorExpr); ok && strings.HasPrefix(sel.Sel.Name, "Err") {
					errs = append(errs, sel.Sel.Name)
				}
			}
			return true
		})
		emit("setConsKeyGuards", "/-- consensus_keys.go: setOperatorConsKeyForChainID — sentinel errors returned, in source order -/\ndef setConsKeyGuards : List String := "+leanStrList(errs), nil)
		// CompleteOperatorKeyRemovalForChainID deletes
		fd2 := findFunc(f, "Keeper.CompleteOperatorKeyRemovalForChainID")
		if fd2 == nil {
			emit("completeRemovalDeletes", "", fmt.Errorf("CompleteOperatorKeyRemovalForChainID not found"))
			return
		}
		var dels []string
		ast.Inspect(fd2.Body, func(x ast.Node) bool {
			if c, ok := x.(*ast.CallExpr); ok && exprText(c.Fun) == "store.Delete" && len(c.Args) == 1 {
				if in, ok := c.Args[0].(*ast.CallExpr); ok {
					dels = append(dels, strings.TrimPrefix(exprText(in.Fun), "types."))
				}
			}
			return true
		})
		emit("completeRemovalDeletes", "/-- consensus_keys.go: CompleteOperatorKeyRemovalForChainID — keys deleted -/\ndef completeRemovalDeletes : List String := "+leanStrList(dels), nil)
	}()
}
