package main

// NEGATIVE TRANSLATOR FIXTURES — each function uses a form outside the GoLite subset of
// tools/exofacts/translate.go and must be rejected by `exofacts -selftest` with an error containing the text
// after `want:`. (Parsed only; never compiled.)

import (
	"math/big"
	"time"

	sdkmath "cosmossdk.io/math"
)

// want: unsupported statement *ast.ForStmt
func NegFor(x int64) int64 {
	for i := 0; i < 3; i++ {
		x++
	}
	return x
}

// want: unsupported statement *ast.RangeStmt
func NegRange(s string) int64 {
	var n int64
	for range s {
		n++
	}
	return n
}

// want: unsupported statement *ast.SwitchStmt
func NegSwitch(x int64) int64 {
	switch {
	case x > 0:
		return 1
	}
	return 0
}

// want: unsupported statement *ast.GoStmt
func NegGo(x int64) int64 {
	go fxTrace("x")
	return x
}

// want: unsupported statement *ast.SelectStmt
func NegSelect(x int64) int64 {
	select {}
	return x
}

// want: unsupported statement *ast.LabeledStmt
func NegLabel(x int64) int64 {
again:
	x++
	if x < 0 {
		goto again
	}
	return x
}

// want: unsupported statement *ast.BranchStmt
func NegGoto(x int64) int64 {
	if x < 0 {
		goto done
	}
	x++
done:
	return x
}

// want: unsupported expression *ast.FuncLit
func NegClosure(x int64) int64 {
	f := func() int64 { return 1 }
	return x + f()
}

// want: shadows a variable of an enclosing scope
func NegShadow(x int64) int64 {
	y := x + 1
	if x > 0 {
		y := x * 2
		x = y
	}
	return x + y
}

// want: shadows a variable of an enclosing scope
func NegShadowVar(x int64) int64 {
	y := x + 1
	{
		var y int64 = 7
		x = y
	}
	return x + y
}

// want: shadows a variable of an enclosing scope
func NegShadowParam(x int64) int64 {
	if x > 0 {
		x := int64(5)
		return x
	}
	return x
}

// want: shadows a variable of an enclosing scope
func NegShadowElse(x int64) int64 {
	y := x
	if x > 0 {
		x++
	} else if x < -5 {
		x--
	} else {
		y := x * 3
		x = y
	}
	return x + y
}

// want: unsupported if-initialiser
func NegIfInitExpr(x int64) int64 {
	if y := x + 1; y > 0 {
		return y
	}
	return x
}

// want: if-initialiser call helper not whitelisted
func NegIfInitCall(x int64) int64 {
	if y := helper(x); y > 0 {
		return y
	}
	return x
}

// want: unsupported if-initialiser
func NegIfInitMulti(x int64) int64 {
	if a, b := helper2(x); a > b {
		return a
	}
	return x
}

// want: multi-value assignment
func NegMultiValue(x int64) int64 {
	a, b := helper2(x)
	return a + b
}

// want: parallel assignment
func NegSwap(a int64, b int64) int64 {
	a, b = b, a
	return a - b
}

// want: parallel assignment
func NegParallelDefine(a int64, b int64) int64 {
	c, d := a+b, a-b
	return c * d
}

// want: unknown method Dec.Power
func NegUnknownMethod(d sdkmath.LegacyDec) sdkmath.LegacyDec {
	return d.Power(2)
}

// want: unknown method Int.ModRaw
func NegUnknownIntMethod(i sdkmath.Int) sdkmath.Int {
	return i.ModRaw(7)
}

// want: Int.Add takes 1 argument(s) in the whitelist, called with 2
func NegArity(x *big.Int, y *big.Int) *big.Int {
	return x.Add(x, y)
}

// want: sdkmath.NewInt takes 1 argument(s) in the whitelist, called with 0
func NegFuncArity(x int64) sdkmath.Int {
	return sdkmath.NewInt()
}

// want: unknown function helper
func NegUnknownFunc(x int64) int64 {
	return helper(x)
}

// want: unknown variable sdkmath
func NegUnknownCtor(x int64) sdkmath.LegacyDec {
	return sdkmath.LegacyNewDecWithPrec(x, 2)
}

// want: compares pointers
func NegDecEq(a sdkmath.LegacyDec, b sdkmath.LegacyDec) bool {
	return a == b
}

// want: compares pointers
func NegDecNeq(a sdkmath.LegacyDec, b sdkmath.LegacyDec) bool {
	if a != b {
		return true
	}
	return false
}

// want: on sdkmath.Int / *big.Int / time.Time values compares pointers
func NegIntEq(a sdkmath.Int, b sdkmath.Int) bool {
	return a == b
}

// want: on sdkmath.Int / *big.Int / time.Time values compares pointers
func NegBigPtrNeq(a *big.Int, b *big.Int) bool {
	return a != b
}

// want: on sdkmath.Int / *big.Int / time.Time values compares pointers
func NegIntEqLocal(x int64, y int64) bool {
	c := sdkmath.NewInt(x)
	var d sdkmath.Int
	d = sdkmath.NewInt(y)
	return c == d
}

// want: on sdkmath.Int / *big.Int / time.Time values compares pointers
func NegIntEqResult(d sdkmath.LegacyDec, x int64) bool {
	return d.TruncateInt() == sdkmath.NewInt(x)
}

// want: on sdkmath.Int / *big.Int / time.Time values compares pointers
func NegTimeEq(a time.Time, b time.Time) bool {
	return a == b
}

// want: binary op <<
func NegShift(x int64) int64 {
	return x << 2
}

// want: binary op &
func NegBitAnd(x int64) int64 {
	return x & 1
}

// want: binary op &^
func NegAndNot(x int64) int64 {
	return x &^ 1
}

// want: unary ^
func NegUnaryXor(x int64) int64 {
	return ^x
}

// want: unary +
func NegUnaryPlus(x int64) int64 {
	return +x
}

// want: literal 1.5
func NegFloat(x int64) int64 {
	return x * 1.5
}

// want: literal 'a'
func NegChar(x int64) int64 {
	return x + 'a'
}

// want: unsupported expression *ast.IndexExpr
func NegIndex(s string) string {
	return s[0]
}

// want: unsupported expression *ast.SliceExpr
func NegSlice(s string) string {
	return s[1:]
}

// want: unsupported expression *ast.CompositeLit
func NegComposite(x int64) int64 {
	r := FxRec{Count: x}
	return r.Count
}

// want: unsupported expression *ast.TypeAssertExpr
func NegTypeAssert(x int64) int64 {
	return x.(int64)
}

// want: is neither an effect nor a whitelisted no-op
func NegPanic(x int64) int64 {
	if x > 0 {
		return x
	}
	panic("negative")
}

// want: is neither an effect nor a whitelisted no-op
func NegCallStmt(x int64) int64 {
	notify(x)
	return x
}

// want: defer cleanup
func NegDefer(x int64) int64 {
	defer cleanup()
	return x
}

// want: assignment op /=
func NegQuoAssign(x int64) int64 {
	x /= 2
	return x
}

// want: assignment op <<=
func NegShlAssign(x int64) int64 {
	x <<= 2
	return x
}

// want: compound assignment on Dec
func NegCompoundDec(d sdkmath.LegacyDec) sdkmath.LegacyDec {
	d += d
	return d
}

// want: arithmetic/comparison + on String
func NegStringConcat(s string) string {
	return s + "a"
}

// want: arithmetic/comparison < on String
func NegStringLess(s string) bool {
	return s < "a"
}

// want: on Int and Dec
func NegMixed(x int64, d sdkmath.LegacyDec) bool {
	return x == d
}

// want: ! on Int
func NegNotInt(x int64) bool {
	return !x
}

// want: if condition of type Int
func NegIfInt(x int64) int64 {
	if x {
		return 1
	}
	return 0
}

// want: return arity
func NegBareReturn(x int64) (y int64, err error) {
	return
}

// want: return arity
func NegTwoValues(x int64) (int64, int64) {
	return x, x
}

// want: unknown variable globalLimit
func NegGlobal(x int64) int64 {
	return x + globalLimit
}

// want: field Foo of non-struct Int
func NegField(x int64) int64 {
	return x.Foo
}

// want: unknown field ExoVerif.Gen.Fixture.Rec.Missing
func NegUnknownField(rec FxRec) int64 {
	return rec.Missing
}

// want: var r: unsupported type
func NegVarStruct(x int64) int64 {
	var r FxRec
	return r.Count
}

// want: unsupported type
func NegParamMap(m map[string]int64) int64 {
	return 0
}

// want: unsupported type
func NegParamSlice(xs []int64) int64 {
	return 0
}

// want: unsupported type
func NegParamFunc(f func() int64) int64 {
	return 0
}

// want: var f: unsupported type
func NegVarFunc(x int64) int64 {
	var f func() int64
	return x
}

// want: unsupported declaration
func NegConst(x int64) int64 {
	const c = 3
	return x + c
}

// want: unsupported declaration
func NegTypeDecl(x int64) int64 {
	type T int64
	return x
}

// want: function may fall off its end
func NegFallOff(x int64) int64 {
	if x > 0 {
		return 1
	}
}

// want: unsupported error expression
func NegErrExpr(x int64) (int64, error) {
	return 0, makeErr(x)
}

// want: assigning Bool to field Count of type Int
func NegFieldType(rec FxRec) int64 {
	rec.Count = rec.Live
	return rec.Count
}

// want: unsupported assignment target
func NegAssignTarget(s string) string {
	s[0] = "a"
	return s
}

// want: unsupported statement *ast.SendStmt
func NegSend(x int64) int64 {
	ch <- x
	return x
}

// want: expression statement
func NegExprStmt(x int64) int64 {
	<-ch
	return x
}
