package main

// C20 fact `avsTaskAddrKeys`: under which STRING the x/avs keeper files and finds things that belong to a
// task contract, regenerated from the Go source on every run.
//
// The model (lean/ExoVerif/Model/Avs.lean) keys the task store, the result store, the challenge store and the
// lookup of the AVS of a task contract by the address string exactly as it was handed in, and
// Props/C20Spelling.lean proves that THIS is what makes "once per operator and task" and the statistics hold
// across spellings of one address (EIP-55 / lower / upper / mixed case, 0X prefix, no prefix): a submission
// under another spelling finds no task. A lookup that canonicalises or folds case on one side only
// (GetTaskInfo via common.HexToAddress(..).String(), GetAVSInfoByTaskAddress via strings.EqualFold) while the
// result keys and the epoch-end grouping keep the raw string breaks that. The fact lists, in source order,
//
//	(function, "key",   <every call of assetstype.GetJoinedStoreKey in x/avs/keeper/task.go>)
//	(function, "group", <the grouping key of GroupTasksByIDAndAddress>)
//	(function, "cmp",   <every `if` condition of GetAVSInfoByTaskAddress, closures included>)
//
// so any change of a key operand or of the comparison changes the list and breaks C20_tie_task_addr_keys.

import (
	"fmt"
	"go/ast"
	"go/parser"
	"go/token"
	"strings"
)

func init() { factGens = append(factGens, avsKeyFacts) }

func avsKeyFacts(repo string, emit func(name, leanDef string, err error)) {
	const fact = "avsTaskAddrKeys"
	fset := token.NewFileSet()
	type row struct{ fn, kind, text string }
	var rows []row
	f, err := parser.ParseFile(fset, repo+"/x/avs/keeper/task.go", nil, 0)
	if err != nil {
		emit(fact, "", err)
		return
	}
	nGroup := 0
	for _, d := range f.Decls {
		fd, ok := d.(*ast.FuncDecl)
		if !ok || fd.Body == nil {
			continue
		}
		ast.Inspect(fd.Body, func(n ast.Node) bool {
			switch t := n.(type) {
			case *ast.CallExpr:
				if strings.HasSuffix(avsSrc(fset, t.Fun), "GetJoinedStoreKey") {
					rows = append(rows, row{fd.Name.Name, "key", avsSrc(fset, t)})
				}
			case *ast.AssignStmt:
				if fd.Name.Name == "GroupTasksByIDAndAddress" && len(t.Lhs) == 1 && avsSrc(fset, t.Lhs[0]) == "key" {
					nGroup++
					rows = append(rows, row{fd.Name.Name, "group", avsSrc(fset, t.Rhs[0])})
				}
			}
			return true
		})
	}
	if nGroup != 1 {
		emit(fact, "", fmt.Errorf("GroupTasksByIDAndAddress: %d assignments to `key`, want exactly 1", nGroup))
		return
	}
	g, err := parser.ParseFile(fset, repo+"/x/avs/keeper/avs.go", nil, 0)
	if err != nil {
		emit(fact, "", err)
		return
	}
	fn := avsFindFunc(g, "GetAVSInfoByTaskAddress")
	if fn == nil {
		emit(fact, "", fmt.Errorf("x/avs/keeper/avs.go: GetAVSInfoByTaskAddress not found"))
		return
	}
	nCmp := 0
	ast.Inspect(fn.Body, func(n ast.Node) bool {
		if i, ok := n.(*ast.IfStmt); ok {
			nCmp++
			rows = append(rows, row{"GetAVSInfoByTaskAddress", "cmp", avsSrc(fset, i.Cond)})
		}
		return true
	})
	if nCmp == 0 {
		emit(fact, "", fmt.Errorf("GetAVSInfoByTaskAddress: no comparison found"))
		return
	}
	var b strings.Builder
	fmt.Fprintf(&b, "/-- x/avs/keeper/task.go + avs.go: the strings under which tasks, results and challenges are filed and found, the epoch-end grouping key and the task-address comparison of GetAVSInfoByTaskAddress (function, kind, source) -/\ndef %s : List (String × String × String) := [", fact)
	for i, r := range rows {
		if i > 0 {
			b.WriteString(",")
		}
		fmt.Fprintf(&b, "\n  (%q, %q, %q)", r.fn, r.kind, r.text)
	}
	b.WriteString("]")
	emit(fact, b.String(), nil)
}
