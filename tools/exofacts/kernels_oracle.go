package main

// Oracle kernels (C12/C13/C14): the strict threshold comparison, translated from
// x/oracle/keeper/common/types.go. `new(big.Int).Mul(x, y)` is big.Int's three-address form.

func init() {
	methods["BigRecv"] = map[string]callRule{
		"Mul": {"($1 * $2)", "Int"}, "Add": {"($1 + $2)", "Int"}, "Sub": {"($1 - $2)", "Int"},
		"Div": {"($1 / $2)", "Int"}, // big.Int.Div is Euclidean division = Lean's Int `/`
	}
	funcs["big.NewInt"] = callRule{"$1", "Int"}
	kernels = append(kernels, &Kernel{
		Name: "oracleExceedsThreshold", File: "x/oracle/keeper/common/types.go", Func: "ExceedsThreshold",
		Params:  []string{"(power : Int)", "(totalPower : Int)", "(ThresholdA : Int)", "(ThresholdB : Int)"},
		RetType: "Bool", RetMode: "value",
		Vars: map[string]string{"ThresholdA": "Int", "ThresholdB": "Int"},
		Calls: map[string]callRule{
			"big.Int": {"(0 : Int)", "Int"},
			"new":     {"(0 : Int)", "BigRecv"},
		},
		Skips: commonSkips,
	})
}
