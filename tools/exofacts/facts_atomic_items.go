package main

// C09, second sentence: WHERE the cache context of a per-item loop of block processing stands.
//
// `blockLoopShapes` (facts_atomic_values.go) counts the CacheContext calls inside each loop body. This fact
// says it outright, for the same three in-repository loops, relative to the loop statement:
//
//   blockLoopCacheScope   (loop, ["cache-in-body=N",        CacheContext() calls inside the loop body
//                                 "cache-before-loop=N",    … in the enclosing function before the loop statement
//                                 "cache-after-loop=N",     … after it
//                                 "item-ctx=<v>:<where>",   the context variable(s) handed as first argument to the
//                                                           store-writing callees of the body (Set*/Delete*/Update*/
//                                                           Remove*/Undelegate*), and where each is bound:
//                                                           body | before-loop | param | unknown
//                                 "commit=<f>:<where>"])    the commit function of a CacheContext call and where it is bound
//
// A cache context per item = "cache-in-body=1", item-ctx and commit bound in the body. One cache context hoisted
// out of the loop (shared by all items: a failed item's writes are committed by the next successful one, see
// Props/C09Items.lean: C09_shared_cache_not_isolating) = "cache-in-body=0", "cache-before-loop=1", bound before-loop.

import (
	"fmt"
	"go/ast"
	"go/token"
	"sort"
	"strings"
)

func init() {
	factGens = append(factGens, genAtomicItemFacts)
}

func genAtomicItemFacts(repo string, emit func(name, leanDef string, err error)) {
	var rows [][2]interface{}
	var ferr error
	for _, m := range [][4]string{
		{"delegation.EndBlock.records", "x/delegation/keeper/abci.go", "EndBlock", "records"},
		{"operator.AfterEpochEnd.avsList", "x/operator/keeper/impl_epoch_hook.go", "AfterEpochEnd", "avsList"},
		{"avs.AfterEpochEnd.groupedTasks", "x/avs/keeper/impl_epoch_hook.go", "AfterEpochEnd", "groupedTasks"},
	} {
		_, file, err := xbParseGo(repo, m[1])
		if err != nil {
			ferr = err
			continue
		}
		fd := xbFindFunc(file, m[2], "")
		if fd == nil {
			ferr = fmt.Errorf("%s: func %s not found", m[1], m[2])
			continue
		}
		var loop *ast.RangeStmt
		ast.Inspect(fd.Body, func(n ast.Node) bool {
			if r, ok := n.(*ast.RangeStmt); ok && loop == nil && exprText(r.X) == m[3] {
				loop = r
			}
			return true
		})
		if loop == nil {
			ferr = fmt.Errorf("%s: range over %s not found", m[1], m[3])
			continue
		}
		where := func(p token.Pos) string {
			switch {
			case p >= loop.Body.Pos() && p <= loop.Body.End():
				return "body"
			case p < loop.Pos():
				return "before-loop"
			}
			return "after-loop"
		}
		params := map[string]bool{}
		if fd.Type.Params != nil {
			for _, f := range fd.Type.Params.List {
				for _, n := range f.Names {
					params[n.Name] = true
				}
			}
		}
		bound := map[string]string{} // variable -> where it is bound (first binding wins for the report)
		inBody, before, after := 0, 0, 0
		commits := map[string]string{}
		ast.Inspect(fd.Body, func(n ast.Node) bool {
			switch t := n.(type) {
			case *ast.FuncLit:
				return false
			case *ast.AssignStmt:
				if t.Tok == token.DEFINE || t.Tok == token.ASSIGN {
					for _, l := range t.Lhs {
						if id, ok := l.(*ast.Ident); ok && id.Name != "_" {
							if _, seen := bound[id.Name]; !seen {
								bound[id.Name] = where(t.Pos())
							}
						}
					}
					if len(t.Lhs) == 2 && len(t.Rhs) == 1 {
						if c, ok := t.Rhs[0].(*ast.CallExpr); ok && xbCalleeName(c) == "CacheContext" {
							commits[exprText(t.Lhs[1])] = where(t.Pos())
						}
					}
				}
			case *ast.CallExpr:
				if xbCalleeName(t) == "CacheContext" {
					switch where(t.Pos()) {
					case "body":
						inBody++
					case "before-loop":
						before++
					default:
						after++
					}
				}
			}
			return true
		})
		ctxVars := map[string]bool{}
		ast.Inspect(loop.Body, func(n ast.Node) bool {
			switch t := n.(type) {
			case *ast.FuncLit:
				return false
			case *ast.CallExpr:
				nm := xbCalleeName(t)
				if (strings.HasPrefix(nm, "Set") || strings.HasPrefix(nm, "Delete") || strings.HasPrefix(nm, "Update") || strings.HasPrefix(nm, "Remove") || strings.HasPrefix(nm, "Undelegate")) && len(t.Args) > 0 {
					ctxVars[exprText(t.Args[0])] = true
				}
			}
			return true
		})
		out := []string{fmt.Sprintf("cache-in-body=%d", inBody), fmt.Sprintf("cache-before-loop=%d", before), fmt.Sprintf("cache-after-loop=%d", after)}
		var cv []string
		for v := range ctxVars {
			cv = append(cv, v)
		}
		sort.Strings(cv)
		for _, v := range cv {
			w := "unknown"
			if b, ok := bound[v]; ok {
				w = b
			} else if params[v] {
				w = "param"
			}
			out = append(out, "item-ctx="+v+":"+w)
		}
		var cm []string
		for f := range commits {
			cm = append(cm, f)
		}
		sort.Strings(cm)
		for _, f := range cm {
			out = append(out, "commit="+f+":"+commits[f])
		}
		rows = append(rows, [2]interface{}{m[0], out})
	}
	emit("blockLoopCacheScope", "/-- the per-item loops of block-begin/end processing: where CacheContext() is called relative to the loop (in its body / before it / after it), which context variable the store-writing callees of the body receive and where it is bound, and where the commit function is bound -/\ndef blockLoopCacheScope : List (String × List String) := "+avLeanPairListList(rows), ferr)
}
