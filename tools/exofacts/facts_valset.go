package main

// Tie A for C06 / C07 / C16: comparators, loop bodies and scheduling expressions of
// x/dogfood/keeper/{abci.go,validators.go,unbonding.go,opt_out.go,impl_*_hooks.go},
// utils/utils.go and x/operator/keeper/consensus_keys.go, re-read from the Go source on every
// run and emitted as Lean definitions (Generated/Facts.lean, namespace ExoVerif.Gen).
// The shared translator has no index expressions, loops or `break`; this file has its own
// small one (source-text atoms + boolean/integer operators), which fails closed.

import (
	"bytes"
	"fmt"
	"go/ast"
	"go/parser"
	"go/printer"
	"go/token"
	"strings"
)

func init() { factGens = append(factGens, genValsetFacts) }

type vAtom struct{ lean, ty string }

type vtr struct {
	fset  *token.FileSet
	atoms map[string]vAtom
}

func (t *vtr) src(n ast.Node) string {
	var b bytes.Buffer
	printer.Fprint(&b, t.fset, n)
	return strings.Join(strings.Fields(b.String()), " ")
}

type vErr struct{ msg string }

func vfail(f string, a ...interface{}) { panic(vErr{fmt.Sprintf(f, a...)}) }

func (t *vtr) expr(e ast.Expr) (string, string) {
	if a, ok := t.atoms[t.src(e)]; ok {
		return a.lean, a.ty
	}
	switch x := e.(type) {
	case *ast.ParenExpr:
		return t.expr(x.X)
	case *ast.BasicLit:
		if x.Kind == token.INT {
			return "(" + x.Value + " : Int)", "Int"
		}
	case *ast.Ident:
		if x.Name == "true" || x.Name == "false" {
			return x.Name, "Bool"
		}
	case *ast.UnaryExpr:
		if x.Op == token.NOT {
			s, ty := t.expr(x.X)
			if ty != "Bool" {
				vfail("! on %s", ty)
			}
			return "(!" + s + ")", "Bool"
		}
	case *ast.CallExpr:
		f := t.src(x.Fun)
		if (f == "int" || f == "int64" || f == "uint64" || f == "sdk.NewInt" || f == "math.NewInt") && len(x.Args) == 1 {
			s, ty := t.expr(x.Args[0])
			if ty != "Int" {
				vfail("%s(%s)", f, ty)
			}
			return s, "Int"
		}
	case *ast.BinaryExpr:
		a, ta := t.expr(x.X)
		b, tb := t.expr(x.Y)
		if ta != tb {
			vfail("operator %s on %s and %s in %s", x.Op, ta, tb, t.src(e))
		}
		switch x.Op {
		case token.LAND:
			return "(" + a + " && " + b + ")", "Bool"
		case token.LOR:
			return "(" + a + " || " + b + ")", "Bool"
		case token.EQL:
			return "(" + a + " == " + b + ")", "Bool"
		case token.NEQ:
			return "(" + a + " != " + b + ")", "Bool"
		}
		if ta != "Int" && ta != "Nat" {
			vfail("comparison %s on %s", x.Op, ta)
		}
		switch x.Op {
		case token.LSS:
			return "(decide (" + a + " < " + b + "))", "Bool"
		case token.LEQ:
			return "(decide (" + a + " ≤ " + b + "))", "Bool"
		case token.GTR:
			return "(decide (" + b + " < " + a + "))", "Bool"
		case token.GEQ:
			return "(decide (" + b + " ≤ " + a + "))", "Bool"
		case token.ADD:
			return "(" + a + " + " + b + ")", ta
		case token.SUB:
			return "(" + a + " - " + b + ")", ta
		}
	}
	vfail("unsupported expression %s", t.src(e))
	return "", ""
}

// retStmts translates `if c { return a }; return b` bodies (comparators) to a Lean Bool term.
func (t *vtr) retStmts(list []ast.Stmt) string {
	if len(list) == 0 {
		vfail("comparator falls off its end")
	}
	switch s := list[0].(type) {
	case *ast.ReturnStmt:
		if len(s.Results) != 1 {
			vfail("return arity")
		}
		v, ty := t.expr(s.Results[0])
		if ty != "Bool" {
			vfail("comparator returns %s", ty)
		}
		return v
	case *ast.IfStmt:
		if s.Init != nil {
			vfail("if-initialiser in comparator")
		}
		c, ty := t.expr(s.Cond)
		if ty != "Bool" {
			vfail("condition type %s", ty)
		}
		th := t.retStmts(append(append([]ast.Stmt{}, s.Body.List...), list[1:]...))
		var el string
		switch e := s.Else.(type) {
		case nil:
			el = t.retStmts(list[1:])
		case *ast.BlockStmt:
			el = t.retStmts(append(append([]ast.Stmt{}, e.List...), list[1:]...))
		default:
			vfail("else-if in comparator")
		}
		return "(if " + c + " then " + th + " else " + el + ")"
	}
	vfail("unsupported comparator statement %s", t.src(list[0]))
	return ""
}

// loopStmts translates a loop body to `Option (List (String × Int))`: none = break,
// some effs = the effects of one full iteration, in program order.
// binds = statements that must appear verbatim (they fix what the atoms mean).
func (t *vtr) loopStmts(list []ast.Stmt, binds map[string]bool, effects func(s ast.Stmt) (string, bool)) string {
	if len(list) == 0 {
		return "some effs"
	}
	s := list[0]
	rest := list[1:]
	if binds[t.src(s)] {
		return t.loopStmts(rest, binds, effects)
	}
	if eff, ok := effects(s); ok {
		return "(let effs := effs ++ [" + eff + "]; " + t.loopStmts(rest, binds, effects) + ")"
	}
	switch x := s.(type) {
	case *ast.BranchStmt:
		if x.Tok == token.BREAK && x.Label == nil {
			return "none"
		}
	case *ast.IfStmt:
		if x.Init != nil {
			vfail("if-initialiser %s", t.src(x.Init))
		}
		c, ty := t.expr(x.Cond)
		if ty != "Bool" {
			vfail("condition type %s", ty)
		}
		th := t.loopStmts(append(append([]ast.Stmt{}, x.Body.List...), rest...), binds, effects)
		var el string
		switch e := x.Else.(type) {
		case nil:
			el = t.loopStmts(rest, binds, effects)
		case *ast.BlockStmt:
			el = t.loopStmts(append(append([]ast.Stmt{}, e.List...), rest...), binds, effects)
		case *ast.IfStmt:
			el = t.loopStmts(append([]ast.Stmt{e}, rest...), binds, effects)
		}
		return "(if " + c + " then " + th + " else " + el + ")"
	}
	vfail("unsupported loop statement: %s", t.src(s))
	return ""
}

func vParse(repo, file string) (*token.FileSet, *ast.File, error) {
	fset := token.NewFileSet()
	f, err := parser.ParseFile(fset, repo+"/"+file, nil, 0)
	return fset, f, err
}

func firstFuncLit(n ast.Node) *ast.FuncLit {
	var res *ast.FuncLit
	ast.Inspect(n, func(x ast.Node) bool {
		if res != nil {
			return false
		}
		if fl, ok := x.(*ast.FuncLit); ok {
			res = fl
			return false
		}
		return true
	})
	return res
}

// vGuard runs f and converts a translator panic into an error.
func vGuard(f func() string) (out string, err error) {
	defer func() {
		if r := recover(); r != nil {
			if ve, ok := r.(vErr); ok {
				err = fmt.Errorf("%s", ve.msg)
				return
			}
			panic(r)
		}
	}()
	return f(), nil
}

func genValsetFacts(repo string, emit func(name, leanDef string, err error)) {
	// ---- utils.SortByPower: the `less` closure
	func() {
		fset, f, err := vParse(repo, "utils/utils.go")
		if err != nil {
			emit("sortByPowerLess", "", err)
			return
		}
		fd := findFunc(f, "SortByPower")
		if fd == nil {
			emit("sortByPowerLess", "", fmt.Errorf("SortByPower not found"))
			return
		}
		fl := firstFuncLit(fd.Body)
		if fl == nil {
			emit("sortByPowerLess", "", fmt.Errorf("no closure in SortByPower"))
			return
		}
		t := &vtr{fset: fset, atoms: map[string]vAtom{
			"powers[indices[i]]": {"pi", "Int"}, "powers[indices[j]]": {"pj", "Int"},
			"bytes.Compare(operatorAddrs[indices[i]], operatorAddrs[indices[j]])": {"cmp", "Int"},
		}}
		body, err := vGuard(func() string { return t.retStmts(fl.Body.List) })
		emit("sortByPowerLess", "/-- utils/utils.go: SortByPower, the `less(i, j)` closure; cmp = bytes.Compare(addr i, addr j) -/\ndef sortByPowerLess (pi pj cmp : Int) : Bool :=\n  "+body, err)
	}()

	// ---- validators.go: ApplyValidatorChanges
	func() {
		fset, f, err := vParse(repo, "x/dogfood/keeper/validators.go")
		names := []string{"valUpdateLess", "avcRemoveCond", "avcAddCond", "avcRepowerWriteCtx"}
		if err != nil {
			for _, n := range names {
				emit(n, "", err)
			}
			return
		}
		fd := findFunc(f, "Keeper.ApplyValidatorChanges")
		if fd == nil {
			for _, n := range names {
				emit(n, "", fmt.Errorf("ApplyValidatorChanges not found"))
			}
			return
		}
		t := &vtr{fset: fset, atoms: map[string]vAtom{
			"ret[i].Power": {"pi", "Int"}, "ret[j].Power": {"pj", "Int"},
			"ret[i].PubKey.String()": {"ki", "Nat"}, "ret[j].PubKey.String()": {"kj", "Nat"},
			"change.Power": {"power", "Int"},
		}}
		// the sort.Slice(ret, func…) closure
		var less *ast.FuncLit
		ast.Inspect(fd.Body, func(n ast.Node) bool {
			c, ok := n.(*ast.CallExpr)
			if ok && t.src(c.Fun) == "sort.Slice" && len(c.Args) == 2 && t.src(c.Args[0]) == "ret" {
				less, _ = c.Args[1].(*ast.FuncLit)
			}
			return true
		})
		if less == nil {
			emit("valUpdateLess", "", fmt.Errorf("sort.Slice(ret, …) not found"))
		} else {
			body, err := vGuard(func() string { return t.retStmts(less.Body.List) })
			emit("valUpdateLess", "/-- validators.go: ApplyValidatorChanges, closure of the final sort.Slice; ki/kj stand for PubKey.String() -/\ndef valUpdateLess (pi pj : Int) (ki kj : Nat) : Bool :=\n  "+body, err)
		}
		// the switch found { case true: if A {…} else {…}; case false: if B {…} else {…} }
		var sw *ast.SwitchStmt
		ast.Inspect(fd.Body, func(n ast.Node) bool {
			if s, ok := n.(*ast.SwitchStmt); ok && sw == nil && s.Tag != nil && t.src(s.Tag) == "found" {
				sw = s
			}
			return true
		})
		if sw == nil {
			for _, n := range names[1:] {
				emit(n, "", fmt.Errorf("switch found {…} not found"))
			}
			return
		}
		for _, cc := range sw.Body.List {
			cl := cc.(*ast.CaseClause)
			if len(cl.List) != 1 || len(cl.Body) == 0 {
				continue
			}
			ifs, ok := cl.Body[0].(*ast.IfStmt)
			if !ok {
				continue
			}
			switch t.src(cl.List[0]) {
			case "true":
				c, err := vGuard(func() string { s, _ := t.expr(ifs.Cond); return s })
				emit("avcRemoveCond", "/-- ApplyValidatorChanges, case found: condition of the delete branch -/\ndef avcRemoveCond (power : Int) : Bool := "+c, err)
				// else branch: the receiver context of SetExocoreValidator and whether it precedes the reverse lookup
				els, _ := ifs.Else.(*ast.BlockStmt)
				ctxArg, seen, pos, posLookup := "", false, -1, -1
				if els != nil {
					for i, st := range els.List {
						txt := t.src(st)
						if strings.HasPrefix(txt, "k.SetExocoreValidator(") && !seen {
							seen = true
							pos = i
							ctxArg = t.src(st.(*ast.ExprStmt).X.(*ast.CallExpr).Args[0])
						}
						if strings.Contains(txt, "GetOperatorAddressForChainIDAndConsAddr(") && posLookup < 0 {
							posLookup = i
						}
					}
				}
				if !seen || posLookup < 0 {
					emit("avcRepowerWriteCtx", "", fmt.Errorf("SetExocoreValidator / reverse lookup not found in the re-power branch"))
				} else {
					emit("avcRepowerWriteCtx", fmt.Sprintf("/-- ApplyValidatorChanges, case found ∧ power ≥ 1: (context SetExocoreValidator writes to, written before the reverse lookup) -/\ndef avcRepowerWriteCtx : String × Bool := (%q, %v)", ctxArg, pos < posLookup), nil)
				}
			case "false":
				c, err := vGuard(func() string { s, _ := t.expr(ifs.Cond); return s })
				emit("avcAddCond", "/-- ApplyValidatorChanges, case !found: condition of the create branch -/\ndef avcAddCond (power : Int) : Bool := "+c, err)
			}
		}
	}()

	// ---- abci.go: EndBlock
	func() {
		fset, f, err := vParse(repo, "x/dogfood/keeper/abci.go")
		names := []string{"endBlockLoopBody", "endBlockRemovalPower", "endBlockSetTotalCond", "endBlockOrder"}
		fail := func(e error) {
			for _, n := range names {
				emit(n, "", e)
			}
		}
		if err != nil {
			fail(err)
			return
		}
		fd := findFunc(f, "Keeper.EndBlock")
		if fd == nil {
			fail(fmt.Errorf("EndBlock not found"))
			return
		}
		t := &vtr{fset: fset, atoms: map[string]vAtom{
			"i": {"i", "Int"}, "maxVals": {"maxVals", "Int"}, "power": {"power", "Int"},
			"prevPower": {"prevPower", "Int"}, "found": {"found", "Bool"}, "len(res)": {"n", "Int"},
		}}
		var loop, remLoop *ast.RangeStmt
		var order []string
		for _, st := range fd.Body.List {
			txt := t.src(st)
			switch {
			case strings.HasPrefix(txt, "if !k.IsEpochEnd(ctx)"):
				order = append(order, "notEpochEnd-return")
			case strings.HasPrefix(txt, "k.operatorKeeper.ClearPreviousConsensusKeys("):
				order = append(order, "clearPrevKeys")
			case strings.HasPrefix(txt, "undelegations := k.GetPendingUndelegations("):
				order = append(order, "pendingUndelegations")
			case strings.HasPrefix(txt, "optOuts := k.GetPendingOptOuts("):
				order = append(order, "pendingOptOuts")
			case strings.HasPrefix(txt, "consensusAddrs := k.GetPendingConsensusAddrs("):
				order = append(order, "pendingConsAddrs")
			case strings.HasPrefix(txt, "k.ClearPendingUndelegations("):
				order = append(order, "clearPendingUndelegations")
			case strings.HasPrefix(txt, "k.ClearPendingOptOuts("):
				order = append(order, "clearPendingOptOuts")
			case strings.HasPrefix(txt, "k.ClearPendingConsensusAddrs("):
				order = append(order, "clearPendingConsAddrs")
			case strings.HasPrefix(txt, "prevList := k.GetAllExocoreValidators("):
				order = append(order, "prevList")
			case strings.HasPrefix(txt, "operators, keys := k.operatorKeeper.GetActiveOperatorsForChainID("):
				order = append(order, "activeOperators")
			case strings.HasPrefix(txt, "operators, keys, powers = utils.SortByPower(operators, keys, powers)"):
				order = append(order, "sortByPower")
			case strings.HasPrefix(txt, "return k.ApplyValidatorChanges(ctx, res)"):
				order = append(order, "applyValidatorChanges")
			case strings.HasPrefix(txt, "defer k.ClearEpochEnd(ctx)"):
				order = append(order, "defer-clearEpochEnd")
			}
			if rs, ok := st.(*ast.RangeStmt); ok {
				switch t.src(rs.X) {
				case "operators":
					loop = rs
					order = append(order, "diffLoop")
				case "prevList":
					if loop != nil {
						remLoop = rs
						order = append(order, "removalLoop")
					}
				}
			}
			if ifs, ok := st.(*ast.IfStmt); ok && strings.Contains(t.src(ifs.Body), "k.SetLastTotalPower(ctx, totalPower)") {
				c, err := vGuard(func() string { s, _ := t.expr(ifs.Cond); return s })
				emit("endBlockSetTotalCond", "/-- abci.go: EndBlock, condition under which SetLastTotalPower is called; n = len(res) -/\ndef endBlockSetTotalCond (n : Int) : Bool := "+c, err)
				order = append(order, "setLastTotalPower")
			}
		}
		emit("endBlockOrder", "/-- abci.go: EndBlock, order of its top-level steps -/\ndef endBlockOrder : List String := "+leanStrList(order), nil)
		if loop == nil {
			emit("endBlockLoopBody", "", fmt.Errorf("for i := range operators not found"))
		} else {
			binds := map[string]bool{
				"power := powers[i]": true, "wrappedKey := keys[i]": true,
				"addressString := wrappedKey.ToConsAddr().String()": true,
				"prevPower, found := prevMap[addressString]":        true,
			}
			effects := func(s ast.Stmt) (string, bool) {
				txt := t.src(s)
				if txt == "delete(prevMap, addressString)" {
					return "(\"del\", (0 : Int))", true
				}
				if as, ok := s.(*ast.AssignStmt); ok && len(as.Lhs) == 1 && len(as.Rhs) == 1 {
					l := t.src(as.Lhs[0])
					if c, ok := as.Rhs[0].(*ast.CallExpr); ok {
						if l == "res" && t.src(c.Fun) == "append" && len(c.Args) == 2 && t.src(c.Args[0]) == "res" {
							cl, ok := c.Args[1].(*ast.CompositeLit)
							if !ok || !strings.HasSuffix(t.src(cl.Type), "WrappedConsKeyWithPower") {
								vfail("append of %s", t.src(c.Args[1]))
							}
							pw := ""
							for _, el := range cl.Elts {
								kv := el.(*ast.KeyValueExpr)
								switch t.src(kv.Key) {
								case "Key":
									if t.src(kv.Value) != "wrappedKey" {
										vfail("update key is %s", t.src(kv.Value))
									}
								case "Power":
									pw, _ = t.expr(kv.Value)
								}
							}
							return "(\"emit\", " + pw + ")", true
						}
						if l == "totalPower" && t.src(c.Fun) == "totalPower.Add" && len(c.Args) == 1 {
							v, _ := t.expr(c.Args[0])
							return "(\"add\", " + v + ")", true
						}
					}
				}
				return "", false
			}
			body, err := vGuard(func() string { return t.loopStmts(loop.Body.List, binds, effects) })
			emit("endBlockLoopBody", "/-- abci.go: EndBlock, body of `for i := range operators` (none = break; effects in program order:\n  emit p = append {wrappedKey, p} to res, del = delete(prevMap, key), add p = totalPower += p) -/\ndef endBlockLoopBody (i maxVals power prevPower : Int) (found : Bool) : Option (List (String × Int)) :=\n  let effs : List (String × Int) := []\n  "+body, err)
		}
		if remLoop == nil {
			emit("endBlockRemovalPower", "", fmt.Errorf("for … range prevList not found after the diff loop"))
		} else {
			// if _, exists := prevMap[addressString]; exists { res = append(res, {Key:…, Power: P}) }
			pw, err := vGuard(func() string {
				var out string
				ast.Inspect(remLoop.Body, func(n ast.Node) bool {
					ifs, ok := n.(*ast.IfStmt)
					if !ok || ifs.Init == nil || t.src(ifs.Init) != "_, exists := prevMap[addressString]" || t.src(ifs.Cond) != "exists" {
						return true
					}
					ast.Inspect(ifs.Body, func(m ast.Node) bool {
						if kv, ok := m.(*ast.KeyValueExpr); ok && t.src(kv.Key) == "Power" {
							out, _ = t.expr(kv.Value)
						}
						return true
					})
					return false
				})
				if out == "" {
					vfail("removal append not found")
				}
				return out
			})
			emit("endBlockRemovalPower", "/-- abci.go: EndBlock, power given to the validators left in prevMap -/\ndef endBlockRemovalPower : Int := "+pw, err)
		}
	}()

	genKeysFacts(repo, emit)
}
