package main

func init() {
	kernelImports = append(kernelImports, "ExoVerif.Model.Ledger")
	structs["ExoVerif.Ledger.URec"] = map[string]fieldInfo{
		"StakerID":              {"staker", "String"},
		"AssetID":               {"asset", "String"},
		"OperatorAddr":          {"op", "String"},
		"Amount":                {"amount", "Int"},
		"ActualCompletedAmount": {"actual", "Int"},
	}
	kernels = append(kernels,
		&Kernel{
			Name: "slashFromUndelegation", File: "x/operator/keeper/slash.go", Func: "SlashFromUndelegation",
			Params:  []string{"(undelegation : ExoVerif.Ledger.URec)", "(slashProportion : ExoVerif.Dec)"},
			RetType: "ExoVerif.Ledger.URec × Int",
			Vars:    map[string]string{"undelegation": "ExoVerif.Ledger.URec", "slashProportion": "Dec"},
			RetMode: "custom", RetExpr: "(undelegation, slashAmount)", RetNil: "(undelegation, (0 : Int))",
			Skips: commonSkips,
		},
	)
}
