package main

// C11 facts: panic-capable sites in the code that runs inside BeginBlock / EndBlock.
//
//   blockPathRoots            the Begin/EndBlock methods of the custom modules' AppModule and the
//                             epoch / operator / delegation hook implementations found in the repo
//   panicSitesInBlockPaths    "file:Func:kind:expr" for every panic-capable construct in a function
//                             reachable from a root.
//
// Reachability is a syntactic call graph over function *names* inside the repository packages
// (x/, precompiles/, utils/, types/): a call `f(…)` resolves to the package function f, `pkg.F(…)`
// to F of the imported repo package, `x.M(…)` to method M of x's declared type when the typer can
// name it, to every repo method named M when x is an interface or unknown. This over-approximates
// the real call graph (interface dispatch by name) and ignores function values stored in
// variables other than direct hook interfaces. Calls into non-repo packages are leaves.
//
// Kinds: coinsub / newcoin (sdk.Coins|DecCoins.Sub going negative, sdk.NewCoin|NewDecCoin with a
// non-constant amount that may be negative), panic (explicit), must (call of a function named Must…), quo (Quo/QuoInt/QuoRaw/
// QuoInt64/QuoTruncate/QuoRoundUp/Mod… on LegacyDec / sdkmath.Int / big.Int, or on an operand of
// unknown type), intdiv (`/` `%` on Go integers with a non-constant divisor), index (slice / array /
// string index or slice expression with a non-constant index, except `xs[i]` inside
// `for i := range xs` and inside `for i := …; i < len(xs); …`), assert (x.(T) without ok),
// ignorederr (`v, _ := f()` where the blank discards an `error` result of a repo function and v is
// used afterwards as a pointer/struct), conv (sdkmath.Int.Int64()/Uint64(), LegacyDec.TruncateInt64()/RoundInt64():
// panic when the value does not fit; math/big's Int64()/Uint64() wrap silently and are not listed).

import (
	"fmt"
	"go/ast"
	"go/token"
	"sort"
	"strings"
)

func init() {
	factGens = append(factGens, genLivenessFacts)
}

var customModules = []string{"assets", "avs", "delegation", "dogfood", "epochs", "exomint", "feedistribution", "operator", "oracle", "reward", "slash", "evm", "appchain/coordinator", "appchain/subscriber"}

type fnKey struct {
	dir  string
	name string // QName
}

func genLivenessFacts(repo string, emit func(name, leanDef string, err error)) {
	ix, err := loadIndex(repo)
	if err != nil {
		emit("blockPathRoots", "", err)
		emit("panicSitesInBlockPaths", "", err)
		return
	}
	// ---- which x/… packages app/app.go imports at all (a module that is not imported is not wired)
	{
		wired := map[string]bool{}
		if pk := ix.Pkgs["app"]; pk != nil {
			for _, f := range pk.Files {
				for _, p := range f.Imports {
					if strings.HasPrefix(p, repoModule+"x/") {
						d := strings.TrimPrefix(p, repoModule)
						for _, suf := range []string{"/keeper", "/types", "/client", "/simulation"} {
							if i := strings.Index(d, suf); i > 0 {
								d = d[:i]
							}
						}
						wired[d] = true
					}
				}
			}
		}
		var ws []string
		for w := range wired {
			ws = append(ws, w)
		}
		sort.Strings(ws)
		var werr error
		if len(ws) < 5 {
			werr = fmt.Errorf("only %d x/ modules found in app/*.go imports", len(ws))
		}
		emit("appWiredCustomModules", "/-- the x/… module directories imported by package app (app/*.go) -/\ndef appWiredCustomModules : List String := "+leanStrListNL(ws), werr)
	}
	// ---- all functions by key, and methods by bare name
	all := map[fnKey]*xFunc{}
	byMethodName := map[string][]*xFunc{}
	for _, pk := range ix.sortedPkgs() {
		if strings.HasPrefix(pk.Dir, "app") && !strings.HasPrefix(pk.Dir, "app/ante") {
			continue
		}
		for _, fn := range pk.allFuncs() {
			if !(consensusFile(fn.File.Rel) || strings.HasPrefix(fn.File.Rel, "utils/") || strings.HasPrefix(fn.File.Rel, "types/")) {
				continue
			}
			all[fnKey{pk.Dir, fn.QName()}] = fn
			if fn.Recv != "" {
				byMethodName[fn.Decl.Name.Name] = append(byMethodName[fn.Decl.Name.Name], fn)
			}
		}
	}
	// ---- roots
	var roots []*xFunc
	var rootNames []string
	addRoot := func(fn *xFunc) {
		roots = append(roots, fn)
		rootNames = append(rootNames, fn.File.Rel+":"+fn.QName())
	}
	hookMethods := map[string]bool{"AfterEpochEnd": true, "BeforeEpochStart": true}
	for _, m := range customModules {
		pk := ix.Pkgs["x/"+m]
		if pk == nil {
			continue
		}
		for _, name := range []string{"BeginBlock", "EndBlock"} {
			if fn := pk.Methods["AppModule"][name]; fn != nil {
				addRoot(fn)
			}
		}
	}
	for _, pk := range ix.sortedPkgs() {
		if !strings.HasPrefix(pk.Dir, "x/") {
			continue
		}
		for _, fn := range pk.allFuncs() {
			if fn.Recv != "" && hookMethods[fn.Decl.Name.Name] && consensusFile(fn.File.Rel) && strings.Contains(fn.File.Rel, "/keeper/") {
				addRoot(fn)
			}
		}
	}
	// the SDK-facing staking interface of x/dogfood: called by x/slashing and x/evidence in BeginBlock
	// (Slash, SlashWithInfractionReason, Jail …) and by x/gov's tally in EndBlock
	if pk := ix.Pkgs["x/dogfood/keeper"]; pk != nil {
		for _, fn := range pk.allFuncs() {
			if fn.Recv != "" && strings.HasSuffix(fn.File.Rel, "/impl_sdk.go") && ast.IsExported(fn.Decl.Name.Name) {
				addRoot(fn)
			}
		}
	}
	if len(roots) < 8 {
		err := fmt.Errorf("only %d Begin/EndBlock/epoch-hook roots found", len(roots))
		emit("blockPathRoots", "", err)
		emit("panicSitesInBlockPaths", "", err)
		return
	}
	sort.Strings(rootNames)
	emit("blockPathRoots", "/-- Begin/EndBlock methods of the custom modules and epoch-hook implementations (call-graph roots) -/\ndef blockPathRoots : List String := "+leanStrListNL(rootNames), nil)

	// ---- call graph (computed lazily during the reachability walk)
	callees := func(fn *xFunc) []*xFunc {
		var out []*xFunc
		ix.walkFunc(fn, func(s *xScope, n ast.Node, stack []ast.Node) {
			c, ok := n.(*ast.CallExpr)
			if !ok {
				return
			}
			switch f := c.Fun.(type) {
			case *ast.Ident:
				if _, isVar := s.vars[f.Name]; isVar {
					return
				}
				if g := fn.File.Pkg.Funcs[f.Name]; g != nil {
					out = append(out, g)
				}
			case *ast.SelectorExpr:
				if id, ok := f.X.(*ast.Ident); ok {
					if _, isVar := s.vars[id.Name]; !isVar {
						if _, isPkgVar := fn.File.Pkg.Vars[id.Name]; !isPkgVar {
							if path, ok := fn.File.Imports[id.Name]; ok {
								if pk := ix.pkgByImport(path); pk != nil {
									if g := pk.Funcs[f.Sel.Name]; g != nil {
										out = append(out, g)
									}
								}
								return
							}
						}
					}
				}
				rt := s.typeOf(f.X)
				if rt.E != nil {
					if pk, name := ix.namedOf(rt); pk != nil {
						u, _ := ix.resolve(rt, 0)
						if _, isIface := u.E.(*ast.InterfaceType); !isIface {
							if g := pk.Methods[name][f.Sel.Name]; g != nil {
								out = append(out, g)
								return
							}
							// promoted through an embedded field: fall back to by-name
							if _, isStruct := u.E.(*ast.StructType); !isStruct {
								return
							}
						}
					} else {
						k := ix.kindOf(rt, 0)
						if k == "ext" || k == "dec" || k == "bigint" || k == "int" || k == "string" || k == "slice" || k == "map" {
							return // method of a non-repo type
						}
					}
				}
				for _, g := range byMethodName[f.Sel.Name] {
					out = append(out, g)
				}
			}
		})
		return out
	}
	reach := map[*xFunc]bool{}
	var order []*xFunc
	queue := append([]*xFunc{}, roots...)
	for _, r := range roots {
		reach[r] = true
	}
	for len(queue) > 0 {
		fn := queue[0]
		queue = queue[1:]
		order = append(order, fn)
		for _, g := range callees(fn) {
			if _, ok := all[fnKey{g.File.Pkg.Dir, g.QName()}]; !ok {
				continue
			}
			if !reach[g] {
				reach[g] = true
				queue = append(queue, g)
			}
		}
	}
	// ---- panic-capable sites of every reachable function
	var sites []string
	seen := map[string]int{}
	for _, fn := range order {
		for _, s := range panicSites(ix, fn) {
			seen[s]++
			if seen[s] > 1 {
				s = fmt.Sprintf("%s#%d", s, seen[s])
			}
			sites = append(sites, s)
		}
	}
	sort.Strings(sites)
	emit("panicSitesInBlockPaths", fmt.Sprintf("/-- panic-capable sites in the %d functions reachable (by name) from blockPathRoots -/\ndef panicSitesInBlockPaths : List String := ", len(order))+leanStrListNL(sites), nil)
	emit("blockPathFuncCount", fmt.Sprintf("def blockPathFuncCount : Nat := %d", len(order)), nil)
}

func isConstExpr(e ast.Expr) bool {
	switch t := e.(type) {
	case *ast.BasicLit:
		return true
	case *ast.ParenExpr:
		return isConstExpr(t.X)
	case *ast.BinaryExpr:
		return isConstExpr(t.X) && isConstExpr(t.Y)
	case *ast.Ident:
		// exported or package-level constants look like identifiers; treat ALLCAPS / CamelCase
		// identifiers declared as const in the file's package as constants
		return false
	case *ast.SelectorExpr:
		return false
	}
	return false
}

var quoNames = map[string]bool{"Quo": true, "QuoInt": true, "QuoRaw": true, "QuoInt64": true, "QuoTruncate": true, "QuoRoundUp": true,
	"QuoMut": true, "QuoIntMut": true, "QuoTruncateMut": true, "QuoRoundupMut": true, "Mod": true, "ModRaw": true, "Div": true, "Rem": true, "QuoRem": true, "DivMod": true}

// conversions that panic when the value is out of range (cosmossdk.io/math: Int.Int64 / Int.Uint64 /
// Uint.Uint64 "out of bound", LegacyDec.TruncateInt64 / RoundInt64 "Int64() out of bound")
var convNames = map[string]bool{"Int64": true, "Uint64": true, "TruncateInt64": true, "RoundInt64": true}

// convCanPanic: the receiver is an sdkmath Int / Uint / LegacyDec (math/big.Int's Int64()/Uint64() never panic),
// or a value of unknown type built by a chain of sdkmath arithmetic.
func convCanPanic(s *xScope, recv ast.Expr, name string) bool {
	if c, ok := recv.(*ast.CallExpr); ok && len(c.Args) == 0 {
		if sel, ok := c.Fun.(*ast.SelectorExpr); ok && sel.Sel.Name == "BigInt" {
			return false // x.BigInt() is a *big.Int
		}
	}
	t := s.typeOf(recv)
	if t.E != nil {
		txt := exprText(t.E)
		txt = strings.TrimPrefix(txt, "*")
		if strings.HasSuffix(txt, "big.Int") {
			return false
		}
	}
	k := s.kind(recv)
	if name == "TruncateInt64" || name == "RoundInt64" {
		return k == "dec" || k == "?" || k == "ext"
	}
	return k == "bigint" || k == "dec" || k == "?"
}

// siteSink, when set, receives every panic-capable site with the scope and the ancestor stack at the site
// (used by facts_siteguards.go to emit the site-guard kernels)
var siteSink func(ix *xIndex, fn *xFunc, s *xScope, kind string, siteStr string, site ast.Node, stack []ast.Node)

func panicSites(ix *xIndex, fn *xFunc) []string {
	var out []string
	var curStack []ast.Node // ancestors of the node being visited (set by the walk below)
	var curScope *xScope
	add := func(kind string, n ast.Node) {
		str := fmt.Sprintf("%s:%s:%s:%s", fn.File.Rel, fn.QName(), kind, srcText(n))
		out = append(out, str)
		if siteSink != nil {
			siteSink(ix, fn, curScope, kind, str, n, curStack)
		}
	}
	// divisions carry their dominating guards: the conditions of the enclosing `if`s (negated in an else
	// branch) and of the earlier sibling `if … { return | continue | break | panic }` statements of every
	// enclosing block, outermost first — a changed, weakened or removed guard changes the site string
	addGuarded := func(kind string, n ast.Node, stack []ast.Node) {
		g := dominatingGuards(n, stack)
		txt := "none"
		if len(g) > 0 {
			txt = strings.Join(g, " ; ")
		}
		str := fmt.Sprintf("%s:%s:%s:%s <= %s", fn.File.Rel, fn.QName(), kind, srcText(n), txt)
		out = append(out, str)
		if guardSink != nil {
			guardSink(fn, kind, n, g, stack)
		}
		if siteSink != nil {
			siteSink(ix, fn, curScope, kind, str, n, stack)
		}
	}
	consts := map[string]bool{}
	for _, f := range fn.File.Pkg.Files {
		for _, d := range f.AST.Decls {
			if gd, ok := d.(*ast.GenDecl); ok && gd.Tok == token.CONST {
				for _, sp := range gd.Specs {
					for _, n := range sp.(*ast.ValueSpec).Names {
						consts[n.Name] = true
					}
				}
			}
		}
	}
	isConst := func(s *xScope, e ast.Expr) bool {
		if isConstExpr(e) {
			return true
		}
		if id, ok := e.(*ast.Ident); ok {
			if _, isVar := s.vars[id.Name]; !isVar && consts[id.Name] {
				return true
			}
		}
		if sel, ok := e.(*ast.SelectorExpr); ok {
			// pkg.Const of a repo package
			if id, ok := sel.X.(*ast.Ident); ok {
				if _, isVar := s.vars[id.Name]; !isVar {
					if pk := ix.pkgByImport(fn.File.Imports[id.Name]); pk != nil {
						for _, f := range pk.Files {
							for _, d := range f.AST.Decls {
								if gd, ok := d.(*ast.GenDecl); ok && gd.Tok == token.CONST {
									for _, sp := range gd.Specs {
										for _, n := range sp.(*ast.ValueSpec).Names {
											if n.Name == sel.Sel.Name {
												return true
											}
										}
									}
								}
							}
						}
					}
				}
			}
		}
		return false
	}
	// variables assigned with an ignored error: name -> call text
	ignored := map[string]string{}
	ix.walkFunc(fn, func(s *xScope, n ast.Node, stack []ast.Node) {
		curStack, curScope = stack, s
		switch t := n.(type) {
		case *ast.CallExpr:
			if id, ok := t.Fun.(*ast.Ident); ok && id.Name == "panic" {
				if _, isVar := s.vars["panic"]; !isVar {
					add("panic", t)
				}
				return
			}
			name := ""
			switch f := t.Fun.(type) {
			case *ast.Ident:
				name = f.Name
			case *ast.SelectorExpr:
				name = f.Sel.Name
				if convNames[name] && len(t.Args) == 0 && convCanPanic(s, f.X, name) {
					add("conv", t)
				}
				if quoNames[name] && len(t.Args) >= 1 {
					k := s.kind(f.X)
					if k == "dec" || k == "bigint" || k == "?" || k == "ext" {
						if !isConst(s, t.Args[0]) {
							addGuarded("quo", t, stack)
						}
					}
				}
			}
			if strings.HasPrefix(name, "Must") {
				add("must", t)
			}
			// sdk.Coins / sdk.DecCoins: Sub panics when a denomination would go negative, NewCoin /
			// NewDecCoin(FromDec) panic on a negative amount
			if sel, ok := t.Fun.(*ast.SelectorExpr); ok {
				if sel.Sel.Name == "Sub" && len(t.Args) >= 1 && s.kind(sel.X) == "coins" {
					add("coinsub", t)
				}
				if id, ok := sel.X.(*ast.Ident); ok && id.Name == "sdk" && len(t.Args) == 2 {
					switch sel.Sel.Name {
					case "NewCoin", "NewDecCoin", "NewDecCoinFromDec", "NewInt64Coin":
						if !isConst(s, t.Args[1]) {
							add("newcoin", t)
						}
					}
				}
			}
		case *ast.BinaryExpr:
			if t.Op == token.QUO || t.Op == token.REM {
				if isConst(s, t.Y) {
					return
				}
				k := s.kind(t.X)
				k2 := s.kind(t.Y)
				if k == "float" || k2 == "float" {
					return
				}
				addGuarded("intdiv", t, stack)
			}
		case *ast.AssignStmt:
			if t.Tok == token.QUO_ASSIGN || t.Tok == token.REM_ASSIGN {
				if !isConst(s, t.Rhs[0]) {
					addGuarded("intdiv", t, stack)
				}
			}
			// v, _ := f(): blank in the position of an error result
			if len(t.Rhs) == 1 && len(t.Lhs) >= 2 {
				if c, ok := t.Rhs[0].(*ast.CallExpr); ok {
					ft := s.calleeType(c)
					if f, ok := ft.E.(*ast.FuncType); ok {
						for i, l := range t.Lhs {
							if id, ok := l.(*ast.Ident); ok && id.Name == "_" {
								if rt := resultN(f, i); rt != nil {
									if rid, ok := rt.(*ast.Ident); ok && rid.Name == "error" {
										if v, ok := t.Lhs[0].(*ast.Ident); ok && v.Name != "_" {
											vk := ""
											if r0 := resultN(f, 0); r0 != nil {
												if _, isPtr := r0.(*ast.StarExpr); isPtr {
													vk = "ptr"
												}
											}
											if vk == "ptr" {
												ignored[v.Name] = srcText(c.Fun)
												add("ignorederr", t)
											}
										}
									}
								}
							}
						}
					}
				}
			}
		case *ast.IfStmt:
			// `if err != nil { log only }`: the error is swallowed and execution falls through to code
			// that uses the (possibly nil / zero) result
			if mentionsErrNotNil(t.Cond) && t.Else == nil && !leavesBlock(t.Body) {
				add("errfall", t.Cond)
			}
		case *ast.IndexExpr:
			k := s.kind(t.X)
			if k == "map" || k == "func" {
				return
			}
			if k == "?" || k == "ext" || k == "other" || k == "iface" || k == "struct" {
				// generic instantiation or unknown container: only count when clearly indexed by a variable of integer kind
				if ik := s.kind(t.Index); ik != "int" {
					return
				}
			}
			if isConst(s, t.Index) {
				// a constant index is out of range on a shorter slice just the same
				if _, ok := t.Index.(*ast.BasicLit); ok {
					add("index", t)
				}
				return
			}
			if guardedIndex(t, stack) {
				return
			}
			add("index", t)
		case *ast.SliceExpr:
			nonConst := false
			for _, b := range []ast.Expr{t.Low, t.High, t.Max} {
				if b != nil && !isConst(s, b) {
					nonConst = true
				}
			}
			if nonConst {
				add("index", t)
			}
		case *ast.TypeAssertExpr:
			if t.Type == nil {
				return // type switch
			}
			if len(stack) > 0 {
				switch p := stack[len(stack)-1].(type) {
				case *ast.AssignStmt:
					if len(p.Lhs) == 2 && len(p.Rhs) == 1 {
						return
					}
				case *ast.ValueSpec:
					if len(p.Names) == 2 {
						return
					}
				}
			}
			add("assert", t)
		}
	})
	_ = ignored
	return out
}

// guardedIndex recognises xs[i] inside `for i := range xs` or `for i…; i < len(xs); …`.
func guardedIndex(ie *ast.IndexExpr, stack []ast.Node) bool {
	id, ok := ie.Index.(*ast.Ident)
	if !ok {
		return false
	}
	cont := srcText(ie.X)
	for i := len(stack) - 1; i >= 0; i-- {
		switch st := stack[i].(type) {
		case *ast.RangeStmt:
			if k, ok := st.Key.(*ast.Ident); ok && k.Name == id.Name && srcText(st.X) == cont {
				return true
			}
		case *ast.ForStmt:
			if be, ok := st.Cond.(*ast.BinaryExpr); ok && be.Op == token.LSS {
				if l, ok := be.X.(*ast.Ident); ok && l.Name == id.Name {
					if c, ok := be.Y.(*ast.CallExpr); ok && len(c.Args) == 1 {
						if f, ok := c.Fun.(*ast.Ident); ok && f.Name == "len" && srcText(c.Args[0]) == cont {
							return true
						}
					}
				}
			}
		}
	}
	return false
}

func mentionsErrNotNil(e ast.Expr) bool {
	found := false
	ast.Inspect(e, func(n ast.Node) bool {
		if b, ok := n.(*ast.BinaryExpr); ok && b.Op == token.NEQ {
			if id, ok := b.X.(*ast.Ident); ok && (id.Name == "err" || strings.HasSuffix(id.Name, "Err")) {
				if y, ok := b.Y.(*ast.Ident); ok && y.Name == "nil" {
					found = true
				}
			}
		}
		return true
	})
	return found
}

// leavesBlock: the block contains a return / continue / break / goto / panic (at any depth).
func leavesBlock(b *ast.BlockStmt) bool {
	leaves := false
	ast.Inspect(b, func(n ast.Node) bool {
		switch t := n.(type) {
		case *ast.ReturnStmt, *ast.BranchStmt:
			leaves = true
		case *ast.CallExpr:
			if id, ok := t.Fun.(*ast.Ident); ok && id.Name == "panic" {
				leaves = true
			}
		case *ast.FuncLit:
			return false
		}
		return true
	})
	return leaves
}

// guardSink, when set, receives every guarded division (used to emit the guard kernels)
var guardSink func(fn *xFunc, kind string, site ast.Node, guards []string, stack []ast.Node)

func longText(n ast.Node) string {
	var b strings.Builder
	_ = printerFprint(&b, n)
	return strings.Join(strings.Fields(b.String()), " ")
}

// dominatingGuards: see addGuarded. `stack` is the path of ancestors of n inside the function body.
func dominatingGuards(n ast.Node, stack []ast.Node) []string {
	var out []string
	path := append(append([]ast.Node{}, stack...), n)
	for i := 0; i+1 < len(path); i++ {
		child := path[i+1]
		switch t := path[i].(type) {
		case *ast.IfStmt:
			if child == ast.Node(t.Body) {
				out = append(out, longText(t.Cond))
			} else if t.Else != nil && child == t.Else {
				out = append(out, "not("+longText(t.Cond)+")")
			}
		case *ast.BlockStmt:
			for _, st := range t.List {
				if st == child {
					break
				}
				if ifs, ok := st.(*ast.IfStmt); ok && ifs.Else == nil && blockLeaves(ifs.Body) {
					out = append(out, "not("+longText(ifs.Cond)+")")
				}
			}
		case *ast.CaseClause:
			for _, st := range t.Body {
				if st == child {
					break
				}
				if ifs, ok := st.(*ast.IfStmt); ok && ifs.Else == nil && blockLeaves(ifs.Body) {
					out = append(out, "not("+longText(ifs.Cond)+")")
				}
			}
		}
	}
	return out
}

// blockLeaves: the last statement of the block is a return / continue / break / goto / panic.
func blockLeaves(b *ast.BlockStmt) bool {
	if len(b.List) == 0 {
		return false
	}
	switch t := b.List[len(b.List)-1].(type) {
	case *ast.ReturnStmt, *ast.BranchStmt:
		return true
	case *ast.ExprStmt:
		if c, ok := t.X.(*ast.CallExpr); ok {
			if id, ok := c.Fun.(*ast.Ident); ok && id.Name == "panic" {
				return true
			}
		}
	}
	return false
}
