package main

// C18 facts.
//   dogfoodPrefixPairs   for each GetAll* used by x/dogfood ExportGenesis: (exporter, byte prefix it iterates,
//                        byte prefix the per-epoch setter of the same collection writes). F-18a is a pair whose
//                        two numbers differ.
//   dogfoodInitRebuildsHolds  x/dogfood InitGenesis calls delegationKeeper.IncrementUndelegationHoldCount inside the loop
//                        over genState.UndelegationMaturities (F-18b repair)
//   operatorPrevKeysRebuildReverse  x/operator SetAllPrevConsKeys writes KeyForChainIDAndConsKeyToOperator (F-18c repair)
//   operatorGenesisKeepsCommissionTime  the assignment of Commission.UpdateTime in setOperatorInfo is guarded by the
//                        genesis flag and InitGenesis passes it (F-18g repair)
//   dogfoodExportUsesStoredValidators  x/dogfood ExportGenesis reads GetAllExocoreValidators and does not go through
//                        IterateBondedValidatorsByPower (F-18h repair)
//   genesisExportCalls   per module of C18: the keeper methods called by ExportGenesis, in order
//   genesisInitCalls     per module of C18: the keeper methods called by InitGenesis, in order

import (
	"fmt"
	"go/ast"
	"go/parser"
	"go/token"
	"strings"
)

// iotaConsts evaluates a `const ( A byte = iota + 1; B; C … )` block: name -> value.
func iotaConsts(f *ast.File) map[string]int {
	res := map[string]int{}
	for _, d := range f.Decls {
		gd, ok := d.(*ast.GenDecl)
		if !ok || gd.Tok != token.CONST {
			continue
		}
		offset := -1
		for i, sp := range gd.Specs {
			vs := sp.(*ast.ValueSpec)
			if len(vs.Values) == 1 {
				offset = -1
				if be, ok := vs.Values[0].(*ast.BinaryExpr); ok && exprText(be.X) == "iota" && be.Op == token.ADD {
					if bl, ok := be.Y.(*ast.BasicLit); ok && bl.Value == "1" {
						offset = 1
					}
				} else if exprText(vs.Values[0]) == "iota" {
					offset = 0
				}
			}
			if offset >= 0 {
				for _, n := range vs.Names {
					res[n.Name] = i + offset
				}
			}
		}
	}
	return res
}

// prefixIterated returns the identifier X in sdk.KVStorePrefixIterator(store, []byte{types.X}) inside fn.
func prefixIterated(fd *ast.FuncDecl) string {
	name := ""
	ast.Inspect(fd.Body, func(n ast.Node) bool {
		c, ok := n.(*ast.CallExpr)
		if !ok || name != "" || !strings.HasSuffix(exprText(c.Fun), "KVStorePrefixIterator") || len(c.Args) != 2 {
			return true
		}
		if cl, ok := c.Args[1].(*ast.CompositeLit); ok && len(cl.Elts) == 1 {
			name = strings.TrimPrefix(exprText(cl.Elts[0]), "types.")
		}
		return true
	})
	return name
}

// keyFuncUsed returns the name of the first types.<X>Key(…) call in fn.
func keyFuncUsed(fd *ast.FuncDecl) string {
	name := ""
	ast.Inspect(fd.Body, func(n ast.Node) bool {
		c, ok := n.(*ast.CallExpr)
		if ok && name == "" && strings.HasPrefix(exprText(c.Fun), "types.") && strings.HasSuffix(exprText(c.Fun), "Key") {
			name = strings.TrimPrefix(exprText(c.Fun), "types.")
		}
		return true
	})
	return name
}

// prefixOfKeyFunc returns the identifier of the `[]byte{X}` literal inside a key-building function.
func prefixOfKeyFunc(fd *ast.FuncDecl) string {
	name := ""
	ast.Inspect(fd.Body, func(n ast.Node) bool {
		cl, ok := n.(*ast.CompositeLit)
		if ok && name == "" && len(cl.Elts) == 1 {
			if id, ok := cl.Elts[0].(*ast.Ident); ok {
				name = id.Name
			}
		}
		return true
	})
	return name
}

func methodCalls(fd *ast.FuncDecl, recv string) []string {
	var out []string
	ast.Inspect(fd.Body, func(n ast.Node) bool {
		c, ok := n.(*ast.CallExpr)
		if !ok {
			return true
		}
		t := exprText(c.Fun)
		if strings.HasPrefix(t, recv+".") && strings.Count(t, ".") == 1 && !strings.HasPrefix(t, recv+".Logger") {
			out = append(out, strings.TrimPrefix(t, recv+"."))
		}
		return true
	})
	return out
}

func genesisGen(repo string, emit func(name, leanDef string, err error)) {
	fset := token.NewFileSet()
	parse := func(p string) (*ast.File, error) { return parser.ParseFile(fset, repo+"/"+p, nil, 0) }
	// ---- dogfood prefix pairs
	func() {
		keys, err := parse("x/dogfood/types/keys.go")
		if err != nil {
			emit("dogfoodPrefixPairs", "", err)
			return
		}
		consts := iotaConsts(keys)
		pairs := []struct{ exporter, setter, file string }{
			{"GetAllOptOutsToFinish", "setOptOutsToFinish", "x/dogfood/keeper/opt_out.go"},
			{"GetAllConsAddrsToPrune", "setConsensusAddrsToPrune", "x/dogfood/keeper/opt_out.go"},
			{"GetAllUndelegationsToMature", "setUndelegationsToMature", "x/dogfood/keeper/unbonding.go"},
		}
		var items []string
		for _, p := range pairs {
			f, err := parse(p.file)
			if err != nil {
				emit("dogfoodPrefixPairs", "", err)
				return
			}
			ex := findFunc(f, "Keeper."+p.exporter)
			st := findFunc(f, "Keeper."+p.setter)
			if ex == nil || st == nil {
				emit("dogfoodPrefixPairs", "", fmt.Errorf("%s / %s not found in %s", p.exporter, p.setter, p.file))
				return
			}
			it := prefixIterated(ex)
			kf := keyFuncUsed(st)
			kfd := findFunc(keys, kf)
			if it == "" || kfd == nil {
				emit("dogfoodPrefixPairs", "", fmt.Errorf("%s: iterated prefix %q, key func %q", p.exporter, it, kf))
				return
			}
			sp := prefixOfKeyFunc(kfd)
			iv, ok1 := consts[it]
			sv, ok2 := consts[sp]
			if !ok1 || !ok2 {
				emit("dogfoodPrefixPairs", "", fmt.Errorf("%s: cannot evaluate %s / %s", p.exporter, it, sp))
				return
			}
			items = append(items, fmt.Sprintf("(%q, %d, %d)", p.exporter, iv, sv))
		}
		emit("dogfoodPrefixPairs", "/-- x/dogfood: (exporter, prefix it iterates, prefix its collection is written under) -/\ndef dogfoodPrefixPairs : List (String × Nat × Nat) := ["+strings.Join(items, ", ")+"]", nil)
	}()
	// ---- hold counts re-placed at import
	func() {
		f, err := parse("x/dogfood/keeper/genesis.go")
		if err != nil {
			emit("dogfoodInitRebuildsHolds", "", err)
			return
		}
		fd := findFunc(f, "Keeper.InitGenesis")
		if fd == nil {
			emit("dogfoodInitRebuildsHolds", "", fmt.Errorf("x/dogfood InitGenesis not found"))
			return
		}
		rebuilds := false
		ast.Inspect(fd.Body, func(n ast.Node) bool {
			rs, ok := n.(*ast.RangeStmt)
			if !ok || !strings.HasSuffix(exprText(rs.X), "UndelegationMaturities") {
				return true
			}
			ast.Inspect(rs.Body, func(m ast.Node) bool {
				if c, ok := m.(*ast.CallExpr); ok && exprText(c.Fun) == "k.delegationKeeper.IncrementUndelegationHoldCount" {
					rebuilds = true
				}
				return true
			})
			return true
		})
		emit("dogfoodInitRebuildsHolds", "/-- x/dogfood InitGenesis re-places the hold of every undelegation it imports into the maturity queue -/\ndef dogfoodInitRebuildsHolds : Bool := "+fmt.Sprint(rebuilds), nil)
	}()
	// ---- F-18c / F-18g / F-18h repairs
	callsIn := func(fd *ast.FuncDecl, name string) bool {
		found := false
		ast.Inspect(fd.Body, func(n ast.Node) bool {
			if c, ok := n.(*ast.CallExpr); ok && exprText(c.Fun) == name {
				found = true
			}
			return true
		})
		return found
	}
	func() {
		f, err := parse("x/operator/keeper/consensus_keys.go")
		if err != nil {
			emit("operatorPrevKeysRebuildReverse", "", err)
			return
		}
		fd := findFunc(f, "Keeper.SetAllPrevConsKeys")
		if fd == nil {
			emit("operatorPrevKeysRebuildReverse", "", fmt.Errorf("SetAllPrevConsKeys not found"))
			return
		}
		emit("operatorPrevKeysRebuildReverse", "/-- x/operator SetAllPrevConsKeys also writes the ChainIDAndConsKeyToOperator reverse lookup -/\ndef operatorPrevKeysRebuildReverse : Bool := "+fmt.Sprint(callsIn(fd, "types.KeyForChainIDAndConsKeyToOperator")), nil)
	}()
	func() {
		f, err := parse("x/operator/keeper/operator.go")
		g, err2 := parse("x/operator/keeper/genesis.go")
		if err != nil || err2 != nil {
			emit("operatorGenesisKeepsCommissionTime", "", fmt.Errorf("%v %v", err, err2))
			return
		}
		keeps := false
		if fd := findFunc(f, "Keeper.setOperatorInfo"); fd != nil {
			// the UpdateTime assignment must sit inside an if whose condition mentions the genesis flag
			ast.Inspect(fd.Body, func(n ast.Node) bool {
				is, ok := n.(*ast.IfStmt)
				if !ok {
					return true
				}
				mentions := false
				ast.Inspect(is.Cond, func(m ast.Node) bool {
					if id, ok := m.(*ast.Ident); ok && id.Name == "genesis" {
						mentions = true
					}
					return true
				})
				assigns := false
				ast.Inspect(is.Body, func(m ast.Node) bool {
					if as, ok := m.(*ast.AssignStmt); ok && len(as.Lhs) == 1 && exprText(as.Lhs[0]) == "info.Commission.UpdateTime" {
						assigns = true
					}
					return true
				})
				if mentions && assigns {
					keeps = true
				}
				return true
			})
		}
		if ig := findFunc(g, "Keeper.InitGenesis"); ig == nil || !callsIn(ig, "k.setOperatorInfo") {
			keeps = false
		}
		emit("operatorGenesisKeepsCommissionTime", "/-- x/operator InitGenesis keeps an exported commission update_time -/\ndef operatorGenesisKeepsCommissionTime : Bool := "+fmt.Sprint(keeps), nil)
	}()
	func() {
		f, err := parse("x/dogfood/keeper/genesis.go")
		if err != nil {
			emit("dogfoodExportUsesStoredValidators", "", err)
			return
		}
		fd := findFunc(f, "Keeper.ExportGenesis")
		if fd == nil {
			emit("dogfoodExportUsesStoredValidators", "", fmt.Errorf("x/dogfood ExportGenesis not found"))
			return
		}
		stored := callsIn(fd, "k.GetAllExocoreValidators") && !callsIn(fd, "k.IterateBondedValidatorsByPower")
		emit("dogfoodExportUsesStoredValidators", "/-- x/dogfood ExportGenesis writes the validators it stores, not the operators' current keys -/\ndef dogfoodExportUsesStoredValidators : Bool := "+fmt.Sprint(stored), nil)
	}()
	// ---- export / init call lists
	mods := []struct{ name, file, recv, exp, ini string }{
		{"assets", "x/assets/keeper/genesis.go", "k", "Keeper.ExportGenesis", "Keeper.InitGenesis"},
		{"delegation", "x/delegation/keeper/genesis.go", "k", "Keeper.ExportGenesis", "Keeper.InitGenesis"},
		{"operator", "x/operator/keeper/genesis.go", "k", "Keeper.ExportGenesis", "Keeper.InitGenesis"},
		{"dogfood", "x/dogfood/keeper/genesis.go", "k", "Keeper.ExportGenesis", "Keeper.InitGenesis"},
		{"epochs", "x/epochs/keeper/genesis.go", "k", "Keeper.ExportGenesis", "Keeper.InitGenesis"},
		{"oracle", "x/oracle/genesis.go", "k", "ExportGenesis", "InitGenesis"},
		{"exomint", "x/exomint/keeper/genesis.go", "k", "Keeper.ExportGenesis", "Keeper.InitGenesis"},
		{"feedistribution", "x/feedistribution/keeper/genesis.go", "k", "Keeper.ExportGenesis", "Keeper.InitGenesis"},
	}
	var exps, inis []string
	var ferr error
	for _, m := range mods {
		f, err := parse(m.file)
		if err != nil {
			ferr = err
			break
		}
		e := findFunc(f, m.exp)
		i := findFunc(f, m.ini)
		if e == nil || i == nil {
			ferr = fmt.Errorf("%s: ExportGenesis/InitGenesis not found in %s", m.name, m.file)
			break
		}
		exps = append(exps, fmt.Sprintf("(%q, %s)", m.name, leanStrList(methodCalls(e, m.recv))))
		inis = append(inis, fmt.Sprintf("(%q, %s)", m.name, leanStrList(methodCalls(i, m.recv))))
	}
	if ferr != nil {
		emit("genesisExportCalls", "", ferr)
		emit("genesisInitCalls", "", ferr)
		return
	}
	emit("genesisExportCalls", "/-- keeper methods called by each module's ExportGenesis -/\ndef genesisExportCalls : List (String × List String) := [\n  "+strings.Join(exps, ",\n  ")+"]", nil)
	emit("genesisInitCalls", "/-- keeper methods called by each module's InitGenesis -/\ndef genesisInitCalls : List (String × List String) := [\n  "+strings.Join(inis, ",\n  ")+"]", nil)
}

func init() { factGens = append(factGens, genesisGen) }
