package main

// C20 facts: the guard skeleton (branch, condition, error — in source order) of the x/avs keeper
// entry points and the epoch-window predicates, regenerated from the Go source on every run.
// The window predicates are translated to Lean functions over (cur start resp stat chal unb : Int);
// everything the little translator does not know fails closed.

import (
	"bytes"
	"fmt"
	"go/ast"
	"go/parser"
	"go/printer"
	"go/token"
	"strings"
)

func init() { factGens = append(factGens, avsFacts) }

type avsGuard struct{ branch, cond, err string }

func avsSrc(fset *token.FileSet, n ast.Node) string {
	var b bytes.Buffer
	printer.Fprint(&b, fset, n)
	return strings.Join(strings.Fields(b.String()), " ")
}

func avsFindFunc(f *ast.File, name string) *ast.FuncDecl {
	for _, d := range f.Decls {
		if fd, ok := d.(*ast.FuncDecl); ok && fd.Name.Name == name {
			return fd
		}
	}
	return nil
}

// avsErrName names what a `return` statement returns as its error (last result).
func avsErrName(fset *token.FileSet, r *ast.ReturnStmt) string {
	if len(r.Results) == 0 {
		return "return"
	}
	e := r.Results[len(r.Results)-1]
	if c, ok := e.(*ast.CallExpr); ok {
		fn := avsSrc(fset, c.Fun)
		switch {
		case fn == "errorsmod.Wrap" || fn == "errorsmod.Wrapf":
			return "Wrap(" + avsSrc(fset, c.Args[0]) + ")"
		case fn == "fmt.Errorf":
			return "fmt.Errorf"
		case strings.HasSuffix(fn, ".Wrapf") || strings.HasSuffix(fn, ".Wrap"):
			return "Wrap(" + strings.TrimSuffix(strings.TrimSuffix(fn, ".Wrapf"), ".Wrap") + ")"
		}
		return "call:" + fn
	}
	return avsSrc(fset, e)
}

// avsGuards lists, in source order, every `if cond { … return <error> }` of a block (descending
// into switch cases; the case label becomes the branch name) and every unconditional return.
func avsGuards(fset *token.FileSet, branch string, stmts []ast.Stmt, out *[]avsGuard) {
	for _, s := range stmts {
		switch t := s.(type) {
		case *ast.IfStmt:
			cond := avsSrc(fset, t.Cond)
			if t.Init != nil {
				cond = avsSrc(fset, t.Init) + "; " + cond
			}
			if len(t.Body.List) > 0 {
				if r, ok := t.Body.List[len(t.Body.List)-1].(*ast.ReturnStmt); ok {
					*out = append(*out, avsGuard{branch, cond, avsErrName(fset, r)})
				} else {
					avsGuards(fset, branch+"{"+cond+"}", t.Body.List, out)
				}
			}
			if t.Else != nil {
				if b, ok := t.Else.(*ast.BlockStmt); ok {
					avsGuards(fset, branch+"{else}", b.List, out)
				}
			}
		case *ast.SwitchStmt:
			for _, c := range t.Body.List {
				cc := c.(*ast.CaseClause)
				lbl := "default"
				if len(cc.List) > 0 {
					var ls []string
					for _, l := range cc.List {
						ls = append(ls, avsSrc(fset, l))
					}
					lbl = strings.Join(ls, ",")
				}
				avsGuards(fset, lbl, cc.Body, out)
			}
		case *ast.ReturnStmt:
			*out = append(*out, avsGuard{branch, "true", avsErrName(fset, t)})
		case *ast.ForStmt:
			avsGuards(fset, branch+"{for}", t.Body.List, out)
		case *ast.RangeStmt:
			avsGuards(fset, branch+"{range "+avsSrc(fset, t.X)+"}", t.Body.List, out)
		}
	}
}

func avsGuardFact(name, doc string, gs []avsGuard) string {
	var b strings.Builder
	fmt.Fprintf(&b, "/-- %s -/\ndef %s : List (String × String × String) := [", doc, name)
	for i, g := range gs {
		if i > 0 {
			b.WriteString(",")
		}
		fmt.Fprintf(&b, "\n  (%q, %q, %q)", g.branch, g.cond, g.err)
	}
	b.WriteString("]")
	return b.String()
}

// avsWin translates an epoch-window comparison to a Lean Bool expression.
func avsWin(fset *token.FileSet, e ast.Expr) (string, error) {
	switch t := e.(type) {
	case *ast.ParenExpr:
		return avsWin(fset, t.X)
	case *ast.BinaryExpr:
		l, err := avsWin(fset, t.X)
		if err != nil {
			return "", err
		}
		r, err := avsWin(fset, t.Y)
		if err != nil {
			return "", err
		}
		switch t.Op {
		case token.ADD:
			return "(" + l + " + " + r + ")", nil
		case token.SUB:
			return "(" + l + " - " + r + ")", nil
		case token.GTR:
			return "decide (" + l + " > " + r + ")", nil
		case token.GEQ:
			return "decide (" + l + " ≥ " + r + ")", nil
		case token.LSS:
			return "decide (" + l + " < " + r + ")", nil
		case token.LEQ:
			return "decide (" + l + " ≤ " + r + ")", nil
		case token.EQL:
			return "decide (" + l + " = " + r + ")", nil
		case token.NEQ:
			return "decide (" + l + " ≠ " + r + ")", nil
		}
		return "", fmt.Errorf("window predicate: operator %s not supported", t.Op)
	case *ast.CallExpr:
		if id, ok := t.Fun.(*ast.Ident); ok && (id.Name == "int64" || id.Name == "uint64") && len(t.Args) == 1 {
			return avsWin(fset, t.Args[0]) // conversions are the identity below 2^63 (recorded assumption)
		}
		return "", fmt.Errorf("window predicate: call %s not supported", avsSrc(fset, t))
	case *ast.Ident:
		if t.Name == "epochNumber" {
			return "cur", nil
		}
		return "", fmt.Errorf("window predicate: identifier %s not supported", t.Name)
	case *ast.SelectorExpr:
		switch t.Sel.Name {
		case "CurrentEpoch":
			return "cur", nil
		case "StartingEpoch":
			return "start", nil
		case "TaskResponsePeriod":
			return "resp", nil
		case "TaskStatisticalPeriod":
			return "stat", nil
		case "TaskChallengePeriod":
			return "chal", nil
		case "AvsUnbondingPeriod":
			return "unb", nil
		}
		return "", fmt.Errorf("window predicate: field %s not supported", t.Sel.Name)
	}
	return "", fmt.Errorf("window predicate: expression %s not supported", avsSrc(fset, e))
}

// avsEpochConds returns, in source order, the comparison sub-expressions of `if` conditions of fn
// that mention the current epoch number.
func avsEpochConds(fset *token.FileSet, fn *ast.FuncDecl) []ast.Expr {
	var res []ast.Expr
	var split func(e ast.Expr)
	split = func(e ast.Expr) {
		if p, ok := e.(*ast.ParenExpr); ok {
			split(p.X)
			return
		}
		if b, ok := e.(*ast.BinaryExpr); ok && (b.Op == token.LAND || b.Op == token.LOR) {
			split(b.X)
			split(b.Y)
			return
		}
		s := avsSrc(fset, e)
		if strings.Contains(s, "CurrentEpoch") || strings.Contains(s, "epochNumber") {
			res = append(res, e)
		}
	}
	ast.Inspect(fn, func(n ast.Node) bool {
		if i, ok := n.(*ast.IfStmt); ok {
			split(i.Cond)
		}
		return true
	})
	return res
}

func avsFacts(repo string, emit func(name, leanDef string, err error)) {
	fset := token.NewFileSet()
	parse := func(rel string) (*ast.File, error) { return parser.ParseFile(fset, repo+"/"+rel, nil, 0) }
	type gspec struct{ fact, file, fn string }
	for _, g := range []gspec{
		{"avsSubmitGuards", "x/avs/keeper/task.go", "SetTaskResultInfo"},
		{"avsChallengeGuards", "x/avs/keeper/keeper.go", "RaiseAndResolveChallenge"},
		{"avsUpdateGuards", "x/avs/keeper/keeper.go", "UpdateAVSInfo"},
		{"avsCreateTaskGuards", "x/avs/keeper/keeper.go", "CreateAVSTask"},
		{"avsRegisterBLSGuards", "x/avs/keeper/keeper.go", "RegisterBLSPublicKey"},
		{"avsOptActionGuards", "x/avs/keeper/keeper.go", "OperatorOptAction"},
		{"avsOptInGuards", "x/operator/keeper/opt.go", "OptIn"},
		{"avsOptOutGuards", "x/operator/keeper/opt.go", "OptOut"},
		{"avsByTaskAddrGuards", "x/avs/keeper/avs.go", "GetAVSInfoByTaskAddress"},
		{"avsTaskIDGuards", "x/avs/keeper/task.go", "GetTaskID"},
	} {
		f, err := parse(g.file)
		if err != nil {
			emit(g.fact, "", err)
			continue
		}
		fn := avsFindFunc(f, g.fn)
		if fn == nil {
			emit(g.fact, "", fmt.Errorf("%s: func %s not found", g.file, g.fn))
			continue
		}
		var gs []avsGuard
		avsGuards(fset, "", fn.Body.List, &gs)
		emit(g.fact, avsGuardFact(g.fact, g.file+": "+g.fn+" — (branch, condition, returned error) in source order", gs), nil)
	}
	// window predicates
	type wspec struct {
		file, fn string
		names    []string
	}
	params := "(cur start resp stat chal unb : Int)"
	for _, w := range []wspec{
		{"x/avs/keeper/task.go", "SetTaskResultInfo", []string{"avsPhase1TooLate", "avsPhase2TooSoon", "avsPhase2TooLate"}},
		{"x/avs/keeper/keeper.go", "RaiseAndResolveChallenge", []string{"avsChallengeTooSoon", "avsChallengeTooLate"}},
		{"x/avs/keeper/avs.go", "GetTaskStatisticalEpochEndAVSs", []string{"avsStatEnd"}},
		{"x/avs/keeper/keeper.go", "UpdateAVSInfo", []string{"avsDeregTooLate"}},
	} {
		f, err := parse(w.file)
		var conds []ast.Expr
		if err == nil {
			fn := avsFindFunc(f, w.fn)
			if fn == nil {
				err = fmt.Errorf("%s: func %s not found", w.file, w.fn)
			} else {
				conds = avsEpochConds(fset, fn)
				if len(conds) != len(w.names) {
					err = fmt.Errorf("%s: %s has %d epoch comparisons, expected %d", w.file, w.fn, len(conds), len(w.names))
				}
			}
		}
		for i, nm := range w.names {
			if err != nil {
				emit(nm, "", err)
				continue
			}
			lean, e := avsWin(fset, conds[i])
			emit(nm, fmt.Sprintf("/-- %s: %s — `%s` -/\ndef %s %s : Bool := %s", w.file, w.fn, avsSrc(fset, conds[i]), nm, params, lean), e)
		}
	}
	// the epoch hook: which results count as signed, and what happens to the GetTaskInfo error
	if f, err := parse("x/avs/keeper/impl_epoch_hook.go"); err != nil {
		emit("avsHookGuards", "", err)
	} else if fn := avsFindFunc(f, "AfterEpochEnd"); fn == nil {
		emit("avsHookGuards", "", fmt.Errorf("AfterEpochEnd not found"))
	} else {
		var conds []string
		ast.Inspect(fn, func(n ast.Node) bool {
			if i, ok := n.(*ast.IfStmt); ok {
				hasRet := false
				ast.Inspect(i.Body, func(m ast.Node) bool {
					switch m.(type) {
					case *ast.ReturnStmt:
						hasRet = true
					case *ast.BranchStmt:
						hasRet = true
					}
					return true
				})
				conds = append(conds, fmt.Sprintf("(%q, %v)", avsSrc(fset, i.Cond), hasRet))
			}
			return true
		})
		emit("avsHookGuards", "/-- x/avs/keeper/impl_epoch_hook.go: AfterEpochEnd — every `if` condition and whether its body leaves the iteration (return/continue/break) -/\ndef avsHookGuards : List (String × Bool) := ["+strings.Join(conds, ", ")+"]", nil)
	}
	// small bodies transcribed verbatim by the model (normalised source text)
	for _, b := range []struct{ fact, file, fn string }{
		{"avsDifferenceBody", "x/avs/types/types.go", "Difference"},
		{"avsSubtractBody", "x/avs/types/types.go", "Subtract"},
		{"avsMinSelfBody", "x/avs/keeper/avs.go", "GetAVSMinimumSelfDelegation"},
		{"avsTaskIDBody", "x/avs/keeper/task.go", "GetTaskID"},
		{"avsGroupBody", "x/avs/keeper/task.go", "GroupTasksByIDAndAddress"},
		{"avsStatDueBody", "x/avs/keeper/avs.go", "GetTaskStatisticalEpochEndAVSs"},
		{"avsHookBody", "x/avs/keeper/impl_epoch_hook.go", "AfterEpochEnd"},
		{"avsMsgSubmitBody", "x/avs/keeper/msg_server.go", "SubmitTaskResult"},
	} {
		if f, err := parse(b.file); err != nil {
			emit(b.fact, "", err)
		} else if fn := avsFindFunc(f, b.fn); fn == nil {
			emit(b.fact, "", fmt.Errorf("%s not found", b.fn))
		} else {
			emit(b.fact, fmt.Sprintf("/-- %s: %s (normalised source) -/\ndef %s : String := %q", b.file, b.fn, b.fact, avsSrc(fset, fn.Body)), nil)
		}
	}
	// stage constants
	if f, err := parse("x/avs/types/stage.go"); err != nil {
		emit("avsStages", "", err)
	} else {
		vals := map[string]string{}
		ast.Inspect(f, func(n ast.Node) bool {
			if vs, ok := n.(*ast.ValueSpec); ok {
				for i, nm := range vs.Names {
					if i < len(vs.Values) {
						if bl, ok := vs.Values[i].(*ast.BasicLit); ok {
							vals[nm.Name] = bl.Value
						}
					}
				}
			}
			return true
		})
		if vals["TwoPhaseCommitOne"] == "" || vals["TwoPhaseCommitTwo"] == "" {
			emit("avsStages", "", fmt.Errorf("stage constants not found"))
		} else {
			emit("avsStages", fmt.Sprintf("/-- x/avs/types/stage.go -/\ndef avsStages : String × String := (%s, %s)", vals["TwoPhaseCommitOne"], vals["TwoPhaseCommitTwo"]), nil)
		}
	}
}
