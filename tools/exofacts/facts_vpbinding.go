package main

// Facts for C05's "which token prices an asset" (Model/VPOracle.lean, Props/C05Binding.lean):
//
//   shapeGetTokenIDFromAssetID    x/oracle/types/params.go: Params.GetTokenIDFromAssetID — significant statements in
//                                 source order (the model's `tokenIdFrom`: range over the tokens, split the list on
//                                 commas, element EQUAL to the id, first hit, 0 without one)
//   shapeGetSpecifiedAssetsPrice  x/oracle/keeper/prices.go: Keeper.GetSpecifiedAssetsPrice — the single-asset getter
//                                 (opt-in / slash) must select like GetMultipleAssetsPrices (model: `assetPrice`)
//   priceBindingConsts            the constants the model restates: types.DefaultPriceValue, types.DefaultPriceDecimal
//                                 (x/oracle/types/types.go) and assetstypes.ExocoreAssetID (x/assets/types/general.go),
//                                 rendered "name=value"

import (
	"fmt"
	"go/ast"
	"go/parser"
	"go/token"
)

func vpConstValue(repo, file, name string) (string, error) {
	fset := token.NewFileSet()
	f, err := parser.ParseFile(fset, repo+"/"+file, nil, 0)
	if err != nil {
		return "", err
	}
	var vals []string
	for _, d := range f.Decls {
		gd, ok := d.(*ast.GenDecl)
		if !ok || (gd.Tok != token.CONST && gd.Tok != token.VAR) {
			continue
		}
		for _, sp := range gd.Specs {
			vs, ok := sp.(*ast.ValueSpec)
			if !ok {
				continue
			}
			for i, n := range vs.Names {
				if n.Name != name {
					continue
				}
				if i >= len(vs.Values) {
					return "", fmt.Errorf("%s in %s has no value of its own (iota / grouped)", name, file)
				}
				vals = append(vals, rwRender(fset, vs.Values[i]))
			}
		}
	}
	if len(vals) != 1 {
		return "", fmt.Errorf("%s: expected exactly one declaration in %s, found %d", name, file, len(vals))
	}
	return vals[0], nil
}

func init() {
	factGens = append(factGens, func(repo string, emit func(name, leanDef string, err error)) {
		for _, sp := range []rwShapeSpec{
			{"shapeGetTokenIDFromAssetID", "x/oracle/types/params.go", "Params.GetTokenIDFromAssetID"},
			{"shapeGetSpecifiedAssetsPrice", "x/oracle/keeper/prices.go", "Keeper.GetSpecifiedAssetsPrice"},
		} {
			l, err := rwShape(repo, sp.file, sp.fn)
			emit(sp.name, "/-- "+sp.file+": "+sp.fn+" — significant statements in source order -/\ndef "+sp.name+" : List String := "+leanStrList(l), err)
		}
		var out []string
		var ferr error
		for _, c := range [][2]string{
			{"x/oracle/types/types.go", "DefaultPriceValue"},
			{"x/oracle/types/types.go", "DefaultPriceDecimal"},
			{"x/assets/types/general.go", "ExocoreAssetID"},
		} {
			v, err := vpConstValue(repo, c[0], c[1])
			if err != nil && ferr == nil {
				ferr = err
			}
			out = append(out, c[1]+"="+v)
		}
		emit("priceBindingConsts", "/-- DefaultPriceValue / DefaultPriceDecimal (x/oracle/types/types.go), ExocoreAssetID (x/assets/types/general.go) -/\ndef priceBindingConsts : List String := "+leanStrList(out), ferr)
	})
}
