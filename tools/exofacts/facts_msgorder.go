package main

// C08 (message order) facts.
//   msgServerEntryLoops   every `range` statement in the message servers of the consensus modules
//                         (x/<module>/keeper/msg_server*.go, non-test): "file:Func:operand:kind:exit",
//                         kind = the syntactic kind of the operand (slice | map | array | ? …: a `map`
//                         here means that entries of a message are executed in Go map order),
//                         exit = abort (the body can `return` out of the loop: the first failing entry
//                         decides the result, so the ORDER of the entries decides error code and gas) or
//                         all (every entry is visited).
//   msgServerMapLoops     the `map` entries of that list (must stay empty).
//   msgEntryBuilders      for the helpers of those files that turn a repeated message field into the list
//                         a handler executes (a function that returns a slice it appends to inside a
//                         loop): "file:Func:result<-range operand:kind". The model's
//                         `paramsInMessageOrder` is this with kind = slice.

import (
	"fmt"
	"go/ast"
	"path/filepath"
	"sort"
	"strings"
)

func init() {
	factGens = append(factGens, genMsgOrderFacts)
}

func isMsgServerFile(rel string) bool {
	if !consensusFile(rel) || !strings.HasPrefix(rel, "x/") {
		return false
	}
	return strings.HasPrefix(filepath.Base(rel), "msg_server") && strings.Contains(rel, "/keeper/")
}

func genMsgOrderFacts(repo string, emit func(name, leanDef string, err error)) {
	ix, err := loadIndex(repo)
	if err != nil {
		emit("msgServerEntryLoops", "", err)
		emit("msgServerMapLoops", "", err)
		emit("msgEntryBuilders", "", err)
		return
	}
	var loops, builders, mapLoops []string
	seen := map[string]int{}
	for _, pk := range ix.sortedPkgs() {
		for _, fn := range pk.allFuncs() {
			if !isMsgServerFile(fn.File.Rel) || fn.Decl.Body == nil {
				continue
			}
			ix.walkFunc(fn, func(s *xScope, n ast.Node, stack []ast.Node) {
				r, ok := n.(*ast.RangeStmt)
				if !ok {
					return
				}
				exit := "all"
				ast.Inspect(r.Body, func(m ast.Node) bool {
					switch m.(type) {
					case *ast.FuncLit:
						return false
					case *ast.ReturnStmt:
						exit = "abort"
					case *ast.BranchStmt:
						if m.(*ast.BranchStmt).Tok.String() == "break" {
							exit = "abort"
						}
					}
					return true
				})
				kind := s.kind(r.X)
				item := fmt.Sprintf("%s:%s:%s:%s:%s", fn.File.Rel, fn.QName(), srcText(r.X), kind, exit)
				seen[item]++
				if seen[item] > 1 {
					item = fmt.Sprintf("%s#%d", item, seen[item])
				}
				loops = append(loops, item)
				if kind == "map" {
					mapLoops = append(mapLoops, item)
				}
				// builder: the loop appends to a variable the function returns
				for _, c := range loopCarriedState("", r) {
					f := strings.Split(c, "|")
					if len(f) != 3 || f[2] != "append" {
						continue
					}
					returned := false
					ast.Inspect(fn.Decl.Body, func(m ast.Node) bool {
						if rs, ok := m.(*ast.ReturnStmt); ok {
							for _, e := range rs.Results {
								if srcText(e) == f[1] {
									returned = true
								}
							}
						}
						return true
					})
					if returned {
						builders = append(builders, fmt.Sprintf("%s:%s:%s<-range %s:%s", fn.File.Rel, fn.QName(), f[1], srcText(r.X), kind))
					}
				}
			})
		}
	}
	sort.Strings(loops)
	sort.Strings(builders)
	var lerr error
	if len(loops) == 0 {
		lerr = fmt.Errorf("no range statement found in any msg_server*.go (expected at least x/delegation's)")
	}
	emit("msgServerEntryLoops", "/-- every `range` in the message servers (x/*/keeper/msg_server*.go): file:Func:operand:kind:exit -/\ndef msgServerEntryLoops : List String := "+leanStrListNL(loops), lerr)
	sort.Strings(mapLoops)
	emit("msgServerMapLoops", "/-- the loops of msgServerEntryLoops whose operand is a Go map (entries executed in map order) -/\ndef msgServerMapLoops : List String := "+leanStrListNL(mapLoops), lerr)
	emit("msgEntryBuilders", "/-- helpers of the message servers that build the list a handler executes: file:Func:result<-range operand:kind -/\ndef msgEntryBuilders : List String := "+leanStrListNL(builders), lerr)
}
