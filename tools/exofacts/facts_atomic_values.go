package main

// Facts for the value-level half of C09 (Props/C09Values.lean, Props/C09ValuesTie.lean):
//   errPathsLateCallees     per callee that stands after the first write of delegate / opt-in / opt-out / createTask
//                           (and the helpers they reach): every `return …, <non-nil error>` labelled by what decides it —
//                           `if:<condition>` or `err:<callee whose error is passed on>` — in source order. These are the
//                           failure causes the value-level model (Model/AtomicValues.lean) enumerates for the named checks.
//   infallibleErrReturns    the callees the model gives no error path: the list above must be empty for them
//   avsInfoStoreKeys        the store key expression of IsAVS (store.Has) and GetAVSInfo (store.Get)
//   optedInfoKeyArgs        the key expression of Get/Handle/SetOptedInfo and the arguments OptIn / OptOut / IsActive /
//                           IsOptedIn pass for it (same operator string, same AVS string)
//   taskCreatedEventTypes   ABI type of each TaskCreated event input packed by EmitCreateAVSTaskEvent × Go type of the
//                           value passed for it
//   blockLoopShapes         the three in-repository per-item loops of block-begin/end processing (matured undelegations,
//                           voting power per AVS, task statistics): cache context inside the loop body, how the error
//                           branches end, no return / break / panic / goto inside the loop, store writers in the body
//   slashErrorSwallowed     SlashWithInfractionReason (x/operator, x/dogfood): no error result; the error of Slash is
//                           logged and a value returned, so one refused slash cannot stop the caller's loop

import (
	"encoding/json"
	"fmt"
	"go/ast"
	"go/token"
	"os"
	"path/filepath"
	"sort"
	"strings"
)

func init() {
	factGens = append(factGens, genAtomicValueFacts)
}

// avErrPaths lists the labelled non-nil error returns of fd (nested function literals excluded).
func avErrPaths(fset *token.FileSet, fd *ast.FuncDecl) ([]string, error) {
	res := fd.Type.Results
	if res == nil || len(res.List) == 0 {
		return nil, fmt.Errorf("%s: no results", fd.Name.Name)
	}
	last := res.List[len(res.List)-1]
	if xbNodeText(fset, last.Type) != "error" {
		return nil, fmt.Errorf("%s: last result is not error", fd.Name.Name)
	}
	var out []string
	// label of an `if` condition: the callee whose error the condition tests, or the condition itself
	label := func(ifs *ast.IfStmt, prev ast.Stmt) string {
		cond := xbNodeText(fset, ifs.Cond)
		if strings.Contains(cond, "err != nil") {
			src := prev
			if ifs.Init != nil {
				src = ifs.Init
			}
			if as, ok := src.(*ast.AssignStmt); ok && len(as.Rhs) == 1 {
				if c, ok := as.Rhs[0].(*ast.CallExpr); ok {
					assignsErr := false
					for _, l := range as.Lhs {
						if exprText(l) == "err" {
							assignsErr = true
						}
					}
					if assignsErr {
						return "err:" + xbCalleeName(c)
					}
				}
			}
		}
		return "if:" + cond
	}
	var walk func(stmts []ast.Stmt, ctx string)
	walkStmt := func(st ast.Stmt, prev ast.Stmt, ctx string) {
		switch t := st.(type) {
		case *ast.ReturnStmt:
			if len(t.Results) == 0 {
				out = append(out, "bare-return:"+ctx)
				return
			}
			r := t.Results[len(t.Results)-1]
			if exprText(r) == "nil" {
				return
			}
			if ctx == "" { // a return outside every `if`: a tail call or a plain `return …, err`
				if c, ok := r.(*ast.CallExpr); ok {
					out = append(out, "tail:"+xbCalleeName(c))
				} else if len(t.Results) == 1 {
					if c, ok := t.Results[0].(*ast.CallExpr); ok {
						out = append(out, "tail:"+xbCalleeName(c))
						return
					}
					out = append(out, "tail:"+xbNodeText(fset, r))
				} else {
					out = append(out, "tail:"+xbNodeText(fset, r))
				}
				return
			}
			out = append(out, ctx)
		case *ast.IfStmt:
			l := label(t, prev)
			walk(t.Body.List, l)
			switch e := t.Else.(type) {
			case *ast.BlockStmt:
				walk(e.List, "else:"+l)
			case *ast.IfStmt:
				walk([]ast.Stmt{e}, ctx)
			}
		case *ast.BlockStmt:
			walk(t.List, ctx)
		case *ast.ForStmt:
			walk(t.Body.List, ctx)
		case *ast.RangeStmt:
			walk(t.Body.List, ctx)
		case *ast.SwitchStmt:
			for _, cl := range t.Body.List {
				walk(cl.(*ast.CaseClause).Body, ctx)
			}
		case *ast.TypeSwitchStmt:
			for _, cl := range t.Body.List {
				walk(cl.(*ast.CaseClause).Body, ctx)
			}
		case *ast.LabeledStmt:
			walk([]ast.Stmt{t.Stmt}, ctx)
		}
	}
	walk = func(stmts []ast.Stmt, ctx string) {
		for i, st := range stmts {
			var prev ast.Stmt
			if i > 0 {
				prev = stmts[i-1]
			}
			walkStmt(st, prev, ctx)
		}
	}
	walk(fd.Body.List, "")
	return out, nil
}

func avLeanPairListList(rows [][2]interface{}) string {
	q := make([]string, len(rows))
	for i, r := range rows {
		q[i] = fmt.Sprintf("(%q, %s)", r[0].(string), leanStrList(r[1].([]string)))
	}
	return "[" + strings.Join(q, ", ") + "]"
}

// avLoopShape describes the body of a range/for loop (nested function literals excluded).
func avLoopShape(fset *token.FileSet, body *ast.BlockStmt) []string {
	cache, commit, cont, ret, brk, pan, gto := 0, 0, 0, 0, 0, 0, 0
	commitName := ""
	var errEnds []string
	var writers []string
	var afterWriter []string
	var firstWriter token.Pos
	var visit func(n ast.Node, inner bool) // inner = inside a nested loop / switch (break, continue belong to it)
	visit = func(n ast.Node, inner bool) {
		ast.Inspect(n, func(x ast.Node) bool {
			if x == nil || x == n {
				return true
			}
			switch t := x.(type) {
			case *ast.FuncLit:
				return false
			case *ast.ForStmt:
				visit(t.Body, true)
				return false
			case *ast.RangeStmt:
				visit(t.Body, true)
				return false
			case *ast.SwitchStmt:
				visit(t.Body, true)
				return false
			case *ast.AssignStmt:
				if len(t.Lhs) == 2 && len(t.Rhs) == 1 {
					if c, ok := t.Rhs[0].(*ast.CallExpr); ok && xbCalleeName(c) == "CacheContext" {
						commitName = exprText(t.Lhs[1])
					}
				}
			case *ast.CallExpr:
				nm := xbCalleeName(t)
				switch {
				case nm == "CacheContext":
					cache++
				case nm == "panic":
					pan++
				case commitName != "" && exprText(t.Fun) == commitName:
					commit++
				}
				if strings.HasPrefix(nm, "Set") || strings.HasPrefix(nm, "Delete") || strings.HasPrefix(nm, "Update") || strings.HasPrefix(nm, "Remove") || strings.HasPrefix(nm, "Undelegate") {
					writers = append(writers, nm)
					if firstWriter == token.NoPos {
						firstWriter = t.End()
					}
				} else if firstWriter != token.NoPos && t.Pos() > firstWriter {
					afterWriter = append(afterWriter, nm)
				}
			case *ast.ReturnStmt:
				ret++
			case *ast.BranchStmt:
				switch t.Tok {
				case token.CONTINUE:
					if !inner || t.Label != nil {
						cont++
					}
				case token.BREAK:
					if !inner || t.Label != nil {
						brk++
					}
				case token.GOTO:
					gto++
				}
			case *ast.IfStmt:
				if strings.Contains(xbNodeText(fset, t.Cond), "err != nil") && len(t.Body.List) > 0 {
					end := "falls-through"
					switch l := t.Body.List[len(t.Body.List)-1].(type) {
					case *ast.BranchStmt:
						end = strings.ToLower(l.Tok.String())
					case *ast.ReturnStmt:
						end = "return"
					}
					errEnds = append(errEnds, end)
				}
			}
			return true
		})
	}
	visit(body, false)
	sort.Strings(afterWriter)
	var aw []string
	for i, a := range afterWriter {
		if i == 0 || afterWriter[i-1] != a {
			aw = append(aw, a)
		}
	}
	kinds := map[string]int{}
	for _, e := range errEnds {
		kinds[e]++
	}
	var ks []string
	for k := range kinds {
		ks = append(ks, k)
	}
	sort.Strings(ks)
	out := []string{fmt.Sprintf("cache=%d", cache), fmt.Sprintf("commit=%d", commit), fmt.Sprintf("continue=%d", cont),
		fmt.Sprintf("return=%d", ret), fmt.Sprintf("break=%d", brk), fmt.Sprintf("panic=%d", pan), fmt.Sprintf("goto=%d", gto)}
	for _, k := range ks {
		out = append(out, fmt.Sprintf("errBranch:%s=%d", k, kinds[k]))
	}
	for _, w := range writers {
		out = append(out, "writer:"+w)
	}
	for _, a := range aw {
		out = append(out, "after:"+a)
	}
	return out
}

func genAtomicValueFacts(repo string, emit func(name, leanDef string, err error)) {
	type fn struct{ file, name, recv string }
	find := func(f fn) (*token.FileSet, *ast.FuncDecl, error) {
		fset, file, err := xbParseGo(repo, f.file)
		if err != nil {
			return nil, nil, err
		}
		fd := xbFindFunc(file, f.name, f.recv)
		if fd == nil {
			return nil, nil, fmt.Errorf("%s: func %s not found", f.file, f.name)
		}
		return fset, fd, nil
	}

	// ---- error paths of the late callees
	{
		var rows [][2]interface{}
		var ferr error
		for _, f := range []fn{
			{"x/delegation/keeper/share.go", "CalculateShare", "Keeper"},
			{"x/delegation/keeper/share.go", "SharesFromTokens", ""},
			{"x/assets/keeper/operator_asset.go", "UpdateOperatorAssetState", "Keeper"},
			{"x/assets/types/general.go", "UpdateAssetValue", ""},
			{"x/assets/types/general.go", "UpdateAssetDecValue", ""},
			{"x/delegation/keeper/delegation_state.go", "UpdateDelegationState", "Keeper"},
			{"x/operator/keeper/usd_value.go", "InitOperatorUSDValue", "Keeper"},
			{"x/avs/keeper/avs.go", "GetAVSSlashContract", "Keeper"},
			{"x/avs/keeper/avs.go", "GetAVSMinimumSelfDelegation", "Keeper"},
			{"x/avs/keeper/keeper.go", "GetAVSInfo", "Keeper"},
			{"x/operator/keeper/operator.go", "SetOptedInfo", "Keeper"},
			{"x/operator/keeper/operator.go", "HandleOptedInfo", "Keeper"},
			{"x/operator/keeper/operator.go", "GetOptedInfo", "Keeper"},
			{"x/avs/keeper/task.go", "SetTaskInfo", "Keeper"},
			{"precompiles/avs/events.go", "EmitCreateAVSTaskEvent", "Precompile"},
		} {
			fset, fd, err := find(f)
			if err != nil {
				ferr = err
				continue
			}
			ps, err := avErrPaths(fset, fd)
			if err != nil {
				ferr = err
				continue
			}
			rows = append(rows, [2]interface{}{f.name, ps})
		}
		emit("errPathsLateCallees", "/-- per callee: every `return …, <non-nil error>` in source order, labelled `if:<condition>` (the condition that decides it) or `err:<callee>` (the error of that callee is passed on) -/\ndef errPathsLateCallees : List (String × List String) := "+avLeanPairListList(rows), ferr)
	}

	// ---- callees without any error path
	{
		var rows [][2]interface{}
		var ferr error
		for _, f := range []fn{
			{"x/delegation/keeper/delegation_state.go", "GetAssociatedOperator", "Keeper"},
			{"x/delegation/keeper/delegation_state.go", "AppendStakerForOperator", "Keeper"},
			{"x/operator/keeper/usd_value.go", "DeleteAllOperatorsUSDValueForAVS", "Keeper"},
			{"x/operator/keeper/usd_value.go", "DeleteAVSUSDValue", "Keeper"},
			{"x/avs/keeper/keeper.go", "IsAVS", "Keeper"},
		} {
			fset, fd, err := find(f)
			if err != nil {
				ferr = err
				continue
			}
			ps, err := avErrPaths(fset, fd)
			if err != nil {
				ferr = err
				continue
			}
			if ps == nil {
				ps = []string{}
			}
			rows = append(rows, [2]interface{}{f.name, ps})
		}
		emit("infallibleErrReturns", "/-- callees the value-level model gives no error path: their non-nil error returns (must be none) -/\ndef infallibleErrReturns : List (String × List String) := "+avLeanPairListList(rows), ferr)
	}

	// ---- the store key of IsAVS and GetAVSInfo
	{
		var rows [][2]string
		var ferr error
		for _, m := range [][2]string{{"IsAVS", "Has"}, {"GetAVSInfo", "Get"}} {
			fset, fd, err := find(fn{"x/avs/keeper/keeper.go", m[0], "Keeper"})
			if err != nil {
				ferr = err
				continue
			}
			key := ""
			ast.Inspect(fd.Body, func(n ast.Node) bool {
				if c, ok := n.(*ast.CallExpr); ok && exprText(c.Fun) == "store."+m[1] && len(c.Args) == 1 && key == "" {
					key = xbNodeText(fset, c.Args[0])
				}
				return true
			})
			if key == "" {
				ferr = fmt.Errorf("%s: store.%s not found", m[0], m[1])
			}
			rows = append(rows, [2]string{m[0] + ".store." + m[1], key})
		}
		emit("avsInfoStoreKeys", "/-- x/avs/keeper/keeper.go: the key IsAVS tests and the key GetAVSInfo reads -/\ndef avsInfoStoreKeys : List (String × String) := "+xbLeanPairList(rows, "str"), ferr)
	}

	// ---- the opted-info key and the arguments passed for it
	{
		var rows [][2]string
		var ferr error
		for _, name := range []string{"GetOptedInfo", "HandleOptedInfo", "SetOptedInfo"} {
			fset, fd, err := find(fn{"x/operator/keeper/operator.go", name, "Keeper"})
			if err != nil {
				ferr = err
				continue
			}
			key := ""
			ast.Inspect(fd.Body, func(n ast.Node) bool {
				if as, ok := n.(*ast.AssignStmt); ok && len(as.Lhs) == 1 && len(as.Rhs) == 1 && exprText(as.Lhs[0]) == "infoKey" {
					key = xbNodeText(fset, as.Rhs[0])
				}
				return true
			})
			if key == "" {
				ferr = fmt.Errorf("%s: infoKey not found", name)
			}
			rows = append(rows, [2]string{name + ".infoKey", key})
		}
		args := func(f fn, callee string, from, to int) {
			fset, fd, err := find(f)
			if err != nil {
				ferr = err
				return
			}
			found := false
			ast.Inspect(fd.Body, func(n ast.Node) bool {
				if c, ok := n.(*ast.CallExpr); ok && xbCalleeName(c) == callee && !found && len(c.Args) >= to {
					found = true
					var as []string
					for _, a := range c.Args[from:to] {
						as = append(as, xbNodeText(fset, a))
					}
					rows = append(rows, [2]string{f.name + "→" + callee, strings.Join(as, ", ")})
				}
				return true
			})
			if !found {
				ferr = fmt.Errorf("%s: call of %s not found", f.name, callee)
			}
		}
		opt := "x/operator/keeper/opt.go"
		args(fn{"x/operator/keeper/operator.go", "IsOptedIn", "Keeper"}, "GetOptedInfo", 1, 3)
		args(fn{"x/operator/keeper/operator.go", "IsActive", "Keeper"}, "GetOptedInfo", 1, 3)
		args(fn{opt, "OptIn", "Keeper"}, "IsOptedIn", 1, 3)
		args(fn{opt, "OptIn", "Keeper"}, "GetAVSMinimumSelfDelegation", 1, 2)
		args(fn{opt, "OptIn", "Keeper"}, "InitOperatorUSDValue", 1, 3)
		args(fn{opt, "OptIn", "Keeper"}, "GetAVSSlashContract", 1, 2)
		args(fn{opt, "OptIn", "Keeper"}, "SetOptedInfo", 1, 3)
		args(fn{opt, "OptIn", "Keeper"}, "IsAVS", 1, 2)
		args(fn{opt, "OptOut", "Keeper"}, "IsAVS", 1, 2)
		args(fn{opt, "OptOut", "Keeper"}, "IsActive", 1, 3)
		args(fn{opt, "OptOut", "Keeper"}, "DeleteOperatorUSDValue", 1, 3)
		args(fn{opt, "OptOut", "Keeper"}, "HandleOptedInfo", 1, 3)
		emit("optedInfoKeyArgs", "/-- x/operator/keeper/operator.go: the store key of Get/Handle/SetOptedInfo; opt.go, operator.go: the operator / AVS arguments each call site passes -/\ndef optedInfoKeyArgs : List (String × String) := "+xbLeanPairList(rows, "str"), ferr)
	}

	// ---- TaskCreated event: ABI types × Go types of the packed values
	{
		var rows [][2]string
		var ferr error
		func() {
			bz, err := os.ReadFile(filepath.Join(repo, "precompiles/avs/abi.json"))
			if err != nil {
				ferr = err
				return
			}
			var abiItems []struct {
				Type   string `json:"type"`
				Name   string `json:"name"`
				Inputs []struct {
					Name string `json:"name"`
					Type string `json:"type"`
				} `json:"inputs"`
			}
			if err := json.Unmarshal(bz, &abiItems); err != nil {
				ferr = err
				return
			}
			var abiTypes []string
			for _, it := range abiItems {
				if it.Type == "event" && it.Name == "TaskCreated" {
					for _, in := range it.Inputs {
						abiTypes = append(abiTypes, in.Type)
					}
				}
			}
			if abiTypes == nil {
				ferr = fmt.Errorf("abi.json: event TaskCreated not found")
				return
			}
			// struct field types of TaskInfoParams
			_, pf, err := xbParseGo(repo, "x/avs/keeper/params.go")
			if err != nil {
				ferr = err
				return
			}
			fieldType := map[string]string{}
			fsetP := token.NewFileSet()
			_ = fsetP
			ast.Inspect(pf, func(n ast.Node) bool {
				ts, ok := n.(*ast.TypeSpec)
				if !ok || ts.Name.Name != "TaskInfoParams" {
					return true
				}
				if stt, ok := ts.Type.(*ast.StructType); ok {
					for _, f := range stt.Fields.List {
						ty := ""
						switch t := f.Type.(type) {
						case *ast.Ident:
							ty = t.Name
						case *ast.ArrayType:
							if t.Len == nil {
								ty = "[]" + exprText(t.Elt)
							} else {
								ty = "[n]" + exprText(t.Elt)
							}
						default:
							ty = exprText(f.Type)
						}
						for _, nm := range f.Names {
							fieldType[nm.Name] = ty
						}
					}
				}
				return false
			})
			fset, fd, err := find(fn{"precompiles/avs/events.go", "EmitCreateAVSTaskEvent", "Precompile"})
			if err != nil {
				ferr = err
				return
			}
			event, bound := "", ""
			var packed []string
			ast.Inspect(fd.Body, func(n ast.Node) bool {
				switch t := n.(type) {
				case *ast.AssignStmt:
					if len(t.Lhs) == 1 && len(t.Rhs) == 1 {
						switch exprText(t.Lhs[0]) {
						case "event":
							event = xbNodeText(fset, t.Rhs[0])
						case "arguments":
							bound = xbNodeText(fset, t.Rhs[0])
						}
					}
				case *ast.CallExpr:
					if exprText(t.Fun) == "arguments.Pack" {
						for _, a := range t.Args {
							packed = append(packed, xbNodeText(fset, a))
						}
					}
				}
				return true
			})
			rows = append(rows, [2]string{"event", event}, [2]string{"arguments", bound})
			if len(packed) == 0 {
				ferr = fmt.Errorf("EmitCreateAVSTaskEvent: arguments.Pack not found")
				return
			}
			for i, p := range packed {
				at := "<none>"
				if i < len(abiTypes) {
					at = abiTypes[i]
				}
				gt := "<unknown>"
				if strings.HasPrefix(p, "task.") {
					if t, ok := fieldType[strings.TrimPrefix(p, "task.")]; ok {
						gt = t
					}
				}
				rows = append(rows, [2]string{at, gt})
			}
		}()
		emit("taskCreatedEventTypes", "/-- precompiles/avs/events.go: EmitCreateAVSTaskEvent — the event looked up, the slice of its inputs that is packed, then per packed value: (ABI type of the input in abi.json, Go type of the TaskInfoParams field passed) -/\ndef taskCreatedEventTypes : List (String × String) := "+xbLeanPairList(rows, "str"), ferr)
	}

	// ---- per-item loops of block processing
	{
		var rows [][2]interface{}
		var ferr error
		for _, m := range [][4]string{
			{"delegation.EndBlock.records", "x/delegation/keeper/abci.go", "EndBlock", "records"},
			{"operator.AfterEpochEnd.avsList", "x/operator/keeper/impl_epoch_hook.go", "AfterEpochEnd", "avsList"},
			{"avs.AfterEpochEnd.groupedTasks", "x/avs/keeper/impl_epoch_hook.go", "AfterEpochEnd", "groupedTasks"},
		} {
			fset, fd, err := find(fn{m[1], m[2], ""})
			if err != nil {
				ferr = err
				continue
			}
			var loop *ast.RangeStmt
			ast.Inspect(fd.Body, func(n ast.Node) bool {
				if r, ok := n.(*ast.RangeStmt); ok && loop == nil && exprText(r.X) == m[3] {
					loop = r
				}
				return true
			})
			if loop == nil {
				ferr = fmt.Errorf("%s: range over %s not found", m[1], m[3])
				continue
			}
			rows = append(rows, [2]interface{}{m[0], avLoopShape(fset, loop.Body)})
		}
		emit("blockLoopShapes", "/-- the per-item loops of block-begin/end processing: calls of CacheContext and of its commit function inside the body, `continue`s of the loop, returns / breaks / panics / gotos inside it, how many `if … err != nil` bodies end in continue / return / break or fall through, the store-writing callees (Set*/Delete*/Update*/Remove*/Undelegate*) in source order and the callees that follow the first of them -/\ndef blockLoopShapes : List (String × List String) := "+avLeanPairListList(rows), ferr)
	}

	// ---- a refused slash is logged, not returned
	{
		var rows [][2]string
		var ferr error
		func() {
			fset, fd, err := find(fn{"x/operator/keeper/slash.go", "SlashWithInfractionReason", "Keeper"})
			if err != nil {
				ferr = err
				return
			}
			var rts []string
			if fd.Type.Results != nil {
				for _, r := range fd.Type.Results.List {
					rts = append(rts, xbNodeText(fset, r.Type))
				}
			}
			rows = append(rows, [2]string{"operator.results", strings.Join(rts, ",")})
			pan := 0
			ast.Inspect(fd.Body, func(n ast.Node) bool {
				if c, ok := n.(*ast.CallExpr); ok && xbCalleeName(c) == "panic" {
					pan++
				}
				return true
			})
			rows = append(rows, [2]string{"operator.panics", fmt.Sprint(pan)})
			branch := "<not found>"
			for i, st := range fd.Body.List {
				ifs, ok := st.(*ast.IfStmt)
				if !ok || i == 0 || xbNodeText(fset, ifs.Cond) != "err != nil" {
					continue
				}
				as, ok := fd.Body.List[i-1].(*ast.AssignStmt)
				if !ok || len(as.Rhs) != 1 {
					continue
				}
				c, ok := as.Rhs[0].(*ast.CallExpr)
				if !ok || xbCalleeName(c) != "Slash" {
					continue
				}
				var kinds []string
				for _, b := range ifs.Body.List {
					switch t := b.(type) {
					case *ast.ExprStmt:
						if cc, ok := t.X.(*ast.CallExpr); ok {
							kinds = append(kinds, "call:"+xbCalleeName(cc))
						} else {
							kinds = append(kinds, "expr")
						}
					case *ast.ReturnStmt:
						var rs []string
						for _, r := range t.Results {
							rs = append(rs, xbNodeText(fset, r))
						}
						kinds = append(kinds, "return "+strings.Join(rs, ","))
					default:
						kinds = append(kinds, fmt.Sprintf("%T", b))
					}
				}
				branch = strings.Join(kinds, ";")
			}
			rows = append(rows, [2]string{"operator.errBranchOfSlash", branch})
			fset2, fd2, err := find(fn{"x/dogfood/keeper/impl_sdk.go", "SlashWithInfractionReason", "Keeper"})
			if err != nil {
				ferr = err
				return
			}
			var rts2 []string
			if fd2.Type.Results != nil {
				for _, r := range fd2.Type.Results.List {
					rts2 = append(rts2, xbNodeText(fset2, r.Type))
				}
			}
			rows = append(rows, [2]string{"dogfood.results", strings.Join(rts2, ",")})
			pan2 := 0
			ast.Inspect(fd2.Body, func(n ast.Node) bool {
				if c, ok := n.(*ast.CallExpr); ok && xbCalleeName(c) == "panic" {
					pan2++
				}
				return true
			})
			rows = append(rows, [2]string{"dogfood.panics", fmt.Sprint(pan2)})
		}()
		emit("slashErrorSwallowed", "/-- SlashWithInfractionReason (x/operator/keeper/slash.go; forwarded by x/dogfood/keeper/impl_sdk.go): result types, panics, and the body of the `if err != nil` that follows `err := k.Slash(…)` -/\ndef slashErrorSwallowed : List (String × String) := "+xbLeanPairList(rows, "str"), ferr)
	}
}
