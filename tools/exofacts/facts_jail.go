package main

// Tie A for the jail status per chain (C06 / C07) and for the admission guard of a slash (C04):
//
//   jailedForChainID   x/operator/keeper/slash.go: IsOperatorJailedForChainID as a Bool function of
//                      (reverse lookup found, chain is an AVS, opt-in record missing, its Jailed flag)
//   jailViewCalls      who reads / writes that status: ValidatorByConsAddrForChainID (val.Jailed),
//                      dogfood's IsValidatorJailed, dogfood's Jail / Unjail -> operator Jail / Unjail ->
//                      SetJailedState(…, true / false), and SetJailedState's assignment
//   operatorIsActive   x/operator/keeper/operator.go: IsActive as a Bool function of (opt-in record missing,
//                      opted out, Jailed flag) and activeOperatorsFilter: the condition under which
//                      GetActiveOperatorsForChainID keeps an operator (EndBlock's candidate list)
//   slashParamRejects  x/operator/keeper/slash.go: CheckSlashParameter as a Bool function ("rejects")
//                      of (proportion is nil, proportion is negative, event height, current height,
//                      power, is-dogfood)
//
// Statements between the guards must be the whitelisted bindings (they fix what the atoms mean);
// logger calls are skipped; anything else fails the fact (closed).

import (
	"fmt"
	"go/ast"
	"strings"
)

func init() { factGens = append(factGens, genJailFacts) }

// guardChain translates `bind; if c { log; return a }; …; return b` to nested Lean `if`s.
// ret maps a return statement to a Lean Bool term.
func (t *vtr) guardChain(list []ast.Stmt, binds map[string]bool, ret func(r *ast.ReturnStmt) string) string {
	for len(list) > 0 {
		switch s := list[0].(type) {
		case *ast.ExprStmt:
			if strings.HasPrefix(t.src(s), "k.Logger(ctx).") {
				list = list[1:]
				continue
			}
		case *ast.AssignStmt:
			if binds[t.src(s)] {
				list = list[1:]
				continue
			}
		}
		break
	}
	if len(list) == 0 {
		vfail("guard chain falls off its end")
	}
	switch s := list[0].(type) {
	case *ast.ReturnStmt:
		return ret(s)
	case *ast.IfStmt:
		if s.Init != nil {
			vfail("if-initialiser in guard chain")
		}
		c, ty := t.expr(s.Cond)
		if ty != "Bool" {
			vfail("condition type %s", ty)
		}
		th := t.guardChain(append(append([]ast.Stmt{}, s.Body.List...), list[1:]...), binds, ret)
		var el string
		switch e := s.Else.(type) {
		case nil:
			el = t.guardChain(list[1:], binds, ret)
		case *ast.BlockStmt:
			el = t.guardChain(append(append([]ast.Stmt{}, e.List...), list[1:]...), binds, ret)
		default:
			vfail("else-if in guard chain")
		}
		return "(if " + c + " then " + th + " else " + el + ")"
	}
	vfail("unsupported statement in guard chain: %s", t.src(list[0]))
	return ""
}

func genJailFacts(repo string, emit func(name, leanDef string, err error)) {
	// ---- slash.go: IsOperatorJailedForChainID
	func() {
		fset, f, err := vParse(repo, "x/operator/keeper/slash.go")
		if err != nil {
			emit("jailedForChainID", "", err)
			emit("slashParamRejects", "", err)
			return
		}
		if fd := findFunc(f, "Keeper.IsOperatorJailedForChainID"); fd == nil {
			emit("jailedForChainID", "", fmt.Errorf("IsOperatorJailedForChainID not found"))
		} else {
			t := &vtr{fset: fset, atoms: map[string]vAtom{
				"found": {"found", "Bool"}, "isAvs": {"isAvs", "Bool"}, "err != nil": {"infoErr", "Bool"},
				"optInfo.Jailed": {"flag", "Bool"},
			}}
			binds := map[string]bool{
				"found, operatorAddr := k.GetOperatorAddressForChainIDAndConsAddr(ctx, chainID, consAddr)": true,
				"isAvs, avsAddr := k.avsKeeper.IsAVSByChainID(ctx, chainID)":                               true,
				"optInfo, err := k.GetOptedInfo(ctx, operatorAddr.String(), avsAddr)":                     true,
			}
			body, e := vGuard(func() string {
				return t.guardChain(fd.Body.List, binds, func(r *ast.ReturnStmt) string {
					if len(r.Results) != 1 {
						vfail("return arity")
					}
					v, ty := t.expr(r.Results[0])
					if ty != "Bool" {
						vfail("returns %s", ty)
					}
					return v
				})
			})
			emit("jailedForChainID", "/-- slash.go: IsOperatorJailedForChainID (found = reverse lookup of the consensus address, isAvs = the chain id is an AVS, infoErr = GetOptedInfo of that operator fails, flag = its Jailed) -/\ndef jailedForChainID (found isAvs infoErr flag : Bool) : Bool := "+body, e)
		}
		// ---- slash.go: CheckSlashParameter
		if fd := findFunc(f, "Keeper.CheckSlashParameter"); fd == nil {
			emit("slashParamRejects", "", fmt.Errorf("CheckSlashParameter not found"))
		} else {
			t := &vtr{fset: fset, atoms: map[string]vAtom{
				"parameter.SlashProportion.IsNil()":      {"pNil", "Bool"},
				"parameter.SlashProportion.IsNegative()": {"pNeg", "Bool"},
				"parameter.SlashEventHeight":             {"evH", "Int"},
				"height":                                 {"h", "Int"},
				"parameter.Power":                        {"power", "Int"},
				"parameter.IsDogFood":                    {"dogfood", "Bool"},
			}}
			binds := map[string]bool{"height := ctx.BlockHeight()": true}
			body, e := vGuard(func() string {
				return t.guardChain(fd.Body.List, binds, func(r *ast.ReturnStmt) string {
					if len(r.Results) != 1 {
						vfail("return arity")
					}
					if id, ok := r.Results[0].(*ast.Ident); ok && id.Name == "nil" {
						return "false"
					}
					return "true"
				})
			})
			emit("slashParamRejects", "/-- slash.go: CheckSlashParameter returns an error (pNil / pNeg = SlashProportion.IsNil() / .IsNegative(), evH = SlashEventHeight, h = ctx.BlockHeight(), power = Power, dogfood = IsDogFood) -/\ndef slashParamRejects (pNil pNeg : Bool) (evH h power : Int) (dogfood : Bool) : Bool := "+body, e)
		}
	}()
	// ---- operator.go: IsActive, consensus_keys.go: GetActiveOperatorsForChainID
	func() {
		fset, f, err := vParse(repo, "x/operator/keeper/operator.go")
		if err != nil {
			emit("operatorIsActive", "", err)
		} else if fd := findFunc(f, "Keeper.IsActive"); fd == nil {
			emit("operatorIsActive", "", fmt.Errorf("IsActive not found"))
		} else {
			t := &vtr{fset: fset, atoms: map[string]vAtom{
				"err != nil": {"infoErr", "Bool"}, "optedInfo.Jailed": {"jailed", "Bool"},
				"optedInfo.OptedOutHeight != operatortypes.DefaultOptedOutHeight": {"optedOut", "Bool"},
			}}
			binds := map[string]bool{"optedInfo, err := k.GetOptedInfo(ctx, operatorAddr.String(), avsAddr)": true}
			body, e := vGuard(func() string {
				return t.guardChain(fd.Body.List, binds, func(r *ast.ReturnStmt) string {
					if len(r.Results) != 1 {
						vfail("return arity")
					}
					v, ty := t.expr(r.Results[0])
					if ty != "Bool" {
						vfail("returns %s", ty)
					}
					return v
				})
			})
			emit("operatorIsActive", "/-- operator.go: IsActive (infoErr = no opt-in record, optedOut = OptedOutHeight != DefaultOptedOutHeight, jailed = its Jailed flag) -/\ndef operatorIsActive (infoErr optedOut jailed : Bool) : Bool := "+body, e)
		}
		fset2, f2, err := vParse(repo, "x/operator/keeper/consensus_keys.go")
		if err != nil {
			emit("activeOperatorsFilter", "", err)
			return
		}
		fd := findFunc(f2, "Keeper.GetActiveOperatorsForChainID")
		if fd == nil {
			emit("activeOperatorsFilter", "", fmt.Errorf("GetActiveOperatorsForChainID not found"))
			return
		}
		t2 := &vtr{fset: fset2}
		var conds []string
		ast.Inspect(fd.Body, func(x ast.Node) bool {
			if rs, ok := x.(*ast.RangeStmt); ok {
				for _, st := range rs.Body.List {
					if ifs, ok := st.(*ast.IfStmt); ok {
						keeps := false
						ast.Inspect(ifs.Body, func(y ast.Node) bool {
							if as, ok := y.(*ast.AssignStmt); ok && strings.HasPrefix(t2.src(as), "activeOperator = append(activeOperator") {
								keeps = true
							}
							return true
						})
						if keeps {
							conds = append(conds, t2.src(rs.X)+": "+t2.src(ifs.Cond))
						}
					} else {
						conds = append(conds, "?: "+t2.src(st))
					}
				}
			}
			return true
		})
		emit("activeOperatorsFilter", "/-- consensus_keys.go: GetActiveOperatorsForChainID — the loop keeps an operator under this condition (range expression: condition) -/\ndef activeOperatorsFilter : List String := "+leanStrList(conds), nil)
	}()
	// ---- who reads / writes the status
	func() {
		var out []string
		fail := func(err error) { emit("jailViewCalls", "", err) }
		fset, f, err := vParse(repo, "x/operator/keeper/consensus_keys.go")
		if err != nil {
			fail(err)
			return
		}
		t := &vtr{fset: fset}
		fd := findFunc(f, "Keeper.ValidatorByConsAddrForChainID")
		if fd == nil {
			fail(fmt.Errorf("ValidatorByConsAddrForChainID not found"))
			return
		}
		n := 0
		ast.Inspect(fd.Body, func(x ast.Node) bool {
			if as, ok := x.(*ast.AssignStmt); ok && len(as.Lhs) == 1 && t.src(as.Lhs[0]) == "val.Jailed" && len(as.Rhs) == 1 {
				out = append(out, "val.Jailed="+t.src(as.Rhs[0]))
				n++
			}
			return true
		})
		if n != 1 {
			fail(fmt.Errorf("exactly one assignment to val.Jailed expected in ValidatorByConsAddrForChainID, found %d", n))
			return
		}
		fset2, f2, err := vParse(repo, "x/dogfood/keeper/impl_sdk.go")
		if err != nil {
			fail(err)
			return
		}
		t2 := &vtr{fset: fset2}
		for _, fn := range []string{"IsValidatorJailed", "Jail", "Unjail"} {
			fd := findFunc(f2, "Keeper."+fn)
			if fd == nil || len(fd.Body.List) != 1 {
				fail(fmt.Errorf("dogfood %s: single statement expected", fn))
				return
			}
			out = append(out, fn+": "+t2.src(fd.Body.List[0]))
		}
		fset3, f3, err := vParse(repo, "x/operator/keeper/slash.go")
		if err != nil {
			fail(err)
			return
		}
		t3 := &vtr{fset: fset3}
		for _, fn := range []string{"Jail", "Unjail"} {
			fd := findFunc(f3, "Keeper."+fn)
			if fd == nil || len(fd.Body.List) != 1 {
				fail(fmt.Errorf("operator %s: single statement expected", fn))
				return
			}
			out = append(out, "operator."+fn+": "+t3.src(fd.Body.List[0]))
		}
		fd = findFunc(f3, "Keeper.SetJailedState")
		if fd == nil {
			fail(fmt.Errorf("SetJailedState not found"))
			return
		}
		n = 0
		ast.Inspect(fd.Body, func(x ast.Node) bool {
			if as, ok := x.(*ast.AssignStmt); ok && len(as.Lhs) == 1 && strings.HasSuffix(t3.src(as.Lhs[0]), ".Jailed") {
				out = append(out, "SetJailedState: "+t3.src(as))
				n++
			}
			return true
		})
		if n != 1 {
			fail(fmt.Errorf("exactly one assignment to .Jailed expected in SetJailedState, found %d", n))
			return
		}
		emit("jailViewCalls", "/-- where the per-chain jail status is read (ValidatorByConsAddrForChainID, dogfood IsValidatorJailed) and written (dogfood Jail / Unjail -> operator Jail / Unjail -> SetJailedState) -/\ndef jailViewCalls : List String := "+leanStrListNL(out), nil)
	}()
}
