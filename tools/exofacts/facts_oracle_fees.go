package main

// Fee-path and parameter-update facts (C12 / C13): the statements the models
// Model/OracleFees.lean (who takes the fee-less branch of the Cosmos ante chain, what every other tx
// pays) and Model/OracleParamsUpdate.lean (what an accepted MsgUpdateParams writes) transcribe, as
// source text — a condition negated, an operator or a literal changed, an assignment or a call
// removed or reordered changes a literal the tie theorems (Props/C13FeesTie.lean,
// Props/C12ParamsTie.lean) compare against.
//
//   oracleFeePathShape      app/ante/cosmos/fees.go     NewDeductFeeDecorator: the default fee checker is
//                                                         installed only when none is given;
//                                                         DeductFeeDecorator.AnteHandle: top-level statements
//                                                         (conditions in full), the oracle branch's body;
//                                                         deductFee: the zero-fee guard;
//                           app/ante/cosmos/context.go  SetUpContextDecorator.AnteHandle: the oracle branch, the
//                                                         block-gas guard; SetGasMeter: when the meter is infinite
//   oracleParamsUpdateShape x/oracle/types/params.go    UpdateMaxPriceCount and AddRules statement by statement;
//                           x/oracle/keeper/msg_server_update_params.go  the order of the chain's calls on `p`

import (
	"fmt"
	"go/ast"
	"go/token"
	"strings"
)

func init() { factGens = append(factGens, oracleFeeFacts) }

// stmtHead: an `if` as "if <cond>" (+ " else …" marker), every other statement in full.
func stmtHead(fset *token.FileSet, src []byte, s ast.Stmt) string {
	if ifs, ok := s.(*ast.IfStmt); ok {
		h := "if "
		if ifs.Init != nil {
			h += orcNodeText(fset, src, ifs.Init) + "; "
		}
		h += orcNodeText(fset, src, ifs.Cond)
		if ifs.Else != nil {
			h += " {…} else {…}"
		}
		return h
	}
	return orcNodeText(fset, src, s)
}

func stmtTexts(fset *token.FileSet, src []byte, l []ast.Stmt) []string {
	var out []string
	for _, s := range l {
		out = append(out, orcNodeText(fset, src, s))
	}
	return out
}

func oracleFeeFacts(repo string, emit func(name, leanDef string, err error)) {
	func() {
		const name = "oracleFeePathShape"
		var def strings.Builder
		// ---- fees.go
		{
			const file = "app/ante/cosmos/fees.go"
			f, fset, err := parseRepo(repo, file)
			if err != nil {
				emit(name, "", err)
				return
			}
			src, _ := readFile(repo + "/" + file)
			nd := findFunc(f, "NewDeductFeeDecorator")
			ah := findFunc(f, "DeductFeeDecorator.AnteHandle")
			df := findFunc(f, "DeductFeeDecorator.deductFee")
			if nd == nil || ah == nil || df == nil {
				emit(name, "", fmt.Errorf("fees.go: NewDeductFeeDecorator / DeductFeeDecorator.AnteHandle / deductFee not found"))
				return
			}
			var ndHeads []string
			for _, s := range nd.Body.List {
				if _, isRet := s.(*ast.ReturnStmt); isRet {
					ndHeads = append(ndHeads, "return …")
					continue
				}
				ndHeads = append(ndHeads, orcNodeText(fset, src, s))
			}
			fmt.Fprintf(&def, "/-- %s: NewDeductFeeDecorator, statement by statement (the struct literal of the return elided) -/\ndef feeNewDecoratorBody : List String := %s\n\n", file, leanStrList(ndHeads))
			var heads []string
			for _, s := range ah.Body.List {
				heads = append(heads, stmtHead(fset, src, s))
			}
			fmt.Fprintf(&def, "/-- %s: DeductFeeDecorator.AnteHandle, top-level statements (an `if` as its condition) -/\ndef feeAnteHandleHeads : List String := %s\n\n", file, leanStrList(heads))
			br := oracleBranch(ah)
			if br == nil {
				emit(name, "", fmt.Errorf("oracle branch of DeductFeeDecorator.AnteHandle not found"))
				return
			}
			fmt.Fprintf(&def, "/-- … the body of its `if IsOracleCreatePriceTx(tx)` branch -/\ndef feeAnteHandleOracleBranch : List String := %s\n\n", leanStrList(stmtTexts(fset, src, br.List)))
			if len(df.Body.List) == 0 {
				emit(name, "", fmt.Errorf("deductFee is empty"))
				return
			}
			fmt.Fprintf(&def, "/-- %s: deductFee, its first statement -/\ndef feeDeductFirstStmt : String := %q\n\n", file, orcNodeText(fset, src, df.Body.List[0]))
		}
		// ---- context.go
		{
			const file = "app/ante/cosmos/context.go"
			f, fset, err := parseRepo(repo, file)
			if err != nil {
				emit(name, "", err)
				return
			}
			src, _ := readFile(repo + "/" + file)
			ah := findFunc(f, "SetUpContextDecorator.AnteHandle")
			gm := findFunc(f, "SetGasMeter")
			if ah == nil || gm == nil {
				emit(name, "", fmt.Errorf("context.go: SetUpContextDecorator.AnteHandle / SetGasMeter not found"))
				return
			}
			br := oracleBranch(ah)
			if br == nil {
				emit(name, "", fmt.Errorf("oracle branch of SetUpContextDecorator.AnteHandle not found"))
				return
			}
			fmt.Fprintf(&def, "/-- %s: SetUpContextDecorator.AnteHandle, the body of its `if IsOracleCreatePriceTx(tx)` branch -/\ndef setupOracleBranch : List String := %s\n\n", file, leanStrList(stmtTexts(fset, src, br.List)))
			var heads []string
			for _, s := range ah.Body.List {
				if _, isDefer := s.(*ast.DeferStmt); isDefer {
					heads = append(heads, "defer …")
					continue
				}
				heads = append(heads, stmtHead(fset, src, s))
			}
			fmt.Fprintf(&def, "/-- … its top-level statements (an `if` as its condition, the deferred recover elided) -/\ndef setupAnteHandleHeads : List String := %s\n\n", leanStrList(heads))
			fmt.Fprintf(&def, "/-- %s: SetGasMeter, statement by statement -/\ndef setGasMeterBody : List String := %s", file, leanStrList(stmtTexts(fset, src, gm.Body.List)))
		}
		emit(name, def.String(), nil)
	}()
	func() {
		const name = "oracleParamsUpdateShape"
		var def strings.Builder
		{
			const file = "x/oracle/types/params.go"
			f, fset, err := parseRepo(repo, file)
			if err != nil {
				emit(name, "", err)
				return
			}
			src, _ := readFile(repo + "/" + file)
			mp := findFunc(f, "Params.UpdateMaxPriceCount")
			ar := findFunc(f, "Params.AddRules")
			if mp == nil || ar == nil {
				emit(name, "", fmt.Errorf("params.go: Params.UpdateMaxPriceCount / Params.AddRules not found"))
				return
			}
			fmt.Fprintf(&def, "/-- %s: UpdateMaxPriceCount, statement by statement -/\ndef updateMaxPriceCountBody : List String := %s\n\n", file, leanStrList(stmtTexts(fset, src, mp.Body.List)))
			fmt.Fprintf(&def, "/-- %s: AddRules, statement by statement -/\ndef addRulesBody : List String := %s\n\n", file, leanStrList(stmtTexts(fset, src, ar.Body.List)))
		}
		{
			const file = "x/oracle/keeper/msg_server_update_params.go"
			f, fset, err := parseRepo(repo, file)
			if err != nil {
				emit(name, "", err)
				return
			}
			_ = fset
			fd := findFunc(f, "msgServer.UpdateParams")
			if fd == nil {
				emit(name, "", fmt.Errorf("msgServer.UpdateParams not found"))
				return
			}
			// every call `p.<Method>(…)` / `ms.SetParams(…)` in source order
			var calls []string
			ast.Inspect(fd.Body, func(n ast.Node) bool {
				if ce, ok := n.(*ast.CallExpr); ok {
					if se, ok := ce.Fun.(*ast.SelectorExpr); ok {
						if id, ok := se.X.(*ast.Ident); ok && (id.Name == "p" || (id.Name == "ms" && se.Sel.Name == "SetParams")) {
							calls = append(calls, id.Name+"."+se.Sel.Name)
						}
					}
				}
				return true
			})
			fmt.Fprintf(&def, "/-- %s: UpdateParams, the calls on the edited value `p` (and SetParams) in source order -/\ndef updateParamsChain : List String := %s", file, leanStrList(calls))
		}
		emit(name, def.String(), nil)
	}()
}

var _ = token.NoPos
