package main

// Oracle facts (C12/C13/C14): constants and code shapes the model relies on, re-read from the
// Go sources on every run.

import (
	"fmt"
	"go/ast"
	"go/parser"
	"go/token"
	"os"
	"strings"
)

func init() {
	factGens = append(factGens, oracleFacts)
	methods["Int"]["UTC"] = callRule{"$r", "Int"} // time.Time.UTC(): same instant
}

func parseRepo(repo, file string) (*ast.File, *token.FileSet, error) {
	fset := token.NewFileSet()
	f, err := parser.ParseFile(fset, repo+"/"+file, nil, 0)
	return f, fset, err
}

// condText renders an expression back to compact Go text (for shape facts).
func orcNodeText(fset *token.FileSet, src []byte, n ast.Node) string {
	return strings.Join(strings.Fields(string(src[fset.Position(n.Pos()).Offset:fset.Position(n.End()).Offset])), " ")
}

func oracleFacts(repo string, emit func(name, leanDef string, err error)) {
	// 1. the oracle branch of SigVerificationDecorator: the boolean returned by VerifySignature must
	// GUARD A RETURN OF AN ERROR: an `if` whose condition is `!X.VerifySignature(..)` (optionally
	// `!simulate && …`) and whose body returns a non-nil error. Anything else (result dropped,
	// assigned and forgotten, logged only, extra disjuncts/conjuncts) counts as "not used".
	func() {
		f, fset, err := parseRepo(repo, "app/ante/cosmos/sigverify.go")
		if err != nil {
			emit("oracleSigResultUsed", "", err)
			return
		}
		src, _ := readFile(repo + "/app/ante/cosmos/sigverify.go")
		fd := findFunc(f, "SigVerificationDecorator.AnteHandle")
		if fd == nil {
			emit("oracleSigResultUsed", "", fmt.Errorf("SigVerificationDecorator.AnteHandle not found"))
			return
		}
		isNegVerify := func(e ast.Expr) bool {
			for {
				if p, ok := e.(*ast.ParenExpr); ok {
					e = p.X
					continue
				}
				break
			}
			u, ok := e.(*ast.UnaryExpr)
			if !ok || u.Op != token.NOT {
				return false
			}
			c, ok := u.X.(*ast.CallExpr)
			return ok && strings.HasSuffix(exprText(c.Fun), ".VerifySignature")
		}
		isNotSimulate := func(e ast.Expr) bool {
			u, ok := e.(*ast.UnaryExpr)
			return ok && u.Op == token.NOT && exprText(u.X) == "simulate"
		}
		calls, guards := 0, 0
		guardText := ""
		ast.Inspect(fd.Body, func(n ast.Node) bool {
			ifs, ok := n.(*ast.IfStmt)
			if !ok || !strings.Contains(exprText(ifs.Cond), "IsOracleCreatePriceTx") {
				return true
			}
			ast.Inspect(ifs.Body, func(m ast.Node) bool {
				if c, ok := m.(*ast.CallExpr); ok && strings.HasSuffix(exprText(c.Fun), ".VerifySignature") {
					calls++
				}
				g, ok := m.(*ast.IfStmt)
				if !ok || g.Init != nil {
					return true
				}
				condOK := isNegVerify(g.Cond)
				if be, ok := g.Cond.(*ast.BinaryExpr); ok && be.Op == token.LAND && isNotSimulate(be.X) && isNegVerify(be.Y) {
					condOK = true
				}
				if !condOK || len(g.Body.List) == 0 {
					return true
				}
				ret, ok := g.Body.List[0].(*ast.ReturnStmt)
				if !ok || len(ret.Results) != 2 || exprText(ret.Results[1]) == "nil" {
					return true
				}
				if id, ok := ret.Results[1].(*ast.Ident); ok && id.Name == "err" {
					return true // returning a variable that may be nil is not a guard
				}
				guards++
				guardText = orcNodeText(fset, src, g.Cond)
				return true
			})
			return false
		})
		if calls == 0 {
			emit("oracleSigResultUsed", "", fmt.Errorf("no VerifySignature call in the oracle branch"))
			return
		}
		used := guards >= 1 && guards == calls // every call sits in a guarding condition
		emit("oracleSigResultUsed", fmt.Sprintf("/-- app/ante/cosmos/sigverify.go, oracle branch: every VerifySignature call is the negated condition of an `if` that returns an error (false = result dropped or not guarding a return) -/\ndef oracleSigResultUsed : Bool := %v\n\n/-- the guarding condition, as written -/\ndef oracleSigGuardCond : String := %q", used, guardText), nil)
	}()
	// 1b. the oracle branches of SetPubKeyDecorator and SigVerificationDecorator must tie the number
	// of SignerInfos (public keys / enumerated signatures) to the number of signers: an `if` whose
	// condition is a `||`-chain of `len(x) != len(signers)` comparisons and whose body returns an
	// error, where `signers` is assigned from GetSigners() in that branch (F-10c).
	func() {
		f, _, err := parseRepo(repo, "app/ante/cosmos/sigverify.go")
		if err != nil {
			emit("oracleSignerCountChecked", "", err)
			return
		}
		guards := func(fn string) (map[string]bool, error) {
			fd := findFunc(f, fn)
			if fd == nil {
				return nil, fmt.Errorf("%s not found", fn)
			}
			got := map[string]bool{}
			seenBranch := false
			ast.Inspect(fd.Body, func(n ast.Node) bool {
				ifs, ok := n.(*ast.IfStmt)
				if !ok || !strings.Contains(exprText(ifs.Cond), "IsOracleCreatePriceTx") {
					return true
				}
				seenBranch = true
				signerVars := map[string]bool{}
				ast.Inspect(ifs.Body, func(m ast.Node) bool {
					if as, ok := m.(*ast.AssignStmt); ok && len(as.Lhs) == 1 && len(as.Rhs) == 1 {
						if c, ok := as.Rhs[0].(*ast.CallExpr); ok && strings.HasSuffix(exprText(c.Fun), ".GetSigners") {
							signerVars[exprText(as.Lhs[0])] = true
						}
					}
					return true
				})
				var disj func(e ast.Expr, out *[]ast.Expr) bool
				disj = func(e ast.Expr, out *[]ast.Expr) bool {
					if be, ok := e.(*ast.BinaryExpr); ok && be.Op == token.LOR {
						return disj(be.X, out) && disj(be.Y, out)
					}
					*out = append(*out, e)
					return true
				}
				lenOf := func(e ast.Expr) string {
					if c, ok := e.(*ast.CallExpr); ok && exprText(c.Fun) == "len" && len(c.Args) == 1 {
						return exprText(c.Args[0])
					}
					return ""
				}
				ast.Inspect(ifs.Body, func(m ast.Node) bool {
					g, ok := m.(*ast.IfStmt)
					if !ok || g.Init != nil || len(g.Body.List) == 0 {
						return true
					}
					ret, ok := g.Body.List[0].(*ast.ReturnStmt)
					if !ok || len(ret.Results) != 2 || exprText(ret.Results[1]) == "nil" || exprText(ret.Results[1]) == "err" {
						return true
					}
					var ds []ast.Expr
					disj(g.Cond, &ds)
					var names []string
					for _, d := range ds {
						be, ok := d.(*ast.BinaryExpr)
						if !ok || be.Op != token.NEQ {
							return true
						}
						a, b := lenOf(be.X), lenOf(be.Y)
						if a == "" || !signerVars[b] {
							return true
						}
						names = append(names, a)
					}
					for _, nme := range names {
						got[nme] = true
					}
					return true
				})
				return false
			})
			if !seenBranch {
				return nil, fmt.Errorf("%s: oracle branch not found", fn)
			}
			return got, nil
		}
		g1, e1 := guards("SetPubKeyDecorator.AnteHandle")
		g2, e2 := guards("SigVerificationDecorator.AnteHandle")
		if e1 != nil || e2 != nil {
			emit("oracleSignerCountChecked", "", fmt.Errorf("%v %v", e1, e2))
			return
		}
		ok := g1["pubKeys"] && g2["pubKeys"] && g2["sigs"]
		emit("oracleSignerCountChecked", fmt.Sprintf("/-- app/ante/cosmos/sigverify.go, oracle branches: SetPubKeyDecorator rejects unless len(pubKeys) == len(signers), SigVerificationDecorator rejects unless len(sigs) == len(signers) and len(pubKeys) == len(signers) -/\ndef oracleSignerCountChecked : Bool := %v", ok), nil)
	}()
	// 1c. the timestamp comparison of checkTimestamp as a kernel: `now := …` and the
	// `now.Add(maxFutureOffset).Before(t)` condition, translated by the GoLite translator (fails
	// closed on anything outside the whitelist, e.g. rounding/truncating the block time).
	func() {
		name := "oracleTimestampTooFarAhead"
		f, _, err := parseRepo(repo, "x/oracle/keeper/msg_server_create_price.go")
		if err != nil {
			emit(name, "", err)
			return
		}
		fd := findFunc(f, "checkTimestamp")
		if fd == nil {
			emit(name, "", fmt.Errorf("checkTimestamp not found"))
			return
		}
		var nowRHS, cond ast.Expr
		ast.Inspect(fd.Body, func(n ast.Node) bool {
			if as, ok := n.(*ast.AssignStmt); ok && len(as.Lhs) == 1 && exprText(as.Lhs[0]) == "now" && len(as.Rhs) == 1 {
				if nowRHS != nil {
					nowRHS = &ast.BadExpr{} // assigned twice: not the transcribed shape
				} else {
					nowRHS = as.Rhs[0]
				}
			}
			if ifs, ok := n.(*ast.IfStmt); ok && ifs.Init == nil && strings.Contains(exprText(ifs.Cond), ".Before") {
				if len(ifs.Body.List) == 1 {
					if r, ok := ifs.Body.List[0].(*ast.ReturnStmt); ok && len(r.Results) == 1 && exprText(r.Results[0]) != "nil" {
						cond = ifs.Cond
					}
				}
			}
			return true
		})
		if nowRHS == nil || cond == nil {
			emit(name, "", fmt.Errorf("checkTimestamp: `now := …` / `if ….Before(t) { return err }` not found"))
			return
		}
		def, terr := func() (out string, err error) {
			defer func() {
				if r := recover(); r != nil {
					if te, ok := r.(trErr); ok {
						err = fmt.Errorf("checkTimestamp: %s", te.msg)
						return
					}
					panic(r)
				}
			}()
			k := &Kernel{Name: name, Calls: map[string]callRule{"ctx.BlockTime": {"blockTime", "Int"}}}
			t := &tr{k: k, ty: map[string]string{"maxFutureOffset": "Int", "t": "Int"}, rename: map[string]string{}}
			nowS, nty := t.expr(nowRHS)
			if nty != "Int" {
				failf("now has type %s", nty)
			}
			t.ty["now"] = "Int"
			cS, cty := t.expr(cond)
			if cty != "Bool" {
				failf("condition has type %s", cty)
			}
			return fmt.Sprintf("/-- x/oracle/keeper/msg_server_create_price.go: checkTimestamp — `now` and the rejection condition (all times in ns) -/\ndef %s (blockTime maxFutureOffset t : Int) : Bool :=\n  let now := %s\n  %s", name, nowS, cS), nil
		}()
		emit(name, def, terr)
	}()
	// 2. constants: TxSizeLimit, maxFutureOffset seconds, default MaxNonce/thresholds
	func() {
		f, _, err := parseRepo(repo, "app/ante/utils/oracle.go")
		if err != nil {
			emit("oracleTxSizeLimit", "", err)
			return
		}
		val := ""
		ast.Inspect(f, func(n ast.Node) bool {
			if vs, ok := n.(*ast.ValueSpec); ok && len(vs.Names) == 1 && vs.Names[0].Name == "TxSizeLimit" && len(vs.Values) == 1 {
				if bl, ok := vs.Values[0].(*ast.BasicLit); ok {
					val = bl.Value
				}
			}
			return true
		})
		if val == "" {
			emit("oracleTxSizeLimit", "", fmt.Errorf("TxSizeLimit literal not found"))
			return
		}
		emit("oracleTxSizeLimit", "/-- app/ante/utils/oracle.go: TxSizeLimit -/\ndef oracleTxSizeLimit : Nat := "+val, nil)
	}()
	func() {
		f, _, err := parseRepo(repo, "x/oracle/keeper/msg_server_create_price.go")
		if err != nil {
			emit("oracleMaxFutureOffsetSec", "", err)
			return
		}
		val := ""
		ast.Inspect(f, func(n ast.Node) bool {
			if vs, ok := n.(*ast.ValueSpec); ok && len(vs.Names) == 1 && vs.Names[0].Name == "maxFutureOffset" && len(vs.Values) == 1 {
				if be, ok := vs.Values[0].(*ast.BinaryExpr); ok && be.Op == token.MUL && exprText(be.Y) == "time.Second" {
					if bl, ok := be.X.(*ast.BasicLit); ok {
						val = bl.Value
					}
				}
			}
			return true
		})
		if val == "" {
			emit("oracleMaxFutureOffsetSec", "", fmt.Errorf("maxFutureOffset = N * time.Second not found"))
			return
		}
		emit("oracleMaxFutureOffsetSec", "/-- msg_server_create_price.go: maxFutureOffset in seconds -/\ndef oracleMaxFutureOffsetSec : Int := "+val, nil)
	}()
	// 3. shapes: the round arithmetic and the window / nonce / expiry conditions, as source text
	shape := func(name, file, fn string, wants []string) {
		f, fset, err := parseRepo(repo, file)
		if err != nil {
			emit(name, "", err)
			return
		}
		fd := findFunc(f, fn)
		if fd == nil {
			emit(name, "", fmt.Errorf("%s not found in %s", fn, file))
			return
		}
		src, _ := readFile(repo + "/" + file)
		body := orcNodeText(fset, src, fd.Body)
		var got []string
		for _, w := range wants {
			if strings.HasPrefix(w, "!") { // a fragment that must NOT occur
				if strings.Contains(body, w[1:]) {
					emit(name, "", fmt.Errorf("%s: source fragment %q must not occur (the code changed: re-validate the model)", fn, w[1:]))
					return
				}
				got = append(got, w)
				continue
			}
			if !strings.Contains(body, w) {
				emit(name, "", fmt.Errorf("%s: expected source fragment %q not found (the code changed: re-validate the model)", fn, w))
				return
			}
			got = append(got, w)
		}
		emit(name, fmt.Sprintf("/-- %s: %s — source fragments the model transcribes -/\ndef %s : List String := %s", file, fn, name, leanStrList(got)), nil)
	}
	shape("oraclePrepareRoundShape", "x/oracle/keeper/aggregator/context.go", "AggregatorContext.PrepareRoundEndBlock", []string{
		"delta := block - feeder.StartBaseBlock", "left := delta % feeder.Interval", "count := delta / feeder.Interval",
		"latestBasedblock := block - left", "latestNextRoundID := feeder.StartRoundID + count",
		"(feeder.EndBlock > 0 && feeder.EndBlock <= block) || feeder.StartBaseBlock > block",
		"if left >= uint64(common.MaxNonce)", "if left == 0", "round.status == roundStatusOpen && left >= uint64(common.MaxNonce)",
	})
	shape("oracleSealRoundShape", "x/oracle/keeper/aggregator/context.go", "AggregatorContext.SealRound", []string{
		"expired := feeder.EndBlock > 0 && uint64(ctx.BlockHeight()) >= feeder.EndBlock",
		"outOfWindow := uint64(ctx.BlockHeight())-round.basedBlock >= uint64(common.MaxNonce)",
		"if expired || outOfWindow || force", "failed = append(failed, feeder.TokenID)",
	})
	shape("oracleNonceShape", "x/oracle/keeper/nonce.go", "Keeper.CheckAndIncreaseNonce", []string{
		"if nonce > uint32(common.MaxNonce)", "if v.Value+1 == nonce",
	})
	shape("oracleAppendShape", "x/oracle/keeper/prices.go", "Keeper.AppendPriceTR", []string{
		"if nextRoundID != priceTR.RoundID", "expiredRoundID := nextRoundID - agc.GetParamsMaxSizePrices(); expiredRoundID > 0",
	})
	shape("oracleMedianShape", "x/oracle/keeper/common/types.go", "BigIntList.Median", []string{
		"sort.Sort(b)", "if l%2 == 1", "return b[l/2]", "new(big.Int).Div(new(big.Int).Add(b[l/2], b[l/2-1]), big.NewInt(2))",
	})
	shape("oracleRecacheShape", "x/oracle/keeper/single.go", "recacheAggregatorContext", []string{
		"from := ctx.BlockHeight() - int64(k.GetParams(ctx).MaxNonce) + 1", "if int64(h.Block) >= from", "from = int64(h.Block) + 1",
		"agc.PrepareRoundEndBlock(uint64(from - 1))", "agc.SealRound(ctxReplay, false)", "agc.PrepareRoundEndBlock(uint64(to - 1))",
		"Creator: msg.Validator", "FeederID: msg.FeederID", "Prices: msg.PSources",
		// the `from >= to` branch after the F-14c repair
		"agc.PrepareRoundEndBlock(uint64(to - 2))", "agc.SealRound(ctx.WithBlockHeight(to-1), int64(h.Block) == to-1)",
	})
	// caches.go after the F-14d repair: no pruning while the chain is younger than MaxNonce
	shape("oracleCacheCommitShape", "x/oracle/keeper/cache/caches.go", "cacheMsgs.commit", []string{
		"if block > uint64(common.MaxNonce)", "oldest = block - uint64(common.MaxNonce)", "if b > oldest",
	})
	// context.go: SetValidatorPowers re-creates the map before copying the new set (a departed validator is dropped)
	shape("oracleSetValidatorsShape", "x/oracle/keeper/aggregator/context.go", "AggregatorContext.SetValidatorPowers", []string{
		"agc.totalPower = big.NewInt(0) agc.validatorsPower = make(map[string]*big.Int) for addr, power := range vp {",
		"agc.validatorsPower[addr] = power", "agc.totalPower = new(big.Int).Add(agc.totalPower, power)",
	})
	// filter.go: addPSource builds the filtered copy entry by entry through detIDs.Add; the original source never reaches the calculator
	shape("oracleFilterSourceShape", "x/oracle/keeper/aggregator/filter.go", "filter.addPSource", []string{
		"for _, pDetID := range pSource.Prices { if ok := detIDs.Add(pDetID.DetID); ok {", "pSourceTmp.Prices = append(pSourceTmp.Prices, pDetID)",
		"list4Calculator = append(list4Calculator, pSourceTmp)", "!list4Calculator = append(list4Calculator, pSource)",
	})
	// caches.go: cacheValidator.add raises the update flag in all three branches that change the map
	shape("oracleCacheValidatorShape", "x/oracle/keeper/cache/caches.go", "cacheValidator.add", []string{
		"delete(c.validators, operator) c.update = true", "c.validators[operator].Set(newPower) c.update = true", "} else { c.update = true",
	})
	shape("oracleTimestampShape", "x/oracle/keeper/msg_server_create_price.go", "checkTimestamp", []string{
		"if len(ts) == 0", "if now.Add(maxFutureOffset).Before(t)",
	})
}

func readFile(p string) ([]byte, error) { return os.ReadFile(p) }
