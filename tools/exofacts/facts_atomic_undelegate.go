package main

// Facts for the undelegate part of C09's value level (Model/AtomicValues.lean: Undelegate, Props/C09Undelegate.lean,
// Props/C09UndelegateTie.lean). The delegation precompile's Undelegate runs x/delegation's UndelegateFrom on the EVM
// call's context (no cache context) and Run turns its error into the output `false` without reverting, so every cause of
// failure that stands after RemoveShare's first write has to be impossible. The model enumerates those causes; these
// facts are what it enumerates, regenerated from the source:
//   errPathsUndelegateLate    per function on the path (UndelegateFrom, RemoveShare, RemoveShareFromOperator,
//                             TokensFromShares, UpdateStakerAssetState, DeleteStakerForOperator, SetUndelegationRecords,
//                             the delegation hooks' AfterUndelegationStarted, IncrementUndelegationHoldCount): every
//                             `return …, <non-nil error>` labelled `if:<condition>` / `err:<callee>` / `tail:<callee>`, in
//                             source order (avErrPaths of facts_atomic_values.go). A new refusal in any of them — e.g. a
//                             "record exists" test in SetUndelegationRecords — changes the list.
//   undelegateRecordFields    the key/value expressions UndelegateFrom gives the record it stores: BlockNumber,
//                             CompleteBlockNumber (GetUnbondingExpirationBlockNumber(…, r.BlockNumber)), LzTxNonce, TxHash,
//                             OperatorAddr — the components of the record key
//   unbondingExpirationExpr   the return expression of x/operator's GetUnbondingExpirationBlockNumber (startHeight + a
//                             constant: never below the current height, the one test SetUndelegationRecords makes)
//   undelegationRecordWrites  the store operations of SetUndelegationRecords inside its loop, in order (Set ×3 on the
//                             three prefixes; no Has / Get: it overwrites)

import (
	"fmt"
	"go/ast"
	"go/token"
	"strings"
)

func init() {
	factGens = append(factGens, genAtomicUndelegateFacts)
}

func genAtomicUndelegateFacts(repo string, emit func(name, leanDef string, err error)) {
	type fn struct{ file, name, recv string }
	find := func(f fn) (*token.FileSet, *ast.FuncDecl, error) {
		fset, file, err := xbParseGo(repo, f.file)
		if err != nil {
			return nil, nil, err
		}
		fd := xbFindFunc(file, f.name, f.recv)
		if fd == nil {
			return nil, nil, fmt.Errorf("%s: func %s not found", f.file, f.name)
		}
		return fset, fd, nil
	}
	{
		var rows [][2]interface{}
		var ferr error
		for _, f := range []fn{
			{"precompiles/delegation/tx.go", "Undelegate", "Precompile"},
			{"x/delegation/keeper/delegation.go", "UndelegateFrom", "Keeper"},
			{"x/delegation/keeper/share.go", "ValidateUndelegationAmount", "Keeper"},
			{"x/delegation/keeper/share.go", "RemoveShare", "Keeper"},
			{"x/delegation/keeper/share.go", "RemoveShareFromOperator", "Keeper"},
			{"x/delegation/keeper/share.go", "TokensFromShares", ""},
			{"x/assets/keeper/staker_asset.go", "UpdateStakerAssetState", "Keeper"},
			{"x/delegation/keeper/delegation_state.go", "DeleteStakerForOperator", "Keeper"},
			{"x/delegation/keeper/un_delegation_state.go", "SetUndelegationRecords", "Keeper"},
			{"x/delegation/types/hooks.go", "AfterUndelegationStarted", "MultiDelegationHooks"},
			{"x/dogfood/keeper/impl_delegation_hooks.go", "AfterUndelegationStarted", "DelegationHooksWrapper"},
			{"x/delegation/keeper/un_delegation_state.go", "IncrementUndelegationHoldCount", "Keeper"},
		} {
			fset, fd, err := find(f)
			if err != nil {
				ferr = err
				continue
			}
			ps, err := avErrPaths(fset, fd)
			if err != nil {
				ferr = err
				continue
			}
			if ps == nil {
				ps = []string{}
			}
			name := f.name
			if f.name == "AfterUndelegationStarted" {
				name = f.recv + "." + f.name
			}
			if f.recv == "Precompile" {
				name = "Precompile." + f.name
			}
			rows = append(rows, [2]interface{}{name, ps})
		}
		emit("errPathsUndelegateLate", "/-- undelegate through the delegation precompile, per function on the path: every `return …, <non-nil error>` in source order, labelled `if:<condition>`, `err:<callee>` (the error of that callee is passed on) or `tail:<callee>` -/\ndef errPathsUndelegateLate : List (String × List String) := "+avLeanPairListList(rows), ferr)
	}
	// ---- the record UndelegateFrom builds, and the completion height it asks x/operator for
	{
		var rows [][2]string
		var ferr error
		fset, fd, err := find(fn{"x/delegation/keeper/delegation.go", "UndelegateFrom", "Keeper"})
		if err != nil {
			ferr = err
		} else {
			want := map[string]bool{"BlockNumber": true, "LzTxNonce": true, "TxHash": true, "OperatorAddr": true, "StakerID": true, "AssetID": true}
			ast.Inspect(fd.Body, func(n ast.Node) bool {
				switch t := n.(type) {
				case *ast.CompositeLit:
					if strings.HasSuffix(xbNodeText(fset, t.Type), "UndelegationRecord") {
						for _, e := range t.Elts {
							if kv, ok := e.(*ast.KeyValueExpr); ok && want[exprText(kv.Key)] {
								rows = append(rows, [2]string{exprText(kv.Key), xbNodeText(fset, kv.Value)})
							}
						}
					}
				case *ast.AssignStmt:
					if len(t.Lhs) == 1 && len(t.Rhs) == 1 && strings.HasSuffix(xbNodeText(fset, t.Lhs[0]), ".CompleteBlockNumber") {
						rows = append(rows, [2]string{"CompleteBlockNumber", xbNodeText(fset, t.Rhs[0])})
					}
				}
				return true
			})
			if len(rows) == 0 {
				ferr = fmt.Errorf("UndelegateFrom: no UndelegationRecord literal found")
			}
		}
		q := make([]string, len(rows))
		for i, r := range rows {
			q[i] = fmt.Sprintf("(%q, %q)", r[0], r[1])
		}
		emit("undelegateRecordFields", "/-- x/delegation/keeper/delegation.go: UndelegateFrom — the fields of the record it stores that make up the record's keys, and its completion height -/\ndef undelegateRecordFields : List (String × String) := ["+strings.Join(q, ", ")+"]", ferr)
	}
	{
		fset, fd, err := find(fn{"x/operator/keeper/keeper.go", "GetUnbondingExpirationBlockNumber", "Keeper"})
		var rets []string
		if err == nil {
			ast.Inspect(fd.Body, func(n ast.Node) bool {
				if r, ok := n.(*ast.ReturnStmt); ok {
					for _, e := range r.Results {
						rets = append(rets, xbNodeText(fset, e))
					}
				}
				return true
			})
			if len(fd.Type.Params.List) == 3 {
				rets = append([]string{"param:" + exprText(fd.Type.Params.List[2].Names[0]) + " " + xbNodeText(fset, fd.Type.Params.List[2].Type)}, rets...)
			}
		}
		emit("unbondingExpirationExpr", "/-- x/operator/keeper/keeper.go: GetUnbondingExpirationBlockNumber — its third parameter and every returned expression -/\ndef unbondingExpirationExpr : List String := "+leanStrList(rets), err)
	}
	{
		_, fd, err := find(fn{"x/delegation/keeper/un_delegation_state.go", "SetUndelegationRecords", "Keeper"})
		var ops []string
		if err == nil {
			ast.Inspect(fd.Body, func(n ast.Node) bool {
				fs, ok := n.(*ast.RangeStmt)
				if !ok {
					if f2, ok2 := n.(*ast.ForStmt); ok2 {
						ast.Inspect(f2.Body, func(m ast.Node) bool {
							if c, ok := m.(*ast.CallExpr); ok {
								if se, ok := c.Fun.(*ast.SelectorExpr); ok && strings.HasSuffix(exprText(se.X), "Store") {
									ops = append(ops, exprText(se.X)+"."+se.Sel.Name)
								}
							}
							return true
						})
						return false
					}
					return true
				}
				ast.Inspect(fs.Body, func(m ast.Node) bool {
					if c, ok := m.(*ast.CallExpr); ok {
						if se, ok := c.Fun.(*ast.SelectorExpr); ok && strings.HasSuffix(exprText(se.X), "Store") {
							ops = append(ops, exprText(se.X)+"."+se.Sel.Name)
						}
					}
					return true
				})
				return false
			})
			if len(ops) == 0 {
				err = fmt.Errorf("SetUndelegationRecords: no store operation found in its loop")
			}
		}
		emit("undelegationRecordWrites", "/-- x/delegation/keeper/un_delegation_state.go: SetUndelegationRecords — the store operations inside its loop, in order -/\ndef undelegationRecordWrites : List String := "+leanStrList(ops), err)
	}
}
