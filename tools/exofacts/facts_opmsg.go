package main

// Tie A for C10 "operator registration, opt-in/out, key changes … take effect only for the signer":
// WHICH EXPRESSION KEYS THE WRITE.
//   opMsgGetSigners        x/operator/types/msg.go: per request type, the field GetSigners returns
//   opMsgServerKeying      x/operator/keeper/msg_server.go: per handler, every assignment of the operator
//                          address variable and every keeper call that takes it, in source order
//   setOperatorInfoKeying  x/operator/keeper/operator.go: SetOperatorInfo's forward call and, inside
//                          setOperatorInfo, every assignment of `opAccAddr`, the IsOperator check and the
//                          store writes, in source order
// The Lean model's `opMsgRecordKeys = [arg0]` (Model/Auth.lean) assumes: the key of every write is derived
// from the from-field and from nothing else. A second assignment of the key variable (e.g. from
// info.EarningsAddr) or a handler that passes another field shows up here and breaks C10_tie_operator_msg_keying.

import (
	"fmt"
	"go/ast"
	"strings"
)

func init() { factGens = append(factGens, genOpMsgFacts) }

func lhsHas(as *ast.AssignStmt, name string) bool {
	for _, l := range as.Lhs {
		if id, ok := l.(*ast.Ident); ok && id.Name == name {
			return true
		}
	}
	return false
}

func leanPairStrList(xs [][2]string) string {
	q := make([]string, len(xs))
	for i, x := range xs {
		q[i] = fmt.Sprintf("(%q, %q)", x[0], x[1])
	}
	return "[" + strings.Join(q, ", ") + "]"
}

func genOpMsgFacts(repo string, emit func(name, leanDef string, err error)) {
	// ---- GetSigners
	func() {
		_, f, err := vParse(repo, "x/operator/types/msg.go")
		if err != nil {
			emit("opMsgGetSigners", "", err)
			return
		}
		var out [][2]string
		for _, ty := range []string{"RegisterOperatorReq", "OptIntoAVSReq", "OptOutOfAVSReq", "SetConsKeyReq"} {
			fd := findFunc(f, ty+".GetSigners")
			if fd == nil || fd.Body == nil {
				emit("opMsgGetSigners", "", fmt.Errorf("%s.GetSigners not found", ty))
				return
			}
			var srcs []string
			ast.Inspect(fd.Body, func(n ast.Node) bool {
				if c, ok := n.(*ast.CallExpr); ok && strings.Contains(xbCalleeName(c), "AccAddressFromBech32") && len(c.Args) == 1 {
					srcs = append(srcs, skelText(c.Args[0]))
				}
				return true
			})
			out = append(out, [2]string{ty, strings.Join(srcs, " | ")})
		}
		emit("opMsgGetSigners", "/-- x/operator/types/msg.go: the field each request's GetSigners parses (the signer the ante handler verifies) -/\ndef opMsgGetSigners : List (String × String) := "+leanPairStrList(out), nil)
	}()
	// ---- msg server handlers
	func() {
		_, f, err := vParse(repo, "x/operator/keeper/msg_server.go")
		if err != nil {
			emit("opMsgServerKeying", "", err)
			return
		}
		keeperCalls := map[string]bool{"SetOperatorInfo": true, "OptIn": true, "OptInWithConsKey": true, "OptOut": true, "IsActive": true, "SetOperatorConsKeyForChainID": true}
		var out [][2]string
		for _, m := range []string{"RegisterOperator", "OptIntoAVS", "OptOutOfAVS", "SetConsKey"} {
			fd := findFunc(f, "MsgServerImpl."+m)
			if fd == nil || fd.Body == nil {
				emit("opMsgServerKeying", "", fmt.Errorf("MsgServerImpl.%s not found", m))
				return
			}
			var items []string
			ast.Inspect(fd.Body, func(n ast.Node) bool {
				switch x := n.(type) {
				case *ast.AssignStmt:
					if lhsHas(x, "accAddr") {
						items = append(items, skelText(x))
					}
				case *ast.CallExpr:
					if keeperCalls[xbCalleeName(x)] {
						var as []string
						for _, a := range x.Args {
							as = append(as, skelText(a))
						}
						items = append(items, xbCalleeName(x)+"("+strings.Join(as, ", ")+")")
					}
				}
				return true
			})
			out = append(out, [2]string{m, strings.Join(items, " ; ")})
		}
		emit("opMsgServerKeying", "/-- x/operator/keeper/msg_server.go: per handler, the assignments of the operator address variable and the keeper calls that receive it, in source order -/\ndef opMsgServerKeying : List (String × String) := "+leanPairStrList(out), nil)
	}()
	// ---- SetOperatorInfo / setOperatorInfo
	func() {
		_, f, err := vParse(repo, "x/operator/keeper/operator.go")
		if err != nil {
			emit("setOperatorInfoKeying", "", err)
			return
		}
		outer := findFunc(f, "Keeper.SetOperatorInfo")
		inner := findFunc(f, "Keeper.setOperatorInfo")
		if outer == nil || inner == nil || outer.Body == nil || inner.Body == nil {
			emit("setOperatorInfoKeying", "", fmt.Errorf("SetOperatorInfo / setOperatorInfo not found"))
			return
		}
		items := []string{"SetOperatorInfo: " + strings.Join(stmtSkeleton(outer.Body.List), " ; ")}
		ast.Inspect(inner.Body, func(n ast.Node) bool {
			switch x := n.(type) {
			case *ast.AssignStmt:
				if lhsHas(x, "opAccAddr") {
					items = append(items, skelText(x))
				}
			case *ast.CallExpr:
				switch {
				case xbCalleeName(x) == "IsOperator":
					var as []string
					for _, a := range x.Args {
						as = append(as, skelText(a))
					}
					items = append(items, "IsOperator("+strings.Join(as, ", ")+")")
				case exprText(x.Fun) == "store.Set" || exprText(x.Fun) == "store.Delete":
					items = append(items, skelText(x))
				}
			}
			return true
		})
		emit("setOperatorInfoKeying", "/-- x/operator/keeper/operator.go: SetOperatorInfo's body; inside setOperatorInfo every assignment of `opAccAddr`, the IsOperator check and the store writes, in source order -/\ndef setOperatorInfoKeying : List String := "+leanStrList(items), nil)
	}()
}
