package main

// C10 / C08: process-local state that is not a function of the store.
//
// A decision that reads a package-level variable instead of the store (a memoized parameter, a
// cached address) is not rolled back when the store branch it was computed on is dropped: a
// governance proposal or a multi-message transaction whose later message fails, a simulation,
// any CacheContext that is not written. The x/ modules and the precompiles are meant to keep
// their state in the KVStore; the exceptions are listed here, so that a new one cannot appear
// unnoticed.
//
//   mutablePackageGlobals   every package-level `var` of the packages under x/ and precompiles/
//                           (non-test, non-generated, no client / simulation / testutil code)
//                           that is written outside its declaration and outside `init()`:
//                             ("<dir>:<name>:<kind>", ["<file>:<Func>:<how>", …])
//                           kind = map|slice|ptr|value (declared type, "value" when it is inferred),
//                           how  = assign      g = …, g op= …, g++, `for g = range …`
//                                  elem        g[k] = …, g.f = …, *g = …, delete(g, k)
//                                  addr        &g is taken (the variable can be written through the pointer)
//                                  sync:<M>    g.M(…) on a variable of a sync / sync/atomic type (Once.Do, Mutex.Lock, …)
//                           Writers in other packages of the repository (`pkg.G = …`) are found through
//                           the file's imports. A local variable, parameter or result that shadows
//                           the global is not a write of it (go/parser's object resolution).
//                           NOT seen: mutation of what a pointer / map global refers to through a
//                           method call (`cs.AddCache(…)`); for the oracle's singletons that is the
//                           subject of oracleMemoryWriters / oracleCacheWriters (C08).
//   packageGlobalReaders    for the variables above: the functions of the consensus files that READ
//                           them ("<dir>:<name>", ["<file>:<Func>", …]) — where a decision could
//                           depend on process-local state.

import (
	"fmt"
	"go/ast"
	"go/parser"
	"go/token"
	"os"
	"path/filepath"
	"sort"
	"strings"
)

func init() {
	factGens = append(factGens, genGlobalsFacts)
}

func globalsFile(rel string) bool {
	if !(strings.HasPrefix(rel, "x/") || strings.HasPrefix(rel, "precompiles/")) {
		return false
	}
	base := filepath.Base(rel)
	if strings.HasSuffix(base, "_test.go") || strings.HasSuffix(base, ".pb.go") || strings.HasSuffix(base, ".pb.gw.go") {
		return false
	}
	for _, part := range []string{"/client/", "/simulation/", "/testutil/", "/testdata/", "/mock"} {
		if strings.Contains(rel, part) {
			return false
		}
	}
	return true
}

type glVar struct {
	dir, name, kind string
	spec            *ast.ValueSpec
	syncTyped       bool // declared with a type / initial value of package sync or sync/atomic
}

type glFile struct {
	rel     string
	dir     string
	ast     *ast.File
	imports map[string]string // alias -> repo-relative dir ("" when not a repository package)
}

func leanStrListPairs(rows [][2]interface{}) string {
	if len(rows) == 0 {
		return "[]"
	}
	q := make([]string, len(rows))
	for i, r := range rows {
		q[i] = fmt.Sprintf("  (%q, %s)", r[0].(string), leanStrList(r[1].([]string)))
	}
	return "[\n" + strings.Join(q, ",\n") + "]"
}

func genGlobalsFacts(repo string, emit func(name, leanDef string, err error)) {
	writers, readers, err := packageGlobals(repo)
	emit("mutablePackageGlobals", "/-- package-level variables of x/ and precompiles/ written outside their declaration and init(): (dir:name:kind, [file:Func:how]) -/\ndef mutablePackageGlobals : List (String × List String) := "+leanStrListPairs(writers), err)
	emit("packageGlobalReaders", "/-- the functions reading those variables: (dir:name, [file:Func]) -/\ndef packageGlobalReaders : List (String × List String) := "+leanStrListPairs(readers), err)
	var wdirs, rdirs []string
	seenW, seenR := map[string]bool{}, map[string]bool{}
	for _, w := range writers {
		d := strings.SplitN(w[0].(string), ":", 2)[0]
		if !seenW[d] {
			seenW[d] = true
			wdirs = append(wdirs, d)
		}
	}
	for _, r := range readers {
		for _, site := range r[1].([]string) {
			d := filepath.Dir(strings.SplitN(site, ":", 2)[0])
			if !seenR[d] {
				seenR[d] = true
				rdirs = append(rdirs, d)
			}
		}
	}
	sort.Strings(wdirs)
	sort.Strings(rdirs)
	emit("mutableGlobalPackages", "/-- the packages declaring a variable of mutablePackageGlobals -/\ndef mutableGlobalPackages : List String := "+leanStrList(wdirs), err)
	emit("packageGlobalReaderPackages", "/-- the packages of the functions of packageGlobalReaders -/\ndef packageGlobalReaderPackages : List String := "+leanStrList(rdirs), err)
	rows, gerr := gatewayCheckReads(repo)
	emit("gatewayCheckReads", "/-- x/assets/keeper/params.go: where CheckExocoreGatewayAddr and GetParams take their values from: every `x := e` / `x, err := e` of the two bodies, the refusing comparison, and the package-level variables either body mentions -/\ndef gatewayCheckReads : List (String × String) := "+xbLeanPairList(rows, "str"), gerr)
}

// gatewayCheckReads: the data flow of the gateway check, as (name, source expression) pairs.
func gatewayCheckReads(repo string) ([][2]string, error) {
	const rel = "x/assets/keeper/params.go"
	fset, file, err := xbParseGo(repo, rel)
	if err != nil {
		return nil, err
	}
	// package-level variables of x/assets/keeper (all files of the directory)
	pkgVars := map[string]bool{}
	ents, err := os.ReadDir(filepath.Join(repo, "x/assets/keeper"))
	if err != nil {
		return nil, err
	}
	for _, e := range ents {
		if e.IsDir() || !strings.HasSuffix(e.Name(), ".go") || strings.HasSuffix(e.Name(), "_test.go") {
			continue
		}
		_, f, perr := xbParseGo(repo, "x/assets/keeper/"+e.Name())
		if perr != nil {
			return nil, perr
		}
		for _, d := range f.Decls {
			if gd, ok := d.(*ast.GenDecl); ok && gd.Tok == token.VAR {
				for _, sp := range gd.Specs {
					for _, n := range sp.(*ast.ValueSpec).Names {
						if n.Name != "_" {
							pkgVars[n.Name] = true
						}
					}
				}
			}
		}
	}
	var rows [][2]string
	for _, fn := range []string{"CheckExocoreGatewayAddr", "GetParams"} {
		fd := xbFindFunc(file, fn, "Keeper")
		if fd == nil {
			return nil, fmt.Errorf("%s: func %s not found", rel, fn)
		}
		globals := map[string]bool{}
		var visit func(n ast.Node)
		visit = func(n ast.Node) {
			ast.Inspect(n, func(x ast.Node) bool {
				switch t := x.(type) {
				case *ast.SelectorExpr:
					visit(t.X)
					return false
				case *ast.KeyValueExpr:
					visit(t.Value)
					return false
				case *ast.Ident:
					if !pkgVars[t.Name] {
						return true
					}
					if t.Obj == nil {
						globals[t.Name] = true
					} else if _, ok := t.Obj.Decl.(*ast.ValueSpec); ok && t.Obj.Kind == ast.Var {
						// declared by a `var` spec: package level iff the spec is not inside this body
						if vs := t.Obj.Decl.(*ast.ValueSpec); vs.Pos() < fd.Pos() || vs.Pos() > fd.End() {
							globals[t.Name] = true
						}
					}
				}
				return true
			})
		}
		visit(fd.Body)
		ast.Inspect(fd.Body, func(n ast.Node) bool {
			switch t := n.(type) {
			case *ast.AssignStmt:
				if len(t.Rhs) == 1 {
					var ls []string
					for _, l := range t.Lhs {
						ls = append(ls, exprText(l))
					}
					rows = append(rows, [2]string{fn + "." + strings.Join(ls, ","), t.Tok.String() + " " + xbNodeText(fset, t.Rhs[0])})
				}
			case *ast.IfStmt:
				c := xbNodeText(fset, t.Cond)
				if c != "err != nil" {
					rows = append(rows, [2]string{fn + ".if", c})
				}
			}
			return true
		})
		gs := make([]string, 0, len(globals))
		for g := range globals {
			gs = append(gs, g)
		}
		sort.Strings(gs)
		rows = append(rows, [2]string{fn + ".packageLevelVars", strings.Join(gs, ",")})
	}
	return rows, nil
}

func packageGlobals(repo string) (writers, readers [][2]interface{}, err error) {
	ix, err := loadIndex(repo)
	if err != nil {
		return nil, nil, err
	}
	fset := token.NewFileSet()
	var files []*glFile
	vars := map[string]map[string]*glVar{} // dir -> name -> var
	for _, pk := range ix.sortedPkgs() {
		for _, xf := range pk.Files {
			if !globalsFile(xf.Rel) {
				continue
			}
			// re-parse WITH object resolution (the shared index skips it)
			src, rerr := os.ReadFile(filepath.Join(repo, xf.Rel))
			if rerr != nil {
				return nil, nil, rerr
			}
			f, perr := parser.ParseFile(fset, xf.Rel, src, 0)
			if perr != nil {
				return nil, nil, perr
			}
			gf := &glFile{rel: xf.Rel, dir: pk.Dir, ast: f, imports: map[string]string{}}
			for alias, path := range xf.Imports {
				if strings.HasPrefix(path, repoModule) {
					gf.imports[alias] = strings.TrimPrefix(path, repoModule)
				}
			}
			files = append(files, gf)
			for _, d := range f.Decls {
				gd, ok := d.(*ast.GenDecl)
				if !ok || gd.Tok != token.VAR {
					continue
				}
				for _, sp := range gd.Specs {
					vs, ok := sp.(*ast.ValueSpec)
					if !ok {
						continue
					}
					for _, n := range vs.Names {
						if n.Name == "_" {
							continue
						}
						k := "value"
						if vs.Type != nil {
							k = memKind(vs.Type)
						}
						if vars[pk.Dir] == nil {
							vars[pk.Dir] = map[string]*glVar{}
						}
						gv := &glVar{dir: pk.Dir, name: n.Name, kind: k, spec: vs}
						txt := ""
						if vs.Type != nil {
							txt = srcText(vs.Type)
						}
						for _, val := range vs.Values {
							txt += " " + srcText(val)
						}
						gv.syncTyped = strings.Contains(txt, "sync.") || strings.Contains(txt, "atomic.")
						vars[pk.Dir][n.Name] = gv
					}
				}
			}
		}
	}
	if len(files) == 0 {
		return nil, nil, fmt.Errorf("no Go files found under x/ and precompiles/")
	}
	// resolve an identifier / selector to a package-level variable of the repository
	resolve := func(gf *glFile, e ast.Expr) *glVar {
		switch t := e.(type) {
		case *ast.Ident:
			v := vars[gf.dir][t.Name]
			if v == nil {
				return nil
			}
			if t.Obj == nil { // unresolved in this file: declared in another file of the package
				return v
			}
			if vs, ok := t.Obj.Decl.(*ast.ValueSpec); ok && vs == v.spec {
				return v
			}
			return nil // a local object shadows it
		case *ast.SelectorExpr:
			id, ok := t.X.(*ast.Ident)
			if !ok || id.Obj != nil {
				return nil
			}
			if dir, ok := gf.imports[id.Name]; ok {
				return vars[dir][t.Sel.Name]
			}
		}
		return nil
	}
	// root of an assignable expression: g, g[k], g.f, *g, (g) …  → (variable, through an element?)
	var root func(gf *glFile, e ast.Expr) (*glVar, bool)
	root = func(gf *glFile, e ast.Expr) (*glVar, bool) {
		if v := resolve(gf, e); v != nil {
			return v, false
		}
		switch t := e.(type) {
		case *ast.ParenExpr:
			return root(gf, t.X)
		case *ast.IndexExpr:
			v, _ := root(gf, t.X)
			return v, true
		case *ast.SelectorExpr:
			v, _ := root(gf, t.X)
			return v, true
		case *ast.StarExpr:
			v, _ := root(gf, t.X)
			return v, true
		}
		return nil, false
	}
	wr := map[string]map[string]bool{} // "dir:name:kind" -> sites
	rd := map[string]map[string]bool{} // "dir:name" -> sites
	addW := func(v *glVar, site, how string) {
		k := fmt.Sprintf("%s:%s:%s", v.dir, v.name, v.kind)
		if wr[k] == nil {
			wr[k] = map[string]bool{}
		}
		wr[k][site+":"+how] = true
	}
	type readRec struct {
		v    *glVar
		site string
	}
	var reads []readRec
	for _, gf := range files {
		for _, d := range gf.ast.Decls {
			fd, ok := d.(*ast.FuncDecl)
			if !ok || fd.Body == nil {
				continue
			}
			fname := fd.Name.Name
			if fd.Recv != nil && len(fd.Recv.List) == 1 {
				fname = recvName(fd.Recv.List[0].Type) + "." + fname
			}
			if fd.Recv == nil && fd.Name.Name == "init" {
				continue
			}
			site := gf.rel + ":" + fname
			lhs := map[ast.Expr]bool{} // identifier positions that are pure writes
			how := func(elem bool) string {
				if elem {
					return "elem"
				}
				return "assign"
			}
			ast.Inspect(fd.Body, func(n ast.Node) bool {
				switch s := n.(type) {
				case *ast.AssignStmt:
					if s.Tok == token.DEFINE {
						return true
					}
					for _, l := range s.Lhs {
						if v, elem := root(gf, l); v != nil {
							addW(v, site, how(elem))
							if !elem && s.Tok == token.ASSIGN {
								lhs[l] = true
							}
						}
					}
				case *ast.IncDecStmt:
					if v, elem := root(gf, s.X); v != nil {
						addW(v, site, how(elem))
					}
				case *ast.RangeStmt:
					if s.Tok == token.ASSIGN {
						for _, l := range []ast.Expr{s.Key, s.Value} {
							if l == nil {
								continue
							}
							if v, elem := root(gf, l); v != nil {
								addW(v, site, how(elem))
							}
						}
					}
				case *ast.CallExpr:
					if id, ok := s.Fun.(*ast.Ident); ok && id.Name == "delete" && id.Obj == nil && len(s.Args) == 2 {
						if v, _ := root(gf, s.Args[0]); v != nil {
							addW(v, site, "elem")
						}
					}
					if sel, ok := s.Fun.(*ast.SelectorExpr); ok {
						if v := resolve(gf, sel.X); v != nil && v.syncTyped {
							addW(v, site, "sync:"+sel.Sel.Name)
						}
					}
				case *ast.UnaryExpr:
					if s.Op == token.AND {
						if v, _ := root(gf, s.X); v != nil {
							addW(v, site, "addr")
						}
					}
				}
				return true
			})
			// reads: every other occurrence that resolves to a package-level variable
			var walk func(n ast.Node)
			walk = func(n ast.Node) {
				ast.Inspect(n, func(x ast.Node) bool {
					e, ok := x.(ast.Expr)
					if !ok {
						return true
					}
					if lhs[e] {
						return false
					}
					switch t := e.(type) {
					case *ast.SelectorExpr:
						if v := resolve(gf, t); v != nil {
							reads = append(reads, readRec{v, site})
						} else {
							walk(t.X) // never the field / method name
						}
						return false
					case *ast.KeyValueExpr:
						if _, isField := t.Key.(*ast.Ident); !isField {
							walk(t.Key)
						}
						walk(t.Value)
						return false
					case *ast.Ident:
						if v := resolve(gf, t); v != nil {
							reads = append(reads, readRec{v, site})
						}
					}
					return true
				})
			}
			walk(fd.Body)
		}
	}
	keys := make([]string, 0, len(wr))
	for k := range wr {
		keys = append(keys, k)
	}
	sort.Strings(keys)
	mutable := map[string]bool{}
	for _, k := range keys {
		sites := make([]string, 0, len(wr[k]))
		for s := range wr[k] {
			sites = append(sites, s)
		}
		sort.Strings(sites)
		writers = append(writers, [2]interface{}{k, sites})
		mutable[k[:strings.LastIndex(k, ":")]] = true
	}
	for _, r := range reads {
		k := r.v.dir + ":" + r.v.name
		if !mutable[k] || !consensusFile(strings.SplitN(r.site, ":", 2)[0]) {
			continue
		}
		if rd[k] == nil {
			rd[k] = map[string]bool{}
		}
		rd[k][r.site] = true
	}
	rkeys := make([]string, 0, len(rd))
	for k := range rd {
		rkeys = append(rkeys, k)
	}
	sort.Strings(rkeys)
	for _, k := range rkeys {
		sites := make([]string, 0, len(rd[k]))
		for s := range rd[k] {
			sites = append(sites, s)
		}
		sort.Strings(sites)
		readers = append(readers, [2]interface{}{k, sites})
	}
	return writers, readers, nil
}
