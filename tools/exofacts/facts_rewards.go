package main

// Facts for C17 (fee distribution / mint) and C05 (voting power): the *shape* of the Go
// functions the Lean models transcribe by hand — every statement that is not logging or event
// emission, in source order, rendered canonically (one line, single spaces). The tie theorems
// compare these regenerated lists with the literals the models were written against, so any
// edit of the arithmetic (rounding method, operand, order of writes, dropped statement, changed
// comparison) breaks a proof obligation. Plus two pointed facts: the operand that
// AllocateTokensToStakers adds to the community pool, and the position of the distribution /
// operator / mint subscribers.

import (
	"bytes"
	"fmt"
	"go/ast"
	"go/parser"
	"go/printer"
	"go/token"
	"strings"
)

func rwRender(fset *token.FileSet, n ast.Node) string {
	var b bytes.Buffer
	printer.Fprint(&b, fset, n)
	return strings.Join(strings.Fields(b.String()), " ")
}

var rwNoise = []string{"logger.", "logger :=", "ctx.Logger", "ctx.EventManager", "k.Logger", "wrapper.keeper.Logger", "defer iterator.Close", "telemetry."}

func rwIsNoise(s string) bool {
	for _, p := range rwNoise {
		if strings.HasPrefix(s, p) {
			return true
		}
	}
	return false
}

// rwShape lists the significant statements of one function (closures included) in source order.
func rwShape(repo, file, fn string) ([]string, error) {
	fset := token.NewFileSet()
	f, err := parser.ParseFile(fset, repo+"/"+file, nil, 0)
	if err != nil {
		return nil, err
	}
	fd := findFunc(f, fn)
	if fd == nil {
		return nil, fmt.Errorf("function %s not found in %s", fn, file)
	}
	var out []string
	add := func(s string) {
		if !rwIsNoise(s) {
			out = append(out, s)
		}
	}
	var walk func(list []ast.Stmt)
	walkBlock := func(b *ast.BlockStmt) {
		if b != nil {
			walk(b.List)
		}
	}
	// closures bound by `x := func(...) {...}` are walked as blocks
	var stmt func(s ast.Stmt)
	stmt = func(s ast.Stmt) {
		switch x := s.(type) {
		case *ast.AssignStmt:
			if len(x.Rhs) == 1 {
				if fl, ok := x.Rhs[0].(*ast.FuncLit); ok {
					add(rwRender(fset, x.Lhs[0]) + " := func")
					walkBlock(fl.Body)
					add("end func")
					return
				}
			}
			add(rwRender(fset, x))
		case *ast.IfStmt:
			h := "if "
			if x.Init != nil {
				h += rwRender(fset, x.Init) + "; "
			}
			add(h + rwRender(fset, x.Cond))
			walkBlock(x.Body)
			switch e := x.Else.(type) {
			case *ast.BlockStmt:
				add("else")
				walkBlock(e)
			case *ast.IfStmt:
				add("else")
				stmt(e)
			}
			add("end if")
		case *ast.ForStmt:
			h := "for "
			if x.Cond != nil {
				h += rwRender(fset, x.Cond)
			}
			add(h)
			walkBlock(x.Body)
			add("end for")
		case *ast.RangeStmt:
			h := "range " + rwRender(fset, x.X)
			if x.Key != nil {
				h += " key " + rwRender(fset, x.Key)
			}
			if x.Value != nil {
				h += " value " + rwRender(fset, x.Value)
			}
			add(h)
			walkBlock(x.Body)
			add("end range")
		case *ast.BlockStmt:
			walkBlock(x)
		case *ast.ExprStmt:
			// sort.Slice(list, func…) and similar: render the call head only, walk the closure
			if c, ok := x.X.(*ast.CallExpr); ok {
				hasLit := false
				for _, a := range c.Args {
					if _, ok := a.(*ast.FuncLit); ok {
						hasLit = true
					}
				}
				if hasLit {
					add(exprText(c.Fun) + "(…)")
					for _, a := range c.Args {
						if fl, ok := a.(*ast.FuncLit); ok {
							walkBlock(fl.Body)
						}
					}
					add("end call")
					return
				}
			}
			add(rwRender(fset, x))
		default:
			add(rwRender(fset, s))
		}
	}
	walk = func(list []ast.Stmt) {
		for _, s := range list {
			stmt(s)
		}
	}
	walkBlock(fd.Body)
	return out, nil
}

type rwShapeSpec struct{ name, file, fn string }

var rwShapes = []rwShapeSpec{
	{"shapeAllocateTokens", "x/feedistribution/keeper/allocation.go", "Keeper.AllocateTokens"},
	{"shapeAllocateTokensToValidator", "x/feedistribution/keeper/allocation.go", "Keeper.AllocateTokensToValidator"},
	{"shapeAllocateTokensToStakers", "x/feedistribution/keeper/allocation.go", "Keeper.AllocateTokensToStakers"},
	{"shapeAllocateTokensToSingleStaker", "x/feedistribution/keeper/allocation.go", "Keeper.AllocateTokensToSingleStaker"},
	{"shapeDistrAfterEpochEnd", "x/feedistribution/keeper/hooks.go", "EpochsHooksWrapper.AfterEpochEnd"},
	{"shapeMintAfterEpochEnd", "x/exomint/keeper/impl_epochs_hooks.go", "EpochsHooksWrapper.AfterEpochEnd"},
	{"shapeMintCoins", "x/exomint/keeper/keeper.go", "Keeper.MintCoins"},
	{"shapeAddCollectedFees", "x/exomint/keeper/keeper.go", "Keeper.AddCollectedFees"},
	{"shapeUpdateVotingPower", "x/operator/keeper/abci.go", "Keeper.UpdateVotingPower"},
	{"shapeCalculateUSDValueForOperator", "x/operator/keeper/usd_value.go", "Keeper.CalculateUSDValueForOperator"},
	{"shapeIterateOperatorsForAVS", "x/operator/keeper/usd_value.go", "Keeper.IterateOperatorsForAVS"},
	{"shapeGetOperatorOptedUSDValue", "x/operator/keeper/usd_value.go", "Keeper.GetOperatorOptedUSDValue"},
	{"shapeOperatorAfterEpochEnd", "x/operator/keeper/impl_epoch_hook.go", "EpochsHooksWrapper.AfterEpochEnd"},
	{"shapeGetEpochEndAVSs", "x/avs/keeper/avs.go", "Keeper.GetEpochEndAVSs"},
	{"shapeGetMultipleAssetsPrices", "x/oracle/keeper/prices.go", "Keeper.GetMultipleAssetsPrices"},
	{"shapeIterateAssetsForOperator", "x/assets/keeper/operator_asset.go", "Keeper.IterateAssetsForOperator"},
}

// stakersCommunityArg: the operand of `feePool.CommunityPool = feePool.CommunityPool.Add(X...)`
// in AllocateTokensToStakers.
func stakersCommunityArg(repo string) (string, error) {
	fset := token.NewFileSet()
	f, err := parser.ParseFile(fset, repo+"/x/feedistribution/keeper/allocation.go", nil, 0)
	if err != nil {
		return "", err
	}
	fd := findFunc(f, "Keeper.AllocateTokensToStakers")
	if fd == nil {
		return "", fmt.Errorf("AllocateTokensToStakers not found")
	}
	res := ""
	n := 0
	ast.Inspect(fd.Body, func(nd ast.Node) bool {
		as, ok := nd.(*ast.AssignStmt)
		if !ok || len(as.Lhs) != 1 || len(as.Rhs) != 1 || exprText(as.Lhs[0]) != "feePool.CommunityPool" {
			return true
		}
		c, ok := as.Rhs[0].(*ast.CallExpr)
		if !ok || exprText(c.Fun) != "feePool.CommunityPool.Add" || len(c.Args) != 1 {
			return true
		}
		res = exprText(c.Args[0])
		n++
		return true
	})
	if n != 1 {
		return "", fmt.Errorf("expected exactly one community-pool booking in AllocateTokensToStakers, found %d", n)
	}
	return res, nil
}

// stakersReturnsBeforeBooking: the guards of every `return` that AllocateTokensToStakers can take
// BEFORE the statement that books the remainder to the community pool (top-level statements in
// source order; "unconditional" for a bare return). The unchanged code has exactly one: the
// error of GetOptedInAVSForOperator. Any further early exit would drop the staker part of the
// validator's portion without booking it.
func stakersReturnsBeforeBooking(repo string) ([]string, error) {
	fset := token.NewFileSet()
	f, err := parser.ParseFile(fset, repo+"/x/feedistribution/keeper/allocation.go", nil, 0)
	if err != nil {
		return nil, err
	}
	fd := findFunc(f, "Keeper.AllocateTokensToStakers")
	if fd == nil {
		return nil, fmt.Errorf("AllocateTokensToStakers not found")
	}
	res := []string{}
	booked := false
	for _, st := range fd.Body.List {
		if as, ok := st.(*ast.AssignStmt); ok && len(as.Lhs) == 1 && exprText(as.Lhs[0]) == "feePool.CommunityPool" {
			booked = true
			break
		}
		// returns anywhere inside this statement (closures excluded), with the innermost if-guard
		var walk func(n ast.Node, guard string)
		walk = func(n ast.Node, guard string) {
			ast.Inspect(n, func(x ast.Node) bool {
				switch y := x.(type) {
				case *ast.FuncLit:
					return false
				case *ast.ReturnStmt:
					res = append(res, guard)
					return false
				case *ast.IfStmt:
					if y != n {
						g := rwRender(fset, y.Cond)
						walk(y.Body, g)
						if y.Else != nil {
							walk(y.Else, "else of "+g)
						}
						return false
					}
				}
				return true
			})
		}
		if ifs, ok := st.(*ast.IfStmt); ok {
			g := rwRender(fset, ifs.Cond)
			walk(ifs.Body, g)
			if ifs.Else != nil {
				walk(ifs.Else, "else of "+g)
			}
		} else {
			walk(st, "unconditional")
		}
	}
	if !booked {
		return nil, fmt.Errorf("no top-level community-pool booking in AllocateTokensToStakers")
	}
	return res, nil
}

func init() {
	factGens = append(factGens, func(repo string, emit func(name, leanDef string, err error)) {
		rb, rerr := stakersReturnsBeforeBooking(repo)
		emit("stakersReturnsBeforeBooking", "/-- allocation.go: AllocateTokensToStakers — guards of the returns that precede the community-pool booking -/\ndef stakersReturnsBeforeBooking : List String := "+leanStrList(rb), rerr)
		for _, sp := range rwShapes {
			l, err := rwShape(repo, sp.file, sp.fn)
			emit(sp.name, "/-- "+sp.file+": "+sp.fn+" — significant statements in source order -/\ndef "+sp.name+" : List String := "+leanStrList(l), err)
		}
		a, err := stakersCommunityArg(repo)
		emit("stakersCommunityArg", "/-- allocation.go: AllocateTokensToStakers — what is added to the community pool -/\ndef stakersCommunityArg : String := "+fmt.Sprintf("%q", a), err)
	})
}
