package main

// Primitive conformance (tie A, trust removal): every entry of the translator's whitelist tables
// (`methods`, `funcs`) and every operator hard-wired in tr.expr is rendered — BY RUNNING THE TRANSLATOR
// ITSELF on the micro-expression `r.M(a1, …)` / `F(a1, …)` / `a1 <op> a2` — into
// Generated/Prims.lean as an evaluable table `name ↦ (List V → Option V)`. The harness domain `decprims`
// evaluates the REAL Go operation of the same name (cosmossdk.io/math LegacyDec / Int, math/big, sized
// ints, time.Time) on a boundary grid + random operands; the Lean driver Driver/DecPrims.lean evaluates the
// generated table entry (i.e. exactly the Lean text the translator inserts, over Basic/Dec.lean) and prints
// the same canonical observation. So a wrong template, a wrong Basic/Dec.lean definition or a wrong `subst`
// is a model-diff on every run.
//
// Coverage is closed: `names` lists every table entry; the first op line of the harness run carries the
// names the harness exercises and the driver answers `ok` only when the two lists agree. An entry without
// an argument signature below cannot be rendered and is reported by `exofacts -selftest`.
//
// To add a whitelist entry: (1) the entry in methods/funcs, (2) its argument types in primArgs (here or from
// your own init()), (3) its real-Go evaluator in harness/dom_decprims.go (`primEval`), (4) its panic/range
// side condition, if any, in lean/ExoVerif/Driver/DecPrims.lean (`sideCondition`).

import (
	"fmt"
	"go/parser"
	"go/token"
	"sort"
	"strings"
)

// primArgs: Lean types of the arguments a1..an of each table entry ("<RecvType>.<Method>" or function name).
var primArgs = map[string][]string{}

func init() {
	for _, m := range []string{"Add", "Sub", "Mul", "Quo", "GT", "GTE", "LT", "LTE", "Equal", "Cmp", "Before", "After"} {
		primArgs["Int."+m] = []string{"Int"}
	}
	for _, m := range []string{"Neg", "Abs", "IsZero", "IsPositive", "IsNegative", "BigInt", "IsNil", "Sign", "Int64", "Uint64", "IsInt64", "Unix", "UTC"} {
		primArgs["Int."+m] = []string{}
	}
	for _, m := range []string{"Add", "Sub", "Mul", "MulTruncate", "Quo", "QuoTruncate", "QuoRoundUp", "GT", "GTE", "LT", "LTE", "Equal"} {
		primArgs["Dec."+m] = []string{"Dec"}
	}
	for _, m := range []string{"MulInt", "MulInt64", "QuoInt", "QuoInt64"} {
		primArgs["Dec."+m] = []string{"Int"}
	}
	for _, m := range []string{"Neg", "TruncateInt", "RoundInt", "TruncateInt64", "IsZero", "IsPositive", "IsNegative", "IsNil"} {
		primArgs["Dec."+m] = []string{}
	}
	for _, m := range []string{"Mul", "Add", "Sub", "Div"} {
		primArgs["BigRecv."+m] = []string{"Int", "Int"}
	}
	for _, p := range []string{"sdkmath.", "math.", "sdk."} {
		primArgs[p+"NewInt"] = []string{"Int"}
		primArgs[p+"ZeroInt"] = []string{}
		primArgs[p+"OneInt"] = []string{}
	}
	primArgs["sdkmath.NewIntWithDecimal"] = []string{"Int", "Int"}
	primArgs["sdkmath.NewIntFromBigInt"] = []string{"Int"}
	primArgs["sdkmath.NewIntFromUint64"] = []string{"Int"}
	for _, f := range []string{"sdkmath.LegacyNewDecFromBigInt", "sdkmath.LegacyNewDecFromInt", "sdk.NewDecFromInt", "sdk.NewDecFromBigInt",
		"sdkmath.LegacyNewDec", "sdk.NewDec", "math.LegacyNewDec"} {
		primArgs[f] = []string{"Int"}
	}
	for _, f := range []string{"sdkmath.LegacyZeroDec", "sdkmath.LegacyOneDec", "sdk.ZeroDec", "sdk.OneDec"} {
		primArgs[f] = []string{}
	}
	for _, f := range []string{"sdkmath.LegacyMinDec", "sdkmath.LegacyMaxDec", "sdk.MinDec", "sdk.MaxDec", "math.LegacyMaxDec", "math.LegacyMinDec"} {
		primArgs[f] = []string{"Dec", "Dec"}
	}
	primArgs["sdkmath.MinInt"] = []string{"Int", "Int"}
	primArgs["sdkmath.MaxInt"] = []string{"Int", "Int"}
	for _, f := range []string{"int", "int64", "uint64", "uint32", "int32", "uint8", "big.NewInt"} {
		primArgs[f] = []string{"Int"}
	}
}

// opPrims: the operators tr.expr translates without a table (binary / unary on Int and Bool).
var opPrims = []struct {
	name, expr string
	args       []string
}{
	{"op.add", "a1 + a2", []string{"Int", "Int"}}, {"op.sub", "a1 - a2", []string{"Int", "Int"}},
	{"op.mul", "a1 * a2", []string{"Int", "Int"}}, {"op.quo", "a1 / a2", []string{"Int", "Int"}},
	{"op.rem", "a1 % a2", []string{"Int", "Int"}},
	{"op.lt", "a1 < a2", []string{"Int", "Int"}}, {"op.le", "a1 <= a2", []string{"Int", "Int"}},
	{"op.gt", "a1 > a2", []string{"Int", "Int"}}, {"op.ge", "a1 >= a2", []string{"Int", "Int"}},
	{"op.eq", "a1 == a2", []string{"Int", "Int"}}, {"op.ne", "a1 != a2", []string{"Int", "Int"}},
	{"op.neg", "-a1", []string{"Int"}},
	{"op.not", "!a1", []string{"Bool"}}, {"op.and", "a1 && a2", []string{"Bool", "Bool"}}, {"op.or", "a1 || a2", []string{"Bool", "Bool"}},
	{"op.beq", "a1 == a2", []string{"Bool", "Bool"}}, {"op.bne", "a1 != a2", []string{"Bool", "Bool"}},
	{"op.lit", "a1 + 1_000", []string{"Int"}}, // integer literal with digit separators
}

type primOut struct {
	name string
	lean string // table entry, "" when not renderable
	err  string
}

func vCtor(ty string) string {
	switch ty {
	case "Int":
		return ".int"
	case "Dec":
		return ".dec"
	case "Bool":
		return ".bool"
	}
	return ""
}

// renderPrim runs the translator on one micro-expression.
func renderPrim(name, goExpr string, recvTy string, args []string) (out primOut) {
	out.name = name
	defer func() {
		if r := recover(); r != nil {
			if te, ok := r.(trErr); ok {
				out.err = te.msg
				out.lean = ""
				return
			}
			panic(r)
		}
	}()
	e, err := parser.ParseExpr(goExpr)
	if err != nil {
		out.err = err.Error()
		return
	}
	k := &Kernel{Name: "prim", RetMode: "value"}
	t := &tr{k: k, fset: token.NewFileSet(), ty: map[string]string{}, rename: map[string]string{}}
	var pats []string
	if recvTy != "" {
		t.ty["r"] = recvTy
		if c := vCtor(recvTy); c != "" {
			pats = append(pats, c+" r")
		}
	}
	for i, a := range args {
		v := fmt.Sprintf("a%d", i+1)
		t.ty[v] = a
		c := vCtor(a)
		if c == "" {
			out.err = "argument type " + a
			return
		}
		pats = append(pats, c+" "+v)
	}
	s, ty := t.expr(e)
	c := vCtor(ty)
	if c == "" {
		out.err = "result type " + ty
		return
	}
	out.lean = fmt.Sprintf("  (%q, fun (args : List V) => match args with | [%s] => some (%s %s) | _ => none)", name, strings.Join(pats, ", "), c, s)
	return
}

// allPrims renders every table entry and operator, sorted by name.
func allPrims() []primOut {
	var res []primOut
	for rty, ms := range methods {
		for m := range ms {
			name := rty + "." + m
			args, ok := primArgs[name]
			if !ok {
				res = append(res, primOut{name: name, err: "no argument signature in primArgs (tools/exofacts/prims.go)"})
				continue
			}
			var as []string
			for i := range args {
				as = append(as, fmt.Sprintf("a%d", i+1))
			}
			res = append(res, renderPrim(name, "r."+m+"("+strings.Join(as, ", ")+")", rty, args))
		}
	}
	for f := range funcs {
		args, ok := primArgs[f]
		if !ok {
			res = append(res, primOut{name: f, err: "no argument signature in primArgs (tools/exofacts/prims.go)"})
			continue
		}
		var as []string
		for i := range args {
			as = append(as, fmt.Sprintf("a%d", i+1))
		}
		res = append(res, renderPrim(f, f+"("+strings.Join(as, ", ")+")", "", args))
	}
	for _, o := range opPrims {
		res = append(res, renderPrim(o.name, o.expr, "", o.args))
	}
	sort.Slice(res, func(i, j int) bool { return res[i].name < res[j].name })
	return res
}

// genPrims renders Generated/Prims.lean. It depends on the translator's tables only (not on /repo), so it
// is regenerated identically whatever the Go tree looks like.
func genPrims() (string, []string) {
	var b strings.Builder
	for _, im := range kernelImports {
		b.WriteString("import " + im + "\n")
	}
	b.WriteString("/-! GENERATED by tools/exofacts (prims.go) from the translator's whitelist tables — do not edit.\n" +
		"Each entry is the Lean text the translator inserts for the Go primitive of that name. -/\n" +
		"namespace ExoVerif.Gen.Prims\nset_option linter.unusedVariables false\n\n" +
		"inductive V where\n  | int (i : Int)\n  | dec (d : ExoVerif.Dec)\n  | bool (b : Bool)\n\n")
	var names, bad []string
	var rows []string
	for _, p := range allPrims() {
		names = append(names, p.name)
		if p.lean == "" {
			bad = append(bad, p.name+": "+p.err)
			continue
		}
		rows = append(rows, p.lean)
	}
	b.WriteString("/-- every whitelist entry (rendered or not) -/\ndef names : List String := " + leanStrList(names) + "\n\n")
	b.WriteString("def table : List (String × (List V → Option V)) := [\n" + strings.Join(rows, ",\n") + "\n]\n\n")
	b.WriteString("end ExoVerif.Gen.Prims\n")
	return b.String(), bad
}
