package main

import (
	"fmt"
	"go/ast"
	"go/parser"
	"go/token"
	"strings"
)

func init() {
	factGens = append(factGens, ledgerFacts)
}

func parseRepoFile(repo, rel string) (*ast.File, *token.FileSet, error) {
	fset := token.NewFileSet()
	f, err := parser.ParseFile(fset, repo+"/"+rel, nil, 0)
	return f, fset, err
}

func ledgerFacts(repo string, emit func(name, leanDef string, err error)) {
	// operatortypes.UnbondingExpiration
	func() {
		f, _, err := parseRepoFile(repo, "x/operator/types/keys.go")
		if err != nil {
			emit("unbondingExpiration", "", err)
			return
		}
		val := ""
		ast.Inspect(f, func(n ast.Node) bool {
			vs, ok := n.(*ast.ValueSpec)
			if !ok {
				return true
			}
			for i, nm := range vs.Names {
				if nm.Name == "UnbondingExpiration" && i < len(vs.Values) {
					if bl, ok := vs.Values[i].(*ast.BasicLit); ok {
						val = bl.Value
					}
				}
			}
			return true
		})
		if val == "" {
			emit("unbondingExpiration", "", fmt.Errorf("constant UnbondingExpiration not found as a literal"))
			return
		}
		emit("unbondingExpiration", "/-- x/operator/types/keys.go: UnbondingExpiration -/\ndef unbondingExpiration : Nat := "+val, nil)
	}()
	// GetUnbondingExpirationBlockNumber returns startHeight + UnbondingExpiration
	func() {
		f, _, err := parseRepoFile(repo, "x/operator/keeper/keeper.go")
		if err != nil {
			emit("unbondingIsStartPlusConst", "", err)
			return
		}
		fd := findFunc(f, "Keeper.GetUnbondingExpirationBlockNumber")
		ok := false
		if fd != nil && len(fd.Body.List) == 1 {
			if rs, isRet := fd.Body.List[0].(*ast.ReturnStmt); isRet && len(rs.Results) == 1 {
				if be, isBin := rs.Results[0].(*ast.BinaryExpr); isBin && be.Op == token.ADD {
					a, b := exprText(be.X), exprText(be.Y)
					ok = (a == "startHeight" && strings.HasSuffix(b, "UnbondingExpiration")) || (b == "startHeight" && strings.HasSuffix(a, "UnbondingExpiration"))
				}
			}
		}
		emit("unbondingIsStartPlusConst", fmt.Sprintf("/-- x/operator/keeper/keeper.go: GetUnbondingExpirationBlockNumber is `startHeight + UnbondingExpiration` -/\ndef unbondingIsStartPlusConst : Bool := %v", ok), nil)
	}()
	// GetPendingUndelegationRecKeys: the iterator prefix is hex(height) followed by the key separator
	func() {
		f, _, err := parseRepoFile(repo, "x/delegation/keeper/un_delegation_state.go")
		if err != nil {
			emit("pendingPrefixHasSeparator", "", err)
			return
		}
		fd := findFunc(f, "Keeper.GetPendingUndelegationRecKeys")
		if fd == nil {
			emit("pendingPrefixHasSeparator", "", fmt.Errorf("GetPendingUndelegationRecKeys not found"))
			return
		}
		has, found := false, false
		ast.Inspect(fd.Body, func(n ast.Node) bool {
			c, ok := n.(*ast.CallExpr)
			if !ok || !strings.HasSuffix(exprText(c.Fun), "KVStorePrefixIterator") || len(c.Args) != 2 {
				return true
			}
			found = true
			// accepted shapes: []byte(hexutil.EncodeUint64(height)+"/")  or a helper whose name says prefix
			ast.Inspect(c.Args[1], func(m ast.Node) bool {
				if be, ok := m.(*ast.BinaryExpr); ok && be.Op == token.ADD {
					if bl, ok := be.Y.(*ast.BasicLit); ok && (bl.Value == `"/"`) {
						has = true
					}
					if strings.HasSuffix(exprText(be.Y), "DelimiterForCombinedKey") {
						has = true
					}
				}
				if cc, ok := m.(*ast.CallExpr); ok && strings.Contains(exprText(cc.Fun), "GetJoinedStoreKeyForPrefix") {
					has = true
				}
				return true
			})
			return false
		})
		if !found {
			emit("pendingPrefixHasSeparator", "", fmt.Errorf("no KVStorePrefixIterator call in GetPendingUndelegationRecKeys"))
			return
		}
		emit("pendingPrefixHasSeparator", fmt.Sprintf("/-- x/delegation/keeper/un_delegation_state.go: GetPendingUndelegationRecKeys iterates hex(height) ++ \"/\" -/\ndef pendingPrefixHasSeparator : Bool := %v", has), nil)
	}()
	// Slash(): the cache context is committed only after UpdateOperatorSlashInfo accepted the slash
	func() {
		f, fset, err := parseRepoFile(repo, "x/operator/keeper/slash.go")
		if err != nil {
			emit("slashCommitAfterInfo", "", err)
			return
		}
		fd := findFunc(f, "Keeper.Slash")
		if fd == nil {
			emit("slashCommitAfterInfo", "", fmt.Errorf("Keeper.Slash not found"))
			return
		}
		writePos, infoPos, infoOnCache, assetsOnCache := -1, -1, false, false
		cacheVar, writeVar := "", ""
		ast.Inspect(fd.Body, func(n ast.Node) bool {
			if as, ok := n.(*ast.AssignStmt); ok && len(as.Lhs) == 2 && len(as.Rhs) == 1 {
				if c, ok := as.Rhs[0].(*ast.CallExpr); ok && strings.HasSuffix(exprText(c.Fun), "CacheContext") {
					cacheVar, writeVar = exprText(as.Lhs[0]), exprText(as.Lhs[1])
				}
			}
			c, ok := n.(*ast.CallExpr)
			if !ok {
				return true
			}
			txt := exprText(c.Fun)
			line := fset.Position(c.Pos()).Line
			switch {
			case writeVar != "" && txt == writeVar:
				writePos = line
			case strings.HasSuffix(txt, "UpdateOperatorSlashInfo"):
				infoPos = line
				infoOnCache = len(c.Args) > 0 && exprText(c.Args[0]) == cacheVar
			case strings.HasSuffix(txt, "SlashAssets"):
				assetsOnCache = len(c.Args) > 0 && exprText(c.Args[0]) == cacheVar
			}
			return true
		})
		ok := cacheVar != "" && assetsOnCache && infoOnCache && infoPos > 0 && writePos > infoPos
		emit("slashCommitAfterInfo", fmt.Sprintf("/-- x/operator/keeper/slash.go: Slash runs SlashAssets and UpdateOperatorSlashInfo in one cache context and commits it afterwards -/\ndef slashCommitAfterInfo : Bool := %v", ok), nil)
	}()
	// SetUndelegationRecords refuses exactly the records whose completion height lies in the past
	// (`record.CompleteBlockNumber < currentHeight`): a record due in the current block is storable
	// (genesis import of a held record re-queued for the first block of the restarted chain)
	func() {
		name := "setRecordsRejectsPastOnly"
		f, fset, err := parseRepoFile(repo, "x/delegation/keeper/un_delegation_state.go")
		if err != nil {
			emit(name, "", err)
			return
		}
		fd := findFunc(f, "Keeper.SetUndelegationRecords")
		if fd == nil {
			emit(name, "", fmt.Errorf("SetUndelegationRecords not found"))
			return
		}
		conds := []string{}
		ast.Inspect(fd.Body, func(n ast.Node) bool {
			ifs, ok := n.(*ast.IfStmt)
			if !ok {
				return true
			}
			refuses := false
			for _, st := range ifs.Body.List {
				if r, ok := st.(*ast.ReturnStmt); ok && len(r.Results) == 1 && exprText(r.Results[0]) != "nil" {
					refuses = true
				}
			}
			if refuses {
				conds = append(conds, strings.ReplaceAll(nodeText(fset, ifs.Cond), " ", ""))
			}
			return true
		})
		ok := len(conds) == 1 && (conds[0] == "record.CompleteBlockNumber<uint64(currentHeight)" || conds[0] == "uint64(currentHeight)>record.CompleteBlockNumber")
		// currentHeight must be the block height
		isHeight := false
		ast.Inspect(fd.Body, func(n ast.Node) bool {
			if as, ok := n.(*ast.AssignStmt); ok && len(as.Lhs) == 1 && len(as.Rhs) == 1 && exprText(as.Lhs[0]) == "currentHeight" && exprText(as.Rhs[0]) == "ctx.BlockHeight()" {
				isHeight = true
			}
			return true
		})
		emit(name, fmt.Sprintf("/-- x/delegation/keeper/un_delegation_state.go: SetUndelegationRecords has exactly one refusing check, `CompleteBlockNumber < ctx.BlockHeight()` (found: %q) -/\ndef setRecordsRejectsPastOnly : Bool := %v", conds, ok && isHeight), nil)
	}()
}
