package main

// Facts for C09 (atomicity) and C10 (authorization), extracted with go/ast from the repository:
//   cacheContextSites        every call of CacheContext() in x/, precompiles/, app/ante (file:func)
//   precompileRunSwallow     per precompile Run switch case: is the method's error turned into Pack(false…)
//   callSeq<Func>            callee names in source order inside the modelled functions
//   gatewayCheckFirst        per precompile tx method: is CheckExocoreGatewayAddr(ctx, contract.CallerAddress) its first statement
//   avsAuthReads             per AVS precompile method: which value each identity field is read from
//   avsOriginIgnored         the `origin` parameter of the AVS tx methods is the blank identifier
//   oracleSigResultDiscarded in the oracle branch of SigVerificationDecorator.AnteHandle the value of VerifySignature is dropped
//   updateParamsAuthority    per UpdateParams handler: the authority condition

import (
	"bytes"
	"fmt"
	"go/ast"
	"go/parser"
	"go/printer"
	"go/token"
	"os"
	"path/filepath"
	"sort"
	"strings"
)

func init() {
	factGens = append(factGens, genAtomicFacts, genCacheCtxFacts, genCacheCommitFacts, genAuthFacts)
}

func xbNodeText(fset *token.FileSet, n ast.Node) string {
	var b bytes.Buffer
	_ = printer.Fprint(&b, fset, n)
	return strings.Join(strings.Fields(b.String()), " ")
}

func xbParseGo(repo, rel string) (*token.FileSet, *ast.File, error) {
	fset := token.NewFileSet()
	f, err := parser.ParseFile(fset, filepath.Join(repo, rel), nil, 0)
	return fset, f, err
}

// findFunc returns the FuncDecl named name (optionally with a receiver type containing recv).
func xbFindFunc(f *ast.File, name, recv string) *ast.FuncDecl {
	for _, d := range f.Decls {
		fd, ok := d.(*ast.FuncDecl)
		if !ok || fd.Name.Name != name || fd.Body == nil {
			continue
		}
		if recv != "" {
			if fd.Recv == nil || len(fd.Recv.List) == 0 || !strings.Contains(exprText(fd.Recv.List[0].Type), recv) {
				continue
			}
		}
		return fd
	}
	return nil
}

func xbCalleeName(c *ast.CallExpr) string {
	switch t := c.Fun.(type) {
	case *ast.Ident:
		return t.Name
	case *ast.SelectorExpr:
		return t.Sel.Name
	}
	return ""
}

// callSeq lists callee names of all calls inside the function body, ordered by position.
func xbCallSeq(fd *ast.FuncDecl) []string {
	type pc struct {
		pos  token.Pos
		name string
	}
	var cs []pc
	ast.Inspect(fd.Body, func(n ast.Node) bool {
		if c, ok := n.(*ast.CallExpr); ok {
			if nm := xbCalleeName(c); nm != "" {
				// position of the callee name itself (so that a.b(c.d()) lists b before d, and
				// x := f(); g(x) lists f before g)
				p := c.Lparen
				cs = append(cs, pc{p, nm})
			}
		}
		return true
	})
	sort.SliceStable(cs, func(i, j int) bool { return cs[i].pos < cs[j].pos })
	out := make([]string, len(cs))
	for i, c := range cs {
		out[i] = c.name
	}
	return out
}

func xbLeanPairList(xs [][2]string, second string) string {
	q := make([]string, len(xs))
	for i, x := range xs {
		if second == "bool" {
			q[i] = fmt.Sprintf("(%q, %s)", x[0], x[1])
		} else {
			q[i] = fmt.Sprintf("(%q, %q)", x[0], x[1])
		}
	}
	return "[" + strings.Join(q, ", ") + "]"
}

func genAtomicFacts(repo string, emit func(name, leanDef string, err error)) {
	// ---- CacheContext sites
	var sites []string
	var werr error
	for _, root := range []string{"x", "precompiles", "app/ante"} {
		_ = filepath.Walk(filepath.Join(repo, root), func(p string, info os.FileInfo, err error) error {
			if err != nil || info.IsDir() || !strings.HasSuffix(p, ".go") || strings.HasSuffix(p, "_test.go") || strings.HasSuffix(p, ".pb.go") || strings.HasSuffix(p, ".pb.gw.go") {
				return nil
			}
			fset := token.NewFileSet()
			f, e := parser.ParseFile(fset, p, nil, 0)
			if e != nil {
				werr = e
				return nil
			}
			rel, _ := filepath.Rel(repo, p)
			for _, d := range f.Decls {
				fd, ok := d.(*ast.FuncDecl)
				if !ok || fd.Body == nil {
					continue
				}
				n := 0
				ast.Inspect(fd.Body, func(nd ast.Node) bool {
					if c, ok := nd.(*ast.CallExpr); ok && xbCalleeName(c) == "CacheContext" {
						n++
					}
					return true
				})
				for i := 0; i < n; i++ {
					sites = append(sites, rel+":"+fd.Name.Name)
				}
			}
			return nil
		})
	}
	sort.Strings(sites)
	emit("cacheContextSites", "/-- every call of CacheContext() in x/, precompiles/, app/ante (non-test): file:func -/\ndef cacheContextSites : List String := "+leanStrList(sites), werr)

	// ---- error swallowing in the precompile Run methods
	var sw [][2]string
	var serr error
	for _, pc := range [][2]string{{"assets", "precompiles/assets/assets.go"}, {"delegation", "precompiles/delegation/delegation.go"}, {"avs", "precompiles/avs/avs.go"}, {"reward", "precompiles/reward/reward.go"}} {
		_, f, err := xbParseGo(repo, pc[1])
		if err != nil {
			serr = err
			continue
		}
		run := xbFindFunc(f, "Run", "Precompile")
		if run == nil {
			serr = fmt.Errorf("%s: Run not found", pc[1])
			continue
		}
		isSwallow := func(n ast.Node) bool { // if err != nil { … Pack(false, …) … }
			found := false
			ast.Inspect(n, func(nd ast.Node) bool {
				ifs, ok := nd.(*ast.IfStmt)
				if !ok {
					return true
				}
				be, ok := ifs.Cond.(*ast.BinaryExpr)
				if !ok || be.Op != token.NEQ || exprText(be.X) != "err" || exprText(be.Y) != "nil" {
					return true
				}
				ast.Inspect(ifs.Body, func(x ast.Node) bool {
					if c, ok := x.(*ast.CallExpr); ok && xbCalleeName(c) == "Pack" && len(c.Args) > 0 && exprText(c.Args[0]) == "false" {
						found = true
					}
					return true
				})
				return true
			})
			return found
		}
		var sws *ast.SwitchStmt
		var ifCases []string // `if method.Name == X { … }` used instead of a switch
		post := false
		for _, st := range run.Body.List {
			if s, ok := st.(*ast.SwitchStmt); ok && exprText(s.Tag) == "method.Name" {
				sws = s
				continue
			}
			if ifs, ok := st.(*ast.IfStmt); ok && sws == nil {
				if be, ok := ifs.Cond.(*ast.BinaryExpr); ok && be.Op == token.EQL && exprText(be.X) == "method.Name" {
					ifCases = append(ifCases, exprText(be.Y))
					continue
				}
			}
			if (sws != nil || len(ifCases) > 0) && isSwallow(st) {
				post = true
				break
			}
			if sws != nil || len(ifCases) > 0 {
				if _, ok := st.(*ast.IfStmt); ok {
					break // an `if err != nil { return nil, err }` before any swallowing: not swallowed
				}
			}
		}
		if sws == nil && len(ifCases) == 0 {
			serr = fmt.Errorf("%s: switch method.Name not found", pc[1])
			continue
		}
		for _, c := range ifCases {
			sw = append(sw, [2]string{pc[0] + "." + c, fmt.Sprint(post)})
		}
		if sws == nil {
			continue
		}
		for _, cl := range sws.Body.List {
			cc := cl.(*ast.CaseClause)
			sw0 := post
			for _, st := range cc.Body {
				if isSwallow(st) {
					sw0 = true
				}
			}
			for _, e := range cc.List {
				sw = append(sw, [2]string{pc[0] + "." + exprText(e), fmt.Sprint(sw0)})
			}
		}
	}
	sort.Slice(sw, func(i, j int) bool { return sw[i][0] < sw[j][0] })
	emit("precompileRunSwallow", "/-- precompiles/*/…: Run — per switch case: the method's error is replaced by Pack(false, …) -/\ndef precompileRunSwallow : List (String × Bool) := "+xbLeanPairList(sw, "bool"), serr)

	// ---- call sequences of the modelled functions
	for _, cs := range [][4]string{
		{"callSeqSlash", "x/operator/keeper/slash.go", "Slash", "Keeper"},
		{"callSeqUpdateOperatorSlashInfo", "x/operator/keeper/operator_slash_state.go", "UpdateOperatorSlashInfo", "Keeper"},
		{"callSeqRegisterToken", "precompiles/assets/tx.go", "RegisterToken", "Precompile"},
		{"callSeqDepositOrWithdraw", "precompiles/assets/tx.go", "DepositOrWithdraw", "Precompile"},
		{"callSeqPerformDepositOrWithdraw", "x/assets/keeper/bank.go", "PerformDepositOrWithdraw", "Keeper"},
		{"callSeqDelegateTo", "x/delegation/keeper/delegation.go", "delegateTo", "Keeper"},
		{"callSeqUndelegateFrom", "x/delegation/keeper/delegation.go", "UndelegateFrom", "Keeper"},
		{"callSeqUpdateNSTByBalanceChange", "x/oracle/keeper/native_token.go", "UpdateNSTByBalanceChange", "Keeper"},
		{"callSeqUpdateVotingPower", "x/operator/keeper/abci.go", "UpdateVotingPower", "Keeper"},
		{"callSeqDelegationEndBlock", "x/delegation/keeper/abci.go", "EndBlock", "Keeper"},
		{"callSeqOptIn", "x/operator/keeper/opt.go", "OptIn", "Keeper"},
		{"callSeqOptOut", "x/operator/keeper/opt.go", "OptOut", "Keeper"},
		{"callSeqMsgOptIntoAVS", "x/operator/keeper/msg_server.go", "OptIntoAVS", "MsgServerImpl"},
		{"callSeqMsgDelegate", "x/delegation/keeper/msg_server.go", "DelegateAssetToOperator", "Keeper"},
		{"callSeqCreateAVSTask", "x/avs/keeper/keeper.go", "CreateAVSTask", "Keeper"},
		{"callSeqPrecompileCreateAVSTask", "precompiles/avs/tx.go", "CreateAVSTask", "Precompile"},
	} {
		_, f, err := xbParseGo(repo, cs[1])
		if err != nil {
			emit(cs[0], "", err)
			continue
		}
		fd := xbFindFunc(f, cs[2], cs[3])
		if fd == nil {
			emit(cs[0], "", fmt.Errorf("%s: func %s not found", cs[1], cs[2]))
			continue
		}
		emit(cs[0], fmt.Sprintf("/-- %s: %s — callee names in source order -/\ndef %s : List String := %s", cs[1], cs[2], cs[0], leanStrList(xbCallSeq(fd))), nil)
	}
}

// cacheCtxCalls: for a function that opens a cache context (`cc, writeFunc := ctx.CacheContext()`),
// the callees that receive the cache context as first argument or are invoked on it, in source order.
func cacheCtxCalls(fd *ast.FuncDecl) (ccVar string, calls []string) {
	ast.Inspect(fd.Body, func(n ast.Node) bool {
		as, ok := n.(*ast.AssignStmt)
		if !ok || ccVar != "" || len(as.Lhs) != 2 || len(as.Rhs) != 1 {
			return true
		}
		if c, ok := as.Rhs[0].(*ast.CallExpr); ok && xbCalleeName(c) == "CacheContext" {
			ccVar = exprText(as.Lhs[0])
		}
		return true
	})
	if ccVar == "" {
		return
	}
	type pc struct {
		pos  token.Pos
		name string
	}
	var cs []pc
	ast.Inspect(fd.Body, func(n ast.Node) bool {
		c, ok := n.(*ast.CallExpr)
		if !ok {
			return true
		}
		onCC := len(c.Args) > 0 && exprText(c.Args[0]) == ccVar
		if sel, ok := c.Fun.(*ast.SelectorExpr); ok && exprText(sel.X) == ccVar {
			onCC = true
		}
		if onCC {
			cs = append(cs, pc{c.Lparen, xbCalleeName(c)})
		}
		return true
	})
	sort.SliceStable(cs, func(i, j int) bool { return cs[i].pos < cs[j].pos })
	for _, c := range cs {
		calls = append(calls, c.name)
	}
	return
}

func genCacheCtxFacts(repo string, emit func(name, leanDef string, err error)) {
	var rows []string
	var ferr error
	for _, m := range [][3]string{
		{"x/operator/keeper/slash.go", "Slash", "Keeper"},
		{"precompiles/assets/tx.go", "DepositOrWithdraw", "Precompile"},
		{"precompiles/assets/tx.go", "RegisterToken", "Precompile"},
		{"x/oracle/keeper/native_token.go", "UpdateNSTByBalanceChange", "Keeper"},
	} {
		_, f, err := xbParseGo(repo, m[0])
		if err != nil {
			ferr = err
			continue
		}
		fd := xbFindFunc(f, m[1], m[2])
		if fd == nil {
			ferr = fmt.Errorf("%s: %s not found", m[0], m[1])
			continue
		}
		_, calls := cacheCtxCalls(fd)
		rows = append(rows, fmt.Sprintf("(%q, %s)", m[1], leanStrList(calls)))
	}
	emit("cacheCtxCalls", "/-- callees that run on the function's cache context (first argument or receiver is the variable bound by `… := ctx.CacheContext()`), in source order; [] = no cache context -/\ndef cacheCtxCalls : List (String × List String) := ["+strings.Join(rows, ", ")+"]", ferr)
}

// cacheCommitDecision describes, for one `X, W := ….CacheContext()` in fd, how the commit W() is decided:
//
//	discarded                          W is `_`
//	inline:<n>                         n plain calls W() in straight-line code (failing paths return/continue before them)
//	deferred:<V>:<named-result|local>:shadows=<k>:bare-returns=<m>
//	                                   W() sits in a deferred closure under `if V == nil`; k = number of `:=` (re)declarations of V
//	                                   in the function after the CacheContext call and outside that closure (each hides the variable
//	                                   the closure looks at); for a local (non-result) V, m = number of `return …, <expr>` whose last
//	                                   expression is not V itself and not nil (such a return does not assign V)
func cacheCommitDecisions(fd *ast.FuncDecl) []string {
	var out []string
	named := map[string]bool{}
	if fd.Type.Results != nil {
		for _, f := range fd.Type.Results.List {
			for _, n := range f.Names {
				named[n.Name] = true
			}
		}
	}
	ast.Inspect(fd.Body, func(n ast.Node) bool {
		as, ok := n.(*ast.AssignStmt)
		if !ok || len(as.Lhs) != 2 || len(as.Rhs) != 1 {
			return true
		}
		c, ok := as.Rhs[0].(*ast.CallExpr)
		if !ok || xbCalleeName(c) != "CacheContext" {
			return true
		}
		w := exprText(as.Lhs[1])
		if w == "_" {
			out = append(out, "discarded")
			return true
		}
		start := as.End()
		// deferred closure calling W under `if V == nil`
		var deferred *ast.FuncLit
		condVar := ""
		inline := 0
		ast.Inspect(fd.Body, func(m ast.Node) bool {
			if d, ok := m.(*ast.DeferStmt); ok && d.Pos() > start {
				if fl, ok := d.Call.Fun.(*ast.FuncLit); ok {
					ast.Inspect(fl.Body, func(x ast.Node) bool {
						ifs, ok := x.(*ast.IfStmt)
						if !ok {
							return true
						}
						be, ok := ifs.Cond.(*ast.BinaryExpr)
						if !ok || be.Op != token.EQL || exprText(be.Y) != "nil" {
							return true
						}
						ast.Inspect(ifs.Body, func(y ast.Node) bool {
							if cc, ok := y.(*ast.CallExpr); ok && exprText(cc.Fun) == w {
								deferred = fl
								condVar = exprText(be.X)
							}
							return true
						})
						return true
					})
				}
				return false
			}
			if cc, ok := m.(*ast.CallExpr); ok && exprText(cc.Fun) == w && cc.Pos() > start {
				inline++
			}
			return true
		})
		if deferred == nil {
			out = append(out, fmt.Sprintf("inline:%d", inline))
			return true
		}
		shadows, bare := 0, 0
		ast.Inspect(fd.Body, func(m ast.Node) bool {
			if m == deferred {
				return false
			}
			switch t := m.(type) {
			case *ast.AssignStmt:
				if t.Tok == token.DEFINE && t.Pos() > start {
					for _, l := range t.Lhs {
						if exprText(l) == condVar {
							shadows++
						}
					}
				}
			case *ast.ReturnStmt:
				if !named[condVar] && t.Pos() > start && len(t.Results) > 0 {
					last := exprText(t.Results[len(t.Results)-1])
					if last != condVar && last != "nil" {
						bare++
					}
				}
			case *ast.FuncLit:
				return false // returns of nested closures are not returns of fd
			}
			return true
		})
		kind := "local"
		if named[condVar] {
			kind = "named-result"
		}
		out = append(out, fmt.Sprintf("deferred:%s:%s:shadows=%d:bare-returns=%d", condVar, kind, shadows, bare))
		return true
	})
	return out
}

func genCacheCommitFacts(repo string, emit func(name, leanDef string, err error)) {
	var rows [][2]string
	var werr error
	for _, root := range []string{"x", "precompiles", "app/ante"} {
		_ = filepath.Walk(filepath.Join(repo, root), func(p string, info os.FileInfo, err error) error {
			if err != nil || info.IsDir() || !strings.HasSuffix(p, ".go") || strings.HasSuffix(p, "_test.go") || strings.HasSuffix(p, ".pb.go") || strings.HasSuffix(p, ".pb.gw.go") {
				return nil
			}
			fset := token.NewFileSet()
			f, e := parser.ParseFile(fset, p, nil, 0)
			if e != nil {
				werr = e
				return nil
			}
			rel, _ := filepath.Rel(repo, p)
			for _, d := range f.Decls {
				fd, ok := d.(*ast.FuncDecl)
				if !ok || fd.Body == nil {
					continue
				}
				for _, dec := range cacheCommitDecisions(fd) {
					rows = append(rows, [2]string{rel + ":" + fd.Name.Name, dec})
				}
			}
			return nil
		})
	}
	sort.SliceStable(rows, func(i, j int) bool { return rows[i][0] < rows[j][0] })
	emit("cacheCommitDecisions", "/-- for every `X, W := ….CacheContext()` in x/, precompiles/, app/ante: how the commit W() is decided (inline call after the failing paths returned; or a deferred closure conditioned on a variable — named result or local —, with the number of `:=` redeclarations that hide that variable and of returns that do not assign it) -/\ndef cacheCommitDecisions : List (String × String) := "+xbLeanPairList(rows, "str"), werr)
}

func genAuthFacts(repo string, emit func(name, leanDef string, err error)) {
	// ---- gateway check is the first statement
	var gw [][2]string
	var gerr error
	for _, m := range [][3]string{
		{"precompiles/assets/tx.go", "DepositOrWithdraw", "assets"}, {"precompiles/assets/tx.go", "RegisterOrUpdateClientChain", "assets"},
		{"precompiles/assets/tx.go", "RegisterToken", "assets"}, {"precompiles/assets/tx.go", "UpdateToken", "assets"},
		{"precompiles/delegation/tx.go", "Delegate", "delegation"}, {"precompiles/delegation/tx.go", "Undelegate", "delegation"},
		{"precompiles/delegation/tx.go", "AssociateOperatorWithStaker", "delegation"}, {"precompiles/delegation/tx.go", "DissociateOperatorFromStaker", "delegation"},
		{"precompiles/reward/methods.go", "Reward", "reward"},
	} {
		fset, f, err := xbParseGo(repo, m[0])
		if err != nil {
			gerr = err
			continue
		}
		fd := xbFindFunc(f, m[1], "Precompile")
		if fd == nil {
			gerr = fmt.Errorf("%s: %s not found", m[0], m[1])
			continue
		}
		first := false
		if len(fd.Body.List) >= 2 {
			s0 := xbNodeText(fset, fd.Body.List[0])
			s1 := xbNodeText(fset, fd.Body.List[1])
			first = s0 == "err := p.assetsKeeper.CheckExocoreGatewayAddr(ctx, contract.CallerAddress)" &&
				strings.HasPrefix(s1, "if err != nil { return nil,")
		}
		gw = append(gw, [2]string{m[2] + "." + m[1], fmt.Sprint(first)})
	}
	emit("gatewayCheckFirst", "/-- precompile tx methods: `err := p.assetsKeeper.CheckExocoreGatewayAddr(ctx, contract.CallerAddress); if err != nil { return nil, … }` are the first two statements -/\ndef gatewayCheckFirst : List (String × Bool) := "+xbLeanPairList(gw, "bool"), gerr)

	// CheckExocoreGatewayAddr itself: compares its argument with the stored parameter
	{
		fset, f, err := xbParseGo(repo, "x/assets/keeper/params.go")
		var cmp string
		if err == nil {
			if fd := xbFindFunc(f, "CheckExocoreGatewayAddr", "Keeper"); fd != nil {
				ast.Inspect(fd.Body, func(n ast.Node) bool {
					if ifs, ok := n.(*ast.IfStmt); ok && cmp == "" {
						if be, ok := ifs.Cond.(*ast.BinaryExpr); ok && (exprText(be.X) == "addr" || exprText(be.Y) == "addr") {
							cmp = xbNodeText(fset, be)
						}
					}
					return true
				})
			} else {
				err = fmt.Errorf("CheckExocoreGatewayAddr not found")
			}
		}
		emit("gatewayCompare", fmt.Sprintf("/-- x/assets/keeper/params.go: CheckExocoreGatewayAddr — the condition that rejects -/\ndef gatewayCompare : String := %q", cmp), err)
	}

	// ---- AVS precompile: where each identity field comes from
	{
		fset, f, err := xbParseGo(repo, "precompiles/avs/tx.go")
		var reads [][2]string
		origin := true
		if err == nil {
			for _, name := range []string{"RegisterAVS", "DeregisterAVS", "UpdateAVS", "BindOperatorToAVS", "UnbindOperatorToAVS", "CreateAVSTask", "Challenge", "RegisterBLSPublicKey"} {
				fd := xbFindFunc(f, name, "Precompile")
				if fd == nil {
					err = fmt.Errorf("precompiles/avs/tx.go: %s not found", name)
					break
				}
				// second parameter = origin
				if len(fd.Type.Params.List) < 2 || len(fd.Type.Params.List[1].Names) != 1 || fd.Type.Params.List[1].Names[0].Name != "_" {
					origin = false
				}
				ast.Inspect(fd.Body, func(n ast.Node) bool {
					as, ok := n.(*ast.AssignStmt)
					if !ok || len(as.Lhs) != 1 || len(as.Rhs) != 1 {
						return true
					}
					sel, ok := as.Lhs[0].(*ast.SelectorExpr)
					if !ok {
						return true
					}
					fld := sel.Sel.Name
					if fld != "AvsAddress" && fld != "OperatorAddress" && fld != "CallerAddress" && fld != "Operator" && fld != "TaskContractAddress" {
						return true
					}
					rhs := xbNodeText(fset, as.Rhs[0])
					src := "other:" + rhs
					switch {
					case strings.Contains(rhs, "contract.CallerAddress"):
						src = "contract.CallerAddress"
					case strings.Contains(rhs, "callerAddress"):
						src = "args[0]"
					case rhs == "operator":
						src = "args[4]"
					case strings.Contains(rhs, "origin"):
						src = "evm.Origin"
					}
					reads = append(reads, [2]string{name + "." + fld, src})
					return true
				})
			}
		}
		// the parse helpers (types.go) assign CallerAddress for RegisterAVS / UpdateAVS / CreateAVSTask
		fset2, f2, err2 := xbParseGo(repo, "precompiles/avs/types.go")
		if err == nil {
			err = err2
		}
		if err == nil {
			for _, name := range []string{"GetAVSParamsFromInputs", "GetAVSParamsFromUpdateInputs", "GetTaskParamsFromInputs"} {
				fd := xbFindFunc(f2, name, "Precompile")
				if fd == nil {
					err = fmt.Errorf("precompiles/avs/types.go: %s not found", name)
					break
				}
				ast.Inspect(fd.Body, func(n ast.Node) bool {
					as, ok := n.(*ast.AssignStmt)
					if !ok || len(as.Lhs) != 1 || len(as.Rhs) != 1 {
						return true
					}
					sel, ok := as.Lhs[0].(*ast.SelectorExpr)
					if !ok || sel.Sel.Name != "CallerAddress" {
						return true
					}
					rhs := xbNodeText(fset2, as.Rhs[0])
					src := "other:" + rhs
					if strings.Contains(rhs, "callerAddress") {
						src = "args[0]"
					}
					reads = append(reads, [2]string{name + ".CallerAddress", src})
					return true
				})
			}
		}
		emit("avsAuthReads", "/-- precompiles/avs/{tx,types}.go: which value each identity field is read from -/\ndef avsAuthReads : List (String × String) := "+xbLeanPairList(reads, "str"), err)
		emit("avsOriginIgnored", fmt.Sprintf("/-- precompiles/avs/tx.go: the origin parameter of every tx method is `_` -/\ndef avsOriginIgnored : Bool := %v", origin), err)
	}

	// ---- which list each AVS owner check reads: slices.Contains(<list>, <element>)
	{
		var reads [][2]string
		var oerr error
		for _, m := range [][3]string{
			{"precompiles/avs/tx.go", "RegisterAVS", "Precompile"}, {"precompiles/avs/tx.go", "UpdateAVS", "Precompile"},
			{"precompiles/avs/tx.go", "DeregisterAVS", "Precompile"}, {"precompiles/avs/tx.go", "CreateAVSTask", "Precompile"},
			{"x/avs/keeper/keeper.go", "UpdateAVSInfo", "Keeper"}, {"x/avs/keeper/keeper.go", "CreateAVSTask", "Keeper"},
		} {
			fset, f, err := xbParseGo(repo, m[0])
			if err != nil {
				oerr = err
				continue
			}
			fd := xbFindFunc(f, m[1], m[2])
			if fd == nil {
				oerr = fmt.Errorf("%s: %s not found", m[0], m[1])
				continue
			}
			ast.Inspect(fd.Body, func(n ast.Node) bool {
				if c, ok := n.(*ast.CallExpr); ok && exprText(c.Fun) == "slices.Contains" && len(c.Args) == 2 {
					reads = append(reads, [2]string{m[2] + "." + m[1], xbNodeText(fset, c.Args[0]) + " contains " + xbNodeText(fset, c.Args[1])})
				}
				return true
			})
		}
		emit("avsOwnerCheckReads", "/-- every slices.Contains(list, element) in the AVS precompile methods and keeper entry points: which owner list is consulted for which address -/\ndef avsOwnerCheckReads : List (String × String) := "+xbLeanPairList(reads, "str"), oerr)
	}

	// ---- task results: where the signer comparison of SetTaskResultInfo sits relative to the switch on the phase
	{
		fset, f, err := xbParseGo(repo, "x/avs/keeper/task.go")
		var sites []string
		var cases []string
		if err == nil {
			fd := xbFindFunc(f, "SetTaskResultInfo", "Keeper")
			if fd == nil {
				err = fmt.Errorf("x/avs/keeper/task.go: SetTaskResultInfo not found")
			} else {
				isSignerCheck := func(st ast.Stmt) bool {
					ifs, ok := st.(*ast.IfStmt)
					if !ok {
						return false
					}
					c := xbNodeText(fset, ifs.Cond)
					if c != "addr != info.OperatorAddress" && c != "info.OperatorAddress != addr" {
						return false
					}
					for _, b := range ifs.Body.List { // the body must return an error
						if _, ok := b.(*ast.ReturnStmt); ok {
							return true
						}
					}
					return false
				}
				switchSeen := false
				for i, st := range fd.Body.List {
					if isSignerCheck(st) {
						if switchSeen {
							sites = append(sites, fmt.Sprintf("top-level:%d:after-switch", i))
						} else {
							sites = append(sites, fmt.Sprintf("top-level:%d:before-switch", i))
						}
					}
					if sw, ok := st.(*ast.SwitchStmt); ok && xbNodeText(fset, sw.Tag) == "info.Stage" {
						switchSeen = true
						for _, cl := range sw.Body.List {
							cc := cl.(*ast.CaseClause)
							name := "default"
							if len(cc.List) > 0 {
								var ns []string
								for _, e := range cc.List {
									ns = append(ns, xbNodeText(fset, e))
								}
								name = strings.Join(ns, ",")
							}
							cases = append(cases, name)
							for _, b := range cc.Body {
								if isSignerCheck(b) {
									sites = append(sites, "case:"+name)
								}
							}
						}
					}
				}
				if !switchSeen {
					err = fmt.Errorf("SetTaskResultInfo: switch info.Stage not found")
				}
			}
		}
		emit("taskResultSignerCheckSites", "/-- x/avs/keeper/task.go: SetTaskResultInfo — every `if addr != info.OperatorAddress { return … }`: top-level statement index and side of `switch info.Stage`, or the case clause it sits in -/\ndef taskResultSignerCheckSites : List String := "+leanStrList(sites)+"\n/-- the case clauses of `switch info.Stage` -/\ndef taskResultStageCases : List String := "+leanStrList(cases), err)
		// msg server: which field is passed as `addr`, and which field GetSigners returns
		fset2, f2, err2 := xbParseGo(repo, "x/avs/keeper/msg_server.go")
		args := ""
		if err2 == nil {
			if fd := xbFindFunc(f2, "SubmitTaskResult", "MsgServerImpl"); fd != nil {
				ast.Inspect(fd.Body, func(n ast.Node) bool {
					if c, ok := n.(*ast.CallExpr); ok && xbCalleeName(c) == "SetTaskResultInfo" {
						var as []string
						for _, a := range c.Args {
							as = append(as, xbNodeText(fset2, a))
						}
						args = strings.Join(as, ", ")
					}
					return true
				})
			} else {
				err2 = fmt.Errorf("msg_server.go: SubmitTaskResult not found")
			}
		}
		fset3, f3, err3 := xbParseGo(repo, "x/avs/types/msg.go")
		signer := ""
		if err2 == nil {
			err2 = err3
		}
		if err3 == nil {
			if fd := xbFindFunc(f3, "GetSigners", "SubmitTaskResultReq"); fd != nil {
				ast.Inspect(fd.Body, func(n ast.Node) bool {
					if c, ok := n.(*ast.CallExpr); ok && strings.Contains(xbCalleeName(c), "AccAddressFromBech32") && len(c.Args) == 1 {
						signer = xbNodeText(fset3, c.Args[0])
					}
					return true
				})
			} else {
				err2 = fmt.Errorf("msg.go: SubmitTaskResultReq.GetSigners not found")
			}
		}
		emit("taskResultSignerArg", fmt.Sprintf("/-- msg_server.go: arguments of SetTaskResultInfo in SubmitTaskResult; msg.go: the field SubmitTaskResultReq.GetSigners returns -/\ndef taskResultSignerArg : String := %q\ndef taskResultGetSignersField : String := %q", args, signer), err2)
	}

	// ---- oracle branch of SigVerificationDecorator
	{
		_, f, err := xbParseGo(repo, "app/ante/cosmos/sigverify.go")
		discarded, checked, branch := false, false, false
		if err == nil {
			fd := xbFindFunc(f, "AnteHandle", "SigVerificationDecorator")
			if fd == nil {
				err = fmt.Errorf("SigVerificationDecorator.AnteHandle not found")
			} else {
				for _, st := range fd.Body.List {
					ifs, ok := st.(*ast.IfStmt)
					if !ok || !strings.Contains(exprText(ifs.Cond), "IsOracleCreatePriceTx") {
						continue
					}
					branch = true
					ast.Inspect(ifs.Body, func(n ast.Node) bool {
						switch t := n.(type) {
						case *ast.ExprStmt: // the call stands as a statement of its own: result dropped
							if c, ok := t.X.(*ast.CallExpr); ok && xbCalleeName(c) == "VerifySignature" {
								discarded = true
							}
						case *ast.IfStmt: // the call is (part of) a condition whose body returns an error
							inCond := false
							ast.Inspect(t.Cond, func(x ast.Node) bool {
								if c, ok := x.(*ast.CallExpr); ok && xbCalleeName(c) == "VerifySignature" {
									inCond = true
								}
								return true
							})
							if inCond {
								for _, bs := range t.Body.List {
									if rs, ok := bs.(*ast.ReturnStmt); ok && len(rs.Results) == 2 && exprText(rs.Results[1]) != "nil" {
										checked = true
									}
								}
							}
						}
						return true
					})
				}
				if !branch {
					err = fmt.Errorf("oracle branch not found in SigVerificationDecorator.AnteHandle")
				}
			}
		}
		emit("oracleSigResultChecked", fmt.Sprintf("/-- app/ante/cosmos/sigverify.go: SigVerificationDecorator.AnteHandle, oracle branch: `VerifySignature(…)` occurs in the condition of an `if` whose body returns a non-nil error -/\ndef oracleSigResultChecked : Bool := %v", checked), err)
		emit("oracleSigResultDiscarded", fmt.Sprintf("/-- app/ante/cosmos/sigverify.go: SigVerificationDecorator.AnteHandle, oracle branch: `pubKey.VerifySignature(…)` stands as a statement of its own (its boolean result is dropped) -/\ndef oracleSigResultDiscarded : Bool := %v", discarded), err)
	}

	// ---- UpdateParams handlers
	{
		var ups [][2]string
		var uerr error
		for _, m := range [][3]string{
			{"oracle", "x/oracle/keeper/msg_server_update_params.go", "UpdateParams"}, {"dogfood", "x/dogfood/keeper/msg_server.go", "UpdateParams"},
			{"exomint", "x/exomint/keeper/msg_server.go", "UpdateParams"}, {"feedistribution", "x/feedistribution/keeper/msg_update_params.go", "UpdateParams"},
			{"assets", "x/assets/keeper/msg_server.go", "UpdateParams"},
		} {
			fset, f, err := xbParseGo(repo, m[1])
			if err != nil {
				uerr = err
				continue
			}
			fd := xbFindFunc(f, m[2], "")
			if fd == nil {
				uerr = fmt.Errorf("%s: UpdateParams not found", m[1])
				continue
			}
			cond := ""
			for _, st := range fd.Body.List {
				if ifs, ok := st.(*ast.IfStmt); ok {
					c := xbNodeText(fset, ifs.Cond)
					if strings.Contains(c, "uthority") {
						cond = c
						break
					}
				}
			}
			// normalise receiver / variable names
			for _, r := range [][2]string{{"ms.Keeper.authority", "K.authority"}, {"k.authority", "K.authority"}, {"msg.Authority", "M.Authority"}, {"req.Authority", "M.Authority"}, {"params.Authority", "M.Authority"}, {"c.ChainID()", "CTX.ChainID()"}, {"ctx.ChainID()", "CTX.ChainID()"}} {
				cond = strings.ReplaceAll(cond, r[0], r[1])
			}
			ups = append(ups, [2]string{m[0], cond})
		}
		emit("updateParamsAuthority", "/-- UpdateParams handlers: the condition under which the request is rejected as unauthorised -/\ndef updateParamsAuthority : List (String × String) := "+xbLeanPairList(ups, "str"), uerr)
	}
	// IsMainnet
	{
		fset, f, err := xbParseGo(repo, "utils/utils.go")
		body := ""
		mainnet := ""
		if err == nil {
			if fd := xbFindFunc(f, "IsMainnet", ""); fd != nil && len(fd.Body.List) == 1 {
				body = xbNodeText(fset, fd.Body.List[0])
			} else {
				err = fmt.Errorf("IsMainnet not found or not a single statement")
			}
			ast.Inspect(f, func(n ast.Node) bool {
				if vs, ok := n.(*ast.ValueSpec); ok && len(vs.Names) == 1 && vs.Names[0].Name == "MainnetChainID" && len(vs.Values) == 1 {
					mainnet = strings.Trim(xbNodeText(fset, vs.Values[0]), "\"")
				}
				return true
			})
		}
		emit("isMainnetBody", fmt.Sprintf("/-- utils/utils.go: IsMainnet -/\ndef isMainnetBody : String := %q\ndef mainnetChainIDPrefix : String := %q", body, mainnet), err)
	}
}
