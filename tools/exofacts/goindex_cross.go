package main

// Syntactic index of the repository's Go packages (go/ast only, no go/types: the module's
// dependencies need not be loadable) shared by facts_determinism.go (C08) and
// facts_liveness.go (C11): named types, struct fields, interface methods, function and method
// signatures, package-level variables, and a best-effort expression typer built on them.
// The typer answers "is this expression a Go map / a LegacyDec / an integer?" from the
// declarations visible in the repository; when it cannot tell it says so (kind "?"), and the
// fact generators list such operands separately instead of guessing.

import (
	"bytes"
	"go/ast"
	"go/parser"
	"go/printer"
	"go/token"
	"os"
	"path/filepath"
	"sort"
	"strconv"
	"strings"
)

const repoModule = "github.com/ExocoreNetwork/exocore/"

type xFile struct {
	Rel     string // repo-relative path
	Pkg     *xPkg
	AST     *ast.File
	Imports map[string]string // alias -> import path
}

type xPkg struct {
	Dir     string // repo-relative directory
	Name    string
	Files   []*xFile
	Types   map[string]*xTypeDecl
	Funcs   map[string]*xFunc            // package-level functions
	Methods map[string]map[string]*xFunc // receiver type name -> method name
	Vars    map[string]xType
}

type xTypeDecl struct {
	Expr ast.Expr
	File *xFile
}

type xFunc struct {
	Decl *ast.FuncDecl
	File *xFile
	Recv string // receiver type name ("" for functions)
}

func (f *xFunc) QName() string {
	if f.Recv != "" {
		return f.Recv + "." + f.Decl.Name.Name
	}
	return f.Decl.Name.Name
}

// xType is a type expression together with the file whose imports give meaning to its
// package qualifiers.
type xType struct {
	E ast.Expr
	F *xFile
}

type xIndex struct {
	Repo string
	Fset *token.FileSet
	Pkgs map[string]*xPkg // by repo-relative dir
}

var xIndexCache = map[string]*xIndex{}

// loadIndex parses every non-test Go file under the given top-level directories.
func loadIndex(repo string) (*xIndex, error) {
	if ix, ok := xIndexCache[repo]; ok {
		return ix, nil
	}
	ix := &xIndex{Repo: repo, Fset: token.NewFileSet(), Pkgs: map[string]*xPkg{}}
	for _, top := range []string{"x", "app", "precompiles", "utils", "types"} {
		root := filepath.Join(repo, top)
		err := filepath.Walk(root, func(p string, info os.FileInfo, err error) error {
			if err != nil {
				return nil
			}
			if info.IsDir() || !strings.HasSuffix(p, ".go") || strings.HasSuffix(p, "_test.go") {
				return nil
			}
			rel, _ := filepath.Rel(repo, p)
			f, perr := parser.ParseFile(ix.Fset, p, nil, parser.SkipObjectResolution)
			if perr != nil {
				return perr
			}
			// honour the one build constraint the repository uses for verification hooks: files that
			// start with `//go:build verif` are not part of the production binary
			if raw, rerr := os.ReadFile(p); rerr == nil {
				head := string(raw)
				if len(head) > 400 {
					head = head[:400]
				}
				if i := strings.Index(head, "\npackage "); i >= 0 {
					head = head[:i]
				}
				if strings.Contains(head, "//go:build verif") {
					return nil
				}
			}
			dir := filepath.Dir(rel)
			pk := ix.Pkgs[dir]
			if pk == nil {
				pk = &xPkg{Dir: dir, Name: f.Name.Name, Types: map[string]*xTypeDecl{}, Funcs: map[string]*xFunc{},
					Methods: map[string]map[string]*xFunc{}, Vars: map[string]xType{}}
				ix.Pkgs[dir] = pk
			}
			xf := &xFile{Rel: rel, Pkg: pk, AST: f, Imports: map[string]string{}}
			for _, im := range f.Imports {
				path, _ := strconv.Unquote(im.Path.Value)
				alias := filepath.Base(path)
				if im.Name != nil {
					alias = im.Name.Name
				} else if strings.HasPrefix(alias, "v") && len(alias) <= 3 { // …/v16 style
					alias = filepath.Base(filepath.Dir(path))
				}
				xf.Imports[alias] = path
			}
			pk.Files = append(pk.Files, xf)
			return nil
		})
		if err != nil {
			return nil, err
		}
	}
	for _, pk := range ix.Pkgs {
		sort.Slice(pk.Files, func(i, j int) bool { return pk.Files[i].Rel < pk.Files[j].Rel })
		for _, xf := range pk.Files {
			for _, d := range xf.AST.Decls {
				switch d := d.(type) {
				case *ast.GenDecl:
					for _, sp := range d.Specs {
						switch sp := sp.(type) {
						case *ast.TypeSpec:
							pk.Types[sp.Name.Name] = &xTypeDecl{Expr: sp.Type, File: xf}
						case *ast.ValueSpec:
							for i, n := range sp.Names {
								if sp.Type != nil {
									pk.Vars[n.Name] = xType{sp.Type, xf}
								} else if i < len(sp.Values) {
									if cl, ok := sp.Values[i].(*ast.CompositeLit); ok && cl.Type != nil {
										pk.Vars[n.Name] = xType{cl.Type, xf}
									} else if c, ok := sp.Values[i].(*ast.CallExpr); ok {
										if id, ok := c.Fun.(*ast.Ident); ok && id.Name == "make" && len(c.Args) > 0 {
											pk.Vars[n.Name] = xType{c.Args[0], xf}
										}
									}
								}
							}
						}
					}
				case *ast.FuncDecl:
					fn := &xFunc{Decl: d, File: xf}
					if d.Recv != nil && len(d.Recv.List) == 1 {
						fn.Recv = recvName(d.Recv.List[0].Type)
						if pk.Methods[fn.Recv] == nil {
							pk.Methods[fn.Recv] = map[string]*xFunc{}
						}
						pk.Methods[fn.Recv][d.Name.Name] = fn
					} else {
						pk.Funcs[d.Name.Name] = fn
					}
				}
			}
		}
	}
	xIndexCache[repo] = ix
	return ix, nil
}

func recvName(e ast.Expr) string {
	switch t := e.(type) {
	case *ast.StarExpr:
		return recvName(t.X)
	case *ast.Ident:
		return t.Name
	case *ast.IndexExpr:
		return recvName(t.X)
	}
	return "?"
}

func (ix *xIndex) pkgByImport(path string) *xPkg {
	if !strings.HasPrefix(path, repoModule) {
		return nil
	}
	return ix.Pkgs[strings.TrimPrefix(path, repoModule)]
}

func printerFprint(w interface{ Write([]byte) (int, error) }, n ast.Node) error {
	return printer.Fprint(w, token.NewFileSet(), n)
}

func srcText(e ast.Node) string {
	var b bytes.Buffer
	printer.Fprint(&b, token.NewFileSet(), e)
	s := b.String()
	s = strings.Join(strings.Fields(s), " ")
	if len(s) > 80 {
		s = s[:80] + "…"
	}
	return s
}

// ---- kinds

// external (non-repo) types whose kind matters for the facts
var externalKinds = map[string]string{
	"cosmossdk.io/math.LegacyDec":                     "dec",
	"cosmossdk.io/math.Int":                           "bigint",
	"cosmossdk.io/math.Uint":                          "bigint",
	"github.com/cosmos/cosmos-sdk/types.Dec":          "dec",
	"github.com/cosmos/cosmos-sdk/types.Int":          "bigint",
	"math/big.Int":                                    "bigint",
	"github.com/cosmos/cosmos-sdk/types.DecCoins":     "coins",
	"github.com/cosmos/cosmos-sdk/types.Coins":        "coins",
	"github.com/cosmos/cosmos-sdk/types.DecCoin":      "coins",
	"github.com/cosmos/cosmos-sdk/types.Coin":         "coins",
	"github.com/ethereum/go-ethereum/core/vm.PrecompiledContracts": "map",
	"github.com/cosmos/cosmos-sdk/types/module.VersionMap":         "map",
}

var intNames = map[string]bool{"int": true, "int8": true, "int16": true, "int32": true, "int64": true,
	"uint": true, "uint8": true, "uint16": true, "uint32": true, "uint64": true, "uintptr": true, "byte": true, "rune": true}

// kindOf classifies a type: map | slice | array | string | int | float | dec | bigint | struct |
// iface | func | chan | ptr(<kind>) is flattened to the pointee's kind | ext | ?
func (ix *xIndex) kindOf(t xType, depth int) string {
	if t.E == nil || depth > 12 {
		return "?"
	}
	switch e := t.E.(type) {
	case *ast.MapType:
		return "map"
	case *ast.ArrayType:
		if e.Len == nil {
			return "slice"
		}
		return "array"
	case *ast.StructType:
		return "struct"
	case *ast.InterfaceType:
		return "iface"
	case *ast.FuncType:
		return "func"
	case *ast.ChanType:
		return "chan"
	case *ast.StarExpr:
		return ix.kindOf(xType{e.X, t.F}, depth+1)
	case *ast.ParenExpr:
		return ix.kindOf(xType{e.X, t.F}, depth+1)
	case *ast.Ellipsis:
		return "slice"
	case *ast.Ident:
		if intNames[e.Name] {
			return "int"
		}
		switch e.Name {
		case "string":
			return "string"
		case "float32", "float64":
			return "float"
		case "bool", "error", "any":
			return "other"
		}
		if t.F != nil {
			if td := t.F.Pkg.Types[e.Name]; td != nil {
				return ix.kindOf(xType{td.Expr, td.File}, depth+1)
			}
		}
		return "?"
	case *ast.SelectorExpr:
		if id, ok := e.X.(*ast.Ident); ok && t.F != nil {
			path := t.F.Imports[id.Name]
			if pk := ix.pkgByImport(path); pk != nil {
				if td := pk.Types[e.Sel.Name]; td != nil {
					return ix.kindOf(xType{td.Expr, td.File}, depth+1)
				}
				return "?"
			}
			if k, ok := externalKinds[path+"."+e.Sel.Name]; ok {
				return k
			}
			if path == "time" && e.Sel.Name == "Duration" {
				return "int"
			}
			if path != "" {
				return "ext"
			}
		}
		return "?"
	case *ast.IndexExpr: // generic instantiation
		return ix.kindOf(xType{e.X, t.F}, depth+1)
	}
	return "?"
}

// resolve follows names and pointers down to a struct/interface/map/slice type expression.
func (ix *xIndex) resolve(t xType, depth int) (xType, string) {
	// returns the underlying type and, if it passed through a repo named type, "dir.Name" of the last one
	named := ""
	for depth < 12 {
		depth++
		switch e := t.E.(type) {
		case *ast.StarExpr:
			t = xType{e.X, t.F}
			continue
		case *ast.ParenExpr:
			t = xType{e.X, t.F}
			continue
		case *ast.IndexExpr:
			t = xType{e.X, t.F}
			continue
		case *ast.Ident:
			if t.F != nil {
				if td := t.F.Pkg.Types[e.Name]; td != nil {
					named = t.F.Pkg.Dir + "." + e.Name
					t = xType{td.Expr, td.File}
					continue
				}
			}
			return t, named
		case *ast.SelectorExpr:
			if id, ok := e.X.(*ast.Ident); ok && t.F != nil {
				if pk := ix.pkgByImport(t.F.Imports[id.Name]); pk != nil {
					if td := pk.Types[e.Sel.Name]; td != nil {
						named = pk.Dir + "." + e.Sel.Name
						t = xType{td.Expr, td.File}
						continue
					}
				}
			}
			return t, named
		}
		return t, named
	}
	return t, named
}

// namedOf gives (package, type name) of a possibly pointer-wrapped named repo type.
func (ix *xIndex) namedOf(t xType) (*xPkg, string) {
	for i := 0; i < 6; i++ {
		switch e := t.E.(type) {
		case *ast.StarExpr:
			t = xType{e.X, t.F}
		case *ast.ParenExpr:
			t = xType{e.X, t.F}
		case *ast.IndexExpr:
			t = xType{e.X, t.F}
		case *ast.Ident:
			if t.F != nil && t.F.Pkg.Types[e.Name] != nil {
				return t.F.Pkg, e.Name
			}
			return nil, ""
		case *ast.SelectorExpr:
			if id, ok := e.X.(*ast.Ident); ok && t.F != nil {
				if pk := ix.pkgByImport(t.F.Imports[id.Name]); pk != nil && pk.Types[e.Sel.Name] != nil {
					return pk, e.Sel.Name
				}
			}
			return nil, ""
		default:
			return nil, ""
		}
	}
	return nil, ""
}

// fieldOrMethod looks up x.sel on a value of type t: a struct field (also through embedded
// fields) or a method (concrete or interface); for a method the *ast.FuncType is returned.
func (ix *xIndex) fieldOrMethod(t xType, sel string, depth int) (xType, bool) {
	if depth > 6 || t.E == nil {
		return xType{}, false
	}
	// methods of the named type (value or pointer receiver)
	if pk, name := ix.namedOf(t); pk != nil {
		if m := pk.Methods[name][sel]; m != nil {
			return xType{m.Decl.Type, m.File}, true
		}
	}
	u, _ := ix.resolve(t, 0)
	switch e := u.E.(type) {
	case *ast.StructType:
		for _, f := range e.Fields.List {
			for _, n := range f.Names {
				if n.Name == sel {
					return xType{f.Type, u.F}, true
				}
			}
		}
		for _, f := range e.Fields.List { // embedded
			if len(f.Names) == 0 {
				if r, ok := ix.fieldOrMethod(xType{f.Type, u.F}, sel, depth+1); ok {
					return r, true
				}
			}
		}
	case *ast.InterfaceType:
		for _, f := range e.Methods.List {
			if len(f.Names) == 0 {
				if r, ok := ix.fieldOrMethod(xType{f.Type, u.F}, sel, depth+1); ok {
					return r, true
				}
				continue
			}
			for _, n := range f.Names {
				if n.Name == sel {
					return xType{f.Type, u.F}, true
				}
			}
		}
	}
	return xType{}, false
}

// ---- scopes and expression typing

type xScope struct {
	ix   *xIndex
	file *xFile
	vars map[string]xType
}

func (ix *xIndex) newScope(fn *xFunc) *xScope {
	s := &xScope{ix: ix, file: fn.File, vars: map[string]xType{}}
	s.addFields(fn.Decl.Recv)
	s.addFuncType(fn.Decl.Type)
	return s
}

func (s *xScope) addFields(fl *ast.FieldList) {
	if fl == nil {
		return
	}
	for _, f := range fl.List {
		for _, n := range f.Names {
			s.vars[n.Name] = xType{f.Type, s.file}
		}
	}
}

func (s *xScope) addFuncType(ft *ast.FuncType) {
	s.addFields(ft.Params)
	s.addFields(ft.Results)
}

func resultN(ft *ast.FuncType, i int) ast.Expr {
	if ft.Results == nil {
		return nil
	}
	k := 0
	for _, f := range ft.Results.List {
		n := len(f.Names)
		if n == 0 {
			n = 1
		}
		if i < k+n {
			return f.Type
		}
		k += n
	}
	return nil
}

// typeOfN types the i-th value of an expression (i>0 only for multi-value calls / comma-ok).
func (s *xScope) typeOfN(e ast.Expr, i int) xType {
	if c, ok := e.(*ast.CallExpr); ok {
		ft := s.calleeType(c)
		if ft.E != nil {
			if f, ok := ft.E.(*ast.FuncType); ok {
				return xType{resultN(f, i), ft.F}
			}
		}
		if i == 0 {
			return s.typeOf(e)
		}
		return xType{}
	}
	if i == 0 {
		return s.typeOf(e)
	}
	return xType{}
}

// calleeType returns the *ast.FuncType of the called function when it is declared in the repo.
func (s *xScope) calleeType(c *ast.CallExpr) xType {
	switch f := c.Fun.(type) {
	case *ast.Ident:
		if v, ok := s.vars[f.Name]; ok {
			u, _ := s.ix.resolve(v, 0)
			if _, ok := u.E.(*ast.FuncType); ok {
				return u
			}
			return xType{}
		}
		if fn := s.file.Pkg.Funcs[f.Name]; fn != nil {
			return xType{fn.Decl.Type, fn.File}
		}
	case *ast.SelectorExpr:
		if id, ok := f.X.(*ast.Ident); ok {
			if _, isVar := s.vars[id.Name]; !isVar {
				if path, ok := s.file.Imports[id.Name]; ok {
					if pk := s.ix.pkgByImport(path); pk != nil {
						if fn := pk.Funcs[f.Sel.Name]; fn != nil {
							return xType{fn.Decl.Type, fn.File}
						}
					}
					return xType{}
				}
			}
		}
		rt := s.typeOf(f.X)
		if rt.E != nil {
			if m, ok := s.ix.fieldOrMethod(rt, f.Sel.Name, 0); ok {
				u, _ := s.ix.resolve(m, 0)
				if _, ok := u.E.(*ast.FuncType); ok {
					return u
				}
			}
		}
	case *ast.ParenExpr:
		return s.calleeType(&ast.CallExpr{Fun: f.X, Args: c.Args})
	case *ast.FuncLit:
		return xType{f.Type, s.file}
	}
	return xType{}
}

func (s *xScope) isTypeExpr(e ast.Expr) bool {
	switch t := e.(type) {
	case *ast.ArrayType, *ast.MapType, *ast.FuncType, *ast.InterfaceType, *ast.StructType, *ast.ChanType:
		return true
	case *ast.Ident:
		if _, isVar := s.vars[t.Name]; isVar {
			return false
		}
		if intNames[t.Name] || t.Name == "string" || t.Name == "float64" || t.Name == "float32" || t.Name == "bool" {
			return true
		}
		return s.file.Pkg.Types[t.Name] != nil
	case *ast.SelectorExpr:
		if id, ok := t.X.(*ast.Ident); ok {
			if _, isVar := s.vars[id.Name]; isVar {
				return false
			}
			if path, ok := s.file.Imports[id.Name]; ok {
				if pk := s.ix.pkgByImport(path); pk != nil {
					return pk.Types[t.Sel.Name] != nil
				}
				_, known := externalKinds[path+"."+t.Sel.Name]
				return known
			}
		}
	case *ast.ParenExpr:
		return s.isTypeExpr(t.X)
	case *ast.StarExpr:
		return s.isTypeExpr(t.X)
	}
	return false
}

var intIdent = &ast.Ident{Name: "int"}
var stringIdent = &ast.Ident{Name: "string"}
var floatIdent = &ast.Ident{Name: "float64"}

func (s *xScope) typeOf(e ast.Expr) xType {
	switch t := e.(type) {
	case *ast.Ident:
		if v, ok := s.vars[t.Name]; ok {
			return v
		}
		if v, ok := s.file.Pkg.Vars[t.Name]; ok {
			return v
		}
	case *ast.BasicLit:
		switch t.Kind {
		case token.INT, token.CHAR:
			return xType{intIdent, s.file}
		case token.STRING:
			return xType{stringIdent, s.file}
		case token.FLOAT:
			return xType{floatIdent, s.file}
		}
	case *ast.ParenExpr:
		return s.typeOf(t.X)
	case *ast.StarExpr:
		pt := s.typeOf(t.X)
		if st, ok := pt.E.(*ast.StarExpr); ok {
			return xType{st.X, pt.F}
		}
		return pt
	case *ast.UnaryExpr:
		if t.Op == token.AND {
			in := s.typeOf(t.X)
			if in.E != nil {
				return xType{&ast.StarExpr{X: in.E}, in.F}
			}
			return in
		}
		if t.Op == token.ARROW {
			return xType{}
		}
		return s.typeOf(t.X)
	case *ast.BinaryExpr:
		switch t.Op {
		case token.EQL, token.NEQ, token.LSS, token.GTR, token.LEQ, token.GEQ, token.LAND, token.LOR:
			return xType{&ast.Ident{Name: "bool"}, s.file}
		}
		l := s.typeOf(t.X)
		if l.E != nil {
			if _, lit := t.X.(*ast.BasicLit); !lit {
				return l
			}
		}
		r := s.typeOf(t.Y)
		if r.E != nil {
			return r
		}
		return l
	case *ast.CompositeLit:
		if t.Type != nil {
			return xType{t.Type, s.file}
		}
	case *ast.TypeAssertExpr:
		if t.Type != nil {
			return xType{t.Type, s.file}
		}
	case *ast.SliceExpr:
		return s.typeOf(t.X)
	case *ast.IndexExpr:
		ct := s.typeOf(t.X)
		if ct.E == nil {
			return xType{}
		}
		u, _ := s.ix.resolve(ct, 0)
		switch c := u.E.(type) {
		case *ast.MapType:
			return xType{c.Value, u.F}
		case *ast.ArrayType:
			return xType{c.Elt, u.F}
		case *ast.Ident:
			if c.Name == "string" {
				return xType{&ast.Ident{Name: "byte"}, s.file}
			}
		}
	case *ast.SelectorExpr:
		if id, ok := t.X.(*ast.Ident); ok {
			if _, isVar := s.vars[id.Name]; !isVar {
				if _, isPkgVar := s.file.Pkg.Vars[id.Name]; !isPkgVar {
					if path, ok := s.file.Imports[id.Name]; ok {
						if pk := s.ix.pkgByImport(path); pk != nil {
							if v, ok := pk.Vars[t.Sel.Name]; ok {
								return v
							}
						}
						return xType{}
					}
				}
			}
		}
		rt := s.typeOf(t.X)
		if rt.E != nil {
			if m, ok := s.ix.fieldOrMethod(rt, t.Sel.Name, 0); ok {
				return m
			}
		}
	case *ast.CallExpr:
		// conversions and builtins
		if id, ok := t.Fun.(*ast.Ident); ok {
			switch id.Name {
			case "make", "new":
				if len(t.Args) > 0 {
					if id.Name == "new" {
						return xType{&ast.StarExpr{X: t.Args[0]}, s.file}
					}
					return xType{t.Args[0], s.file}
				}
			case "append":
				if len(t.Args) > 0 {
					return s.typeOf(t.Args[0])
				}
			case "len", "cap", "copy":
				return xType{intIdent, s.file}
			case "min", "max":
				if len(t.Args) > 0 {
					return s.typeOf(t.Args[0])
				}
			}
		}
		if len(t.Args) == 1 && s.isTypeExpr(t.Fun) {
			return xType{t.Fun, s.file}
		}
		ft := s.calleeType(t)
		if f, ok := ft.E.(*ast.FuncType); ok {
			return xType{resultN(f, 0), ft.F}
		}
		// well-known externals returning Dec / Int by method name on Dec / Int receivers
		if sel, ok := t.Fun.(*ast.SelectorExpr); ok {
			rk := s.kind(sel.X)
			if rk == "dec" || rk == "bigint" {
				switch sel.Sel.Name {
				case "Add", "Sub", "Mul", "Quo", "QuoInt", "QuoInt64", "MulInt", "MulInt64", "MulTruncate", "QuoTruncate", "QuoRoundUp", "Neg", "Abs", "QuoRaw", "MulRaw", "AddRaw", "SubRaw", "Mod", "ModRaw", "Power", "Ceil":
					return s.typeOf(sel.X)
				case "Int64", "Uint64", "TruncateInt64", "RoundInt64", "BitLen", "Sign", "Cmp":
					return xType{intIdent, s.file}
				}
			}
		}
	case *ast.FuncLit:
		return xType{t.Type, s.file}
	}
	return xType{}
}

func (s *xScope) kind(e ast.Expr) string {
	t := s.typeOf(e)
	if t.E == nil {
		// a few external constructors
		if c, ok := e.(*ast.CallExpr); ok {
			txt := exprText(c.Fun)
			switch {
			case strings.Contains(txt, "NewDec") || strings.HasSuffix(txt, "ZeroDec") || strings.HasSuffix(txt, "OneDec") || strings.Contains(txt, "MustNewDecFromStr"):
				return "dec"
			case strings.HasSuffix(txt, ".NewInt") || strings.HasSuffix(txt, ".ZeroInt") || strings.HasSuffix(txt, ".OneInt") || strings.Contains(txt, "NewIntFrom") || strings.Contains(txt, "NewIntWithDecimal") || strings.HasSuffix(txt, "big.NewInt"):
				return "bigint"
			case strings.HasSuffix(txt, ".TruncateInt") || strings.HasSuffix(txt, ".RoundInt") || strings.HasSuffix(txt, ".BigInt"):
				return "bigint"
			}
		}
		return "?"
	}
	return s.ix.kindOf(t, 0)
}

// bindAssign records the types of variables introduced by `lhs := rhs` / `var`.
func (s *xScope) bindAssign(lhs []ast.Expr, rhs []ast.Expr) {
	if len(rhs) == 1 && len(lhs) > 1 {
		for i, l := range lhs {
			if id, ok := l.(*ast.Ident); ok && id.Name != "_" {
				var t xType
				switch r := rhs[0].(type) {
				case *ast.CallExpr:
					t = s.typeOfN(r, i)
				case *ast.IndexExpr, *ast.TypeAssertExpr:
					if i == 0 {
						t = s.typeOf(r)
					} else {
						t = xType{&ast.Ident{Name: "bool"}, s.file}
					}
				}
				if t.E != nil {
					s.vars[id.Name] = t
				} else {
					delete(s.vars, id.Name)
				}
			}
		}
		return
	}
	for i, l := range lhs {
		if i >= len(rhs) {
			break
		}
		if id, ok := l.(*ast.Ident); ok && id.Name != "_" {
			t := s.typeOf(rhs[i])
			if t.E != nil {
				s.vars[id.Name] = t
			} else {
				delete(s.vars, id.Name)
			}
		}
	}
}

func (s *xScope) bindRange(r *ast.RangeStmt) {
	if r.Tok != token.DEFINE {
		return
	}
	ct := s.typeOf(r.X)
	var kt, vt xType
	if ct.E != nil {
		u, _ := s.ix.resolve(ct, 0)
		switch c := u.E.(type) {
		case *ast.MapType:
			kt, vt = xType{c.Key, u.F}, xType{c.Value, u.F}
		case *ast.ArrayType:
			kt, vt = xType{intIdent, s.file}, xType{c.Elt, u.F}
		case *ast.Ident:
			if c.Name == "string" {
				kt, vt = xType{intIdent, s.file}, xType{&ast.Ident{Name: "rune"}, s.file}
			} else if intNames[c.Name] {
				kt = xType{intIdent, s.file}
			}
		}
	}
	if id, ok := r.Key.(*ast.Ident); ok && id.Name != "_" {
		if kt.E != nil {
			s.vars[id.Name] = kt
		} else {
			delete(s.vars, id.Name)
		}
	}
	if id, ok := r.Value.(*ast.Ident); ok && id.Name != "_" {
		if vt.E != nil {
			s.vars[id.Name] = vt
		} else {
			delete(s.vars, id.Name)
		}
	}
}

// walkFunc visits every node of a function body in source order, keeping the scope's variable
// types up to date (flat scope: the latest textual definition wins — adequate for the facts).
func (ix *xIndex) walkFunc(fn *xFunc, visit func(s *xScope, n ast.Node, stack []ast.Node)) {
	if fn.Decl.Body == nil {
		return
	}
	s := ix.newScope(fn)
	var stack []ast.Node
	ast.Inspect(fn.Decl.Body, func(n ast.Node) bool {
		if n == nil {
			stack = stack[:len(stack)-1]
			return true
		}
		switch t := n.(type) {
		case *ast.AssignStmt:
			if t.Tok == token.DEFINE {
				s.bindAssign(t.Lhs, t.Rhs)
			}
		case *ast.DeclStmt:
			if gd, ok := t.Decl.(*ast.GenDecl); ok {
				for _, sp := range gd.Specs {
					if vs, ok := sp.(*ast.ValueSpec); ok {
						if vs.Type != nil {
							for _, nm := range vs.Names {
								s.vars[nm.Name] = xType{vs.Type, s.file}
							}
						} else {
							lhs := make([]ast.Expr, len(vs.Names))
							for i, nm := range vs.Names {
								lhs[i] = nm
							}
							s.bindAssign(lhs, vs.Values)
						}
					}
				}
			}
		case *ast.RangeStmt:
			s.bindRange(t)
		case *ast.FuncLit:
			s.addFuncType(t.Type)
		case *ast.TypeSwitchStmt:
			// `switch v := x.(type)`: v's type varies per clause; drop it
			if as, ok := t.Assign.(*ast.AssignStmt); ok && len(as.Lhs) == 1 {
				if id, ok := as.Lhs[0].(*ast.Ident); ok {
					delete(s.vars, id.Name)
				}
			}
		}
		visit(s, n, stack)
		stack = append(stack, n)
		return true
	})
}

// consensusFile says whether a repo-relative file belongs to the consensus-relevant code the
// C08/C11 facts range over: x/…, app/ante/…, precompiles/…; not tests, CLI, generated
// protobuf/gateway code, simulation, test utilities, or gRPC query servers.
func consensusFile(rel string) bool {
	if !(strings.HasPrefix(rel, "x/") || strings.HasPrefix(rel, "app/ante/") || strings.HasPrefix(rel, "precompiles/")) {
		return false
	}
	base := filepath.Base(rel)
	if strings.HasSuffix(base, "_test.go") || strings.HasSuffix(base, ".pb.go") || strings.HasSuffix(base, ".pb.gw.go") {
		return false
	}
	for _, part := range []string{"/client/", "/simulation/", "/testutil/", "/testdata/", "/mock"} {
		if strings.Contains(rel, part) {
			return false
		}
	}
	if strings.HasPrefix(rel, "precompiles/testutil/") {
		return false
	}
	if strings.HasPrefix(base, "grpc_query") || strings.HasPrefix(base, "query") || base == "querier.go" {
		return false
	}
	return true
}

func (ix *xIndex) sortedPkgs() []*xPkg {
	var ps []*xPkg
	for _, p := range ix.Pkgs {
		ps = append(ps, p)
	}
	sort.Slice(ps, func(i, j int) bool { return ps[i].Dir < ps[j].Dir })
	return ps
}

// allFuncs lists the package's functions and methods in a stable order.
func (p *xPkg) allFuncs() []*xFunc {
	var fs []*xFunc
	for _, f := range p.Funcs {
		fs = append(fs, f)
	}
	for _, ms := range p.Methods {
		for _, f := range ms {
			fs = append(fs, f)
		}
	}
	sort.Slice(fs, func(i, j int) bool {
		if fs[i].File.Rel != fs[j].File.Rel {
			return fs[i].File.Rel < fs[j].File.Rel
		}
		return fs[i].Decl.Pos() < fs[j].Decl.Pos()
	})
	return fs
}
