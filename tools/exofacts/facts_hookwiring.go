package main

// C16 (finding F-16b) — tie A for the WIRING of hooks in app/app.go: NewExocoreApp.
//
// Keepers are struct values. `(&app.X).SetHooks(h)` writes the hooks into the app's own field; every copy of the field
// made BEFORE that call (`f(…, app.X, …)` with a by-value parameter) keeps `hooks == nil` for ever, and `X.Hooks()` of
// such a copy is the no-op multi-hook: whatever the receiver does through its copy never reaches the subscribers.
// F-16b was exactly that: `evmkeeper.AvailablePrecompiles(…, app.DelegationKeeper, …)` ran before
// `(&app.DelegationKeeper).SetHooks(app.StakingKeeper.DelegationHooks())`, so delegations / undelegations through the
// gateway precompile never reached dogfood's AfterDelegation / AfterUndelegationStarted.
//
//	hooklessCopies        for every keeper field of ExocoreApp that has a SetHooks call in NewExocoreApp and is NOT a
//	                      pointer field: every place, in source order, where `app.X` itself (not `&app.X`) is handed
//	                      on before that call — as a call argument ("X -> pkg.Func"), as an element of a composite
//	                      literal ("X -> lit:T") or as the right-hand side of an assignment ("X -> assign:lhs").
//	                      Method calls `app.X.M(…)` are not copies of the field when M has a pointer receiver; the
//	                      ones before SetHooks are listed with the receiver kind when M has a VALUE receiver
//	                      ("X -> method:M (value receiver)"), since such a method sees a hookless copy as well.
//	hooklessCopyMethods   for each entry: the methods the receiver can call on its copy = the method set of the
//	                      parameter's interface type, read from the receiver's source (the repository, or the module
//	                      cache for dependencies: go.mod require/replace -> $GOMODCACHE). When the parameter is a concrete
//	                      type the whole keeper is reachable: "*concrete:<field>" + the methods the receiving package
//	                      calls through the struct field the constructor stores it in (hwConcreteUse), or ["*"] when
//	                      the parameter is handed on / not stored in a field; ["?…"] when it cannot be resolved.
//	hookTriggers          for each such keeper whose package is in the repository: the methods of the keeper type that
//	                      call `<recv>.Hooks().…` themselves or through other methods of the keeper (closure over
//	                      `<recv>.M(…)` calls inside the package).
//
// Props/C16WiringTie.lean pins hooklessCopies to the reviewed literal (an entry added = a proof obligation broken
// before any test runs), and proves that no method a hookless copy exposes is a hook trigger.

import (
	"fmt"
	"go/ast"
	"go/parser"
	"go/token"
	"os"
	"path/filepath"
	"sort"
	"strings"
)

func init() { factGens = append(factGens, genHookWiringFacts) }

type hwCopy struct {
	keeper, recv string
	call         *ast.CallExpr // nil for literals / assignments / methods
	argIdx       int
}

// hwGoMod: module path, require versions and replacements of repo/go.mod
type hwGoMod struct {
	module  string
	require map[string]string    // path -> version
	replace map[string][2]string // path -> (new path, version) ; version "" = local directory
}

func hwReadGoMod(repo string) (*hwGoMod, error) {
	bs, err := os.ReadFile(filepath.Join(repo, "go.mod"))
	if err != nil {
		return nil, err
	}
	m := &hwGoMod{require: map[string]string{}, replace: map[string][2]string{}}
	block := ""
	for _, ln := range strings.Split(string(bs), "\n") {
		if i := strings.Index(ln, "//"); i >= 0 {
			ln = ln[:i]
		}
		f := strings.Fields(ln)
		if len(f) == 0 {
			continue
		}
		switch {
		case f[0] == "module" && len(f) >= 2:
			m.module = f[1]
			continue
		case f[0] == ")":
			block = ""
			continue
		case (f[0] == "require" || f[0] == "replace") && len(f) == 2 && f[1] == "(":
			block = f[0]
			continue
		case f[0] == "require" || f[0] == "replace":
			block, f = f[0], f[1:]
			hwGoModLine(m, block, f)
			block = ""
			continue
		}
		if block != "" {
			hwGoModLine(m, block, f)
		}
	}
	if m.module == "" {
		return nil, fmt.Errorf("go.mod: no module line")
	}
	return m, nil
}

func hwGoModLine(m *hwGoMod, block string, f []string) {
	switch block {
	case "require":
		if len(f) >= 2 {
			m.require[f[0]] = f[1]
		}
	case "replace":
		// old [v] => new [v]
		for i, x := range f {
			if x == "=>" && i >= 1 && i+1 < len(f) {
				v := ""
				if i+2 < len(f) {
					v = f[i+2]
				}
				m.replace[f[0]] = [2]string{f[i+1], v}
			}
		}
	}
}

func hwEscape(p string) string {
	var b strings.Builder
	for _, r := range p {
		if r >= 'A' && r <= 'Z' {
			b.WriteByte('!')
			b.WriteRune(r + 'a' - 'A')
		} else {
			b.WriteRune(r)
		}
	}
	return b.String()
}

// dirOfImport: the directory holding the source of an import path ("" when it cannot be located)
func (m *hwGoMod) dirOfImport(repo, imp string) (dir string, inRepo bool) {
	if imp == m.module || strings.HasPrefix(imp, m.module+"/") {
		return filepath.Join(repo, strings.TrimPrefix(strings.TrimPrefix(imp, m.module), "/")), true
	}
	best := ""
	for p := range m.require {
		if (imp == p || strings.HasPrefix(imp, p+"/")) && len(p) > len(best) {
			best = p
		}
	}
	if best == "" {
		return "", false
	}
	rest := strings.TrimPrefix(imp, best)
	path, ver := best, m.require[best]
	if r, ok := m.replace[best]; ok {
		path, ver = r[0], r[1]
		if ver == "" { // local replacement
			if !filepath.IsAbs(path) {
				path = filepath.Join(repo, path)
			}
			return filepath.Join(path, rest), false
		}
	}
	cache := os.Getenv("GOMODCACHE")
	if cache == "" {
		gp := os.Getenv("GOPATH")
		if gp == "" {
			home, _ := os.UserHomeDir()
			gp = filepath.Join(home, "go")
		}
		cache = filepath.Join(strings.Split(gp, string(os.PathListSeparator))[0], "pkg", "mod")
	}
	d := filepath.Join(cache, hwEscape(path)+"@"+ver, rest)
	if st, err := os.Stat(d); err != nil || !st.IsDir() {
		return "", false
	}
	return d, false
}

type hwPkg struct {
	dir   string
	files []*ast.File
}

var hwPkgCache = map[string]*hwPkg{}

func hwLoadDir(dir string) *hwPkg {
	if p, ok := hwPkgCache[dir]; ok {
		return p
	}
	fset := token.NewFileSet()
	pkgs, err := parser.ParseDir(fset, dir, func(fi os.FileInfo) bool { return !strings.HasSuffix(fi.Name(), "_test.go") }, 0)
	p := &hwPkg{dir: dir}
	if err == nil {
		var names []string
		for n := range pkgs {
			names = append(names, n)
		}
		sort.Strings(names)
		for _, n := range names {
			if strings.HasSuffix(n, "_test") {
				continue
			}
			var fns []string
			for fn := range pkgs[n].Files {
				fns = append(fns, fn)
			}
			sort.Strings(fns)
			for _, fn := range fns {
				p.files = append(p.files, pkgs[n].Files[fn])
			}
		}
	}
	hwPkgCache[dir] = p
	return p
}

// importsOf: alias -> import path of one file (the alias of an unnamed import is the last path element, or the one
// before a /vN suffix)
func hwImportsOf(f *ast.File) map[string]string {
	m := map[string]string{}
	for _, im := range f.Imports {
		p := strings.Trim(im.Path.Value, "\"`")
		name := ""
		if im.Name != nil {
			name = im.Name.Name
		} else {
			parts := strings.Split(p, "/")
			name = parts[len(parts)-1]
			if len(parts) > 1 && len(name) >= 2 && name[0] == 'v' && strings.Trim(name[1:], "0123456789") == "" {
				name = parts[len(parts)-2]
			}
		}
		m[name] = p
	}
	return m
}

// hwFindFunc: a package-level function (no receiver) of a loaded package, with the file it is declared in
func (p *hwPkg) findFunc(name string) (*ast.FuncDecl, *ast.File) {
	for _, f := range p.files {
		for _, d := range f.Decls {
			if fd, ok := d.(*ast.FuncDecl); ok && fd.Recv == nil && fd.Name.Name == name {
				return fd, f
			}
		}
	}
	return nil, nil
}

func (p *hwPkg) findType(name string) (*ast.TypeSpec, *ast.File) {
	for _, f := range p.files {
		for _, d := range f.Decls {
			gd, ok := d.(*ast.GenDecl)
			if !ok || gd.Tok != token.TYPE {
				continue
			}
			for _, s := range gd.Specs {
				if ts := s.(*ast.TypeSpec); ts.Name.Name == name {
					return ts, f
				}
			}
		}
	}
	return nil, nil
}

// hwInterfaceMethods: method set of the type expression `t` written in file `f` of package `p` when it names an
// interface; ["*"] for a concrete named type, ["?…"] when unresolved
func hwInterfaceMethods(gm *hwGoMod, repo string, p *hwPkg, f *ast.File, t ast.Expr, depth int) []string {
	if depth > 6 {
		return []string{"?depth"}
	}
	var tp *hwPkg
	name := ""
	switch x := t.(type) {
	case *ast.Ident:
		tp, name = p, x.Name
	case *ast.SelectorExpr:
		alias := exprText(x.X)
		imp, ok := hwImportsOf(f)[alias]
		if !ok {
			return []string{"?import:" + alias}
		}
		dir, _ := gm.dirOfImport(repo, imp)
		if dir == "" {
			return []string{"?source:" + imp}
		}
		tp, name = hwLoadDir(dir), x.Sel.Name
	case *ast.StarExpr:
		return []string{"*"}
	case *ast.InterfaceType:
		return hwIfaceBody(gm, repo, p, f, x, depth)
	default:
		return []string{"?type:" + exprText(t)}
	}
	ts, tf := tp.findType(name)
	if ts == nil {
		return []string{"?type:" + exprText(t)}
	}
	switch u := ts.Type.(type) {
	case *ast.InterfaceType:
		return hwIfaceBody(gm, repo, tp, tf, u, depth)
	case *ast.Ident, *ast.SelectorExpr:
		if ts.Assign.IsValid() { // alias
			return hwInterfaceMethods(gm, repo, tp, tf, u, depth+1)
		}
	}
	return []string{"*"}
}

func hwIfaceBody(gm *hwGoMod, repo string, p *hwPkg, f *ast.File, it *ast.InterfaceType, depth int) []string {
	set := map[string]bool{}
	for _, m := range it.Methods.List {
		if len(m.Names) > 0 {
			for _, n := range m.Names {
				set[n.Name] = true
			}
			continue
		}
		for _, x := range hwInterfaceMethods(gm, repo, p, f, m.Type, depth+1) { // embedded
			set[x] = true
		}
	}
	var out []string
	for k := range set {
		out = append(out, k)
	}
	sort.Strings(out)
	return out
}

func hwParams(ft *ast.FuncType) (types []ast.Expr, names []string) {
	for _, fl := range ft.Params.List {
		if len(fl.Names) == 0 {
			types, names = append(types, fl.Type), append(names, "_")
			continue
		}
		for _, n := range fl.Names {
			types, names = append(types, fl.Type), append(names, n.Name)
		}
	}
	return
}

// hwConcreteUse: a parameter of concrete keeper type exposes the whole keeper; what the receiving package does with it is
// read from its source: the struct field(s) the constructor stores the parameter in (`T{…, field: param, …}`), and every
// method called through a selector ending in that field (`x.field.M(…)`) anywhere in the package. Result:
// "*concrete:<field>" followed by the methods; ["*"] when the parameter is not stored in a field (handed on, or used in
// a way this extractor does not follow).
func hwConcreteUse(p *hwPkg, fd *ast.FuncDecl, param string) []string {
	fields := map[string]bool{}
	if fd.Body != nil && param != "_" {
		ast.Inspect(fd.Body, func(n ast.Node) bool {
			cl, ok := n.(*ast.CompositeLit)
			if !ok {
				return true
			}
			for _, el := range cl.Elts {
				if kv, ok := el.(*ast.KeyValueExpr); ok {
					if id, ok := kv.Value.(*ast.Ident); ok && id.Name == param {
						fields[exprText(kv.Key)] = true
					}
				}
			}
			return true
		})
		// any other mention of the parameter (handed on to another call, assigned, …) is not followed
		other := false
		ast.Inspect(fd.Body, func(n ast.Node) bool {
			if kv, ok := n.(*ast.KeyValueExpr); ok {
				if id, ok := kv.Value.(*ast.Ident); ok && id.Name == param {
					return false
				}
			}
			if id, ok := n.(*ast.Ident); ok && id.Name == param {
				other = true
			}
			return true
		})
		if other {
			return []string{"*"}
		}
	}
	if len(fields) == 0 {
		return []string{"*"}
	}
	var fl []string
	for f := range fields {
		fl = append(fl, f)
	}
	sort.Strings(fl)
	set := map[string]bool{}
	for _, f := range p.files {
		ast.Inspect(f, func(n ast.Node) bool {
			c, ok := n.(*ast.CallExpr)
			if !ok {
				return true
			}
			sel, ok := c.Fun.(*ast.SelectorExpr)
			if !ok {
				return true
			}
			if in, ok := sel.X.(*ast.SelectorExpr); ok && fields[in.Sel.Name] {
				set[sel.Sel.Name] = true
			}
			return true
		})
	}
	var ms []string
	for m := range set {
		ms = append(ms, m)
	}
	sort.Strings(ms)
	return append([]string{"*concrete:" + strings.Join(fl, "+")}, ms...)
}

// hwTriggers: methods of the keeper type (receiver `Keeper` / `*Keeper`) of the package in dir that reach `.Hooks().`
func hwTriggers(dir string) []string {
	p := hwLoadDir(dir)
	calls := map[string]map[string]bool{}
	trig := map[string]bool{}
	for _, f := range p.files {
		for _, d := range f.Decls {
			fd, ok := d.(*ast.FuncDecl)
			if !ok || fd.Recv == nil || fd.Body == nil || len(fd.Recv.List) == 0 {
				continue
			}
			if strings.TrimPrefix(exprText(fd.Recv.List[0].Type), "*") != "Keeper" {
				continue
			}
			rn := ""
			if len(fd.Recv.List[0].Names) > 0 {
				rn = fd.Recv.List[0].Names[0].Name
			}
			name := fd.Name.Name
			if calls[name] == nil {
				calls[name] = map[string]bool{}
			}
			ast.Inspect(fd.Body, func(n ast.Node) bool {
				c, ok := n.(*ast.CallExpr)
				if !ok {
					return true
				}
				sel, ok := c.Fun.(*ast.SelectorExpr)
				if !ok {
					return true
				}
				// <recv>.Hooks().X(…)
				if inner, ok := sel.X.(*ast.CallExpr); ok {
					if is, ok := inner.Fun.(*ast.SelectorExpr); ok && is.Sel.Name == "Hooks" && exprText(is.X) == rn {
						trig[name] = true
					}
				}
				if id, ok := sel.X.(*ast.Ident); ok && id.Name == rn && rn != "" {
					calls[name][sel.Sel.Name] = true
				}
				return true
			})
		}
	}
	for changed := true; changed; {
		changed = false
		for m, cs := range calls {
			if trig[m] {
				continue
			}
			for c := range cs {
				if trig[c] {
					trig[m], changed = true, true
					break
				}
			}
		}
	}
	var out []string
	for m := range trig {
		out = append(out, m)
	}
	sort.Strings(out)
	return out
}

func genHookWiringFacts(repo string, emit func(name, leanDef string, err error)) {
	names := []string{"hooklessCopies", "hooklessCopyMethods", "hookTriggers"}
	fail := func(err error) {
		for _, n := range names {
			emit(n, "", err)
		}
	}
	fset := token.NewFileSet()
	app, err := parser.ParseFile(fset, filepath.Join(repo, "app/app.go"), nil, 0)
	if err != nil {
		fail(err)
		return
	}
	gm, err := hwReadGoMod(repo)
	if err != nil {
		fail(err)
		return
	}
	// fields of ExocoreApp
	fieldType := map[string]ast.Expr{}
	for _, d := range app.Decls {
		gd, ok := d.(*ast.GenDecl)
		if !ok || gd.Tok != token.TYPE {
			continue
		}
		for _, s := range gd.Specs {
			ts := s.(*ast.TypeSpec)
			st, ok := ts.Type.(*ast.StructType)
			if !ok || ts.Name.Name != "ExocoreApp" {
				continue
			}
			for _, fl := range st.Fields.List {
				for _, n := range fl.Names {
					fieldType[n.Name] = fl.Type
				}
			}
		}
	}
	var fn *ast.FuncDecl
	for _, d := range app.Decls {
		if fd, ok := d.(*ast.FuncDecl); ok && fd.Recv == nil && fd.Name.Name == "NewExocoreApp" {
			fn = fd
		}
	}
	if len(fieldType) == 0 || fn == nil || fn.Body == nil {
		fail(fmt.Errorf("app/app.go: struct ExocoreApp / func NewExocoreApp not found"))
		return
	}
	appField := func(e ast.Expr) string { // `app.X` -> X
		if se, ok := e.(*ast.SelectorExpr); ok {
			if id, ok := se.X.(*ast.Ident); ok && id.Name == "app" {
				if _, ok := fieldType[se.Sel.Name]; ok {
					return se.Sel.Name
				}
			}
		}
		return ""
	}
	// SetHooks calls: keeper -> position of the first one
	setHooks := map[string]token.Pos{}
	var hooked []string
	ast.Inspect(fn.Body, func(n ast.Node) bool {
		c, ok := n.(*ast.CallExpr)
		if !ok {
			return true
		}
		sel, ok := c.Fun.(*ast.SelectorExpr)
		if !ok || sel.Sel.Name != "SetHooks" {
			return true
		}
		x := sel.X
		if p, ok := x.(*ast.ParenExpr); ok {
			x = p.X
		}
		if u, ok := x.(*ast.UnaryExpr); ok && u.Op == token.AND {
			x = u.X
		}
		if k := appField(x); k != "" {
			if _, seen := setHooks[k]; !seen {
				setHooks[k] = c.Pos()
				hooked = append(hooked, k)
			}
		}
		return true
	})
	if len(hooked) == 0 {
		fail(fmt.Errorf("app/app.go: no SetHooks call found in NewExocoreApp"))
		return
	}
	byValue := func(k string) bool {
		_, ptr := fieldType[k].(*ast.StarExpr)
		return !ptr
	}
	early := func(e ast.Expr) string { // a hooked by-value keeper field mentioned before its SetHooks
		k := appField(e)
		if k == "" || !byValue(k) {
			return ""
		}
		if p, ok := setHooks[k]; !ok || e.Pos() >= p {
			return ""
		}
		return k
	}
	imports := hwImportsOf(app)
	var copies []hwCopy
	ast.Inspect(fn.Body, func(n ast.Node) bool {
		switch x := n.(type) {
		case *ast.CallExpr:
			for i, a := range x.Args {
				if k := early(a); k != "" {
					copies = append(copies, hwCopy{k, exprText(x.Fun), x, i})
				}
			}
			// app.X.M(…) with a value receiver
			if sel, ok := x.Fun.(*ast.SelectorExpr); ok && sel.Sel.Name != "SetHooks" {
				if k := early(sel.X); k != "" {
					if ts, ok := fieldType[k].(*ast.SelectorExpr); ok {
						if dir, _ := gm.dirOfImport(repo, imports[exprText(ts.X)]); dir != "" {
							for _, f := range hwLoadDir(dir).files {
								for _, d := range f.Decls {
									fd, ok := d.(*ast.FuncDecl)
									if ok && fd.Recv != nil && fd.Name.Name == sel.Sel.Name && len(fd.Recv.List) > 0 &&
										exprText(fd.Recv.List[0].Type) == ts.Sel.Name {
										copies = append(copies, hwCopy{k, "method:" + sel.Sel.Name + " (value receiver)", nil, 0})
									}
								}
							}
						}
					}
				}
			}
		case *ast.CompositeLit:
			for _, el := range x.Elts {
				v := el
				if kv, ok := el.(*ast.KeyValueExpr); ok {
					v = kv.Value
				}
				if k := early(v); k != "" {
					copies = append(copies, hwCopy{k, "lit:" + exprText(x.Type), nil, 0})
				}
			}
		case *ast.AssignStmt:
			for i, r := range x.Rhs {
				if k := early(r); k != "" {
					lhs := "?"
					if i < len(x.Lhs) {
						lhs = exprText(x.Lhs[i])
					}
					copies = append(copies, hwCopy{k, "assign:" + lhs, nil, 0})
				}
			}
		}
		return true
	})
	var list []string
	var methodRows [][2]interface{}
	for _, c := range copies {
		key := c.keeper + " -> " + c.recv
		list = append(list, key)
		ms := []string{"*"}
		if c.call != nil {
			ms = []string{"?receiver:" + c.recv}
			if sel, ok := c.call.Fun.(*ast.SelectorExpr); ok {
				if imp, ok := imports[exprText(sel.X)]; ok {
					if dir, _ := gm.dirOfImport(repo, imp); dir != "" {
						p := hwLoadDir(dir)
						if fd, ff := p.findFunc(sel.Sel.Name); fd != nil {
							ps, pn := hwParams(fd.Type)
							if c.argIdx < len(ps) {
								ms = hwInterfaceMethods(gm, repo, p, ff, ps[c.argIdx], 0)
								if len(ms) == 1 && ms[0] == "*" {
									ms = hwConcreteUse(p, fd, pn[c.argIdx])
								}
							}
						}
					} else {
						ms = []string{"?source:" + imp}
					}
				}
			}
		}
		methodRows = append(methodRows, [2]interface{}{key, ms})
	}
	var trigRows [][2]interface{}
	for _, k := range hooked {
		if !byValue(k) {
			continue
		}
		ts, ok := fieldType[k].(*ast.SelectorExpr)
		if !ok {
			continue
		}
		dir, inRepo := gm.dirOfImport(repo, imports[exprText(ts.X)])
		if dir == "" || !inRepo {
			continue
		}
		trigRows = append(trigRows, [2]interface{}{k, hwTriggers(dir)})
	}
	emit("hooklessCopies", "/-- app/app.go: NewExocoreApp — for every by-value keeper field with a SetHooks call: the places where `app.X` "+
		"itself (not `&app.X`) is handed on BEFORE that call, in source order (`X -> receiving call`); the receiver's copy has no hooks -/\n"+
		"def hooklessCopies : List String := "+leanStrList(list), nil)
	emit("hooklessCopyMethods", "/-- per entry of hooklessCopies: the methods the receiver can call on its copy (method set of the parameter's "+
		"interface type, read from the receiver's source; [\"*\"] = concrete type, the whole keeper) -/\n"+
		"def hooklessCopyMethods : List (String × List String) := "+leanStrListPairs(methodRows), nil)
	emit("hookTriggers", "/-- per hooked keeper (package in the repository): the methods of the keeper that call `.Hooks().…` themselves or "+
		"through other methods of the keeper -/\ndef hookTriggers : List (String × List String) := "+leanStrListPairs(trigRows), nil)
}
