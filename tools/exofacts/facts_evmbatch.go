package main

// Facts for the batch part of C19 (Model/EvmBatch.lean):
//   evmCreateNonceStmts    the statements of the `if contractCreation { … }` branch of ApplyMessageWithConfig
//                          (x/evm/keeper/state_transition.go): the nonce writes around evm.Create
//   evmResetGasMeterStmts  the body of ResetGasMeterAndConsumeGas (x/evm/keeper/gas.go)
//   evmSeqIncrementStmts   EthIncrementSenderSequenceDecorator (app/ante/evm/eth.go): the nonce comparison that rejects
//                          and the argument of acc.SetSequence, inside the loop over the messages

import (
	"fmt"
	"go/ast"
	"go/parser"
	"go/token"
)

func evmBatchGen(repo string, emit func(name, leanDef string, err error)) {
	fset := token.NewFileSet()
	stmts := func(l []ast.Stmt) []string {
		var out []string
		for _, s := range l {
			out = append(out, nodeText(fset, s))
		}
		return out
	}
	// ---- creation branch
	if f, err := parser.ParseFile(fset, repo+"/x/evm/keeper/state_transition.go", nil, 0); err != nil {
		emit("evmCreateNonceStmts", "", err)
	} else {
		var body []string
		if fd := findFunc(f, "Keeper.ApplyMessageWithConfig"); fd != nil {
			ast.Inspect(fd.Body, func(n ast.Node) bool {
				is, ok := n.(*ast.IfStmt)
				if ok && body == nil && nodeText(fset, is.Cond) == "contractCreation" {
					body = stmts(is.Body.List)
					return false
				}
				return true
			})
		}
		if body == nil {
			emit("evmCreateNonceStmts", "", fmt.Errorf("`if contractCreation` not found in ApplyMessageWithConfig"))
		} else {
			emit("evmCreateNonceStmts", "/-- ApplyMessageWithConfig: the contract-creation branch -/\ndef evmCreateNonceStmts : List String := "+leanStrList(body), nil)
		}
	}
	// ---- ResetGasMeterAndConsumeGas
	if f, err := parser.ParseFile(fset, repo+"/x/evm/keeper/gas.go", nil, 0); err != nil {
		emit("evmResetGasMeterStmts", "", err)
	} else if fd := findFunc(f, "Keeper.ResetGasMeterAndConsumeGas"); fd == nil {
		emit("evmResetGasMeterStmts", "", fmt.Errorf("ResetGasMeterAndConsumeGas not found"))
	} else {
		emit("evmResetGasMeterStmts", "/-- x/evm/keeper/gas.go: body of ResetGasMeterAndConsumeGas -/\ndef evmResetGasMeterStmts : List String := "+leanStrList(stmts(fd.Body.List)), nil)
	}
	// ---- sequence decorator
	if f, err := parser.ParseFile(fset, repo+"/app/ante/evm/eth.go", nil, 0); err != nil {
		emit("evmSeqIncrementStmts", "", err)
	} else {
		var out []string
		if fd := findFunc(f, "EthIncrementSenderSequenceDecorator.AnteHandle"); fd != nil {
			for _, st := range fd.Body.List {
				rs, ok := st.(*ast.RangeStmt)
				if !ok || nodeText(fset, rs.X) != "tx.GetMsgs()" {
					continue
				}
				out = append(out, "for range tx.GetMsgs()")
				for _, s := range rs.Body.List {
					switch t := s.(type) {
					case *ast.AssignStmt:
						if len(t.Lhs) == 1 && nodeText(fset, t.Lhs[0]) == "nonce" {
							out = append(out, nodeText(fset, t))
						}
					case *ast.IfStmt:
						if t.Init == nil && len(t.Body.List) == 1 {
							if _, isRet := t.Body.List[0].(*ast.ReturnStmt); isRet {
								out = append(out, "reject if "+nodeText(fset, t.Cond))
							}
						} else if t.Init != nil {
							out = append(out, nodeText(fset, t.Init))
						}
					case *ast.ExprStmt:
						out = append(out, nodeText(fset, t))
					}
				}
			}
		}
		if out == nil {
			emit("evmSeqIncrementStmts", "", fmt.Errorf("loop over tx.GetMsgs() not found in EthIncrementSenderSequenceDecorator.AnteHandle"))
		} else {
			emit("evmSeqIncrementStmts", "/-- app/ante/evm/eth.go EthIncrementSenderSequenceDecorator: per message -/\ndef evmSeqIncrementStmts : List String := "+leanStrList(out), nil)
		}
	}
}

func init() { factGens = append(factGens, evmBatchGen) }
