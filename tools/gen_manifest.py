#!/usr/bin/env python3
"""Writes MANIFEST.json from registry/*.json (one file per claimed property) so that the
manifest always matches what ./check can run. Properties without a registry file are listed
under not_applicable with the reason given in registry/_unclaimed.json."""
import json, os, glob
V = os.path.dirname(os.path.dirname(os.path.abspath(__file__)))
props = [json.loads(l)["id"] for l in open(os.path.join(V, "properties.jsonl"))]
unclaimed = json.load(open(os.path.join(V, "registry", "_unclaimed.json")))
checks, na = [], []
for pid in props:
    p = os.path.join(V, "registry", pid + ".json")
    if not os.path.exists(p):
        na.append({"property_id": pid, "reason": unclaimed.get(pid, "check not built yet (work in progress; see DESIGN.md §2)")})
        continue
    r = json.load(open(p))
    checks.append({
        "property_id": pid,
        "quick_cmd": "./check %s --tier quick" % pid,
        "thorough_cmd": "./check %s --tier thorough" % pid,
        "evidence_file": "/verif/evidence/%s.json" % pid,
        "replay_cmd_template": "./check %s --replay {path}" % pid,
        "engine": "lean4-proof+correspondence",
        "level_claimed": {"category": r.get("level", "proof"), "text": r["level_text"], "design_ref": r.get("design_ref", "DESIGN.md §2 " + pid)},
        "level_note": r["level_note"],
        "technique": r["technique"],
    })
m = {
    "version": 1,
    "setup_cmd": "./setup.sh",
    "hooks": {
        "guard": "verif",
        "enable": "go build -tags verif (harness/ is a separate module with `replace github.com/ExocoreNetwork/exocore => /repo`; built by ./check from /repo's working tree)",
        "baseline_off_cmd": "cd /repo && go test -mod=mod -json -vet=off -count=1 -timeout 25m ./...",
        "source_commits": json.load(open(os.path.join(V, "registry", "_hooks.json")))["source_commits"],
        "add_only": True,
    },
    "engines": [{
        "name": "lean4-proof+correspondence", "path": "/verif/check",
        "serves_properties": [c["property_id"] for c in checks],
        "kind_free_text": "Lean 4 theorems over an executable model (lean/ExoVerif), model tied to /repo by (a) kernels and facts regenerated from the Go source on every run (tools/exofacts) and (b) a differential run of the compiled model driver against the real application (harness/), with property monitors on the real state as the failing-input search",
    }],
    "checks": checks,
    "not_applicable": na,
    "notes": "See DESIGN.md. known_findings.json lists genuine defects recorded rather than repaired. Every check rebuilds from /repo's working tree (fingerprinted) and rewrites evidence/<id>.json.",
}
json.dump(m, open(os.path.join(V, "MANIFEST.json"), "w"), indent=1)
print("MANIFEST.json: %d checks, %d not_applicable" % (len(checks), len(na)))
