#!/usr/bin/env python3
"""Dev helper: prints `theorem <prefix>tie_<shape> : Gen.<shape> = [literal] := rfl` for the shape
facts currently in lean/ExoVerif/Generated/Facts.lean (run after an *intended* change of the Go
functions, then re-read the model against the new shape and paste the literals into Props/CnnTie.lean).
usage: mk_shape_tie.py C17_ shapeAllocateTokens shapeMintAfterEpochEnd ..."""
import re, sys, os
facts = open(os.path.join(os.path.dirname(__file__), "..", "lean", "ExoVerif", "Generated", "Facts.lean")).read()
prefix = sys.argv[1]
for name in sys.argv[2:]:
    m = re.search(r"^def %s : (List String|String) := (.*)$" % re.escape(name), facts, re.M)
    if not m:
        sys.exit("fact %s not found" % name)
    ty, lit = m.group(1), m.group(2)
    if ty == "List String":
        items = re.findall(r'"(?:[^"\\]|\\.)*"', lit)
        body = "[\n    " + ",\n    ".join(items) + "]"
    else:
        body = lit
    print("theorem %stie_%s : %s =\n  %s := rfl\n" % (prefix, name, name, body))
