#!/usr/bin/env python3
"""Developer aid (not a registered check): mutation sweep.  Worker N takes single-site mutants of the anchored
Go files (tools/mutate, selection in /tmp/mutsel.json) one at a time from a shared queue, applies each in its own
workspace (/tmp/wk/N: copy of /verif + git worktree of /repo), runs the checks of the properties that anchor the
file, and — for mutants no check caught with a concrete input — the touched package's own tests (a mutant those
tests kill is not a realistic hidden change).  Results: /tmp/mut/results.jsonl.

usage: tools/mutsweep.py <N> [max]
"""
import fcntl, json, os, re, subprocess, sys, time

N = sys.argv[1]
MAX = int(sys.argv[2]) if len(sys.argv) > 2 else 10 ** 9
W = "/tmp/wk/%s" % N
OUT = "/tmp/mut"
os.makedirs(OUT, exist_ok=True)
GOENV = dict(os.environ, GOFLAGS="-mod=mod", GOPROXY="off", GOSUMDB="off", GOTOOLCHAIN="local")


def sh(cmd, cwd=None, env=None, timeout=None):
    try:
        p = subprocess.run(cmd, cwd=cwd, env=env, stdout=subprocess.PIPE, stderr=subprocess.STDOUT, timeout=timeout)
        return p.returncode, p.stdout.decode("utf-8", "replace")
    except subprocess.TimeoutExpired as e:
        return 124, (e.stdout or b"").decode("utf-8", "replace") + "\nTIMEOUT"


def next_mutant():
    with open(OUT + "/queue.lock", "w") as lk:
        fcntl.flock(lk, fcntl.LOCK_EX)
        sel = json.load(open("/tmp/mutsel.json"))
        pos = int(open(OUT + "/pos").read()) if os.path.exists(OUT + "/pos") else 0
        if pos >= len(sel):
            return None
        open(OUT + "/pos", "w").write(str(pos + 1))
        return sel[pos]


def reset():
    sh(["git", "-C", W + "/repo", "checkout", "-q", "--", "."])
    sh(["git", "-C", W + "/repo", "clean", "-fdq"])


def main():
    if not os.path.isdir(W + "/repo"):
        sh(["/verif/tools/mkwk.sh", N])
    done = 0
    while done < MAX:
        m = next_mutant()
        if m is None:
            break
        done += 1
        t0 = time.time()
        reset()
        res = dict(m, worker=N, checks={})
        rc, o = sh(["/tmp/mutate", "-apply", "-repo", W + "/repo", "-file", m["file"], "-off", str(m["off"]),
                    "-len", str(m["len"]), "-repl", m["repl"]])
        d = os.path.dirname(m["file"])
        rc, o = sh(["go", "build", "./" + d + "/"], cwd=W + "/repo", env=GOENV, timeout=900)
        if rc != 0:
            res["status"] = "stillborn"
        else:
            status = "survived"
            for p in m["props"]:
                rc, o = sh(["./check", p], cwd=W + "/verif", env=dict(os.environ, VERIF_REPO=W + "/repo"), timeout=1500)
                v = [l for l in o.split("\n") if l.startswith("VIOLATION")]
                sig = None
                if v:
                    mm = re.search(r"replay=(\S+)", v[0])
                    try:
                        r = json.load(open(mm.group(1)))
                        sig = r.get("sig") or (r.get("broken_obligations") or [[None]])[0][0]
                    except Exception:
                        pass
                concrete = bool(v) and not any("no-failing-input-found" in l for l in v)
                res["checks"][p] = dict(rc=rc, concrete=concrete, tie_only=bool(v) and not concrete, sig=sig)
                if rc not in (0, 1):
                    res["checks"][p]["tail"] = o[-600:]
                if concrete:
                    status = "caught"
                    break
                if v and status == "survived":
                    status = "tie-only"
            res["status"] = status
            if status != "caught":
                rc, o = sh(["go", "test", "-count=1", "-vet=off", "./" + d + "/..."], cwd=W + "/repo", env=GOENV, timeout=1500)
                res["own_tests"] = "pass" if rc == 0 else "fail"
                if rc != 0:
                    res["own_tests_tail"] = "\n".join([l for l in o.split("\n") if l.startswith(("--- FAIL", "FAIL", "panic"))][:6])
        res["secs"] = int(time.time() - t0)
        reset()
        with open(OUT + "/results.jsonl", "a") as f:
            f.write(json.dumps(res) + "\n")
    print("worker", N, "done", done)


main()
