#!/bin/bash
# usage: seedsweep.sh <workspace-number> <seed-id>...  : run each seed's own property check against the seed
# applied in an isolated workspace (/tmp/wk/N: copy of /verif + git worktree of /repo); results in /tmp/sweep/<id>.txt
N=$1; shift
/verif/tools/mkwk.sh $N >/dev/null
/verif/tools/refreshwk.sh $N >/dev/null
W=/tmp/wk/$N
mkdir -p /tmp/sweep
for id in "$@"; do
  p=${id%%-*}
  git -C $W/repo checkout -q -- . ; git -C $W/repo clean -fdq
  if ! git -C $W/repo apply /verif/seeded/$id/patch.diff; then echo "$id APPLY-FAILED" > /tmp/sweep/$id.txt; continue; fi
  ( cd $W/verif && VERIF_REPO=$W/repo ./check $p ${TIER:+--tier $TIER} > /tmp/sweep/$id.log 2>&1; rc=$?
    { echo "== $id check $p exit=$rc :: $(grep -E '^(VIOLATION|OK|KNOWN)' /tmp/sweep/$id.log | head -3 | tr '\n' ' ')"
      if [ $rc -eq 1 ]; then f=$(grep -o 'replay=[^ ]*' /tmp/sweep/$id.log | head -1 | cut -d= -f2); python3 -c "
import json,sys
r=json.load(open('$f')); print('   kind=',r.get('kind'),'sig=',r.get('sig'),'|',str(r.get('what'))[:200]); print('   sigs=',sorted(set(v['sig'] for v in r.get('all_violations',[])))[:10]); print('   broken=',[b[0] for b in r.get('broken_obligations',[])][:8])"; fi
    } > /tmp/sweep/$id.txt )
  git -C $W/repo checkout -q -- . ; git -C $W/repo clean -fdq
done
echo "workspace $N done"
