#!/usr/bin/env python3
"""store confirmed round-5 seeds from /tmp/seed5/<Cnn>/out as seeded/<Cnn>-g (patch.diff, demo, README, meta.json)"""
import json, os, shutil, sys, glob, re, subprocess
dest = {}
for l in open('/tmp/seed5/dests.txt'):
    a, b = l.split(); dest[a] = b
conf = {}
for f in glob.glob('/tmp/seed5/confirm*.txt'):
    for l in open(f):
        id, js = l.split(' ', 1); conf[id] = json.loads(js)
head = subprocess.run(['git', '-C', '/repo', 'rev-parse', '--short', 'HEAD'], stdout=subprocess.PIPE, text=True).stdout.strip()
for pid in sys.argv[1:]:
    o = '/tmp/seed5/%s/out' % pid; d = '/verif/seeded/%s-g' % pid
    os.makedirs(d, exist_ok=True)
    demos = [os.path.basename(x) for x in glob.glob(o + '/*_test.go')]
    for f in ['patch.diff', 'README.md'] + demos:
        shutil.copy2(os.path.join(o, f), d)
    rd = open(o + '/README.md').read()
    c = conf[pid]; c['go_build'] = 'ok' if 'error' not in c['go_build'].lower() else c['go_build']
    c['command'] = 'tools/seedconfirm5.sh: scratch worktree at base_commit; go build ./...; go test of the demo package without and with the patch; go test of the touched packages with the patch and without the demo'
    first = [x.strip() for x in rd.split('\n') if x.strip() and not x.startswith('#')]
    meta = dict(id=pid + '-g', property=pid, round=5, change=open('/tmp/seed5/%s/change.txt' % pid).read().strip(),
                description_file='README.md', demonstration=dict(files=demos, copy_to=dest[pid] + '/'), base_commit=head,
                confirmed_in_scratch_worktree=c,
                checks_run='seed applied in an isolated workspace (copy of /verif + git worktree of /repo): VERIF_REPO=<worktree> ./check %s (quick, seed 1); tools/seedsweep.sh' % pid,
                caught_by='(pending)')
    json.dump(meta, open(d + '/meta.json', 'w'), indent=1); open(d + '/meta.json', 'a').write('\n')
    print('stored', d)
