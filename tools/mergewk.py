#!/usr/bin/env python3
"""Lead's merge helper: bring files from a builder workspace (/tmp/wk/N/verif) into /verif.
usage: tools/mergewk.py <N> <base-commit> <relative-path>...
 * file absent in /verif, or /verif's copy identical to the base commit's -> copied
 * otherwise 3-way: *.json merged structurally (lists: union keeping order; dicts: recursive; strings changed
   on both sides: theirs' added suffix appended, else CONFLICT), other files by `git merge-file`.
Prints one line per file; exit 1 if any conflict needs a hand.
"""
import json, os, shutil, subprocess, sys

V = "/verif"


def base_of(commit, rel):
    p = subprocess.run(["git", "-C", V, "show", "%s:%s" % (commit, rel)], stdout=subprocess.PIPE, stderr=subprocess.DEVNULL)
    return p.stdout if p.returncode == 0 else None


conflicts = []


def mj(base, mine, theirs, path):
    if theirs == base or theirs == mine:
        return mine
    if mine == base:
        return theirs
    if isinstance(mine, dict) and isinstance(theirs, dict):
        b = base if isinstance(base, dict) else {}
        out = {}
        for k in list(mine.keys()) + [k for k in theirs if k not in mine]:
            if k in mine and k in theirs:
                out[k] = mj(b.get(k), mine[k], theirs[k], path + "/" + k)
            elif k in mine:
                out[k] = mine[k]
            else:
                out[k] = theirs[k]
        return out
    if isinstance(mine, list) and isinstance(theirs, list):
        b = base if isinstance(base, list) else []
        out = list(mine)
        for x in theirs:
            if x not in b and x not in out:
                out.append(x)
        return out
    if isinstance(mine, str) and isinstance(theirs, str) and isinstance(base, str):
        if theirs.startswith(base):
            return mine + theirs[len(base):]
        if mine.startswith(base):
            return theirs + mine[len(base):]
    conflicts.append(path)
    return mine


def main():
    n, commit, files = sys.argv[1], sys.argv[2], sys.argv[3:]
    W = "/tmp/wk/%s/verif" % n
    for rel in files:
        src, dst = os.path.join(W, rel), os.path.join(V, rel)
        if not os.path.exists(src):
            print("MISSING in workspace:", rel)
            conflicts.append(rel)
            continue
        theirs = open(src, "rb").read()
        base = base_of(commit, rel)
        if not os.path.exists(dst):
            os.makedirs(os.path.dirname(dst), exist_ok=True)
            shutil.copy2(src, dst)
            print("added   ", rel)
            continue
        mine = open(dst, "rb").read()
        if mine == theirs:
            print("same    ", rel)
        elif base is not None and mine == base:
            shutil.copy2(src, dst)
            print("copied  ", rel)
        elif base is not None and theirs == base:
            print("unchanged in workspace", rel)
        elif rel.endswith(".json"):
            before = len(conflicts)
            out = mj(json.loads(base) if base else None, json.loads(mine), json.loads(theirs), rel)
            open(dst, "w").write(json.dumps(out, indent=1, ensure_ascii=False) + "\n")
            print("merged  ", rel, "(json)", "CONFLICT" if len(conflicts) > before else "")
        else:
            bf = "/tmp/mergewk.base"
            open(bf, "wb").write(base or b"")
            rc = subprocess.run(["git", "merge-file", "-L", "mine", "-L", "base", "-L", "ws%s" % n, dst, bf, src]).returncode
            print("merged  ", rel, "(text)", "CONFLICT markers: %d" % rc if rc else "")
            if rc:
                conflicts.append(rel)
    if conflicts:
        print("CONFLICTS:", conflicts)
        sys.exit(1)


main()
