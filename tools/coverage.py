#!/usr/bin/env python3
"""Developer aid (not a registered check): which statements of the anchored Go files do the harness
domains execute?  Builds the harness with `go build -cover` over the repository's own packages, runs
every domain of every registry entry with its quick (or thorough) parameters, merges the counters and
prints, per property, the anchored files with their statement coverage and the uncovered blocks
(file:line ranges).  Generators are extended where reachable code of an anchor is never executed.

usage: tools/coverage.py [--tier quick|thorough] [--seed N] [--props C01,C02] [--out DIR]
"""
import json, os, re, subprocess, sys, shutil, collections

V = os.path.dirname(os.path.dirname(os.path.abspath(__file__)))
REPO = os.environ.get("VERIF_REPO", "/repo")
GOENV = dict(os.environ, GOFLAGS="-mod=mod", GOPROXY="off", GOSUMDB="off", GOTOOLCHAIN="local")
MOD = "github.com/ExocoreNetwork/exocore"


def sh(cmd, **kw):
    p = subprocess.run(cmd, stdout=subprocess.PIPE, stderr=subprocess.STDOUT, text=True, **kw)
    return p.returncode, p.stdout


def main():
    tier, seed, props, out = "quick", 1, None, "/tmp/verif-coverage"
    a = sys.argv[1:]
    i = 0
    while i < len(a):
        if a[i] == "--tier": tier = a[i + 1]; i += 2
        elif a[i] == "--seed": seed = int(a[i + 1]); i += 2
        elif a[i] == "--props": props = a[i + 1].split(","); i += 2
        elif a[i] == "--out": out = a[i + 1]; i += 2
        else: raise SystemExit(__doc__)
    shutil.rmtree(out, ignore_errors=True)
    os.makedirs(out + "/cov")
    H = os.path.join(V, "harness")
    rc, o = sh(["sh", os.path.join(H, "gen_gomod.sh")], env=dict(GOENV, VERIF_REPO=REPO))
    if rc: raise SystemExit(o)
    exe = out + "/exoharness-cover"
    pk = "./...," + ",".join(MOD + "/" + p for p in ("x/...", "precompiles/...", "app/ante/...", "utils/...", "types/..."))
    rc, o = sh(["go", "build", "-tags", "verif", "-cover", "-coverpkg=" + pk, "-o", exe, "."], cwd=H, env=GOENV)
    if rc: raise SystemExit(o[-4000:])
    regs = {}
    for f in sorted(os.listdir(os.path.join(V, "registry"))):
        if re.match(r"C\d\d\.json$", f):
            regs[f[:3]] = json.load(open(os.path.join(V, "registry", f)))
    done = set()
    for pid, reg in regs.items():
        if props and pid not in props: continue
        for run in reg.get("runs", []):
            args = dict(run.get("args", {})); args.update(run.get(tier, run.get("quick", {})))
            key = (run["domain"], tuple(sorted(args.items())))
            if key in done: continue
            done.add(key)
            wd = "%s/run-%s-%s" % (out, pid, run["domain"])
            os.makedirs(wd, exist_ok=True)
            cmd = [exe, run["domain"], "out=" + wd, "seed=%d" % seed] + ["%s=%s" % kv for kv in sorted(args.items())]
            rc, o = sh(cmd, env=dict(os.environ, GOCOVERDIR=out + "/cov", GOMEMLIMIT="12GiB"))
            print("[coverage] ran %s/%s rc=%d" % (pid, run["domain"], rc), flush=True)
    rc, o = sh(["go", "tool", "covdata", "textfmt", "-i=" + out + "/cov", "-o=" + out + "/cover.txt"], env=GOENV)
    if rc: raise SystemExit(o)
    # cover.txt: mode line, then "<import path>/file.go:l0.c0,l1.c1 nstmt count"
    blocks = collections.defaultdict(dict)
    for line in open(out + "/cover.txt"):
        m = re.match(r"(.+?):(\d+)\.(\d+),(\d+)\.(\d+) (\d+) (\d+)$", line.strip())
        if not m: continue
        f = m.group(1)
        if not f.startswith(MOD + "/"): continue
        f = f[len(MOD) + 1:]
        k = (int(m.group(2)), int(m.group(4)))
        n, c = int(m.group(6)), int(m.group(7))
        old = blocks[f].get(k, (n, 0))
        blocks[f][k] = (n, max(old[1], c))
    anchors = {}
    for l in open(os.path.join(V, "properties.jsonl")):
        p = json.loads(l)
        anchors[p["id"]] = p.get("anchors", {}).get("files", [])
    report = {}
    for pid in sorted(anchors):
        if props and pid not in props: continue
        print("== %s" % pid)
        report[pid] = {}
        for f in anchors[pid]:
            b = blocks.get(f)
            if b is None:
                print("   %-60s (not instrumented / no statements)" % f); continue
            tot = sum(n for n, _ in b.values()); cov = sum(n for n, c in b.values() if c > 0)
            unc = sorted(k for k, (n, c) in b.items() if c == 0 and n > 0)
            # merge adjacent uncovered ranges
            merged = []
            for lo, hi in unc:
                if merged and lo <= merged[-1][1] + 1: merged[-1][1] = max(merged[-1][1], hi)
                else: merged.append([lo, hi])
            report[pid][f] = {"statements": tot, "covered": cov, "uncovered_ranges": merged}
            print("   %-60s %4d/%4d  %5.1f%%  uncovered: %s" % (f, cov, tot, 100.0 * cov / max(tot, 1),
                  " ".join("%d-%d" % (lo, hi) for lo, hi in merged[:14]) + (" …" if len(merged) > 14 else "")))
    json.dump(report, open(out + "/coverage.json", "w"), indent=1)
    print("[coverage] details in %s/coverage.json, raw profile %s/cover.txt" % (out, out))


if __name__ == "__main__":
    main()
