#!/bin/sh
# usage: seedcheck.sh <patch> <Cnn> [<Cnn>...] : apply a seeded change to /repo, run the checks, undo it.
P=$1; shift
cd /verif
if ! git -C /repo diff --quiet; then echo "repo dirty"; exit 2; fi
git -C /repo apply "$P" || { echo "patch does not apply"; exit 2; }
for id in "$@"; do
  ./check $id > /tmp/seedcheck.$id.log 2>&1; rc=$?
  echo "== $(basename $(dirname $(dirname $P)))/$(basename $P) check $id exit=$rc :: $(grep -E '^(VIOLATION|OK)' /tmp/seedcheck.$id.log | head -2 | tr '\n' ' ')"
  if [ $rc -eq 1 ]; then f=$(grep -o 'replay=[^ ]*' /tmp/seedcheck.$id.log | head -1 | cut -d= -f2); python3 -c "
import json,sys
r=json.load(open('$f')); print('   kind=',r.get('kind'),'sig=',r.get('sig'),'|',str(r.get('what'))[:160]); print('   sigs=',sorted(set(v['sig'] for v in r.get('all_violations',[])))[:8]); print('   broken=',[b[0] for b in r.get('broken_obligations',[])][:6])"; fi
done
git -C /repo checkout -- .
git -C /verif checkout -- evidence 2>/dev/null
