#!/bin/bash
# usage: seedconfirm5.sh <scratch-worktree> <seed-out-dir> <demo-dest-dir> : confirm a seeded change in a scratch worktree:
# builds, demo passes without / fails with the patch, existing tests of the touched packages pass with it. Prints one JSON line.
export GOFLAGS="-mod=mod $EXTRA_GOFLAGS" GOPROXY=off GOSUMDB=off GOTOOLCHAIN=local
W=$1; O=$2; DEST=$3; RUN=${4:+-run $4}
cd $W; git checkout -q -- .; git clean -fdq
demos=$(ls $O/*_test.go 2>/dev/null)
for d in $demos; do cp $d $DEST/; done
r0=$(go test -vet=off -count=1 $RUN ./$DEST/ 2>&1 | grep -E "^(ok|FAIL|--- FAIL)" | head -5 | tr '\n' ' ')
if ! git apply $O/patch.diff; then echo "{\"apply\":\"FAILED\"}"; git checkout -q -- .; git clean -fdq; exit; fi
b=$(go build ./... 2>&1 | grep -v "^#" | head -3 | tr '\n' ' ')
r1=$(go test -vet=off -count=1 $RUN ./$DEST/ 2>&1 | grep -E "^(ok|FAIL|--- FAIL)" | head -5 | tr '\n' ' ')
for d in $demos; do rm $DEST/$(basename $d); done
pk=$( (git diff --name-only | xargs -n1 dirname; echo $DEST) | sort -u | sed 's|^|./|; s|$|/...|' | tr '\n' ' ')
r2=$(go test -vet=off -count=1 $pk 2>&1 | grep -E "^(ok|FAIL|--- FAIL)" | grep -v "no test files" | tr '\n' ' ')
git checkout -q -- .; git clean -fdq
python3 - "$b" "$r0" "$r1" "$r2" "$pk" <<'PY'
import json,sys
print(json.dumps(dict(go_build=sys.argv[1] or "ok",demo_without_patch=sys.argv[2],demo_with_patch=sys.argv[3],existing_tests_with_patch=sys.argv[4],existing_test_packages=sys.argv[5])))
PY
