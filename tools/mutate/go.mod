module mutate

go 1.21
