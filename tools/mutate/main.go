// mutate: a small go/ast mutant generator used to look for gaps in the checks (developer aid, not a
// registered check). It lists single-site mutants of a Go file as JSON lines and applies one by byte offsets.
//
//	mutate -list   -repo R -file x/foo/bar.go            -> one JSON object per mutant on stdout
//	mutate -apply  -repo R -file x/foo/bar.go -off N -len L -repl TEXT
package main

import (
	"encoding/json"
	"flag"
	"fmt"
	"go/ast"
	"go/parser"
	"go/token"
	"os"
	"path/filepath"
	"strings"
)

type Mutant struct {
	File string `json:"file"`
	Func string `json:"func"`
	Line int    `json:"line"`
	Kind string `json:"kind"`
	Off  int    `json:"off"`
	Len  int    `json:"len"`
	Orig string `json:"orig"`
	Repl string `json:"repl"`
}

var binSwap = map[token.Token]string{
	token.LSS: "<=", token.LEQ: "<", token.GTR: ">=", token.GEQ: ">", token.EQL: "!=", token.NEQ: "==",
	token.LAND: "||", token.LOR: "&&", token.ADD: "-", token.SUB: "+",
}

var methSwap = map[string]string{
	"GT": "GTE", "GTE": "GT", "LT": "LTE", "LTE": "LT", "Add": "Sub", "Sub": "Add",
	"Quo": "QuoTruncate", "QuoTruncate": "Quo", "Mul": "MulTruncate", "MulTruncate": "Mul",
	"TruncateInt": "RoundInt", "RoundInt": "TruncateInt", "After": "Before", "Before": "After",
	"MinInt": "MaxInt", "MaxInt": "MinInt", "MinDec": "MaxDec", "MaxDec": "MinDec",
}

var predNeg = map[string]string{"IsPositive": "IsNegative", "IsNegative": "IsPositive", "IsZero": "IsPositive"}

func isErrCheck(e ast.Expr) bool {
	b, ok := e.(*ast.BinaryExpr)
	if !ok {
		return false
	}
	x, ok1 := b.X.(*ast.Ident)
	y, ok2 := b.Y.(*ast.Ident)
	return ok1 && ok2 && strings.HasPrefix(strings.ToLower(x.Name), "err") && y.Name == "nil"
}

func skipCall(src string) bool {
	for _, s := range []string{"Logger", ".Error(", ".Info(", ".Debug(", "EmitEvent", "EmitTypedEvent", "telemetry", "fmt.", "errorsmod.", "Wrap(", "Wrapf(", "panic("} {
		if strings.Contains(src, s) {
			return true
		}
	}
	return false
}

func main() {
	list := flag.Bool("list", false, "")
	apply := flag.Bool("apply", false, "")
	repo := flag.String("repo", "/repo", "")
	file := flag.String("file", "", "")
	off := flag.Int("off", 0, "")
	ln := flag.Int("len", 0, "")
	repl := flag.String("repl", "", "")
	flag.Parse()
	path := filepath.Join(*repo, *file)
	src, err := os.ReadFile(path)
	if err != nil {
		fmt.Fprintln(os.Stderr, err)
		os.Exit(2)
	}
	if *apply {
		out := append([]byte{}, src[:*off]...)
		out = append(out, []byte(*repl)...)
		out = append(out, src[*off+*ln:]...)
		if err := os.WriteFile(path, out, 0o644); err != nil {
			fmt.Fprintln(os.Stderr, err)
			os.Exit(2)
		}
		return
	}
	if !*list {
		flag.Usage()
		os.Exit(2)
	}
	fset := token.NewFileSet()
	f, err := parser.ParseFile(fset, path, src, 0)
	if err != nil {
		fmt.Fprintln(os.Stderr, err)
		os.Exit(2)
	}
	enc := json.NewEncoder(os.Stdout)
	text := func(a, b token.Pos) string { return string(src[fset.Position(a).Offset:fset.Position(b).Offset]) }
	emit := func(fn, kind string, a, b token.Pos, r string) {
		o := fset.Position(a).Offset
		enc.Encode(Mutant{File: *file, Func: fn, Line: fset.Position(a).Line, Kind: kind, Off: o,
			Len: fset.Position(b).Offset - o, Orig: text(a, b), Repl: r})
	}
	for _, d := range f.Decls {
		fd, ok := d.(*ast.FuncDecl)
		if !ok || fd.Body == nil {
			continue
		}
		name := fd.Name.Name
		if name == "String" || strings.HasPrefix(name, "New") && strings.HasSuffix(name, "Cmd") {
			continue
		}
		var walk func(n ast.Node, inErr bool)
		walkList := func(l []ast.Stmt, inErr bool) {
			for _, s := range l {
				walk(s, inErr)
			}
		}
		walk = func(n ast.Node, inErr bool) {
			if n == nil {
				return
			}
			switch x := n.(type) {
			case *ast.BlockStmt:
				walkList(x.List, inErr)
				return
			case *ast.IfStmt:
				if x.Init != nil {
					walk(x.Init, inErr)
				}
				errc := isErrCheck(x.Cond)
				if !errc && !inErr {
					emit(name, "negate-if", x.Cond.Pos(), x.Cond.End(), "!("+text(x.Cond.Pos(), x.Cond.End())+")")
					walk(x.Cond, inErr)
				}
				walk(x.Body, inErr || errc)
				if x.Else != nil {
					walk(x.Else, inErr)
				}
				return
			case *ast.ForStmt:
				if x.Cond != nil {
					walk(x.Cond, inErr)
				}
				walk(x.Body, inErr)
				return
			case *ast.RangeStmt:
				walk(x.Body, inErr)
				return
			case *ast.SwitchStmt:
				walk(x.Body, inErr)
				return
			case *ast.TypeSwitchStmt:
				walk(x.Body, inErr)
				return
			case *ast.CaseClause:
				walkList(x.Body, inErr)
				return
			case *ast.BranchStmt:
				if inErr {
					return
				}
				if x.Tok == token.CONTINUE && x.Label == nil {
					emit(name, "continue->break", x.Pos(), x.End(), "break")
				} else if x.Tok == token.BREAK && x.Label == nil {
					emit(name, "break->continue", x.Pos(), x.End(), "continue")
				}
				return
			case *ast.ExprStmt:
				if inErr {
					return
				}
				s := text(x.Pos(), x.End())
				if _, ok := x.X.(*ast.CallExpr); ok && !skipCall(s) {
					emit(name, "del-call", x.Pos(), x.End(), "")
				}
				walk(x.X, inErr)
				return
			case *ast.AssignStmt:
				if inErr {
					return
				}
				s := text(x.Pos(), x.End())
				if (x.Tok == token.ASSIGN || x.Tok == token.ADD_ASSIGN || x.Tok == token.SUB_ASSIGN) && !skipCall(s) && !strings.Contains(s, "err") {
					emit(name, "del-assign", x.Pos(), x.End(), "")
				}
				for _, r := range x.Rhs {
					walk(r, inErr)
				}
				return
			case *ast.IncDecStmt:
				if !inErr {
					emit(name, "del-incdec", x.Pos(), x.End(), "")
				}
				return
			case *ast.ReturnStmt:
				for _, r := range x.Results {
					walk(r, inErr)
				}
				return
			case *ast.DeferStmt:
				if !inErr {
					walk(x.Call, inErr)
				}
				return
			case *ast.DeclStmt, *ast.GoStmt:
				return
			case *ast.BinaryExpr:
				if inErr {
					return
				}
				if r, ok := binSwap[x.Op]; ok && !isErrCheck(x) {
					if !(x.Op == token.ADD && (isStr(x.X) || isStr(x.Y))) {
						emit(name, "binop", x.OpPos, x.OpPos+token.Pos(len(x.Op.String())), r)
					}
				}
				walk(x.X, inErr)
				walk(x.Y, inErr)
				return
			case *ast.UnaryExpr:
				if x.Op == token.NOT && !inErr {
					emit(name, "drop-not", x.Pos(), x.X.Pos(), "")
				}
				walk(x.X, inErr)
				return
			case *ast.ParenExpr:
				walk(x.X, inErr)
				return
			case *ast.CallExpr:
				if inErr {
					return
				}
				s := text(x.Pos(), x.End())
				if skipCall(s) && len(s) < 200 {
					return
				}
				if sel, ok := x.Fun.(*ast.SelectorExpr); ok {
					if r, ok := methSwap[sel.Sel.Name]; ok {
						emit(name, "method", sel.Sel.Pos(), sel.Sel.End(), r)
					}
					if r, ok := predNeg[sel.Sel.Name]; ok && len(x.Args) == 0 {
						emit(name, "pred", x.Pos(), x.End(), "!"+text(x.Pos(), sel.Sel.Pos())+r+"()")
					}
					walk(sel.X, inErr)
				}
				for _, a := range x.Args {
					walk(a, inErr)
				}
				return
			case *ast.FuncLit:
				walk(x.Body, inErr)
				return
			case *ast.CompositeLit:
				for _, e := range x.Elts {
					walk(e, inErr)
				}
				return
			case *ast.KeyValueExpr:
				walk(x.Value, inErr)
				return
			case *ast.SelectorExpr:
				walk(x.X, inErr)
				return
			case *ast.IndexExpr:
				walk(x.X, inErr)
				walk(x.Index, inErr)
				return
			case *ast.StarExpr:
				walk(x.X, inErr)
				return
			case *ast.BasicLit:
				if x.Kind == token.INT && !inErr {
					switch x.Value {
					case "0":
						emit(name, "lit", x.Pos(), x.End(), "1")
					case "1":
						emit(name, "lit", x.Pos(), x.End(), "2")
					}
				}
				return
			}
		}
		walk(fd.Body, false)
	}
}

func isStr(e ast.Expr) bool {
	b, ok := e.(*ast.BasicLit)
	return ok && b.Kind == token.STRING
}
