#!/bin/bash
# usage: seedconfirm6.sh <Cnn> <demo-dest-dir> "<one-line change summary>" [<go test -run pattern>]
# Round 7: confirms the seeded change the agent left in /tmp/seed7/<Cnn>/_seed (patch.diff, *_test.go, README.md) in that
# scratch worktree (builds; demo passes without / fails with the patch; existing tests of the touched packages pass with it)
# and, when confirmed, stores it as /verif/seeded/<Cnn>-i/ with meta.json.
P=$1; DEST=$2; CHANGE=$3; PAT=$4
W=/tmp/seed7/$P; O=/tmp/seed7/out/$P
mkdir -p $O; if [ -d $W/_seed ]; then rm -rf $O; cp -r $W/_seed $O; rm -rf $W/_seed; fi
J=$(/verif/tools/seedconfirm5.sh $W $O $DEST $PAT | tail -1)
echo "$P $J"
python3 - "$P" "$O" "$DEST" "$CHANGE" "$J" <<'PY'
import json,sys,os,shutil,glob,subprocess
pid,o,dest,change,js=sys.argv[1:6]
c=json.loads(js)
okb = 'error' not in c.get('go_build','').lower() and c.get('apply')!='FAILED'
ok0 = c.get('demo_without_patch','').startswith('ok')
ok1 = 'FAIL' in c.get('demo_with_patch','')
ex=c.get('existing_tests_with_patch','')
bad=[x for x in ex.replace('--- FAIL: TestAggregatorContext','').split('--- FAIL')[1:]]
ok2 = not bad and 'ok' in ex
print('confirmed' if (okb and ok0 and ok1 and ok2) else 'NOT-CONFIRMED', dict(build=okb,demo_without=ok0,demo_with_fails=ok1,existing=ok2))
if not (okb and ok0 and ok1 and ok2): sys.exit(1)
head=subprocess.run(['git','-C','/repo','rev-parse','--short','HEAD'],stdout=subprocess.PIPE,text=True).stdout.strip()
d='/verif/seeded/%s-i'%pid; os.makedirs(d,exist_ok=True)
demos=[os.path.basename(x) for x in glob.glob(o+'/*_test.go')]
for f in ['patch.diff','README.md']+demos: shutil.copy2(os.path.join(o,f),d)
c['go_build']='ok'
c['command']='tools/seedconfirm6.sh: scratch worktree at base_commit; go build ./...; go test of the demo package without and with the patch; go test of the touched packages with the patch and without the demo (TestAggregatorContext fails on the unchanged tree too: baseline always_fail)'
meta=dict(id=pid+'-i',property=pid,round=7,change=change,description_file='README.md',demonstration=dict(files=demos,copy_to=dest+'/'),base_commit=head,
  confirmed_in_scratch_worktree=c,
  checks_run='seed applied in an isolated workspace (copy of /verif + git worktree of /repo): VERIF_REPO=<worktree> ./check %s (quick, seed 1); tools/seedsweep.sh'%pid,
  caught_by='(pending)')
json.dump(meta,open(d+'/meta.json','w'),indent=1,ensure_ascii=False); open(d+'/meta.json','a').write('\n')
print('stored',d)
PY
