#!/bin/sh
# creates an isolated workspace for a builder: copy of /verif + git worktree of /repo
set -e
N=$1
mkdir -p /tmp/wk/$N
rm -rf /tmp/wk/$N/verif
cp -r /verif /tmp/wk/$N/verif
rm -rf /tmp/wk/$N/verif/.git /tmp/wk/$N/verif/.cache/runs
if [ ! -d /tmp/wk/$N/repo ]; then git -C /repo worktree add --detach /tmp/wk/$N/repo HEAD >/dev/null 2>&1; fi
echo /tmp/wk/$N
