#!/bin/sh
# refresh a builder workspace to the current /verif and /repo HEAD
set -e
N=$1
git -C /tmp/wk/$N/repo clean -fdq
git -C /tmp/wk/$N/repo checkout -q -- .
git -C /tmp/wk/$N/repo checkout -q --detach $(git -C /repo rev-parse HEAD)
rsync -a --delete --exclude .git --exclude '.cache/runs' --exclude 'replays' /verif/ /tmp/wk/$N/verif/
echo refreshed $N at $(git -C /repo rev-parse --short HEAD)
