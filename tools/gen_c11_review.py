#!/usr/bin/env python3
"""Developer aid for C11: (re)writes lean/ExoVerif/Props/C11Tie.lean and lean/ExoVerif/Props/C11Guards.lean from
the current Generated/Facts.lean, classifying every panic-capable site on a block path with the rules below.
The written files are static (they are what ./check verifies against the regenerated facts); run this only
after reviewing a changed site list:  python3 tools/gen_c11_review.py

Classes backed by theorems: `.guard` (a lemma about a kernel regenerated from the enclosing function: the
quoGuard_* kernels of facts_guards.go and the siteGuard_*/siteSafe_* pairs of facts_siteguards.go, for which
C11Guards.lean holds one lemma `C11_guard_<Func>_<expr>` each, proved for all values of the parameters) and
`.invariant` (a theorem of Props/C11Sites.lean connecting the site to a model of OTHER code: a state invariant
kept by every writer, a contract of the callers, a validation passed before the data was stored)."""
import os, re, sys
V = os.path.dirname(os.path.dirname(os.path.abspath(__file__)))
facts = open(os.path.join(V, "lean/ExoVerif/Generated/Facts.lean")).read()

def getlist(name):
    m = re.search(r'def ' + name + r' : List String := \[(.*?)\]\n', facts, re.S)
    return re.findall(r'"((?:[^"\\]|\\.)*)"', m.group(1))

sites = getlist("panicSitesInBlockPaths")
roots = getlist("blockPathRoots")
site_index = getlist("siteGuardIndex")

# site -> (kernel base name, [(param, type)], witness assignment) for the sites that got a kernel pair
site_kernel = {}
for line in site_index:
    parts = line.split(" | ")
    if len(parts) < 3 or parts[-2].startswith("none"):
        continue
    site, kern, wit = " | ".join(parts[:-2]), parts[-2], parts[-1]
    m = re.match(r'siteGuard_(\w+)((?: \([^)]*\))*)$', kern)
    assert m, kern
    params = []
    for grp in re.findall(r'\(([^)]*)\)', m.group(2)):
        names, ty = grp.rsplit(" : ", 1)
        params += [(n, ty) for n in names.split()]
    w = dict(x.split("=") for x in wit[len("witness: "):].split())
    site_kernel[site] = (m.group(1), params, w)

# sites discharged by a theorem of Props/C11Sites.lean (state invariants, caller contracts, validations)
INVARIANT = [
    (lambda f, fn, kind, expr: kind == "coinsub", "C11_site_fee_allocation_never_overdraws"),
    (lambda f, fn, kind, expr: kind == "newcoin" and "delegation/keeper/abci.go" in f, "C11_site_undelegation_actual_nonneg_reachable"),
    (lambda f, fn, kind, expr: kind == "index" and ("fillPrice" in fn or "FillPrice" in fn or "addPSource" in fn), "C11_site_oracle_sources_nonempty"),
    (lambda f, fn, kind, expr: kind == "index" and "SortByPower" in fn, "C11_site_SortByPower_in_range"),
    (lambda f, fn, kind, expr: kind == "index" and "dogfood/keeper/abci.go" in f, "C11_site_dogfood_EndBlock_in_range"),
    (lambda f, fn, kind, expr: kind == "index" and "GetActiveOperatorsForChainID" in fn, "C11_site_GetActiveOperators_in_range"),
    (lambda f, fn, kind, expr: kind == "intdiv" and "PrepareRoundEndBlock" in fn and "feeder.Interval" in expr, "C11_site_params_validate_feeder"),
    (lambda f, fn, kind, expr: kind == "index" and "GetTokenInfo" in fn and "p.Tokens[v.TokenID]" in expr, "C11_site_params_validate_feeder"),
    (lambda f, fn, kind, expr: kind == "newcoin" and "exomint" in f and "params.EpochReward" in expr, "C11_site_epoch_reward_nonneg"),
    (lambda f, fn, kind, expr: kind == "index" and "IterateOperatorsForAVS" in fn and "keys[1]" in expr, "C11_site_avs_prefix_key_two_parts"),
    (lambda f, fn, kind, expr: kind == "index" and "IterateAssetsForOperator" in fn and "keys[1]" in expr, "C11_site_operator_asset_keys_two_parts"),
    # BigIntList.Median, the two even-branch indexes (the odd-branch one has a site-guard kernel and is classified before
    # this list is consulted): no history hands Median an empty list (nil-aware oracle model, Proofs/OracleNil.lean)
    (lambda f, fn, kind, expr: kind == "index" and fn == "BigIntList.Median", "C11_site_median_never_empty"),
]

# explicit panics discharged by a theorem about regenerated facts on the callers (Props/C11Sites.lean)
CALLER_GUARD = [
    (lambda f, fn, kind, expr: kind == "panic" and fn == "Cache.AddCache", "C11_guard_AddCache_default_unreachable"),
]

def q(s): return '"' + s + '"'

def classify(site):
    f, fn, kind, expr = site.split(":", 3)
    if f.startswith("x/appchain/"):
        return '.notWired'
    if site in site_kernel:
        return '.guard "C11_guard_%s"' % site_kernel[site][0]
    for pred, thm in INVARIANT:
        if pred(f, fn, kind, expr):
            return '.invariant "%s"' % thm
    for pred, thm in CALLER_GUARD:
        if pred(f, fn, kind, expr):
            return '.guard "%s"' % thm
    if kind == "conv":
        if "GetVotePowerForChainID" in fn:
            return '.finding "F-11f"'
        if "TotalUSDValue" in expr or "SelfUSDValue" in expr:
            return '.candidate "F-11f (the same unbounded USD value converted at another site; not reproduced separately: the F-11f history halts at the epoch end first)"'
        if "previousTotalPower" in expr:
            return '.candidate "F-11f (sum of the int64 vote powers; CometBFT refuses a total above 2^60 first)"'
        if "minSelfDelegation" in expr:
            return '.assumed "the minimum self delegation of the chain\'s own (dogfood) AVS comes from genesis / governance parameters and is far below 2^63"'
    if kind == "index" and ("IterateAssetsForOperator" in fn or "IterateOperatorsForAVS" in fn) and "keys[1]" in expr:
        return '.inputChecked "ParseJoinedKey does not check the number of parts: every key of this store is written as GetJoinedStoreKey(a, b) (two parts joined by /) by UpdateOperatorAssetState / SetOperatorUSDValue, and bech32 / hex ids contain no /"'
    if kind == "must":
        if "Marshal" in expr or "Unmarshal" in expr:
            return '.codec'
        if "MustAccAddressFromBech32" in expr:
            return '.inputChecked "operator addresses are bech32-validated (ValidateBasic / AccAddressFromBech32) before they are stored"'
        if "MustLengthPrefix" in expr:
            return '.inputChecked "address / staker id shorter than 256 bytes: 20-byte addresses, staker ids of at most 66+3+18 characters"'
    if kind == "panic":
        if "TotalBondedTokens" in fn or "IterateDelegations" in fn:
            return '.finding "F-11a"'
        if f.endswith("opt_out.go") or f.endswith("unbonding.go"):
            return '.codec'
        if "WithChainID" in fn:
            return '.inputChecked "ctx.ChainID() is the genesis chain id, parsed by ParseChainID at InitChain; the same id every block"'
        if "AddCache" in fn:
            return '.assumed "all callers pass *ItemM, ItemP or ItemV (static types at the call sites)"'
    if kind == "quo":
        if "SlashAssets" in fn: return '.guard "C11_guard_exact_SlashAssets"'
        if "CalculateUSDValue" in fn: return '.guard "C11_guard_usdValue_divisor"'
        if "AfterEpochEnd" in fn and f.startswith("x/avs"): return '.guard "C11_guard_exact_AfterEpochEnd"'
        if fn.endswith("AllocateTokens"): return '.guard "C11_guard_exact_AllocateTokens"'
        if "AllocateTokensToStakers" in fn: return '.guard "C11_guard_exact_AllocateTokensToStakers"'
        if "TokensFromShares" in fn: return '.guard "C11_guard_exact_TokensFromShares"'
        if "UpdateNSTBalance" in fn: return '.guard "C11_guard_exact_UpdateNSTBalance"'
        if "Median" in fn: return '.guard "C11_guard_median_divisor"'
    if kind == "coinsub":
        return '.guard "C17_no_halt (Props/C17.lean: AllocateTokens, with truncated validator / staker fractions, never takes more than is left)"'
    if kind == "newcoin":
        if "delegation/keeper/abci.go" in f: return '.guard "C11_guard_undelegation_actual_nonneg"'
        if "exomint" in f: return '.inputChecked "exomint Params validation rejects a negative EpochReward; SetParams keeps the previous value for nil / negative"'
    if kind == "intdiv":
        if "PrepareRoundEndBlock" in fn:
            return '.inputChecked "TokenFeeder.Interval >= 1 is enforced by Params.Validate (x/oracle/types/params.go) before params are stored"'
    if kind == "errfall":
        if f.startswith("x/avs/"):
            if expr.startswith("err != nil ||"):
                return '.assumed "GetOperatorOptedUSDValue / GetAVSUSDValue cannot fail here: the result is only selected while its AVS (with a USD-value record, required by CreateAVSTask) still owns the task address; on failure the zero LegacyDec would be dereferenced"'
            return '.noResultUsed'
        if "dogfood/keeper/abci.go" in f: return '.noResultUsed'
        if "SetJailedState" in fn: return '.noResultUsed'
        if "AppendPriceTR" in fn: return '.noResultUsed'
        if "AllocateTokensToValidator" in fn:
            return '.assumed "OperatorInfo cannot fail: the validator handed in was resolved from a registered operator by AllocateTokens; on failure the zero Commission.Rate would be dereferenced"'
    if kind == "assert":
        return '.notWired'
    if kind == "index":
        if "SortByPower" in fn:
            return '.loopBound "indices are 0..len(powers)-1 and stay a permutation under sort.Slice; both callers pass three slices of equal length built in one loop"'
        if "AsKey" in fn: return '.assumed "delimiter is the non-empty constant utils.DelimiterForCombinedKey"'
        if "ParseID" in fn or "ChainIDWithoutRevision" in fn:
            return '.loopBound "strings.Split returns at least one element"'
        if "ParseStakerAssetIDAndOperator" in fn:
            return '.loopBound "ParseJoinedStoreKey(key, 3) returns exactly 3 parts or an error"'
        if "ParseUndelegationRecordKey" in fn:
            return '.loopBound "ParseJoinedStoreKey(key, 4) returns exactly 4 parts or an error"'
        if "IterateBondedValidatorsByPower" in fn:
            return '.loopBound "comparator of sort.SliceStable: i, j < len"'
        if "GroupTasksByIDAndAddress" in fn or "ApplyValidatorChanges" in fn or "AllocateTokensToStakers" in fn:
            return '.loopBound "comparator of sort.Slice: i, j < len"'
        if "DeleteStakerForOperator" in fn or "removeNonceWithValidatorAndFeederID" in fn:
            return '.loopBound "i is the index of the enclosing range loop over the same slice"'
        if "dogfood/keeper/abci.go" in f:
            return '.loopBound "i ranges over operators; SortByPower returns three slices of equal length"'
        if "GetActiveOperatorsForChainID" in fn:
            return '.loopBound "GetOperatorsForChainID appends to both result slices in the same iteration"'
        if "GetOperatorsForChainID" in fn:
            return '.loopBound "the key comes from a prefix iterator, so len(key) >= len(prefix)"'
        if "fillPrice" in fn or "FillPrice" in fn or "addPSource" in fn:
            return '.inputChecked "AggregatorContext.sanityCheck: at least one source and at least one price per source (deliver path); recache replays only messages that passed it"'
        if "caches.go" in f:
            return '.loopBound "i <= len(index.Index) when the scanning loop ends"'
        if "Median" in fn:
            return '.assumed "the calculator only takes the median of a round that holds at least one price"'
        if "parseBalanceChange" in fn or "UpdateNSTByBalanceChange" in fn:
            return '.finding "F-11c"'
        if "StakerInfo.Append" in fn:
            return '.loopBound "guarded by len(s.BalanceList) > maxSize"'
        if "GetAssetIDsFromTokenID" in fn:
            return '.loopBound "guarded by tokenID >= len(p.Tokens) => return"'
        if "GetTokenInfo" in fn:
            return '.inputChecked "TokenFeeder.TokenID < len(Tokens) is enforced by Params.Validate"'
    return '.unreviewed'

rows = [(s, classify(s)) for s in sites]
quo_index = getlist('quoGuardIndex')
bad = [s for s, c in rows if c == '.unreviewed']
if bad:
    print("UNREVIEWED:", *bad, sep="\n  ")
from collections import Counter
cnt = Counter(c.split(" ")[0] for _, c in rows)
findings = [s for s, c in rows if c.startswith('.finding')]

out = '''import ExoVerif.Generated.Facts
import ExoVerif.Generated.Kernels
import ExoVerif.Props.C11
import ExoVerif.Props.C11Guards
import ExoVerif.Props.C11Sites
/-!
# C11 tie: every panic-capable site on a block path carries a review, encoded here

`Gen.panicSitesInBlockPaths` is recomputed from the Go sources on every run (syntactic call graph by
function name from the Begin/EndBlock methods, epoch hooks and x/dogfood's SDK-facing staking
interface; over-approximating). `reviewTable` pairs each site with the reason it cannot halt a block —
or with the finding that shows it can. `C11_panic_sites_eq_reviewed` is the tie: a new unguarded
division, index, `Must…`, explicit panic, unchecked type assertion or swallowed error in a function on a
block path (or the removal of one) changes the generated list and breaks the proof until the table is
updated. `guard` entries name a theorem about the enclosing code (`Props/C11.lean`: a model; this file: the
regenerated quoGuard_* kernels; `Props/C11Guards.lean`: the regenerated siteGuard_*/siteSafe_* kernel pairs),
`invariant` entries a theorem of `Props/C11Sites.lean` about other code the site relies on; the other classes are
justifications by reading (no theorem), counted in `C11_review_counts`.
(Written by tools/gen_c11_review.py after review; static afterwards.)
-/
namespace ExoVerif.Blocks
open ExoVerif.Gen

inductive Review where
  | guard (theoremName : String)   -- proved: the dangerous operand cannot occur (kernel / model of the enclosing function)
  | invariant (theoremName : String) -- proved on a model of OTHER code: state invariant, caller contract, earlier validation (Props/C11Sites.lean)
  | finding (id : String)          -- it does halt: open defect, replayed on the real application
  | candidate (id : String)        -- suspected, not reproduced
  | codec                          -- (un)marshal of bytes this module wrote itself with the paired Marshal
  | loopBound (why : String)       -- index within bounds by the enclosing loop / length check / construction
  | inputChecked (why : String)    -- the value was validated before it could reach this point
  | noResultUsed                   -- swallowed error, but nothing returned by the failed call is used afterwards
  | notWired                       -- x/appchain is not registered in app/app.go (call-graph over-approximation)
  | assumed (why : String)         -- reviewed by reading only
  | unreviewed
deriving DecidableEq, Repr

def Review.isGuard : Review → Bool | .guard _ => true | _ => false
def Review.isInvariant : Review → Bool | .invariant _ => true | _ => false
def Review.isFinding : Review → Bool | .finding _ => true | _ => false
def Review.isOpen : Review → Bool | .finding _ => true | .candidate _ => true | .assumed _ => true | .unreviewed => true | _ => false

def reviewedRoots : List String := [
''' + ",\n".join("  " + q(r) for r in roots) + ''']

def reviewTable : List (String × Review) := [
''' + ",\n".join("  (" + q(s) + ", " + c + ")" for s, c in rows) + ''']

def reviewed : List String := reviewTable.map (·.1)

def knownFindingSites : List String := (reviewTable.filter (·.2.isFinding)).map (·.1)

theorem C11_block_path_roots : blockPathRoots = reviewedRoots := by rfl

set_option maxRecDepth 100000 in
theorem C11_panic_sites_eq_reviewed : panicSitesInBlockPaths = reviewed := by rfl

theorem C11_all_panic_sites_covered : ∀ s ∈ panicSitesInBlockPaths, s ∈ reviewed := by
  rw [C11_panic_sites_eq_reviewed]; intro s h; exact h

set_option maxRecDepth 100000 in
/-- no site is left without a review class -/
theorem C11_no_unreviewed_sites : (reviewTable.filter (fun p => p.2 == Review.unreviewed)).length = 0 := by rfl

set_option maxRecDepth 100000 in
/-- how the %d sites are discharged: by theorem / open finding / everything that is not closed by a
theorem or a mechanical reason (findings, candidates, by-reading assumptions) -/
theorem C11_review_counts :
    reviewTable.length = %d ∧
    (reviewTable.filter (·.2.isGuard)).length = %d ∧
    (reviewTable.filter (·.2.isInvariant)).length = %d ∧
    (reviewTable.filter (·.2.isFinding)).length = %d ∧
    (reviewTable.filter (·.2.isOpen)).length = %d := by
  refine ⟨by rfl, by rfl, by rfl, by rfl, by rfl⟩

/-- the sites of the open findings (F-11c: the unchecked slice accesses of parseBalanceChange; F-11f: the TruncateInt64 of an operator's USD value) are on block paths -/
theorem C11_finding_sites_are_on_block_paths : ∀ s ∈ knownFindingSites, s ∈ panicSitesInBlockPaths := by
  rw [C11_panic_sites_eq_reviewed]
  intro s h
  simp only [knownFindingSites, List.mem_map, List.mem_filter] at h
  obtain ⟨p, ⟨hp, _⟩, rfl⟩ := h
  exact List.mem_map.mpr ⟨p, hp, rfl⟩

/-! ### exact guards: the divisions' dominating conditions, regenerated from the source as Bool kernels
(`Gen.quoGuard_<Func>`, tools/exofacts/facts_guards.go), exclude a zero divisor. The site strings of the
review table carry the same guards as text (`… <= g₁ ; g₂ ; …`), so a changed guard breaks the table tie,
and a weakened one (`!a && !b` → `!(a && b)`) additionally makes the lemma below unprovable. -/

theorem C11_guard_exact_AfterEpochEnd (nSigned nRes operatorPowerTotal taskPowerTotal : Int) (e t : Bool)
    (h : quoGuard_AfterEpochEnd nSigned nRes operatorPowerTotal taskPowerTotal e t = true) : operatorPowerTotal ≠ 0 := by
  intro h0; subst h0; simp [quoGuard_AfterEpochEnd] at h

theorem C11_guard_exact_SlashAssets (stakingAndWaitUnbonding : Int) (e : Bool)
    (h : quoGuard_SlashAssets stakingAndWaitUnbonding e = true) : stakingAndWaitUnbonding ≠ 0 := by
  intro h0; subst h0; simp [quoGuard_SlashAssets] at h

theorem C11_guard_exact_TokensFromShares (stakerShare totalShare : Int)
    (h : quoGuard_TokensFromShares stakerShare totalShare = true) : totalShare ≠ 0 := by
  intro h0; subst h0; simp [quoGuard_TokensFromShares] at h

theorem C11_guard_exact_AllocateTokens (totalPreviousPower : Int) (e f : Bool)
    (h : quoGuard_AllocateTokens totalPreviousPower e f = true) : totalPreviousPower * ExoVerif.Blocks.decOne ≠ 0 := by
  have hz : totalPreviousPower ≠ 0 := by
    intro h0; subst h0; simp [quoGuard_AllocateTokens] at h
  exact Int.mul_ne_zero hz (by decide)

theorem C11_guard_exact_AllocateTokensToStakers (curTotalStakersPowers : Int) (e : Bool)
    (h : quoGuard_AllocateTokensToStakers curTotalStakersPowers e = true) : curTotalStakersPowers ≠ 0 := by
  intro h0; subst h0; simp [quoGuard_AllocateTokensToStakers] at h

theorem C11_guard_exact_UpdateNSTBalance (amount pendingSlashAmount totalDelegatedAmount : Int) (e : Bool)
    (h : quoGuard_UpdateNSTBalance amount pendingSlashAmount totalDelegatedAmount e = true) :
    totalDelegatedAmount * ExoVerif.Blocks.decOne ≠ 0 := by
  have hz : totalDelegatedAmount ≠ 0 := by
    intro h0; subst h0; simp [quoGuard_UpdateNSTBalance] at h
  exact Int.mul_ne_zero hz (by decide)

/-- the two sites without a guard divide by a constant -/
theorem C11_guard_exact_unguarded : quoGuard_CalculateUSDValue = true ∧ quoGuard_Median = true := ⟨rfl, rfl⟩

/-- which sites the kernels belong to -/
theorem C11_quo_guard_index : quoGuardIndex = [
QUOINDEXLITERAL] := by rfl

/-! ### site guards: for index / integer-division / NewCoin sites the extractor regenerates what is locally known
at the site (`siteGuard_*`) and what the operation needs (`siteSafe_*`); `Props/C11Guards.lean` proves the
implication for all values. The index fact records for every such site its kernel, or why it has none (the
extractor found an assignment that satisfies every local fact but not the safety condition: such a site needs
a state invariant, or is a defect). -/

set_option maxRecDepth 100000 in
theorem C11_site_guard_index : siteGuardIndex = [
SITEINDEXLITERAL] := by rfl


/-! ### nil / non-positive price values (nil-dereference kind)

sdkmath.Int is a pointer wrapper: `NewIntFromString` of a non-numeric string yields a nil Int, and any
arithmetic on it (CalculateUSDValue: `assetAmount.Mul(price)`) dereferences nil — in BeginBlock on the slash
path, at epoch ends on the voting-power path. The two oracle getters are the only producers of prices;
`oraclePriceLiterals` lists every `Price{…}` they build with its Value, what it is returned with and its
dominating guards. Two lemmas about the regenerated guard kernels show that the only literals whose Value
is a parsed variable are reached with a non-nil, positive value; the table tie pins everything else
(default-price constructors, and the one `Price{}` that is returned together with a non-RoundNotFound
error, which every consumer propagates). -/

theorem C11_price_value_guard_specified (v : Int) (vNil : Bool)
    (h : priceValueGuard_GetSpecifiedAssetsPrice v vNil = true) : vNil = false ∧ 0 < v := by
  cases vNil <;> simp [priceValueGuard_GetSpecifiedAssetsPrice] at h ⊢
  omega

theorem C11_price_value_guard_multiple (v : Int) (vNil : Bool)
    (h : priceValueGuard_GetMultipleAssetsPrices v vNil = true) : vNil = false ∧ 0 < v := by
  cases vNil <;> simp [priceValueGuard_GetMultipleAssetsPrices] at h ⊢
  omega

theorem C11_oracle_price_literals : oraclePriceLiterals = [
PRICELITERALS] := by rfl

/-- who consumes the getters (all treat ErrGetPriceRoundNotFound as "default price" and return any other error) -/
theorem C11_price_consumers : priceConsumersOnBlockPaths = [
PRICECONSUMERS] := by rfl

/-! ### the guard lemmas' models are the regenerated Go kernels -/

/-- the divisor `C11_guard_usdValue_divisor` is about is the one the regenerated CalculateUSDValue divides by -/
theorem C11_tie_usdValue_divisor (a p ad pd : Int) :
    ExoVerif.Gen.calculateUSDValue a p ad pd = ExoVerif.Dec.quoInt (ExoVerif.Dec.ofInt (a * p)) (usdDivisor ad pd) := rfl

/-- the regenerated TokensFromShares reaches its QuoTruncate only with a non-zero total share -/
theorem C11_tie_tokensFromShares_divisor (s t : ExoVerif.Dec) (a : Int)
    (h1 : ExoVerif.Dec.gt s t = false) (h2 : ExoVerif.Dec.isZero t = false) :
    ExoVerif.Gen.tokensFromShares s t a =
      .ok (ExoVerif.Dec.truncateInt (ExoVerif.Dec.quoTruncate (ExoVerif.Dec.mulInt s a) t)) ∧ t.raw ≠ 0 := by
  constructor
  · simp [ExoVerif.Gen.tokensFromShares, h1, h2]
  · simpa [ExoVerif.Dec.isZero] using h2

/-- x/delegation EndBlock builds `sdk.NewCoin(hua, record.ActualCompletedAmount)` for a matured native-token
undelegation; NewCoin panics on a negative amount. The only code that lowers ActualCompletedAmount is the
regenerated SlashFromUndelegation, and it never takes it below zero (it caps against the amount that is
left, not against the original Amount). -/
theorem C11_guard_undelegation_actual_nonneg (r : ExoVerif.Ledger.URec) (p : ExoVerif.Dec) (h : 0 ≤ r.actual) :
    0 ≤ (ExoVerif.Gen.slashFromUndelegation r p).1.actual := by
  unfold ExoVerif.Gen.slashFromUndelegation
  by_cases h0 : r.actual = 0
  · simp [h0]
  · simp only [beq_iff_eq, h0, if_false]
    split
    · simp
    · rename_i hlt
      simp only [decide_eq_true_eq, Int.not_le] at hlt
      simp only []
      omega

/-- x/appchain (coordinator, subscriber) is not wired into the application -/
theorem C11_appchain_not_wired : appWiredCustomModules.all (fun m => m != "x/appchain/coordinator" && m != "x/appchain/subscriber") = true := by
  decide

/-! ### the theorems the table cites exist -/

/-- the `.guard` / `.invariant` entries of the table, in table order -/
def citedTheorems : List String :=
  reviewTable.filterMap (fun p => match p.2 with | .guard n => some n | .invariant n => some n | _ => none)

set_option maxRecDepth 100000 in
theorem C11_cited_theorems : citedTheorems = [
CITEDLITERAL] := by rfl

/-- … and every one of them is a theorem of Props/C11.lean, Props/C11Guards.lean, Props/C11Sites.lean or this file
(this declaration does not elaborate otherwise; written by tools/gen_c11_review.py from the same list) -/
theorem C11_site_guards_are_proved : True := by
CITEDHAVES
  trivial

end ExoVerif.Blocks
''' % (len(rows), len(rows), cnt['.guard'], cnt['.invariant'], cnt['.finding'],
       cnt['.finding'] + cnt['.candidate'] + cnt['.assumed'] + cnt['.unreviewed'])
out = out.replace("PRICELITERALS", ",\n".join("  " + q(x) for x in getlist("oraclePriceLiterals"))).replace("PRICECONSUMERS", ",\n".join("  " + q(x) for x in getlist("priceConsumersOnBlockPaths")))
out = out.replace("QUOINDEXLITERAL", ",\n".join("  " + q(x) for x in quo_index))
out = out.replace("SITEINDEXLITERAL", ",\n".join("  " + q(x) for x in site_index))
cited = [c.split(" ", 1)[1].strip('"') for _, c in rows if c.startswith('.guard ') or c.startswith('.invariant ')]
out = out.replace("CITEDLITERAL", ",\n".join("  " + q(x) for x in cited))
def ident(n):  # a citation may carry a remark after the name
    return n.split(" ")[0]
uniq = []
for n in cited:
    if ident(n) not in uniq:
        uniq.append(ident(n))
out = out.replace("CITEDHAVES", "\n".join("  have := @%s" % (n if not n.startswith("C17_") else "ExoVerif.Distr." + n) for n in uniq))
open(os.path.join(V, "lean/ExoVerif/Props/C11Tie.lean"), "w").write(out)
print(dict(cnt), "findings:", len(findings))

# ---------------------------------------------------------------- Props/C11Guards.lean
# proofs that need more than the generic closing tactic (keyed by kernel base name)
MANUAL = {
    "Median_b_l_2": """  unfold siteGuard_Median_b_l_2 at h; unfold siteSafe_Median_b_l_2
  simp only [Bool.and_eq_true, decide_eq_true_eq, beq_iff_eq] at *
  have hl : 0 ≤ l := by omega
  rw [Int.tmod_eq_emod_of_nonneg hl] at h
  rw [Int.tdiv_eq_ediv_of_nonneg hl]
  omega""",
}

def lit(v, ty):
    if ty == "Bool":
        return v
    return v if not v.startswith("-") else "(" + v + ")"

g = '''import ExoVerif.Generated.Facts
/-!
# C11: the regenerated local guard of a site implies that the site cannot panic

For every index / integer-division / NewCoin site on a block path for which tools/exofacts/facts_siteguards.go
could translate the panicking operand, `Gen.siteGuard_<Func>_<expr>` is the conjunction of the facts that hold
whenever control reaches the site (dominating `if`s, loop bounds, range / sort-comparator index bounds,
single-assignment definitions, `make` lengths, callee post-conditions, non-negativity of lengths and unsigned
values — each only if nothing writes the variables it mentions in between) and `Gen.siteSafe_<Func>_<expr>` is
the condition under which the operation does not panic. Both are regenerated from the Go source on every run;
the lemmas below hold for ALL values of the parameters, so a weakened guard, a changed bound or a changed
operand makes its lemma fail. Each lemma comes with an assignment that satisfies the guard (found by the
extractor), so none of them holds vacuously.
(Written by tools/gen_c11_review.py; static afterwards.)
-/
namespace ExoVerif.Blocks
open ExoVerif.Gen

/-- closes `guard → safe` once both kernels are unfolded: Bool connectives to propositions, then linear arithmetic -/
macro "c11_site" : tactic => `(tactic| (
  simp only [Bool.and_eq_true, Bool.or_eq_true, Bool.not_eq_true', Bool.not_eq_eq_eq_not, Bool.not_true, Bool.not_false,
    decide_eq_true_eq, decide_eq_false_iff_not, beq_iff_eq, bne_iff_ne, ne_eq, beq_eq_false_iff_ne, bne_eq_false_iff_eq,
    Bool.not_not, Decidable.not_not, Bool.and_true, Bool.true_and] at *
  <;> omega))

'''
names = []
for site in sorted(site_kernel):
    base, params, w = site_kernel[site]
    binder = " ".join("(%s : %s)" % (n, ty) for n, ty in params)
    args = " ".join(n for n, _ in params)
    wargs = " ".join(lit(w[n], ty) for n, ty in params)
    bools = [n for n, ty in params if ty == "Bool"]
    g += "/-- %s -/\n" % site.replace("-/", "- /")
    g += "theorem C11_guard_%s %s\n    (h : siteGuard_%s %s = true) : siteSafe_%s %s = true := by\n" % (base, binder, base, args, base, args)
    if base in MANUAL:
        g += MANUAL[base] + "\n"
    else:
        pre = "".join("cases %s <;> " % b for b in bools)
        g += "  unfold siteGuard_%s at h; unfold siteSafe_%s\n  %sc11_site\n" % (base, base, "(" + pre[:-5] + ") <;> " if bools else "")
    g += "example : siteGuard_%s %s = true := by decide\n\n" % (base, wargs)
    names.append("C11_guard_" + base)
g += "/-- the lemmas above, by name (the review table of C11Tie.lean cites them as strings) -/\ndef provedSiteGuards : List String := [\n" + ",\n".join("  " + q(n) for n in names) + "]\n\n"
g += "end ExoVerif.Blocks\n"
open(os.path.join(V, "lean/ExoVerif/Props/C11Guards.lean"), "w").write(g)
print("site guards:", len(names))
