#!/usr/bin/env python3
"""Applies builder 5's (group `entry`) edits of SHARED files to a verif tree: python3 entry_shared_hunks.py <verif-dir>
Every edit is a unique-substring replacement (asserted), so it applies to a tree that moved on elsewhere in the file."""
import sys, json, collections
root = sys.argv[1].rstrip('/')

def edit(path, pairs):
    p = root + '/' + path
    s = open(p).read()
    for old, new in pairs:
        if new in s and old not in s:
            continue  # already applied
        assert s.count(old) == 1, (path, old[:80], s.count(old))
        s = s.replace(old, new)
    open(p, 'w').write(s)

# ---- harness/dom_auth.go: the three set-up panics of gatewayGroup become note + keeper fallback (dom_auth_setup.go)
edit('harness/dom_auth.go', [
('''		panic("setup deposit refused")
''', '''		h.env.Note("gateway-setup-refused:depositLST") // not a reason to stop: the product below shows who IS admitted
		h.setupByKeeper("depositLST", staker)          // dom_auth_setup.go
'''),
('''		panic("setup NST deposit refused")
''', '''		h.env.Note("gateway-setup-refused:depositNST")
		h.setupByKeeper("depositNST", staker)
'''),
('''		panic("setup delegation refused")
''', '''		h.env.Note("gateway-setup-refused:delegate")
		h.setupByKeeper("delegate", staker)
'''),
])

# ---- harness/dom_ledger.go: six keeper calls of `step` get a precompile alternative (dom_ledger_precompile.go)
edit('harness/dom_ledger.go', [
('''		err := c.CachedDo(func(ctx sdk.Context) error {
			return c.App.AssetsKeeper.PerformDepositOrWithdraw(ctx, &assetskeeper.DepositWithdrawParams{
				ClientChainLzID: c.LzID, Action: assetstypes.DepositLST, StakerAddress: st.Eth.Bytes(), AssetsAddress: w.assetAddr(ai), OpAmount: x})
		})
''', '''		var err error
		if w.usePC(c.LzID, &x) { // through the assets precompile, as the gateway (dom_ledger_precompile.go)
			err = w.pcDepositOrWithdraw(true, st.Eth.Bytes(), w.assetAddr(ai), x)
		} else {
			err = c.CachedDo(func(ctx sdk.Context) error {
				return c.App.AssetsKeeper.PerformDepositOrWithdraw(ctx, &assetskeeper.DepositWithdrawParams{
					ClientChainLzID: c.LzID, Action: assetstypes.DepositLST, StakerAddress: st.Eth.Bytes(), AssetsAddress: w.assetAddr(ai), OpAmount: x})
			})
		}
'''),
('''		err := c.CachedDo(func(ctx sdk.Context) error {
			return c.App.AssetsKeeper.PerformDepositOrWithdraw(ctx, &assetskeeper.DepositWithdrawParams{
				ClientChainLzID: c.LzID, Action: assetstypes.WithdrawLST, StakerAddress: st.Eth.Bytes(), AssetsAddress: w.assetAddr(ai), OpAmount: x})
		})
''', '''		var err error
		if w.usePC(c.LzID, &x) {
			err = w.pcDepositOrWithdraw(false, st.Eth.Bytes(), w.assetAddr(ai), x)
		} else {
			err = c.CachedDo(func(ctx sdk.Context) error {
				return c.App.AssetsKeeper.PerformDepositOrWithdraw(ctx, &assetskeeper.DepositWithdrawParams{
					ClientChainLzID: c.LzID, Action: assetstypes.WithdrawLST, StakerAddress: st.Eth.Bytes(), AssetsAddress: w.assetAddr(ai), OpAmount: x})
			})
		}
'''),
('''		err := c.CachedDo(func(ctx sdk.Context) error {
			return c.App.DelegationKeeper.DelegateTo(ctx, &delegationtypes.DelegationOrUndelegationParams{
				ClientChainID: lz, AssetsAddress: aaddr, OperatorAddress: op, StakerAddress: saddr, OpAmount: x})
		})
''', '''		var err error
		if w.usePC(lz, &x) {
			w.nonce++
			err = w.pcDelegate(false, w.nonce, saddr, aaddr, op, x)
		} else {
			err = c.CachedDo(func(ctx sdk.Context) error {
				return c.App.DelegationKeeper.DelegateTo(ctx, &delegationtypes.DelegationOrUndelegationParams{
					ClientChainID: lz, AssetsAddress: aaddr, OperatorAddress: op, StakerAddress: saddr, OpAmount: x})
			})
		}
'''),
('''		err := c.CachedDo(func(ctx sdk.Context) error {
			return c.App.DelegationKeeper.UndelegateFrom(ctx, &delegationtypes.DelegationOrUndelegationParams{
				ClientChainID: lz, AssetsAddress: aaddr, OperatorAddress: op, StakerAddress: saddr, OpAmount: x,
				LzNonce: nonce, TxHash: hash})
		})
''', '''		var err error
		if w.usePC(lz, &x) { // the record is keyed by the hash of the EVM transaction
			hash = xbNextTxHash()
			err = w.pcDelegate(true, nonce, saddr, aaddr, op, x)
		} else {
			err = c.CachedDo(func(ctx sdk.Context) error {
				return c.App.DelegationKeeper.UndelegateFrom(ctx, &delegationtypes.DelegationOrUndelegationParams{
					ClientChainID: lz, AssetsAddress: aaddr, OperatorAddress: op, StakerAddress: saddr, OpAmount: x,
					LzNonce: nonce, TxHash: hash})
			})
		}
'''),
('''		err := c.CachedDo(func(ctx sdk.Context) error {
			return c.App.DelegationKeeper.AssociateOperatorWithStaker(ctx, lz, op, saddr)
		})
''', '''		var err error
		if w.usePC(lz, nil) {
			err = w.pcAssociate(saddr, op)
		} else {
			err = c.CachedDo(func(ctx sdk.Context) error {
				return c.App.DelegationKeeper.AssociateOperatorWithStaker(ctx, lz, op, saddr)
			})
		}
'''),
('''		err := c.CachedDo(func(ctx sdk.Context) error {
			return c.App.DelegationKeeper.DissociateOperatorFromStaker(ctx, lz, saddr)
		})
''', '''		var err error
		if w.usePC(lz, nil) {
			err = w.pcDissociate(saddr)
		} else {
			err = c.CachedDo(func(ctx sdk.Context) error {
				return c.App.DelegationKeeper.DissociateOperatorFromStaker(ctx, lz, saddr)
			})
		}
'''),
])

# ---- harness/dom_votingpower.go: token of a gateway-registered asset found by name; scenario call
edit('harness/dom_votingpower.go', [
('''	tid := oparams.GetTokenIDFromAssetID(a)
	if tid > 0 {''', '''	tid := oparams.GetTokenIDFromAssetID(a)
	if name, ok := vpGatewayTokens[a]; ok {
		// registered through the gateway together with this oracle token (dom_votingpower_regtoken.go): the
		// binding asset id -> token is what is under test there, so the token is found by its name
		tid = vpTokenIDByName(oparams, name)
	}
	if tid > 0 {'''),
('''	vpScenarioSlashedSelf(env) // dom_votingpower_multi.go
''', '''	vpScenarioSlashedSelf(env) // dom_votingpower_multi.go
	for k := 0; k < env.Int("gwtokens", 2); k++ {
		vpScenarioGatewayToken(env, k) // dom_votingpower_regtoken.go
	}
'''),
])

# ---- registries and known findings: structural (JSON) edits, additive
def jedit(path, f):
    p = root + '/' + path
    d = json.load(open(p), object_pairs_hook=collections.OrderedDict)
    f(d)
    open(p, 'w').write(json.dumps(d, indent=1, ensure_ascii=False) + '\n')

def add(lst, items):
    for x in items:
        if x not in lst:
            lst.append(x)

def c01(d):
    add(d['lean_modules'], ["ExoVerif.Props.C01NstGlue", "ExoVerif.Props.C01NstGlueTie"])
    add(d['required_theorems'], ["C01_nstglue_withdrawal_record", "C01_nstglue_deposit_record", "C01_nstglue_depositNST_value",
        "C01_nstglue_withdrawNST_value", "C01_nstglue_round_books_report", "C01_nstglue_round_value_up", "C01_nstglue_repeat_books_nothing",
        "C01_nstglue_round_idempotent", "C01_nstglue_record_positive", "C01_nstglue_exit_removes_record",
        "C01_tie_nst_withdraw_sign", "C01_tie_nst_validator_list", "C01_tie_nst_balance_change"])
    add(d['facts'], ["nstGlueDepositOrWithdrawSkeleton", "nstGlueValidatorListSkeleton", "nstGlueBalanceChangeSkeleton"])
    if not any(r['domain'] == 'nstglue' for r in d['runs']):
        i = next(k for k, r in enumerate(d['runs']) if r['domain'] == 'ledger') + 1
        d['runs'].insert(i, collections.OrderedDict([("domain", "nstglue"), ("driver", "NstGlue"), ("quick", {"histories": 12, "ops": 60}),
                                                     ("thorough", {"histories": 80, "ops": 120}), ("scale", ["histories"])]))
    extra = (" About half of the client-chain deposits / withdrawals / delegations / undelegations / associations / dissociations of a history are made through the REAL assets / delegation precompiles, called through the EVM as the configured gateway (dom_ledger_precompile.go; the same op line for the model, so the precompile's reading of the ABI arguments - action, sign, address cut, tx hash - is what the model's post-state and the conservation monitor see; pc=0 switches it off). "
             "Domain nstglue (model NstGlue): 2-4 stakers; depositNST of a new validator (32 tokens, sometimes 1-31) and withdrawNST of one of the staker's validators (the whole balance for the last one, a part otherwise; also for stakers without record) through the real assets precompile as the gateway, oracle balance reports (UpdateNSTByBalanceChange with a well-formed bitmap over the on-chain staker list: a negative change for about half of the listed stakers, occasionally a positive one, which the code refuses as a whole), blocks; monitors C01.nst-reported (each staker's deposit figure = 10^decimals x the effective balance that its deposits, withdrawals and the reports add up to, kept by the harness independently of the oracle's record) and C01.conservation (ledger value = deposits - withdrawals + reported adjustments).")
    if 'Domain nstglue' not in d['rule']:
        d['rule'] += extra

def c11(d):
    if not any(r['domain'] == 'livegov' for r in d['runs']):
        i = next(k for k, r in enumerate(d['runs']) if r['domain'] == 'liveness') + 1
        d['runs'].insert(i, collections.OrderedDict([("domain", "livegov"), ("quick", {"cases": 7}), ("thorough", {"cases": 18})]))
    extra = ("; plus (domain livegov) parameter changes of x/dogfood executed by x/gov's EndBlocker (MsgSubmitProposal[dogfood.MsgUpdateParams] + a validator's Yes vote, through the real ABCI path) and, on a testnet chain id, sent as a plain transaction by an ordinary account: one fresh chain per boundary value of the params (MinSelfDelegation absent / 0 / negative / 2^63-1 / 2^63 / 2^64-1 / 2^64 / 2^200, all-zero params, unknown epoch identifier or asset id, 2^32-1 in the uint32 fields), followed by blocks across the end of the voting period / of the dogfood epoch")
    if 'domain livegov' not in d['rule']:
        d['rule'] += extra

def kf(d):
    mine = json.load(open(sys.argv[0].rsplit('/', 1)[0] + '/entry_known_findings.json'))
    ids = {(f['property'], f['id']) for f in d['findings']}
    for f in mine:
        if (f['property'], f['id']) not in ids:
            d['findings'].append(collections.OrderedDict(f))

jedit('registry/C01.json', c01)
jedit('registry/C11.json', c11)
jedit('known_findings.json', kf)
print('applied')
