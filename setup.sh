#!/bin/sh
# MANIFEST.setup_cmd — offline build of the whole framework from files on disk:
# exofacts (Go) -> Generated/*.lean -> lake build (all models, proofs, driver) -> harness (Go, -tags verif)
set -e
cd "$(dirname "$0")"
exec ./check --setup
