import Lean
/-
  Stranger's audit: `lake env lean --run Audit.lean <Module> [<Module>…]`
  loads the compiled modules, enumerates every theorem declared in them and prints, one per
  line,   THEOREM <name> AXIOMS <comma-separated axioms>
  so that ./check can verify that nothing beyond propext / Classical.choice / Quot.sound is used
  (sorryAx shows up here as an axiom).
-/
open Lean

abbrev EnvM := ReaderT Environment Id
instance : MonadEnv EnvM := { getEnv := read, modifyEnv := fun _ => pure () }

unsafe def main (args : List String) : IO UInt32 := do
  initSearchPath (← findSysroot)
  unsafe enableInitializersExecution
  let mods := args.map (fun a => a.toName)
  let env ← importModules (mods.toArray.map (fun m => { module := m })) {} (trustLevel := 1024) (loadExts := true)
  let mut count := 0
  for m in mods do
    match env.getModuleIdx? m with
    | none => IO.eprintln s!"module not found: {m}"; return 2
    | some idx =>
      let names := env.header.moduleData[idx.toNat]!.constNames
      for n in names do
        match env.find? n with
        | some (.thmInfo _) =>
          if n.isInternal then continue
          let axsA : Array Name := (collectAxioms (m := EnvM) n).run env
          let axs := axsA.toList.map toString
          IO.println s!"THEOREM {n} AXIOMS {",".intercalate axs}"
          count := count + 1
        | _ => pure ()
  IO.println s!"AUDITED {count}"
  return 0
