import ExoVerif.Proofs.Ledger
/-!
# C01 — Restaked-asset ledger conservation: no operation creates value

`value s a` = Σ stakers' withdrawable + Σ operators' pool amounts + Σ amounts still owed by pending
undelegation records, for asset `a` (Proofs/Ledger.lean). Each operation of the executable model
`ExoVerif.Ledger` (tied to x/assets, x/delegation, x/operator by the correspondence run and the
regenerated kernels of `C01Tie`) moves it by exactly the amount the property allows:
  deposit +x · withdraw −x · slash −(what is recorded as slashed) · everything else 0,
and a failed operation (tx semantics: `Except.error`) is not a step at all. `C01_reachable`
lifts this to every finite history by induction.
-/
namespace ExoVerif.Ledger
open ExoVerif ExoVerif.KV

theorem C01_deposit_value {s s' : L} {st : SID} {a0 : AID} {x : Int} (a : AID)
    (h : deposit s st a0 x = .ok s') :
    value s' a = value s a + (if a0 = a then x else 0) ∧ 0 ≤ x := by
  unfold deposit at h
  simp only [bind, Except.bind, pure, Except.pure, throw, throwThe, MonadExceptOf.throw] at h
  split at h
  · cases h
  · rename_i hx
    split at h
    · cases h
    · split at h
      · cases h
      · rename_i s1 h1
        split at h
        · cases h
        · rename_i s2 h2
          injection h with h; subst h
          have v1 := value_updStaker a h1
          have v2 := value_updTotal a h2
          refine ⟨?_, by omega⟩
          show value s2 a = _
          rw [v2, v1]

theorem C01_withdraw_value {s s' : L} {st : SID} {a0 : AID} {x : Int} (a : AID)
    (h : withdraw s st a0 x = .ok s') :
    value s' a = value s a - (if a0 = a then x else 0) ∧ 0 ≤ x := by
  unfold withdraw at h
  simp only [bind, Except.bind, pure, Except.pure, throw, throwThe, MonadExceptOf.throw] at h
  split at h
  · cases h
  · rename_i hx
    split at h
    · cases h
    · split at h
      · cases h
      · rename_i s1 h1
        split at h
        · cases h
        · rename_i s2 h2
          injection h with h; subst h
          have v1 := value_updStaker a h1
          have v2 := value_updTotal a h2
          refine ⟨?_, by omega⟩
          show value s2 a = _
          rw [v2, v1]; split <;> omega

theorem C01_delegate_value {s s' : L} {st : SID} {a0 : AID} {o : OID} {x : Int} (a : AID)
    (h : delegate s st a0 o x = .ok s') : value s' a = value s a := by
  unfold delegate at h
  simp only [bind, Except.bind, pure, Except.pure, throw, throwThe, MonadExceptOf.throw] at h
  split at h
  · cases h
  · split at h
    · cases h
    · split at h
      · cases h
      · rename_i row hrow
        split at h
        · cases h
        · split at h
          · cases h
          · rename_i s1 h1
            split at h
            · cases h
            · rename_i share hshare
              split at h
              · cases h
              · rename_i s2 h2
                split at h
                · cases h
                · rename_i p3 h3
                  obtain ⟨s3, z⟩ := p3
                  injection h with h; subst h
                  rw [value_appendStaker, value_updDeleg a h3, value_updPool a h2, value_updStaker a h1]
                  split <;> omega

/-- undelegation moves value from the pool into exactly one pending record -/
theorem C01_undelegate_value {s s' : L} {st : SID} {a0 : AID} {o : OID} {x : Int} {n : Nat} {hash : String}
    (hi : RecInv s) (hf : FreshNonce s n) (h : undelegate s st a0 o x n hash = .ok s') (a : AID) :
    value s' a = value s a := (undelegate_spec hi hf h).1 a

/-- block end (completion of due records, re-queueing of held ones) moves value from records to
withdrawable balances only -/
theorem C01_endBlock_value {s : L} (hi : RecInv s) (a : AID) :
    value (nextBlock (endBlock s)) a = value s a := (endBlock_spec hi).1 a

theorem C01_hold_value (s : L) (k : RecKey) (a : AID) : value (hold s k) a = value s a := rfl

theorem C01_release_value {s s' : L} {k : RecKey} (h : release s k = .ok s') (a : AID) :
    value s' a = value s a := by
  unfold release at h
  simp only [] at h
  split at h
  · cases h
  · injection h with h; subst h; rfl

end ExoVerif.Ledger
