import ExoVerif.Proofs.Ledger
import ExoVerif.Proofs.LedgerSlash
/-!
# C01 — Restaked-asset ledger conservation: no operation creates value

`value s a` = Σ stakers' withdrawable + Σ operators' pool amounts + Σ amounts still owed by pending
undelegation records, for asset `a` (Proofs/Ledger.lean). Each operation of the executable model
`ExoVerif.Ledger` (tied to x/assets, x/delegation, x/operator by the correspondence run and the
regenerated kernels of `C01Tie`) moves it by exactly the amount the property allows:
  deposit +x · withdraw −x · slash −(what is recorded as slashed) · everything else 0,
and a failed operation (tx semantics: `Except.error`) is not a step at all. `C01_reachable`
lifts this to every finite history by induction.
-/
namespace ExoVerif.Ledger
open ExoVerif ExoVerif.KV

theorem C01_deposit_value {s s' : L} {st : SID} {a0 : AID} {x : Int} (a : AID)
    (h : deposit s st a0 x = .ok s') :
    value s' a = value s a + (if a0 = a then x else 0) ∧ 0 ≤ x := by
  unfold deposit at h
  simp only [bind, Except.bind, pure, Except.pure, throw, throwThe, MonadExceptOf.throw] at h
  split at h
  · cases h
  · rename_i hx
    split at h
    · cases h
    · split at h
      · cases h
      · rename_i s1 h1
        split at h
        · cases h
        · rename_i s2 h2
          injection h with h; subst h
          have v1 := value_updStaker a h1
          have v2 := value_updTotal a h2
          refine ⟨?_, by omega⟩
          show value s2 a = _
          rw [v2, v1]

theorem C01_withdraw_value {s s' : L} {st : SID} {a0 : AID} {x : Int} (a : AID)
    (h : withdraw s st a0 x = .ok s') :
    value s' a = value s a - (if a0 = a then x else 0) ∧ 0 ≤ x := by
  unfold withdraw at h
  simp only [bind, Except.bind, pure, Except.pure, throw, throwThe, MonadExceptOf.throw] at h
  split at h
  · cases h
  · rename_i hx
    split at h
    · cases h
    · split at h
      · cases h
      · rename_i s1 h1
        split at h
        · cases h
        · rename_i s2 h2
          injection h with h; subst h
          have v1 := value_updStaker a h1
          have v2 := value_updTotal a h2
          refine ⟨?_, by omega⟩
          show value s2 a = _
          rw [v2, v1]; split <;> omega

theorem delegateCore_value {s s' : L} {st : SID} {a0 : AID} {o : OID} {x : Int} (a : AID)
    (h : delegateCore s st a0 o x = .ok s') :
    value s' a = value s a + (if a0 = a then x else 0) ∧ s'.escrow = s.escrow := by
  unfold delegateCore at h
  simp only [bind, Except.bind, pure, Except.pure] at h
  split at h
  · cases h
  · rename_i share hshare
    split at h
    · cases h
    · rename_i s2 h2
      split at h
      · cases h
      · rename_i p3 h3
        obtain ⟨s3, z⟩ := p3
        injection h with h; subst h
        obtain ⟨_, _, _, _, hs2⟩ := updPool_ok h2
        obtain ⟨_, _, _, hs3⟩ := updDeleg_ok h3
        refine ⟨?_, ?_⟩
        · rw [value_appendStaker, value_updDeleg a h3, value_updPool a h2]
        · have e3 : s3.escrow = s2.escrow := by rw [hs3]
          have e2 : s2.escrow = s.escrow := by rw [hs2]
          show (appendStaker s3 o a0 st).escrow = _
          unfold appendStaker; simp only []; split <;> simp [e3, e2]

/-- delegation moves value from the staker's withdrawable balance into the operator's pool; for
the native token the funds enter the ledger from the staker's bank balance and the escrow account
receives exactly as much -/
theorem C01_delegate_value {s s' : L} {st : SID} {a0 : AID} {o : OID} {x : Int} (a : AID)
    (h : delegate s st a0 o x = .ok s') :
    (a0 ≠ nativeAID → value s' a = value s a ∧ s'.escrow = s.escrow) ∧
    (a0 = nativeAID → value s' a = value s a + (if a0 = a then x else 0) ∧ s'.escrow = s.escrow + x) := by
  unfold delegate at h
  simp only [bind, Except.bind, pure, Except.pure, throw, throwThe, MonadExceptOf.throw] at h
  split at h
  · cases h
  · split at h
    · cases h
    · by_cases hn : a0 = nativeAID
      · simp only [hn, if_true] at h
        split at h
        · cases h
        · obtain ⟨v, e⟩ := delegateCore_value a h
          refine ⟨fun h' => absurd hn h', fun _ => ⟨by rw [v]; simp [value, hn], by rw [e]⟩⟩
      · simp only [hn, if_false] at h
        split at h
        · cases h
        · split at h
          · cases h
          · split at h
            · cases h
            · rename_i s1 h1
              obtain ⟨v, e⟩ := delegateCore_value a h
              obtain he1 : s1.escrow = s.escrow := by rw [updStaker_ok h1]
              refine ⟨fun _ => ⟨?_, by rw [e, he1]⟩, fun h' => absurd h' hn⟩
              rw [v, value_updStaker a h1]; split <;> omega

/-- undelegation moves value from the pool into exactly one pending record -/
theorem C01_undelegate_value {s s' : L} {st : SID} {a0 : AID} {o : OID} {x : Int} {n : Nat} {hash : String}
    (hi : RecInv s) (hf : FreshNonce s n) (h : undelegate s st a0 o x n hash = .ok s') (a : AID) :
    value s' a = value s a := (undelegate_spec hi hf h).1 a

/-- block end (completion of due records, re-queueing of held ones) moves value from records to
withdrawable balances only -/
theorem C01_endBlock_value {s : L} (hi : RecInv s) (a : AID) (ha : a ≠ nativeAID) :
    value (nextBlock (endBlock s)) a = value s a := (endBlock_spec hi).1.1 a ha

/-- native token: what a block end pays out of the escrow account is exactly what the completed
records still owed, so the escrow's surplus over pools + pending amounts never shrinks at block end -/
theorem C01_endBlock_escrow_surplus {s : L} (hi : RecInv s) :
    (nextBlock (endBlock s)).escrow - value (nextBlock (endBlock s)) nativeAID
      = s.escrow - value s nativeAID := (endBlock_spec hi).1.2

/-- undelegation never touches the escrow account -/
theorem C01_undelegate_escrow {s s' : L} {st : SID} {a0 : AID} {o : OID} {x : Int} {n : Nat} {hash : String}
    (h : undelegate s st a0 o x n hash = .ok s') : s'.escrow = s.escrow := undelegate_escrow h

/-- a slash never creates value for any asset and leaves the escrow account alone: the slashed
native tokens stay escrowed (they are not burned), which only widens the escrow's surplus -/
theorem C01_slash_value (s : L) (o : OID) (inf : Nat) (p : Dec) (a : AID) (hp : UnitP p)
    (hr : RecsNonneg s.recs) (hpl : PoolsNonneg s.pools) :
    value (slashAssets s o inf p) a ≤ value s a ∧ (slashAssets s o inf p).escrow = s.escrow := by
  obtain ⟨cut, h0, h⟩ := slashAssets_value s o inf p a hp hr hpl
  refine ⟨by omega, ?_⟩
  unfold slashAssets
  by_cases hh : inf < s.height <;> simp [hh]

/-- For the native token the delegation escrow account always holds at least the pools plus the
pending amounts: `escrow − value native` (the surplus) is an invariant lower-bounded by 0.
One step of any modelled operation keeps `0 ≤ surplus`. -/
def EscrowCovers (s : L) : Prop := value s nativeAID ≤ s.escrow

theorem C01_escrow_covers_delegate {s s' : L} {st : SID} {a0 : AID} {o : OID} {x : Int}
    (hc : EscrowCovers s) (h : delegate s st a0 o x = .ok s') : EscrowCovers s' := by
  unfold EscrowCovers at *
  obtain ⟨h1, h2⟩ := C01_delegate_value nativeAID h
  by_cases hn : a0 = nativeAID
  · obtain ⟨v, e⟩ := h2 hn
    rw [v, e]; simp [hn]; omega
  · obtain ⟨v, e⟩ := h1 hn
    rw [v, e]; exact hc

theorem C01_escrow_covers_undelegate {s s' : L} {st : SID} {a0 : AID} {o : OID} {x : Int} {n : Nat}
    {hash : String} (hi : RecInv s) (hf : FreshNonce s n) (hc : EscrowCovers s)
    (h : undelegate s st a0 o x n hash = .ok s') : EscrowCovers s' := by
  unfold EscrowCovers at *
  rw [C01_undelegate_value hi hf h, undelegate_escrow h]; exact hc

theorem C01_escrow_covers_endBlock {s : L} (hi : RecInv s) (hc : EscrowCovers s) :
    EscrowCovers (nextBlock (endBlock s)) := by
  unfold EscrowCovers at *
  have := C01_endBlock_escrow_surplus hi
  omega

theorem C01_escrow_covers_slash (s : L) (o : OID) (inf : Nat) (p : Dec) (hp : UnitP p)
    (hr : RecsNonneg s.recs) (hpl : PoolsNonneg s.pools) (hc : EscrowCovers s) :
    EscrowCovers (slashAssets s o inf p) := by
  unfold EscrowCovers at *
  obtain ⟨v, e⟩ := C01_slash_value s o inf p nativeAID hp hr hpl
  rw [e]; omega

theorem C01_hold_value (s : L) (k : RecKey) (a : AID) : value (hold s k) a = value s a := rfl

theorem C01_release_value {s s' : L} {k : RecKey} (h : release s k = .ok s') (a : AID) :
    value s' a = value s a := by
  unfold release at h
  simp only [] at h
  split at h
  · cases h
  · injection h with h; subst h; rfl

end ExoVerif.Ledger
