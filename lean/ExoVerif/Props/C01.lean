import ExoVerif.Proofs.Ledger
import ExoVerif.Proofs.LedgerSlash
import ExoVerif.Proofs.LedgerReach
/-!
# C01 — Restaked-asset ledger conservation: no operation creates value

`value s a` = Σ stakers' withdrawable + Σ operators' pool amounts + Σ amounts still owed by pending
undelegation records, for asset `a` (Proofs/Ledger.lean). Each operation of the executable model
`ExoVerif.Ledger` (tied to x/assets, x/delegation, x/operator by the correspondence run and the
regenerated kernels of `C01Tie`) moves it by exactly the amount the property allows:
  deposit +x · withdraw −x · slash −(what is recorded as slashed) · everything else 0,
and a failed operation (tx semantics: `Except.error`) is not a step at all. `C01_reachable`
lifts this to every finite history by induction.
-/
namespace ExoVerif.Ledger
open ExoVerif ExoVerif.KV

theorem C01_deposit_value {s s' : L} {st : SID} {a0 : AID} {x : Int} (a : AID)
    (h : deposit s st a0 x = .ok s') :
    value s' a = value s a + (if a0 = a then x else 0) ∧ 0 ≤ x := by
  unfold deposit at h
  simp only [bind, Except.bind, pure, Except.pure, throw, throwThe, MonadExceptOf.throw] at h
  split at h
  · cases h
  · rename_i hx
    split at h
    · cases h
    · split at h
      · cases h
      · rename_i s1 h1
        split at h
        · cases h
        · rename_i s2 h2
          injection h with h; subst h
          have v1 := value_updStaker a h1
          have v2 := value_updTotal a h2
          refine ⟨?_, by omega⟩
          show value s2 a = _
          rw [v2, v1]

theorem C01_withdraw_value {s s' : L} {st : SID} {a0 : AID} {x : Int} (a : AID)
    (h : withdraw s st a0 x = .ok s') :
    value s' a = value s a - (if a0 = a then x else 0) ∧ 0 ≤ x := by
  unfold withdraw at h
  simp only [bind, Except.bind, pure, Except.pure, throw, throwThe, MonadExceptOf.throw] at h
  split at h
  · cases h
  · rename_i hx
    split at h
    · cases h
    · split at h
      · cases h
      · rename_i s1 h1
        split at h
        · cases h
        · rename_i s2 h2
          injection h with h; subst h
          have v1 := value_updStaker a h1
          have v2 := value_updTotal a h2
          refine ⟨?_, by omega⟩
          show value s2 a = _
          rw [v2, v1]; split <;> omega

theorem delegateCore_value {s s' : L} {st : SID} {a0 : AID} {o : OID} {x : Int} (a : AID)
    (h : delegateCore s st a0 o x = .ok s') :
    value s' a = value s a + (if a0 = a then x else 0) ∧ s'.escrow = s.escrow := by
  unfold delegateCore at h
  simp only [bind, Except.bind, pure, Except.pure] at h
  split at h
  · cases h
  · rename_i share hshare
    split at h
    · cases h
    · rename_i s2 h2
      split at h
      · cases h
      · rename_i p3 h3
        obtain ⟨s3, z⟩ := p3
        injection h with h; subst h
        obtain ⟨_, _, _, _, hs2⟩ := updPool_ok h2
        obtain ⟨_, _, _, hs3⟩ := updDeleg_ok h3
        refine ⟨?_, ?_⟩
        · rw [value_appendStaker, value_updDeleg a h3, value_updPool a h2]
        · have e3 : s3.escrow = s2.escrow := by rw [hs3]
          have e2 : s2.escrow = s.escrow := by rw [hs2]
          show (appendStaker s3 o a0 st).escrow = _
          unfold appendStaker; simp only []; split <;> simp [e3, e2]

/-- delegation moves value from the staker's withdrawable balance into the operator's pool; for
the native token the funds enter the ledger from the staker's bank balance and the escrow account
receives exactly as much -/
theorem C01_delegate_value {s s' : L} {st : SID} {a0 : AID} {o : OID} {x : Int} (a : AID)
    (h : delegate s st a0 o x = .ok s') :
    (a0 ≠ nativeAID → value s' a = value s a ∧ s'.escrow = s.escrow) ∧
    (a0 = nativeAID → value s' a = value s a + (if a0 = a then x else 0) ∧ s'.escrow = s.escrow + x) := by
  unfold delegate at h
  simp only [bind, Except.bind, pure, Except.pure, throw, throwThe, MonadExceptOf.throw] at h
  split at h
  · cases h
  · split at h
    · cases h
    · by_cases hn : a0 = nativeAID
      · simp only [hn, if_true] at h
        split at h
        · cases h
        · obtain ⟨v, e⟩ := delegateCore_value a h
          refine ⟨fun h' => absurd hn h', fun _ => ⟨by rw [v]; simp [value, hn], by rw [e]⟩⟩
      · simp only [hn, if_false] at h
        split at h
        · cases h
        · split at h
          · cases h
          · split at h
            · cases h
            · rename_i s1 h1
              obtain ⟨v, e⟩ := delegateCore_value a h
              obtain he1 : s1.escrow = s.escrow := by rw [updStaker_ok h1]
              refine ⟨fun _ => ⟨?_, by rw [e, he1]⟩, fun h' => absurd h' hn⟩
              rw [v, value_updStaker a h1]; split <;> omega

/-- undelegation moves value from the pool into exactly one pending record -/
theorem C01_undelegate_value {s s' : L} {st : SID} {a0 : AID} {o : OID} {x : Int} {n : Nat} {hash : String}
    (hi : RecInv s) (hf : FreshNonce s n) (h : undelegate s st a0 o x n hash = .ok s') (a : AID) :
    value s' a = value s a := (undelegate_spec hi hf h).1 a

/-- block end (completion of due records, re-queueing of held ones) moves value from records to
withdrawable balances only -/
theorem C01_endBlock_value {s : L} (hi : RecInv s) (a : AID) (ha : a ≠ nativeAID) :
    value (nextBlock (endBlock s)) a = value s a := (endBlock_spec hi).1.1 a ha

/-- native token: what a block end pays out of the escrow account is exactly what the completed
records still owed, so the escrow's surplus over pools + pending amounts never shrinks at block end -/
theorem C01_endBlock_escrow_surplus {s : L} (hi : RecInv s) :
    (nextBlock (endBlock s)).escrow - value (nextBlock (endBlock s)) nativeAID
      = s.escrow - value s nativeAID := (endBlock_spec hi).1.2

/-- undelegation never touches the escrow account -/
theorem C01_undelegate_escrow {s s' : L} {st : SID} {a0 : AID} {o : OID} {x : Int} {n : Nat} {hash : String}
    (h : undelegate s st a0 o x n hash = .ok s') : s'.escrow = s.escrow := undelegate_escrow h

/-- a slash never creates value for any asset and leaves the escrow account alone: the slashed
native tokens stay escrowed (they are not burned), which only widens the escrow's surplus -/
theorem C01_slash_value (s : L) (o : OID) (inf : Nat) (p : Dec) (a : AID) (hp : UnitP p)
    (hr : RecsNonneg s.recs) (hpl : PoolsNonneg s.pools) :
    value (slashAssets s o inf p) a ≤ value s a ∧ (slashAssets s o inf p).escrow = s.escrow := by
  obtain ⟨cut, h0, h⟩ := slashAssets_value s o inf p a hp hr hpl
  refine ⟨by omega, ?_⟩
  unfold slashAssets
  by_cases hh : inf < s.height <;> simp [hh]

/-- For the native token the delegation escrow account always holds at least the pools plus the
pending amounts: `escrow − value native` (the surplus) is an invariant lower-bounded by 0.
One step of any modelled operation keeps `0 ≤ surplus`. -/
def EscrowCovers (s : L) : Prop := value s nativeAID ≤ s.escrow

theorem C01_escrow_covers_delegate {s s' : L} {st : SID} {a0 : AID} {o : OID} {x : Int}
    (hc : EscrowCovers s) (h : delegate s st a0 o x = .ok s') : EscrowCovers s' := by
  unfold EscrowCovers at *
  obtain ⟨h1, h2⟩ := C01_delegate_value nativeAID h
  by_cases hn : a0 = nativeAID
  · obtain ⟨v, e⟩ := h2 hn
    rw [v, e]; simp [hn]; omega
  · obtain ⟨v, e⟩ := h1 hn
    rw [v, e]; exact hc

theorem C01_escrow_covers_undelegate {s s' : L} {st : SID} {a0 : AID} {o : OID} {x : Int} {n : Nat}
    {hash : String} (hi : RecInv s) (hf : FreshNonce s n) (hc : EscrowCovers s)
    (h : undelegate s st a0 o x n hash = .ok s') : EscrowCovers s' := by
  unfold EscrowCovers at *
  rw [C01_undelegate_value hi hf h, undelegate_escrow h]; exact hc

theorem C01_escrow_covers_endBlock {s : L} (hi : RecInv s) (hc : EscrowCovers s) :
    EscrowCovers (nextBlock (endBlock s)) := by
  unfold EscrowCovers at *
  have := C01_endBlock_escrow_surplus hi
  omega

theorem C01_escrow_covers_slash (s : L) (o : OID) (inf : Nat) (p : Dec) (hp : UnitP p)
    (hr : RecsNonneg s.recs) (hpl : PoolsNonneg s.pools) (hc : EscrowCovers s) :
    EscrowCovers (slashAssets s o inf p) := by
  unfold EscrowCovers at *
  obtain ⟨v, e⟩ := C01_slash_value s o inf p nativeAID hp hr hpl
  rw [e]; omega

theorem C01_hold_value (s : L) (k : RecKey) (a : AID) : value (hold s k) a = value s a := rfl

theorem C01_release_value {s s' : L} {k : RecKey} (h : release s k = .ok s') (a : AID) :
    value s' a = value s a := by
  unfold release at h
  simp only [] at h
  split at h
  · cases h
  · injection h with h; subst h; rfl


/-! ## every finite history -/

/-- the operations of the ledger (LST/NST-style assets; the native token's own statement is
`EscrowCovers`). `slash o inf p` is SlashAssets for the re-based, capped proportion `p`. -/
inductive LOp where
  | deposit (st : SID) (a : AID) (x : Int)
  | withdraw (st : SID) (a : AID) (x : Int)
  | delegate (st : SID) (a : AID) (o : OID) (x : Int)
  | undelegate (st : SID) (a : AID) (o : OID) (x : Int) (n : Nat) (hash : String)
  | associate (st : SID) (o : OID)
  | dissociate (st : SID)
  | hold (k : RecKey)
  | release (k : RecKey)
  | blockEnd
  | slash (o : OID) (inf : Nat) (p : Dec)

/-- one step with transaction semantics: a rejected operation is not a step -/
def lstep (s : L) : LOp → L
  | .deposit st a x => match deposit s st a x with | .ok s' => s' | .error _ => s
  | .withdraw st a x => match withdraw s st a x with | .ok s' => s' | .error _ => s
  | .delegate st a o x => match delegate s st a o x with | .ok s' => s' | .error _ => s
  | .undelegate st a o x n h => match undelegate s st a o x n h with | .ok s' => s' | .error _ => s
  | .associate st o => match associate s st o with | .ok s' => s' | .error _ => s
  | .dissociate st => match dissociate s st with | .ok s' => s' | .error _ => s
  | .hold k => hold s k
  | .release k => match release s k with | .ok s' => s' | .error _ => s
  | .blockEnd => nextBlock (endBlock s)
  | .slash o inf p => slashAssets s o inf p

/-- what the environment guarantees about an operation when it is issued: undelegations carry a
nonce no live record uses (LayerZero nonce discipline, see C03/F-03a); a slash comes with a
proportion in [0,1] and meets non-negative pools and records -/
def OpOk (s : L) : LOp → Prop
  | .undelegate _ _ _ _ n _ => FreshNonce s n
  | .slash _ _ p => UnitP p ∧ RecsNonneg s.recs ∧ PoolsNonneg s.pools
  | _ => True

def AllOk : L → List LOp → Prop
  | _, [] => True
  | s, op :: rest => OpOk s op ∧ AllOk (lstep s op) rest

/-- C01, one step: for every restaked (non-native) asset, value − deposits + withdrawals + slashed is
unchanged by every operation, accepted or rejected; the record stores stay consistent. -/
theorem C01_net_step (s : L) (op : LOp) (a : AID) (ha : a ≠ nativeAID) (hi : RecInv s) (hok : OpOk s op) :
    net (lstep s op) a = net s a ∧ RecInv (lstep s op) := by
  cases op with
  | deposit st a0 x =>
    simp only [lstep]; split
    · rename_i s' h
      refine ⟨?_, ?_⟩
      · have hv := (C01_deposit_value a h).1
        unfold deposit at h
        simp only [bind, Except.bind, pure, Except.pure, throw, throwThe, MonadExceptOf.throw] at h
        split at h
        · cases h
        · split at h
          · cases h
          · split at h
            · cases h
            · rename_i s1 h1
              split at h
              · cases h
              · rename_i s2 h2
                injection h with h
                obtain ⟨t, _, hs2⟩ := updTotal_ok h2
                have g : ghosts s2 = ghosts s := by have g0 := updStaker_ghosts h1; rw [hs2]; exact g0
                unfold ghosts at g; injection g with g1 g23; injection g23 with g2 g3
                unfold net
                rw [hv, ← h]
                simp only [getD_ghostAdd, g1, g2, g3]; split <;> omega
      · unfold deposit at h
        simp only [bind, Except.bind, pure, Except.pure, throw, throwThe, MonadExceptOf.throw] at h
        split at h
        · cases h
        · split at h
          · cases h
          · split at h
            · cases h
            · rename_i s1 h1
              split at h
              · cases h
              · rename_i s2 h2
                injection h with h
                obtain ⟨t, _, hs2⟩ := updTotal_ok h2
                obtain ⟨r1, r2, r3, _⟩ := updStaker_recs h1
                rw [← h]
                exact recInv_congr hi (by rw [hs2]; exact r1) (by rw [hs2]; exact r2) (by rw [hs2]; exact r3)
    · exact ⟨rfl, hi⟩
  | withdraw st a0 x =>
    simp only [lstep]; split
    · rename_i s' h
      refine ⟨?_, ?_⟩
      · have hv := (C01_withdraw_value a h).1
        unfold withdraw at h
        simp only [bind, Except.bind, pure, Except.pure, throw, throwThe, MonadExceptOf.throw] at h
        split at h
        · cases h
        · split at h
          · cases h
          · split at h
            · cases h
            · rename_i s1 h1
              split at h
              · cases h
              · rename_i s2 h2
                injection h with h
                obtain ⟨t, _, hs2⟩ := updTotal_ok h2
                have g : ghosts s2 = ghosts s := by have g0 := updStaker_ghosts h1; rw [hs2]; exact g0
                unfold ghosts at g; injection g with g1 g23; injection g23 with g2 g3
                unfold net
                rw [hv, ← h]
                simp only [getD_ghostAdd, g1, g2, g3]; split <;> omega
      · unfold withdraw at h
        simp only [bind, Except.bind, pure, Except.pure, throw, throwThe, MonadExceptOf.throw] at h
        split at h
        · cases h
        · split at h
          · cases h
          · split at h
            · cases h
            · rename_i s1 h1
              split at h
              · cases h
              · rename_i s2 h2
                injection h with h
                obtain ⟨t, _, hs2⟩ := updTotal_ok h2
                obtain ⟨r1, r2, r3, _⟩ := updStaker_recs h1
                rw [← h]
                exact recInv_congr hi (by rw [hs2]; exact r1) (by rw [hs2]; exact r2) (by rw [hs2]; exact r3)
    · exact ⟨rfl, hi⟩
  | delegate st a0 o x =>
    simp only [lstep]; split
    · rename_i s' h
      obtain ⟨g, r1, r2, r3, _⟩ := delegate_frame h
      unfold ghosts at g; injection g with g1 g23; injection g23 with g2 g3
      obtain ⟨h1, h2⟩ := C01_delegate_value a h
      have hv : value s' a = value s a := by
        by_cases hn : a0 = nativeAID
        · rw [(h2 hn).1]; have : ¬ a0 = a := fun e => ha (e ▸ hn); simp [this]
        · exact (h1 hn).1
      exact ⟨by unfold net; rw [hv, g1, g2, g3], recInv_congr hi r1 r2 r3⟩
    · exact ⟨rfl, hi⟩
  | undelegate st a0 o x n hash =>
    simp only [lstep]; split
    · rename_i s' h
      have g := undelegate_ghosts h
      unfold ghosts at g; injection g with g1 g23; injection g23 with g2 g3
      obtain ⟨hv, hi', _⟩ := undelegate_spec hi hok h
      exact ⟨by unfold net; rw [hv a, g1, g2, g3], hi'⟩
    · exact ⟨rfl, hi⟩
  | associate st o =>
    simp only [lstep]; split
    · rename_i s' h
      unfold associate at h
      simp only [bind, Except.bind, pure, Except.pure, throw, throwThe, MonadExceptOf.throw] at h
      split at h
      · cases h
      · split at h
        · cases h
        · split at h
          · cases h
          · split at h
            · cases h
            · rename_i s1 h1
              injection h with h
              obtain ⟨v, ⟨r1, r2, r3, _⟩, g1, g2, g3, _⟩ := value_foldlM_opShare _ o (fun r => r.share) a h1
              rw [← h]
              exact ⟨by unfold net value at *; simp only []; rw [g1, g2, g3]; omega, recInv_congr hi r1 r2 r3⟩
    · exact ⟨rfl, hi⟩
  | dissociate st =>
    simp only [lstep]; split
    · rename_i s' h
      unfold dissociate at h
      simp only [bind, Except.bind, pure, Except.pure, throw, throwThe, MonadExceptOf.throw] at h
      split at h
      · cases h
      · rename_i o ho
        split at h
        · cases h
        · rename_i s1 h1
          injection h with h
          obtain ⟨v, ⟨r1, r2, r3, _⟩, g1, g2, g3, _⟩ := value_foldlM_opShare _ o (fun r => r.share.neg) a h1
          rw [← h]
          exact ⟨by unfold net value at *; simp only []; rw [g1, g2, g3]; omega, recInv_congr hi r1 r2 r3⟩
    · exact ⟨rfl, hi⟩
  | hold k => exact ⟨rfl, recInv_congr hi rfl rfl rfl⟩
  | release k =>
    simp only [lstep]; split
    · rename_i s' h
      unfold release at h
      simp only [] at h
      split at h
      · cases h
      · injection h with h; rw [← h]; exact ⟨rfl, recInv_congr hi rfl rfl rfl⟩
    · exact ⟨rfl, hi⟩
  | blockEnd =>
    simp only [lstep]
    have g := endBlock_ghosts s
    unfold ghosts at g; injection g with g1 g23; injection g23 with g2 g3
    refine ⟨?_, recInv_congr (endBlock_spec hi).2.1 rfl rfl rfl⟩
    unfold net; rw [C01_endBlock_value hi a ha, g1, g2, g3]
  | slash o inf p =>
    simp only [lstep]
    obtain ⟨hp, hr, hpl⟩ := hok
    exact ⟨slashAssets_net s o inf p a hp hr hpl, recInv_slashAssets o inf p hi⟩

/-- **C01 over every finite history**: for every non-native asset, after any finite interleaving of
deposits, withdrawals, delegations, undelegations, associations, dissociations, holds, releases,
block ends and slashes (each issued under `OpOk`), the sum of withdrawable balances, operator pools
and amounts owed by pending undelegations equals what it was plus deposits minus withdrawals minus
slashed amounts accumulated since; i.e. only a deposit ever increases it. -/
theorem C01_reachable (s : L) (ops : List LOp) (a : AID) (ha : a ≠ nativeAID) (hi : RecInv s)
    (hok : AllOk s ops) : net (ops.foldl lstep s) a = net s a ∧ RecInv (ops.foldl lstep s) := by
  induction ops generalizing s with
  | nil => exact ⟨rfl, hi⟩
  | cons op rest ih =>
    simp only [List.foldl_cons]
    obtain ⟨h1, h2⟩ := hok
    obtain ⟨n1, i1⟩ := C01_net_step s op a ha hi h1
    obtain ⟨n2, i2⟩ := ih (lstep s op) i1 h2
    exact ⟨by rw [n2, n1], i2⟩

/-! non-vacuity: a concrete state meets the hypotheses, a concrete history with an accepted
undelegation, a completed record and a slash is `AllOk`, and the conclusion is checked on it. -/

private def e1 : L :=
  { height := 5, unbonding := 2, totals := [("a", 100)], operators := ["o1", "o2"], clientChains := [],
    stakers := [(("s", "a"), ⟨100, 0, 0⟩)],
    pools := [(("o1", "a"), ⟨50, 0, ⟨50000000000000000000⟩, ⟨0⟩⟩), (("o2", "a"), ⟨50, 0, ⟨50000000000000000000⟩, ⟨0⟩⟩)],
    deleg := [(("s", "a", "o1"), ⟨⟨50000000000000000000⟩, 0⟩), (("s", "a", "o2"), ⟨⟨50000000000000000000⟩, 0⟩)],
    slist := [(("o1", "a"), ["s"]), (("o2", "a"), ["s"])], assoc := [], recs := [], sidx := [], pidx := [],
    holds := [], bal := [], escrow := 0, gDep := [], gWd := [], gSlashed := [] }

private def ops1 : List LOp :=
  [.deposit "s" "a" 40, .delegate "s" "a" "o1" 30, .undelegate "s" "a" "o1" 10 7 "0xh", .blockEnd,
   .slash "o1" 4 ⟨100000000000000000⟩, .blockEnd, .blockEnd, .withdraw "s" "a" 5]

example : RecInv e1 :=
  ⟨by unfold NoDup keys; decide, by unfold NoDup keys; decide, by unfold NoDup keys; decide,
   by intro k r h; simp [e1, find?] at h, by intro k r h; simp [e1, find?] at h,
   by intro k r h; simp [e1, find?] at h, by intro k1 k2 r1 r2 h; simp [e1, find?] at h⟩
example : "a" ≠ nativeAID := by decide
example : (ops1.foldl lstep e1).recs = [] ∧ (ops1.foldl lstep e1).gSlashed = [("a", 8)] ∧
    net (ops1.foldl lstep e1) "a" = net e1 "a" ∧ value (ops1.foldl lstep e1) "a" = 127 := by decide

end ExoVerif.Ledger
