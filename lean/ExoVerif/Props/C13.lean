import ExoVerif.Proofs.Oracle
/-!
# C13 — oracle submissions: strict admission, bounded fee-less traffic

The ante branch for create-price transactions (`anteHandle`), the nonce rule (`Store.checkNonce`)
and DeliverTx (`deliverTx`) of the model in Model/Oracle.lean.
-/
namespace ExoVerif.Oracle

def witnessParams : Params :=
  { maxNonce := 3, thA := 2, thB := 3, maxDetID := 5, maxSizePrices := 100, sources := [], rules := [],
    tokenDecimals := [], feeders := [] }

def witnessState : State :=
  { store := { prices := [], nonces := [((0, 1), 0)], recentMsgs := [], msgIndex := [], recentParams := [],
               paramsIndex := [], vuBlock := none, params := witnessParams },
    agc := none, cache := none, dogfood := [(0, 10)], height := 3, blockTime := 0 }

/-- a submission in validator 0's name whose signature does not verify -/
def forgedTx : Tx :=
  { size := 300, infos := [{ pubkeyMatches := true, sigValid := false }],
    msgs := [{ creator := 0, feederID := 1, basedBlock := 2, nonce := 1, prices := [] }] }

/-- a submission in validator 0's name carrying no SignerInfo at all (F-10c, second form) -/
def unsignedTx : Tx := { forgedTx with infos := [] }

/-- messages of validators 0 and 1, only validator 0's SignerInfo (F-10c, first form) -/
def halfSignedTx : Tx :=
  { size := 400, infos := [{ pubkeyMatches := true, sigValid := true }],
    msgs := [{ creator := 0, feederID := 1, basedBlock := 2, nonce := 1, prices := [] },
             { creator := 1, feederID := 1, basedBlock := 2, nonce := 1, prices := [] }] }

/-- The property's admission clause, stated outright and in both directions, for transactions with
any number of messages and signers: a create-price transaction is admitted ⇔ it respects the size
limit ∧ carries exactly one SignerInfo per signer ∧ each of them holds that signer's public key ∧
each signature verifies against it ∧ every message carries its sender's next consecutive nonce
within MaxNonce (in order; a nonce entry exists only for validators of an open round). -/
theorem C13_admitted_iff (s : State) (tx : Tx) (st : Store) :
    anteHandle s tx = .ok st ↔
      (tx.size ≤ 1000 ∧ tx.infos.length = tx.signers.length ∧
        (∀ i ∈ tx.infos, i.pubkeyMatches = true ∧ i.sigValid = true) ∧
        anteNonces s.store.params.maxNonce s.store tx.msgs = some st) := by
  unfold anteHandle
  by_cases h1 : tx.size > 1000
  · simp [h1]; intro h; omega
  · by_cases h0 : tx.infos.length = tx.signers.length
    · by_cases h2 : (tx.infos.any (fun i => !i.pubkeyMatches)) = true
      · simp only [h1, h0, h2, if_true, if_false, ne_eq, not_true_eq_false]
        constructor
        · intro h; cases h
        · intro h
          obtain ⟨i, hi, hp⟩ := List.any_eq_true.mp h2
          have := (h.2.2.1 i hi).1
          simp [this] at hp
      · by_cases h4 : (tx.infos.any (fun i => !i.sigValid)) = true
        · simp only [h1, h0, h2, h4, if_true, if_false, ne_eq, not_true_eq_false, Bool.false_eq_true]
          constructor
          · intro h; cases h
          · intro h
            obtain ⟨i, hi, hp⟩ := List.any_eq_true.mp h4
            have := (h.2.2.1 i hi).2
            simp [this] at hp
        · have hall : ∀ i ∈ tx.infos, i.pubkeyMatches = true ∧ i.sigValid = true := by
            intro i hi
            constructor
            · cases hp : i.pubkeyMatches with
              | true => rfl
              | false => exact absurd (List.any_eq_true.mpr ⟨i, hi, by simp [hp]⟩) h2
            · cases hp : i.sigValid with
              | true => rfl
              | false => exact absurd (List.any_eq_true.mpr ⟨i, hi, by simp [hp]⟩) h4
          cases h3 : anteNonces s.store.params.maxNonce s.store tx.msgs with
          | none => simp [h1, h0, h2, h4, h3]
          | some st' =>
            simp only [h1, h0, h2, h4, h3, if_false, ne_eq, not_true_eq_false, Bool.false_eq_true]
            constructor
            · intro h; cases h; exact ⟨by omega, trivial, hall, rfl⟩
            · intro h; cases h.2.2.2; rfl
    · simp only [h1, if_false, ne_eq, h0, not_false_eq_true, if_true]
      constructor
      · intro h; cases h
      · intro h; simp [h0] at h

/-- `C13_full`: admitted ⇒ every conjunct of the property's admission clause, for every signer
(holds since the repairs of F-10a and F-10c; `Props/C13Tie.lean` ties the signature step and the
signer-count check to the source). -/
def C13_full : Prop :=
  ∀ (s : State) (tx : Tx) (st : Store), anteHandle s tx = .ok st →
    tx.size ≤ 1000 ∧ tx.infos.length = tx.signers.length ∧
    (∀ i ∈ tx.infos, i.pubkeyMatches = true ∧ i.sigValid = true) ∧
    anteNonces s.store.params.maxNonce s.store tx.msgs = some st

theorem C13_full_holds : C13_full := fun s tx st h => (C13_admitted_iff s tx st).mp h

/-- every signer of an admitted tx is covered by a verified SignerInfo: nobody's submission is
admitted on somebody else's signature -/
theorem C13_every_signer_signed (s : State) (tx : Tx) (st : Store) (h : anteHandle s tx = .ok st)
    (k : Nat) (hk : k < tx.signers.length) :
    ∃ i, tx.infos[k]? = some i ∧ i.pubkeyMatches = true ∧ i.sigValid = true := by
  obtain ⟨_, hlen, hall, _⟩ := (C13_admitted_iff s tx st).mp h
  have hk' : k < tx.infos.length := by omega
  exact ⟨tx.infos[k], by simp [hk'], hall _ (List.getElem_mem hk')⟩

/-- Regression for F-10a: the forged submission (validator's public key, invalid signature, next
nonce) is refused by the ante chain. -/
theorem C13_forged_signature_rejected : anteHandle witnessState forgedTx = .error "sig" := by
  simp [anteHandle, witnessState, forgedTx, Tx.signers, dedupNat]

/-- Regressions for F-10c: a tx without SignerInfo, and a tx whose second signer has none, are
refused. -/
theorem C13_missing_signer_info_rejected :
    anteHandle witnessState unsignedTx = .error "sig" ∧ anteHandle witnessState halfSignedTx = .error "sig" := by
  constructor <;> simp [anteHandle, witnessState, unsignedTx, forgedTx, halfSignedTx, Tx.signers, dedupNat]

/-! ### several signers, several messages (seeds C10-f / C13-f) -/

/-- messages of validators 0 and 1, both SignerInfos present with the right keys, the SECOND
signature does not verify (an arbitrary 64-byte string in validator 1's slot) -/
def forgedCosignerTx : Tx :=
  { halfSignedTx with infos := [{ pubkeyMatches := true, sigValid := true }, { pubkeyMatches := true, sigValid := false }] }

/-- three signers, only the THIRD slot is bad -/
def forgedThirdSignerTx : Tx :=
  { size := 500,
    infos := [{ pubkeyMatches := true, sigValid := true }, { pubkeyMatches := true, sigValid := true }, { pubkeyMatches := true, sigValid := false }],
    msgs := [{ creator := 0, feederID := 1, basedBlock := 2, nonce := 1, prices := [] },
             { creator := 1, feederID := 1, basedBlock := 2, nonce := 1, prices := [] },
             { creator := 2, feederID := 1, basedBlock := 2, nonce := 1, prices := [] }] }

/-- a bad signature in ANY slot refuses the tx: position-independent, for every number of signers -/
theorem C13_any_bad_slot_rejected (s : State) (tx : Tx) (i : SigInfo) (hi : i ∈ tx.infos)
    (hbad : i.sigValid = false ∨ i.pubkeyMatches = false) (st : Store) : anteHandle s tx ≠ .ok st := by
  intro h
  have := ((C13_admitted_iff s tx st).mp h).2.2.1 i hi
  rcases hbad with hb | hb <;> simp [hb] at this

/-- Regressions for seed C10-f (only the first signature verified): second slot of two, third of three. -/
theorem C13_forged_cosigner_rejected :
    anteHandle witnessState forgedCosignerTx = .error "sig" ∧ anteHandle witnessState forgedThirdSignerTx = .error "sig" := by
  constructor <;> simp [anteHandle, witnessState, forgedCosignerTx, forgedThirdSignerTx, halfSignedTx, Tx.signers, dedupNat]

/-- sigverify.go, oracle branch, the signature loop as written:
`for i, sig := range sigs { … if !simulate && !pubKey.VerifySignature(…) { return ctx, err } }; return next(…)`
— `true` = `next` is reached. (`Props/C13Tie.lean: C13_tie_sig_loop` ties this shape to the source: one loop
over `sigs`, only error returns inside, the guard at the top level of the body, `next` after the loop.) -/
def sigLoop : List SigInfo → Bool
  | [] => true
  | i :: rest => if !i.sigValid then false else sigLoop rest

/-- the loop reaches `next` ⇔ EVERY slot verifies — it is the `infos.any (!·.sigValid)` test of `anteHandle` -/
theorem C13_sig_loop_verifies_every_slot (l : List SigInfo) :
    (sigLoop l = true ↔ ∀ i ∈ l, i.sigValid = true) ∧ sigLoop l = !(l.any (fun i => !i.sigValid)) := by
  induction l with
  | nil => simp [sigLoop]
  | cons a rest ih =>
    cases ha : a.sigValid <;> simp [sigLoop, ha, ih.1, ih.2]

/-- the loop with `return next(…)` moved into its body (seed C10-f): only slot 0 is looked at -/
def sigLoopFirstOnly : List SigInfo → Bool
  | [] => false
  | i :: _ => if !i.sigValid then false else true

/-- … which is a different function: it lets `forgedCosignerTx` through -/
theorem C13_first_slot_only_differs :
    sigLoopFirstOnly forgedCosignerTx.infos = true ∧ sigLoop forgedCosignerTx.infos = false := by decide

/-- two submissions of validator 0 (nonces 1 and 2) in one tx of 1198 bytes — each message far below
the limit, the tx above it (seed C13-f: limit multiplied by the number of messages) -/
def batchedTx : Tx :=
  { size := 1198, infos := [{ pubkeyMatches := true, sigValid := true }],
    msgs := [{ creator := 0, feederID := 1, basedBlock := 2, nonce := 1, prices := [] },
             { creator := 0, feederID := 1, basedBlock := 2, nonce := 2, prices := [] }] }

/-- The size rule is per TRANSACTION: the tx is refused for its size ⇔ its raw size exceeds 1000
bytes — whatever the number of messages, signers, signatures and nonces it carries. -/
theorem C13_size_error_iff (s : State) (tx : Tx) : anteHandle s tx = .error "size" ↔ 1000 < tx.size := by
  unfold anteHandle
  by_cases h1 : tx.size > 1000
  · simp [h1]
  · simp only [h1, if_false]
    constructor
    · intro h
      exfalso
      split at h
      · simp at h
      · split at h
        · simp at h
        · split at h
          · simp at h
          · split at h <;> simp at h
    · intro h
      first
        | exact h.elim
        | exact absurd h h1

/-- no multiple of the limit is granted to a tx with several messages -/
theorem C13_size_limit_not_per_message (s : State) (tx : Tx) (h : 1000 < tx.size) (st : Store) :
    anteHandle s tx ≠ .ok st := by
  rw [(C13_size_error_iff s tx).mpr h]; simp

/-- Regression for seed C13-f: the batched tx is refused at 1198 bytes and admitted at 1000. -/
theorem C13_batched_oversize_rejected :
    anteHandle witnessState batchedTx = .error "size" ∧
    anteHandle witnessState { batchedTx with size := 1000 } = .ok { witnessState.store with nonces := [((0, 1), 2)] } := by
  constructor
  · simp [anteHandle, batchedTx]
  · simp [anteHandle, anteNonces, Store.checkNonce, witnessState, batchedTx, witnessParams, alookup, aset, Tx.signers, dedupNat]

/-- The nonce rule: accepted ⇒ the sender has an entry for that feeder (only validators of an open
round have one), the nonce is exactly previous+1, it is within MaxNonce, and only that entry moves. -/
theorem C13_nonce_rule (st st' : Store) (mn v f : Nat) (n : Int) (h : st.checkNonce mn v f n = some st') :
    ∃ cur, alookup (v, f) st.nonces = some cur ∧ n = (cur : Int) + 1 ∧ n ≤ (mn : Int) ∧
      st' = { st with nonces := aset (v, f) (cur + 1) st.nonces } := by
  unfold Store.checkNonce at h
  by_cases h1 : (n < 0 || n > (mn : Int)) = true
  · simp [h1] at h
  · simp only [h1, Bool.false_eq_true, if_false] at h
    cases hc : alookup (v, f) st.nonces with
    | none => simp [hc] at h
    | some cur =>
      simp only [hc] at h
      by_cases h2 : (cur : Int) + 1 = n
      · simp only [h2, if_true, Option.some.injEq] at h
        simp only [Bool.or_eq_true, decide_eq_true_eq, not_or, Int.not_lt] at h1
        exact ⟨cur, rfl, h2.symm, by omega, h.symm⟩
      · simp [h2] at h

/-- Nobody without a nonce entry gets anything admitted (quota 0 for non-validators and for
validators outside an open round), whatever the nonce. -/
theorem C13_no_entry_no_admission (st : Store) (mn v f : Nat) (n : Int)
    (h : alookup (v, f) st.nonces = none) : st.checkNonce mn v f n = none := by
  unfold Store.checkNonce
  by_cases h1 : (n < 0 || n > (mn : Int)) = true
  · simp [h1]
  · simp [h1, h]

/-- Per-round quota: every admission moves the entry up by one and never past MaxNonce, so between
two resets (round open / close) at most MaxNonce submissions of a validator are admitted per feeder. -/
theorem C13_per_round_quota (st st' : Store) (mn v f : Nat) (n : Int) (h : st.checkNonce mn v f n = some st') :
    ∃ cur, alookup (v, f) st.nonces = some cur ∧ alookup (v, f) st'.nonces = some (cur + 1) ∧ cur + 1 ≤ mn := by
  obtain ⟨cur, h1, h2, h3, h4⟩ := C13_nonce_rule st st' mn v f n h
  refine ⟨cur, h1, ?_, by omega⟩
  rw [h4]; exact alookup_aset_same _ _ _

/-- A submission that is not admitted changes nothing at all. -/
theorem C13_not_admitted_no_change (s : State) (tx : Tx) (why : String) (s' : State)
    (h : deliverTx s tx = (s', .ante why)) : s' = s := by
  unfold deliverTx at h
  cases ha : anteHandle s tx with
  | error w => simp [ha] at h; exact h.1.symm
  | ok st =>
    simp only [ha] at h
    generalize runMsgs { s with store := st } 0 tx.msgs = r at h
    obtain ⟨s2, o⟩ := r
    cases o with
    | none => simp at h
    | some ie => simp at h

/-- An admitted single-message submission that is refused by the handler before it reaches the
aggregator (timestamp, sender, round, base block, rule, decimals) changes only the store's nonce
entry: prices, aggregator context and cache are exactly as before. -/
theorem C13_admitted_not_counted_only_nonce (s : State) (tx : Tx) (m : Msg) (st : Store) (g : Agc) (p : Params)
    (hm : tx.msgs = [m]) (ha : anteHandle s tx = .ok st) (hg : s.agc = some g) (hp : g.params = some p)
    (hbad : checkTimestamp s.blockTime m = false ∨ (g.checkMsg p m).isSome = true) :
    (deliverTx s tx).1 = { s with store := st, cache := (deliverTx s tx).1.cache } ∧
    (deliverTx s tx).1.agc = s.agc ∧ (deliverTx s tx).1.store.prices = st.prices := by
  unfold deliverTx
  simp only [ha, hm, runMsgs]
  rcases hbad with hts | hck
  · simp [createPrice, hts]
  · by_cases hts : checkTimestamp s.blockTime m = true
    · cases hc : g.checkMsg p m with
      | none => simp [hc] at hck
      | some e =>
        simp [createPrice, hts, getAgc, hg, hp, hc, State.cacheD]
    · simp [createPrice, hts]

example : anteHandle witnessState { forgedTx with infos := [{ pubkeyMatches := true, sigValid := true }] } =
    .ok { witnessState.store with nonces := [((0, 1), 1)] } := by
  simp [anteHandle, anteNonces, Store.checkNonce, witnessState, forgedTx, witnessParams, alookup, aset, Tx.signers, dedupNat]

/-- filter.go: addPSource — of the prices a validator sends for one deterministic source, each source
round (detID) reaches the calculator at most once per round of the feeder, whether the repetition is
inside one message or spread over several: the entries kept have pairwise different detIDs and none of
them was in the validator's set before. (The calculator adds the sender's power once per entry it is
given: `calcDetIDs`.) -/
theorem C13_repeated_detid_counted_once (size : Nat) (set : List String) (ps : List PriceTD) :
    ((filterDetIDs size set ps).2.map (·.detID)).Nodup ∧
    (∀ q ∈ (filterDetIDs size set ps).2, q.detID ∉ set) :=
  ⟨(filterDetIDs_spec size ps set).1, (filterDetIDs_spec size ps set).2.1⟩


example : (filterDetIDs 5 [] [{ price := 7, decimal := 0, ts := 1, tsKind := 0, detID := "9" },
    { price := 7, decimal := 0, ts := 1, tsKind := 0, detID := "9" }, { price := 8, decimal := 0, ts := 1, tsKind := 0, detID := "9" }]).2.length = 1 := by decide

end ExoVerif.Oracle
