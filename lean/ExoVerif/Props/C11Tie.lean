import ExoVerif.Generated.Facts
import ExoVerif.Generated.Kernels
import ExoVerif.Props.C11
/-!
# C11 tie: every panic-capable site on a block path carries a review, encoded here

`Gen.panicSitesInBlockPaths` is recomputed from the Go sources on every run (syntactic call graph by
function name from the Begin/EndBlock methods, epoch hooks and x/dogfood's SDK-facing staking
interface; over-approximating). `reviewTable` pairs each site with the reason it cannot halt a block —
or with the finding that shows it can. `C11_panic_sites_eq_reviewed` is the tie: a new unguarded
division, index, `Must…`, explicit panic, unchecked type assertion or swallowed error in a function on a
block path (or the removal of one) changes the generated list and breaks the proof until the table is
updated. `guard` entries name a theorem of `Props/C11.lean` about a model of the enclosing code; the
other classes are justifications by reading (no theorem), counted in `C11_review_counts`.
(Written by tools/gen_c11_review.py after review; static afterwards.)
-/
namespace ExoVerif.Blocks
open ExoVerif.Gen

inductive Review where
  | guard (theoremName : String)   -- proved: the dangerous operand cannot occur (model of the enclosing function)
  | finding (id : String)          -- it does halt: open defect, replayed on the real application
  | candidate (id : String)        -- suspected, not reproduced
  | codec                          -- (un)marshal of bytes this module wrote itself with the paired Marshal
  | loopBound (why : String)       -- index within bounds by the enclosing loop / length check / construction
  | inputChecked (why : String)    -- the value was validated before it could reach this point
  | noResultUsed                   -- swallowed error, but nothing returned by the failed call is used afterwards
  | notWired                       -- x/appchain is not registered in app/app.go (call-graph over-approximation)
  | assumed (why : String)         -- reviewed by reading only
  | unreviewed
deriving DecidableEq, Repr

def Review.isGuard : Review → Bool | .guard _ => true | _ => false
def Review.isFinding : Review → Bool | .finding _ => true | _ => false
def Review.isOpen : Review → Bool | .finding _ => true | .candidate _ => true | .assumed _ => true | .unreviewed => true | _ => false

def reviewedRoots : List String := [
  "x/appchain/coordinator/keeper/impl_epochs_hooks.go:EpochsHooksWrapper.AfterEpochEnd",
  "x/appchain/coordinator/keeper/impl_epochs_hooks.go:EpochsHooksWrapper.BeforeEpochStart",
  "x/appchain/coordinator/module.go:AppModule.BeginBlock",
  "x/appchain/coordinator/module.go:AppModule.EndBlock",
  "x/appchain/subscriber/module.go:AppModule.BeginBlock",
  "x/appchain/subscriber/module.go:AppModule.EndBlock",
  "x/avs/keeper/impl_epoch_hook.go:EpochsHooksWrapper.AfterEpochEnd",
  "x/avs/keeper/impl_epoch_hook.go:EpochsHooksWrapper.BeforeEpochStart",
  "x/delegation/module.go:AppModule.EndBlock",
  "x/dogfood/keeper/impl_epochs_hooks.go:EpochsHooksWrapper.AfterEpochEnd",
  "x/dogfood/keeper/impl_epochs_hooks.go:EpochsHooksWrapper.BeforeEpochStart",
  "x/dogfood/keeper/impl_sdk.go:Keeper.ApplyAndReturnValidatorSetUpdates",
  "x/dogfood/keeper/impl_sdk.go:Keeper.Delegation",
  "x/dogfood/keeper/impl_sdk.go:Keeper.GetAllValidators",
  "x/dogfood/keeper/impl_sdk.go:Keeper.GetParams",
  "x/dogfood/keeper/impl_sdk.go:Keeper.IsValidatorJailed",
  "x/dogfood/keeper/impl_sdk.go:Keeper.IterateBondedValidatorsByPower",
  "x/dogfood/keeper/impl_sdk.go:Keeper.IterateDelegations",
  "x/dogfood/keeper/impl_sdk.go:Keeper.IterateValidators",
  "x/dogfood/keeper/impl_sdk.go:Keeper.Jail",
  "x/dogfood/keeper/impl_sdk.go:Keeper.MaxValidators",
  "x/dogfood/keeper/impl_sdk.go:Keeper.Slash",
  "x/dogfood/keeper/impl_sdk.go:Keeper.SlashWithInfractionReason",
  "x/dogfood/keeper/impl_sdk.go:Keeper.TotalBondedTokens",
  "x/dogfood/keeper/impl_sdk.go:Keeper.Unjail",
  "x/dogfood/keeper/impl_sdk.go:Keeper.Validator",
  "x/dogfood/keeper/impl_sdk.go:Keeper.ValidatorByConsAddr",
  "x/dogfood/module.go:AppModule.BeginBlock",
  "x/dogfood/module.go:AppModule.EndBlock",
  "x/epochs/module.go:AppModule.BeginBlock",
  "x/epochs/module.go:AppModule.EndBlock",
  "x/evm/module.go:AppModule.BeginBlock",
  "x/evm/module.go:AppModule.EndBlock",
  "x/exomint/keeper/impl_epochs_hooks.go:EpochsHooksWrapper.AfterEpochEnd",
  "x/exomint/keeper/impl_epochs_hooks.go:EpochsHooksWrapper.BeforeEpochStart",
  "x/exomint/module.go:AppModule.BeginBlock",
  "x/exomint/module.go:AppModule.EndBlock",
  "x/feedistribution/keeper/hooks.go:EpochsHooksWrapper.AfterEpochEnd",
  "x/feedistribution/keeper/hooks.go:EpochsHooksWrapper.BeforeEpochStart",
  "x/feedistribution/module.go:AppModule.BeginBlock",
  "x/feedistribution/module.go:AppModule.EndBlock",
  "x/operator/keeper/impl_epoch_hook.go:EpochsHooksWrapper.AfterEpochEnd",
  "x/operator/keeper/impl_epoch_hook.go:EpochsHooksWrapper.BeforeEpochStart",
  "x/operator/module.go:AppModule.EndBlock",
  "x/oracle/module.go:AppModule.BeginBlock",
  "x/oracle/module.go:AppModule.EndBlock",
  "x/reward/keeper/hooks.go:EpochsHooksWrapper.AfterEpochEnd",
  "x/reward/keeper/hooks.go:EpochsHooksWrapper.BeforeEpochStart",
  "x/reward/module.go:AppModule.BeginBlock",
  "x/reward/module.go:AppModule.EndBlock",
  "x/slash/module.go:AppModule.BeginBlock",
  "x/slash/module.go:AppModule.EndBlock"]

def reviewTable : List (String × Review) := [
  ("utils/store.go:KVStore.Get:must:store.cdc.MustUnmarshalLengthPrefixed(bz, value)", .codec),
  ("utils/store.go:KVStore.Set:must:store.cdc.MustMarshalLengthPrefixed(value)", .codec),
  ("utils/store.go:basicKey.AsKey:index:delimiter[0]", .assumed "delimiter is the non-empty constant utils.DelimiterForCombinedKey"),
  ("utils/utils.go:SortByPower:index:indices[i]", .loopBound "indices are 0..len(powers)-1 and stay a permutation under sort.Slice; both callers pass three slices of equal length built in one loop"),
  ("utils/utils.go:SortByPower:index:indices[i]#2", .loopBound "indices are 0..len(powers)-1 and stay a permutation under sort.Slice; both callers pass three slices of equal length built in one loop"),
  ("utils/utils.go:SortByPower:index:indices[i]#3", .loopBound "indices are 0..len(powers)-1 and stay a permutation under sort.Slice; both callers pass three slices of equal length built in one loop"),
  ("utils/utils.go:SortByPower:index:indices[j]", .loopBound "indices are 0..len(powers)-1 and stay a permutation under sort.Slice; both callers pass three slices of equal length built in one loop"),
  ("utils/utils.go:SortByPower:index:indices[j]#2", .loopBound "indices are 0..len(powers)-1 and stay a permutation under sort.Slice; both callers pass three slices of equal length built in one loop"),
  ("utils/utils.go:SortByPower:index:indices[j]#3", .loopBound "indices are 0..len(powers)-1 and stay a permutation under sort.Slice; both callers pass three slices of equal length built in one loop"),
  ("utils/utils.go:SortByPower:index:operatorAddrs[idx]", .loopBound "indices are 0..len(powers)-1 and stay a permutation under sort.Slice; both callers pass three slices of equal length built in one loop"),
  ("utils/utils.go:SortByPower:index:operatorAddrs[indices[i]]", .loopBound "indices are 0..len(powers)-1 and stay a permutation under sort.Slice; both callers pass three slices of equal length built in one loop"),
  ("utils/utils.go:SortByPower:index:operatorAddrs[indices[j]]", .loopBound "indices are 0..len(powers)-1 and stay a permutation under sort.Slice; both callers pass three slices of equal length built in one loop"),
  ("utils/utils.go:SortByPower:index:powers[idx]", .loopBound "indices are 0..len(powers)-1 and stay a permutation under sort.Slice; both callers pass three slices of equal length built in one loop"),
  ("utils/utils.go:SortByPower:index:powers[indices[i]]", .loopBound "indices are 0..len(powers)-1 and stay a permutation under sort.Slice; both callers pass three slices of equal length built in one loop"),
  ("utils/utils.go:SortByPower:index:powers[indices[i]]#2", .loopBound "indices are 0..len(powers)-1 and stay a permutation under sort.Slice; both callers pass three slices of equal length built in one loop"),
  ("utils/utils.go:SortByPower:index:powers[indices[j]]", .loopBound "indices are 0..len(powers)-1 and stay a permutation under sort.Slice; both callers pass three slices of equal length built in one loop"),
  ("utils/utils.go:SortByPower:index:powers[indices[j]]#2", .loopBound "indices are 0..len(powers)-1 and stay a permutation under sort.Slice; both callers pass three slices of equal length built in one loop"),
  ("utils/utils.go:SortByPower:index:pubKeys[idx]", .loopBound "indices are 0..len(powers)-1 and stay a permutation under sort.Slice; both callers pass three slices of equal length built in one loop"),
  ("utils/utils.go:SortByPower:index:sortedOperatorAddrs[i]", .loopBound "indices are 0..len(powers)-1 and stay a permutation under sort.Slice; both callers pass three slices of equal length built in one loop"),
  ("utils/utils.go:SortByPower:index:sortedPowers[i]", .loopBound "indices are 0..len(powers)-1 and stay a permutation under sort.Slice; both callers pass three slices of equal length built in one loop"),
  ("utils/utils.go:SortByPower:index:sortedPubKeys[i]", .loopBound "indices are 0..len(powers)-1 and stay a permutation under sort.Slice; both callers pass three slices of equal length built in one loop"),
  ("x/appchain/coordinator/keeper/ibc_client.go:Keeper.MakeSubscriberGenesis:assert:consState.(*ibctmtypes.ConsensusState)", .notWired),
  ("x/appchain/coordinator/keeper/ibc_client.go:Keeper.MakeSubscriberGenesis:index:keys[i]", .notWired),
  ("x/appchain/coordinator/keeper/ibc_client.go:Keeper.MakeSubscriberGenesis:index:powers[i]", .notWired),
  ("x/appchain/coordinator/keeper/ibc_client.go:Keeper.SetSubscriberGenesis:must:k.cdc.MustMarshal(genesis)", .notWired),
  ("x/appchain/coordinator/keeper/impl_epochs_hooks.go:EpochsHooksWrapper.AfterEpochEnd:errfall:err != nil", .notWired),
  ("x/appchain/coordinator/keeper/params.go:Keeper.GetParams:must:k.cdc.MustUnmarshal(bz, &params)", .notWired),
  ("x/appchain/coordinator/keeper/register.go:Keeper.GetPendingSubChains:must:k.cdc.MustUnmarshal(store.Get(key), &res)", .notWired),
  ("x/appchain/coordinator/keeper/timeout.go:Keeper.GetChainsToInitTimeout:must:k.cdc.MustUnmarshal(bz, &res)", .notWired),
  ("x/appchain/coordinator/keeper/timeout.go:Keeper.SetChainsToInitTimeout:must:k.cdc.MustMarshal(&chains)", .notWired),
  ("x/appchain/subscriber/keeper/params.go:Keeper.GetParams:must:k.cdc.MustUnmarshal(bz, &res)", .notWired),
  ("x/assets/keeper/client_chain_asset.go:Keeper.GetAssetsDecimal:must:k.cdc.MustUnmarshal(value, &ret)", .codec),
  ("x/assets/keeper/client_chain_asset.go:Keeper.GetStakingAssetInfo:must:k.cdc.MustUnmarshal(value, &ret)", .codec),
  ("x/assets/keeper/operator_asset.go:Keeper.GetOperatorSpecifiedAssetInfo:must:k.cdc.MustUnmarshal(value, &ret)", .codec),
  ("x/assets/keeper/operator_asset.go:Keeper.IterateAssetsForOperator:must:k.cdc.MustMarshal(&amounts)", .codec),
  ("x/assets/keeper/operator_asset.go:Keeper.IterateAssetsForOperator:must:k.cdc.MustUnmarshal(iterator.Value(), &amounts)", .codec),
  ("x/assets/keeper/operator_asset.go:Keeper.UpdateOperatorAssetState:must:k.cdc.MustMarshal(&assetState)", .codec),
  ("x/assets/keeper/operator_asset.go:Keeper.UpdateOperatorAssetState:must:k.cdc.MustUnmarshal(value, &assetState)", .codec),
  ("x/assets/keeper/params.go:Keeper.GetParams:must:k.cdc.MustUnmarshal(value, ret)", .codec),
  ("x/assets/keeper/staker_asset.go:Keeper.GetStakerSpecifiedAssetInfo:must:k.cdc.MustUnmarshal(value, &ret)", .codec),
  ("x/assets/keeper/staker_asset.go:Keeper.GetStakerSpecifiedAssetInfo:must:sdk.MustAccAddressFromBech32(operator)", .inputChecked "operator addresses are bech32-validated (ValidateBasic / AccAddressFromBech32) before they are stored"),
  ("x/assets/keeper/staker_asset.go:Keeper.UpdateStakerAssetState:must:k.cdc.MustMarshal(&assetState)", .codec),
  ("x/assets/keeper/staker_asset.go:Keeper.UpdateStakerAssetState:must:k.cdc.MustUnmarshal(value, &assetState)", .codec),
  ("x/assets/types/keys.go:ParseID:index:keys[0]", .loopBound "strings.Split returns at least one element"),
  ("x/assets/types/keys.go:ParseID:index:keys[0]#2", .loopBound "strings.Split returns at least one element"),
  ("x/avs/keeper/impl_epoch_hook.go:EpochsHooksWrapper.AfterEpochEnd:errfall:err != nil", .noResultUsed),
  ("x/avs/keeper/impl_epoch_hook.go:EpochsHooksWrapper.AfterEpochEnd:errfall:err != nil || power.ActiveUSDValue.IsNegative()", .assumed "GetOperatorOptedUSDValue / GetAVSUSDValue cannot fail here: the result is only selected while its AVS (with a USD-value record, required by CreateAVSTask) still owns the task address; on failure the zero LegacyDec would be dereferenced"),
  ("x/avs/keeper/impl_epoch_hook.go:EpochsHooksWrapper.AfterEpochEnd:errfall:err != nil || taskPowerTotal.IsZero() || operatorPowerTotal.IsZero()", .assumed "GetOperatorOptedUSDValue / GetAVSUSDValue cannot fail here: the result is only selected while its AVS (with a USD-value record, required by CreateAVSTask) still owns the task address; on failure the zero LegacyDec would be dereferenced"),
  ("x/avs/keeper/impl_epoch_hook.go:EpochsHooksWrapper.AfterEpochEnd:quo:taskPowerTotal.Quo(operatorPowerTotal) <= len(taskResList) != 0 ; not(len(signedOperatorList) == 0) ; not(err != nil || taskInfo == nil) ; !taskPowerTotal.IsZero() && !operatorPowerTotal.IsZero()", .guard "C11_guard_exact_AfterEpochEnd"),
  ("x/avs/keeper/keeper.go:Keeper.GetAVSInfo:must:k.cdc.MustUnmarshal(value, &ret)", .codec),
  ("x/avs/keeper/keeper.go:Keeper.IterateAVSInfo:must:k.cdc.MustUnmarshal(iterator.Value(), &avs)", .codec),
  ("x/avs/keeper/params.go:Keeper.GetParams:must:k.cdc.MustUnmarshal(value, ret)", .codec),
  ("x/avs/keeper/task.go:Keeper.GetTaskInfo:must:k.cdc.MustUnmarshal(value, &ret)", .codec),
  ("x/avs/keeper/task.go:Keeper.GroupTasksByIDAndAddress:index:taskGroup[i]", .loopBound "comparator of sort.Slice: i, j < len"),
  ("x/avs/keeper/task.go:Keeper.GroupTasksByIDAndAddress:index:taskGroup[j]", .loopBound "comparator of sort.Slice: i, j < len"),
  ("x/avs/keeper/task.go:Keeper.IterateResultInfo:must:k.cdc.MustUnmarshal(iterator.Value(), &task)", .codec),
  ("x/avs/keeper/task.go:Keeper.SetTaskInfo:must:k.cdc.MustMarshal(task)", .codec),
  ("x/avs/types/types.go:ChainIDWithoutRevision:index:splitStr[0]", .loopBound "strings.Split returns at least one element"),
  ("x/delegation/keeper/abci.go:Keeper.EndBlock:must:sdk.MustAccAddressFromBech32(record.OperatorAddr)", .inputChecked "operator addresses are bech32-validated (ValidateBasic / AccAddressFromBech32) before they are stored"),
  ("x/delegation/keeper/abci.go:Keeper.EndBlock:newcoin:sdk.NewCoin(assetstypes.ExocoreAssetDenom, record.ActualCompletedAmount)", .guard "C11_guard_undelegation_actual_nonneg"),
  ("x/delegation/keeper/delegation_state.go:Keeper.DeleteStakerForOperator:index:stakers.Stakers[:i]", .loopBound "i is the index of the enclosing range loop over the same slice"),
  ("x/delegation/keeper/delegation_state.go:Keeper.DeleteStakerForOperator:index:stakers.Stakers[i+1:]", .loopBound "i is the index of the enclosing range loop over the same slice"),
  ("x/delegation/keeper/delegation_state.go:Keeper.DeleteStakerForOperator:must:k.cdc.MustMarshal(&stakers)", .codec),
  ("x/delegation/keeper/delegation_state.go:Keeper.DeleteStakerForOperator:must:k.cdc.MustUnmarshal(value, &stakers)", .codec),
  ("x/delegation/keeper/delegation_state.go:Keeper.GetStakersByOperator:must:k.cdc.MustUnmarshal(value, &stakerList)", .codec),
  ("x/delegation/keeper/delegation_state.go:Keeper.IterateDelegations:must:k.cdc.MustUnmarshal(iterator.Value(), &amounts)", .codec),
  ("x/delegation/keeper/delegation_state.go:Keeper.SetStakerShareToZero:must:k.cdc.MustMarshal(&delegationState)", .codec),
  ("x/delegation/keeper/delegation_state.go:Keeper.SetStakerShareToZero:must:k.cdc.MustUnmarshal(value, &delegationState)", .codec),
  ("x/delegation/keeper/delegation_state.go:Keeper.TotalDelegatedAmountForStakerAsset:must:sdk.MustAccAddressFromBech32(keys.GetOperatorAddr())", .inputChecked "operator addresses are bech32-validated (ValidateBasic / AccAddressFromBech32) before they are stored"),
  ("x/delegation/keeper/delegation_state.go:Keeper.UpdateDelegationState:must:k.cdc.MustMarshal(&delegationState)", .codec),
  ("x/delegation/keeper/delegation_state.go:Keeper.UpdateDelegationState:must:k.cdc.MustUnmarshal(value, &delegationState)", .codec),
  ("x/delegation/keeper/share.go:TokensFromShares:quo:(stakerShare.MulInt(totalAmount)).QuoTruncate(totalShare) <= not(stakerShare.GT(totalShare)) ; not(totalShare.IsZero())", .guard "C11_guard_exact_TokensFromShares"),
  ("x/delegation/keeper/un_delegation_state.go:Keeper.GetUndelegationRecords:must:k.cdc.MustUnmarshal(value, &undelegationRecord)", .codec),
  ("x/delegation/keeper/un_delegation_state.go:Keeper.IterateUndelegationsByOperator:must:k.cdc.MustMarshal(&undelegation)", .codec),
  ("x/delegation/keeper/un_delegation_state.go:Keeper.IterateUndelegationsByOperator:must:k.cdc.MustUnmarshal(iterator.Value(), &undelegation)", .codec),
  ("x/delegation/keeper/un_delegation_state.go:Keeper.IterateUndelegationsByStakerAndAsset:must:k.cdc.MustMarshal(&undelegation)", .codec),
  ("x/delegation/keeper/un_delegation_state.go:Keeper.IterateUndelegationsByStakerAndAsset:must:k.cdc.MustUnmarshal(infoValue, &undelegation)", .codec),
  ("x/delegation/keeper/un_delegation_state.go:Keeper.SetUndelegationRecords:must:k.cdc.MustMarshal(&record)", .codec),
  ("x/delegation/keeper/update_native_restaking_balance.go:Keeper.UpdateNSTBalance:quo:sdkmath.LegacyNewDecFromBigInt(pendingSlashAmount.BigInt()).Quo(sdkmath.LegacyNe… <= not(amount.IsPositive()) ; amount.IsNegative() ; not(err != nil) ; not(err != nil) ; pendingSlashAmount.IsPositive() ; not(err != nil) ; !totalDelegatedAmount.IsZero()", .guard "C11_guard_exact_UpdateNSTBalance"),
  ("x/delegation/types/keys.go:ParseStakerAssetIDAndOperator:index:stringList[0]", .loopBound "ParseJoinedStoreKey(key, 3) returns exactly 3 parts or an error"),
  ("x/delegation/types/keys.go:ParseUndelegationRecordKey:index:stringList[0]", .loopBound "ParseJoinedStoreKey(key, 4) returns exactly 4 parts or an error"),
  ("x/dogfood/keeper/abci.go:Keeper.EndBlock:errfall:err != nil", .noResultUsed),
  ("x/dogfood/keeper/abci.go:Keeper.EndBlock:errfall:err != nil#2", .noResultUsed),
  ("x/dogfood/keeper/abci.go:Keeper.EndBlock:index:keys[i]", .loopBound "i ranges over operators; SortByPower returns three slices of equal length"),
  ("x/dogfood/keeper/abci.go:Keeper.EndBlock:index:powers[i]", .loopBound "i ranges over operators; SortByPower returns three slices of equal length"),
  ("x/dogfood/keeper/impl_sdk.go:Keeper.IterateBondedValidatorsByPower:index:prevList[i]", .loopBound "comparator of sort.SliceStable: i, j < len"),
  ("x/dogfood/keeper/impl_sdk.go:Keeper.IterateBondedValidatorsByPower:index:prevList[j]", .loopBound "comparator of sort.SliceStable: i, j < len"),
  ("x/dogfood/keeper/opt_out.go:Keeper.GetConsensusAddrsToPrune:panic:panic(err)", .codec),
  ("x/dogfood/keeper/opt_out.go:Keeper.GetOptOutsToFinish:panic:panic(err)", .codec),
  ("x/dogfood/keeper/params.go:Keeper.GetDogfoodParams:must:k.cdc.MustUnmarshal(bz, &params)", .codec),
  ("x/dogfood/keeper/pending.go:Keeper.SetPendingConsensusAddrs:must:k.cdc.MustMarshal(&addrs)", .codec),
  ("x/dogfood/keeper/pending.go:Keeper.SetPendingOptOuts:must:k.cdc.MustMarshal(&addrs)", .codec),
  ("x/dogfood/keeper/pending.go:Keeper.SetPendingUndelegations:must:k.cdc.MustMarshal(&undelegations)", .codec),
  ("x/dogfood/keeper/unbonding.go:Keeper.GetUndelegationsToMature:panic:panic(err)", .codec),
  ("x/dogfood/keeper/validators.go:Keeper.ApplyValidatorChanges:index:ret[i]", .loopBound "comparator of sort.Slice: i, j < len"),
  ("x/dogfood/keeper/validators.go:Keeper.ApplyValidatorChanges:index:ret[i]#2", .loopBound "comparator of sort.Slice: i, j < len"),
  ("x/dogfood/keeper/validators.go:Keeper.ApplyValidatorChanges:index:ret[i]#3", .loopBound "comparator of sort.Slice: i, j < len"),
  ("x/dogfood/keeper/validators.go:Keeper.ApplyValidatorChanges:index:ret[j]", .loopBound "comparator of sort.Slice: i, j < len"),
  ("x/dogfood/keeper/validators.go:Keeper.ApplyValidatorChanges:index:ret[j]#2", .loopBound "comparator of sort.Slice: i, j < len"),
  ("x/dogfood/keeper/validators.go:Keeper.ApplyValidatorChanges:index:ret[j]#3", .loopBound "comparator of sort.Slice: i, j < len"),
  ("x/dogfood/keeper/validators.go:Keeper.GetAllExocoreValidators:must:k.cdc.MustUnmarshal(iterator.Value(), &val)", .codec),
  ("x/dogfood/keeper/validators.go:Keeper.GetExocoreValidator:must:k.cdc.MustUnmarshal(v, &validator)", .codec),
  ("x/dogfood/keeper/validators.go:Keeper.GetHistoricalInfo:must:stakingtypes.MustUnmarshalHistoricalInfo(k.cdc, value)", .codec),
  ("x/dogfood/keeper/validators.go:Keeper.GetLastTotalPower:must:k.cdc.MustUnmarshal(bz, &ip)", .codec),
  ("x/dogfood/keeper/validators.go:Keeper.GetValidatorUpdates:must:k.cdc.MustUnmarshal(bz, &valUpdates)", .codec),
  ("x/dogfood/keeper/validators.go:Keeper.SetExocoreValidator:must:k.cdc.MustMarshal(&validator)", .codec),
  ("x/dogfood/keeper/validators.go:Keeper.SetHistoricalInfo:must:k.cdc.MustMarshal(hi)", .codec),
  ("x/dogfood/keeper/validators.go:Keeper.SetLastTotalPower:must:k.cdc.MustMarshal(&sdk.IntProto{Int: power})", .codec),
  ("x/dogfood/keeper/validators.go:Keeper.SetValidatorUpdates:must:k.cdc.MustMarshal(&stakingtypes.ValidatorUpdates{Updates: valUpdates})", .codec),
  ("x/epochs/keeper/epoch_infos.go:Keeper.GetEpochInfo:must:k.cdc.MustUnmarshal(bz, &epoch)", .codec),
  ("x/epochs/keeper/epoch_infos.go:Keeper.IterateEpochInfos:must:k.cdc.MustUnmarshal(iterator.Value(), &epoch)", .codec),
  ("x/epochs/keeper/epoch_infos.go:Keeper.setEpochInfoUnchecked:must:k.cdc.MustMarshal(&epoch)", .codec),
  ("x/evm/keeper/keeper.go:Keeper.WithChainID:panic:panic(\"chain id already set\")", .inputChecked "ctx.ChainID() is the genesis chain id, parsed by ParseChainID at InitChain; the same id every block"),
  ("x/evm/keeper/keeper.go:Keeper.WithChainID:panic:panic(err)", .inputChecked "ctx.ChainID() is the genesis chain id, parsed by ParseChainID at InitChain; the same id every block"),
  ("x/evm/keeper/params.go:Keeper.GetParams:must:k.cdc.MustUnmarshal(bz, &params)", .codec),
  ("x/exomint/keeper/impl_epochs_hooks.go:EpochsHooksWrapper.AfterEpochEnd:newcoin:sdk.NewCoin(params.MintDenom, params.EpochReward)", .inputChecked "exomint Params validation rejects a negative EpochReward; SetParams keeps the previous value for nil / negative"),
  ("x/exomint/keeper/params.go:Keeper.GetParams:must:k.cdc.MustUnmarshal(bz, &params)", .codec),
  ("x/feedistribution/keeper/allocation.go:Keeper.AllocateTokens:quo:math.LegacyNewDec(val.Power).QuoTruncate(math.LegacyNewDec(totalPreviousPower)) <= not(err != nil) ; not(totalPreviousPower == 0) ; not(err != nil) ; not(err != nil) ; not(!found) ; not(totalPreviousPower == 0)", .guard "C11_guard_exact_AllocateTokens"),
  ("x/feedistribution/keeper/allocation.go:Keeper.AllocateTokensToStakers:coinsub:remaining.Sub(rewardToSingleStaker)", .guard "C17_no_halt (Props/C17.lean: AllocateTokens, with truncated validator / staker fractions, never takes more than is left)"),
  ("x/feedistribution/keeper/allocation.go:Keeper.AllocateTokensToStakers:index:globalStakerAddressList[i]", .loopBound "comparator of sort.Slice: i, j < len"),
  ("x/feedistribution/keeper/allocation.go:Keeper.AllocateTokensToStakers:index:globalStakerAddressList[j]", .loopBound "comparator of sort.Slice: i, j < len"),
  ("x/feedistribution/keeper/allocation.go:Keeper.AllocateTokensToStakers:quo:stakerPower.QuoTruncate(curTotalStakersPowers) <= not(err != nil) ; curTotalStakersPowers.IsPositive()", .guard "C11_guard_exact_AllocateTokensToStakers"),
  ("x/feedistribution/keeper/allocation.go:Keeper.AllocateTokensToValidator:coinsub:tokens.Sub(commission)", .guard "C17_no_halt (Props/C17.lean: AllocateTokens, with truncated validator / staker fractions, never takes more than is left)"),
  ("x/feedistribution/keeper/allocation.go:Keeper.AllocateTokensToValidator:errfall:err != nil", .assumed "OperatorInfo cannot fail: the validator handed in was resolved from a registered operator by AllocateTokens; on failure the zero Commission.Rate would be dereferenced"),
  ("x/feedistribution/keeper/keeper.go:Keeper.GetFeePool:must:k.cdc.MustMarshal(feePool)", .codec),
  ("x/feedistribution/keeper/keeper.go:Keeper.GetFeePool:must:k.cdc.MustUnmarshal(b, fp)", .codec),
  ("x/feedistribution/keeper/keeper.go:Keeper.GetStakerRewards:must:k.cdc.MustUnmarshal(bz, &rewards)", .codec),
  ("x/feedistribution/keeper/keeper.go:Keeper.GetValidatorAccumulatedCommission:must:k.cdc.MustUnmarshal(b, &commission)", .codec),
  ("x/feedistribution/keeper/keeper.go:Keeper.GetValidatorOutstandingRewards:must:k.cdc.MustUnmarshal(bz, &rewards)", .codec),
  ("x/feedistribution/keeper/keeper.go:Keeper.SetFeePool:must:k.cdc.MustMarshal(feePool)", .codec),
  ("x/feedistribution/keeper/keeper.go:Keeper.SetStakerRewards:must:k.cdc.MustMarshal(&rewards)", .codec),
  ("x/feedistribution/keeper/keeper.go:Keeper.SetValidatorAccumulatedCommission:must:k.cdc.MustMarshal(&commission)", .codec),
  ("x/feedistribution/keeper/keeper.go:Keeper.SetValidatorAccumulatedCommission:must:k.cdc.MustMarshal(&types.ValidatorAccumulatedCommission{})", .codec),
  ("x/feedistribution/keeper/keeper.go:Keeper.SetValidatorOutstandingRewards:must:k.cdc.MustMarshal(&rewards)", .codec),
  ("x/feedistribution/keeper/params.go:Keeper.GetParams:must:k.cdc.MustUnmarshal(bz, &params)", .codec),
  ("x/feedistribution/types/keys.go:GetStakerOutstandingRewardsKey:must:address.MustLengthPrefix([]byte(staker))", .inputChecked "address / staker id shorter than 256 bytes: 20-byte addresses, staker ids of at most 66+3+18 characters"),
  ("x/feedistribution/types/keys.go:GetValidatorAccumulatedCommissionKey:must:address.MustLengthPrefix(v.Bytes())", .inputChecked "address / staker id shorter than 256 bytes: 20-byte addresses, staker ids of at most 66+3+18 characters"),
  ("x/feedistribution/types/keys.go:GetValidatorOutstandingRewardsKey:must:address.MustLengthPrefix(valAddr.Bytes())", .inputChecked "address / staker id shorter than 256 bytes: 20-byte addresses, staker ids of at most 66+3+18 characters"),
  ("x/operator/keeper/common_func.go:CalculateUSDValue:quo:assetValueDec.QuoInt(divisor) <= none", .guard "C11_guard_usdValue_divisor"),
  ("x/operator/keeper/consensus_keys.go:Keeper.GetActiveOperatorsForChainID:index:pks[i]", .loopBound "GetOperatorsForChainID appends to both result slices in the same iteration"),
  ("x/operator/keeper/consensus_keys.go:Keeper.GetOperatorsForChainID:index:iterator.Key()[len(prefix):]", .loopBound "the key comes from a prefix iterator, so len(key) >= len(prefix)"),
  ("x/operator/keeper/consensus_keys.go:Keeper.GetOperatorsForChainID:must:k.cdc.MustUnmarshal(res, ret)", .codec),
  ("x/operator/keeper/consensus_keys.go:Keeper.getOperatorConsKeyForChainID:must:k.cdc.MustUnmarshal(res, key)", .codec),
  ("x/operator/keeper/operator.go:Keeper.GetOptedInfo:must:k.cdc.MustUnmarshal(value, &ret)", .codec),
  ("x/operator/keeper/operator.go:Keeper.HandleOptedInfo:must:k.cdc.MustMarshal(info)", .codec),
  ("x/operator/keeper/operator.go:Keeper.HandleOptedInfo:must:k.cdc.MustUnmarshal(value, info)", .codec),
  ("x/operator/keeper/operator.go:Keeper.OperatorInfo:must:k.cdc.MustUnmarshal(value, &ret)", .codec),
  ("x/operator/keeper/operator_slash_state.go:Keeper.UpdateOperatorSlashInfo:must:k.cdc.MustMarshal(&slashInfo)", .codec),
  ("x/operator/keeper/slash.go:Keeper.SetJailedState:errfall:err != nil", .noResultUsed),
  ("x/operator/keeper/slash.go:Keeper.SlashAssets:quo:slashUSDValue.Quo(stakingInfo.StakingAndWaitUnbonding) <= not(err != nil) ; not(!stakingInfo.StakingAndWaitUnbonding.IsPositive())", .guard "C11_guard_exact_SlashAssets"),
  ("x/operator/keeper/usd_value.go:Keeper.GetAVSUSDValue:must:k.cdc.MustUnmarshal(value, &ret)", .codec),
  ("x/operator/keeper/usd_value.go:Keeper.GetOperatorOptedUSDValue:must:k.cdc.MustUnmarshal(value, &ret)", .codec),
  ("x/operator/keeper/usd_value.go:Keeper.IterateOperatorsForAVS:must:k.cdc.MustMarshal(&optedUSDValues)", .codec),
  ("x/operator/keeper/usd_value.go:Keeper.IterateOperatorsForAVS:must:k.cdc.MustUnmarshal(iterator.Value(), &optedUSDValues)", .codec),
  ("x/operator/keeper/usd_value.go:Keeper.SetAVSUSDValue:must:k.cdc.MustMarshal(&setValue)", .codec),
  ("x/oracle/keeper/aggregator/aggregator.go:aggregator.fillPrice:index:pSource.Prices[0]", .inputChecked "AggregatorContext.sanityCheck: at least one source and at least one price per source (deliver path); recache replays only messages that passed it"),
  ("x/oracle/keeper/aggregator/aggregator.go:aggregator.fillPrice:index:pSource.Prices[0]#2", .inputChecked "AggregatorContext.sanityCheck: at least one source and at least one price per source (deliver path); recache replays only messages that passed it"),
  ("x/oracle/keeper/aggregator/aggregator.go:aggregator.fillPrice:index:pSource.Prices[0]#3", .inputChecked "AggregatorContext.sanityCheck: at least one source and at least one price per source (deliver path); recache replays only messages that passed it"),
  ("x/oracle/keeper/aggregator/aggregator.go:aggregator.fillPrice:index:pSource.Prices[0]#4", .inputChecked "AggregatorContext.sanityCheck: at least one source and at least one price per source (deliver path); recache replays only messages that passed it"),
  ("x/oracle/keeper/aggregator/context.go:AggregatorContext.FillPrice:index:msg.Prices[0]", .inputChecked "AggregatorContext.sanityCheck: at least one source and at least one price per source (deliver path); recache replays only messages that passed it"),
  ("x/oracle/keeper/aggregator/context.go:AggregatorContext.FillPrice:index:msg.Prices[0].Prices[0]", .inputChecked "AggregatorContext.sanityCheck: at least one source and at least one price per source (deliver path); recache replays only messages that passed it"),
  ("x/oracle/keeper/aggregator/context.go:AggregatorContext.PrepareRoundEndBlock:intdiv:delta % feeder.Interval <= not(block < 1) ; not(feederID == 0) ; not((feeder.EndBlock > 0 && feeder.EndBlock <= block) || feeder.StartBaseBlock > block)", .inputChecked "TokenFeeder.Interval >= 1 is enforced by Params.Validate (x/oracle/types/params.go) before params are stored"),
  ("x/oracle/keeper/aggregator/context.go:AggregatorContext.PrepareRoundEndBlock:intdiv:delta / feeder.Interval <= not(block < 1) ; not(feederID == 0) ; not((feeder.EndBlock > 0 && feeder.EndBlock <= block) || feeder.StartBaseBlock > block)", .inputChecked "TokenFeeder.Interval >= 1 is enforced by Params.Validate (x/oracle/types/params.go) before params are stored"),
  ("x/oracle/keeper/aggregator/filter.go:filter.addPSource:index:pSource.Prices[0]", .inputChecked "AggregatorContext.sanityCheck: at least one source and at least one price per source (deliver path); recache replays only messages that passed it"),
  ("x/oracle/keeper/cache/caches.go:Cache.AddCache:panic:panic(\"no other types are support\")", .assumed "all callers pass *ItemM, ItemP or ItemV (static types at the call sites)"),
  ("x/oracle/keeper/cache/caches.go:cacheMsgs.commit:index:index.Index[i:]", .loopBound "i <= len(index.Index) when the scanning loop ends"),
  ("x/oracle/keeper/cache/caches.go:cacheParams.commit:index:index.Index[i:]", .loopBound "i <= len(index.Index) when the scanning loop ends"),
  ("x/oracle/keeper/common/types.go:BigIntList.Median:index:b[l/2-1]", .assumed "the calculator only takes the median of a round that holds at least one price"),
  ("x/oracle/keeper/common/types.go:BigIntList.Median:index:b[l/2]", .assumed "the calculator only takes the median of a round that holds at least one price"),
  ("x/oracle/keeper/common/types.go:BigIntList.Median:index:b[l/2]#2", .assumed "the calculator only takes the median of a round that holds at least one price"),
  ("x/oracle/keeper/common/types.go:BigIntList.Median:quo:new(big.Int).Div(new(big.Int).Add(b[l/2], b[l/2-1]), big.NewInt(2)) <= not(l%2 == 1)", .guard "C11_guard_median_divisor"),
  ("x/oracle/keeper/index_recent_msg.go:Keeper.GetIndexRecentMsg:must:k.cdc.MustUnmarshal(b, &val)", .codec),
  ("x/oracle/keeper/index_recent_msg.go:Keeper.SetIndexRecentMsg:must:k.cdc.MustMarshal(&indexRecentMsg)", .codec),
  ("x/oracle/keeper/index_recent_params.go:Keeper.GetIndexRecentParams:must:k.cdc.MustUnmarshal(b, &val)", .codec),
  ("x/oracle/keeper/index_recent_params.go:Keeper.SetIndexRecentParams:must:k.cdc.MustMarshal(&indexRecentParams)", .codec),
  ("x/oracle/keeper/native_token.go:Keeper.GetStakerList:must:k.cdc.MustUnmarshal(value, stakerList)", .codec),
  ("x/oracle/keeper/native_token.go:Keeper.UpdateNSTByBalanceChange:index:stakerInfo.BalanceList[length-1]", .candidate "F-11c"),
  ("x/oracle/keeper/native_token.go:Keeper.UpdateNSTByBalanceChange:must:k.cdc.MustMarshal(stakerInfo)", .codec),
  ("x/oracle/keeper/native_token.go:Keeper.UpdateNSTByBalanceChange:must:k.cdc.MustUnmarshal(value, stakerInfo)", .codec),
  ("x/oracle/keeper/native_token.go:parseBalanceChange:index:changes[byteIndex]", .candidate "F-11c"),
  ("x/oracle/keeper/native_token.go:parseBalanceChange:index:changes[byteIndex]#2", .candidate "F-11c"),
  ("x/oracle/keeper/native_token.go:parseBalanceChange:index:changes[byteIndex]#3", .candidate "F-11c"),
  ("x/oracle/keeper/native_token.go:parseBalanceChange:index:sl.StakerAddrs[index]", .candidate "F-11c"),
  ("x/oracle/keeper/nonce.go:Keeper.getNonce:must:k.cdc.MustUnmarshal(bz, &nonce)", .codec),
  ("x/oracle/keeper/nonce.go:Keeper.removeNonceWithValidatorAndFeederID:index:nonce.NonceList[:i]", .loopBound "i is the index of the enclosing range loop over the same slice"),
  ("x/oracle/keeper/nonce.go:Keeper.removeNonceWithValidatorAndFeederID:index:nonce.NonceList[i+1:]", .loopBound "i is the index of the enclosing range loop over the same slice"),
  ("x/oracle/keeper/nonce.go:Keeper.setNonce:must:k.cdc.MustMarshal(&nonce)", .codec),
  ("x/oracle/keeper/params.go:Keeper.GetParams:must:k.cdc.MustUnmarshal(bz, &params)", .codec),
  ("x/oracle/keeper/prices.go:Keeper.AppendPriceTR:errfall:err != nil", .noResultUsed),
  ("x/oracle/keeper/prices.go:Keeper.AppendPriceTR:must:k.cdc.MustMarshal(&priceTR)", .codec),
  ("x/oracle/keeper/prices.go:Keeper.GetPriceTRLatest:must:k.cdc.MustUnmarshal(b, &price)", .codec),
  ("x/oracle/keeper/recent_msg.go:Keeper.GetAllRecentMsgAsMap:must:k.cdc.MustUnmarshal(iterator.Value(), &val)", .codec),
  ("x/oracle/keeper/recent_msg.go:Keeper.SetRecentMsg:must:k.cdc.MustMarshal(&recentMsg)", .codec),
  ("x/oracle/keeper/recent_params.go:Keeper.GetAllRecentParamsAsMap:must:k.cdc.MustUnmarshal(iterator.Value(), &val)", .codec),
  ("x/oracle/keeper/recent_params.go:Keeper.SetRecentParams:must:k.cdc.MustMarshal(&recentParams)", .codec),
  ("x/oracle/keeper/validator_update_block.go:Keeper.GetValidatorUpdateBlock:must:k.cdc.MustUnmarshal(b, &val)", .codec),
  ("x/oracle/keeper/validator_update_block.go:Keeper.SetValidatorUpdateBlock:must:k.cdc.MustMarshal(&validatorUpdateBlock)", .codec),
  ("x/oracle/types/native_token.go:StakerInfo.Append:index:s.BalanceList[len(s.BalanceList)-maxSize:]", .loopBound "guarded by len(s.BalanceList) > maxSize"),
  ("x/oracle/types/params.go:Params.GetAssetIDsFromTokenID:index:p.Tokens[tokenID]", .loopBound "guarded by tokenID >= len(p.Tokens) => return"),
  ("x/oracle/types/params.go:Params.GetTokenInfo:index:p.Tokens[v.TokenID]", .inputChecked "TokenFeeder.TokenID < len(Tokens) is enforced by Params.Validate"),
  ("x/reward/keeper/keeper.go:Keeper.getPool:must:k.cdc.MustUnmarshal(value, &pool)", .codec),
  ("x/reward/keeper/keeper.go:Keeper.setPool:must:k.cdc.MustMarshal(&pool)", .codec),
  ("x/reward/keeper/params.go:Keeper.GetParams:must:k.cdc.MustUnmarshal(value, ret)", .codec),
  ("x/slash/keeper/params.go:Keeper.GetParams:must:k.cdc.MustUnmarshal(value, ret)", .codec)]

def reviewed : List String := reviewTable.map (·.1)

def knownFindingSites : List String := (reviewTable.filter (·.2.isFinding)).map (·.1)

theorem C11_block_path_roots : blockPathRoots = reviewedRoots := by rfl

set_option maxRecDepth 100000 in
theorem C11_panic_sites_eq_reviewed : panicSitesInBlockPaths = reviewed := by rfl

theorem C11_all_panic_sites_covered : ∀ s ∈ panicSitesInBlockPaths, s ∈ reviewed := by
  rw [C11_panic_sites_eq_reviewed]; intro s h; exact h

set_option maxRecDepth 100000 in
/-- no site is left without a review class -/
theorem C11_no_unreviewed_sites : (reviewTable.filter (fun p => p.2 == Review.unreviewed)).length = 0 := by rfl

set_option maxRecDepth 100000 in
/-- how the 204 sites are discharged: by theorem / open finding / everything that is not closed by a
theorem or a mechanical reason (findings, candidates, by-reading assumptions) -/
theorem C11_review_counts :
    reviewTable.length = 204 ∧
    (reviewTable.filter (·.2.isGuard)).length = 11 ∧
    (reviewTable.filter (·.2.isFinding)).length = 0 ∧
    (reviewTable.filter (·.2.isOpen)).length = 13 := by
  refine ⟨by rfl, by rfl, by rfl, by rfl⟩

/-- the sites of open findings (none at present: F-11a's two `panic("unimplemented")` stubs are gone) are on block paths -/
theorem C11_finding_sites_are_on_block_paths : ∀ s ∈ knownFindingSites, s ∈ panicSitesInBlockPaths := by
  rw [C11_panic_sites_eq_reviewed]
  intro s h
  simp only [knownFindingSites, List.mem_map, List.mem_filter] at h
  obtain ⟨p, ⟨hp, _⟩, rfl⟩ := h
  exact List.mem_map.mpr ⟨p, hp, rfl⟩

/-! ### exact guards: the divisions' dominating conditions, regenerated from the source as Bool kernels
(`Gen.quoGuard_<Func>`, tools/exofacts/facts_guards.go), exclude a zero divisor. The site strings of the
review table carry the same guards as text (`… <= g₁ ; g₂ ; …`), so a changed guard breaks the table tie,
and a weakened one (`!a && !b` → `!(a && b)`) additionally makes the lemma below unprovable. -/

theorem C11_guard_exact_AfterEpochEnd (nSigned nRes operatorPowerTotal taskPowerTotal : Int) (e t : Bool)
    (h : quoGuard_AfterEpochEnd nSigned nRes operatorPowerTotal taskPowerTotal e t = true) : operatorPowerTotal ≠ 0 := by
  intro h0; subst h0; simp [quoGuard_AfterEpochEnd] at h

theorem C11_guard_exact_SlashAssets (stakingAndWaitUnbonding : Int) (e : Bool)
    (h : quoGuard_SlashAssets stakingAndWaitUnbonding e = true) : stakingAndWaitUnbonding ≠ 0 := by
  intro h0; subst h0; simp [quoGuard_SlashAssets] at h

theorem C11_guard_exact_TokensFromShares (stakerShare totalShare : Int)
    (h : quoGuard_TokensFromShares stakerShare totalShare = true) : totalShare ≠ 0 := by
  intro h0; subst h0; simp [quoGuard_TokensFromShares] at h

theorem C11_guard_exact_AllocateTokens (totalPreviousPower : Int) (e f : Bool)
    (h : quoGuard_AllocateTokens totalPreviousPower e f = true) : totalPreviousPower * ExoVerif.Blocks.decOne ≠ 0 := by
  have hz : totalPreviousPower ≠ 0 := by
    intro h0; subst h0; simp [quoGuard_AllocateTokens] at h
  exact Int.mul_ne_zero hz (by decide)

theorem C11_guard_exact_AllocateTokensToStakers (curTotalStakersPowers : Int) (e : Bool)
    (h : quoGuard_AllocateTokensToStakers curTotalStakersPowers e = true) : curTotalStakersPowers ≠ 0 := by
  intro h0; subst h0; simp [quoGuard_AllocateTokensToStakers] at h

theorem C11_guard_exact_UpdateNSTBalance (amount pendingSlashAmount totalDelegatedAmount : Int) (e : Bool)
    (h : quoGuard_UpdateNSTBalance amount pendingSlashAmount totalDelegatedAmount e = true) :
    totalDelegatedAmount * ExoVerif.Blocks.decOne ≠ 0 := by
  have hz : totalDelegatedAmount ≠ 0 := by
    intro h0; subst h0; simp [quoGuard_UpdateNSTBalance] at h
  exact Int.mul_ne_zero hz (by decide)

/-- the two sites without a guard divide by a constant -/
theorem C11_guard_exact_unguarded : quoGuard_CalculateUSDValue = true ∧ quoGuard_Median = true := ⟨rfl, rfl⟩

/-- which sites the kernels belong to -/
theorem C11_quo_guard_index : quoGuardIndex = [
  "x/avs/keeper/impl_epoch_hook.go:EpochsHooksWrapper.AfterEpochEnd:taskPowerTotal.Quo(operatorPowerTotal) | quoGuard_AfterEpochEnd (len_signedOperatorList len_taskResList operatorPowerTotal taskPowerTotal : Int) (err_isNil taskInfo_isNil : Bool) | divisor=operatorPowerTotal",
  "x/delegation/keeper/share.go:TokensFromShares:(stakerShare.MulInt(totalAmount)).QuoTruncate(totalShare) | quoGuard_TokensFromShares (stakerShare totalShare : Int) | divisor=totalShare",
  "x/delegation/keeper/update_native_restaking_balance.go:Keeper.UpdateNSTBalance:sdkmath.LegacyNewDecFromBigInt(pendingSlashAmount.BigInt()).Quo(sdkmath.LegacyNe… | quoGuard_UpdateNSTBalance (amount pendingSlashAmount totalDelegatedAmount : Int) (err_isNil : Bool) | divisor=sdkmath.LegacyNewDecFromBigInt(totalDelegatedAmount.BigInt())",
  "x/feedistribution/keeper/allocation.go:Keeper.AllocateTokens:math.LegacyNewDec(val.Power).QuoTruncate(math.LegacyNewDec(totalPreviousPower)) | quoGuard_AllocateTokens (totalPreviousPower : Int) (err_isNil found_flag : Bool) | divisor=math.LegacyNewDec(totalPreviousPower)",
  "x/feedistribution/keeper/allocation.go:Keeper.AllocateTokensToStakers:stakerPower.QuoTruncate(curTotalStakersPowers) | quoGuard_AllocateTokensToStakers (curTotalStakersPowers : Int) (err_isNil : Bool) | divisor=curTotalStakersPowers",
  "x/operator/keeper/common_func.go:CalculateUSDValue:assetValueDec.QuoInt(divisor) | quoGuard_CalculateUSDValue | divisor=divisor",
  "x/operator/keeper/slash.go:Keeper.SlashAssets:slashUSDValue.Quo(stakingInfo.StakingAndWaitUnbonding) | quoGuard_SlashAssets (stakingInfo_StakingAndWaitUnbonding : Int) (err_isNil : Bool) | divisor=stakingInfo.StakingAndWaitUnbonding",
  "x/oracle/keeper/common/types.go:BigIntList.Median:new(big.Int).Div(new(big.Int).Add(b[l/2], b[l/2-1]), big.NewInt(2)) | quoGuard_Median | divisor=new(big.Int).Add(b[l/2], b[l/2-1])"] := by rfl

/-! ### nil / non-positive price values (nil-dereference kind)

sdkmath.Int is a pointer wrapper: `NewIntFromString` of a non-numeric string yields a nil Int, and any
arithmetic on it (CalculateUSDValue: `assetAmount.Mul(price)`) dereferences nil — in BeginBlock on the slash
path, at epoch ends on the voting-power path. The two oracle getters are the only producers of prices;
`oraclePriceLiterals` lists every `Price{…}` they build with its Value, what it is returned with and its
dominating guards. Two lemmas about the regenerated guard kernels show that the only literals whose Value
is a parsed variable are reached with a non-nil, positive value; the table tie pins everything else
(default-price constructors, and the one `Price{}` that is returned together with a non-RoundNotFound
error, which every consumer propagates). -/

theorem C11_price_value_guard_specified (v : Int) (vNil : Bool)
    (h : priceValueGuard_GetSpecifiedAssetsPrice v vNil = true) : vNil = false ∧ 0 < v := by
  cases vNil <;> simp [priceValueGuard_GetSpecifiedAssetsPrice] at h ⊢
  omega

theorem C11_price_value_guard_multiple (v : Int) (vNil : Bool)
    (h : priceValueGuard_GetMultipleAssetsPrices v vNil = true) : vNil = false ∧ 0 < v := by
  cases vNil <;> simp [priceValueGuard_GetMultipleAssetsPrices] at h ⊢
  omega

theorem C11_oracle_price_literals : oraclePriceLiterals = [
  "Keeper.GetSpecifiedAssetsPrice|Value=sdkmath.NewInt(types.DefaultPriceValue)|with=nil|assetID == assetstypes.ExocoreAssetID",
  "Keeper.GetSpecifiedAssetsPrice|Value=unset|with=types.ErrGetPriceAssetNotFound.Wrapf|not(assetID == assetstypes.ExocoreAssetID) ; tokenID == 0",
  "Keeper.GetSpecifiedAssetsPrice|Value=sdkmath.NewInt(types.DefaultPriceValue)|with=types.ErrGetPriceRoundNotFound.Wrapf|not(assetID == assetstypes.ExocoreAssetID) ; not(tokenID == 0) ; !found",
  "Keeper.GetSpecifiedAssetsPrice|Value=sdkmath.NewInt(types.DefaultPriceValue)|with=types.ErrGetPriceRoundNotFound.Wrapf|not(assetID == assetstypes.ExocoreAssetID) ; not(tokenID == 0) ; not(!found) ; v.IsNil() || v.LTE(sdkmath.ZeroInt())",
  "Keeper.GetSpecifiedAssetsPrice|Value=v|with=nil|not(assetID == assetstypes.ExocoreAssetID) ; not(tokenID == 0) ; not(!found) ; not(v.IsNil() || v.LTE(sdkmath.ZeroInt()))",
  "Keeper.GetMultipleAssetsPrices|Value=sdkmath.NewInt(types.DefaultPriceValue)|with=assigned|assetID == assetstypes.ExocoreAssetID",
  "Keeper.GetMultipleAssetsPrices|Value=sdkmath.NewInt(types.DefaultPriceValue)|with=assigned|not(assetID == assetstypes.ExocoreAssetID) ; not(tokenID == 0) ; !found",
  "Keeper.GetMultipleAssetsPrices|Value=sdkmath.NewInt(types.DefaultPriceValue)|with=assigned|not(assetID == assetstypes.ExocoreAssetID) ; not(tokenID == 0) ; not(!found) ; v.IsNil() || v.LTE(sdkmath.ZeroInt())",
  "Keeper.GetMultipleAssetsPrices|Value=v|with=assigned|not(assetID == assetstypes.ExocoreAssetID) ; not(tokenID == 0) ; not(!found) ; not(v.IsNil() || v.LTE(sdkmath.ZeroInt()))"] := by rfl

/-- who consumes the getters (all treat ErrGetPriceRoundNotFound as "default price" and return any other error) -/
theorem C11_price_consumers : priceConsumersOnBlockPaths = [
  "GetMultipleAssetsPrices <- x/operator/keeper/abci.go:Keeper.UpdateVotingPower",
  "GetMultipleAssetsPrices <- x/operator/keeper/usd_value.go:Keeper.CalculateUSDValueForStaker",
  "GetMultipleAssetsPrices <- x/operator/keeper/usd_value.go:Keeper.GetOrCalculateOperatorUSDValues",
  "GetSpecifiedAssetsPrice <- x/operator/keeper/usd_value.go:Keeper.CalculateUSDValueForOperator"] := by rfl

/-! ### the guard lemmas' models are the regenerated Go kernels -/

/-- the divisor `C11_guard_usdValue_divisor` is about is the one the regenerated CalculateUSDValue divides by -/
theorem C11_tie_usdValue_divisor (a p ad pd : Int) :
    ExoVerif.Gen.calculateUSDValue a p ad pd = ExoVerif.Dec.quoInt (ExoVerif.Dec.ofInt (a * p)) (usdDivisor ad pd) := rfl

/-- the regenerated TokensFromShares reaches its QuoTruncate only with a non-zero total share -/
theorem C11_tie_tokensFromShares_divisor (s t : ExoVerif.Dec) (a : Int)
    (h1 : ExoVerif.Dec.gt s t = false) (h2 : ExoVerif.Dec.isZero t = false) :
    ExoVerif.Gen.tokensFromShares s t a =
      .ok (ExoVerif.Dec.truncateInt (ExoVerif.Dec.quoTruncate (ExoVerif.Dec.mulInt s a) t)) ∧ t.raw ≠ 0 := by
  constructor
  · simp [ExoVerif.Gen.tokensFromShares, h1, h2]
  · simpa [ExoVerif.Dec.isZero] using h2

/-- x/delegation EndBlock builds `sdk.NewCoin(hua, record.ActualCompletedAmount)` for a matured native-token
undelegation; NewCoin panics on a negative amount. The only code that lowers ActualCompletedAmount is the
regenerated SlashFromUndelegation, and it never takes it below zero (it caps against the amount that is
left, not against the original Amount). -/
theorem C11_guard_undelegation_actual_nonneg (r : ExoVerif.Ledger.URec) (p : ExoVerif.Dec) (h : 0 ≤ r.actual) :
    0 ≤ (ExoVerif.Gen.slashFromUndelegation r p).1.actual := by
  unfold ExoVerif.Gen.slashFromUndelegation
  by_cases h0 : r.actual = 0
  · simp [h0]
  · simp only [beq_iff_eq, h0, if_false]
    split
    · simp
    · rename_i hlt
      simp only [decide_eq_true_eq, Int.not_le] at hlt
      simp only []
      omega

/-- x/appchain (coordinator, subscriber) is not wired into the application -/
theorem C11_appchain_not_wired : appWiredCustomModules.all (fun m => m != "x/appchain/coordinator" && m != "x/appchain/subscriber") = true := by
  decide

end ExoVerif.Blocks
