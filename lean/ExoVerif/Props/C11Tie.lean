import ExoVerif.Generated.Facts
import ExoVerif.Generated.Kernels
import ExoVerif.Props.C11
import ExoVerif.Props.C11Guards
import ExoVerif.Props.C11Sites
/-!
# C11 tie: every panic-capable site on a block path carries a review, encoded here

`Gen.panicSitesInBlockPaths` is recomputed from the Go sources on every run (syntactic call graph by
function name from the Begin/EndBlock methods, epoch hooks and x/dogfood's SDK-facing staking
interface; over-approximating). `reviewTable` pairs each site with the reason it cannot halt a block —
or with the finding that shows it can. `C11_panic_sites_eq_reviewed` is the tie: a new unguarded
division, index, `Must…`, explicit panic, unchecked type assertion or swallowed error in a function on a
block path (or the removal of one) changes the generated list and breaks the proof until the table is
updated. `guard` entries name a theorem about the enclosing code (`Props/C11.lean`: a model; this file: the
regenerated quoGuard_* kernels; `Props/C11Guards.lean`: the regenerated siteGuard_*/siteSafe_* kernel pairs),
`invariant` entries a theorem of `Props/C11Sites.lean` about other code the site relies on; the other classes are
justifications by reading (no theorem), counted in `C11_review_counts`.
(Written by tools/gen_c11_review.py after review; static afterwards.)
-/
namespace ExoVerif.Blocks
open ExoVerif.Gen

inductive Review where
  | guard (theoremName : String)   -- proved: the dangerous operand cannot occur (kernel / model of the enclosing function)
  | invariant (theoremName : String) -- proved on a model of OTHER code: state invariant, caller contract, earlier validation (Props/C11Sites.lean)
  | finding (id : String)          -- it does halt: open defect, replayed on the real application
  | candidate (id : String)        -- suspected, not reproduced
  | codec                          -- (un)marshal of bytes this module wrote itself with the paired Marshal
  | loopBound (why : String)       -- index within bounds by the enclosing loop / length check / construction
  | inputChecked (why : String)    -- the value was validated before it could reach this point
  | noResultUsed                   -- swallowed error, but nothing returned by the failed call is used afterwards
  | notWired                       -- x/appchain is not registered in app/app.go (call-graph over-approximation)
  | assumed (why : String)         -- reviewed by reading only
  | unreviewed
deriving DecidableEq, Repr

def Review.isGuard : Review → Bool | .guard _ => true | _ => false
def Review.isInvariant : Review → Bool | .invariant _ => true | _ => false
def Review.isFinding : Review → Bool | .finding _ => true | _ => false
def Review.isOpen : Review → Bool | .finding _ => true | .candidate _ => true | .assumed _ => true | .unreviewed => true | _ => false

def reviewedRoots : List String := [
  "x/appchain/coordinator/keeper/impl_epochs_hooks.go:EpochsHooksWrapper.AfterEpochEnd",
  "x/appchain/coordinator/keeper/impl_epochs_hooks.go:EpochsHooksWrapper.BeforeEpochStart",
  "x/appchain/coordinator/module.go:AppModule.BeginBlock",
  "x/appchain/coordinator/module.go:AppModule.EndBlock",
  "x/appchain/subscriber/module.go:AppModule.BeginBlock",
  "x/appchain/subscriber/module.go:AppModule.EndBlock",
  "x/avs/keeper/impl_epoch_hook.go:EpochsHooksWrapper.AfterEpochEnd",
  "x/avs/keeper/impl_epoch_hook.go:EpochsHooksWrapper.BeforeEpochStart",
  "x/delegation/module.go:AppModule.EndBlock",
  "x/dogfood/keeper/impl_epochs_hooks.go:EpochsHooksWrapper.AfterEpochEnd",
  "x/dogfood/keeper/impl_epochs_hooks.go:EpochsHooksWrapper.BeforeEpochStart",
  "x/dogfood/keeper/impl_sdk.go:Keeper.ApplyAndReturnValidatorSetUpdates",
  "x/dogfood/keeper/impl_sdk.go:Keeper.Delegation",
  "x/dogfood/keeper/impl_sdk.go:Keeper.GetAllValidators",
  "x/dogfood/keeper/impl_sdk.go:Keeper.GetParams",
  "x/dogfood/keeper/impl_sdk.go:Keeper.IsValidatorJailed",
  "x/dogfood/keeper/impl_sdk.go:Keeper.IterateBondedValidatorsByPower",
  "x/dogfood/keeper/impl_sdk.go:Keeper.IterateDelegations",
  "x/dogfood/keeper/impl_sdk.go:Keeper.IterateValidators",
  "x/dogfood/keeper/impl_sdk.go:Keeper.Jail",
  "x/dogfood/keeper/impl_sdk.go:Keeper.MaxValidators",
  "x/dogfood/keeper/impl_sdk.go:Keeper.Slash",
  "x/dogfood/keeper/impl_sdk.go:Keeper.SlashWithInfractionReason",
  "x/dogfood/keeper/impl_sdk.go:Keeper.TotalBondedTokens",
  "x/dogfood/keeper/impl_sdk.go:Keeper.Unjail",
  "x/dogfood/keeper/impl_sdk.go:Keeper.Validator",
  "x/dogfood/keeper/impl_sdk.go:Keeper.ValidatorByConsAddr",
  "x/dogfood/module.go:AppModule.BeginBlock",
  "x/dogfood/module.go:AppModule.EndBlock",
  "x/epochs/module.go:AppModule.BeginBlock",
  "x/epochs/module.go:AppModule.EndBlock",
  "x/evm/module.go:AppModule.BeginBlock",
  "x/evm/module.go:AppModule.EndBlock",
  "x/exomint/keeper/impl_epochs_hooks.go:EpochsHooksWrapper.AfterEpochEnd",
  "x/exomint/keeper/impl_epochs_hooks.go:EpochsHooksWrapper.BeforeEpochStart",
  "x/exomint/module.go:AppModule.BeginBlock",
  "x/exomint/module.go:AppModule.EndBlock",
  "x/feedistribution/keeper/hooks.go:EpochsHooksWrapper.AfterEpochEnd",
  "x/feedistribution/keeper/hooks.go:EpochsHooksWrapper.BeforeEpochStart",
  "x/feedistribution/module.go:AppModule.BeginBlock",
  "x/feedistribution/module.go:AppModule.EndBlock",
  "x/operator/keeper/impl_epoch_hook.go:EpochsHooksWrapper.AfterEpochEnd",
  "x/operator/keeper/impl_epoch_hook.go:EpochsHooksWrapper.BeforeEpochStart",
  "x/operator/module.go:AppModule.EndBlock",
  "x/oracle/module.go:AppModule.BeginBlock",
  "x/oracle/module.go:AppModule.EndBlock",
  "x/reward/keeper/hooks.go:EpochsHooksWrapper.AfterEpochEnd",
  "x/reward/keeper/hooks.go:EpochsHooksWrapper.BeforeEpochStart",
  "x/reward/module.go:AppModule.BeginBlock",
  "x/reward/module.go:AppModule.EndBlock",
  "x/slash/module.go:AppModule.BeginBlock",
  "x/slash/module.go:AppModule.EndBlock"]

def reviewTable : List (String × Review) := [
  ("utils/store.go:KVStore.Get:must:store.cdc.MustUnmarshalLengthPrefixed(bz, value)", .codec),
  ("utils/store.go:KVStore.Set:must:store.cdc.MustMarshalLengthPrefixed(value)", .codec),
  ("utils/store.go:basicKey.AsKey:index:delimiter[0]", .guard "C11_guard_AsKey_delimiter_0"),
  ("utils/utils.go:SortByPower:index:indices[i]", .guard "C11_guard_SortByPower_indices_i"),
  ("utils/utils.go:SortByPower:index:indices[i]#2", .guard "C11_guard_SortByPower_indices_i_2"),
  ("utils/utils.go:SortByPower:index:indices[i]#3", .guard "C11_guard_SortByPower_indices_i_3"),
  ("utils/utils.go:SortByPower:index:indices[j]", .guard "C11_guard_SortByPower_indices_j"),
  ("utils/utils.go:SortByPower:index:indices[j]#2", .guard "C11_guard_SortByPower_indices_j_2"),
  ("utils/utils.go:SortByPower:index:indices[j]#3", .guard "C11_guard_SortByPower_indices_j_3"),
  ("utils/utils.go:SortByPower:index:operatorAddrs[idx]", .invariant "C11_site_SortByPower_in_range"),
  ("utils/utils.go:SortByPower:index:operatorAddrs[indices[i]]", .invariant "C11_site_SortByPower_in_range"),
  ("utils/utils.go:SortByPower:index:operatorAddrs[indices[j]]", .invariant "C11_site_SortByPower_in_range"),
  ("utils/utils.go:SortByPower:index:powers[idx]", .invariant "C11_site_SortByPower_in_range"),
  ("utils/utils.go:SortByPower:index:powers[indices[i]]", .invariant "C11_site_SortByPower_in_range"),
  ("utils/utils.go:SortByPower:index:powers[indices[i]]#2", .invariant "C11_site_SortByPower_in_range"),
  ("utils/utils.go:SortByPower:index:powers[indices[j]]", .invariant "C11_site_SortByPower_in_range"),
  ("utils/utils.go:SortByPower:index:powers[indices[j]]#2", .invariant "C11_site_SortByPower_in_range"),
  ("utils/utils.go:SortByPower:index:pubKeys[idx]", .invariant "C11_site_SortByPower_in_range"),
  ("utils/utils.go:SortByPower:index:sortedOperatorAddrs[i]", .invariant "C11_site_SortByPower_in_range"),
  ("utils/utils.go:SortByPower:index:sortedPowers[i]", .guard "C11_guard_SortByPower_sortedPowers_i"),
  ("utils/utils.go:SortByPower:index:sortedPubKeys[i]", .invariant "C11_site_SortByPower_in_range"),
  ("x/appchain/common/types/shared_params.go:CalculateTrustPeriod:conv:trustDec.MulInt64(unbondingPeriod.Nanoseconds()).TruncateInt64()", .notWired),
  ("x/appchain/coordinator/keeper/ibc_client.go:Keeper.MakeSubscriberGenesis:assert:consState.(*ibctmtypes.ConsensusState)", .notWired),
  ("x/appchain/coordinator/keeper/ibc_client.go:Keeper.MakeSubscriberGenesis:index:keys[i]", .notWired),
  ("x/appchain/coordinator/keeper/ibc_client.go:Keeper.MakeSubscriberGenesis:index:powers[i]", .notWired),
  ("x/appchain/coordinator/keeper/ibc_client.go:Keeper.SetSubscriberGenesis:must:k.cdc.MustMarshal(genesis)", .notWired),
  ("x/appchain/coordinator/keeper/impl_epochs_hooks.go:EpochsHooksWrapper.AfterEpochEnd:errfall:err != nil", .notWired),
  ("x/appchain/coordinator/keeper/params.go:Keeper.GetParams:must:k.cdc.MustUnmarshal(bz, &params)", .notWired),
  ("x/appchain/coordinator/keeper/register.go:Keeper.GetPendingSubChains:must:k.cdc.MustUnmarshal(store.Get(key), &res)", .notWired),
  ("x/appchain/coordinator/keeper/timeout.go:Keeper.GetChainsToInitTimeout:must:k.cdc.MustUnmarshal(bz, &res)", .notWired),
  ("x/appchain/coordinator/keeper/timeout.go:Keeper.SetChainsToInitTimeout:must:k.cdc.MustMarshal(&chains)", .notWired),
  ("x/appchain/subscriber/keeper/params.go:Keeper.GetParams:must:k.cdc.MustUnmarshal(bz, &res)", .notWired),
  ("x/assets/keeper/client_chain_asset.go:Keeper.GetAssetsDecimal:must:k.cdc.MustUnmarshal(value, &ret)", .codec),
  ("x/assets/keeper/client_chain_asset.go:Keeper.GetStakingAssetInfo:must:k.cdc.MustUnmarshal(value, &ret)", .codec),
  ("x/assets/keeper/operator_asset.go:Keeper.GetOperatorSpecifiedAssetInfo:must:k.cdc.MustUnmarshal(value, &ret)", .codec),
  ("x/assets/keeper/operator_asset.go:Keeper.IterateAssetsForOperator:index:keys[1]", .invariant "C11_site_operator_asset_keys_two_parts"),
  ("x/assets/keeper/operator_asset.go:Keeper.IterateAssetsForOperator:index:keys[1]#2", .invariant "C11_site_operator_asset_keys_two_parts"),
  ("x/assets/keeper/operator_asset.go:Keeper.IterateAssetsForOperator:must:k.cdc.MustMarshal(&amounts)", .codec),
  ("x/assets/keeper/operator_asset.go:Keeper.IterateAssetsForOperator:must:k.cdc.MustUnmarshal(iterator.Value(), &amounts)", .codec),
  ("x/assets/keeper/operator_asset.go:Keeper.UpdateOperatorAssetState:must:k.cdc.MustMarshal(&assetState)", .codec),
  ("x/assets/keeper/operator_asset.go:Keeper.UpdateOperatorAssetState:must:k.cdc.MustUnmarshal(value, &assetState)", .codec),
  ("x/assets/keeper/params.go:Keeper.GetParams:must:k.cdc.MustUnmarshal(value, ret)", .codec),
  ("x/assets/keeper/staker_asset.go:Keeper.GetStakerSpecifiedAssetInfo:must:k.cdc.MustUnmarshal(value, &ret)", .codec),
  ("x/assets/keeper/staker_asset.go:Keeper.GetStakerSpecifiedAssetInfo:must:sdk.MustAccAddressFromBech32(operator)", .inputChecked "operator addresses are bech32-validated (ValidateBasic / AccAddressFromBech32) before they are stored"),
  ("x/assets/keeper/staker_asset.go:Keeper.UpdateStakerAssetState:must:k.cdc.MustMarshal(&assetState)", .codec),
  ("x/assets/keeper/staker_asset.go:Keeper.UpdateStakerAssetState:must:k.cdc.MustUnmarshal(value, &assetState)", .codec),
  ("x/assets/types/keys.go:ParseID:index:keys[0]", .guard "C11_guard_ParseID_keys_0"),
  ("x/assets/types/keys.go:ParseID:index:keys[0]#2", .guard "C11_guard_ParseID_keys_0_2"),
  ("x/assets/types/keys.go:ParseID:index:keys[1]", .guard "C11_guard_ParseID_keys_1"),
  ("x/avs/keeper/impl_epoch_hook.go:EpochsHooksWrapper.AfterEpochEnd:errfall:err != nil", .noResultUsed),
  ("x/avs/keeper/impl_epoch_hook.go:EpochsHooksWrapper.AfterEpochEnd:errfall:err != nil || power.ActiveUSDValue.IsNegative()", .assumed "GetOperatorOptedUSDValue / GetAVSUSDValue cannot fail here: the result is only selected while its AVS (with a USD-value record, required by CreateAVSTask) still owns the task address; on failure the zero LegacyDec would be dereferenced"),
  ("x/avs/keeper/impl_epoch_hook.go:EpochsHooksWrapper.AfterEpochEnd:errfall:err != nil || taskPowerTotal.IsZero() || operatorPowerTotal.IsZero()", .assumed "GetOperatorOptedUSDValue / GetAVSUSDValue cannot fail here: the result is only selected while its AVS (with a USD-value record, required by CreateAVSTask) still owns the task address; on failure the zero LegacyDec would be dereferenced"),
  ("x/avs/keeper/impl_epoch_hook.go:EpochsHooksWrapper.AfterEpochEnd:quo:taskPowerTotal.Quo(operatorPowerTotal) <= len(taskResList) != 0 ; not(len(signedOperatorList) == 0) ; not(err != nil || taskInfo == nil) ; !taskPowerTotal.IsZero() && !operatorPowerTotal.IsZero()", .guard "C11_guard_exact_AfterEpochEnd"),
  ("x/avs/keeper/keeper.go:Keeper.GetAVSInfo:must:k.cdc.MustUnmarshal(value, &ret)", .codec),
  ("x/avs/keeper/keeper.go:Keeper.IterateAVSInfo:must:k.cdc.MustUnmarshal(iterator.Value(), &avs)", .codec),
  ("x/avs/keeper/params.go:Keeper.GetParams:must:k.cdc.MustUnmarshal(value, ret)", .codec),
  ("x/avs/keeper/task.go:Keeper.GetTaskInfo:must:k.cdc.MustUnmarshal(value, &ret)", .codec),
  ("x/avs/keeper/task.go:Keeper.GroupTasksByIDAndAddress:index:taskGroup[i]", .guard "C11_guard_GroupTasksByIDAndAddress_taskGroup_i"),
  ("x/avs/keeper/task.go:Keeper.GroupTasksByIDAndAddress:index:taskGroup[j]", .guard "C11_guard_GroupTasksByIDAndAddress_taskGroup_j"),
  ("x/avs/keeper/task.go:Keeper.IterateResultInfo:must:k.cdc.MustUnmarshal(iterator.Value(), &task)", .codec),
  ("x/avs/keeper/task.go:Keeper.SetTaskInfo:must:k.cdc.MustMarshal(task)", .codec),
  ("x/avs/types/types.go:ChainIDWithoutRevision:index:splitStr[0]", .guard "C11_guard_ChainIDWithoutRevision_splitStr_0"),
  ("x/delegation/keeper/abci.go:Keeper.EndBlock:must:sdk.MustAccAddressFromBech32(record.OperatorAddr)", .inputChecked "operator addresses are bech32-validated (ValidateBasic / AccAddressFromBech32) before they are stored"),
  ("x/delegation/keeper/abci.go:Keeper.EndBlock:newcoin:sdk.NewCoin(assetstypes.ExocoreAssetDenom, record.ActualCompletedAmount)", .invariant "C11_site_undelegation_actual_nonneg_reachable"),
  ("x/delegation/keeper/delegation_state.go:Keeper.DeleteStakerForOperator:index:stakers.Stakers[:i]", .guard "C11_guard_DeleteStakerForOperator_stakers_Stakers_i"),
  ("x/delegation/keeper/delegation_state.go:Keeper.DeleteStakerForOperator:index:stakers.Stakers[i+1:]", .guard "C11_guard_DeleteStakerForOperator_stakers_Stakers_i_1"),
  ("x/delegation/keeper/delegation_state.go:Keeper.DeleteStakerForOperator:must:k.cdc.MustMarshal(&stakers)", .codec),
  ("x/delegation/keeper/delegation_state.go:Keeper.DeleteStakerForOperator:must:k.cdc.MustUnmarshal(value, &stakers)", .codec),
  ("x/delegation/keeper/delegation_state.go:Keeper.GetStakersByOperator:must:k.cdc.MustUnmarshal(value, &stakerList)", .codec),
  ("x/delegation/keeper/delegation_state.go:Keeper.IterateDelegations:must:k.cdc.MustUnmarshal(iterator.Value(), &amounts)", .codec),
  ("x/delegation/keeper/delegation_state.go:Keeper.SetStakerShareToZero:must:k.cdc.MustMarshal(&delegationState)", .codec),
  ("x/delegation/keeper/delegation_state.go:Keeper.SetStakerShareToZero:must:k.cdc.MustUnmarshal(value, &delegationState)", .codec),
  ("x/delegation/keeper/delegation_state.go:Keeper.TotalDelegatedAmountForStakerAsset:must:sdk.MustAccAddressFromBech32(keys.GetOperatorAddr())", .inputChecked "operator addresses are bech32-validated (ValidateBasic / AccAddressFromBech32) before they are stored"),
  ("x/delegation/keeper/delegation_state.go:Keeper.UpdateDelegationState:must:k.cdc.MustMarshal(&delegationState)", .codec),
  ("x/delegation/keeper/delegation_state.go:Keeper.UpdateDelegationState:must:k.cdc.MustUnmarshal(value, &delegationState)", .codec),
  ("x/delegation/keeper/share.go:TokensFromShares:quo:(stakerShare.MulInt(totalAmount)).QuoTruncate(totalShare) <= not(stakerShare.GT(totalShare)) ; not(totalShare.IsZero())", .guard "C11_guard_exact_TokensFromShares"),
  ("x/delegation/keeper/un_delegation_state.go:Keeper.GetUndelegationRecords:must:k.cdc.MustUnmarshal(value, &undelegationRecord)", .codec),
  ("x/delegation/keeper/un_delegation_state.go:Keeper.IterateUndelegationsByOperator:must:k.cdc.MustMarshal(&undelegation)", .codec),
  ("x/delegation/keeper/un_delegation_state.go:Keeper.IterateUndelegationsByOperator:must:k.cdc.MustUnmarshal(iterator.Value(), &undelegation)", .codec),
  ("x/delegation/keeper/un_delegation_state.go:Keeper.IterateUndelegationsByStakerAndAsset:must:k.cdc.MustMarshal(&undelegation)", .codec),
  ("x/delegation/keeper/un_delegation_state.go:Keeper.IterateUndelegationsByStakerAndAsset:must:k.cdc.MustUnmarshal(infoValue, &undelegation)", .codec),
  ("x/delegation/keeper/un_delegation_state.go:Keeper.SetUndelegationRecords:must:k.cdc.MustMarshal(&record)", .codec),
  ("x/delegation/keeper/update_native_restaking_balance.go:Keeper.UpdateNSTBalance:quo:sdkmath.LegacyNewDecFromBigInt(pendingSlashAmount.BigInt()).Quo(sdkmath.LegacyNe… <= not(amount.IsPositive()) ; amount.IsNegative() ; not(err != nil) ; not(err != nil) ; pendingSlashAmount.IsPositive() ; not(err != nil) ; !totalDelegatedAmount.IsZero()", .guard "C11_guard_exact_UpdateNSTBalance"),
  ("x/delegation/types/keys.go:ParseStakerAssetIDAndOperator:index:stringList[0]", .guard "C11_guard_ParseStakerAssetIDAndOperator_stringList_0"),
  ("x/delegation/types/keys.go:ParseStakerAssetIDAndOperator:index:stringList[1]", .guard "C11_guard_ParseStakerAssetIDAndOperator_stringList_1"),
  ("x/delegation/types/keys.go:ParseStakerAssetIDAndOperator:index:stringList[2]", .guard "C11_guard_ParseStakerAssetIDAndOperator_stringList_2"),
  ("x/delegation/types/keys.go:ParseUndelegationRecordKey:index:stringList[0]", .guard "C11_guard_ParseUndelegationRecordKey_stringList_0"),
  ("x/delegation/types/keys.go:ParseUndelegationRecordKey:index:stringList[1]", .guard "C11_guard_ParseUndelegationRecordKey_stringList_1"),
  ("x/delegation/types/keys.go:ParseUndelegationRecordKey:index:stringList[2]", .guard "C11_guard_ParseUndelegationRecordKey_stringList_2"),
  ("x/delegation/types/keys.go:ParseUndelegationRecordKey:index:stringList[3]", .guard "C11_guard_ParseUndelegationRecordKey_stringList_3"),
  ("x/dogfood/keeper/abci.go:Keeper.EndBlock:errfall:err != nil", .noResultUsed),
  ("x/dogfood/keeper/abci.go:Keeper.EndBlock:errfall:err != nil#2", .noResultUsed),
  ("x/dogfood/keeper/abci.go:Keeper.EndBlock:index:keys[i]", .invariant "C11_site_dogfood_EndBlock_in_range"),
  ("x/dogfood/keeper/abci.go:Keeper.EndBlock:index:powers[i]", .invariant "C11_site_dogfood_EndBlock_in_range"),
  ("x/dogfood/keeper/impl_sdk.go:Keeper.Delegation:conv:operatorUSDValues.SelfUSDValue.TruncateInt64()", .candidate "F-11f (the same unbounded USD value converted at another site; not reproduced separately: the F-11f history halts at the epoch end first)"),
  ("x/dogfood/keeper/impl_sdk.go:Keeper.IterateBondedValidatorsByPower:index:prevList[i]", .guard "C11_guard_IterateBondedValidatorsByPower_prevList_i"),
  ("x/dogfood/keeper/impl_sdk.go:Keeper.IterateBondedValidatorsByPower:index:prevList[j]", .guard "C11_guard_IterateBondedValidatorsByPower_prevList_j"),
  ("x/dogfood/keeper/opt_out.go:Keeper.GetConsensusAddrsToPrune:panic:panic(err)", .codec),
  ("x/dogfood/keeper/opt_out.go:Keeper.GetOptOutsToFinish:panic:panic(err)", .codec),
  ("x/dogfood/keeper/params.go:Keeper.GetDogfoodParams:must:k.cdc.MustUnmarshal(bz, &params)", .codec),
  ("x/dogfood/keeper/pending.go:Keeper.SetPendingConsensusAddrs:must:k.cdc.MustMarshal(&addrs)", .codec),
  ("x/dogfood/keeper/pending.go:Keeper.SetPendingOptOuts:must:k.cdc.MustMarshal(&addrs)", .codec),
  ("x/dogfood/keeper/pending.go:Keeper.SetPendingUndelegations:must:k.cdc.MustMarshal(&undelegations)", .codec),
  ("x/dogfood/keeper/unbonding.go:Keeper.GetUndelegationsToMature:panic:panic(err)", .codec),
  ("x/dogfood/keeper/validators.go:Keeper.ApplyValidatorChanges:index:ret[i]", .guard "C11_guard_ApplyValidatorChanges_ret_i"),
  ("x/dogfood/keeper/validators.go:Keeper.ApplyValidatorChanges:index:ret[i]#2", .guard "C11_guard_ApplyValidatorChanges_ret_i_2"),
  ("x/dogfood/keeper/validators.go:Keeper.ApplyValidatorChanges:index:ret[i]#3", .guard "C11_guard_ApplyValidatorChanges_ret_i_3"),
  ("x/dogfood/keeper/validators.go:Keeper.ApplyValidatorChanges:index:ret[j]", .guard "C11_guard_ApplyValidatorChanges_ret_j"),
  ("x/dogfood/keeper/validators.go:Keeper.ApplyValidatorChanges:index:ret[j]#2", .guard "C11_guard_ApplyValidatorChanges_ret_j_2"),
  ("x/dogfood/keeper/validators.go:Keeper.ApplyValidatorChanges:index:ret[j]#3", .guard "C11_guard_ApplyValidatorChanges_ret_j_3"),
  ("x/dogfood/keeper/validators.go:Keeper.GetAllExocoreValidators:must:k.cdc.MustUnmarshal(iterator.Value(), &val)", .codec),
  ("x/dogfood/keeper/validators.go:Keeper.GetExocoreValidator:must:k.cdc.MustUnmarshal(v, &validator)", .codec),
  ("x/dogfood/keeper/validators.go:Keeper.GetHistoricalInfo:must:stakingtypes.MustUnmarshalHistoricalInfo(k.cdc, value)", .codec),
  ("x/dogfood/keeper/validators.go:Keeper.GetLastTotalPower:must:k.cdc.MustUnmarshal(bz, &ip)", .codec),
  ("x/dogfood/keeper/validators.go:Keeper.GetValidatorUpdates:must:k.cdc.MustUnmarshal(bz, &valUpdates)", .codec),
  ("x/dogfood/keeper/validators.go:Keeper.SetExocoreValidator:must:k.cdc.MustMarshal(&validator)", .codec),
  ("x/dogfood/keeper/validators.go:Keeper.SetHistoricalInfo:must:k.cdc.MustMarshal(hi)", .codec),
  ("x/dogfood/keeper/validators.go:Keeper.SetLastTotalPower:must:k.cdc.MustMarshal(&sdk.IntProto{Int: power})", .codec),
  ("x/dogfood/keeper/validators.go:Keeper.SetValidatorUpdates:must:k.cdc.MustMarshal(&stakingtypes.ValidatorUpdates{Updates: valUpdates})", .codec),
  ("x/epochs/keeper/epoch_infos.go:Keeper.GetEpochInfo:must:k.cdc.MustUnmarshal(bz, &epoch)", .codec),
  ("x/epochs/keeper/epoch_infos.go:Keeper.IterateEpochInfos:must:k.cdc.MustUnmarshal(iterator.Value(), &epoch)", .codec),
  ("x/epochs/keeper/epoch_infos.go:Keeper.setEpochInfoUnchecked:must:k.cdc.MustMarshal(&epoch)", .codec),
  ("x/evm/keeper/keeper.go:Keeper.WithChainID:panic:panic(\"chain id already set\")", .inputChecked "ctx.ChainID() is the genesis chain id, parsed by ParseChainID at InitChain; the same id every block"),
  ("x/evm/keeper/keeper.go:Keeper.WithChainID:panic:panic(err)", .inputChecked "ctx.ChainID() is the genesis chain id, parsed by ParseChainID at InitChain; the same id every block"),
  ("x/evm/keeper/params.go:Keeper.GetParams:must:k.cdc.MustUnmarshal(bz, &params)", .codec),
  ("x/exomint/keeper/impl_epochs_hooks.go:EpochsHooksWrapper.AfterEpochEnd:newcoin:sdk.NewCoin(params.MintDenom, params.EpochReward)", .invariant "C11_site_epoch_reward_nonneg"),
  ("x/exomint/keeper/params.go:Keeper.GetParams:must:k.cdc.MustUnmarshal(bz, &params)", .codec),
  ("x/feedistribution/keeper/allocation.go:Keeper.AllocateTokens:quo:math.LegacyNewDec(val.Power).QuoTruncate(math.LegacyNewDec(totalPreviousPower)) <= not(err != nil) ; not(totalPreviousPower == 0) ; not(err != nil) ; not(err != nil) ; not(!found) ; not(totalPreviousPower == 0)", .guard "C11_guard_exact_AllocateTokens"),
  ("x/feedistribution/keeper/allocation.go:Keeper.AllocateTokensToStakers:coinsub:remaining.Sub(rewardToSingleStaker)", .invariant "C11_site_fee_allocation_never_overdraws"),
  ("x/feedistribution/keeper/allocation.go:Keeper.AllocateTokensToStakers:index:globalStakerAddressList[i]", .guard "C11_guard_AllocateTokensToStakers_globalStakerAddressList_i"),
  ("x/feedistribution/keeper/allocation.go:Keeper.AllocateTokensToStakers:index:globalStakerAddressList[j]", .guard "C11_guard_AllocateTokensToStakers_globalStakerAddressList_j"),
  ("x/feedistribution/keeper/allocation.go:Keeper.AllocateTokensToStakers:quo:stakerPower.QuoTruncate(curTotalStakersPowers) <= not(err != nil) ; curTotalStakersPowers.IsPositive()", .guard "C11_guard_exact_AllocateTokensToStakers"),
  ("x/feedistribution/keeper/allocation.go:Keeper.AllocateTokensToValidator:coinsub:tokens.Sub(commission)", .invariant "C11_site_fee_allocation_never_overdraws"),
  ("x/feedistribution/keeper/allocation.go:Keeper.AllocateTokensToValidator:errfall:err != nil", .assumed "OperatorInfo cannot fail: the validator handed in was resolved from a registered operator by AllocateTokens; on failure the zero Commission.Rate would be dereferenced"),
  ("x/feedistribution/keeper/hooks.go:EpochsHooksWrapper.AfterEpochEnd:conv:previousTotalPower.Int64()", .candidate "F-11f (sum of the int64 vote powers; CometBFT refuses a total above 2^60 first)"),
  ("x/feedistribution/keeper/keeper.go:Keeper.GetFeePool:must:k.cdc.MustMarshal(feePool)", .codec),
  ("x/feedistribution/keeper/keeper.go:Keeper.GetFeePool:must:k.cdc.MustUnmarshal(b, fp)", .codec),
  ("x/feedistribution/keeper/keeper.go:Keeper.GetStakerRewards:must:k.cdc.MustUnmarshal(bz, &rewards)", .codec),
  ("x/feedistribution/keeper/keeper.go:Keeper.GetValidatorAccumulatedCommission:must:k.cdc.MustUnmarshal(b, &commission)", .codec),
  ("x/feedistribution/keeper/keeper.go:Keeper.GetValidatorOutstandingRewards:must:k.cdc.MustUnmarshal(bz, &rewards)", .codec),
  ("x/feedistribution/keeper/keeper.go:Keeper.SetFeePool:must:k.cdc.MustMarshal(feePool)", .codec),
  ("x/feedistribution/keeper/keeper.go:Keeper.SetStakerRewards:must:k.cdc.MustMarshal(&rewards)", .codec),
  ("x/feedistribution/keeper/keeper.go:Keeper.SetValidatorAccumulatedCommission:must:k.cdc.MustMarshal(&commission)", .codec),
  ("x/feedistribution/keeper/keeper.go:Keeper.SetValidatorAccumulatedCommission:must:k.cdc.MustMarshal(&types.ValidatorAccumulatedCommission{})", .codec),
  ("x/feedistribution/keeper/keeper.go:Keeper.SetValidatorOutstandingRewards:must:k.cdc.MustMarshal(&rewards)", .codec),
  ("x/feedistribution/keeper/params.go:Keeper.GetParams:must:k.cdc.MustUnmarshal(bz, &params)", .codec),
  ("x/feedistribution/types/keys.go:GetStakerOutstandingRewardsKey:must:address.MustLengthPrefix([]byte(staker))", .inputChecked "address / staker id shorter than 256 bytes: 20-byte addresses, staker ids of at most 66+3+18 characters"),
  ("x/feedistribution/types/keys.go:GetValidatorAccumulatedCommissionKey:must:address.MustLengthPrefix(v.Bytes())", .inputChecked "address / staker id shorter than 256 bytes: 20-byte addresses, staker ids of at most 66+3+18 characters"),
  ("x/feedistribution/types/keys.go:GetValidatorOutstandingRewardsKey:must:address.MustLengthPrefix(valAddr.Bytes())", .inputChecked "address / staker id shorter than 256 bytes: 20-byte addresses, staker ids of at most 66+3+18 characters"),
  ("x/operator/keeper/common_func.go:CalculateUSDValue:quo:assetValueDec.QuoInt(divisor) <= none", .guard "C11_guard_usdValue_divisor"),
  ("x/operator/keeper/consensus_keys.go:Keeper.GetActiveOperatorsForChainID:index:pks[i]", .invariant "C11_site_GetActiveOperators_in_range"),
  ("x/operator/keeper/consensus_keys.go:Keeper.GetOperatorsForChainID:index:iterator.Key()[len(prefix):]", .guard "C11_guard_GetOperatorsForChainID_iterator_Key_len_prefix"),
  ("x/operator/keeper/consensus_keys.go:Keeper.GetOperatorsForChainID:must:k.cdc.MustUnmarshal(res, ret)", .codec),
  ("x/operator/keeper/consensus_keys.go:Keeper.ValidatorByConsAddrForChainID:conv:minSelfDelegation.TruncateInt64()", .assumed "the minimum self delegation of the chain's own (dogfood) AVS comes from genesis / governance parameters and is far below 2^63"),
  ("x/operator/keeper/consensus_keys.go:Keeper.ValidatorByConsAddrForChainID:conv:operatorUSDValues.TotalUSDValue.TruncateInt64()", .candidate "F-11f (the same unbounded USD value converted at another site; not reproduced separately: the F-11f history halts at the epoch end first)"),
  ("x/operator/keeper/consensus_keys.go:Keeper.getOperatorConsKeyForChainID:must:k.cdc.MustUnmarshal(res, key)", .codec),
  ("x/operator/keeper/operator.go:Keeper.GetOptedInAVSForOperator:index:keys[1]", .guard "C11_guard_GetOptedInAVSForOperator_keys_1"),
  ("x/operator/keeper/operator.go:Keeper.GetOptedInfo:must:k.cdc.MustUnmarshal(value, &ret)", .codec),
  ("x/operator/keeper/operator.go:Keeper.HandleOptedInfo:must:k.cdc.MustMarshal(info)", .codec),
  ("x/operator/keeper/operator.go:Keeper.HandleOptedInfo:must:k.cdc.MustUnmarshal(value, info)", .codec),
  ("x/operator/keeper/operator.go:Keeper.OperatorInfo:must:k.cdc.MustUnmarshal(value, &ret)", .codec),
  ("x/operator/keeper/operator_slash_state.go:Keeper.UpdateOperatorSlashInfo:must:k.cdc.MustMarshal(&slashInfo)", .codec),
  ("x/operator/keeper/slash.go:Keeper.SetJailedState:errfall:err != nil", .noResultUsed),
  ("x/operator/keeper/slash.go:Keeper.SlashAssets:quo:slashUSDValue.Quo(stakingInfo.StakingAndWaitUnbonding) <= not(err != nil) ; not(!stakingInfo.StakingAndWaitUnbonding.IsPositive())", .guard "C11_guard_exact_SlashAssets"),
  ("x/operator/keeper/usd_value.go:Keeper.GetAVSUSDValue:must:k.cdc.MustUnmarshal(value, &ret)", .codec),
  ("x/operator/keeper/usd_value.go:Keeper.GetOperatorOptedUSDValue:must:k.cdc.MustUnmarshal(value, &ret)", .codec),
  ("x/operator/keeper/usd_value.go:Keeper.GetVotePowerForChainID:conv:optedUSDValues.ActiveUSDValue.TruncateInt64()", .finding "F-11f"),
  ("x/operator/keeper/usd_value.go:Keeper.IterateOperatorsForAVS:index:keys[1]", .invariant "C11_site_avs_prefix_key_two_parts"),
  ("x/operator/keeper/usd_value.go:Keeper.IterateOperatorsForAVS:must:k.cdc.MustMarshal(&optedUSDValues)", .codec),
  ("x/operator/keeper/usd_value.go:Keeper.IterateOperatorsForAVS:must:k.cdc.MustUnmarshal(iterator.Value(), &optedUSDValues)", .codec),
  ("x/operator/keeper/usd_value.go:Keeper.SetAVSUSDValue:must:k.cdc.MustMarshal(&setValue)", .codec),
  ("x/oracle/keeper/aggregator/aggregator.go:aggregator.fillPrice:index:pSource.Prices[0]", .invariant "C11_site_oracle_sources_nonempty"),
  ("x/oracle/keeper/aggregator/aggregator.go:aggregator.fillPrice:index:pSource.Prices[0]#2", .invariant "C11_site_oracle_sources_nonempty"),
  ("x/oracle/keeper/aggregator/aggregator.go:aggregator.fillPrice:index:pSource.Prices[0]#3", .invariant "C11_site_oracle_sources_nonempty"),
  ("x/oracle/keeper/aggregator/aggregator.go:aggregator.fillPrice:index:pSource.Prices[0]#4", .invariant "C11_site_oracle_sources_nonempty"),
  ("x/oracle/keeper/aggregator/context.go:AggregatorContext.FillPrice:index:msg.Prices[0]", .invariant "C11_site_oracle_sources_nonempty"),
  ("x/oracle/keeper/aggregator/context.go:AggregatorContext.FillPrice:index:msg.Prices[0].Prices[0]", .invariant "C11_site_oracle_sources_nonempty"),
  ("x/oracle/keeper/aggregator/context.go:AggregatorContext.PrepareRoundEndBlock:intdiv:delta % feeder.Interval <= not(block < 1) ; not(feederID == 0) ; not((feeder.EndBlock > 0 && feeder.EndBlock <= block) || feeder.StartBaseBlock > block)", .invariant "C11_site_params_validate_feeder"),
  ("x/oracle/keeper/aggregator/context.go:AggregatorContext.PrepareRoundEndBlock:intdiv:delta / feeder.Interval <= not(block < 1) ; not(feederID == 0) ; not((feeder.EndBlock > 0 && feeder.EndBlock <= block) || feeder.StartBaseBlock > block)", .invariant "C11_site_params_validate_feeder"),
  ("x/oracle/keeper/aggregator/filter.go:filter.addPSource:index:pSource.Prices[0]", .invariant "C11_site_oracle_sources_nonempty"),
  ("x/oracle/keeper/cache/caches.go:Cache.AddCache:panic:panic(\"no other types are support\")", .guard "C11_guard_AddCache_default_unreachable"),
  ("x/oracle/keeper/cache/caches.go:cacheMsgs.commit:index:index.Index[i:]", .guard "C11_guard_commit_index_Index_i"),
  ("x/oracle/keeper/cache/caches.go:cacheParams.commit:index:index.Index[i:]", .guard "C11_guard_commit_index_Index_i_2"),
  ("x/oracle/keeper/common/types.go:BigIntList.Median:index:b[l/2-1]", .invariant "C11_site_median_never_empty"),
  ("x/oracle/keeper/common/types.go:BigIntList.Median:index:b[l/2]", .guard "C11_guard_Median_b_l_2"),
  ("x/oracle/keeper/common/types.go:BigIntList.Median:index:b[l/2]#2", .invariant "C11_site_median_never_empty"),
  ("x/oracle/keeper/common/types.go:BigIntList.Median:quo:new(big.Int).Div(new(big.Int).Add(b[l/2], b[l/2-1]), big.NewInt(2)) <= not(l%2 == 1)", .guard "C11_guard_median_divisor"),
  ("x/oracle/keeper/index_recent_msg.go:Keeper.GetIndexRecentMsg:must:k.cdc.MustUnmarshal(b, &val)", .codec),
  ("x/oracle/keeper/index_recent_msg.go:Keeper.SetIndexRecentMsg:must:k.cdc.MustMarshal(&indexRecentMsg)", .codec),
  ("x/oracle/keeper/index_recent_params.go:Keeper.GetIndexRecentParams:must:k.cdc.MustUnmarshal(b, &val)", .codec),
  ("x/oracle/keeper/index_recent_params.go:Keeper.SetIndexRecentParams:must:k.cdc.MustMarshal(&indexRecentParams)", .codec),
  ("x/oracle/keeper/native_token.go:Keeper.GetStakerList:must:k.cdc.MustUnmarshal(value, stakerList)", .codec),
  ("x/oracle/keeper/native_token.go:Keeper.UpdateNSTByBalanceChange:index:stakerInfo.BalanceList[length-1]", .guard "C11_guard_UpdateNSTByBalanceChange_stakerInfo_BalanceList_length_1"),
  ("x/oracle/keeper/native_token.go:Keeper.UpdateNSTByBalanceChange:must:k.cdc.MustMarshal(stakerInfo)", .codec),
  ("x/oracle/keeper/native_token.go:Keeper.UpdateNSTByBalanceChange:must:k.cdc.MustUnmarshal(value, stakerInfo)", .codec),
  ("x/oracle/keeper/native_token.go:parseBalanceChange:index:changes[byteIndex]", .guard "C11_guard_parseBalanceChange_changes_byteIndex"),
  ("x/oracle/keeper/native_token.go:parseBalanceChange:index:changes[byteIndex]#2", .guard "C11_guard_parseBalanceChange_changes_byteIndex_2"),
  ("x/oracle/keeper/native_token.go:parseBalanceChange:index:changes[byteIndex]#3", .guard "C11_guard_parseBalanceChange_changes_byteIndex_3"),
  ("x/oracle/keeper/native_token.go:parseBalanceChange:index:sl.StakerAddrs[index]", .guard "C11_guard_parseBalanceChange_sl_StakerAddrs_index"),
  ("x/oracle/keeper/nonce.go:Keeper.getNonce:must:k.cdc.MustUnmarshal(bz, &nonce)", .codec),
  ("x/oracle/keeper/nonce.go:Keeper.removeNonceWithValidatorAndFeederID:index:nonce.NonceList[:i]", .guard "C11_guard_removeNonceWithValidatorAndFeederID_nonce_NonceList_i"),
  ("x/oracle/keeper/nonce.go:Keeper.removeNonceWithValidatorAndFeederID:index:nonce.NonceList[i+1:]", .guard "C11_guard_removeNonceWithValidatorAndFeederID_nonce_NonceList_i_1"),
  ("x/oracle/keeper/nonce.go:Keeper.setNonce:must:k.cdc.MustMarshal(&nonce)", .codec),
  ("x/oracle/keeper/params.go:Keeper.GetParams:must:k.cdc.MustUnmarshal(bz, &params)", .codec),
  ("x/oracle/keeper/prices.go:Keeper.AppendPriceTR:errfall:err != nil", .noResultUsed),
  ("x/oracle/keeper/prices.go:Keeper.AppendPriceTR:must:k.cdc.MustMarshal(&priceTR)", .codec),
  ("x/oracle/keeper/prices.go:Keeper.GetPriceTRLatest:must:k.cdc.MustUnmarshal(b, &price)", .codec),
  ("x/oracle/keeper/recent_msg.go:Keeper.GetAllRecentMsgAsMap:must:k.cdc.MustUnmarshal(iterator.Value(), &val)", .codec),
  ("x/oracle/keeper/recent_msg.go:Keeper.SetRecentMsg:must:k.cdc.MustMarshal(&recentMsg)", .codec),
  ("x/oracle/keeper/recent_params.go:Keeper.GetAllRecentParamsAsMap:must:k.cdc.MustUnmarshal(iterator.Value(), &val)", .codec),
  ("x/oracle/keeper/recent_params.go:Keeper.SetRecentParams:must:k.cdc.MustMarshal(&recentParams)", .codec),
  ("x/oracle/keeper/validator_update_block.go:Keeper.GetValidatorUpdateBlock:must:k.cdc.MustUnmarshal(b, &val)", .codec),
  ("x/oracle/keeper/validator_update_block.go:Keeper.SetValidatorUpdateBlock:must:k.cdc.MustMarshal(&validatorUpdateBlock)", .codec),
  ("x/oracle/types/native_token.go:StakerInfo.Append:index:s.BalanceList[len(s.BalanceList)-maxSize:]", .guard "C11_guard_Append_s_BalanceList_len_s_BalanceList_maxSize"),
  ("x/oracle/types/params.go:Params.GetAssetIDsFromTokenID:index:p.Tokens[tokenID]", .guard "C11_guard_GetAssetIDsFromTokenID_p_Tokens_tokenID"),
  ("x/oracle/types/params.go:Params.GetTokenInfo:index:p.Tokens[v.TokenID]", .invariant "C11_site_params_validate_feeder"),
  ("x/reward/keeper/keeper.go:Keeper.getPool:must:k.cdc.MustUnmarshal(value, &pool)", .codec),
  ("x/reward/keeper/keeper.go:Keeper.setPool:must:k.cdc.MustMarshal(&pool)", .codec),
  ("x/reward/keeper/params.go:Keeper.GetParams:must:k.cdc.MustUnmarshal(value, ret)", .codec),
  ("x/slash/keeper/params.go:Keeper.GetParams:must:k.cdc.MustUnmarshal(value, ret)", .codec)]

def reviewed : List String := reviewTable.map (·.1)

def knownFindingSites : List String := (reviewTable.filter (·.2.isFinding)).map (·.1)

theorem C11_block_path_roots : blockPathRoots = reviewedRoots := by rfl

set_option maxRecDepth 100000 in
theorem C11_panic_sites_eq_reviewed : panicSitesInBlockPaths = reviewed := by rfl

theorem C11_all_panic_sites_covered : ∀ s ∈ panicSitesInBlockPaths, s ∈ reviewed := by
  rw [C11_panic_sites_eq_reviewed]; intro s h; exact h

set_option maxRecDepth 100000 in
/-- no site is left without a review class -/
theorem C11_no_unreviewed_sites : (reviewTable.filter (fun p => p.2 == Review.unreviewed)).length = 0 := by rfl

set_option maxRecDepth 100000 in
/-- how the 220 sites are discharged: by theorem / open finding / everything that is not closed by a
theorem or a mechanical reason (findings, candidates, by-reading assumptions) -/
theorem C11_review_counts :
    reviewTable.length = 220 ∧
    (reviewTable.filter (·.2.isGuard)).length = 56 ∧
    (reviewTable.filter (·.2.isInvariant)).length = 33 ∧
    (reviewTable.filter (·.2.isFinding)).length = 1 ∧
    (reviewTable.filter (·.2.isOpen)).length = 8 := by
  refine ⟨by rfl, by rfl, by rfl, by rfl, by rfl⟩

/-- the sites of the open findings (F-11c: the unchecked slice accesses of parseBalanceChange; F-11f: the TruncateInt64 of an operator's USD value) are on block paths -/
theorem C11_finding_sites_are_on_block_paths : ∀ s ∈ knownFindingSites, s ∈ panicSitesInBlockPaths := by
  rw [C11_panic_sites_eq_reviewed]
  intro s h
  simp only [knownFindingSites, List.mem_map, List.mem_filter] at h
  obtain ⟨p, ⟨hp, _⟩, rfl⟩ := h
  exact List.mem_map.mpr ⟨p, hp, rfl⟩

/-! ### exact guards: the divisions' dominating conditions, regenerated from the source as Bool kernels
(`Gen.quoGuard_<Func>`, tools/exofacts/facts_guards.go), exclude a zero divisor. The site strings of the
review table carry the same guards as text (`… <= g₁ ; g₂ ; …`), so a changed guard breaks the table tie,
and a weakened one (`!a && !b` → `!(a && b)`) additionally makes the lemma below unprovable. -/

theorem C11_guard_exact_AfterEpochEnd (nSigned nRes operatorPowerTotal taskPowerTotal : Int) (e t : Bool)
    (h : quoGuard_AfterEpochEnd nSigned nRes operatorPowerTotal taskPowerTotal e t = true) : operatorPowerTotal ≠ 0 := by
  intro h0; subst h0; simp [quoGuard_AfterEpochEnd] at h

theorem C11_guard_exact_SlashAssets (stakingAndWaitUnbonding : Int) (e : Bool)
    (h : quoGuard_SlashAssets stakingAndWaitUnbonding e = true) : stakingAndWaitUnbonding ≠ 0 := by
  intro h0; subst h0; simp [quoGuard_SlashAssets] at h

theorem C11_guard_exact_TokensFromShares (stakerShare totalShare : Int)
    (h : quoGuard_TokensFromShares stakerShare totalShare = true) : totalShare ≠ 0 := by
  intro h0; subst h0; simp [quoGuard_TokensFromShares] at h

theorem C11_guard_exact_AllocateTokens (totalPreviousPower : Int) (e f : Bool)
    (h : quoGuard_AllocateTokens totalPreviousPower e f = true) : totalPreviousPower * ExoVerif.Blocks.decOne ≠ 0 := by
  have hz : totalPreviousPower ≠ 0 := by
    intro h0; subst h0; simp [quoGuard_AllocateTokens] at h
  exact Int.mul_ne_zero hz (by decide)

theorem C11_guard_exact_AllocateTokensToStakers (curTotalStakersPowers : Int) (e : Bool)
    (h : quoGuard_AllocateTokensToStakers curTotalStakersPowers e = true) : curTotalStakersPowers ≠ 0 := by
  intro h0; subst h0; simp [quoGuard_AllocateTokensToStakers] at h

theorem C11_guard_exact_UpdateNSTBalance (amount pendingSlashAmount totalDelegatedAmount : Int) (e : Bool)
    (h : quoGuard_UpdateNSTBalance amount pendingSlashAmount totalDelegatedAmount e = true) :
    totalDelegatedAmount * ExoVerif.Blocks.decOne ≠ 0 := by
  have hz : totalDelegatedAmount ≠ 0 := by
    intro h0; subst h0; simp [quoGuard_UpdateNSTBalance] at h
  exact Int.mul_ne_zero hz (by decide)

/-- the two sites without a guard divide by a constant -/
theorem C11_guard_exact_unguarded : quoGuard_CalculateUSDValue = true ∧ quoGuard_Median = true := ⟨rfl, rfl⟩

/-- which sites the kernels belong to -/
theorem C11_quo_guard_index : quoGuardIndex = [
  "x/avs/keeper/impl_epoch_hook.go:EpochsHooksWrapper.AfterEpochEnd:taskPowerTotal.Quo(operatorPowerTotal) | quoGuard_AfterEpochEnd (len_signedOperatorList len_taskResList operatorPowerTotal taskPowerTotal : Int) (err_isNil taskInfo_isNil : Bool) | divisor=operatorPowerTotal",
  "x/delegation/keeper/share.go:TokensFromShares:(stakerShare.MulInt(totalAmount)).QuoTruncate(totalShare) | quoGuard_TokensFromShares (stakerShare totalShare : Int) | divisor=totalShare",
  "x/delegation/keeper/update_native_restaking_balance.go:Keeper.UpdateNSTBalance:sdkmath.LegacyNewDecFromBigInt(pendingSlashAmount.BigInt()).Quo(sdkmath.LegacyNe… | quoGuard_UpdateNSTBalance (amount pendingSlashAmount totalDelegatedAmount : Int) (err_isNil : Bool) | divisor=sdkmath.LegacyNewDecFromBigInt(totalDelegatedAmount.BigInt())",
  "x/feedistribution/keeper/allocation.go:Keeper.AllocateTokens:math.LegacyNewDec(val.Power).QuoTruncate(math.LegacyNewDec(totalPreviousPower)) | quoGuard_AllocateTokens (totalPreviousPower : Int) (err_isNil found_flag : Bool) | divisor=math.LegacyNewDec(totalPreviousPower)",
  "x/feedistribution/keeper/allocation.go:Keeper.AllocateTokensToStakers:stakerPower.QuoTruncate(curTotalStakersPowers) | quoGuard_AllocateTokensToStakers (curTotalStakersPowers : Int) (err_isNil : Bool) | divisor=curTotalStakersPowers",
  "x/operator/keeper/common_func.go:CalculateUSDValue:assetValueDec.QuoInt(divisor) | quoGuard_CalculateUSDValue | divisor=divisor",
  "x/operator/keeper/slash.go:Keeper.SlashAssets:slashUSDValue.Quo(stakingInfo.StakingAndWaitUnbonding) | quoGuard_SlashAssets (stakingInfo_StakingAndWaitUnbonding : Int) (err_isNil : Bool) | divisor=stakingInfo.StakingAndWaitUnbonding",
  "x/oracle/keeper/common/types.go:BigIntList.Median:new(big.Int).Div(new(big.Int).Add(b[l/2], b[l/2-1]), big.NewInt(2)) | quoGuard_Median | divisor=new(big.Int).Add(b[l/2], b[l/2-1])"] := by rfl

/-! ### site guards: for index / integer-division / NewCoin sites the extractor regenerates what is locally known
at the site (`siteGuard_*`) and what the operation needs (`siteSafe_*`); `Props/C11Guards.lean` proves the
implication for all values. The index fact records for every such site its kernel, or why it has none (the
extractor found an assignment that satisfies every local fact but not the safety condition: such a site needs
a state invariant, or is a defect). -/

set_option maxRecDepth 100000 in
theorem C11_site_guard_index : siteGuardIndex = [
  "utils/store.go:basicKey.AsKey:index:delimiter[0] | siteGuard_AsKey_delimiter_0 (len_delimiter : Int) | witness: len_delimiter=1",
  "utils/utils.go:SortByPower:index:indices[i] | siteGuard_SortByPower_indices_i (i j len_indices len_powers : Int) | witness: i=5 j=5 len_indices=7 len_powers=7",
  "utils/utils.go:SortByPower:index:indices[i]#2 | siteGuard_SortByPower_indices_i_2 (i j len_indices len_powers : Int) | witness: i=5 j=5 len_indices=7 len_powers=7",
  "utils/utils.go:SortByPower:index:indices[i]#3 | siteGuard_SortByPower_indices_i_3 (i j len_indices len_powers : Int) | witness: i=5 j=5 len_indices=7 len_powers=7",
  "utils/utils.go:SortByPower:index:indices[j] | siteGuard_SortByPower_indices_j (i j len_indices len_powers : Int) | witness: i=5 j=5 len_indices=7 len_powers=7",
  "utils/utils.go:SortByPower:index:indices[j]#2 | siteGuard_SortByPower_indices_j_2 (i j len_indices len_powers : Int) | witness: i=5 j=5 len_indices=7 len_powers=7",
  "utils/utils.go:SortByPower:index:indices[j]#3 | siteGuard_SortByPower_indices_j_3 (i j len_indices len_powers : Int) | witness: i=5 j=5 len_indices=7 len_powers=7",
  "utils/utils.go:SortByPower:index:operatorAddrs[idx] | none | not locally safe: i=0 idx=1 len_indices=1 len_operatorAddrs=1 len_powers=1 satisfies every local fact (((((((decide ((0 : Int) ≤ i)) && (decide (i < len_indices))) && (len_indices == len_powers)) && (decide ((0 : Int) ≤ len_indices))) && (decide ((0 : Int) ≤ len_operatorAddrs))) && (decide ((0 : Int) ≤ len_powers)))) but not ((decide ((0 : Int) ≤ idx)) && (decide (idx < len_operatorAddrs)))",
  "utils/utils.go:SortByPower:index:operatorAddrs[indices[i]] | none | index expression outside the translated subset",
  "utils/utils.go:SortByPower:index:operatorAddrs[indices[j]] | none | index expression outside the translated subset",
  "utils/utils.go:SortByPower:index:powers[idx] | none | not locally safe: i=0 idx=7 len_indices=7 len_powers=7 satisfies every local fact ((((((decide ((0 : Int) ≤ i)) && (decide (i < len_indices))) && (len_indices == len_powers)) && (decide ((0 : Int) ≤ len_indices))) && (decide ((0 : Int) ≤ len_powers)))) but not ((decide ((0 : Int) ≤ idx)) && (decide (idx < len_powers)))",
  "utils/utils.go:SortByPower:index:powers[indices[i]] | none | index expression outside the translated subset",
  "utils/utils.go:SortByPower:index:powers[indices[i]]#2 | none | index expression outside the translated subset",
  "utils/utils.go:SortByPower:index:powers[indices[j]] | none | index expression outside the translated subset",
  "utils/utils.go:SortByPower:index:powers[indices[j]]#2 | none | index expression outside the translated subset",
  "utils/utils.go:SortByPower:index:pubKeys[idx] | none | not locally safe: i=5 idx=5 len_indices=7 len_powers=7 len_pubKeys=1 satisfies every local fact (((((((decide ((0 : Int) ≤ i)) && (decide (i < len_indices))) && (len_indices == len_powers)) && (decide ((0 : Int) ≤ len_indices))) && (decide ((0 : Int) ≤ len_powers))) && (decide ((0 : Int) ≤ len_pubKeys)))) but not ((decide ((0 : Int) ≤ idx)) && (decide (idx < len_pubKeys)))",
  "utils/utils.go:SortByPower:index:sortedOperatorAddrs[i] | none | not locally safe: i=5 len_indices=7 len_operatorAddrs=2 len_powers=7 len_sortedOperatorAddrs=2 satisfies every local fact (((((((((decide ((0 : Int) ≤ i)) && (decide (i < len_indices))) && (len_indices == len_powers)) && (len_sortedOperatorAddrs == len_operatorAddrs)) && (decide ((0 : Int) ≤ len_indices))) && (decide ((0 : Int) ≤ len_operatorAddrs))) && (decide ((0 : Int) ≤ len_powers))) && (decide ((0 : Int) ≤ len_sortedOperatorAddrs)))) but not ((decide ((0 : Int) ≤ i)) && (decide (i < len_sortedOperatorAddrs)))",
  "utils/utils.go:SortByPower:index:sortedPowers[i] | siteGuard_SortByPower_sortedPowers_i (i len_indices len_powers len_sortedPowers : Int) | witness: i=0 len_indices=7 len_powers=7 len_sortedPowers=7",
  "utils/utils.go:SortByPower:index:sortedPubKeys[i] | none | not locally safe: i=3 len_indices=5 len_powers=5 len_pubKeys=3 len_sortedPubKeys=3 satisfies every local fact (((((((((decide ((0 : Int) ≤ i)) && (decide (i < len_indices))) && (len_indices == len_powers)) && (len_sortedPubKeys == len_pubKeys)) && (decide ((0 : Int) ≤ len_indices))) && (decide ((0 : Int) ≤ len_powers))) && (decide ((0 : Int) ≤ len_pubKeys))) && (decide ((0 : Int) ≤ len_sortedPubKeys)))) but not ((decide ((0 : Int) ≤ i)) && (decide (i < len_sortedPubKeys)))",
  "x/assets/keeper/operator_asset.go:Keeper.IterateAssetsForOperator:index:keys[1] | none | not locally safe: len_keys=1 assetsFilter_isNil=false err_isNil=true satisfies every local fact (((((!(!err_isNil)) && (!assetsFilter_isNil)) && ((decide ((1 : Int) ≤ len_keys)) && (decide ((0 : Int) ≤ len_keys)))) && (decide ((0 : Int) ≤ len_keys)))) but not ((decide ((0 : Int) ≤ (1 : Int))) && (decide ((1 : Int) < len_keys)))",
  "x/assets/keeper/operator_asset.go:Keeper.IterateAssetsForOperator:index:keys[1]#2 | none | not locally safe: len_keys=1 err_isNil=true satisfies every local fact ((((!(!err_isNil)) && ((decide ((1 : Int) ≤ len_keys)) && (decide ((0 : Int) ≤ len_keys)))) && (decide ((0 : Int) ≤ len_keys)))) but not ((decide ((0 : Int) ≤ (1 : Int))) && (decide ((1 : Int) < len_keys)))",
  "x/assets/types/keys.go:ParseID:index:keys[0] | siteGuard_ParseID_keys_0 (len_keys : Int) | witness: len_keys=2",
  "x/assets/types/keys.go:ParseID:index:keys[0]#2 | siteGuard_ParseID_keys_0_2 (len_keys len_keys_0 : Int) (err_isNil : Bool) | witness: len_keys=2 len_keys_0=2 err_isNil=true",
  "x/assets/types/keys.go:ParseID:index:keys[1] | siteGuard_ParseID_keys_1 (len_keys len_keys_0 : Int) | witness: len_keys=2 len_keys_0=2",
  "x/avs/keeper/task.go:Keeper.GroupTasksByIDAndAddress:index:taskGroup[i] | siteGuard_GroupTasksByIDAndAddress_taskGroup_i (i j len_taskGroup : Int) | witness: i=7 j=5 len_taskGroup=8",
  "x/avs/keeper/task.go:Keeper.GroupTasksByIDAndAddress:index:taskGroup[j] | siteGuard_GroupTasksByIDAndAddress_taskGroup_j (i j len_taskGroup : Int) | witness: i=7 j=5 len_taskGroup=8",
  "x/avs/types/types.go:ChainIDWithoutRevision:index:splitStr[0] | siteGuard_ChainIDWithoutRevision_splitStr_0 (len_splitStr : Int) | witness: len_splitStr=1",
  "x/delegation/keeper/abci.go:Keeper.EndBlock:newcoin:sdk.NewCoin(assetstypes.ExocoreAssetDenom, record.ActualCompletedAmount) | none | not locally safe: i=0 len_records=3 record_ActualCompletedAmount=-1 err_isNil=true satisfies every local fact (((((!(len_records == (0 : Int))) && (!(!err_isNil))) && ((decide ((0 : Int) ≤ i)) && (decide (i < len_records)))) && (decide ((0 : Int) ≤ len_records)))) but not (decide ((0 : Int) ≤ record_ActualCompletedAmount))",
  "x/delegation/keeper/delegation_state.go:Keeper.DeleteStakerForOperator:index:stakers.Stakers[:i] | siteGuard_DeleteStakerForOperator_stakers_Stakers_i (i len_stakers_Stakers stakerID v : Int) | witness: i=0 len_stakers_Stakers=7 stakerID=7 v=7",
  "x/delegation/keeper/delegation_state.go:Keeper.DeleteStakerForOperator:index:stakers.Stakers[i+1:] | siteGuard_DeleteStakerForOperator_stakers_Stakers_i_1 (i len_stakers_Stakers stakerID v : Int) | witness: i=0 len_stakers_Stakers=7 stakerID=7 v=7",
  "x/delegation/types/keys.go:ParseStakerAssetIDAndOperator:index:stringList[0] | siteGuard_ParseStakerAssetIDAndOperator_stringList_0 (len_stringList : Int) (err_isNil : Bool) | witness: len_stringList=3 err_isNil=true",
  "x/delegation/types/keys.go:ParseStakerAssetIDAndOperator:index:stringList[1] | siteGuard_ParseStakerAssetIDAndOperator_stringList_1 (len_stringList : Int) (err_isNil : Bool) | witness: len_stringList=3 err_isNil=true",
  "x/delegation/types/keys.go:ParseStakerAssetIDAndOperator:index:stringList[2] | siteGuard_ParseStakerAssetIDAndOperator_stringList_2 (len_stringList : Int) (err_isNil : Bool) | witness: len_stringList=3 err_isNil=true",
  "x/delegation/types/keys.go:ParseUndelegationRecordKey:index:stringList[0] | siteGuard_ParseUndelegationRecordKey_stringList_0 (len_stringList : Int) (err_isNil : Bool) | witness: len_stringList=4 err_isNil=true",
  "x/delegation/types/keys.go:ParseUndelegationRecordKey:index:stringList[1] | siteGuard_ParseUndelegationRecordKey_stringList_1 (len_stringList : Int) (err_isNil : Bool) | witness: len_stringList=4 err_isNil=true",
  "x/delegation/types/keys.go:ParseUndelegationRecordKey:index:stringList[2] | siteGuard_ParseUndelegationRecordKey_stringList_2 (len_stringList : Int) (err_isNil : Bool) | witness: len_stringList=4 err_isNil=true",
  "x/delegation/types/keys.go:ParseUndelegationRecordKey:index:stringList[3] | siteGuard_ParseUndelegationRecordKey_stringList_3 (len_stringList : Int) (err_isNil : Bool) | witness: len_stringList=4 err_isNil=true",
  "x/dogfood/keeper/abci.go:Keeper.EndBlock:index:keys[i] | none | not locally safe: i=1 len_keys=1 len_operators=2 maxVals=4 power=5 err_isNil=true satisfies every local fact ((((((((!(!err_isNil)) && (!(decide (maxVals ≤ i)))) && (!(decide (power < (1 : Int))))) && ((decide ((0 : Int) ≤ i)) && (decide (i < len_operators)))) && (decide ((0 : Int) ≤ len_keys))) && (decide ((0 : Int) ≤ len_operators))) && (decide ((0 : Int) ≤ maxVals)))) but not ((decide ((0 : Int) ≤ i)) && (decide (i < len_keys)))",
  "x/dogfood/keeper/abci.go:Keeper.EndBlock:index:powers[i] | none | not locally safe: i=3 len_operators=5 len_powers=3 maxVals=7 err_isNil=true satisfies every local fact (((((((!(!err_isNil)) && (!(decide (maxVals ≤ i)))) && ((decide ((0 : Int) ≤ i)) && (decide (i < len_operators)))) && (decide ((0 : Int) ≤ len_operators))) && (decide ((0 : Int) ≤ len_powers))) && (decide ((0 : Int) ≤ maxVals)))) but not ((decide ((0 : Int) ≤ i)) && (decide (i < len_powers)))",
  "x/dogfood/keeper/impl_sdk.go:Keeper.IterateBondedValidatorsByPower:index:prevList[i] | siteGuard_IterateBondedValidatorsByPower_prevList_i (i j len_prevList : Int) | witness: i=7 j=5 len_prevList=8",
  "x/dogfood/keeper/impl_sdk.go:Keeper.IterateBondedValidatorsByPower:index:prevList[j] | siteGuard_IterateBondedValidatorsByPower_prevList_j (i j len_prevList : Int) | witness: i=7 j=5 len_prevList=8",
  "x/dogfood/keeper/validators.go:Keeper.ApplyValidatorChanges:index:ret[i] | siteGuard_ApplyValidatorChanges_ret_i (i j len_ret : Int) | witness: i=7 j=5 len_ret=8",
  "x/dogfood/keeper/validators.go:Keeper.ApplyValidatorChanges:index:ret[i]#2 | siteGuard_ApplyValidatorChanges_ret_i_2 (i j len_ret : Int) | witness: i=7 j=5 len_ret=8",
  "x/dogfood/keeper/validators.go:Keeper.ApplyValidatorChanges:index:ret[i]#3 | siteGuard_ApplyValidatorChanges_ret_i_3 (i j len_ret : Int) | witness: i=7 j=5 len_ret=8",
  "x/dogfood/keeper/validators.go:Keeper.ApplyValidatorChanges:index:ret[j] | siteGuard_ApplyValidatorChanges_ret_j (i j len_ret : Int) | witness: i=7 j=5 len_ret=8",
  "x/dogfood/keeper/validators.go:Keeper.ApplyValidatorChanges:index:ret[j]#2 | siteGuard_ApplyValidatorChanges_ret_j_2 (i j len_ret : Int) | witness: i=7 j=5 len_ret=8",
  "x/dogfood/keeper/validators.go:Keeper.ApplyValidatorChanges:index:ret[j]#3 | siteGuard_ApplyValidatorChanges_ret_j_3 (i j len_ret : Int) | witness: i=7 j=5 len_ret=8",
  "x/exomint/keeper/impl_epochs_hooks.go:EpochsHooksWrapper.AfterEpochEnd:newcoin:sdk.NewCoin(params.MintDenom, params.EpochReward) | none | not locally safe: params_EpochReward=-2 satisfies every local fact ((!(params_EpochReward == (0 : Int)))) but not (decide ((0 : Int) ≤ params_EpochReward))",
  "x/feedistribution/keeper/allocation.go:Keeper.AllocateTokensToStakers:index:globalStakerAddressList[i] | siteGuard_AllocateTokensToStakers_globalStakerAddressList_i (i j len_globalStakerAddressList : Int) | witness: i=7 j=5 len_globalStakerAddressList=8",
  "x/feedistribution/keeper/allocation.go:Keeper.AllocateTokensToStakers:index:globalStakerAddressList[j] | siteGuard_AllocateTokensToStakers_globalStakerAddressList_j (i j len_globalStakerAddressList : Int) | witness: i=7 j=5 len_globalStakerAddressList=8",
  "x/operator/keeper/consensus_keys.go:Keeper.GetActiveOperatorsForChainID:index:pks[i] | none | not locally safe: i=1 len_operatorsAddr=2 len_pks=0 isAvs_flag=true satisfies every local fact (((((!(!isAvs_flag)) && ((decide ((0 : Int) ≤ i)) && (decide (i < len_operatorsAddr)))) && (decide ((0 : Int) ≤ len_operatorsAddr))) && (decide ((0 : Int) ≤ len_pks)))) but not ((decide ((0 : Int) ≤ i)) && (decide (i < len_pks)))",
  "x/operator/keeper/consensus_keys.go:Keeper.GetOperatorsForChainID:index:iterator.Key()[len(prefix):] | siteGuard_GetOperatorsForChainID_iterator_Key_len_prefix (len_iterator_Key len_prefix : Int) (isAvs_flag : Bool) | witness: len_iterator_Key=0 len_prefix=0 isAvs_flag=true",
  "x/operator/keeper/operator.go:Keeper.GetOptedInAVSForOperator:index:keys[1] | siteGuard_GetOptedInAVSForOperator_keys_1 (len_keys : Int) (err_isNil : Bool) | witness: len_keys=2 err_isNil=true",
  "x/operator/keeper/usd_value.go:Keeper.IterateOperatorsForAVS:index:keys[1] | none | not locally safe: len_keys=1 err_isNil=true satisfies every local fact ((((!(!err_isNil)) && ((decide ((1 : Int) ≤ len_keys)) && (decide ((0 : Int) ≤ len_keys)))) && (decide ((0 : Int) ≤ len_keys)))) but not ((decide ((0 : Int) ≤ (1 : Int))) && (decide ((1 : Int) < len_keys)))",
  "x/oracle/keeper/aggregator/aggregator.go:aggregator.fillPrice:index:pSource.Prices[0] | none | not locally safe: len_pSource_Prices=0 satisfies every local fact ((decide ((0 : Int) ≤ len_pSource_Prices))) but not ((decide ((0 : Int) ≤ (0 : Int))) && (decide ((0 : Int) < len_pSource_Prices)))",
  "x/oracle/keeper/aggregator/aggregator.go:aggregator.fillPrice:index:pSource.Prices[0]#2 | none | not locally safe: len_pSource_Prices=0 len_pSource_Prices_0_DetID=0 pTR_isNil=true satisfies every local fact (((((len_pSource_Prices_0_DetID == (0 : Int)) && pTR_isNil) && (decide ((0 : Int) ≤ len_pSource_Prices))) && (decide ((0 : Int) ≤ len_pSource_Prices_0_DetID)))) but not ((decide ((0 : Int) ≤ (0 : Int))) && (decide ((0 : Int) < len_pSource_Prices)))",
  "x/oracle/keeper/aggregator/aggregator.go:aggregator.fillPrice:index:pSource.Prices[0]#3 | none | not locally safe: len_pSource_Prices=0 len_pSource_Prices_0_DetID=0 satisfies every local fact ((((len_pSource_Prices_0_DetID == (0 : Int)) && (decide ((0 : Int) ≤ len_pSource_Prices))) && (decide ((0 : Int) ≤ len_pSource_Prices_0_DetID)))) but not ((decide ((0 : Int) ≤ (0 : Int))) && (decide ((0 : Int) < len_pSource_Prices)))",
  "x/oracle/keeper/aggregator/aggregator.go:aggregator.fillPrice:index:pSource.Prices[0]#4 | none | not locally safe: len_pSource_Prices=0 len_pSource_Prices_0_DetID=7 pTR_isNil=true satisfies every local fact (((((!(len_pSource_Prices_0_DetID == (0 : Int))) && pTR_isNil) && (decide ((0 : Int) ≤ len_pSource_Prices))) && (decide ((0 : Int) ≤ len_pSource_Prices_0_DetID)))) but not ((decide ((0 : Int) ≤ (0 : Int))) && (decide ((0 : Int) < len_pSource_Prices)))",
  "x/oracle/keeper/aggregator/context.go:AggregatorContext.FillPrice:index:msg.Prices[0] | none | not locally safe: len_msg_Prices=0 finalPrice_isNil=false listFilled_isNil=false satisfies every local fact ((((!listFilled_isNil) && (!finalPrice_isNil)) && (decide ((0 : Int) ≤ len_msg_Prices)))) but not ((decide ((0 : Int) ≤ (0 : Int))) && (decide ((0 : Int) < len_msg_Prices)))",
  "x/oracle/keeper/aggregator/context.go:AggregatorContext.FillPrice:index:msg.Prices[0].Prices[0] | none | not locally safe: len_msg_Prices_0_Prices=0 finalPrice_isNil=false listFilled_isNil=false satisfies every local fact ((((!listFilled_isNil) && (!finalPrice_isNil)) && (decide ((0 : Int) ≤ len_msg_Prices_0_Prices)))) but not ((decide ((0 : Int) ≤ (0 : Int))) && (decide ((0 : Int) < len_msg_Prices_0_Prices)))",
  "x/oracle/keeper/aggregator/context.go:AggregatorContext.PrepareRoundEndBlock:intdiv:delta % feeder.Interval <= not(block < 1) ; not(feederID == 0) ; not((feeder.EndBlock > 0 && feeder.EndBlock <= block) || feeder.StartBaseBlock > block) | none | not locally safe: block=5 feederID=8 feeder_EndBlock=0 feeder_Interval=0 feeder_StartBaseBlock=0 satisfies every local fact ((((((((!(decide (block < (1 : Int)))) && (!(feederID == (0 : Int)))) && (!(((decide ((0 : Int) < feeder_EndBlock)) && (decide (feeder_EndBlock ≤ block))) || (decide (block < feeder_StartBaseBlock))))) && (decide ((0 : Int) ≤ block))) && (decide ((0 : Int) ≤ feeder_EndBlock))) && (decide ((0 : Int) ≤ feeder_Interval))) && (decide ((0 : Int) ≤ feeder_StartBaseBlock)))) but not (feeder_Interval != (0 : Int))",
  "x/oracle/keeper/aggregator/context.go:AggregatorContext.PrepareRoundEndBlock:intdiv:delta / feeder.Interval <= not(block < 1) ; not(feederID == 0) ; not((feeder.EndBlock > 0 && feeder.EndBlock <= block) || feeder.StartBaseBlock > block) | none | not locally safe: block=5 feederID=8 feeder_EndBlock=0 feeder_Interval=0 feeder_StartBaseBlock=0 satisfies every local fact ((((((((!(decide (block < (1 : Int)))) && (!(feederID == (0 : Int)))) && (!(((decide ((0 : Int) < feeder_EndBlock)) && (decide (feeder_EndBlock ≤ block))) || (decide (block < feeder_StartBaseBlock))))) && (decide ((0 : Int) ≤ block))) && (decide ((0 : Int) ≤ feeder_EndBlock))) && (decide ((0 : Int) ≤ feeder_Interval))) && (decide ((0 : Int) ≤ feeder_StartBaseBlock)))) but not (feeder_Interval != (0 : Int))",
  "x/oracle/keeper/aggregator/filter.go:filter.addPSource:index:pSource.Prices[0] | none | not locally safe: len_pSource_Prices=0 satisfies every local fact ((decide ((0 : Int) ≤ len_pSource_Prices))) but not ((decide ((0 : Int) ≤ (0 : Int))) && (decide ((0 : Int) < len_pSource_Prices)))",
  "x/oracle/keeper/cache/caches.go:cacheMsgs.commit:index:index.Index[i:] | siteGuard_commit_index_Index_i (i len_index_Index : Int) | witness: i=0 len_index_Index=0",
  "x/oracle/keeper/cache/caches.go:cacheParams.commit:index:index.Index[i:] | siteGuard_commit_index_Index_i_2 (i i_v0 len_index_Index : Int) | witness: i=0 i_v0=0 len_index_Index=0",
  "x/oracle/keeper/common/types.go:BigIntList.Median:index:b[l/2-1] | none | not locally safe: l=0 len_b=0 satisfies every local fact ((((!((Int.tmod l (2 : Int)) == (1 : Int))) && (l == len_b)) && (decide ((0 : Int) ≤ len_b)))) but not ((decide ((0 : Int) ≤ ((Int.tdiv l (2 : Int)) - (1 : Int)))) && (decide (((Int.tdiv l (2 : Int)) - (1 : Int)) < len_b)))",
  "x/oracle/keeper/common/types.go:BigIntList.Median:index:b[l/2] | siteGuard_Median_b_l_2 (l len_b : Int) | witness: l=1 len_b=1",
  "x/oracle/keeper/common/types.go:BigIntList.Median:index:b[l/2]#2 | none | not locally safe: l=0 len_b=0 satisfies every local fact ((((!((Int.tmod l (2 : Int)) == (1 : Int))) && (l == len_b)) && (decide ((0 : Int) ≤ len_b)))) but not ((decide ((0 : Int) ≤ (Int.tdiv l (2 : Int)))) && (decide ((Int.tdiv l (2 : Int)) < len_b)))",
  "x/oracle/keeper/native_token.go:Keeper.UpdateNSTByBalanceChange:index:stakerInfo.BalanceList[length-1] | siteGuard_UpdateNSTByBalanceChange_stakerInfo_BalanceList_length_1 (len_rawData len_sl_StakerAddrs len_stakerInfo_BalanceList length : Int) | witness: len_rawData=32 len_sl_StakerAddrs=32 len_stakerInfo_BalanceList=32 length=32",
  "x/oracle/keeper/native_token.go:parseBalanceChange:index:changes[byteIndex] | siteGuard_parseBalanceChange_changes_byteIndex (byteIndex i index len_changes len_sl_StakerAddrs : Int) | witness: byteIndex=1 i=0 index=2 len_changes=4 len_sl_StakerAddrs=3",
  "x/oracle/keeper/native_token.go:parseBalanceChange:index:changes[byteIndex]#2 | siteGuard_parseBalanceChange_changes_byteIndex_2 (bitsLeft byteIndex i index len_changes len_sl_StakerAddrs lengthBits : Int) | witness: bitsLeft=4 byteIndex=5 i=2 index=2 len_changes=7 len_sl_StakerAddrs=7 lengthBits=5",
  "x/oracle/keeper/native_token.go:parseBalanceChange:index:changes[byteIndex]#3 | siteGuard_parseBalanceChange_changes_byteIndex_3 (byteIndex i index lenValue len_changes len_sl_StakerAddrs : Int) | witness: byteIndex=2 i=1 index=0 lenValue=2 len_changes=4 len_sl_StakerAddrs=3",
  "x/oracle/keeper/native_token.go:parseBalanceChange:index:sl.StakerAddrs[index] | siteGuard_parseBalanceChange_sl_StakerAddrs_index (i index lenValue len_sl_StakerAddrs : Int) | witness: i=5 index=0 lenValue=1 len_sl_StakerAddrs=6",
  "x/oracle/keeper/nonce.go:Keeper.removeNonceWithValidatorAndFeederID:index:nonce.NonceList[:i] | siteGuard_removeNonceWithValidatorAndFeederID_nonce_NonceList_i (feederID i len_nonce_NonceList n_FeederID : Int) (found_flag : Bool) | witness: feederID=3 i=5 len_nonce_NonceList=7 n_FeederID=3 found_flag=true",
  "x/oracle/keeper/nonce.go:Keeper.removeNonceWithValidatorAndFeederID:index:nonce.NonceList[i+1:] | siteGuard_removeNonceWithValidatorAndFeederID_nonce_NonceList_i_1 (feederID i len_nonce_NonceList n_FeederID : Int) (found_flag : Bool) | witness: feederID=3 i=5 len_nonce_NonceList=7 n_FeederID=3 found_flag=true",
  "x/oracle/types/native_token.go:StakerInfo.Append:index:s.BalanceList[len(s.BalanceList)-maxSize:] | siteGuard_Append_s_BalanceList_len_s_BalanceList_maxSize (len_s_BalanceList : Int) | witness: len_s_BalanceList=101",
  "x/oracle/types/params.go:Params.GetAssetIDsFromTokenID:index:p.Tokens[tokenID] | siteGuard_GetAssetIDsFromTokenID_p_Tokens_tokenID (len_p_Tokens tokenID : Int) | witness: len_p_Tokens=8 tokenID=2",
  "x/oracle/types/params.go:Params.GetTokenInfo:index:p.Tokens[v.TokenID] | none | not locally safe: k=3 len_p_TokenFeeders=7 len_p_Tokens=5 v_TokenID=8 satisfies every local fact ((((((decide ((0 : Int) ≤ k)) && (decide (k < len_p_TokenFeeders))) && (decide ((0 : Int) ≤ len_p_TokenFeeders))) && (decide ((0 : Int) ≤ len_p_Tokens))) && (decide ((0 : Int) ≤ v_TokenID)))) but not ((decide ((0 : Int) ≤ v_TokenID)) && (decide (v_TokenID < len_p_Tokens)))"] := by rfl


/-! ### nil / non-positive price values (nil-dereference kind)

sdkmath.Int is a pointer wrapper: `NewIntFromString` of a non-numeric string yields a nil Int, and any
arithmetic on it (CalculateUSDValue: `assetAmount.Mul(price)`) dereferences nil — in BeginBlock on the slash
path, at epoch ends on the voting-power path. The two oracle getters are the only producers of prices;
`oraclePriceLiterals` lists every `Price{…}` they build with its Value, what it is returned with and its
dominating guards. Two lemmas about the regenerated guard kernels show that the only literals whose Value
is a parsed variable are reached with a non-nil, positive value; the table tie pins everything else
(default-price constructors, and the one `Price{}` that is returned together with a non-RoundNotFound
error, which every consumer propagates). -/

theorem C11_price_value_guard_specified (v : Int) (vNil : Bool)
    (h : priceValueGuard_GetSpecifiedAssetsPrice v vNil = true) : vNil = false ∧ 0 < v := by
  cases vNil <;> simp [priceValueGuard_GetSpecifiedAssetsPrice] at h ⊢
  omega

theorem C11_price_value_guard_multiple (v : Int) (vNil : Bool)
    (h : priceValueGuard_GetMultipleAssetsPrices v vNil = true) : vNil = false ∧ 0 < v := by
  cases vNil <;> simp [priceValueGuard_GetMultipleAssetsPrices] at h ⊢
  omega

theorem C11_oracle_price_literals : oraclePriceLiterals = [
  "Keeper.GetSpecifiedAssetsPrice|Value=sdkmath.NewInt(types.DefaultPriceValue)|with=nil|assetID == assetstypes.ExocoreAssetID",
  "Keeper.GetSpecifiedAssetsPrice|Value=unset|with=types.ErrGetPriceAssetNotFound.Wrapf|not(assetID == assetstypes.ExocoreAssetID) ; tokenID == 0",
  "Keeper.GetSpecifiedAssetsPrice|Value=sdkmath.NewInt(types.DefaultPriceValue)|with=types.ErrGetPriceRoundNotFound.Wrapf|not(assetID == assetstypes.ExocoreAssetID) ; not(tokenID == 0) ; !found",
  "Keeper.GetSpecifiedAssetsPrice|Value=sdkmath.NewInt(types.DefaultPriceValue)|with=types.ErrGetPriceRoundNotFound.Wrapf|not(assetID == assetstypes.ExocoreAssetID) ; not(tokenID == 0) ; not(!found) ; v.IsNil() || v.LTE(sdkmath.ZeroInt())",
  "Keeper.GetSpecifiedAssetsPrice|Value=v|with=nil|not(assetID == assetstypes.ExocoreAssetID) ; not(tokenID == 0) ; not(!found) ; not(v.IsNil() || v.LTE(sdkmath.ZeroInt()))",
  "Keeper.GetMultipleAssetsPrices|Value=sdkmath.NewInt(types.DefaultPriceValue)|with=assigned|assetID == assetstypes.ExocoreAssetID",
  "Keeper.GetMultipleAssetsPrices|Value=sdkmath.NewInt(types.DefaultPriceValue)|with=assigned|not(assetID == assetstypes.ExocoreAssetID) ; not(tokenID == 0) ; !found",
  "Keeper.GetMultipleAssetsPrices|Value=sdkmath.NewInt(types.DefaultPriceValue)|with=assigned|not(assetID == assetstypes.ExocoreAssetID) ; not(tokenID == 0) ; not(!found) ; v.IsNil() || v.LTE(sdkmath.ZeroInt())",
  "Keeper.GetMultipleAssetsPrices|Value=v|with=assigned|not(assetID == assetstypes.ExocoreAssetID) ; not(tokenID == 0) ; not(!found) ; not(v.IsNil() || v.LTE(sdkmath.ZeroInt()))"] := by rfl

/-- who consumes the getters (all treat ErrGetPriceRoundNotFound as "default price" and return any other error) -/
theorem C11_price_consumers : priceConsumersOnBlockPaths = [
  "GetMultipleAssetsPrices <- x/operator/keeper/abci.go:Keeper.UpdateVotingPower",
  "GetMultipleAssetsPrices <- x/operator/keeper/usd_value.go:Keeper.CalculateUSDValueForStaker",
  "GetMultipleAssetsPrices <- x/operator/keeper/usd_value.go:Keeper.GetOrCalculateOperatorUSDValues",
  "GetSpecifiedAssetsPrice <- x/operator/keeper/usd_value.go:Keeper.CalculateUSDValueForOperator"] := by rfl

/-! ### the guard lemmas' models are the regenerated Go kernels -/

/-- the divisor `C11_guard_usdValue_divisor` is about is the one the regenerated CalculateUSDValue divides by -/
theorem C11_tie_usdValue_divisor (a p ad pd : Int) :
    ExoVerif.Gen.calculateUSDValue a p ad pd = ExoVerif.Dec.quoInt (ExoVerif.Dec.ofInt (a * p)) (usdDivisor ad pd) := rfl

/-- the regenerated TokensFromShares reaches its QuoTruncate only with a non-zero total share -/
theorem C11_tie_tokensFromShares_divisor (s t : ExoVerif.Dec) (a : Int)
    (h1 : ExoVerif.Dec.gt s t = false) (h2 : ExoVerif.Dec.isZero t = false) :
    ExoVerif.Gen.tokensFromShares s t a =
      .ok (ExoVerif.Dec.truncateInt (ExoVerif.Dec.quoTruncate (ExoVerif.Dec.mulInt s a) t)) ∧ t.raw ≠ 0 := by
  constructor
  · simp [ExoVerif.Gen.tokensFromShares, h1, h2]
  · simpa [ExoVerif.Dec.isZero] using h2

/-- x/delegation EndBlock builds `sdk.NewCoin(hua, record.ActualCompletedAmount)` for a matured native-token
undelegation; NewCoin panics on a negative amount. The only code that lowers ActualCompletedAmount is the
regenerated SlashFromUndelegation, and it never takes it below zero (it caps against the amount that is
left, not against the original Amount). -/
theorem C11_guard_undelegation_actual_nonneg (r : ExoVerif.Ledger.URec) (p : ExoVerif.Dec) (h : 0 ≤ r.actual) :
    0 ≤ (ExoVerif.Gen.slashFromUndelegation r p).1.actual := by
  unfold ExoVerif.Gen.slashFromUndelegation
  by_cases h0 : r.actual = 0
  · simp [h0]
  · simp only [beq_iff_eq, h0, if_false]
    split
    · simp
    · rename_i hlt
      simp only [decide_eq_true_eq, Int.not_le] at hlt
      simp only []
      omega

/-- x/appchain (coordinator, subscriber) is not wired into the application -/
theorem C11_appchain_not_wired : appWiredCustomModules.all (fun m => m != "x/appchain/coordinator" && m != "x/appchain/subscriber") = true := by
  decide

/-! ### the theorems the table cites exist -/

/-- the `.guard` / `.invariant` entries of the table, in table order -/
def citedTheorems : List String :=
  reviewTable.filterMap (fun p => match p.2 with | .guard n => some n | .invariant n => some n | _ => none)

set_option maxRecDepth 100000 in
theorem C11_cited_theorems : citedTheorems = [
  "C11_guard_AsKey_delimiter_0",
  "C11_guard_SortByPower_indices_i",
  "C11_guard_SortByPower_indices_i_2",
  "C11_guard_SortByPower_indices_i_3",
  "C11_guard_SortByPower_indices_j",
  "C11_guard_SortByPower_indices_j_2",
  "C11_guard_SortByPower_indices_j_3",
  "C11_site_SortByPower_in_range",
  "C11_site_SortByPower_in_range",
  "C11_site_SortByPower_in_range",
  "C11_site_SortByPower_in_range",
  "C11_site_SortByPower_in_range",
  "C11_site_SortByPower_in_range",
  "C11_site_SortByPower_in_range",
  "C11_site_SortByPower_in_range",
  "C11_site_SortByPower_in_range",
  "C11_site_SortByPower_in_range",
  "C11_guard_SortByPower_sortedPowers_i",
  "C11_site_SortByPower_in_range",
  "C11_site_operator_asset_keys_two_parts",
  "C11_site_operator_asset_keys_two_parts",
  "C11_guard_ParseID_keys_0",
  "C11_guard_ParseID_keys_0_2",
  "C11_guard_ParseID_keys_1",
  "C11_guard_exact_AfterEpochEnd",
  "C11_guard_GroupTasksByIDAndAddress_taskGroup_i",
  "C11_guard_GroupTasksByIDAndAddress_taskGroup_j",
  "C11_guard_ChainIDWithoutRevision_splitStr_0",
  "C11_site_undelegation_actual_nonneg_reachable",
  "C11_guard_DeleteStakerForOperator_stakers_Stakers_i",
  "C11_guard_DeleteStakerForOperator_stakers_Stakers_i_1",
  "C11_guard_exact_TokensFromShares",
  "C11_guard_exact_UpdateNSTBalance",
  "C11_guard_ParseStakerAssetIDAndOperator_stringList_0",
  "C11_guard_ParseStakerAssetIDAndOperator_stringList_1",
  "C11_guard_ParseStakerAssetIDAndOperator_stringList_2",
  "C11_guard_ParseUndelegationRecordKey_stringList_0",
  "C11_guard_ParseUndelegationRecordKey_stringList_1",
  "C11_guard_ParseUndelegationRecordKey_stringList_2",
  "C11_guard_ParseUndelegationRecordKey_stringList_3",
  "C11_site_dogfood_EndBlock_in_range",
  "C11_site_dogfood_EndBlock_in_range",
  "C11_guard_IterateBondedValidatorsByPower_prevList_i",
  "C11_guard_IterateBondedValidatorsByPower_prevList_j",
  "C11_guard_ApplyValidatorChanges_ret_i",
  "C11_guard_ApplyValidatorChanges_ret_i_2",
  "C11_guard_ApplyValidatorChanges_ret_i_3",
  "C11_guard_ApplyValidatorChanges_ret_j",
  "C11_guard_ApplyValidatorChanges_ret_j_2",
  "C11_guard_ApplyValidatorChanges_ret_j_3",
  "C11_site_epoch_reward_nonneg",
  "C11_guard_exact_AllocateTokens",
  "C11_site_fee_allocation_never_overdraws",
  "C11_guard_AllocateTokensToStakers_globalStakerAddressList_i",
  "C11_guard_AllocateTokensToStakers_globalStakerAddressList_j",
  "C11_guard_exact_AllocateTokensToStakers",
  "C11_site_fee_allocation_never_overdraws",
  "C11_guard_usdValue_divisor",
  "C11_site_GetActiveOperators_in_range",
  "C11_guard_GetOperatorsForChainID_iterator_Key_len_prefix",
  "C11_guard_GetOptedInAVSForOperator_keys_1",
  "C11_guard_exact_SlashAssets",
  "C11_site_avs_prefix_key_two_parts",
  "C11_site_oracle_sources_nonempty",
  "C11_site_oracle_sources_nonempty",
  "C11_site_oracle_sources_nonempty",
  "C11_site_oracle_sources_nonempty",
  "C11_site_oracle_sources_nonempty",
  "C11_site_oracle_sources_nonempty",
  "C11_site_params_validate_feeder",
  "C11_site_params_validate_feeder",
  "C11_site_oracle_sources_nonempty",
  "C11_guard_AddCache_default_unreachable",
  "C11_guard_commit_index_Index_i",
  "C11_guard_commit_index_Index_i_2",
  "C11_site_median_never_empty",
  "C11_guard_Median_b_l_2",
  "C11_site_median_never_empty",
  "C11_guard_median_divisor",
  "C11_guard_UpdateNSTByBalanceChange_stakerInfo_BalanceList_length_1",
  "C11_guard_parseBalanceChange_changes_byteIndex",
  "C11_guard_parseBalanceChange_changes_byteIndex_2",
  "C11_guard_parseBalanceChange_changes_byteIndex_3",
  "C11_guard_parseBalanceChange_sl_StakerAddrs_index",
  "C11_guard_removeNonceWithValidatorAndFeederID_nonce_NonceList_i",
  "C11_guard_removeNonceWithValidatorAndFeederID_nonce_NonceList_i_1",
  "C11_guard_Append_s_BalanceList_len_s_BalanceList_maxSize",
  "C11_guard_GetAssetIDsFromTokenID_p_Tokens_tokenID",
  "C11_site_params_validate_feeder"] := by rfl

/-- … and every one of them is a theorem of Props/C11.lean, Props/C11Guards.lean, Props/C11Sites.lean or this file
(this declaration does not elaborate otherwise; written by tools/gen_c11_review.py from the same list) -/
theorem C11_site_guards_are_proved : True := by
  have := @C11_guard_AsKey_delimiter_0
  have := @C11_guard_SortByPower_indices_i
  have := @C11_guard_SortByPower_indices_i_2
  have := @C11_guard_SortByPower_indices_i_3
  have := @C11_guard_SortByPower_indices_j
  have := @C11_guard_SortByPower_indices_j_2
  have := @C11_guard_SortByPower_indices_j_3
  have := @C11_site_SortByPower_in_range
  have := @C11_guard_SortByPower_sortedPowers_i
  have := @C11_site_operator_asset_keys_two_parts
  have := @C11_guard_ParseID_keys_0
  have := @C11_guard_ParseID_keys_0_2
  have := @C11_guard_ParseID_keys_1
  have := @C11_guard_exact_AfterEpochEnd
  have := @C11_guard_GroupTasksByIDAndAddress_taskGroup_i
  have := @C11_guard_GroupTasksByIDAndAddress_taskGroup_j
  have := @C11_guard_ChainIDWithoutRevision_splitStr_0
  have := @C11_site_undelegation_actual_nonneg_reachable
  have := @C11_guard_DeleteStakerForOperator_stakers_Stakers_i
  have := @C11_guard_DeleteStakerForOperator_stakers_Stakers_i_1
  have := @C11_guard_exact_TokensFromShares
  have := @C11_guard_exact_UpdateNSTBalance
  have := @C11_guard_ParseStakerAssetIDAndOperator_stringList_0
  have := @C11_guard_ParseStakerAssetIDAndOperator_stringList_1
  have := @C11_guard_ParseStakerAssetIDAndOperator_stringList_2
  have := @C11_guard_ParseUndelegationRecordKey_stringList_0
  have := @C11_guard_ParseUndelegationRecordKey_stringList_1
  have := @C11_guard_ParseUndelegationRecordKey_stringList_2
  have := @C11_guard_ParseUndelegationRecordKey_stringList_3
  have := @C11_site_dogfood_EndBlock_in_range
  have := @C11_guard_IterateBondedValidatorsByPower_prevList_i
  have := @C11_guard_IterateBondedValidatorsByPower_prevList_j
  have := @C11_guard_ApplyValidatorChanges_ret_i
  have := @C11_guard_ApplyValidatorChanges_ret_i_2
  have := @C11_guard_ApplyValidatorChanges_ret_i_3
  have := @C11_guard_ApplyValidatorChanges_ret_j
  have := @C11_guard_ApplyValidatorChanges_ret_j_2
  have := @C11_guard_ApplyValidatorChanges_ret_j_3
  have := @C11_site_epoch_reward_nonneg
  have := @C11_guard_exact_AllocateTokens
  have := @C11_site_fee_allocation_never_overdraws
  have := @C11_guard_AllocateTokensToStakers_globalStakerAddressList_i
  have := @C11_guard_AllocateTokensToStakers_globalStakerAddressList_j
  have := @C11_guard_exact_AllocateTokensToStakers
  have := @C11_guard_usdValue_divisor
  have := @C11_site_GetActiveOperators_in_range
  have := @C11_guard_GetOperatorsForChainID_iterator_Key_len_prefix
  have := @C11_guard_GetOptedInAVSForOperator_keys_1
  have := @C11_guard_exact_SlashAssets
  have := @C11_site_avs_prefix_key_two_parts
  have := @C11_site_oracle_sources_nonempty
  have := @C11_site_params_validate_feeder
  have := @C11_guard_AddCache_default_unreachable
  have := @C11_guard_commit_index_Index_i
  have := @C11_guard_commit_index_Index_i_2
  have := @C11_site_median_never_empty
  have := @C11_guard_Median_b_l_2
  have := @C11_guard_median_divisor
  have := @C11_guard_UpdateNSTByBalanceChange_stakerInfo_BalanceList_length_1
  have := @C11_guard_parseBalanceChange_changes_byteIndex
  have := @C11_guard_parseBalanceChange_changes_byteIndex_2
  have := @C11_guard_parseBalanceChange_changes_byteIndex_3
  have := @C11_guard_parseBalanceChange_sl_StakerAddrs_index
  have := @C11_guard_removeNonceWithValidatorAndFeederID_nonce_NonceList_i
  have := @C11_guard_removeNonceWithValidatorAndFeederID_nonce_NonceList_i_1
  have := @C11_guard_Append_s_BalanceList_len_s_BalanceList_maxSize
  have := @C11_guard_GetAssetIDsFromTokenID_p_Tokens_tokenID
  trivial

end ExoVerif.Blocks
