import ExoVerif.Props.C01
import ExoVerif.Proofs.LedgerNN
/-!
C01, remaining clauses, over every finite history of the ledger model:
  * "No individual balance, pool, share or pending figure is ever negative"  (`NN`)
  * "the asset's published staking total equals deposits minus withdrawals"   (`pub`)
and the headline statement re-proved from these with the weakest per-operation assumptions
(`OpOk0`: a fresh undelegation nonce, a slash proportion in [0,1]).
-/
namespace ExoVerif.Ledger
open ExoVerif ExoVerif.KV

/-- per-operation assumptions: nothing about the state beyond the invariants carried along -/
def OpOk0 (s : L) : LOp → Prop
  | .undelegate _ _ _ _ n _ => FreshNonce s n
  | .slash _ _ p => UnitP p
  | _ => True

def AllOk0 : L → List LOp → Prop
  | _, [] => True
  | s, op :: rest => OpOk0 s op ∧ AllOk0 (lstep s op) rest

theorem opOk_of_nn {s : L} {op : LOp} (hn : NN s) (h : OpOk0 s op) : OpOk s op := by
  cases op <;> try exact h
  case slash o inf p => exact ⟨h, hn.rc, fun e he => (hn.pl e he).1⟩

/-- C01, non-negativity, one step -/
theorem C01_nonneg_step (s : L) (op : LOp) (hn : NN s) (hok : OpOk0 s op) : NN (lstep s op) := by
  cases op with
  | deposit st a x => simp only [lstep]; split; exact deposit_nn hn (by assumption); exact hn
  | withdraw st a x => simp only [lstep]; split; exact withdraw_nn hn (by assumption); exact hn
  | delegate st a o x => simp only [lstep]; split; exact (delegate_nn hn (by assumption)).1; exact hn
  | undelegate st a o x n hash => simp only [lstep]; split; exact (undelegate_nn hn (by assumption)).1; exact hn
  | associate st o => simp only [lstep]; split; exact (associate_nn hn (by assumption)).1; exact hn
  | dissociate st => simp only [lstep]; split; exact (dissociate_nn hn (by assumption)).1; exact hn
  | hold k => exact ⟨hn.st, hn.pl, hn.dl, hn.rc, hn.tt, hn.bl, hn.es⟩
  | release k =>
    simp only [lstep]; split
    · rename_i s' h
      unfold release at h
      simp only [] at h
      split at h
      · cases h
      · injection h with h; subst h; exact ⟨hn.st, hn.pl, hn.dl, hn.rc, hn.tt, hn.bl, hn.es⟩
    · exact hn
  | blockEnd => exact (endBlock_nn hn).1
  | slash o inf p => exact (slashAssets_nn s o inf p hok hn).1

/-- published staking total minus deposits plus withdrawals -/
def pub (s : L) (a : AID) : Int := getD s.totals a 0 - getD s.gDep a 0 + getD s.gWd a 0

theorem pub_congr {s s' : L} (a : AID) (ht : s'.totals = s.totals) (hg : ghosts s' = ghosts s) :
    pub s' a = pub s a := by
  unfold ghosts at hg; injection hg with g1 g23; injection g23 with g2 g3
  unfold pub; rw [ht, g1, g2]

theorem getD_set_int (m : List (AID × Int)) (a0 a : AID) (v : Int) :
    getD (KV.set m a0 v) a 0 = if a0 = a then v else getD m a 0 := by
  by_cases h : a = a0
  · subst h; simp [getD_set_same]
  · rw [getD_set_other _ _ _ _ _ h]; have : ¬ a0 = a := fun e => h e.symm; simp [this]

/-- C01, published total, one step: only deposits and withdrawals move it, by exactly their amount -/
theorem C01_total_step (s : L) (op : LOp) (a : AID) (hn : NN s) : pub (lstep s op) a = pub s a := by
  cases op with
  | deposit st a0 x =>
    simp only [lstep]; split
    · rename_i s' h
      unfold deposit at h
      simp only [bind, Except.bind, pure, Except.pure, throw, throwThe, MonadExceptOf.throw] at h
      split at h
      · cases h
      · split at h
        · cases h
        · split at h
          · cases h
          · rename_i s1 h1
            split at h
            · cases h
            · rename_i s2 h2
              injection h with h; subst h
              obtain ⟨t, ht, hs2⟩ := updTotal_ok h2
              have g := updStaker_ghosts h1
              have t1 := (updStaker_nn hn h1).2
              unfold ghosts at g; injection g with g1 g23; injection g23 with g2 g3
              have ht' : getD s.totals a0 0 = t := by unfold getD; rw [← t1, ht]; rfl
              unfold pub
              subst hs2
              simp only [getD_ghostAdd, getD_set_int, g1, g2, t1]
              split
              · rename_i e; subst e; omega
              · omega
    · rfl
  | withdraw st a0 x =>
    simp only [lstep]; split
    · rename_i s' h
      unfold withdraw at h
      simp only [bind, Except.bind, pure, Except.pure, throw, throwThe, MonadExceptOf.throw] at h
      split at h
      · cases h
      · split at h
        · cases h
        · split at h
          · cases h
          · rename_i s1 h1
            split at h
            · cases h
            · rename_i s2 h2
              injection h with h; subst h
              obtain ⟨t, ht, hs2⟩ := updTotal_ok h2
              have g := updStaker_ghosts h1
              have t1 := (updStaker_nn hn h1).2
              unfold ghosts at g; injection g with g1 g23; injection g23 with g2 g3
              have ht' : getD s.totals a0 0 = t := by unfold getD; rw [← t1, ht]; rfl
              unfold pub
              subst hs2
              simp only [getD_ghostAdd, getD_set_int, g1, g2, t1]
              split
              · rename_i e; subst e; omega
              · omega
    · rfl
  | delegate st a0 o x =>
    simp only [lstep]; split
    · rename_i s' h; exact pub_congr a (delegate_nn hn h).2 (delegate_frame h).1
    · rfl
  | undelegate st a0 o x n hash =>
    simp only [lstep]; split
    · rename_i s' h; exact pub_congr a (undelegate_nn hn h).2 (undelegate_ghosts h)
    · rfl
  | associate st o =>
    simp only [lstep]; split
    · rename_i s' h
      have t := (associate_nn hn h).2
      unfold associate at h
      simp only [bind, Except.bind, pure, Except.pure, throw, throwThe, MonadExceptOf.throw] at h
      split at h
      · cases h
      · split at h
        · cases h
        · split at h
          · cases h
          · split at h
            · cases h
            · rename_i s1 h1
              injection h with h; subst h
              obtain ⟨_, _, g1, g2, g3, _⟩ := value_foldlM_opShare _ o (fun r => r.share) a h1
              unfold pub at *; simp only [] at *; rw [t, g1, g2]
    · rfl
  | dissociate st =>
    simp only [lstep]; split
    · rename_i s' h
      have t := (dissociate_nn hn h).2
      unfold dissociate at h
      simp only [bind, Except.bind, pure, Except.pure, throw, throwThe, MonadExceptOf.throw] at h
      split at h
      · cases h
      · rename_i o ho
        split at h
        · cases h
        · rename_i s1 h1
          injection h with h; subst h
          obtain ⟨_, _, g1, g2, g3, _⟩ := value_foldlM_opShare _ o (fun r => r.share.neg) a h1
          unfold pub at *; simp only [] at *; rw [t, g1, g2]
    · rfl
  | hold k => rfl
  | release k =>
    simp only [lstep]; split
    · rename_i s' h
      unfold release at h
      simp only [] at h
      split at h
      · cases h
      · injection h with h; subst h; rfl
    · rfl
  | blockEnd => exact pub_congr a (endBlock_nn hn).2 (endBlock_ghosts s)
  | slash o inf p =>
    simp only [lstep]
    unfold pub slashAssets
    simp only []

/-- **C01 over every finite history, all clauses for restaked (non-native) assets**: starting from any
state that satisfies the invariants, after any finite interleaving of the ten ledger operations
(undelegations with fresh nonces, slashes with a proportion in [0,1]):
value − deposits + withdrawals + slashed is unchanged, published total − deposits + withdrawals is
unchanged, every figure is non-negative, and the three record stores stay consistent. -/
theorem C01_ledger_reachable (s : L) (ops : List LOp) (a : AID) (ha : a ≠ nativeAID)
    (hi : RecInv s) (hn : NN s) (hok : AllOk0 s ops) :
    net (ops.foldl lstep s) a = net s a ∧ pub (ops.foldl lstep s) a = pub s a ∧
    NN (ops.foldl lstep s) ∧ RecInv (ops.foldl lstep s) := by
  induction ops generalizing s with
  | nil => exact ⟨rfl, rfl, hn, hi⟩
  | cons op rest ih =>
    simp only [List.foldl_cons]
    obtain ⟨h1, h2⟩ := hok
    obtain ⟨n1, i1⟩ := C01_net_step s op a ha hi (opOk_of_nn hn h1)
    have p1 := C01_total_step s op a hn
    have nn1 := C01_nonneg_step s op hn h1
    obtain ⟨n2, p2, nn2, i2⟩ := ih (lstep s op) i1 nn1 h2
    exact ⟨by rw [n2, n1], by rw [p2, p1], nn2, i2⟩

/-- a ledger on which nothing has happened yet: registered assets with zero totals, no rows, no
records, no history -/
structure Fresh (s : L) : Prop where
  stakers : s.stakers = []
  pools : s.pools = []
  deleg : s.deleg = []
  recs : s.recs = []
  sidx : s.sidx = []
  pidx : s.pidx = []
  totals : ∀ e ∈ s.totals, e.2 = 0
  bal : ∀ e ∈ s.bal, 0 ≤ e.2
  escrow : 0 ≤ s.escrow
  gDep : s.gDep = []
  gWd : s.gWd = []
  gSl : s.gSlashed = []

theorem Fresh.nn {s : L} (h : Fresh s) : NN s := by
  refine ⟨?_, ?_, ?_, ?_, ?_, h.bal, h.escrow⟩
  · rw [h.stakers]; intro e he; cases he
  · rw [h.pools]; intro e he; cases he
  · rw [h.deleg]; intro e he; cases he
  · rw [h.recs]; intro e he; cases he
  · intro e he; rw [h.totals e he]

theorem Fresh.recInv {s : L} (h : Fresh s) : RecInv s := by
  refine ⟨?_, ?_, ?_, ?_, ?_, ?_, ?_⟩
  · rw [h.recs]; unfold NoDup keys; simp
  · rw [h.sidx]; unfold NoDup keys; simp
  · rw [h.pidx]; unfold NoDup keys; simp
  · intro k r hf; rw [h.recs] at hf; simp [find?] at hf
  · intro k r hf; rw [h.pidx] at hf; simp [find?] at hf
  · intro k r hf; rw [h.sidx] at hf; simp [find?] at hf
  · intro k1 k2 r1 r2 hf; rw [h.recs] at hf; simp [find?] at hf

/-- **C01 from genesis**: on a ledger grown from a fresh state by any finite history, for every
restaked asset: withdrawable balances + operator pools + amounts owed by pending undelegations
= cumulative deposits − cumulative withdrawals − everything removed by slashing; the published
staking total = deposits − withdrawals; and no figure is negative. -/
theorem C01_from_genesis (s : L) (ops : List LOp) (a : AID) (ha : a ≠ nativeAID) (hf : Fresh s)
    (hok : AllOk0 s ops) :
    let s' := ops.foldl lstep s
    value s' a = getD s'.gDep a 0 - getD s'.gWd a 0 - getD s'.gSlashed a 0 ∧
    getD s'.totals a 0 = getD s'.gDep a 0 - getD s'.gWd a 0 ∧ NN s' := by
  obtain ⟨h1, h2, h3, _⟩ := C01_ledger_reachable s ops a ha hf.recInv hf.nn hok
  have v0 : net s a = 0 := by
    unfold net value; rw [hf.stakers, hf.pools, hf.recs, hf.gDep, hf.gWd, hf.gSl]; simp [sumP, getD, find?]
  have p0 : pub s a = 0 := by
    unfold pub; rw [hf.gDep, hf.gWd]
    have : getD s.totals a 0 = 0 := by
      unfold getD
      cases hft : find? s.totals a with
      | none => rfl
      | some t => exact hf.totals (a, t) (find?_mem _ _ _ hft)
    rw [this]; simp [getD, find?]
  rw [v0] at h1; rw [p0] at h2
  unfold net at h1; unfold pub at h2
  exact ⟨by omega, by omega, h3⟩

/-! non-vacuity -/

private def g0 : L :=
  { height := 1, unbonding := 2, totals := [("a", 0), ("b", 0)], operators := ["o1", "o2"], clientChains := ["0x65"],
    stakers := [], pools := [], deleg := [], slist := [], assoc := [], recs := [], sidx := [], pidx := [],
    holds := [], bal := [], escrow := 0, gDep := [], gWd := [], gSlashed := [] }

private def opsG : List LOp :=
  [.deposit "s_0x65" "a" 100, .deposit "t_0x65" "a" 50, .delegate "s_0x65" "a" "o1" 70, .delegate "t_0x65" "a" "o1" 50,
   .undelegate "s_0x65" "a" "o1" 20 7 "0xh", .blockEnd, .slash "o1" 1 ⟨250000000000000000⟩,
   .blockEnd, .blockEnd, .withdraw "s_0x65" "a" 15]

example : Fresh g0 := ⟨rfl, rfl, rfl, rfl, rfl, rfl, by decide, by decide, by decide, rfl, rfl, rfl⟩
example : UnitP ⟨250000000000000000⟩ := by unfold UnitP; decide
example : value (opsG.foldl lstep g0) "a" = 105 ∧ getD (opsG.foldl lstep g0).totals "a" 0 = 135 ∧
    (opsG.foldl lstep g0).gSlashed = [("a", 30)] ∧ (opsG.foldl lstep g0).recs = [] := by decide

end ExoVerif.Ledger
