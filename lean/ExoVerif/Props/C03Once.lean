import ExoVerif.Props.C03Extra
/-!
# C03 — "released exactly once": the key of a released record can never come back

A record key is operator / start height / nonce / tx hash. `UndelegateFrom` is the only operation that adds a
key to the record store, and the key it adds carries the CURRENT height. Heights only grow, and every stored
record was started at or before the current height (`HeightInv`). Hence:

* `C03_absent_key_step` — one step of any operation: a key that is not stored and whose start height is not the
  current height is still not stored afterwards (and the height did not fall);
* `C03_heights_step` / `C03_heights_reachable` — every stored key's start height is at most the current height, in
  every reachable state;
* `C03_released_never_returns` — over every finite history: a key that is absent and started before the current
  height stays absent for ever;
* `C03_released_exactly_once` — from genesis: a live record that is due and un-held is released by the next block
  end (C03_released_at_first_free_block) and, whatever happens afterwards, no record is ever stored under its key
  again: it cannot be released, credited or slashed a second time.
-/
namespace ExoVerif.Ledger
open ExoVerif ExoVerif.KV

theorem undelegate_height {s s' : L} {st : SID} {a0 : AID} {o : OID} {x : Int} {n : Nat} {hash : String}
    (h : undelegate s st a0 o x n hash = .ok s') : s'.height = s.height := by
  unfold undelegate at h
  simp only [bind, Except.bind, throw, throwThe, MonadExceptOf.throw] at h
  split at h
  · cases h
  · split at h
    · cases h
    · split at h
      · cases h
      · split at h
        · cases h
        · rename_i p1 h1
          obtain ⟨s1, removed⟩ := p1
          simp only [] at h
          have e5 := (removeShare_spec a0 h1).2.2.2.2.2.1
          unfold setRecord at h
          split at h
          · cases h
          · injection h with h; rw [← h]; exact e5

/-- EndBlock adds no key to the record store -/
theorem endBlock_absent {s : L} (hi : RecInv s) (k : RecKey) (hn : find? s.recs k = none) :
    find? (endBlock s).recs k = none := by
  obtain ⟨rs, hrs, hlive, hpair, _⟩ := pendingRecords_spec hi
  obtain ⟨_, _, oth, _, _, _⟩ := foldl_endBlockRecord_spec rs s hi (fun r hr => (hlive r hr).1) hpair
  have e : endBlock s = rs.foldl endBlockRecord s := by unfold endBlock; rw [hrs]
  rw [e, oth k (fun r hr ek => ?_)]
  · exact hn
  · have hl : find? s.recs r.key = some r := (hlive r hr).1
    rw [ek, hn] at hl; cases hl

/-- **one step of any operation adds no key but one started at the current height** -/
theorem C03_absent_key_step (s : L) (op : LOp') (hi : RecInv s) (hn : NN s) (hok : OpOk0' s op)
    (k : RecKey) (hnone : find? s.recs k = none) (hk : k.height ≠ s.height) :
    find? (lstep' s op).recs k = none ∧ s.height ≤ (lstep' s op).height := by
  have keep : ∀ s' : L, s'.recs = s.recs → s'.height = s.height →
      find? s'.recs k = none ∧ s.height ≤ s'.height :=
    fun s' e1 e2 => ⟨by rw [e1]; exact hnone, by rw [e2]⟩
  cases op with
  | nst st a0 x =>
    simp only [lstep']
    cases h : nstUpdate s st a0 x with
    | error e => exact keep s rfl rfl
    | ok s' =>
      simp only []
      obtain ⟨_, _, e, _, _, _, _⟩ := nstUpdate_spec hi hn h
      exact ⟨(e.frame.recs.2 k).1 hnone, by rw [e.frame.height]⟩
  | base op =>
    cases op with
    | deposit st a x =>
      simp only [lstep', lstep]; split
      · rename_i s' h; exact keep s' (deposit_recs h).1 (deposit_recs h).2.2
      · exact keep s rfl rfl
    | withdraw st a x =>
      simp only [lstep', lstep]; split
      · rename_i s' h; exact keep s' (withdraw_recs h).1 (withdraw_recs h).2.2
      · exact keep s rfl rfl
    | delegate st a o x =>
      simp only [lstep', lstep]; split
      · rename_i s' h; exact keep s' (delegate_frame h).2.1 (delegate_frame h).2.2.2.2.2.1
      · exact keep s rfl rfl
    | undelegate st a o x n hash =>
      simp only [lstep', lstep]; split
      · rename_i s' h
        obtain ⟨_, _, r0, _, _, _, _, _, hb, _, _, _, _, hoth⟩ := undelegate_spec hi hok h
        have hne : k ≠ r0.key := by
          intro e; apply hk; rw [e]; exact hb
        exact ⟨by rw [hoth k hne]; exact hnone, by rw [undelegate_height h]⟩
      · exact keep s rfl rfl
    | associate st o =>
      simp only [lstep', lstep]; split
      · rename_i s' h
        unfold associate at h
        simp only [bind, Except.bind, pure, Except.pure, throw, throwThe, MonadExceptOf.throw] at h
        split at h
        · cases h
        · split at h
          · cases h
          · split at h
            · cases h
            · split at h
              · cases h
              · rename_i s1 h1
                injection h with h
                obtain ⟨_, ⟨r1, _, _, _, r5, _⟩, _⟩ := value_foldlM_opShare _ o (fun r => r.share) "a" h1
                exact keep s' (by rw [← h]; exact r1) (by rw [← h]; exact r5)
      · exact keep s rfl rfl
    | dissociate st =>
      simp only [lstep', lstep]; split
      · rename_i s' h
        unfold dissociate at h
        simp only [bind, Except.bind, pure, Except.pure, throw, throwThe, MonadExceptOf.throw] at h
        split at h
        · cases h
        · rename_i o ho
          split at h
          · cases h
          · rename_i s1 h1
            injection h with h
            obtain ⟨_, ⟨r1, _, _, _, r5, _⟩, _⟩ := value_foldlM_opShare _ o (fun r => r.share.neg) "a" h1
            exact keep s' (by rw [← h]; exact r1) (by rw [← h]; exact r5)
      · exact keep s rfl rfl
    | hold k0 => exact keep _ rfl rfl
    | release k0 =>
      simp only [lstep', lstep]; split
      · rename_i s' h
        unfold release at h
        simp only [] at h
        split at h
        · cases h
        · injection h with h; exact keep s' (by rw [← h]) (by rw [← h])
      · exact keep s rfl rfl
    | blockEnd =>
      refine ⟨?_, ?_⟩
      · show find? (endBlock s).recs k = none
        exact endBlock_absent hi k hnone
      · show s.height ≤ (endBlock s).height + 1
        rw [(endBlock_spec hi).2.2.2.1]; omega
    | slash o inf p =>
      simp only [lstep', lstep]
      refine ⟨?_, by rw [(C04_frame s o inf p).2.2.2.2.2.2]⟩
      rw [C04_records_frame s o inf p k, hnone]; rfl

/-- every stored key was started at or before the current height -/
def HeightInv (s : L) : Prop := ∀ k r, find? s.recs k = some r → k.height ≤ s.height

theorem C03_heights_step (s : L) (op : LOp') (hi : RecInv s) (hn : NN s) (hok : OpOk0' s op) (hh : HeightInv s) :
    HeightInv (lstep' s op) ∧ s.height ≤ (lstep' s op).height := by
  have hmono : s.height ≤ (lstep' s op).height := by
    -- a key that cannot be stored anywhere (its start height is beyond the current one) shows the height part
    have := C03_absent_key_step s op hi hn hok ⟨"", s.height + 1, 0, ""⟩ (by
      cases hf : find? s.recs ⟨"", s.height + 1, 0, ""⟩ with
      | none => rfl
      | some r => have := hh _ r hf; simp only [] at this; omega) (by simp only []; omega)
    exact this.2
  refine ⟨fun k r' hf' => ?_, hmono⟩
  cases hs : find? s.recs k with
  | some r => have := hh k r hs; omega
  | none =>
    by_cases hk : k.height = s.height
    · omega
    · have := (C03_absent_key_step s op hi hn hok k hs hk).1
      rw [this] at hf'; cases hf'

theorem C03_heights_reachable (s : L) (ops : List LOp') (hi : RecInv s) (hn : NN s) (hh : HeightInv s)
    (hok : AllOk0' s ops) : HeightInv (ops.foldl lstep' s) ∧ s.height ≤ (ops.foldl lstep' s).height := by
  induction ops generalizing s with
  | nil => exact ⟨hh, Nat.le_refl _⟩
  | cons op rest ih =>
    simp only [List.foldl_cons]
    obtain ⟨h1, h2⟩ := hok
    obtain ⟨_, _, nn1, i1⟩ := C01_nst_net_step s op "a" (by decide) hi hn h1
    obtain ⟨hh1, m1⟩ := C03_heights_step s op hi hn h1 hh
    obtain ⟨hh2, m2⟩ := ih (lstep' s op) i1 nn1 hh1 h2
    exact ⟨hh2, Nat.le_trans m1 m2⟩

/-- **a key that is absent and started before the current height stays absent for ever** -/
theorem C03_released_never_returns (s : L) (ops : List LOp') (hi : RecInv s) (hn : NN s) (hok : AllOk0' s ops)
    (k : RecKey) (hnone : find? s.recs k = none) (hlt : k.height < s.height) :
    find? (ops.foldl lstep' s).recs k = none := by
  induction ops generalizing s with
  | nil => exact hnone
  | cons op rest ih =>
    simp only [List.foldl_cons]
    obtain ⟨h1, h2⟩ := hok
    obtain ⟨_, _, nn1, i1⟩ := C01_nst_net_step s op "a" (by decide) hi hn h1
    obtain ⟨a1, m1⟩ := C03_absent_key_step s op hi hn h1 k hnone (by omega)
    exact ih (lstep' s op) i1 nn1 h2 a1 (by omega)

/-- **C03, "released exactly once", from genesis**: in every state reachable from a fresh ledger, a live record
that is due and un-held is released by the next block end, and after ANY continuation of the history no record is
stored under its key: it is never released, credited or slashed a second time. -/
theorem C03_released_exactly_once (s0 : L) (ops more : List LOp') (hf : Fresh s0) (hu : NativeUnreg s0)
    (hok : AllOk0' s0 (ops ++ LOp'.base .blockEnd :: more)) (r : URec) (hl : Live (ops.foldl lstep' s0) r)
    (hdue : r.completeBlock = (ops.foldl lstep' s0).height) (h0 : getD (ops.foldl lstep' s0).holds r.key 0 = 0) :
    find? (lstep' (ops.foldl lstep' s0) (.base .blockEnd)).recs r.key = none ∧
    find? ((ops ++ LOp'.base .blockEnd :: more).foldl lstep' s0).recs r.key = none := by
  -- split the side conditions of the history
  have hsplit : ∀ (s : L) (l1 l2 : List LOp'), AllOk0' s (l1 ++ l2) → AllOk0' s l1 ∧ AllOk0' (l1.foldl lstep' s) l2 := by
    intro s l1 l2
    induction l1 generalizing s with
    | nil => intro h; exact ⟨trivial, h⟩
    | cons op rest ih => intro h; obtain ⟨a, b⟩ := ih (lstep' s op) h.2; exact ⟨⟨h.1, a⟩, b⟩
  obtain ⟨ok1, ok2⟩ := hsplit s0 ops _ hok
  have inv := C03_exit_invariants_reachable s0 ops (hf.exitInv hu) ok1
  have hh0 : HeightInv s0 := by intro k r hfk; rw [hf.recs] at hfk; cases hfk
  obtain ⟨hh, _⟩ := C03_heights_reachable s0 ops hf.recInv hf.nn hh0 ok1
  obtain ⟨g1, _, _⟩ := C03_released_at_first_free_block s0 ops hf hu ok1 r hl hdue h0
  refine ⟨g1, ?_⟩
  rw [List.foldl_append, List.foldl_cons]
  have inv1 := C03_exit_invariants_step _ (.base .blockEnd) inv ok2.1
  refine C03_released_never_returns _ more inv1.ri inv1.nn ok2.2 r.key g1 ?_
  have hkh : r.key.height ≤ (ops.foldl lstep' s0).height := hh r.key r hl
  show r.key.height < (endBlock (ops.foldl lstep' s0)).height + 1
  rw [(endBlock_spec inv.ri).2.2.2.1]; omega

/-! non-vacuity: the history of `C03Extra`, continued after the release by an undelegation with the SAME nonce and
tx hash from the same operator - which now creates a record under a different key (a later start height) -/

private def y0 : L :=
  { height := 1, unbonding := 2, totals := [("A", 0)], operators := ["o"], clientChains := [],
    stakers := [], pools := [], deleg := [], slist := [], assoc := [], recs := [], sidx := [], pidx := [],
    holds := [], bal := [], escrow := 0, gDep := [], gWd := [], gSlashed := [] }

private def yops : List LOp' :=
  [.base (.deposit "s" "A" 100), .base (.delegate "s" "A" "o" 60), .base (.undelegate "s" "A" "o" 20 7 "h"),
   .base .blockEnd, .base .blockEnd]

private def ymore : List LOp' := [.base (.undelegate "s" "A" "o" 5 7 "h"), .base .blockEnd]

private def yr : URec := ⟨"s", "A", "o", "h", 7, 1, 3, 20, 20⟩

private theorem y0_fresh : Fresh y0 := ⟨rfl, rfl, rfl, rfl, rfl, rfl, by decide, by decide, by decide, rfl, rfl, rfl⟩
private theorem y0_unreg : NativeUnreg y0 := by unfold NativeUnreg; decide
private theorem yall_ok : AllOk0' y0 (yops ++ LOp'.base .blockEnd :: ymore) :=
  ⟨trivial, trivial, freshNonce_of_all (by decide), trivial, trivial, trivial, freshNonce_of_all (by decide),
   trivial, trivial⟩

example : Live (yops.foldl lstep' y0) yr := by unfold Live; decide

example : find? ((yops ++ LOp'.base .blockEnd :: ymore).foldl lstep' y0).recs yr.key = none :=
  (C03_released_exactly_once y0 yops ymore y0_fresh y0_unreg yall_ok yr (by unfold Live; decide) (by decide)
    (by decide)).2

-- the second undelegation with the same nonce and hash lives under another key (start height 4)
example : ((yops ++ LOp'.base .blockEnd :: ymore).foldl lstep' y0).recs.map (fun e => (e.1.height, e.2.amount))
    = [(4, 5)] := by decide

end ExoVerif.Ledger
