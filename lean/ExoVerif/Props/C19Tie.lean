import ExoVerif.Generated.Kernels
import ExoVerif.Generated.Facts
import ExoVerif.Generated.EvmFee
import ExoVerif.Proofs.EvmFee
/-!
# C19 tie: the arithmetic of the model *is* the arithmetic of x/evm/keeper

`Gen.evmGasToRefund` (whole function x/evm/keeper/gas.go GasToRefund) and the statement slices of
ApplyMessageWithConfig / ApplyTransaction in `Generated/EvmFee.lean` are regenerated from the Go source on
every run; the facts name the decorator order, the CheckTx-only guard, the refund price and the commit guard.
A changed operator (`Mul`→`Quo`, `LegacyMaxDec`→`LegacyMinDec`, `TruncateInt`→`RoundInt`, `-`→`+`), a reordered
or dropped decorator, a different refund price or commit condition breaks one of these theorems.
-/
namespace ExoVerif.EvmFee
open ExoVerif.Gen

theorem C19_tie_gas_to_refund (a c q : Int) : evmGasToRefund a c q = gasToRefund a c q := by
  unfold evmGasToRefund gasToRefund
  simp

theorem C19_tie_minimum_gas_used (L : Int) (m : Dec) : evmMinimumGasUsed L m = minimumGasUsed L m := rfl

theorem C19_tie_final_gas_used (m : Dec) (x : Int) : evmFinalGasUsed m x = finalGasUsed m x := rfl

/-- gas after the refund counter, with the regenerated GasToRefund plugged into the regenerated slice -/
theorem C19_tie_temporary_gas_used (L left counter q : Int) :
    evmTemporaryGasUsed evmGasToRefund L left counter q = evmGasAfterRefund (L - left) counter q := by
  unfold evmTemporaryGasUsed evmGasAfterRefund
  simp [C19_tie_gas_to_refund]

/-- RefundGas is called with gasLimit − gasUsed, which is what `refundAmt` multiplies with the price -/
theorem C19_tie_refund_leftover (e : Env) (t : Tx) (g : Int) :
    refundAmt e t g = (if 0 < evmRefundLeftover t.gasLimit g * msgPrice e t then evmRefundLeftover t.gasLimit g * msgPrice e t else 0) := rfl

/-- the refund is priced with msg.GasPrice() (the effective price of go-ethereum's AsMessage) -/
theorem C19_tie_refund_price : evmRefundPriceExpr = "new(big.Int).SetUint64(leftoverGas) * msg.GasPrice()" := by decide

/-- the message cache is committed only for a successful execution -/
theorem C19_tie_commit_guard : evmCommitGuard = "!res.Failed()" := by decide

/-- an ApplyMessageWithConfig error charges the whole gas limit -/
theorem C19_tie_apply_error_charge : evmBlockGasErrCharge = "ctx.GasMeter().Limit()" := by decide

/-- decorator order of the EVM ante handler (the model's `admit` conjuncts follow it; CanTransfer precedes the
    fee deduction, the sequence increment comes after both) -/
theorem C19_tie_ante_order : evmAnteOrder =
    ["NewEthSetUpContextDecorator", "NewEthMempoolFeeDecorator", "NewEthMinGasPriceDecorator",
     "NewEthValidateBasicDecorator", "NewEthSigVerificationDecorator", "NewEthAccountVerificationDecorator",
     "NewCanTransferDecorator", "NewEthGasConsumeDecorator", "NewEthIncrementSenderSequenceDecorator",
     "NewGasWantedDecorator", "NewEthEmitEventDecorator"] := by decide

/-- F-19a repair: EthAccountVerificationDecorator (balance ≥ gasLimit·feeCap + value) no longer returns early outside
    CheckTx — the model's `totalCostOk` conjunct of `admissible` relies on it. Re-introducing the early return flips
    this fact and breaks the theorem. -/
theorem C19_tie_account_verification_every_mode : evmAccountVerificationCheckTxOnly = false := by decide

theorem C19_tie_slices_regenerated : evmGasKernelsRegenerated = true := by decide

end ExoVerif.EvmFee
