import ExoVerif.Generated.Facts
import ExoVerif.Model.AtomicUndelegate
/-!
# C09 tie for undelegate: the failure causes `Model/AtomicUndelegate.lean` enumerates are those of the Go source

`ExoVerif.Gen.*` is regenerated from the repository on every run (tools/exofacts/facts_atomic_undelegate.go).
The value-level theorems (`Props/C09Undelegate.lean`) show that none of the causes of failure that stand after
RemoveShare's first write can occur; this file pins the list of causes.  A new `return err` in any function on
the path — a "record already exists" test in SetUndelegationRecords, a further refusal in the dogfood hook, a
hook registered that can fail elsewhere — a different completion height, or a setter that reads before it writes
changes a generated list and breaks one of these `decide`s.  (The *order* of the callees inside UndelegateFrom
is tied by `C09_tie_undelegateFrom_order`, the absence of a cache context by `C09_tie_cache_sites`, the
swallowed error by `C09_tie_run_swallows`.)
-/
namespace ExoVerif.Atomic
open ExoVerif.Gen ExoVerif.AtomicValues

/-- every way the functions on the path of the undelegate precompile can fail, in source order, and the named
check of `Atomic.precompileUndelegate` / `Undelegate.chk` that stands for it:
* Precompile.Undelegate — CheckExocoreGatewayAddr, GetDelegationParamsFromInputs, ctx.Value(TxHash), then
  UndelegateFrom's error passed on (the final `Pack(true)` of a bool cannot fail);
* UndelegateFrom — OpAmount.IsPositive, IsOperator, ValidateUndelegationAmount, RemoveShare, SetUndelegationRecords,
  and the hooks' error as tail call;
* RemoveShare — share.IsPositive, RemoveShareFromOperator (GetOperatorSpecifiedAssetInfo, share.GT(TotalShare),
  TokensFromShares, GetAssociatedOperator — no error path, `C09_tie_infallible_callees` —, the four checks of
  UpdateOperatorAssetState), the three UpdateAssetValue of UpdateStakerAssetState, UpdateDelegationState
  (`C09_tie_late_callee_error_paths`), DeleteStakerForOperator (`!store.Has(Key)`);
* SetUndelegationRecords — **one** refusal, the completion height below the current height;
* the hooks — MultiDelegationHooks passes the error of the one registered hook on; the dogfood hook can fail
  only in its tail call IncrementUndelegationHoldCount (`prev == math.MaxUint64`). -/
theorem C09_tie_undelegate_error_paths :
    errPathsUndelegateLate =
      [("Precompile.Undelegate", ["err:CheckExocoreGatewayAddr", "err:GetDelegationParamsFromInputs",
          "if:!ok || txHash.Bytes() == nil", "err:UndelegateFrom", "tail:Pack"]),
       ("UndelegateFrom", ["if:!params.OpAmount.IsPositive()", "if:!k.operatorKeeper.IsOperator(ctx, params.OperatorAddress)",
          "err:ValidateUndelegationAmount", "err:RemoveShare", "err:SetUndelegationRecords", "tail:AfterUndelegationStarted"]),
       ("ValidateUndelegationAmount", ["if:!amount.IsPositive()", "err:GetSingleDelegationInfo", "err:GetOperatorSpecifiedAssetInfo",
          "err:SharesFromTokens", "if:share.GT(delegationInfo.UndelegatableShare)", "err:SharesFromTokens"]),
       ("RemoveShare", ["if:!share.IsPositive()", "err:RemoveShareFromOperator", "err:UpdateStakerAssetState",
          "err:UpdateDelegationState", "err:DeleteStakerForOperator"]),
       ("RemoveShareFromOperator", ["if:!share.IsPositive()", "err:GetOperatorSpecifiedAssetInfo",
          "if:share.GT(operatorAssetState.TotalShare)", "err:TokensFromShares", "err:GetAssociatedOperator",
          "err:UpdateOperatorAssetState"]),
       ("TokensFromShares", ["if:stakerShare.GT(totalShare)", "if:totalShare.IsZero()"]),
       ("UpdateStakerAssetState", ["err:UpdateAssetValue", "err:UpdateAssetValue", "err:UpdateAssetValue"]),
       ("DeleteStakerForOperator", ["if:!store.Has(Key)"]),
       ("SetUndelegationRecords", ["if:record.CompleteBlockNumber < uint64(currentHeight)"]),
       ("MultiDelegationHooks.AfterUndelegationStarted", ["err:AfterUndelegationStarted"]),
       ("DelegationHooksWrapper.AfterUndelegationStarted", ["tail:IncrementUndelegationHoldCount"]),
       ("IncrementUndelegationHoldCount", ["if:prev == math.MaxUint64"])] := by decide

/-- the late causes are as many as the model's late checks: per function standing after the first write, the
number of its error returns = the number of checks of `Undelegate.late` that stand for it (3 + 1 + 1 + 1, the
fourth of UpdateDelegationState's causes being counted by `C09_tie_late_callee_error_paths`) -/
theorem C09_tie_undelegate_late_causes_counted :
    ((errPathsUndelegateLate.filter (fun p => p.1 ∈ ["UpdateStakerAssetState", "DeleteStakerForOperator",
        "SetUndelegationRecords", "IncrementUndelegationHoldCount"])).map (fun p => (p.1, p.2.length))) =
      [("UpdateStakerAssetState", 3), ("DeleteStakerForOperator", 1), ("SetUndelegationRecords", 1),
       ("IncrementUndelegationHoldCount", 1)] ∧
    (precompileUndelegate.filter (fun st => match st with | .check _ => true | _ => false)).length = 22 := by decide

/-- the record UndelegateFrom stores (`Undelegate.record`, `Undelegate.recKey`): block number = the current
height, completion height = GetUnbondingExpirationBlockNumber(…, that block number) = it plus a constant — never
below the current height, which is the only thing SetUndelegationRecords tests —, nonce / tx hash / operator as
given by the caller; and the setter is three `Set`s: it neither reads nor tests what is stored under the key -/
theorem C09_tie_undelegate_record :
    undelegateRecordFields =
      [("StakerID", "stakerID"), ("AssetID", "assetID"), ("OperatorAddr", "params.OperatorAddress.String()"),
       ("TxHash", "params.TxHash.String()"), ("LzTxNonce", "params.LzNonce"), ("BlockNumber", "uint64(ctx.BlockHeight())"),
       ("CompleteBlockNumber", "k.operatorKeeper.GetUnbondingExpirationBlockNumber(ctx, params.OperatorAddress, r.BlockNumber)")] ∧
    unbondingExpirationExpr = ["param:startHeight uint64", "startHeight + operatortypes.UnbondingExpiration"] ∧
    undelegationRecordWrites = ["singleRecordStore.Set", "stakerUndelegationStore.Set", "pendingUndelegationStore.Set"] := by
  decide

end ExoVerif.Atomic
