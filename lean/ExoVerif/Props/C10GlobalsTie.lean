import ExoVerif.Generated.Facts
import ExoVerif.Model.AuthStore
/-!
# C10 / C08 tie: no process-local state stands between the store and a privileged check

`ExoVerif.Gen.mutablePackageGlobals`, `packageGlobalReaders` and `gatewayCheckReads` are regenerated
from the Go sources on every run (tools/exofacts/facts_globals.go).  `Model/Auth.lean` and
`Model/AuthStore.lean` let every admission predicate read its `AuthState` argument - the store of the
context the call runs on - and nothing else.  That is the code's behaviour only as long as no
package-level variable carries state from one call to the next: such a variable is not branched with
the multistore and not rolled back when a branch is dropped (`C10_memo_check_not_store_function`).
A new package-level variable that is written outside `init()` (a memoized parameter, a cached address, a
counter) in any package under x/ or precompiles/ adds an entry to the first list and breaks
`C10_tie_package_globals`; a gateway check that takes the compared address from anywhere but
`k.GetParams(ctx)` → `store.Get(ParamsKey)` breaks `C10_tie_gateway_reads_store`.
-/
namespace ExoVerif.Auth
open ExoVerif.Gen

/-- every package-level variable of x/ and precompiles/ that is written after start-up belongs to x/oracle:
the aggregator context and its CheckTx copy, the cache, the list of updated feeders, the five parameters
mirrored into `common` by `setCommonParams`, and the `sync.Once` that fills them in the first BeginBlock.  (Their agreement with the store is C08's and C14's subject:
`oracleMemoryWriters`, `oracleCacheWriters`, the restart runs.)  No other module keeps process-local state. -/
theorem C10_tie_package_globals :
    mutablePackageGlobals =
      [("x/oracle/keeper/common:MaxDetID:value", ["x/oracle/keeper/single.go:setCommonParams:assign"]),
       ("x/oracle/keeper/common:MaxNonce:value", ["x/oracle/keeper/single.go:setCommonParams:assign"]),
       ("x/oracle/keeper/common:Mode:value", ["x/oracle/keeper/single.go:setCommonParams:assign"]),
       ("x/oracle/keeper/common:ThresholdA:value", ["x/oracle/keeper/single.go:setCommonParams:assign"]),
       ("x/oracle/keeper/common:ThresholdB:value", ["x/oracle/keeper/single.go:setCommonParams:assign"]),
       ("x/oracle/keeper:agc:ptr",
        ["x/oracle/keeper/single.go:GetAggregatorContext:assign", "x/oracle/keeper/single.go:ResetAggregatorContext:assign"]),
       ("x/oracle/keeper:agcCheckTx:ptr",
        ["x/oracle/keeper/single.go:GetAggregatorContext:assign", "x/oracle/keeper/single.go:ResetAggregatorContextCheckTx:assign"]),
       ("x/oracle/keeper:cs:ptr", ["x/oracle/keeper/single.go:GetCaches:assign", "x/oracle/keeper/single.go:ResetCache:assign"]),
       ("x/oracle/keeper:updatedFeederIDs:slice",
        ["x/oracle/keeper/single.go:AppendUpdatedFeederIDs:assign", "x/oracle/keeper/single.go:ResetUpdatedFeederIDs:assign"]),
       ("x/oracle:once:value", ["x/oracle/module.go:AppModule.BeginBlock:sync:Do"])] := by
  decide

/-- in particular none of the packages holding a privileged check of C10 has one: assets (gateway check,
UpdateParams), delegation, avs, operator, dogfood, exomint, feedistribution, reward, slash, the precompiles and
the ante handlers read the store (or constants) only -/
theorem C10_tie_no_globals_outside_oracle :
    mutableGlobalPackages = ["x/oracle", "x/oracle/keeper", "x/oracle/keeper/common"] ∧
    packageGlobalReaderPackages =
      ["x/oracle", "x/oracle/keeper", "x/oracle/keeper/aggregator", "x/oracle/keeper/cache", "x/oracle/keeper/common"] := by
  decide

/-- who reads the oracle's process-local state: oracle code only -/
theorem C10_tie_package_global_readers :
    packageGlobalReaders.map (·.1) =
      ["x/oracle/keeper/common:MaxDetID", "x/oracle/keeper/common:MaxNonce", "x/oracle/keeper/common:Mode",
       "x/oracle/keeper/common:ThresholdA", "x/oracle/keeper/common:ThresholdB", "x/oracle/keeper:agc",
       "x/oracle/keeper:agcCheckTx", "x/oracle/keeper:cs", "x/oracle/keeper:updatedFeederIDs", "x/oracle:once"] := by
  decide

/-- the gateway check compares its argument with the address parsed from the params it has just read from
the store of ITS context, and neither it nor GetParams mentions a package-level variable
(`admitGateway st r` reads `st.gateway`; `C10_gateway_check_reads_store`) -/
theorem C10_tie_gateway_reads_store :
    gatewayCheckReads =
      [("CheckExocoreGatewayAddr.param,err", ":= k.GetParams(ctx)"),
       ("CheckExocoreGatewayAddr.exoCoreLzAppAddr", ":= common.HexToAddress(param.ExocoreLzAppAddress)"),
       ("CheckExocoreGatewayAddr.if", "addr != exoCoreLzAppAddr"),
       ("CheckExocoreGatewayAddr.packageLevelVars", ""),
       ("GetParams.store", ":= prefix.NewStore(ctx.KVStore(k.storeKey), assetstypes.KeyPrefixParams)"),
       ("GetParams.value", ":= store.Get(assetstypes.ParamsKey)"),
       ("GetParams.if", "value == nil"),
       ("GetParams.ret", ":= &assetstypes.Params{}"),
       ("GetParams.packageLevelVars", "")] := by
  decide

end ExoVerif.Auth
