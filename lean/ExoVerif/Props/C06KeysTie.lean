import ExoVerif.Generated.Facts
import ExoVerif.Props.C07
/-!
# C06 tie: the key-in-use guard and the pruning hook, as the registry model has them

`Props/C06Keys.lean` derives "store, total power and consensus agree" in every history of key
operations from two pieces of code, re-read from the Go source on every run
(tools/exofacts/facts_keyguard.go, facts_conskeys.go):

* setOperatorConsKeyForChainID returns ErrConsKeyAlreadyInUse exactly when the key's
  cons-address → operator lookup exists — *whoever* the operator is (`setKeyCore`: `(s.rev key).isSome`).
  A check that lets the resolved operator through (take one's replaced key back) no longer translates /
  no longer proves; `C06_keys_take_back_would_break_agreement` shows what it would cost;
* AfterOperatorKeyReplaced queues a replaced validating key for pruning at the completion epoch and
  deletes the lookup of a non-validating one at once (`hookReplaced`).
-/
namespace ExoVerif.ConsKeys
open ExoVerif.Gen

/-- the guard of the model is the regenerated condition applied to "the reverse lookup of the key
exists": for an operator that is not removing its key, `setKeyCore` answers ErrConsKeyAlreadyInUse
iff the Go condition holds -/
theorem C06_tie_key_in_use_guard (s : St) (op key : Nat) (hrm : s.removing op = false) :
    (setKeyCore s op key).1 = .errConsKeyInUse ↔ setConsKeyInUseCond (s.rev key).isSome = true := by
  unfold setKeyCore setConsKeyInUseCond
  simp only [hrm, Bool.false_eq_true, if_false]
  by_cases h : (s.rev key).isSome = true
  · simp [h]
  · simp only [h]
    cases hf : s.fwd op with
    | none => simp
    | some pk =>
      by_cases hk : pk = key
      · simp [hk]
      · simp [hk]

/-- … and a refusal leaves the state untouched, so the refused operator keeps validating with the key
it replaced the old one by -/
theorem C06_tie_key_in_use_refusal_keeps_state (s : St) (op key : Nat)
    (h : setConsKeyInUseCond (s.rev key).isSome = true) : (setKeyCore s op key).1 ≠ .ok ∧ (setKeyCore s op key).2 = s :=
  setKeyCore_reject_used s op key h

/-- `keyInUse` is the found-flag of the cons-address → operator lookup of the *new* key on this chain,
and nothing else of the lookup's result is used (the operator it resolves to is discarded) -/
theorem C06_tie_key_in_use_lookup :
    setConsKeyInUseLookup =
      ("k.GetOperatorAddressForChainIDAndConsAddr", ["keyInUse", "_"], ["ctx", "chainID", "consAddr"]) := by decide

/-- the sentinel errors of setOperatorConsKeyForChainID, in the order of `setKeyCore`'s checks -/
theorem C06_tie_set_key_guard_order :
    setConsKeyGuards = ["ErrOperatorIsFrozen", "ErrAlreadyRemovingKey", "ErrConsKeyAlreadyInUse"] := by decide

/-- AfterOperatorKeyReplaced: a replaced key that is in the validator set is queued for pruning at
GetUnbondingCompletionEpoch; otherwise its lookup is deleted at once (`hookReplaced`) -/
theorem C06_tie_replaced_key_pruning :
    hookKeyReplacedBranches = (["GetUnbondingCompletionEpoch", "AppendConsensusAddrToPrune"],
                               ["DeleteOperatorAddressForChainIDAndConsAddr"]) := by decide

-- non-vacuity: a state in which operator 0 replaced key 1 by key 3 — key 1 still resolves to operator 0
example :
    let s : St := { St.init 2 4 2 2 with fwd := upd (fun _ => none) 0 (some 3), rev := upd (upd (fun _ => none) 1 (some 0)) 3 (some 0) }
    s.removing 0 = false ∧ (setKeyCore s 0 1).1 = .errConsKeyInUse ∧ (setKeyCore s 0 2).1 = .ok := by decide

end ExoVerif.ConsKeys
