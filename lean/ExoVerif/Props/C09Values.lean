import ExoVerif.Props.C09
import ExoVerif.Props.C02Lists
import ExoVerif.Props.C01Inv
import ExoVerif.Proofs.AtomicValues
/-!
# C09, value level — the four `_partial` entry points are atomic in every reachable state

`Props/C09.lean` proves atomicity *by shape* and leaves four precompile entry points `_partial`: a check
that can fail stands after the first visible write and there is no cache context (delegate, opt-in,
opt-out, createTask); their theorems assume the late checks never fail.  This file discharges those
assumptions: the named checks and writes get their real meaning (`Model/AtomicValues.lean`: the condition
each Go callee tests, the store update it performs), the order stays the one tied to the Go source
(`Atomic.precompileDelegate`, … and `C09_tie_delegateTo_order`, `C09_tie_opt_order`,
`C09_tie_createTask_order`), and the late checks are shown to pass whenever the checks that precede the
first write have passed:

* **delegate** — needs a fact about the *state*: the operator's pool row has no shares without tokens
  (otherwise `CalculateShare` returns ErrDivisorIsZero after the staker's withdrawable amount was reduced).
  That fact is part of the C02 invariant (`ZeroPoolInv`, with `NN` for the signs), proved for every finite
  history of the ledger from genesis: `C09_delegate_fail_atomic_reachable`.  In a state outside the
  invariant the same run does leave a trace (`C09_delegate_unreachable_state_witness`): the hypothesis is
  what carries the theorem, not the shape.
* **opt-in / opt-out** — the late checks re-test what an early check established on the same state
  (`GetAVSSlashContract` ⇐ `IsAVS`: same store key; `HandleOptedInfo` ⇐ `IsActive`: same record) or
  re-decode the canonical rendering of an address that was decoded before (`Bech32RoundTrip`, a property
  of the SDK's codec, checked on the real addresses by the `atomic_values` domain): every state.
* **createTask** — the late checks test the request only (task address rendered from
  `contract.CallerAddress`, ABI types of the event arguments): every state, for requests the precompile builds.

`C09_guarded_shape_fail_atomic` is the general tool: leading checks (guards), then a program whose late
checks pass in every state related to the entry state by a relation the writes preserve.
-/
namespace ExoVerif.Atomic
open ExoVerif ExoVerif.KV ExoVerif.AtomicValues

/-! ## the guarded shape theorem -/

/-- A program = leading checks `pre` followed by `rest`.  If, once the guards have passed on the entry
state, a relation `R` holds of the entry state, is kept by every write and callee, and makes the checks
of `inf` pass, and `rest` has the check/write shape relative to `inf`, then a failing run returns the
entry state.  (`C09_shape_fail_atomic` is the case `pre = inf = []`, `R = True`.) -/
theorem C09_guarded_shape_fail_atomic {σ : Type} (I : Impl σ) (inf pre : List String) (rest : Prog) (s : σ)
    (R : σ → Prop)
    (H : (∀ g, g ∈ pre → I.chk g s s = none) →
      R s ∧ (∀ n c, R c → R (I.wr n s c)) ∧ (∀ n c, R c → R (I.eff n s c).2) ∧
      (∀ n, n ∈ inf → ∀ c, R c → I.chk n s c = none))
    (hs : shapeOK inf rest false false 0 = true)
    (e : Err) (h : (run I (pre.map Step.check ++ rest) s).1 = .error e) :
    (run I (pre.map Step.check ++ rest) s).2 = s :=
  run_fail_atomic_guarded I inf pre rest s R H hs e h

/-- the same under a precompile (`false` returned, writes kept) -/
theorem C09_precompile_of_run {σ : Type} (m : Eff σ Unit) (s : σ)
    (hrun : ∀ e, (m s).1 = .error e → (m s).2 = s)
    (h : (precompileCall m s).1.isFailure = true) : (precompileCall m s).2 = s := by
  unfold precompileCall at h ⊢
  cases hr : m s with
  | mk r s' =>
    cases r with
    | ok u => simp [hr, Outcome.isFailure] at h
    | error e =>
      have := hrun e (by rw [hr])
      rw [hr] at this
      cases e <;> simp_all

/-- the late checks discharged below are exactly the ones the `_partial` theorems assume -/
theorem C09_values_discharge_the_partial_assumptions :
    Delegate.late = delegateAssumed ∧ Opt.lateIn = optInAssumed ∧ Opt.lateOut = optOutAssumed ∧
    Task.late = createTaskAssumed := ⟨rfl, rfl, rfl, rfl⟩

/-! ## delegate -/

open ExoVerif.Ledger in
/-- **steps after the first write cannot fail**: when the operator's pool row is good (no negative figure,
no shares without tokens) and the amount is positive, every check of `delegateTo` that stands after
`UpdateStakerAssetState`'s write passes — CalculateShare (no ErrDivisorIsZero), the four UpdateAsset(Dec)Value
of UpdateOperatorAssetState (additions), UpdateDelegationState (addition), and the two callees without an
error path — in the current state `c`, whatever else it holds. -/
theorem C09_delegate_late_steps_cannot_fail (r : Delegate.Req) (s c : L) (hx : 0 < r.x)
    (hs : Delegate.GoodRow (Delegate.plRow r s)) (hc : Delegate.GoodRow (Delegate.plRow r c))
    (n : String) (hn : n ∈ delegateAssumed) : (Delegate.impl r).chk n s c = none := by
  obtain ⟨sh, hsh, hsh0⟩ := Delegate.calculateShare_ok (c := s) (o := r.o) (a := r.a) hs hx
  have hshare : 0 ≤ (Delegate.share r s).raw := by unfold Delegate.share; rw [hsh]; exact hsh0
  exact Delegate.late_pass r s hx hshare n hn c hc

open ExoVerif.Ledger in
/-- delegate through the precompile, value level: in a state whose targeted pool row is good, a failing
run leaves the ledger exactly as it was -/
theorem C09_delegate_fail_atomic_values (r : Delegate.Req) (s : L)
    (hgood : Delegate.GoodRow (Delegate.plRow r s))
    (h : (precompileCall (run (Delegate.impl r) precompileDelegate) s).1.isFailure = true) :
    (precompileCall (run (Delegate.impl r) precompileDelegate) s).2 = s :=
  C09_precompile_of_run _ s (fun e he => Delegate.fail_atomic r s hgood e he) h

namespace Reach
open ExoVerif.Ledger

/-- a ledger at genesis: nothing has happened yet (`Fresh`) and no staker list / association exists -/
structure Genesis (s : L) : Prop where
  fresh : Fresh s
  slist : s.slist = []
  assoc : s.assoc = []

/-- both invariants hold after every finite history of the ten ledger operations from genesis
(undelegations with fresh nonces, slashes with a proportion in [0,1]) -/
theorem inv (s0 : L) (ops : List LOp) (hg : C02Full s0 ∧ NN s0) (hok : AllOk0 s0 ops) :
    C02Full (ops.foldl lstep s0) ∧ NN (ops.foldl lstep s0) := by
  induction ops generalizing s0 with
  | nil => exact hg
  | cons op rest ih =>
    simp only [List.foldl_cons]
    obtain ⟨h1, h2⟩ := hok
    exact ih (lstep s0 op)
      ⟨C02_full_step s0 op hg.1 (opOk_of_nn hg.2 h1), C01_nonneg_step s0 op hg.2 h1⟩ h2

theorem genesis_inv {s0 : L} (hg : Genesis s0) : C02Full s0 ∧ NN s0 :=
  ⟨c02Full_empty s0 hg.fresh.pools hg.fresh.deleg hg.slist hg.assoc, hg.fresh.nn⟩

/-- what `C02Full` and `NN` say about one pool row -/
theorem goodRow {s : L} (hi : C02Full s) (hn : NN s) (o : OID) (a : AID) :
    Delegate.GoodRow (getD s.pools (o, a) zeroPool) := by
  have hp : PlP (getD s.pools (o, a) zeroPool) := all_getD (o, a) hn.pl PlP_zero
  exact ⟨hp.1, hp.2.2.1, fun h0 => hi.zero o a h0⟩

end Reach

open ExoVerif.Ledger in
/-- **C09 for delegate, in every reachable state.**  For every state reached from genesis by a finite
history of deposits, withdrawals, delegations, undelegations, associations, dissociations, holds,
releases, block ends and slashes, and for every request — any staker, asset, operator, amount, caller,
frozen flag — the delegate precompile either succeeds or reports failure having written nothing. -/
theorem C09_delegate_fail_atomic_reachable (s0 : L) (ops : List LOp) (hg : Reach.Genesis s0)
    (hok : AllOk0 s0 ops) (r : Delegate.Req)
    (h : (precompileCall (run (Delegate.impl r) precompileDelegate) (ops.foldl lstep s0)).1.isFailure = true) :
    (precompileCall (run (Delegate.impl r) precompileDelegate) (ops.foldl lstep s0)).2 = ops.foldl lstep s0 := by
  obtain ⟨hi, hn⟩ := Reach.inv s0 ops (Reach.genesis_inv hg) hok
  exact C09_delegate_fail_atomic_values r _ (Reach.goodRow hi hn r.o r.a) h

open ExoVerif.Ledger in
/-- the same from any state of the invariants (e.g. an imported genesis with delegations) -/
theorem C09_delegate_fail_atomic_invariant (s : L) (hi : C02Full s) (hn : NN s) (r : Delegate.Req)
    (h : (precompileCall (run (Delegate.impl r) precompileDelegate) s).1.isFailure = true) :
    (precompileCall (run (Delegate.impl r) precompileDelegate) s).2 = s :=
  C09_delegate_fail_atomic_values r s (Reach.goodRow hi hn r.o r.a) h

open ExoVerif.Ledger in
/-- the value-level steps are those of the ledger model: when `Ledger.delegate` (compared with the Go
keeper call by call in the `ledger` domain) accepts, the run of `precompileDelegate` under `Delegate.impl`
passes every check and ends in the same state -/
theorem C09_delegate_values_agree_with_ledger (r : Delegate.Req) (s s' : L) (hgw : r.gatewayOk = true)
    (hp : r.parseOk = true) (hfz : r.frozen = false) (hna : r.a ≠ nativeAID)
    (h : delegate s r.st r.a r.o r.x = .ok s') :
    precompileCall (run (Delegate.impl r) precompileDelegate) s = (.ok, s') := by
  unfold precompileCall
  rw [Delegate.run_eq_delegate r s s' hgw hp hfz hna h]

/-! ### the hypothesis is needed: outside the invariant the same run leaves a trace -/

namespace Witness
open ExoVerif.Ledger

/-- not reachable (it violates `ZeroPoolInv`): pool (o1, a) has 10¹⁸ raw shares and no tokens — the state
the pre-repair `TokensFromShares` produced (F-02a, `C02_regression_history`) -/
def bad : L :=
  { height := 1, unbonding := 10, totals := [("a", 5)], operators := ["o1"], clientChains := ["0x65"],
    stakers := [(("s_0x65", "a"), ⟨5, 5, 0⟩)],
    pools := [(("o1", "a"), ⟨0, 0, ⟨1000000000000000000⟩, ⟨0⟩⟩)],
    deleg := [(("t_0x65", "a", "o1"), ⟨⟨1000000000000000000⟩, 0⟩)], slist := [(("o1", "a"), ["t_0x65"])],
    assoc := [], recs := [], sidx := [], pidx := [], holds := [], bal := [], escrow := 0,
    gDep := [], gWd := [], gSlashed := [] }

def req : Delegate.Req := { gatewayOk := true, parseOk := true, frozen := false, st := "s_0x65", a := "a", o := "o1", x := 1 }

/-- the state after the failed call: the staker's withdrawable amount is 4, nothing else was done -/
def after : L := { bad with stakers := [(("s_0x65", "a"), ⟨5, 4, 0⟩)] }

/-- a good state: same pool with 3 tokens -/
def good : L := { bad with pools := [(("o1", "a"), ⟨3, 0, ⟨1000000000000000000⟩, ⟨0⟩⟩)] }

end Witness

/-- In a state that violates "no shares without tokens" the delegate precompile returns `false`
(ErrDivisorIsZero at CalculateShare) with the staker's withdrawable amount already reduced; with tokens in
the pool the same request succeeds; with an amount above the withdrawable balance it is refused clean. -/
theorem C09_delegate_unreachable_state_witness :
    precompileCall (run (Delegate.impl Witness.req) precompileDelegate) Witness.bad
      = (.failed "ErrDivisorIsZero", Witness.after) ∧
    Witness.after ≠ Witness.bad ∧
    ¬ Delegate.GoodRow (Delegate.plRow Witness.req Witness.bad) ∧
    (precompileCall (run (Delegate.impl Witness.req) precompileDelegate) Witness.good).1 = .ok ∧
    precompileCall (run (Delegate.impl { Witness.req with x := 6 }) precompileDelegate) Witness.good
      = (.failed "ErrDelegationAmountTooBig", Witness.good) := by
  refine ⟨by decide, by decide, ?_, by decide, by decide⟩
  intro h
  have := h.2.2 rfl
  revert this
  decide

namespace Witness
open ExoVerif.Ledger

def g0 : L :=
  { height := 1, unbonding := 2, totals := [("a", 0)], operators := ["o1", "o2"], clientChains := ["0x65"],
    stakers := [], pools := [], deleg := [], slist := [], assoc := [], recs := [], sidx := [], pidx := [],
    holds := [], bal := [], escrow := 0, gDep := [], gWd := [], gSlashed := [] }

/-- deposit 100, delegate 70, the operator is slashed by 100 % (pool and shares wiped), delegate 10 -/
def hist : List LOp :=
  [.deposit "s_0x65" "a" 100, .delegate "s_0x65" "a" "o1" 70, .slash "o1" 1 ⟨1000000000000000000⟩,
   .delegate "s_0x65" "a" "o1" 10]

def rq (x : Int) : Delegate.Req :=
  { gatewayOk := true, parseOk := true, frozen := false, st := "s_0x65", a := "a", o := "o1", x := x }

theorem g0_genesis : Reach.Genesis g0 :=
  ⟨⟨rfl, rfl, rfl, rfl, rfl, rfl, by decide, by decide, by decide, rfl, rfl, rfl⟩, rfl, rfl⟩

theorem hist_ok : AllOk0 g0 hist :=
  ⟨trivial, trivial, (by show UnitP _; unfold UnitP; decide), trivial, trivial⟩

end Witness

open ExoVerif.Ledger in
/-- non-vacuity of `C09_delegate_fail_atomic_reachable`: a genesis ledger and a history through a pool slashed
to zero meet its hypotheses; in the reached state (pool re-opened at one share per token, 20 withdrawable) a
request for 25 is refused and — by the theorem as well as by evaluation — leaves the state, while a request
for 5 is accepted and agrees with the ledger model -/
theorem C09_delegate_reachable_witness :
    Reach.Genesis Witness.g0 ∧ AllOk0 Witness.g0 Witness.hist ∧
    find? (Witness.hist.foldl lstep Witness.g0).pools ("o1", "a") = some ⟨10, 0, ⟨10000000000000000000⟩, ⟨0⟩⟩ ∧
    precompileCall (run (Delegate.impl (Witness.rq 25)) precompileDelegate) (Witness.hist.foldl lstep Witness.g0)
      = (.failed "ErrDelegationAmountTooBig", Witness.hist.foldl lstep Witness.g0) ∧
    (precompileCall (run (Delegate.impl (Witness.rq 5)) precompileDelegate) (Witness.hist.foldl lstep Witness.g0)).2
      = lstep (Witness.hist.foldl lstep Witness.g0) (.delegate "s_0x65" "a" "o1" 5) := by
  refine ⟨Witness.g0_genesis, Witness.hist_ok, by decide, by decide, by decide⟩

/-! ## opt-in / opt-out -/

/-- opt-in through the AVS precompile, value level, **every state**: once IsAVS has found the AVS and the
operator address has been decoded, GetAVSSlashContract (same store key) and SetOptedInfo (re-decoding of the
canonical rendering) cannot fail, so a reported failure has written nothing -/
theorem C09_precompileOptIn_fail_atomic_values (r : Opt.Req) (s : Opt.St) (hb : Opt.Bech32RoundTrip r)
    (h : (precompileCall (run (Opt.impl r) precompileOptIn) s).1.isFailure = true) :
    (precompileCall (run (Opt.impl r) precompileOptIn) s).2 = s :=
  C09_precompile_of_run _ s (fun e he => Opt.optIn_fail_atomic r s hb e he) h

/-- opt-out through the AVS precompile, value level, **every state**: once IsActive has read the opted record,
HandleOptedInfo (same key, re-decoding of the canonical rendering) cannot fail -/
theorem C09_precompileOptOut_fail_atomic_values (r : Opt.Req) (s : Opt.St) (hb : Opt.Bech32RoundTrip r)
    (h : (precompileCall (run (Opt.impl r) precompileOptOut) s).1.isFailure = true) :
    (precompileCall (run (Opt.impl r) precompileOptOut) s).2 = s :=
  C09_precompile_of_run _ s (fun e he => Opt.optOut_fail_atomic r s hb e he) h

namespace Witness

def ost : Opt.St :=
  { height := 7, operators := ["exo1op"], avss := [("aa", "slashc")],
    opted := [], usd := [], removal := [] }

def oreq : Opt.Req :=
  { argsOk := true, opStr := "exo1op", opValid := true, op := "exo1op", opCanonValid := true, avs := "0xAA", avsKey := "aa",
    selfUSD := some 5000000000000000000, minSelf := 1000000000000000000, frozen := false, chainId := none }

end Witness

/-- non-vacuity and the role of the codec assumption: a qualified operator opts in (two writes), opting in
again is refused clean, opting out succeeds, opting out again is refused clean; and with a codec that
refuses its own rendering (`opCanonValid = false`: excluded by `Bech32RoundTrip`) the opt-in would return
`false` with the USD-value record already created -/
theorem C09_opt_witness :
    (precompileCall (run (Opt.impl Witness.oreq) precompileOptIn) Witness.ost).1 = .ok ∧
    (let s1 := (precompileCall (run (Opt.impl Witness.oreq) precompileOptIn) Witness.ost).2
     precompileCall (run (Opt.impl Witness.oreq) precompileOptIn) s1 = (.failed "ErrAlreadyOptedIn", s1) ∧
     (precompileCall (run (Opt.impl Witness.oreq) precompileOptOut) s1).1 = .ok ∧
     (let s2 := (precompileCall (run (Opt.impl Witness.oreq) precompileOptOut) s1).2
      precompileCall (run (Opt.impl Witness.oreq) precompileOptOut) s2 = (.failed "ErrNotOptedIn", s2))) ∧
    Opt.Bech32RoundTrip Witness.oreq ∧
    ¬ Opt.Bech32RoundTrip { Witness.oreq with opCanonValid := false } ∧
    precompileCall (run (Opt.impl { Witness.oreq with opCanonValid := false }) precompileOptIn) Witness.ost
      = (.failed "ErrInvalidOperatorAddr", { Witness.ost with usd := [(("0xAA", "exo1op"), ())] }) := by
  refine ⟨by decide, ⟨by decide, by decide, by decide⟩, fun _ => rfl, ?_, by decide⟩
  intro h
  have := h rfl
  cases this

/-! ## createTask -/

/-- createTask through the AVS precompile, value level, **every state**: the two checks after the task-id
counter was bumped test the request only; for a task address that is the rendering of a 20-byte address
(`contract.CallerAddress.String()`, tie `C09_tie_createTask_request_sources`) and event arguments of the
ABI's types (tie `C09_tie_createTask_event_types`) they pass -/
theorem C09_precompileCreateTask_fail_atomic_values (r : Task.Req) (s : Task.St)
    (hhex : Task.isHexAddress r.taskAddr = true) (hpack : r.packOk = true)
    (h : (precompileCall (run (Task.impl r) precompileCreateTask) s).1.isFailure = true) :
    (precompileCall (run (Task.impl r) precompileCreateTask) s).2 = s :=
  C09_precompile_of_run _ s (fun e he => Task.fail_atomic r s hhex hpack e he) h

namespace Witness

def taddr : String := "0x3e108c058e8066DA635321Dc3018294cA82ddEdf"

def tst : Task.St :=
  { avss := [("avs1", ⟨"avs1", taddr, ["exo1owner"], "day"⟩)], epochs := [("day", 4)], latest := [], tasks := [], logs := [] }

def treq : Task.Req :=
  { parseOk := true, taskAddr := taddr, caller := "exo1owner", name := "t", givenId := 0, powerOk := true, optInOk := true,
    packOk := true }

end Witness

/-- non-vacuity: an owner's request creates task 1; a non-owner and an AVS without voting power are refused
with the counter untouched; a task address that is not a hex address (impossible through the precompile)
would be refused *after* the counter was bumped -/
theorem C09_createTask_witness :
    Task.isHexAddress Witness.taddr = true ∧
    precompileCall (run (Task.impl Witness.treq) precompileCreateTask) Witness.tst
      = (.ok, { Witness.tst with latest := [(Witness.taddr, 1)], tasks := [((Witness.taddr, 1), "t")] }) ∧
    precompileCall (run (Task.impl { Witness.treq with caller := "exo1other" }) precompileCreateTask) Witness.tst
      = (.failed "ErrCallerAddressUnauthorized", Witness.tst) ∧
    precompileCall (run (Task.impl { Witness.treq with powerOk := false }) precompileCreateTask) Witness.tst
      = (.failed "ErrVotingPowerIncorrect", Witness.tst) ∧
    (let bad : Task.St := { Witness.tst with avss := [("avs1", ⟨"avs1", "task", ["exo1owner"], "day"⟩)] }
     precompileCall (run (Task.impl { Witness.treq with taskAddr := "task" }) precompileCreateTask) bad
      = (.failed "ErrInvalidAddr", { bad with latest := [("task", 1)] })) := by
  refine ⟨by decide, by decide, by decide, by decide, by decide⟩

/-! ## second sentence of C09: one failing item of block-begin/end processing

"A failure while processing one item (one undelegation, one AVS's voting-power update, one slash, one task
statistic) leaves no partial effect of that item and does not stop the others."  `C09_item_fail_isolated`
states it for a loop that wraps each item in a cache context; of the four named loops only the matured
undelegations have one, *inside* the item; the other three run the item on the block's context and log its
error, so isolation rests on the item being fail-atomic itself.  `runItemsPlain` is that loop; the shape of
each Go loop (error ⇒ `continue`, no return / break / panic inside) is tied in `Props/C09ValuesTie.lean`. -/

open Items in
/-- a failing item that is fail-atomic by its own shape is isolated in a loop without a cache context -/
theorem C09_item_fail_isolated_plain {σ : Type} (I : Impl σ) (p : Prog) (hp : atomicShape p = true)
    (pre post : List (Eff σ Unit)) (s : σ) (e : Err) (h : (run I p (runItemsPlain pre s)).1 = .error e) :
    runItemsPlain (pre ++ run I p :: post) s = runItemsPlain (pre ++ post) s :=
  fail_isolated_plain pre post (run I p) s (fun t e' he => run_fail_atomic I p t hp e' he) e h

open Items in
/-- one matured undelegation (x/delegation EndBlock): the record's cache context isolates it -/
theorem C09_undelegation_item_isolated {σ : Type} (I : Impl σ) (pre post : List (Eff σ Unit)) (s : σ) (e : Err)
    (h : (run I endBlockRecord (runItemsPlain pre s)).1 = .error e) :
    runItemsPlain (pre ++ run I endBlockRecord :: post) s = runItemsPlain (pre ++ post) s :=
  C09_item_fail_isolated_plain I endBlockRecord (by decide) pre post s e h

open Items in
/-- one AVS's voting-power update (x/operator AfterEpochEnd → UpdateVotingPower, main branch) -/
theorem C09_votingPower_item_isolated {σ : Type} (I : Impl σ) (pre post : List (Eff σ Unit)) (s : σ) (e : Err)
    (h : (run I updateVotingPower (runItemsPlain pre s)).1 = .error e) :
    runItemsPlain (pre ++ run I updateVotingPower :: post) s = runItemsPlain (pre ++ post) s :=
  C09_item_fail_isolated_plain I updateVotingPower (by decide) pre post s e h

open Items in
/-- … and its "no assets" branch (not atomic by shape: it deletes before its last check) cannot fail, because
neither of its two callees has an error path -/
theorem C09_votingPower_noAssets_never_fails {σ : Type} (I : Impl σ) (hI : NoAssetsInfallible I) (s : σ) :
    (blockHook (run I updateVotingPowerNoAssets) s).1 = .ok := by
  unfold blockHook
  have := noAssets_never_fails I hI s
  cases hr : run I updateVotingPowerNoAssets s with
  | mk r s' => rw [hr] at this; simp only at this; subst this; rfl

open Items in
/-- one slash (x/operator Slash, reached from the SDK's evidence / slashing BeginBlockers through
SlashWithInfractionReason, which logs the error and returns a value) -/
theorem C09_slash_item_isolated {σ : Type} (I : Impl σ) (pre post : List (Eff σ Unit)) (s : σ) (e : Err)
    (h : (run I slash (runItemsPlain pre s)).1 = .error e) :
    runItemsPlain (pre ++ run I slash :: post) s = runItemsPlain (pre ++ post) s :=
  C09_item_fail_isolated_plain I slash (by decide) pre post s e h

open Items in
/-- one task statistic (x/avs AfterEpochEnd, one group of results): its only write is the last step -/
theorem C09_taskStatistic_item_isolated {σ : Type} (I : Impl σ) (pre post : List (Eff σ Unit)) (s : σ) (e : Err)
    (h : (run I taskStatisticItem (runItemsPlain pre s)).1 = .error e) :
    runItemsPlain (pre ++ run I taskStatisticItem :: post) s = runItemsPlain (pre ++ post) s :=
  C09_item_fail_isolated_plain I taskStatisticItem (by decide) pre post s e h

open Items in
/-- non-vacuity: three items, the middle one fails at its last check — the result is that of the other two;
without the item's own atomicity (a write before the failing check, no cache context) the loop keeps the
partial effect: the hypothesis `atomicShape` is what isolates -/
theorem C09_items_witness :
    runItemsPlain [run (counting []) endBlockRecord, run (counting ["DeleteUndelegationRecord"]) endBlockRecord,
      run (counting []) endBlockRecord] 0 = 8 ∧
    runItemsPlain [run (counting []) taskStatisticItem, run (counting ["IsHexAddress(task)"]) taskStatisticItem,
      run (counting []) taskStatisticItem] 0 = 2 ∧
    runItemsPlain [run (counting []) slash, run (counting ["Has(slashInfoKey)"]) slash] 0 = 2 ∧
    runItemsPlain [run (counting []) slashPreFix, run (counting ["Has(slashInfoKey)"]) slashPreFix] 0 = 3 := by
  refine ⟨by decide, by decide, by decide, by decide⟩

end ExoVerif.Atomic
