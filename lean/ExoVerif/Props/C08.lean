import ExoVerif.Proofs.Determinism
/-!
# C08 — determinism: the result of every Go-map loop in consensus code is schedule independent

`Det.rangeLoop body order s` is the loop `for k := range m { s = body s k }` executed under the
iteration order `order`. For every loop shape occurring at the sites of `Gen.mapRangeSites` the
theorems below show `order₁ ~ order₂ → result₁ = result₂` (or, where the loop produces a slice that
is sorted / consumed key-wise afterwards, equality after that consumption). `siteShapes` assigns
each site its shape; `Props/C08Tie.lean` proves that the regenerated site list is covered.
Not carried by a theorem (sampled by the multi-process run only): scheduler, GC, cgo, and the
internals of Cosmos-SDK, IAVL, CometBFT, go-ethereum/evmos.
-/
namespace ExoVerif.Det

/-- shape A -/
theorem C08_sum_order_independent {κ : Type} (g : κ → Int) {o₁ o₂ : List κ} (h : o₁.Perm o₂) (s : Int) :
    rangeLoop (sumBody g) o₁ s = rangeLoop (sumBody g) o₂ s := rangeLoop_perm (sumBody_comm g) h s

theorem C08_sum2_order_independent {κ : Type} (g k : κ → Int) {o₁ o₂ : List κ} (h : o₁.Perm o₂) (s : Int × Int) :
    rangeLoop (sum2Body g k) o₁ s = rangeLoop (sum2Body g k) o₂ s := rangeLoop_perm (sum2Body_comm g k) h s

/-- shape B: writes keyed by the loop key, value a function of the key -/
theorem C08_write_order_independent {κ α : Type} [DecidableEq κ] (v : κ → α) {o₁ o₂ : List κ} (h : o₁.Perm o₂)
    (m : GoMap κ α) : rangeLoop (writeBody v) o₁ m = rangeLoop (writeBody v) o₂ m :=
  rangeLoop_perm (writeBody_comm v) h m

/-- shape D: "some key failed" -/
theorem C08_any_order_independent {κ : Type} (bad : κ → Bool) {o₁ o₂ : List κ} (h : o₁.Perm o₂) (s : Bool) :
    rangeLoop (anyBody bad) o₁ s = rangeLoop (anyBody bad) o₂ s := rangeLoop_perm (anyBody_comm bad) h s

/-- shape E: latest key below a bound, with its payload (recacheAggregatorContext) -/
theorem C08_max_order_independent {π : Type} (payload : Int → π) (bound : Int) {o₁ o₂ : List Int} (h : o₁.Perm o₂)
    (s : Int × π) : rangeLoop (maxBody payload bound) o₁ s = rangeLoop (maxBody payload bound) o₂ s :=
  rangeLoop_perm (maxBody_comm payload bound) h s

/-- shape C: a slice collected in iteration order and then sorted. For any `sort` that returns a
sorted permutation of its input (Go's sort.Slice / sort.Strings / sort.SliceStable) under an order that
is antisymmetric on the collected elements (distinct keys), the sorted slice is schedule independent. -/
theorem C08_collect_sort_order_independent {κ β : Type} (g : κ → β) (le : β → β → Prop)
    (sort : List β → List β) (hperm : ∀ l, (sort l).Perm l) (hsorted : ∀ l, (sort l).Pairwise le)
    (hanti : ∀ a b, le a b → le b a → a = b)
    {o₁ o₂ : List κ} (h : o₁.Perm o₂) : sort (collect g o₁) = sort (collect g o₂) := by
  have hp : (sort (collect g o₁)).Perm (sort (collect g o₂)) :=
    (hperm _).trans ((h.map g).trans (hperm _).symm)
  exact List.Perm.eq_of_pairwise (fun a b _ _ => hanti a b) (hsorted _) (hsorted _) hp

/-- shape C′: a slice collected in iteration order, reordered by a sort whose comparator has ties
(x/feedistribution AllocateTokensToStakers: `sort.Slice` by power, equal powers keep whatever order the
AVS's asset map produced) and then consumed key-wise with a value that depends only on the key (each
staker's reward is `reward·power/total`, the community pool gets `reward − Σ`): nothing but the *set* of
elements is observable. `sort` is any function returning a permutation of its input. A consumer that
treats a position specially (say, gives the last element the rounding dust) is outside this shape; the
regenerated fact `positionDependentUses` (empty, `C08_no_position_dependent_use`) excludes it. -/
theorem C08_collect_keywise_order_independent {κ α : Type} [DecidableEq κ] (v : κ → α)
    (sort : List κ → List κ) (hperm : ∀ l, (sort l).Perm l)
    {o₁ o₂ : List κ} (h : o₁.Perm o₂) (m : GoMap κ α) :
    rangeLoop (writeBody v) (sort o₁) m = rangeLoop (writeBody v) (sort o₂) m :=
  C08_write_order_independent v ((hperm o₁).trans (h.trans (hperm o₂).symm)) m

/-- … and the amount left for the community pool (a sum over the same elements) as well -/
theorem C08_collect_keywise_remainder_order_independent {κ : Type} (g : κ → Int)
    (sort : List κ → List κ) (hperm : ∀ l, (sort l).Perm l)
    {o₁ o₂ : List κ} (h : o₁.Perm o₂) (s : Int) :
    rangeLoop (sumBody g) (sort o₁) s = rangeLoop (sumBody g) (sort o₂) s :=
  C08_sum_order_independent g ((hperm o₁).trans (h.trans (hperm o₂).symm)) s

/-- what the excluded consumer would do: with two elements and "the last one gets the rest", the two
orders give different results -/
theorem C08_last_gets_dust_is_order_dependent :
    ∃ (o₁ o₂ : List Nat), o₁.Perm o₂ ∧
      (o₁.getLast? : Option Nat) ≠ o₂.getLast? :=
  ⟨[1, 2], [2, 1], List.Perm.swap 2 1 [], by decide⟩

/-- shape F (SealRound): the set of closed rounds is schedule independent … -/
theorem C08_seal_status_order_independent {κ : Type} [DecidableEq κ] (mustSeal : κ → Bool)
    {o₁ o₂ : List κ} (h : o₁.Perm o₂) (m : GoMap κ Bool) :
    rangeLoop (fun m k => if mustSeal k then m.set k true else m) o₁ m =
    rangeLoop (fun m k => if mustSeal k then m.set k true else m) o₂ m := by
  apply rangeLoop_perm _ h
  intro s a b
  cases ha : mustSeal a <;> cases hb : mustSeal b <;> simp only [Bool.false_eq_true, if_false, if_true]
  exact writeBody_comm (fun _ => true) s a b

/-- … and the `failed` / `sealed` slices are permutations of each other, which is all their
consumers (key-wise writes, shape B) can observe. -/
theorem C08_seal_lists_perm {κ : Type} (mustSeal : κ → Bool) {o₁ o₂ : List κ} (h : o₁.Perm o₂) :
    (o₁.filter mustSeal).Perm (o₂.filter mustSeal) := h.filter _

/-- consuming a slice key-wise (RemoveNonce… / GrowRoundID per element) forgets its order -/
theorem C08_keywise_consumer_order_independent {κ α : Type} [DecidableEq κ] (v : κ → α) (mustSeal : κ → Bool)
    {o₁ o₂ : List κ} (h : o₁.Perm o₂) (m : GoMap κ α) :
    rangeLoop (writeBody v) (o₁.filter mustSeal) m = rangeLoop (writeBody v) (o₂.filter mustSeal) m :=
  C08_write_order_independent v (C08_seal_lists_perm mustSeal h) m

/-! ## CheckTx / simulation isolation (F-08a, fixed in the repository) -/

/-- The full statement: whatever oracle handlers a node executes on the check state (any number of
simulated UpdateParams / RegisterNewTokenAndSetTokenFeeder / CreatePrice calls, in any order, with any
arguments), the node's next EndBlock commits exactly what it would have committed without them, and
leaves the same pending cache. -/
def C08_full : Prop :=
  ∀ (calls : List CheckCall) (n : Node),
    (endBlock (calls.foldl (fun m c => c.run true m) n)).consensusView = (endBlock n).consensusView

theorem checkCall_consensusView (c : CheckCall) (n : Node) : (c.run true n).consensusView = n.consensusView := by
  cases c with
  | updateParams p => simp [CheckCall.run, updateParamsHandler]
  | registerToken p => simp [CheckCall.run, registerTokenHandler]
  | createPrice f fd it =>
    cases f <;> simp [CheckCall.run, createPriceHandler, Node.consensusView]

theorem endBlock_consensusView (a b : Node) (h : a.consensusView = b.consensusView) :
    (endBlock a).consensusView = (endBlock b).consensusView := by
  simp only [Node.consensusView, Prod.mk.injEq] at h
  obtain ⟨h1, h2, h3, h4⟩ := h
  simp [endBlock, Node.consensusView, h1, h2, h3, h4]

/-- CheckTx isolation holds for the oracle handlers as they are (all three guard their cache writes
with `!ctx.IsCheckTx()`; tied to the source by `C08_unguarded_cache_writers`). -/
theorem C08_checktx_does_not_touch_deliver_state : C08_full := by
  intro calls n
  apply endBlock_consensusView
  induction calls generalizing n with
  | nil => rfl
  | cons c rest ih =>
    simp only [List.foldl_cons]
    rw [ih (c.run true n), checkCall_consensusView]

/-- The guard is what the theorem rests on: the pre-fix UpdateParams (AddCache in every mode) makes a
simulated tx change the next commit (this is the history the harness keeps replaying as a regression,
sig `simulate-changes-apphash:oracle-update-params`). -/
theorem C08_guard_is_necessary :
    ∃ p n, (endBlock (updateParamsUnguarded true p n)).store ≠ (endBlock n).store :=
  ⟨7, { store := 1, cacheParams := 0, cacheDirty := false, cacheMsgs := [], updatedFeeders := [] }, by decide⟩

/-- in deliver mode the handlers do reach the store at EndBlock (the statement is not vacuous) -/
example : (endBlock (updateParamsHandler false 7 { store := 1, cacheParams := 0, cacheDirty := false, cacheMsgs := [], updatedFeeders := [] })).store = 38 := by
  decide
example : (endBlock (createPriceHandler false false 2 5 { store := 1, cacheParams := 0, cacheDirty := false, cacheMsgs := [], updatedFeeders := [] })).store = 38 := by
  decide

/-! ## order-carrying results: map order that leaves the function

`Gen.orderCarryingResults` lists every slice that is built inside a map range, with its fate; the ones
with fate `returned` hand the map's iteration order to their callers (`Gen.orderCarryingConsumers`).
Each is paired here with the reason no consumer can observe the order. -/

/-- order-preserving removals commute … -/
theorem C08_splice_removals_commute (l : List Nat) (a b : Nat) :
    spliceRemove (spliceRemove l a) b = spliceRemove (spliceRemove l b) a := by
  unfold spliceRemove; exact List.erase_comm a b

/-- … so removing the `sealed` feeders from a validator's nonce list gives the same list (same bytes in the
store) whatever order SealRound's map range produced them in -/
theorem C08_sealed_consumer_order_independent {s₁ s₂ : List Nat} (h : s₁.Perm s₂) (l : List Nat) :
    removeSealed spliceRemove s₁ l = removeSealed spliceRemove s₂ l :=
  foldl_perm (fun l a b => C08_splice_removals_commute l a b) h l

/-- swap-with-last removals do not commute: from [1,4,2,3], removing 1 then 4 leaves [3,2], removing 4
then 1 leaves [2,3] — this is why `sliceRemovalShapes` must stay `splice` for the nonce list -/
theorem C08_swap_removals_do_not_commute :
    removeSealed swapRemove [1, 4] [1, 4, 2, 3] = [3, 2] ∧ removeSealed swapRemove [4, 1] [1, 4, 2, 3] = [2, 3] := by
  decide

def orderReview : List (String × String) := [
  ("x/avs/types/types.go:Difference:diffMap|different|returned-after-sort", "sorted before it leaves / before any order-sensitive use (shape C / C′)"),
  ("x/evm/keeper/precompiles.go:Keeper.GetAvailablePrecompileAddrs:k.precompiles|addresses|returned-after-sort", "sorted before it leaves / before any order-sensitive use (shape C / C′)"),
  ("x/feedistribution/keeper/allocation.go:Keeper.AllocateTokensToStakers:avsAssets|globalStakerAddressList|sorted-locally", "sorted before it leaves / before any order-sensitive use (shape C / C′)"),
  ("x/oracle/keeper/aggregator/aggregator.go:reportPrice.aggregate:r.prices|tmp|local", "local: only its elements are summed / compared (shape A)"),
  ("x/oracle/keeper/aggregator/context.go:AggregatorContext.GetValidators:agc.validatorsPower|validators|returned", "returned in map order; every consumer loops over it doing one store write per validator under that validator's own key (shape B: C08_keywise_consumer_order_independent)"),
  ("x/oracle/keeper/aggregator/context.go:AggregatorContext.SealRound:agc.rounds|failed|returned", "returned in map order; the EndBlocker calls GrowRoundID once per element, a write under that token's own key (shape B)"),
  ("x/oracle/keeper/aggregator/context.go:AggregatorContext.SealRound:agc.rounds|sealed|returned", "returned in map order; the EndBlocker removes, per element, that feeder's item from every validator's nonce list with an order-preserving splice: such removals commute (C08_sealed_consumer_order_independent)")]

/-! ## loop-carried state of the map ranges

`Gen.mapRangeCarriedState` lists, for every `range` over a map, the variables declared outside the loop
that its body assigns. Everything a schedule can influence flows through these; each entry is paired
here with the reason it is order independent (the shape theorem it instantiates). A variable hoisted
out of a loop, or a conditional first-writer-wins assignment (`if x == "" { x = … }`), adds a plain
`assign` entry and breaks `C08_loop_carried_state_reviewed` until it is justified. -/
def carriedReview : List (String × String) := [
  ("x/assets/keeper/client_chain_asset.go:Keeper.GetAssetsDecimal:assets|decimals|index", "write keyed by the loop key (shape B)"),
  ("x/assets/keeper/staker_asset.go:Keeper.GetStakerSpecifiedAssetInfo:delegationInfoRecords.DelegationInfos|info|sum", "accumulating sum (shape A)"),
  ("x/avs/keeper/task.go:Keeper.GroupTasksByIDAndAddress:taskMap|taskMap|index", "write keyed by the loop key (shape B)"),
  ("x/avs/types/types.go:Difference:diffMap|different|append", "collected slice, sorted or consumed key-wise afterwards (shape C / C′ / F)"),
  ("x/evm/keeper/precompiles.go:Keeper.GetAvailablePrecompileAddrs:k.precompiles|addresses|index", "write keyed by the loop key (shape B)"),
  ("x/evm/keeper/precompiles.go:Keeper.GetAvailablePrecompileAddrs:k.precompiles|i|incdec", "slot counter of a collected slice that is sorted afterwards (shape C)"),
  ("x/feedistribution/keeper/allocation.go:Keeper.AllocateTokensToStakers:avsAssets|curTotalStakersPowers|sum", "accumulating sum (shape A)"),
  ("x/feedistribution/keeper/allocation.go:Keeper.AllocateTokensToStakers:avsAssets|globalStakerAddressList|append", "collected slice, sorted or consumed key-wise afterwards (shape C / C′ / F)"),
  ("x/feedistribution/keeper/allocation.go:Keeper.AllocateTokensToStakers:avsAssets|stakersPowerMap|index", "write keyed by the loop key (shape B)"),
  ("x/operator/types/expected_keepers.go:MockOracle.GetMultipleAssetsPrices:assets|ret|index", "write keyed by the loop key (shape B)"),
  ("x/oracle/keeper/aggregator/aggregator.go:aggregator.copy4CheckTx:agg.dsPrices|ret|index", "write keyed by the loop key (shape B)"),
  ("x/oracle/keeper/aggregator/aggregator.go:aggregator.copy4CheckTx:report.prices|rTmp|index", "write keyed by the loop key (shape B)"),
  ("x/oracle/keeper/aggregator/aggregator.go:reportPrice.aggregate:r.prices|tmp|append", "collected slice, sorted or consumed key-wise afterwards (shape C / C′ / F)"),
  ("x/oracle/keeper/aggregator/calculator.go:calculator.copy4CheckTx:c.deterministicSource|ret|index", "write keyed by the loop key (shape B)"),
  ("x/oracle/keeper/aggregator/context.go:AggregatorContext.Copy4CheckTx:agc.rounds|ret|index", "write keyed by the loop key (shape B)"),
  ("x/oracle/keeper/aggregator/context.go:AggregatorContext.GetValidators:agc.validatorsPower|validators|append", "collected slice, sorted or consumed key-wise afterwards (shape C / C′ / F)"),
  ("x/oracle/keeper/aggregator/context.go:AggregatorContext.SealRound:agc.rounds|agc|delete", "delete keyed by the loop key (shape B)"),
  ("x/oracle/keeper/aggregator/context.go:AggregatorContext.SealRound:agc.rounds|failed|append", "collected slice, sorted or consumed key-wise afterwards (shape C / C′ / F)"),
  ("x/oracle/keeper/aggregator/context.go:AggregatorContext.SealRound:agc.rounds|sealed|append", "collected slice, sorted or consumed key-wise afterwards (shape C / C′ / F)"),
  ("x/oracle/keeper/aggregator/context.go:AggregatorContext.SetValidatorPowers:vp|agc|field", "per-key write into agc.validatorsPower and total power sum (shapes B, A)"),
  ("x/oracle/keeper/aggregator/context.go:AggregatorContext.SetValidatorPowers:vp|agc|index", "per-key write into agc.validatorsPower and total power sum (shapes B, A)"),
  ("x/oracle/keeper/aggregator/filter.go:filter.copy4CheckTx:f.validatorNonce|ret|index", "write keyed by the loop key (shape B)"),
  ("x/oracle/keeper/aggregator/filter.go:filter.copy4CheckTx:f.validatorSource|ret|index", "write keyed by the loop key (shape B)"),
  ("x/oracle/keeper/cache/caches.go:Cache.GetCache:c.validators.validators|item|index", "write keyed by the loop key (shape B)"),
  ("x/oracle/keeper/cache/caches.go:cacheValidator.add:validators|c|delete", "delete keyed by the loop key (shape B)"),
  ("x/oracle/keeper/cache/caches.go:cacheValidator.add:validators|c|field", "sticky update flag (only ever set to true) and per-key power (shape B)"),
  ("x/oracle/keeper/cache/caches.go:cacheValidator.add:validators|c|index", "write keyed by the loop key (shape B)"),
  ("x/oracle/keeper/prices.go:Keeper.GetMultipleAssetsPrices:assets|err|assign", "first-error flag: callers only test err != nil / its sentinel (shape D)"),
  ("x/oracle/keeper/prices.go:Keeper.GetMultipleAssetsPrices:assets|info|op+", "text of the error message only (asset ids in iteration order); never reaches state, a result code or gas"),
  ("x/oracle/keeper/prices.go:Keeper.GetMultipleAssetsPrices:assets|prices|assign", "result map set to nil on the first error (shape D); otherwise keyed writes (shape B)"),
  ("x/oracle/keeper/prices.go:Keeper.GetMultipleAssetsPrices:assets|prices|index", "result map set to nil on the first error (shape D); otherwise keyed writes (shape B)"),
  ("x/oracle/keeper/single.go:recacheAggregatorContext:recentParamsMap#2|prev|assign", "running maximum of the keys (shape E)"),
  ("x/oracle/keeper/single.go:recacheAggregatorContext:recentParamsMap#2|recentParamsMap|delete", "delete keyed by the loop key (shape B)"),
  ("x/oracle/keeper/single.go:recacheAggregatorContext:recentParamsMap#3|prev|assign", "running maximum of the keys (shape E)"),
  ("x/oracle/keeper/single.go:recacheAggregatorContext:recentParamsMap|prev|assign", "running maximum of the keys (shape E)")]

/-! ## site ↔ shape table -/

/-- every registered map-range site with the shape of its loop body -/
def siteShapes : List (String × String) := [  ("x/assets/keeper/client_chain_asset.go:Keeper.GetAssetsDecimal:assets", "any+write"),
  ("x/assets/keeper/staker_asset.go:Keeper.GetStakerSpecifiedAssetInfo:delegationInfoRecords.DelegationInfos", "sum2"),
  ("x/avs/keeper/impl_epoch_hook.go:EpochsHooksWrapper.AfterEpochEnd:groupedTasks", "write"),
  ("x/avs/keeper/task.go:Keeper.GroupTasksByIDAndAddress:taskMap", "write+sort"),
  ("x/avs/types/types.go:Difference:diffMap", "write"),
  ("x/evm/keeper/precompiles.go:Keeper.GetAvailablePrecompileAddrs:k.precompiles", "collect+sort"),
  ("x/feedistribution/keeper/allocation.go:Keeper.AllocateTokensToStakers:avsAssets", "collect+keywise"),
  ("x/operator/types/expected_keepers.go:MockOracle.GetMultipleAssetsPrices:assets", "any+write"),
  ("x/oracle/keeper/aggregator/aggregator.go:aggregator.copy4CheckTx:agg.dsPrices", "write"),
  ("x/oracle/keeper/aggregator/aggregator.go:aggregator.copy4CheckTx:report.prices", "write"),
  ("x/oracle/keeper/aggregator/aggregator.go:reportPrice.aggregate:r.prices", "sum"),
  ("x/oracle/keeper/aggregator/calculator.go:calculator.copy4CheckTx:c.deterministicSource", "write"),
  ("x/oracle/keeper/aggregator/context.go:AggregatorContext.Copy4CheckTx:agc.aggregators", "write"),
  ("x/oracle/keeper/aggregator/context.go:AggregatorContext.Copy4CheckTx:agc.rounds", "write"),
  ("x/oracle/keeper/aggregator/context.go:AggregatorContext.GetValidators:agc.validatorsPower", "collect+sort"),
  ("x/oracle/keeper/aggregator/context.go:AggregatorContext.SealRound:agc.rounds", "seal"),
  ("x/oracle/keeper/aggregator/context.go:AggregatorContext.SetValidatorPowers:vp", "write"),
  ("x/oracle/keeper/aggregator/filter.go:filter.copy4CheckTx:f.validatorNonce", "write"),
  ("x/oracle/keeper/aggregator/filter.go:filter.copy4CheckTx:f.validatorSource", "write"),
  ("x/oracle/keeper/cache/caches.go:Cache.GetCache:c.validators.validators", "write"),
  ("x/oracle/keeper/cache/caches.go:cacheValidator.add:validators", "write"),
  ("x/oracle/keeper/prices.go:Keeper.GetMultipleAssetsPrices:assets", "any+write"),
  ("x/oracle/keeper/single.go:recacheAggregatorContext:recentParamsMap", "max"),
  ("x/oracle/keeper/single.go:recacheAggregatorContext:recentParamsMap#2", "max"),
  ("x/oracle/keeper/single.go:recacheAggregatorContext:recentParamsMap#3", "max")]

def registered : List String := siteShapes.map (·.1)

/-- the shapes that have an order-independence theorem above -/
def provedShapes : List String := ["sum", "sum2", "write", "any+write", "write+sort", "collect+sort", "collect+keywise", "max", "seal"]

theorem C08_every_registered_site_has_a_proved_shape : siteShapes.all (fun p => provedShapes.contains p.2) = true := by
  decide

/-- `range` operands the syntactic typer could not decide, each checked by hand to be a slice -/
def reviewedNonMap : List String := [
  "app/ante/cosmos/fees.go:checkFeeCoinsAgainstMinGasPrices:minGasPrices",
  "app/ante/cosmos/reject_msgs.go:RejectMessagesDecorator.AnteHandle:tx.GetMsgs()",
  "app/ante/cosmos/sigverify.go:CountSubKeys:v.GetPubKeys()",
  "app/ante/cosmos/sigverify.go:IncrementSequenceDecorator.AnteHandle:sigTx.GetSigners()",
  "app/ante/cosmos/sigverify.go:IncrementSequenceDecorator.AnteHandle:tx.GetMsgs()",
  "app/ante/cosmos/sigverify.go:OnlyLegacyAminoSigners:v.Signatures",
  "app/ante/cosmos/sigverify.go:SetPubKeyDecorator.AnteHandle:pubKeys",
  "app/ante/cosmos/sigverify.go:SetPubKeyDecorator.AnteHandle:pubkeys",
  "app/ante/cosmos/sigverify.go:SetPubKeyDecorator.AnteHandle:sigs",
  "app/ante/cosmos/sigverify.go:SigGasConsumeDecorator.AnteHandle:sigs",
  "app/ante/cosmos/sigverify.go:SigVerificationDecorator.AnteHandle:sigs",
  "app/ante/cosmos/sigverify.go:SigVerificationDecorator.AnteHandle:sigs#2",
  "app/ante/cosmos/sigverify.go:ValidateSigCountDecorator.AnteHandle:pubKeys",
  "app/ante/cosmos/sigverify.go:signatureDataToBz:data.Signatures",
  "app/ante/cosmos/txsize_gas.go:ConsumeTxSizeGasDecorator.AnteHandle:sigTx.GetSigners()",
  "app/ante/cosmos/txsize_gas.go:isIncompleteSignature:data.Signatures",
  "app/ante/evm/eth.go:CanTransferDecorator.AnteHandle:tx.GetMsgs()",
  "app/ante/evm/eth.go:EthAccountVerificationDecorator.AnteHandle:tx.GetMsgs()",
  "app/ante/evm/eth.go:EthGasConsumeDecorator.AnteHandle:tx.GetMsgs()",
  "app/ante/evm/eth.go:EthIncrementSenderSequenceDecorator.AnteHandle:tx.GetMsgs()",
  "app/ante/evm/fee_checker.go:NewDynamicFeeChecker:hasExtOptsTx.GetExtensionOptions()",
  "app/ante/evm/fee_checker.go:checkTxFeeWithValidatorMinGasPrices:minGasPrices",
  "app/ante/evm/fees.go:EthMempoolFeeDecorator.AnteHandle:tx.GetMsgs()",
  "app/ante/evm/fees.go:EthMinGasPriceDecorator.AnteHandle:tx.GetMsgs()",
  "app/ante/evm/setup_ctx.go:EthEmitEventDecorator.AnteHandle:tx.GetMsgs()",
  "app/ante/evm/setup_ctx.go:EthValidateBasicDecorator.AnteHandle:protoTx.GetMsgs()",
  "app/ante/evm/sigverify.go:EthSigVerificationDecorator.AnteHandle:tx.GetMsgs()",
  "app/ante/utils/oracle.go:IsOracleCreatePriceTx:msgs",
  "x/assets/types/general.go:IsNST:addressBytes",
  "x/evm/genesis.go:InitGenesis:account.Storage",
  "x/evm/genesis.go:InitGenesis:data.Accounts",
  "x/evm/keeper/msg_server.go:Keeper.EthereumTx:response.Logs",
  "x/oracle/types/params.go:Params.GetTokenIDFromAssetID:assetIDs",
  "x/reward/keeper/claim_reward.go:Keeper.PostTxProcessing:needLogs",
  "x/reward/keeper/reward_record.go:rewardRecord.getRewards:p.Pool.Rewards"]

end ExoVerif.Det
