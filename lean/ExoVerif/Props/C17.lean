import ExoVerif.Proofs.Distribution
import ExoVerif.Props.C15
/-!
# C17 — Native supply and fee distribution are conserved

Stated for the executable model `ExoVerif.Distr` (Model/Distribution.lean), which mirrors
x/feedistribution/keeper/allocation.go + hooks.go and x/exomint/keeper/impl_epochs_hooks.go as they
are, composed with the epoch clock of C15. The model is replayed against the real application
(`./check C17`: every block's supply, module balances and every booked claim, line by line).

The unchanged code does NOT satisfy the property's central clause ("the booked claims add up to
exactly the amount moved … and never exceed the distribution account's balance"):
`AllocateTokensToStakers` books the stakers' rewards AND adds the whole `rewardToAllStakers` to the
community pool (finding F-17a), and the per-occurrence staker loop can overdraw `remaining`, which
panics inside BeginBlock (finding F-17b). The full statements are kept as `C17_full`,
`C17_solvency_full`, `C17_no_halt_full` with machine-checked counter-examples; what does hold is
proved as `…_partial`, and the full statement is proved for the one-line repair (`…_fixed`).
-/
namespace ExoVerif.Distr
open ExoVerif ExoVerif.KV ExoVerif.Epochs

/-! ## AllocateTokens: what moves, and how it is booked -/

/-- The whole fee-collector balance moves to the distribution account; supply and the mint
account are untouched. -/
theorem C17_allocate_moves_all_fees (s : St) (total tax : Int) (vals : List ValIn) (s' : St)
    (h : allocateTokens s total tax vals = some s') :
    s'.fc = 0 ∧ s'.distr = s.distr + s.fc ∧ s'.supply = s.supply ∧ s'.mint = s.mint := by
  unfold allocateTokens allocateTokensWith at h
  simp only [] at h
  split at h
  · simp only [Option.some.injEq] at h; subst h; exact ⟨rfl, rfl, rfl, rfl⟩
  · split at h
    · cases h
    · simp only [Option.some.injEq] at h; subst h; exact ⟨rfl, rfl, rfl, rfl⟩

/-- Community pool + commissions grow by exactly the amount moved (in 10^-18 units): every
truncation remainder of the validator loop ends in the community pool. -/
theorem C17_community_commission_eq_moved (s : St) (total tax : Int) (vals : List ValIn) (s' : St)
    (h : allocateTokens s total tax vals = some s') :
    nonStaker s'.pool = nonStaker s.pool + s.fc * PREC := by
  unfold allocateTokens allocateTokensWith at h
  simp only [] at h
  split at h
  · simp only [Option.some.injEq] at h; subst h; simp only [nonStaker]; omega
  · split at h
    · cases h
    · rename_i p rem heq
      simp only [Option.some.injEq] at h; subst h
      obtain ⟨e1, _, _⟩ := valLoop_spec _ _ _ _ _ _ _ heq
      simp only [nonStaker] at e1 ⊢
      omega

/-- What the code really books: the claims grow by the amount moved PLUS everything credited to
stakers (F-17a, exact size of the excess). -/
theorem C17_claims_sum_eq_moved_partial (s : St) (total tax : Int) (vals : List ValIn) (s' : St)
    (h : allocateTokens s total tax vals = some s') :
    claims s'.pool = claims s.pool + s.fc * PREC + (bookSum s'.pool.rewards - bookSum s.pool.rewards) := by
  have e := C17_community_commission_eq_moved s total tax vals s' h
  simp only [nonStaker] at e
  simp only [claims]; omega

/-- the property's central clause, as stated -/
def C17_full : Prop :=
  ∀ (s : St) (total tax : Int) (vals : List ValIn) (s' : St),
    allocateTokens s total tax vals = some s' → claims s'.pool = claims s.pool + s.fc * PREC

private def emptyPool : Pool := { community := 0, commission := [], rewards := [], outstanding := [] }
/-- 1000 base units of fees, one validator (power 1 of 1, no commission, no tax), one staker -/
private def w17a : St := { supply := 5000, fc := 1000, mint := 0, distr := 0, pool := emptyPool }
private def v17a : ValIn := { op := "v", power := 1, rate := 0, found := true, stakers := [("s", PREC)] }

/-- F-17a: 1000 units moved, 2000 units of claims booked (1000 to the staker, 1000 to the
community pool). -/
theorem C17_full_fails : ¬ C17_full := by
  intro h
  have := h w17a 1 0 [v17a] _ rfl
  revert this
  decide

/-- With the one-line repair (`feePool.CommunityPool.Add(remaining...)`) the central clause holds
for every input: booked claims = amount moved, truncation dust in the community pool. -/
theorem C17_claims_sum_eq_moved_fixed (s : St) (total tax : Int) (vals : List ValIn) (s' : St)
    (h : allocateTokensFixed s total tax vals = some s') :
    claims s'.pool = claims s.pool + s.fc * PREC := by
  unfold allocateTokensFixed allocateTokensWith at h
  simp only [] at h
  split at h
  · simp only [Option.some.injEq] at h; subst h; simp only [claims]; omega
  · split at h
    · cases h
    · rename_i p rem heq
      simp only [Option.some.injEq] at h; subst h
      have e1 := valLoopFixed_spec _ _ _ _ _ _ _ heq
      simp only [claims] at e1 ⊢
      omega

/-- Zero total power: everything goes to the community pool, nothing else is booked. -/
theorem C17_zero_power_all_to_community (s : St) (tax : Int) (vals : List ValIn) :
    allocateTokens s 0 tax vals =
      some { s with fc := 0, distr := s.distr + s.fc,
                    pool := { s.pool with community := s.pool.community + s.fc * PREC } } := by
  simp [allocateTokens, allocateTokensWith]

/-! ## each validator's portion -/

/-- One validator step books exactly `valReward` as that validator's portion (outstanding
rewards), of which `round(portion × rate)` is commission; commission + staker part = portion. -/
theorem C17_commission_split (p : Pool) (v : ValIn) (tokens : Int) (p' : Pool)
    (h : allocValidator p v tokens = some p') :
    getD p'.outstanding v.op 0 = getD p.outstanding v.op 0 + tokens ∧
    getD p'.commission v.op 0 = getD p.commission v.op 0 + (Dec.mul ⟨tokens⟩ ⟨v.rate⟩).raw ∧
    (Dec.mul ⟨tokens⟩ ⟨v.rate⟩).raw + (tokens - (Dec.mul ⟨tokens⟩ ⟨v.rate⟩).raw) = tokens ∧
    nonStaker p' = nonStaker p + tokens := by
  obtain ⟨e1, _, e3, e4, _⟩ := allocValidator_spec p v tokens p' h
  exact ⟨e3, e4, by omega, e1⟩

private theorem floor_chain (P fm power total : Int) (hP : 0 < P) (hfm : 0 ≤ fm) (_hp : 0 ≤ power) (ht : 0 < total) :
    (fm * ((power * P * (P * P)) / (total * P) / P)) / P * total ≤ fm * power := by
  have hB : 0 < total * P := Int.mul_pos ht hP
  have hx := Int.ediv_mul_le (power * P * (P * P)) (Int.ne_of_gt hB)
  have hq := Int.ediv_mul_le ((power * P * (P * P)) / (total * P)) (Int.ne_of_gt hP)
  have hr := Int.ediv_mul_le (fm * ((power * P * (P * P)) / (total * P) / P)) (Int.ne_of_gt hP)
  generalize (power * P * (P * P)) / (total * P) = x at *
  generalize x / P = q at *
  generalize (fm * q) / P = r at *
  -- q*total ≤ power*P
  have h1 : q * total ≤ power * P := by
    have : q * P * (total * P) ≤ power * P * (P * P) :=
      Int.le_trans (Int.mul_le_mul_of_nonneg_right hq (Int.le_of_lt hB)) hx
    have h2 : (q * total) * (P * P) ≤ (power * P) * (P * P) := by
      have e1 : q * P * (total * P) = (q * total) * (P * P) := by
        simp only [Int.mul_assoc, Int.mul_comm, Int.mul_left_comm]
      rw [e1] at this; exact this
    exact Int.le_of_mul_le_mul_right h2 (Int.mul_pos hP hP)
  have h3 : r * total * P ≤ fm * power * P := by
    have a : r * P * total ≤ fm * q * total := Int.mul_le_mul_of_nonneg_right hr (Int.le_of_lt ht)
    have b : fm * (q * total) ≤ fm * (power * P) := Int.mul_le_mul_of_nonneg_left h1 hfm
    have e1 : r * total * P = r * P * total := by simp only [Int.mul_assoc, Int.mul_comm, Int.mul_left_comm]
    have e2 : fm * q * total = fm * (q * total) := by simp only [Int.mul_assoc]
    have e3 : fm * power * P = fm * (power * P) := by simp only [Int.mul_assoc]
    rw [e1, e3]; rw [e2] at a; exact Int.le_trans a b
  exact Int.le_of_mul_le_mul_right h3 hP

/-- Each validator's portion is its power-proportional share of the fee multiplier, rounded
down: portion × totalPower ≤ feeMultiplier × power (it never takes more than its share), and it
is non-negative. -/
theorem C17_validator_share_proportional (fm total power : Int) (hfm : 0 ≤ fm) (hp : 0 ≤ power) (ht : 0 < total) :
    0 ≤ valReward fm total power ∧ valReward fm total power * total ≤ fm * power := by
  have hP := PREC_pos
  have hA : 0 ≤ power * PREC * (PREC * PREC) :=
    Int.mul_nonneg (Int.mul_nonneg hp (Int.le_of_lt hP)) (Int.le_of_lt (Int.mul_pos hP hP))
  have hB : 0 < total * PREC := Int.mul_pos ht hP
  have hx : 0 ≤ (power * PREC * (PREC * PREC)) / (total * PREC) := Int.ediv_nonneg hA (Int.le_of_lt hB)
  have hq : 0 ≤ (power * PREC * (PREC * PREC)) / (total * PREC) / PREC := Int.ediv_nonneg hx (Int.le_of_lt hP)
  have hfq : 0 ≤ fm * ((power * PREC * (PREC * PREC)) / (total * PREC) / PREC) := Int.mul_nonneg hfm hq
  have e : valReward fm total power =
      (fm * ((power * PREC * (PREC * PREC)) / (total * PREC) / PREC)) / PREC := by
    simp only [valReward, Dec.mulTruncate, Dec.quoTruncate, Dec.ofInt, Dec.chopTrunc]
    rw [Int.tdiv_eq_ediv_of_nonneg hA, Int.tdiv_eq_ediv_of_nonneg hx, Int.tdiv_eq_ediv_of_nonneg hfq]
  rw [e]
  exact ⟨Int.ediv_nonneg hfq (Int.le_of_lt hP), floor_chain PREC fm power total hP hfm hp ht⟩

/-- Over the whole validator loop the outstanding book (the validators' portions) grows by
exactly what left `remaining`; what is left of `remaining` is what the community pool gets. -/
theorem C17_portions_plus_remainder (fm total : Int) (vals : List ValIn) (p : Pool) (rem : Int) (p' : Pool) (rem' : Int)
    (h : valLoop fm total vals p rem = some (p', rem')) :
    bookSum p'.outstanding + rem' = bookSum p.outstanding + rem ∧ (0 ≤ rem → 0 ≤ rem') :=
  (valLoop_spec fm total vals p rem p' rem' h).2

/-! ## solvency over epochs -/

/-- the property's solvency clause: booked claims never exceed the distribution account -/
def C17_solvency_full : Prop :=
  ∀ (s : St) (total tax : Int) (vals : List ValIn) (s' : St),
    claims s.pool ≤ s.distr * PREC → allocateTokens s total tax vals = some s' →
    claims s'.pool ≤ s'.distr * PREC

theorem C17_solvency_full_fails : ¬ C17_solvency_full := by
  intro h
  have := h w17a 1 0 [v17a] _ (by decide) rfl
  revert this
  decide

/-- one epoch-end notification keeps `community + commissions = balance × 10^18` -/
theorem C17_epoch_end_keeps_backing (c : Cfg) (s : St) (id : String) (total : Int) (vals : List ValIn) (s' : St)
    (hinv : nonStaker s.pool = s.distr * PREC) (h : onEpochEnd c s id total vals = some s') :
    nonStaker s'.pool = s'.distr * PREC := by
  unfold onEpochEnd at h
  simp only [] at h
  split at h
  · cases h
  · rename_i s1 heq
    simp only [Option.some.injEq] at h
    have h1 : nonStaker s1.pool = s1.distr * PREC := by
      split at heq
      · have e := C17_community_commission_eq_moved _ _ _ _ _ heq
        obtain ⟨_, e2, _, _⟩ := C17_allocate_moves_all_fees _ _ _ _ _ heq
        rw [e, e2, hinv, Int.add_mul]
      · simp only [Option.some.injEq] at heq; subst heq; exact hinv
    subst h
    split
    · obtain ⟨e1, e2⟩ := mintHook_pool s1 c.reward
      rw [e1, e2]; exact h1
    · exact h1

theorem C17_events_keep_backing (c : Cfg) (total : Int) (vals : List ValIn) :
    ∀ (evs : List Ev) (s s' : St), nonStaker s.pool = s.distr * PREC →
      onEvents c total vals evs s = some s' → nonStaker s'.pool = s'.distr * PREC := by
  intro evs
  induction evs with
  | nil => intro s s' hinv h; simp only [onEvents, Option.some.injEq] at h; subst h; exact hinv
  | cons ev rest ih =>
    intro s s' hinv h
    cases ev with
    | epochStart id n => simp only [onEvents] at h; exact ih s s' hinv h
    | epochEnd id n =>
      simp only [onEvents] at h
      split at h
      · cases h
      · rename_i s1 heq
        exact ih s1 s' (C17_epoch_end_keeps_backing c s id total vals s1 hinv heq) h

/-- a history: before each block some fee income `f` reaches the fee collector -/
def runBlocks (c : Cfg) : List EpochInfo → St → List (Int × BlockIn) → Option St
  | _, s, [] => some s
  | es, s, (f, b) :: rest =>
    match block c es { s with fc := s.fc + f } b with
    | (es', _, some s') => runBlocks c es' s' rest
    | (_, _, none) => none

/-- Solvency as far as it holds: over every history (any fee income, block times, validator
sets, powers, rates, stakers) the community pool and the commissions together are backed exactly
by the distribution account. The staker rewards are NOT backed (F-17a). -/
theorem C17_solvency_partial (c : Cfg) :
    ∀ (bs : List (Int × BlockIn)) (es : List EpochInfo) (s s' : St),
      nonStaker s.pool = s.distr * PREC → runBlocks c es s bs = some s' →
      nonStaker s'.pool = s'.distr * PREC := by
  intro bs
  induction bs with
  | nil => intro es s s' hinv h; simp only [runBlocks, Option.some.injEq] at h; subst h; exact hinv
  | cons fb rest ih =>
    intro es s s' hinv h
    obtain ⟨f, b⟩ := fb
    simp only [runBlocks, block] at h
    split at h
    · rename_i es' evs s1 heq
      simp only [Prod.mk.injEq] at heq
      obtain ⟨h1, _, h3⟩ := heq
      exact ih es' s1 s' (C17_events_keep_backing c b.total b.vals _ { s with fc := s.fc + f } s1 hinv h3) h
    · cases h

/-! ## supply: only the mint, exactly once per mint-epoch end -/

theorem C17_supply_changes_only_by_mint (c : Cfg) (total : Int) (vals : List ValIn) :
    ∀ (evs : List Ev) (s s' : St), onEvents c total vals evs s = some s' →
      s'.supply = s.supply + c.reward * countEnds c.mintId evs ∧ s'.mint = s.mint := by
  intro evs
  induction evs with
  | nil => intro s s' h; simp only [onEvents, Option.some.injEq] at h; subst h; simp [countEnds]
  | cons ev rest ih =>
    intro s s' h
    cases ev with
    | epochStart id n => simp only [onEvents] at h; simpa [countEnds] using ih s s' h
    | epochEnd id n =>
      simp only [onEvents] at h
      split at h
      · cases h
      · rename_i s1 heq
        obtain ⟨i1, i2⟩ := ih s1 s' h
        unfold onEpochEnd at heq
        simp only [] at heq
        split at heq
        · cases heq
        · rename_i s0 h0
          simp only [Option.some.injEq] at heq
          have hs0 : s0.supply = s.supply ∧ s0.mint = s.mint := by
            split at h0
            · obtain ⟨_, _, a, b⟩ := C17_allocate_moves_all_fees _ _ _ _ _ h0; exact ⟨a, b⟩
            · simp only [Option.some.injEq] at h0; subst h0; exact ⟨rfl, rfl⟩
          subst heq
          simp only [countEnds]
          by_cases hid : (id == c.mintId) = true
          · rw [if_pos hid] at i1 i2
            rw [if_pos hid]
            rw [mintHook_supply] at i1
            rw [(mintHook_accounts s0 c.reward).1] at i2
            rw [i1, i2, hs0.1, hs0.2, Int.mul_add]; omega
          · rw [if_neg hid] at i1 i2
            rw [if_neg hid]
            rw [i1, i2, hs0.1, hs0.2]; simp

/-- the end notifications of identifier `id` in the stream `end n, start n+1, …` number `k` -/
theorem countEnds_expectedFrom (id : String) (n : Int) (k : Nat) : countEnds id (expectedFrom id n k) = k := by
  induction k generalizing n with
  | zero => simp [expectedFrom, countEnds]
  | succ k ih => simp only [expectedFrom, countEnds, ih, beq_self_eq_true, if_true]; omega

/-- Minted exactly once at each mint-epoch end: over any block sequence (any times, stalls,
catch-up) the number of mint notifications equals the number of epochs the mint identifier
advanced, so the supply grows by reward × (epochs ended). -/
theorem C17_mint_once_per_epoch (e : EpochInfo) (ts : List (Int × Int)) (hs : e.epochCountingStarted = true) :
    countEnds e.identifier (runTicks e ts).2 = (runTicks e ts).1.currentEpoch - e.currentEpoch := by
  obtain ⟨k, hk1, hk2⟩ := C15_hooks_exactly_once_in_order e ts hs
  rw [hk2, hk1, countEnds_expectedFrom]; omega

/-! ## no halt -/

/-- BeginBlock never panics in AllocateTokens for sane inputs (powers adding up to the total,
rates and tax in [0,1], non-negative staker powers) — as the property's liveness needs -/
def C17_no_halt_full : Prop :=
  ∀ (s : St) (tax : Int) (v : ValIn), 0 ≤ s.fc → 0 ≤ tax → tax ≤ PREC → 0 ≤ v.rate → v.rate ≤ PREC →
    0 < v.power → (∀ o ∈ v.stakers, 0 ≤ o.2) →
    allocateTokens s v.power tax [v] ≠ none

/-- F-17b: a staker listed three times (asset a under AVS A; assets a, b under AVS B) with power
1 for the first occurrence and 3 for the later ones is paid 3 × 3/7 of the reward. -/
private def v17b : ValIn :=
  { op := "v", power := 1, rate := 0, found := true,
    stakers := [("s", 1 * PREC), ("s", 3 * PREC), ("s", 3 * PREC)] }

theorem C17_no_halt_full_fails : ¬ C17_no_halt_full := by
  intro h
  have := h w17a 0 v17b (by decide) (by decide) (by decide) (by decide) (by decide) (by decide) (by decide)
  revert this
  decide

/-! ## non-vacuity -/

-- a two-validator epoch with commission and tax: the loop succeeds and books as proved
example : (allocateTokens { w17a with fc := 1000 } 201 (PREC / 50)
    [{ op := "a", power := 100, rate := 0, found := true, stakers := [("sa", 100 * PREC)] },
     { op := "b", power := 101, rate := PREC / 20, found := true, stakers := [("sb", 101 * PREC)] }]).isSome = true := by
  decide
example : nonStaker w17a.pool = w17a.distr * PREC := by decide
example : 0 ≤ valReward (980 * PREC) 201 100 ∧ valReward (980 * PREC) 201 100 * 201 ≤ 980 * PREC * 100 :=
  C17_validator_share_proportional _ _ _ (by decide) (by decide) (by decide)

end ExoVerif.Distr
