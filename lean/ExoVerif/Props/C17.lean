import ExoVerif.Proofs.Distribution
import ExoVerif.Props.C15
/-!
# C17 — Native supply and fee distribution are conserved

Stated for the executable model `ExoVerif.Distr` (Model/Distribution.lean), which mirrors
x/feedistribution/keeper/allocation.go + hooks.go and x/exomint/keeper/impl_epochs_hooks.go as they
are (after the repairs of F-17a and F-17b), composed with the epoch clock of C15. The model is
replayed against the real application (`./check C17`: every block's supply, module balances and
every booked claim, line by line).

History: the unrepaired code booked the stakers' rewards AND the whole `rewardToAllStakers` to the
community pool (F-17a) and paid every visit of a staker with the power of its last visit, which
could overdraw `remaining` and panic in BeginBlock (F-17b). The pre-fix shape is kept in the model
(`allocStakersPre`) and shown to violate the property (`C17_regression_…`), so that the statements
below are known to discriminate; the harness keeps both directed histories as regressions.
-/
namespace ExoVerif.Distr
open ExoVerif ExoVerif.KV ExoVerif.Epochs

/-! ## AllocateTokens: what moves, and how it is booked -/

/-- The whole fee-collector balance moves to the distribution account; supply and the mint
account are untouched. -/
theorem C17_allocate_moves_all_fees (s : St) (total tax : Int) (vals : List ValIn) (s' : St)
    (h : allocateTokens s total tax vals = some s') :
    s'.fc = 0 ∧ s'.distr = s.distr + s.fc ∧ s'.supply = s.supply ∧ s'.mint = s.mint := by
  unfold allocateTokens allocateTokensWith at h
  simp only [] at h
  split at h
  · simp only [Option.some.injEq] at h; subst h; exact ⟨rfl, rfl, rfl, rfl⟩
  · split at h
    · cases h
    · simp only [Option.some.injEq] at h; subst h; exact ⟨rfl, rfl, rfl, rfl⟩

/-- The booked claims (community pool + commissions + staker rewards) grow by exactly the amount
moved, for every input: every truncation remainder of the validator loop and of the staker loops
ends in the community pool. -/
theorem C17_claims_sum_eq_moved (s : St) (total tax : Int) (vals : List ValIn) (s' : St)
    (h : allocateTokens s total tax vals = some s') :
    claims s'.pool = claims s.pool + s.fc * PREC := by
  unfold allocateTokens allocateTokensWith at h
  simp only [] at h
  split at h
  · simp only [Option.some.injEq] at h; subst h; simp only [claims]; omega
  · split at h
    · cases h
    · rename_i p rem heq
      simp only [Option.some.injEq] at h; subst h
      obtain ⟨e1, _, _⟩ := valLoop_spec _ _ _ _ _ _ _ heq
      simp only [claims] at e1 ⊢
      omega

/-- Zero total power: everything goes to the community pool, nothing else is booked. -/
theorem C17_zero_power_all_to_community (s : St) (tax : Int) (vals : List ValIn) :
    allocateTokens s 0 tax vals =
      some { s with fc := 0, distr := s.distr + s.fc,
                    pool := { s.pool with community := s.pool.community + s.fc * PREC } } := by
  simp [allocateTokens, allocateTokensWith]

/-- A validator whose operator has NO staker left (everything undelegated, staker list deleted by
a slash) while it still has voting power: the whole staker part of its portion is booked to the
community pool — nothing is dropped. -/
theorem C17_empty_staker_list_remainder_to_community (rw : Book) (c R : Int) :
    allocStakers rw c [] R = some (rw, c + R) := by
  simp [allocStakers, occTotal]

/-- the same when stakers are listed but none has power (jailed / inactive operator, slashed to
zero): total power ≤ 0 ⇒ everything to the community pool, staker book untouched -/
theorem C17_no_staker_power_remainder_to_community (rw : Book) (c : Int) (occ : List (String × Int)) (R : Int)
    (h : occTotal occ ≤ 0) : allocStakers rw c occ R = some (rw, c + R) := by
  have : ¬ 0 < occTotal occ := by omega
  simp [allocStakers, this]

/-- at the validator level: with an empty staker list the claims still grow by exactly the
portion (commission to the operator, the rest to the community pool) -/
theorem C17_empty_staker_list_validator (p : Pool) (v : ValIn) (tokens : Int) (hv : v.stakers = [])
    (hs : 0 ≤ tokens - (Dec.mul ⟨tokens⟩ ⟨v.rate⟩).raw) :
    ∃ p', allocValidator p v tokens = some p' ∧ claims p' = claims p + tokens ∧ p'.rewards = p.rewards ∧
      p'.community = p.community + (tokens - (Dec.mul ⟨tokens⟩ ⟨v.rate⟩).raw) := by
  have hn : ¬ tokens - (Dec.mul ⟨tokens⟩ ⟨v.rate⟩).raw < 0 := by omega
  refine ⟨{ community := p.community + (tokens - (Dec.mul ⟨tokens⟩ ⟨v.rate⟩).raw),
             commission := bookAdd p.commission v.op (Dec.mul ⟨tokens⟩ ⟨v.rate⟩).raw, rewards := p.rewards,
             outstanding := bookAdd p.outstanding v.op tokens },
          by simp [allocValidator, allocValidatorWith, hn, hv, C17_empty_staker_list_remainder_to_community], ?_, rfl, rfl⟩
  simp only [claims, bookSum_bookAdd]; omega

/-! ## each validator's portion -/

/-- One validator step books exactly its portion: the outstanding rewards grow by the portion,
`round(portion × rate)` of it is commission, commission + staker part = portion, and the claims
(commission + staker rewards + dust to the community pool) grow by exactly the portion. -/
theorem C17_commission_split (p : Pool) (v : ValIn) (tokens : Int) (p' : Pool)
    (h : allocValidator p v tokens = some p') :
    getD p'.outstanding v.op 0 = getD p.outstanding v.op 0 + tokens ∧
    getD p'.commission v.op 0 = getD p.commission v.op 0 + (Dec.mul ⟨tokens⟩ ⟨v.rate⟩).raw ∧
    (Dec.mul ⟨tokens⟩ ⟨v.rate⟩).raw + (tokens - (Dec.mul ⟨tokens⟩ ⟨v.rate⟩).raw) = tokens ∧
    claims p' = claims p + tokens := by
  obtain ⟨e1, _, e3, e4⟩ := allocValidator_spec p v tokens p' h
  exact ⟨e3, e4, by omega, e1⟩

/-- the commission never exceeds the portion for a rate in [0,1] -/
theorem C17_commission_le_portion (tokens rate : Int) (ht : 0 ≤ tokens) (hr0 : 0 ≤ rate) (hr1 : rate ≤ PREC) :
    (Dec.mul ⟨tokens⟩ ⟨rate⟩).raw ≤ tokens := commission_le tokens rate ht hr0 hr1

/-- Each validator's portion is its power-proportional share of the fee multiplier within
truncation: non-negative, never more than the exact share (portion × total ≤ fm × power), and
short of it by less than one raw unit (10^-18 of a base unit) plus fm × 10^-18:
fm × power × 10^18 < (portion × 10^18 + 10^18 + fm) × total. -/
theorem C17_validator_share_proportional (fm total power : Int) (hfm : 0 ≤ fm) (hp : 0 ≤ power) (ht : 0 < total) :
    0 ≤ valReward fm total power ∧ valReward fm total power * total ≤ fm * power ∧
    fm * power * PREC < (valReward fm total power * PREC + PREC + fm) * total :=
  valReward_bounds fm total power hfm hp ht

/-- Over the whole validator loop the outstanding book (the validators' portions) grows by
exactly what left `remaining`; what is left of `remaining` is what the community pool gets. -/
theorem C17_portions_plus_remainder (fm total : Int) (vals : List ValIn) (p : Pool) (rem : Int) (p' : Pool) (rem' : Int)
    (h : valLoop fm total vals p rem = some (p', rem')) :
    bookSum p'.outstanding + rem' = bookSum p.outstanding + rem ∧ (0 ≤ rem → 0 ≤ rem') :=
  (valLoop_spec fm total vals p rem p' rem' h).2

/-! ## solvency over epochs -/

/-- the gap between the distribution account and the booked claims (in 10^-18 units) -/
def slack (s : St) : Int := s.distr * PREC - claims s.pool

/-- one epoch-end notification leaves the gap unchanged -/
theorem C17_epoch_end_keeps_slack (c : Cfg) (s : St) (id : String) (total : Int) (vals : List ValIn) (s' : St)
    (h : onEpochEnd c s id total vals = some s') : slack s' = slack s := by
  unfold onEpochEnd at h
  simp only [] at h
  split at h
  · cases h
  · rename_i s1 heq
    simp only [Option.some.injEq] at h
    have h1 : slack s1 = slack s := by
      split at heq
      · have e := C17_claims_sum_eq_moved _ _ _ _ _ heq
        obtain ⟨_, e2, _, _⟩ := C17_allocate_moves_all_fees _ _ _ _ _ heq
        simp only [slack, e, e2, Int.add_mul]; omega
      · simp only [Option.some.injEq] at heq; subst heq; rfl
    subst h
    split
    · obtain ⟨e1, e2⟩ := mintHook_pool s1 c.reward
      simp only [slack, e1, e2]; exact h1
    · exact h1

theorem C17_events_keep_slack (c : Cfg) (total : Int) (vals : List ValIn) :
    ∀ (evs : List Ev) (s s' : St), onEvents c total vals evs s = some s' → slack s' = slack s := by
  intro evs
  induction evs with
  | nil => intro s s' h; simp only [onEvents, Option.some.injEq] at h; subst h; rfl
  | cons ev rest ih =>
    intro s s' h
    cases ev with
    | epochStart id n => simp only [onEvents] at h; exact ih s s' h
    | epochEnd id n =>
      simp only [onEvents] at h
      split at h
      · cases h
      · rename_i s1 heq
        rw [ih s1 s' h, C17_epoch_end_keeps_slack c s id total vals s1 heq]

/-- a history: before each block some fee income `f` reaches the fee collector -/
def runBlocks (c : Cfg) : List EpochInfo → St → List (Int × BlockIn) → Option St
  | _, s, [] => some s
  | es, s, (f, b) :: rest =>
    match block c es { s with fc := s.fc + f } b with
    | (es', _, some s') => runBlocks c es' s' rest
    | (_, _, none) => none

/-- Solvency over every history (any fee income, block times, validator sets, powers, rates,
stakers, epoch identifiers): the gap between the distribution account's balance and the booked
claims never changes — in particular claims that do not exceed the balance never will, and from
genesis (no claims, empty account) the claims are backed exactly. -/
theorem C17_solvency (c : Cfg) :
    ∀ (bs : List (Int × BlockIn)) (es : List EpochInfo) (s s' : St),
      runBlocks c es s bs = some s' → slack s' = slack s := by
  intro bs
  induction bs with
  | nil => intro es s s' h; simp only [runBlocks, Option.some.injEq] at h; subst h; rfl
  | cons fb rest ih =>
    intro es s s' h
    obtain ⟨f, b⟩ := fb
    simp only [runBlocks, block] at h
    split at h
    · rename_i es' evs s1 heq
      simp only [Prod.mk.injEq] at heq
      obtain ⟨_, _, h3⟩ := heq
      rw [ih es' s1 s' h, C17_events_keep_slack c b.total b.vals _ { s with fc := s.fc + f } s1 h3]
      rfl
    · cases h

theorem C17_claims_le_balance (c : Cfg) (bs : List (Int × BlockIn)) (es : List EpochInfo) (s s' : St)
    (h0 : claims s.pool ≤ s.distr * PREC) (h : runBlocks c es s bs = some s') :
    claims s'.pool ≤ s'.distr * PREC := by
  have := C17_solvency c bs es s s' h
  simp only [slack] at this; omega

/-! ## supply: only the mint, exactly once per mint-epoch end -/

theorem C17_supply_changes_only_by_mint (c : Cfg) (total : Int) (vals : List ValIn) :
    ∀ (evs : List Ev) (s s' : St), onEvents c total vals evs s = some s' →
      s'.supply = s.supply + c.reward * countEnds c.mintId evs ∧ s'.mint = s.mint := by
  intro evs
  induction evs with
  | nil => intro s s' h; simp only [onEvents, Option.some.injEq] at h; subst h; simp [countEnds]
  | cons ev rest ih =>
    intro s s' h
    cases ev with
    | epochStart id n => simp only [onEvents] at h; simpa [countEnds] using ih s s' h
    | epochEnd id n =>
      simp only [onEvents] at h
      split at h
      · cases h
      · rename_i s1 heq
        obtain ⟨i1, i2⟩ := ih s1 s' h
        unfold onEpochEnd at heq
        simp only [] at heq
        split at heq
        · cases heq
        · rename_i s0 h0
          simp only [Option.some.injEq] at heq
          have hs0 : s0.supply = s.supply ∧ s0.mint = s.mint := by
            split at h0
            · obtain ⟨_, _, a, b⟩ := C17_allocate_moves_all_fees _ _ _ _ _ h0; exact ⟨a, b⟩
            · simp only [Option.some.injEq] at h0; subst h0; exact ⟨rfl, rfl⟩
          subst heq
          simp only [countEnds]
          by_cases hid : (id == c.mintId) = true
          · rw [if_pos hid] at i1 i2
            rw [if_pos hid]
            rw [mintHook_supply] at i1
            rw [(mintHook_accounts s0 c.reward).1] at i2
            rw [i1, i2, hs0.1, hs0.2, Int.mul_add]; omega
          · rw [if_neg hid] at i1 i2
            rw [if_neg hid]
            rw [i1, i2, hs0.1, hs0.2]; simp

/-- the end notifications of identifier `id` in the stream `end n, start n+1, …` number `k` -/
theorem countEnds_expectedFrom (id : String) (n : Int) (k : Nat) : countEnds id (expectedFrom id n k) = k := by
  induction k generalizing n with
  | zero => simp [expectedFrom, countEnds]
  | succ k ih => simp only [expectedFrom, countEnds, ih, beq_self_eq_true, if_true]; omega

/-- Minted exactly once at each mint-epoch end: over any block sequence (any times, stalls,
catch-up) the number of mint notifications equals the number of epochs the mint identifier
advanced, so the supply grows by reward × (epochs ended). -/
theorem C17_mint_once_per_epoch (e : EpochInfo) (ts : List (Int × Int)) (hs : e.epochCountingStarted = true) :
    countEnds e.identifier (runTicks e ts).2 = (runTicks e ts).1.currentEpoch - e.currentEpoch := by
  obtain ⟨k, hk1, hk2⟩ := C15_hooks_exactly_once_in_order e ts hs
  rw [hk2, hk1, countEnds_expectedFrom]; omega

/-! ## no halt -/

/-- AllocateTokens never panics (so BeginBlock does not halt in it) for every fee amount, every
community tax and commission rate in [0,1], every set of validators whose powers are
non-negative and add up to at most the total, and every list of staker visits with non-negative
powers — in particular for stakers visited several times with different powers (F-17b). -/
theorem C17_no_halt (s : St) (total tax : Int) (vals : List ValIn)
    (hfc : 0 ≤ s.fc) (ht0 : 0 ≤ total) (htax0 : 0 ≤ tax) (htax1 : tax ≤ PREC)
    (hv : ∀ v ∈ vals, SaneVal v) (hsum : foundPower vals ≤ total) :
    (allocateTokens s total tax vals).isSome = true := by
  unfold allocateTokens allocateTokensWith
  simp only []
  split
  · rfl
  · rename_i hne
    have ht : 0 < total := by
      have : total ≠ 0 := by simpa using hne
      omega
    have hfd : 0 ≤ s.fc * PREC := Int.mul_nonneg hfc (Int.le_of_lt PREC_pos)
    obtain ⟨f0, f1⟩ := feeMultiplier_bounds (s.fc * PREC) tax hfd htax0 htax1
    have hinv : feeMultiplier (s.fc * PREC) tax * foundPower vals ≤ s.fc * PREC * total := by
      have a : feeMultiplier (s.fc * PREC) tax * foundPower vals ≤ feeMultiplier (s.fc * PREC) tax * total :=
        Int.mul_le_mul_of_nonneg_left hsum f0
      have b : feeMultiplier (s.fc * PREC) tax * total ≤ s.fc * PREC * total :=
        Int.mul_le_mul_of_nonneg_right f1 (Int.le_of_lt ht)
      exact Int.le_trans a b
    have h := valLoop_some _ total f0 ht vals
      ({ s with fc := 0, distr := s.distr + s.fc } : St).pool (s.fc * PREC) hv hinv
    simp only [valLoop] at h
    cases hh : valLoopWith allocStakers (feeMultiplier (s.fc * PREC) tax) total vals s.pool (s.fc * PREC) with
    | none => rw [hh] at h; simp at h
    | some x => rfl

/-! ## regression: the code before the repairs violates these statements -/

private def emptyPool : Pool := { community := 0, commission := [], rewards := [], outstanding := [] }
/-- 1000 base units of fees, one validator (power 1 of 1, no commission, no tax), one staker -/
private def w17a : St := { supply := 5000, fc := 1000, mint := 0, distr := 0, pool := emptyPool }
private def v17a : ValIn := { op := "v", power := 1, rate := 0, found := true, stakers := [("s", PREC)] }
/-- a staker visited three times (asset a under AVS A; assets a, b under AVS B): power 1, 3, 3 -/
private def v17b : ValIn :=
  { op := "v", power := 1, rate := 0, found := true,
    stakers := [("s", 1 * PREC), ("s", 3 * PREC), ("s", 3 * PREC)] }

/-- F-17a before the repair: 1000 units moved, 2000 units of claims booked -/
theorem C17_regression_prefix_overbooks :
    ∃ s', allocateTokensPre w17a 1 0 [v17a] = some s' ∧
      claims s'.pool = claims w17a.pool + w17a.fc * PREC + 1000 * PREC ∧ ¬ claims s'.pool ≤ s'.distr * PREC :=
  ⟨_, rfl, by decide, by decide⟩

/-- F-17b before the repair: paid 3 × 3/7 of the reward, `remaining.Sub` panics -/
theorem C17_regression_prefix_halts : allocateTokensPre w17a 1 0 [v17b] = none := by decide

/-- the repaired code on the same inputs: exact booking, no panic -/
example : ∃ s', allocateTokens w17a 1 0 [v17a] = some s' ∧ claims s'.pool = 1000 * PREC ∧ s'.distr = 1000 :=
  ⟨_, rfl, by decide, by decide⟩
example : (allocateTokens w17a 1 0 [v17b]).isSome = true := by decide

/-! ## non-vacuity -/

-- a two-validator epoch with commission and tax meets the hypotheses of C17_no_halt
example : (allocateTokens { w17a with fc := 1000 } 201 (PREC / 50)
    [{ op := "a", power := 100, rate := 0, found := true, stakers := [("sa", 100 * PREC)] },
     { op := "b", power := 101, rate := PREC / 20, found := true, stakers := [("sb", 101 * PREC)] }]).isSome = true :=
  C17_no_halt _ _ _ _ (by decide) (by decide) (by decide) (by decide)
    (by intro v hv; simp only [List.mem_cons, List.mem_nil_iff, or_false] at hv
        rcases hv with hv | hv <;> subst hv <;> refine ⟨by decide, by decide, by decide, ?_⟩ <;>
          intro o ho <;> simp only [List.mem_cons, List.mem_nil_iff, or_false] at ho <;> subst ho <;> decide)
    (by decide)
example : slack w17a = 0 := by decide
example : 0 ≤ valReward (980 * PREC) 201 100 ∧ valReward (980 * PREC) 201 100 * 201 ≤ 980 * PREC * 100 ∧
    980 * PREC * 100 * PREC < (valReward (980 * PREC) 201 100 * PREC + PREC + 980 * PREC) * 201 :=
  C17_validator_share_proportional _ _ _ (by decide) (by decide) (by decide)

end ExoVerif.Distr
