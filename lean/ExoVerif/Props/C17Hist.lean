import ExoVerif.Props.C17
import ExoVerif.Proofs.DistributionHist
/-!
# C17 — history-level completion (clause-by-clause audit, round 5)

`Props/C17.lean` proves the booking identities for one AllocateTokens call and the solvency invariant over
`runBlocks` with ONE configuration. This file lifts the remaining clauses to every finite history:

* histories in which the parameters change between blocks (governance `UpdateParams` of x/feedistribution and
  x/exomint: epoch identifiers, epoch reward, community tax) — `runBlocksV`; `runBlocks` is the special case
  (`C17_hist_run_fixed_cfg`);
* "the booked claims … in total never exceed the distribution account's balance": `C17_hist_solvency`,
  `C17_hist_claims_le_balance`, and from genesis the claims are backed EXACTLY, truncation dust included
  (`C17_hist_claims_backed_exactly`). x/feedistribution has no withdrawal message in the code base (its MsgServer
  only has UpdateParams; the events `withdraw_rewards` / `withdraw_commission` are declared and never emitted), so
  epochs and allocations are all the operations there are;
* "the native token's total supply changes only by the configured epoch reward, minted exactly once at each
  mint-epoch end … never otherwise created or destroyed": over every block sequence the supply grows by
  Σ reward-in-force × (mint-epoch ends of that block) and the three module accounts together grow by exactly the
  outside fee income plus that mint (`C17_hist_supply_and_accounts`); the number of mint-epoch ends over every
  sequence of block times — stalls and catch-up, all identifiers ticking side by side, counting started or not —
  is exactly the number of mint epochs that ended (`C17_hist_mint_once_per_ended_epoch`,
  `C17_hist_supply_fixed_cfg`);
* "each validator's portion being proportional to its voting power and split by its commission rate" for the
  whole validator loop: every operator's outstanding rewards grow by the portions of its validators, its commission
  by round(portion × rate) (`C17_hist_validator_portions`), and any two validators' portions are in the ratio of
  their powers within truncation (`C17_hist_portions_pairwise_proportional`).
-/
namespace ExoVerif.Distr
open ExoVerif ExoVerif.KV ExoVerif.Epochs

/-- a history in which every block comes with the configuration in force (parameters may be changed by
governance between blocks), the fee income that reached the fee collector before it, and what the block reads -/
def runBlocksV : List EpochInfo → St → List (Cfg × Int × BlockIn) → Option St
  | _, s, [] => some s
  | es, s, (c, f, b) :: rest =>
    match block c es { s with fc := s.fc + f } b with
    | (es', _, some s') => runBlocksV es' s' rest
    | (_, _, none) => none

/-- outside fee income of a history -/
def feesOver : List (Cfg × Int × BlockIn) → Int
  | [] => 0
  | (_, f, _) :: rest => f + feesOver rest

/-- what the mint hook mints over a history: per block, the reward in force × the end notifications of the
mint identifier in force -/
def mintedOver : List EpochInfo → List (Cfg × Int × BlockIn) → Int
  | _, [] => 0
  | es, (c, _, b) :: rest =>
    c.reward * countEnds c.mintId (beginBlocker es b.bt b.h).2 + mintedOver (beginBlocker es b.bt b.h).1 rest

/-- the (block time, height) pairs of a history -/
def timesOf (bs : List (Cfg × Int × BlockIn)) : List (Int × Int) := bs.map (fun x => (x.2.2.bt, x.2.2.h))

/-- one configuration for all blocks -/
def withCfg (c : Cfg) (bs : List (Int × BlockIn)) : List (Cfg × Int × BlockIn) := bs.map (fun fb => (c, fb.1, fb.2))

/-- `runBlocks` (Props/C17.lean) is `runBlocksV` with a constant configuration -/
theorem C17_hist_run_fixed_cfg (c : Cfg) :
    ∀ (bs : List (Int × BlockIn)) (es : List EpochInfo) (s : St),
      runBlocks c es s bs = runBlocksV es s (withCfg c bs) := by
  intro bs
  induction bs with
  | nil => intro es s; rfl
  | cons fb rest ih =>
    intro es s
    obtain ⟨f, b⟩ := fb
    simp only [runBlocks, withCfg, List.map_cons, runBlocksV]
    split
    · rename_i es' evs s1 heq
      rw [heq]
      exact ih es' s1
    · rename_i a b' heq
      rw [heq]

/-! ## solvency over every history -/

/-- Solvency over every history of blocks, with any parameter changes in between: the gap between the
distribution account's balance and the booked claims (community pool + commissions + staker rewards, in 10^-18
units) never changes. -/
theorem C17_hist_solvency :
    ∀ (bs : List (Cfg × Int × BlockIn)) (es : List EpochInfo) (s s' : St),
      runBlocksV es s bs = some s' → slack s' = slack s := by
  intro bs
  induction bs with
  | nil => intro es s s' h; simp only [runBlocksV, Option.some.injEq] at h; subst h; rfl
  | cons x rest ih =>
    intro es s s' h
    obtain ⟨c, f, b⟩ := x
    simp only [runBlocksV, block] at h
    split at h
    · rename_i es' evs s1 heq
      simp only [Prod.mk.injEq] at heq
      obtain ⟨_, _, h3⟩ := heq
      rw [ih es' s1 s' h, C17_events_keep_slack c b.total b.vals _ { s with fc := s.fc + f } s1 h3]
      rfl
    · cases h

/-- the booked claims never exceed the distribution account's balance -/
theorem C17_hist_claims_le_balance (bs : List (Cfg × Int × BlockIn)) (es : List EpochInfo) (s s' : St)
    (h0 : claims s.pool ≤ s.distr * PREC) (h : runBlocksV es s bs = some s') :
    claims s'.pool ≤ s'.distr * PREC := by
  have := C17_hist_solvency bs es s s' h
  simp only [slack] at this; omega

/-- From a state in which the claims are backed exactly (genesis: no claims, empty account) they are backed
exactly after every history: every truncation remainder is itself a claim (community pool), nothing is left
unbooked in the distribution account and nothing is booked that is not there. -/
theorem C17_hist_claims_backed_exactly (bs : List (Cfg × Int × BlockIn)) (es : List EpochInfo) (s s' : St)
    (h0 : claims s.pool = s.distr * PREC) (h : runBlocksV es s bs = some s') :
    claims s'.pool = s'.distr * PREC := by
  have := C17_hist_solvency bs es s s' h
  simp only [slack] at this; omega

/-! ## supply and module accounts over every history -/

/-- Over every history: the supply grows by exactly what the mint hook minted (reward in force × mint-epoch
ends, block by block), the exomint account is transit only, and fee collector + distribution account together
grow by exactly the outside fee income plus the mint — the restaking modules create or destroy nothing else. -/
theorem C17_hist_supply_and_accounts :
    ∀ (bs : List (Cfg × Int × BlockIn)) (es : List EpochInfo) (s s' : St),
      runBlocksV es s bs = some s' →
      s'.supply = s.supply + mintedOver es bs ∧ s'.mint = s.mint ∧
      s'.fc + s'.distr = s.fc + s.distr + feesOver bs + mintedOver es bs := by
  intro bs
  induction bs with
  | nil =>
    intro es s s' h
    simp only [runBlocksV, Option.some.injEq] at h; subst h
    simp [mintedOver, feesOver]
  | cons x rest ih =>
    intro es s s' h
    obtain ⟨c, f, b⟩ := x
    simp only [runBlocksV, block] at h
    split at h
    · rename_i es' evs s1 heq
      simp only [Prod.mk.injEq] at heq
      obtain ⟨h1, h2, h3⟩ := heq
      obtain ⟨i1, i2, i3⟩ := ih es' s1 s' h
      obtain ⟨e1, e2, e3⟩ := onEvents_accounts c b.total b.vals _ { s with fc := s.fc + f } s1 h3
      simp only [mintedOver, feesOver]
      rw [h1]
      simp only [] at e1 e2 e3
      refine ⟨by omega, by omega, by omega⟩
    · cases h

/-- with one configuration the minted amount is reward × (end notifications of the mint identifier in the
notification stream of the whole history) -/
theorem C17_hist_minted_fixed_cfg (c : Cfg) :
    ∀ (bs : List (Int × BlockIn)) (es : List EpochInfo),
      mintedOver es (withCfg c bs) = c.reward * countEnds c.mintId (clock es (timesOf (withCfg c bs))).2 := by
  intro bs
  induction bs with
  | nil => intro es; simp [mintedOver, withCfg, timesOf, clock, countEnds]
  | cons fb rest ih =>
    intro es
    obtain ⟨f, b⟩ := fb
    have := ih (beginBlocker es b.bt b.h).1
    simp only [withCfg, timesOf, List.map_cons, mintedOver, clock, countEnds_append] at this ⊢
    rw [this, Int.mul_add]

/-- Minted exactly once at each mint-epoch end, over every sequence of blocks: whatever the block times (stalls,
multi-epoch gaps caught up one epoch per block), however many identifiers tick side by side, and whether or not
counting had started, the end notifications of identifier `id` number exactly the epochs of `id` that ended;
each identifier's info evolves as if it were alone. -/
theorem C17_hist_mint_once_per_ended_epoch (id : String) (es : List EpochInfo) (ts : List (Int × Int)) :
    (clock es ts).1 = es.map (fun e => (runTicks e ts).1) ∧
    countEnds id (clock es ts).2 =
      sumL (fun e => if e.identifier = id then endedBetween e (runTicks e ts).1 else 0) es := by
  obtain ⟨h1, h2⟩ := clock_spec id ts es
  refine ⟨h1, ?_⟩
  rw [h2]
  apply sumL_congr
  intro e _
  by_cases hid : e.identifier = id
  · rw [if_pos hid, ← hid]; exact countEnds_runTicks e ts
  · rw [if_neg hid]; exact countEnds_runTicks_other id e ts hid

/-- The supply clause over every history with one configuration: supply after = supply before + epoch reward ×
(number of mint epochs that ended), nothing else. -/
theorem C17_hist_supply_fixed_cfg (c : Cfg) (bs : List (Int × BlockIn)) (es : List EpochInfo) (s s' : St)
    (h : runBlocks c es s bs = some s') :
    s'.supply = s.supply + c.reward *
      sumL (fun e => if e.identifier = c.mintId then
                       endedBetween e (runTicks e (timesOf (withCfg c bs))).1 else 0) es ∧
    s'.mint = s.mint := by
  rw [C17_hist_run_fixed_cfg] at h
  obtain ⟨h1, h2, _⟩ := C17_hist_supply_and_accounts _ es s s' h
  rw [C17_hist_minted_fixed_cfg, (C17_hist_mint_once_per_ended_epoch c.mintId es _).2] at h1
  exact ⟨h1, h2⟩

/-! ## each validator's portion, over the whole validator loop -/

/-- One AllocateTokens call with non-zero total power: for EVERY operator address the outstanding rewards grow
by exactly the portions `valReward feeMultiplier total power` of its (found) validators and the accumulated
commission by exactly `round(portion × rate)` of each of them; nothing else is booked to either store. -/
theorem C17_hist_validator_portions (s : St) (total tax : Int) (vals : List ValIn) (s' : St)
    (h : allocateTokens s total tax vals = some s') (ht : total ≠ 0) (k : String) :
    getD s'.pool.outstanding k 0 =
      getD s.pool.outstanding k 0 + portionOf (feeMultiplier (s.fc * PREC) tax) total k vals ∧
    getD s'.pool.commission k 0 =
      getD s.pool.commission k 0 + commissionOf (feeMultiplier (s.fc * PREC) tax) total k vals := by
  unfold allocateTokens allocateTokensWith at h
  simp only [] at h
  have hb : (total == 0) = false := by simpa using ht
  simp only [hb, Bool.false_eq_true, if_false] at h
  split at h
  · cases h
  · rename_i p rem heq
    simp only [Option.some.injEq] at h; subst h
    exact valLoop_at _ _ k vals _ _ p rem heq

/-- Any two validators' portions are in the ratio of their voting powers within truncation (cross-multiplied:
portion(v)·power(w) ≤ portion(w)·power(v) + (1 + fm·10^-18)·power(v), in raw 10^-18 units), a validator without
power gets nothing, and equal powers get equal portions. -/
theorem C17_hist_portions_pairwise_proportional (fm total pv pw : Int)
    (hfm : 0 ≤ fm) (hpv : 0 ≤ pv) (hpw : 0 ≤ pw) (ht : 0 < total) :
    valReward fm total pv * pw * PREC ≤ (valReward fm total pw * PREC + PREC + fm) * pv ∧
    valReward fm total 0 = 0 ∧ (pv = pw → valReward fm total pv = valReward fm total pw) :=
  ⟨valReward_pairwise fm total pv pw hfm hpv hpw ht, valReward_zero_power fm total hfm ht, fun e => by rw [e]⟩

/-! ## each staker's reward, over the whole pay-out loop -/

/-- One AllocateTokensToStakers call with positive total staker power: EVERY staker's outstanding rewards grow by
exactly the truncated shares `stakerReward R power total` of its entry in the (duplicate-free, power-accumulated)
staker list; nothing else is booked to the staker store. -/
theorem C17_hist_staker_rewards (rw : Book) (c : Int) (occ : List (String × Int)) (R : Int) (rw' : Book) (c' : Int)
    (h : allocStakers rw c occ R = some (rw', c')) (ht : 0 < occTotal occ) (k : String) :
    getD rw' k 0 = getD rw k 0 + paidTo (occTotal occ) R k (powerAcc occ []) := by
  unfold allocStakers at h
  simp only [ht, if_true] at h
  split at h
  · cases h
  · rename_i rw2 rem2 heq
    simp only [Option.some.injEq, Prod.mk.injEq] at h
    obtain ⟨h1, _⟩ := h; subst h1
    exact stakerLoop_at _ _ k _ _ _ _ _ heq

/-- Each staker's share is proportional to its power within truncation: non-negative, never more than the exact
share (reward × total ≤ R × power) and short of it by less than one raw unit plus R × 10^-18. -/
theorem C17_hist_staker_share_proportional (R p total : Int) (hR : 0 ≤ R) (hp : 0 ≤ p) (ht : 0 < total) :
    0 ≤ stakerReward R p total ∧ stakerReward R p total * total ≤ R * p ∧
    R * p * PREC < (stakerReward R p total * PREC + PREC + R) * total := by
  obtain ⟨a, b⟩ := stakerReward_bounds R p total hR hp ht
  refine ⟨a, b, ?_⟩
  rw [stakerReward_eq R p total hR hp ht]
  exact frac_chain_lower PREC R p total PREC_pos hR ht

/-! ## non-vacuity: a history with a parameter change, a multi-epoch gap and two identifiers -/

private def minuteE : EpochInfo :=
  { identifier := "minute", startTime := 0, duration := 60, currentEpoch := 1, currentEpochStartTime := 0,
    epochCountingStarted := true, currentEpochStartHeight := 1 }
/-- an identifier that has not started counting: its first tick sends a start only -/
private def hourE : EpochInfo :=
  { identifier := "hour", startTime := 100, duration := 3600, currentEpoch := 0, currentEpochStartTime := 0,
    epochCountingStarted := false, currentEpochStartHeight := 0 }
private def cfgA : Cfg := { distrId := "minute", mintId := "minute", reward := 20, tax := PREC / 50 }
private def cfgB : Cfg := { distrId := "minute", mintId := "minute", reward := 7, tax := 0 }
private def s0 : St :=
  { supply := 5000, fc := 0, mint := 0, distr := 0,
    pool := { community := 0, commission := [], rewards := [], outstanding := [] } }
private def valsH : List ValIn :=
  [{ op := "a", power := 100, rate := 0, found := true, stakers := [("sa", 100 * PREC)] },
   { op := "b", power := 101, rate := PREC / 20, found := true, stakers := [("sb", 60 * PREC), ("sb", 41 * PREC)] }]
/-- minute epoch 1 ends in the first block; the second block comes 139 s later (epochs 2 and 3 are over): one
epoch is caught up in each of the next two blocks, under a changed configuration -/
private def histH : List (Cfg × Int × BlockIn) :=
  [(cfgA, 1000, { bt := 61, h := 2, total := 201, vals := valsH }),
   (cfgB, 5, { bt := 200, h := 3, total := 201, vals := valsH }),
   (cfgB, 0, { bt := 200, h := 4, total := 201, vals := valsH })]

example : (runBlocksV [hourE, minuteE] s0 histH).isSome = true := by decide
example : (runBlocksV [hourE, minuteE] s0 histH).map (fun s => (s.supply, s.mint, s.fc + s.distr)) =
    some (5000 + 20 + 7 + 7, 0, 1005 + 34) := by decide
example : mintedOver [hourE, minuteE] histH = 34 ∧ feesOver histH = 1005 := by decide
example : slack s0 = 0 ∧ claims s0.pool = s0.distr * PREC := by decide
-- three minute epochs ended, none of "hour" (it only started counting)
example : countEnds "minute" (clock [hourE, minuteE] (timesOf histH)).2 = 3 ∧
    countEnds "hour" (clock [hourE, minuteE] (timesOf histH)).2 = 0 ∧
    endedBetween minuteE (runTicks minuteE (timesOf histH)).1 = 3 ∧
    endedBetween hourE (runTicks hourE (timesOf histH)).1 = 0 := by decide
-- the portions of the first distribution: 980 units to share, powers 100 : 101
example : portionOf (980 * PREC) 201 "a" valsH = valReward (980 * PREC) 201 100 ∧
    commissionOf (980 * PREC) 201 "b" valsH = (Dec.mul ⟨valReward (980 * PREC) 201 101⟩ ⟨PREC / 20⟩).raw := by decide
example : valReward (980 * PREC) 201 100 * 101 * PREC ≤
    (valReward (980 * PREC) 201 101 * PREC + PREC + 980 * PREC) * 100 :=
  (C17_hist_portions_pairwise_proportional _ _ _ _ (by decide) (by decide) (by decide) (by decide)).1

-- a staker visited twice (60 + 41) is listed once with power 101 and paid once
example : powerAcc [("sb", 60 * PREC), ("sb", 41 * PREC)] [] = [("sb", 101 * PREC)] ∧
    paidTo (101 * PREC) (900 * PREC) "sb" [("sb", 101 * PREC)] = 900 * PREC := by decide
example : 0 ≤ stakerReward (900 * PREC) (60 * PREC) (101 * PREC) ∧
    stakerReward (900 * PREC) (60 * PREC) (101 * PREC) * (101 * PREC) ≤ 900 * PREC * (60 * PREC) :=
  let h := C17_hist_staker_share_proportional (900 * PREC) (60 * PREC) (101 * PREC) (by decide) (by decide) (by decide)
  ⟨h.1, h.2.1⟩

end ExoVerif.Distr
