import ExoVerif.Model.Genesis
import ExoVerif.Model.GenesisOperator
import ExoVerif.Props.C18
import ExoVerif.Props.C18Assets
/-!
# C18 — x/operator: operator infos, key records, opted states and USD values through export, Validate and import

`exportOperator` / `initOperator` / `validateOperator` mirror x/operator ExportGenesis / InitGenesis /
GenesisState.Validate (Model/GenesisOperator.lean); `optIn`, `optOut` and `epochEnd` are the writers of the USD values.

* `C18_roundtrip_operator_module`: for every state of the stores as the keepers leave them (`OpStoreInv`: distinct operator
  addresses, every stored earnings address set, the three keyed stores ascending with the key derived from the value)
  `initOperator (exportOperator s) = some s` — no panic, every collection reproduced entry by entry, in particular an
  earnings address that differs from the operator's own (`C18_operator_earnings_kept`); hence the same second export
  (`C18_operator_reexport`).
* validation: `C18_operator_export_validates` — C18 for the module's Validate at FULL strength on the code as it is (after
  the F-18o / F-18p / F-18r repairs): the export of every state of the stores as the keepers leave them (`OpStoreInv`,
  `OpValidInv`) passes GenesisState.Validate (`C18_operator_full_holds`). No extra hypothesis remains; the three value
  facts of `OpValidInv` the repaired clauses lean on (`usdOpted`, `avsBacked`, `activeCovered`) are invariants, proved
  inductive under the three writers of these stores: `C18_operator_inv_optIn`, `C18_operator_inv_optOut`,
  `C18_operator_inv_epochEnd` (OptIn, OptOut, UpdateVotingPower). `C18_operator_equal_figures_validate`: the boundary
  cases active = AVS value, self = total, all three zero.
  Regressions for the validator before the repairs (`validatePreFix`): three reachable exports it rejected, each one step
  of a modelled writer away from a state it accepted, each replayed on the real application by a boundary scenario of the
  `genesis` domain (silent on the repaired tree, a VIOLATION under the original sig when a repair is reverted):
  - `C18_regression_F18o`: OptIn writes the (AVS, operator) USD entry at once, the AVS's own USD value is first written at
    the AVS's next epoch end: "the parsed AVS address should be in the avsUSDValues map" (now: a missing value reads as 0);
  - `C18_regression_F18p`: UpdateVotingPower adds only the ACTIVE operators' totals to the AVS's value but stores the total
    of an operator below the minimum self delegation too; Validate compared every total with it (now: the active value);
  - `C18_regression_F18r`: an AVS nobody opted into gets USD value 0 at its epoch end; ValidateAVSUSDValues wanted the AVS
    in some opted state (now: a zero value is accepted);
  `C18_regression_operator_full_prefix_fails`, `C18_regression_prefix_validates_partial` (what the old validator accepted:
  only with the two extra hypotheses `AvsOpted`, `UsdCovered`).
* F-18q `C18_inactive_prev_key_resurrected` (core model of Props/C18): an operator that is not in the validator set
  replaces its key — x/dogfood deletes the old key's reverse lookup at once, the PrevConsKey record stays until the epoch
  ends; SetAllPrevConsKeys rebuilds the lookup of every exported previous key, so the re-imported chain holds a lookup
  the original does not (and nothing ever prunes it). A second, independent refutation of `C18_full` (open, like F-18i:
  the two are the only refutations left for the modules modelled here and in Props/C18).
-/
namespace ExoVerif.Genesis

/-! ## import loops -/

theorem initOperators_fresh (l pre : List (String × String)) (hn : ((pre ++ l).map (·.1)).Nodup)
    (he : ∀ o ∈ l, o.2 ≠ "") : initOperators l pre = some (pre ++ l) := by
  induction l generalizing pre with
  | nil => simp [initOperators]
  | cons o os ih =>
    have hnot : (pre.map (·.1)).contains o.1 = false := by
      rw [List.map_append, List.nodup_append] at hn
      apply Bool.eq_false_iff.mpr
      intro hc
      have hmem : o.1 ∈ pre.map (·.1) := by simpa using hc
      exact hn.2.2 _ hmem _ (by simp) rfl
    have hfill : fillEarnings o = o := by
      unfold fillEarnings
      simp [he o (by simp)]
    simp only [initOperators, hnot, Bool.false_eq_true, if_false, hfill]
    have := ih (pre ++ [o]) (by simpa [List.append_assoc] using hn) (fun q hq => he q (by simp [hq]))
    simpa [List.append_assoc] using this

theorem stepOptState_fresh (b : OptState) (pre : List (String × OptState)) (hlt : ∀ p ∈ pre, p.1 < b.key) (_ : True) :
    stepOptState b pre = some (pre ++ [(b.key, b)]) := by
  unfold stepOptState
  rw [ssSet_append _ _ _ hlt]

theorem stepUSD_fresh (b : OpUSD) (pre : List (String × OpUSD)) (hlt : ∀ p ∈ pre, p.1 < b.key) (_ : True) :
    stepUSD b pre = some (pre ++ [(b.key, b)]) := by
  unfold stepUSD
  rw [ssSet_append _ _ _ hlt]

theorem initAvsUsd_sorted (l pre : List (String × Int)) (hs : Sorted (pre ++ l)) : initAvsUsd l pre = pre ++ l := by
  induction l generalizing pre with
  | nil => simp [initAvsUsd]
  | cons a as ih =>
    have hlt : ∀ q ∈ pre, q.1 < a.1 := fun q hq => (List.pairwise_append.mp hs).2.2 q hq a (by simp)
    simp only [initAvsUsd, ssSet_append _ _ _ hlt]
    have := ih (pre ++ [a]) (by simpa [List.append_assoc] using hs)
    simpa [List.append_assoc] using this

theorem flatten_export_records (keys : List (String × String × String)) :
    flattenRecords ((groupAdj (fun k : String × String × String => k.1) keys).map (fun g => (g.1, g.2.map (·.2)))) = keys := by
  have := groupAdj_flat (fun k : String × String × String => k.1) (fun s r => (s, r.2.1, r.2.2)) (fun b => by cases b; rfl) keys
  simpa [flattenRecords, List.flatMap_map, List.map_map, Function.comp_def] using this

/-! ## the stores as the keepers leave them -/

structure OpStoreInv (s : OperatorMod) : Prop where
  /-- KeyPrefixOperatorInfo is keyed by the operator's address -/
  opsNodup : (s.operators.map (·.1)).Nodup
  /-- RegisterOperator: OperatorInfo.ValidateBasic wants a bech32 earnings address; InitGenesis fills an empty one -/
  earningsSet : ∀ o ∈ s.operators, o.2 ≠ ""
  optSorted : Sorted s.optStates
  /-- SetOptedInfo: key = GetJoinedStoreKey(operator, avs) -/
  optKey : ∀ p ∈ s.optStates, p.1 = p.2.key
  usdSorted : Sorted s.usd
  /-- InitOperatorUSDValue / UpdateOperatorUSDValue: key = GetJoinedStoreKey(avs, operator) -/
  usdKey : ∀ p ∈ s.usd, p.1 = p.2.key
  avsSorted : Sorted s.avsUsd

/-- **x/operator round trip.** Initialising an empty store from the exported document does not panic and reproduces the
    operator infos (earnings addresses included), the key records, the opted states and both kinds of USD values. -/
theorem C18_roundtrip_operator_module (s : OperatorMod) (h : OpStoreInv s) : initOperator (exportOperator s) = some s := by
  have ho := initOperators_fresh s.operators [] (by simpa using h.opsNodup) h.earningsSet
  have hs := runInit_sorted stepOptState OptState.key (fun _ => True) stepOptState_fresh s.optStates []
    (by simpa using h.optSorted) h.optKey (fun _ _ => trivial)
  have hu := runInit_sorted stepUSD OpUSD.key (fun _ => True) stepUSD_fresh s.usd []
    (by simpa using h.usdSorted) h.usdKey (fun _ _ => trivial)
  have ha := initAvsUsd_sorted s.avsUsd [] (by simpa using h.avsSorted)
  simp only [List.nil_append] at ho hs hu ha
  unfold initOperator exportOperator
  simp only [ho, hs, hu, ha, flatten_export_records]

/-- hence exporting the re-imported state yields the same document -/
theorem C18_operator_reexport (s : OperatorMod) (h : OpStoreInv s) :
    (initOperator (exportOperator s)).map exportOperator = some (exportOperator s) := by
  rw [C18_roundtrip_operator_module s h]; rfl

/-- in particular every operator keeps the earnings address it registered with, its own or another account's -/
theorem C18_operator_earnings_kept (s : OperatorMod) (h : OpStoreInv s) :
    (initOperator (exportOperator s)).map (·.operators) = some s.operators := by
  rw [C18_roundtrip_operator_module s h]; rfl

/-- an import that overwrote a set earnings address with the operator's own (`!=` for `==` in InitGenesis) would not: the
    model's `fillEarnings` leaves a set address alone and fills an empty one -/
theorem fillEarnings_spec (a e : String) : fillEarnings (a, e) = (a, if e = "" then a else e) := rfl

/-! ## validation of the export -/

/-- cross-collection facts of reachable states that the keepers maintain -/
structure OpValidInv (s : OperatorMod) : Prop where
  /-- the keys of one operator are adjacent in the store (the key starts with the operator's address) -/
  keyGroups : (dedupAdj (s.keys.map (·.1))).Nodup
  /-- setOperatorConsKeyForChainID is only reached for a registered operator -/
  keyOps : ∀ k ∈ s.keys, k.1 ∈ s.operators.map (·.1)
  /-- C07: per chain a consensus key belongs to one operator -/
  consDistinct : (s.keys.map (·.2)).Nodup
  /-- OptIn checks IsOperator; OptOut writes the current height, which is not below the opt-in height -/
  optOK : ∀ p ∈ s.optStates, p.2.operator ∈ s.operators.map (·.1) ∧ p.2.inH ≤ p.2.outH
  /-- UpdateVotingPower writes a sum of non-negative values -/
  avsNN : ∀ a ∈ s.avsUsd, 0 ≤ a.2
  /-- InitOperatorUSDValue writes zeros; UpdateVotingPower writes self ≤ total (a part of the operator's stake) and
      active ∈ {0, total}; the entry is written for a registered operator -/
  usdOK : ∀ p ∈ s.usd, 0 ≤ p.2.self ∧ p.2.self ≤ p.2.total ∧ 0 ≤ p.2.active ∧ p.2.active ≤ p.2.total ∧
            p.2.operator ∈ s.operators.map (·.1)
  /-- OptIn writes the (AVS, operator) USD entry together with the opted state, which is never deleted -/
  usdOpted : ∀ p ∈ s.usd, p.2.avs ∈ optedAVSs (s.optStates.map (·.2))
  /-- the AVS's value is the sum of the active values of its entries: a non-zero value has an entry, hence an opted state -/
  avsBacked : ∀ a ∈ s.avsUsd, a.2 ≠ 0 → a.1 ∈ optedAVSs (s.optStates.map (·.2))
  /-- an entry's active value is 0 from OptIn until the AVS's next epoch end, and one summand of the AVS's value after it -/
  activeCovered : ∀ p ∈ s.usd, p.2.active ≤ (avsValue s.avsUsd p.2.avs).getD 0

/-- the two hypotheses the PRE-FIX validator needed on top (both fail on reachable states: F-18r; F-18o, F-18p) -/
def AvsOpted (s : OperatorMod) : Prop := ∀ a ∈ s.avsUsd, a.1 ∈ optedAVSs (s.optStates.map (·.2))
def UsdCovered (s : OperatorMod) : Prop :=
  ∀ p ∈ s.usd, ∃ v, avsValue s.avsUsd p.2.avs = some v ∧ p.2.total ≤ v

theorem contains_of_mem (l : List String) (x : String) (h : x ∈ l) : l.contains x = true := by
  simpa using h

theorem sorted_keys_nodup {β : Type} (l : List (String × β)) (hs : Sorted l) : (l.map (·.1)).Nodup := by
  unfold List.Nodup
  rw [List.pairwise_map]
  exact hs.imp (by intro a b hab e; rw [e] at hab; exact String.lt_irrefl _ hab)

/-- the three checks the repairs did not touch -/
theorem export_validates_unrepaired (s : OperatorMod) (h : OpStoreInv s) (hv : OpValidInv s) :
    validateOperators (exportOperator s).operators = true ∧
    validateKeyRecords ((exportOperator s).operators.map (·.1)) (exportOperator s).records = true ∧
    validateOptStates ((exportOperator s).operators.map (·.1)) (exportOperator s).optStates = true := by
  refine ⟨decide_eq_true h.opsNodup, ?_, ?_⟩
  · have hflat : flattenRecords (exportOperator s).records = s.keys := flatten_export_records s.keys
    have hids : (exportOperator s).records.map (·.1) = dedupAdj (s.keys.map (·.1)) := by
      rw [← groupAdj_ids]
      simp only [exportOperator, List.map_map]
      apply List.map_congr_left; intro g _; rfl
    unfold validateKeyRecords
    rw [hflat, hids]
    simp only [Bool.and_eq_true, List.all_eq_true]
    refine ⟨⟨decide_eq_true hv.keyGroups, ?_⟩, decide_eq_true hv.consDistinct⟩
    intro r hr
    simp only [exportOperator] at hr
    obtain ⟨g, hg, rfl⟩ := List.mem_map.mp hr
    have hne := groupAdj_nonempty (fun k : String × String × String => k.1) s.keys g hg
    have hkey := groupAdj_key (fun k : String × String × String => k.1) s.keys g hg
    have hsub := groupAdj_sublist (fun k : String × String × String => k.1) s.keys g hg
    cases hg2 : g.2 with
    | nil => exact absurd hg2 hne
    | cons x xs =>
      have hx : x ∈ g.2 := by rw [hg2]; simp
      have := hv.keyOps x (hsub.subset hx)
      rw [hkey x hx] at this
      exact contains_of_mem _ _ this
  · unfold validateOptStates
    simp only [Bool.and_eq_true, List.all_eq_true]
    refine ⟨decide_eq_true (nodup_of_pairwise_lt _ OptState.key (sorted_values_distinct s.optStates OptState.key h.optKey h.optSorted)), ?_⟩
    intro o ho
    simp only [exportOperator] at ho
    obtain ⟨p, hp, rfl⟩ := List.mem_map.mp ho
    exact ⟨contains_of_mem _ _ (hv.optOK p hp).1, decide_eq_true (hv.optOK p hp).2⟩

/-- **C18 for the x/operator validation, at full strength, for the code as it is (after the F-18o / F-18p / F-18r
    repairs).** The export of every state of the stores as the keepers leave them validates — no hypothesis beyond the
    store invariants remains: an entry whose AVS has no value yet has active value 0 ≤ 0 (F-18o), an inactive operator's
    total is no longer compared with the AVS's value (F-18p), an AVS without opted state has value 0 (F-18r). The three
    value invariants (`usdOpted`, `avsBacked`, `activeCovered`) are inductive under OptIn, OptOut and UpdateVotingPower:
    `C18_operator_inv_optIn` / `_optOut` / `_epochEnd`. -/
theorem C18_operator_export_validates (s : OperatorMod) (h : OpStoreInv s) (hv : OpValidInv s) :
    validateOperator (exportOperator s) = true := by
  obtain ⟨hops, hkeys, hopt⟩ := export_validates_unrepaired s h hv
  have havs : validateAvsUsd codeOpValCfg (optedAVSs (exportOperator s).optStates) (exportOperator s).avsUsd = true := by
    unfold validateAvsUsd
    simp only [Bool.and_eq_true, List.all_eq_true]
    refine ⟨decide_eq_true (sorted_keys_nodup s.avsUsd h.avsSorted), ?_⟩
    intro a ha
    refine ⟨?_, decide_eq_true (hv.avsNN a ha)⟩
    by_cases hz : a.2 = 0
    · simp [codeOpValCfg, hz]
    · have hm := contains_of_mem _ _ (hv.avsBacked a ha hz)
      show ((optedAVSs (s.optStates.map (·.2))).contains a.1 || _) = true
      rw [hm]; rfl
  have husd : validateUSD codeOpValCfg ((exportOperator s).operators.map (·.1)) (exportOperator s).avsUsd (exportOperator s).usd = true := by
    unfold validateUSD
    simp only [Bool.and_eq_true, List.all_eq_true]
    refine ⟨decide_eq_true (nodup_of_pairwise_lt _ OpUSD.key (sorted_values_distinct s.usd OpUSD.key h.usdKey h.usdSorted)), ?_⟩
    intro u hu
    simp only [exportOperator] at hu
    obtain ⟨p, hp, rfl⟩ := List.mem_map.mp hu
    obtain ⟨a, b, c, d, e⟩ := hv.usdOK p hp
    have hcov := hv.activeCovered p hp
    have htot : 0 ≤ p.2.total := Int.le_trans a b
    have e1 : (exportOperator s).avsUsd = s.avsUsd := rfl
    have e2 : (exportOperator s).operators = s.operators := rfl
    unfold validateUSDItem
    rw [e1, e2]
    cases hav : avsValue s.avsUsd p.2.avs with
    | none =>
      rw [hav] at hcov
      simp only [Option.getD_none] at hcov
      simp [codeOpValCfg, a, htot, c, e, hcov, b, d]
    | some v =>
      rw [hav] at hcov
      simp only [Option.getD_some] at hcov
      simp [codeOpValCfg, a, htot, c, e, hcov, b, d]
  unfold validateOperator validateOperatorWith
  simp only [hops, hkeys, hopt, havs, husd, Bool.and_self]

/-- C18 for the x/operator validation at full strength -/
def C18_operator_full : Prop :=
  ∀ s : OperatorMod, OpStoreInv s → OpValidInv s → validateOperator (exportOperator s) = true

/-- … holds for the repaired code (before the repairs it was refuted three times: `C18_regression_F18o/p/r`). What is
    still refuted on the code as it is lies outside this module's Validate: `C18_full` of the core model, by F-18i
    (`C18_full_fails`) and F-18q (`C18_full_fails_inactive_prev`). -/
theorem C18_operator_full_holds : C18_operator_full := fun s h hv => C18_operator_export_validates s h hv

/-- Pre-repair regression: what the validator before the repairs accepted — only with the two extra hypotheses -/
theorem C18_regression_prefix_validates_partial (s : OperatorMod) (h : OpStoreInv s) (hv : OpValidInv s)
    (h1 : AvsOpted s) (h2 : UsdCovered s) : validatePreFix (exportOperator s) = true := by
  obtain ⟨hops, hkeys, hopt⟩ := export_validates_unrepaired s h hv
  have havs : validateAvsUsd preFixOpValCfg (optedAVSs (exportOperator s).optStates) (exportOperator s).avsUsd = true := by
    unfold validateAvsUsd
    simp only [Bool.and_eq_true, List.all_eq_true]
    refine ⟨decide_eq_true (sorted_keys_nodup s.avsUsd h.avsSorted), ?_⟩
    intro a ha
    have hm := contains_of_mem _ _ (h1 a ha)
    refine ⟨?_, decide_eq_true (hv.avsNN a ha)⟩
    show ((optedAVSs (s.optStates.map (·.2))).contains a.1 || _) = true
    rw [hm]; rfl
  have husd : validateUSD preFixOpValCfg ((exportOperator s).operators.map (·.1)) (exportOperator s).avsUsd (exportOperator s).usd = true := by
    unfold validateUSD
    simp only [Bool.and_eq_true, List.all_eq_true]
    refine ⟨decide_eq_true (nodup_of_pairwise_lt _ OpUSD.key (sorted_values_distinct s.usd OpUSD.key h.usdKey h.usdSorted)), ?_⟩
    intro u hu
    simp only [exportOperator] at hu
    obtain ⟨p, hp, rfl⟩ := List.mem_map.mp hu
    obtain ⟨a, b, c, d, e⟩ := hv.usdOK p hp
    obtain ⟨v, hv1, hv2⟩ := h2 p hp
    have htot : 0 ≤ p.2.total := Int.le_trans a b
    have hv1' : avsValue (exportOperator s).avsUsd p.2.avs = some v := hv1
    simp only [validateUSDItem, hv1', preFixOpValCfg, Bool.false_eq_true, if_false, Bool.and_eq_true, decide_eq_true_eq]
    exact ⟨⟨⟨⟨⟨⟨a, htot⟩, c⟩, contains_of_mem _ _ e⟩, hv2⟩, b⟩, d⟩
  unfold validatePreFix validateOperatorWith
  simp only [hops, hkeys, hopt, havs, husd, Bool.and_self]

/-! ## the value invariants are inductive under the writers -/

section Writers
variable {α : Type}

theorem mem_ssSet (k : String) (v : α) (l : List (String × α)) (x : String × α) (h : x ∈ ssSet k v l) : x = (k, v) ∨ x ∈ l := by
  induction l with
  | nil => simp [ssSet] at h; exact Or.inl h
  | cons p r ih =>
    obtain ⟨k', v'⟩ := p
    unfold ssSet at h
    by_cases e1 : k = k'
    · simp only [e1, if_true, List.mem_cons] at h
      rcases h with h | h
      · left; rw [h, e1]
      · right; simp [h]
    · by_cases e2 : k < k'
      · simp only [e1, e2, if_true, if_false, List.mem_cons] at h
        rcases h with h | h | h
        · left; exact h
        · right; simp [h]
        · right; simp [h]
      · simp only [e1, e2, if_false, List.mem_cons] at h
        rcases h with h | h
        · right; simp [h]
        · rcases ih h with h' | h'
          · left; exact h'
          · right; simp [h']

theorem mem_ssSet_self (k : String) (v : α) (l : List (String × α)) : (k, v) ∈ ssSet k v l := by
  induction l with
  | nil => simp [ssSet]
  | cons p r ih =>
    obtain ⟨k', v'⟩ := p
    unfold ssSet
    by_cases e1 : k = k'
    · simp [e1]
    · by_cases e2 : k < k'
      · simp [e1, e2]
      · simp only [e1, e2, if_false, List.mem_cons]; right; exact ih

theorem mem_ssSet_of_ne (k : String) (v : α) (l : List (String × α)) (x : String × α) (h : x ∈ l) (hne : x.1 ≠ k) :
    x ∈ ssSet k v l := by
  induction l with
  | nil => simp at h
  | cons p r ih =>
    obtain ⟨k', v'⟩ := p
    unfold ssSet
    by_cases e1 : k = k'
    · simp only [e1, if_true, List.mem_cons]
      rcases List.mem_cons.mp h with h | h
      · exfalso; apply hne; rw [h, e1]
      · right; exact h
    · by_cases e2 : k < k'
      · simp only [e1, e2, if_true, if_false, List.mem_cons]; right; exact List.mem_cons.mp h
      · simp only [e1, e2, if_false, List.mem_cons]
        rcases List.mem_cons.mp h with h | h
        · left; exact h
        · right; exact ih h

end Writers

theorem avsValue_ssSet_self (k : String) (v : Int) (l : List (String × Int)) : avsValue (ssSet k v l) k = some v := by
  induction l with
  | nil => simp [ssSet, avsValue]
  | cons p r ih =>
    obtain ⟨k', v'⟩ := p
    unfold ssSet
    by_cases e1 : k = k'
    · simp [e1, avsValue]
    · by_cases e2 : k < k'
      · simp [e1, e2, avsValue]
      · have hne : (k' == k) = false := by simpa using fun h : k' = k => e1 h.symm
        simp only [e1, e2, if_false]
        unfold avsValue at ih ⊢
        simp only [List.find?, hne]
        exact ih

theorem avsValue_ssSet_other (k k2 : String) (v : Int) (l : List (String × Int)) (hne : k2 ≠ k) :
    avsValue (ssSet k v l) k2 = avsValue l k2 := by
  have hk : (k == k2) = false := by simpa using fun h : k = k2 => hne h.symm
  induction l with
  | nil => simp [ssSet, avsValue, hk]
  | cons p r ih =>
    obtain ⟨k', v'⟩ := p
    unfold ssSet
    by_cases e1 : k = k'
    · have hk' : (k' == k2) = false := by rw [← e1]; exact hk
      simp [e1, avsValue, List.find?, hk']
    · by_cases e2 : k < k'
      · simp [e1, e2, avsValue, List.find?, hk]
      · simp only [e1, e2, if_false]
        unfold avsValue at ih ⊢
        by_cases e3 : (k' == k2) = true
        · simp [List.find?, e3]
        · have e3' : (k' == k2) = false := by simpa using e3
          simp only [List.find?, e3']
          exact ih

/-- the opted AVSs only grow when an opted state is written under a key whose old entry (if any) names the same AVS -/
theorem optedAVSs_ssSet (k : String) (v : OptState) (l : List (String × OptState)) (a : String)
    (hk : ∀ q ∈ l, q.1 = k → q.2.avs = v.avs) (ha : a ∈ optedAVSs (l.map (·.2))) :
    a ∈ optedAVSs ((ssSet k v l).map (·.2)) := by
  simp only [optedAVSs, List.map_map, List.mem_map, Function.comp] at ha ⊢
  obtain ⟨q, hq, rfl⟩ := ha
  by_cases e : q.1 = k
  · exact ⟨(k, v), mem_ssSet_self k v l, (hk q hq e).symm⟩
  · exact ⟨q, mem_ssSet_of_ne k v l q hq e, rfl⟩

theorem avsValue_nonneg (l : List (String × Int)) (h : ∀ a ∈ l, 0 ≤ a.2) (k : String) : 0 ≤ (avsValue l k).getD 0 := by
  unfold avsValue
  cases hf : l.find? (fun a => a.1 == k) with
  | none => simp
  | some a => simpa using h a (List.mem_of_find?_eq_some hf)

/-- the part of `OpValidInv` that concerns the USD values -/
structure ValueInv (s : OperatorMod) : Prop where
  avsNN : ∀ a ∈ s.avsUsd, 0 ≤ a.2
  activeNN : ∀ p ∈ s.usd, 0 ≤ p.2.active
  usdOpted : ∀ p ∈ s.usd, p.2.avs ∈ optedAVSs (s.optStates.map (·.2))
  avsBacked : ∀ a ∈ s.avsUsd, a.2 ≠ 0 → a.1 ∈ optedAVSs (s.optStates.map (·.2))
  activeCovered : ∀ p ∈ s.usd, p.2.active ≤ (avsValue s.avsUsd p.2.avs).getD 0

theorem OpValidInv.values {s : OperatorMod} (hv : OpValidInv s) : ValueInv s :=
  ⟨hv.avsNN, fun p hp => (hv.usdOK p hp).2.2.1, hv.usdOpted, hv.avsBacked, hv.activeCovered⟩

/-- **OptIn keeps the value invariants** (`hk`: an opted state already stored under the key operator/avs — an earlier,
    opted-out one — names the same AVS: keys are built from the two ids, which contain no "/") -/
theorem C18_operator_inv_optIn (s : OperatorMod) (operator avs : String) (height : Nat) (h : ValueInv s)
    (hk : ∀ q ∈ s.optStates, q.1 = joinKey operator avs → q.2.avs = avs) : ValueInv (optIn s operator avs height) := by
  have hmono : ∀ a, a ∈ optedAVSs (s.optStates.map (·.2)) → a ∈ optedAVSs ((optIn s operator avs height).optStates.map (·.2)) :=
    fun a ha => optedAVSs_ssSet _ _ _ a hk ha
  have hnew : avs ∈ optedAVSs ((optIn s operator avs height).optStates.map (·.2)) := by
    simp only [optedAVSs, List.map_map, List.mem_map, Function.comp]
    exact ⟨_, mem_ssSet_self _ _ _, rfl⟩
  refine ⟨h.avsNN, ?_, ?_, fun a ha hz => hmono _ (h.avsBacked a ha hz), ?_⟩
  · intro p hp
    rcases mem_ssSet _ _ _ p hp with rfl | hp
    · exact Int.le_refl 0
    · exact h.activeNN p hp
  · intro p hp
    rcases mem_ssSet _ _ _ p hp with rfl | hp
    · exact hnew
    · exact hmono _ (h.usdOpted p hp)
  · intro p hp
    rcases mem_ssSet _ _ _ p hp with rfl | hp
    · exact avsValue_nonneg s.avsUsd h.avsNN avs
    · exact h.activeCovered p hp

/-- **OptOut keeps the value invariants**: the entry goes, the opted state stays (with its AVS) -/
theorem C18_operator_inv_optOut (s : OperatorMod) (operator avs : String) (height : Nat) (h : ValueInv s) :
    ValueInv (optOut s operator avs height) := by
  have hsame : optedAVSs ((optOut s operator avs height).optStates.map (·.2)) = optedAVSs (s.optStates.map (·.2)) := by
    simp only [optOut, optedAVSs, List.map_map]
    apply List.map_congr_left
    intro p _
    by_cases e : p.1 = joinKey operator avs <;> simp [e]
  have hsub : ∀ p ∈ (optOut s operator avs height).usd, p ∈ s.usd := fun p hp => (List.mem_filter.mp hp).1
  refine ⟨h.avsNN, fun p hp => h.activeNN p (hsub p hp), ?_, ?_, fun p hp => h.activeCovered p (hsub p hp)⟩
  · intro p hp; rw [hsame]; exact h.usdOpted p (hsub p hp)
  · intro a ha hz; rw [hsame]; exact h.avsBacked a ha hz

theorem foldl_active_ge (l : List OpUSD) (hnn : ∀ u ∈ l, 0 ≤ u.active) (acc : Int) :
    acc ≤ l.foldl (fun a u => a + u.active) acc ∧ ∀ x ∈ l, acc + x.active ≤ l.foldl (fun a u => a + u.active) acc := by
  induction l generalizing acc with
  | nil => simp
  | cons u r ih =>
    have hu := hnn u (by simp)
    obtain ⟨h1, h2⟩ := ih (fun x hx => hnn x (by simp [hx])) (acc + u.active)
    simp only [List.foldl_cons]
    refine ⟨by omega, ?_⟩
    intro x hx
    rcases List.mem_cons.mp hx with rfl | hx
    · exact h1
    · have := h2 x hx
      omega

theorem foldl_active_zero (l : List OpUSD) (hz : ∀ u ∈ l, u.active = 0) (acc : Int) :
    l.foldl (fun a u => a + u.active) acc = acc := by
  induction l generalizing acc with
  | nil => rfl
  | cons u r ih =>
    simp only [List.foldl_cons, hz u (by simp), Int.add_zero]
    exact ih (fun x hx => hz x (by simp [hx])) acc

/-- **UpdateVotingPower keeps the value invariants** (`hst`: CalculateUSDValueForOperator returns a non-negative total) -/
theorem C18_operator_inv_epochEnd (s : OperatorMod) (avs : String) (minSelf : Int) (stake : String → Int × Int)
    (h : ValueInv s) (hst : ∀ o, 0 ≤ (stake o).2) : ValueInv (epochEnd s avs minSelf stake) := by
  -- the updated entries
  let upd : OpUSD → OpUSD := fun u =>
    if u.avs = avs then ⟨u.avs, u.operator, (stake u.operator).1, (stake u.operator).2, if minSelf ≤ (stake u.operator).1 then (stake u.operator).2 else 0⟩
    else u
  have hupd_avs : ∀ u, (upd u).avs = u.avs := by
    intro u; simp only [upd]; by_cases e : u.avs = avs <;> simp [e]
  have hupd_nn : ∀ u, 0 ≤ u.active → 0 ≤ (upd u).active := by
    intro u hu; simp only [upd]
    by_cases e : u.avs = avs
    · simp only [e, if_true]
      by_cases e2 : minSelf ≤ (stake u.operator).1
      · simp only [e2, if_true]; exact hst _
      · simp only [e2, if_false]; exact Int.le_refl 0
    · simp [e, hu]
  have husd : (epochEnd s avs minSelf stake).usd = s.usd.map (fun p => (p.1, upd p.2)) := rfl
  let members := ((s.usd.map (fun p => (p.1, upd p.2))).map (·.2)).filter (fun u => u.avs == avs)
  have hmem_nn : ∀ u ∈ members, 0 ≤ u.active := by
    intro u hu
    obtain ⟨hu1, _⟩ := List.mem_filter.mp hu
    simp only [List.map_map, List.mem_map, Function.comp] at hu1
    obtain ⟨p, hp, rfl⟩ := hu1
    exact hupd_nn _ (h.activeNN p hp)
  have havs : (epochEnd s avs minSelf stake).avsUsd = ssSet avs (members.foldl (fun a u => a + u.active) 0) s.avsUsd := rfl
  have hpow_nn : 0 ≤ members.foldl (fun a u => a + u.active) 0 := (foldl_active_ge members hmem_nn 0).1
  refine ⟨?_, ?_, ?_, ?_, ?_⟩
  · intro a ha
    rw [havs] at ha
    rcases mem_ssSet _ _ _ a ha with rfl | ha
    · exact hpow_nn
    · exact h.avsNN a ha
  · intro p hp
    rw [husd] at hp
    obtain ⟨q, hq, rfl⟩ := List.mem_map.mp hp
    exact hupd_nn _ (h.activeNN q hq)
  · intro p hp
    rw [husd] at hp
    obtain ⟨q, hq, rfl⟩ := List.mem_map.mp hp
    show (upd q.2).avs ∈ _
    rw [hupd_avs]
    exact h.usdOpted q hq
  · intro a ha hz
    rw [havs] at ha
    rcases mem_ssSet _ _ _ a ha with rfl | ha
    · -- a non-zero sum has a summand: an entry of the AVS, hence an opted state
      apply Classical.byContradiction
      intro hno
      apply hz
      show members.foldl (fun a u => a + u.active) 0 = 0
      cases hm : members with
      | nil => rfl
      | cons u r =>
        exfalso
        have hu : u ∈ members := by rw [hm]; simp
        obtain ⟨hu1, hu2⟩ := List.mem_filter.mp hu
        simp only [List.map_map, List.mem_map, Function.comp] at hu1
        obtain ⟨p, hp, rfl⟩ := hu1
        have e : (upd p.2).avs = avs := by simpa using hu2
        rw [hupd_avs] at e
        exact hno (e ▸ h.usdOpted p hp)
    · exact h.avsBacked a ha hz
  · intro p hp
    rw [husd] at hp
    obtain ⟨q, hq, rfl⟩ := List.mem_map.mp hp
    show (upd q.2).active ≤ (avsValue (epochEnd s avs minSelf stake).avsUsd (upd q.2).avs).getD 0
    rw [havs, hupd_avs]
    by_cases e : q.2.avs = avs
    · rw [e, avsValue_ssSet_self]
      have hin : upd q.2 ∈ members := by
        apply List.mem_filter.mpr
        refine ⟨?_, by simp [hupd_avs, e]⟩
        simp only [List.map_map, List.mem_map, Function.comp]
        exact ⟨q, hq, rfl⟩
      have := (foldl_active_ge members hmem_nn 0).2 _ hin
      simpa using this
    · rw [avsValue_ssSet_other _ _ _ _ e]
      have : upd q.2 = q.2 := by simp [upd, e]
      rw [this]
      exact h.activeCovered q hq

/-! ### witnesses -/

def opA : String := "exo1aaa"
def opB : String := "exo1bbb"
def opC : String := "exo1ccc"
def chainAVS : String := "0x0a71"
def avs2 : String := "0xB2E7"
def never : Nat := 18446744073709551615

/-- three validators of the chain's own AVS (minimum self delegation 100) with self stakes 101 / 100 / 150 as the harness
    boots them; opC registered with ANOTHER account as earnings address -/
def baseState : OperatorMod :=
  { operators := [(opA, opA), (opB, opB), (opC, "exo1earn")],
    keys := [(opA, "exocoretestnet", "consA"), (opB, "exocoretestnet", "consB"), (opC, "exocoretestnet", "consC")],
    optStates := [(joinKey opA chainAVS, ⟨opA, chainAVS, 1, never⟩), (joinKey opB chainAVS, ⟨opB, chainAVS, 1, never⟩),
                  (joinKey opC chainAVS, ⟨opC, chainAVS, 1, never⟩)],
    usd := [(joinKey chainAVS opA, ⟨chainAVS, opA, 101, 101, 101⟩), (joinKey chainAVS opB, ⟨chainAVS, opB, 100, 100, 100⟩),
            (joinKey chainAVS opC, ⟨chainAVS, opC, 150, 150, 150⟩)],
    avsUsd := [(chainAVS, 351)] }

instance {α : Type} (l : List (String × α)) : Decidable (Sorted l) := by unfold Sorted; infer_instance

theorem storeInv_of_decide (s : OperatorMod)
    (h : (decide ((s.operators.map (·.1)).Nodup) && s.operators.all (fun o => o.2 != "") &&
         decide (Sorted s.optStates) && s.optStates.all (fun p => p.1 == p.2.key) &&
         decide (Sorted s.usd) && s.usd.all (fun p => p.1 == p.2.key) && decide (Sorted s.avsUsd)) = true) : OpStoreInv s := by
  simp only [Bool.and_eq_true, decide_eq_true_eq, List.all_eq_true, bne_iff_ne, ne_eq, beq_iff_eq] at h
  obtain ⟨⟨⟨⟨⟨⟨a, b⟩, c⟩, d⟩, e⟩, f⟩, g⟩ := h
  exact ⟨a, b, c, d, e, f, g⟩

theorem validInv_of_decide (s : OperatorMod)
    (h : (decide ((dedupAdj (s.keys.map (·.1))).Nodup) && s.keys.all (fun k => (s.operators.map (·.1)).contains k.1) &&
         decide ((s.keys.map (·.2)).Nodup) &&
         s.optStates.all (fun p => (s.operators.map (·.1)).contains p.2.operator && decide (p.2.inH ≤ p.2.outH)) &&
         s.avsUsd.all (fun a => decide (0 ≤ a.2)) &&
         s.usd.all (fun p => decide (0 ≤ p.2.self) && decide (p.2.self ≤ p.2.total) && decide (0 ≤ p.2.active) &&
                      decide (p.2.active ≤ p.2.total) && (s.operators.map (·.1)).contains p.2.operator) &&
         s.usd.all (fun p => (optedAVSs (s.optStates.map (·.2))).contains p.2.avs) &&
         s.avsUsd.all (fun a => a.2 == 0 || (optedAVSs (s.optStates.map (·.2))).contains a.1) &&
         s.usd.all (fun p => decide (p.2.active ≤ (avsValue s.avsUsd p.2.avs).getD 0))) = true) : OpValidInv s := by
  simp only [Bool.and_eq_true, Bool.or_eq_true, decide_eq_true_eq, List.all_eq_true, List.contains_iff_mem, beq_iff_eq] at h
  obtain ⟨⟨⟨⟨⟨⟨⟨⟨a, b⟩, c⟩, d⟩, e⟩, f⟩, g⟩, i⟩, j⟩ := h
  refine ⟨a, ?_, c, ?_, e, ?_, ?_, ?_, j⟩
  · intro k hk; simpa using b k hk
  · intro p hp; have := d p hp; exact ⟨by simpa using this.1, this.2⟩
  · intro p hp
    obtain ⟨⟨⟨⟨x1, x2⟩, x3⟩, x4⟩, x5⟩ := f p hp
    exact ⟨x1, x2, x3, x4, by simpa using x5⟩
  · intro p hp; simpa using g p hp
  · intro x hx hz
    rcases i x hx with h0 | h1
    · exact absurd h0 hz
    · simpa using h1

theorem baseState_store : OpStoreInv baseState := storeInv_of_decide _ (by decide)
theorem baseState_valid : OpValidInv baseState := validInv_of_decide _ (by decide)

/-- a non-trivial state meets the invariants; its export validates (before and after the repairs) and re-imports -/
example : validateOperator (exportOperator baseState) = true := by decide
example : validatePreFix (exportOperator baseState) = true := by decide
example : initOperator (exportOperator baseState) = some baseState := by decide

/-- boundary: ONE operator in an AVS (its total EQUALS the AVS's value), self = total = active; a second entry 0/0/0 -/
def singleState : OperatorMod :=
  { baseState with
    optStates := [(joinKey opA chainAVS, ⟨opA, chainAVS, 1, never⟩), (joinKey opA avs2, ⟨opA, avs2, 5, never⟩),
                  (joinKey opB chainAVS, ⟨opB, chainAVS, 1, never⟩), (joinKey opB avs2, ⟨opB, avs2, 7, 7⟩),
                  (joinKey opC chainAVS, ⟨opC, chainAVS, 1, never⟩)],
    usd := [(joinKey chainAVS opA, ⟨chainAVS, opA, 101, 101, 101⟩), (joinKey chainAVS opB, ⟨chainAVS, opB, 0, 0, 0⟩),
            (joinKey chainAVS opC, ⟨chainAVS, opC, 150, 150, 150⟩), (joinKey avs2 opA, ⟨avs2, opA, 101, 101, 101⟩)],
    avsUsd := [(chainAVS, 251), (avs2, 101)] }

theorem C18_operator_equal_figures_validate :
    OpStoreInv singleState ∧ OpValidInv singleState ∧ validateOperator (exportOperator singleState) = true ∧
    initOperator (exportOperator singleState) = some singleState :=
  ⟨storeInv_of_decide _ (by decide), validInv_of_decide _ (by decide), by decide, by decide⟩

/-- **F-18o (repaired).** opA opts into avs2 (registered in the running epoch, no USD value written yet) -/
def optedInState : OperatorMod :=
  { baseState with
    optStates := [(joinKey opA chainAVS, ⟨opA, chainAVS, 1, never⟩), (joinKey opA avs2, ⟨opA, avs2, 5, never⟩),
                  (joinKey opB chainAVS, ⟨opB, chainAVS, 1, never⟩), (joinKey opC chainAVS, ⟨opC, chainAVS, 1, never⟩)],
    usd := baseState.usd ++ [(joinKey avs2 opA, ⟨avs2, opA, 0, 0, 0⟩)] }

/-- it is what OptIn makes of the base state -/
theorem optedInState_reached : optIn baseState opA avs2 5 = optedInState := by decide

/-- the reachable export the pre-repair validator rejected ("the parsed AVS address should be in the avsUSDValues map");
    the repaired one accepts it, and it re-imports -/
theorem C18_regression_F18o :
    OpStoreInv optedInState ∧ OpValidInv optedInState ∧ validatePreFix (exportOperator optedInState) = false ∧
    validateOperator (exportOperator optedInState) = true ∧ initOperator (exportOperator optedInState) = some optedInState :=
  ⟨storeInv_of_decide _ (by decide), validInv_of_decide _ (by decide), by decide, by decide, by decide⟩

/-- one AVS epoch end later the pre-repair validator accepted the state too: the gap was the epoch of the opt-in -/
example : validatePreFix (exportOperator (epochEnd optedInState avs2 0 (fun _ => (101, 101)))) = true := by decide

/-- **F-18p (repaired).** opB undelegated 10 of its own 100 (self 90 < 100: inactive) and stakers delegated 300 to it: at
    the epoch end its total is 390, the AVS's value 101 + 150 -/
def inactiveState : OperatorMod :=
  { baseState with
    usd := [(joinKey chainAVS opA, ⟨chainAVS, opA, 101, 101, 101⟩), (joinKey chainAVS opB, ⟨chainAVS, opB, 90, 390, 0⟩),
            (joinKey chainAVS opC, ⟨chainAVS, opC, 150, 150, 150⟩)],
    avsUsd := [(chainAVS, 251)] }

/-- it is what UpdateVotingPower (minimum self delegation 100) makes of the base state with these stakes -/
theorem inactiveState_reached :
    epochEnd baseState chainAVS 100 (fun o => if o = opB then (90, 390) else if o = opA then (101, 101) else (150, 150)) =
      inactiveState := by decide

/-- rejected before the repair ("the total USD value of operator shouldn't be greater than the total USD value of the
    AVS"), accepted now -/
theorem C18_regression_F18p :
    OpStoreInv inactiveState ∧ OpValidInv inactiveState ∧ validatePreFix (exportOperator inactiveState) = false ∧
    validateOperator (exportOperator inactiveState) = true ∧ initOperator (exportOperator inactiveState) = some inactiveState :=
  ⟨storeInv_of_decide _ (by decide), validInv_of_decide _ (by decide), by decide, by decide, by decide⟩

/-- **F-18r (repaired).** avs2 exists, nobody opted in, its epoch ends -/
def lonelyAvsState : OperatorMod := { baseState with avsUsd := [(chainAVS, 351), (avs2, 0)] }

theorem lonelyAvsState_reached : epochEnd baseState avs2 0 (fun _ => (0, 0)) = lonelyAvsState := by decide

/-- rejected before the repair ("the avs address should be in the opted-in map"), accepted now -/
theorem C18_regression_F18r :
    OpStoreInv lonelyAvsState ∧ OpValidInv lonelyAvsState ∧ validatePreFix (exportOperator lonelyAvsState) = false ∧
    validateOperator (exportOperator lonelyAvsState) = true ∧ initOperator (exportOperator lonelyAvsState) = some lonelyAvsState :=
  ⟨storeInv_of_decide _ (by decide), validInv_of_decide _ (by decide), by decide, by decide, by decide⟩

/-- the full statement was false for the pre-repair validator -/
theorem C18_regression_operator_full_prefix_fails :
    ¬ (∀ s : OperatorMod, OpStoreInv s → OpValidInv s → validatePreFix (exportOperator s) = true) := by
  intro h
  have := h optedInState C18_regression_F18o.1 C18_regression_F18o.2.1
  rw [C18_regression_F18o.2.2.1] at this
  exact Bool.false_ne_true this

/-- the repaired validator still rejects what it should: an AVS value that is not zero for an AVS without opted state, an
    active value above the AVS's value, an active value above zero for an AVS without value -/
example : validateOperator (exportOperator { baseState with avsUsd := [(chainAVS, 351), (avs2, 5)] }) = false := by decide
example : validateOperator (exportOperator { baseState with avsUsd := [(chainAVS, 100)] }) = false := by decide
example : validateOperator (exportOperator { baseState with avsUsd := [] }) = false := by decide

/-! ## F-18q: the reverse lookup of a previous key of an operator outside the validator set -/

/-- op1 is not in the validator set (below the minimum self delegation since the last epoch end) and replaced "oldCons" by
    "newCons": AfterOperatorKeyReplaced deleted the reverse lookup of "oldCons" at once, the PrevConsKey record is still
    there (ClearPreviousConsensusKeys runs at the epoch end) -/
def inactivePrevWitness : Core :=
  { unds := [], queues := [], curKeys := [("op1", "newCons"), ("op2", "cons2")], prevKeys := [("op1", "oldCons")],
    reverse := [("newCons", "op1"), ("cons2", "op2")], vals := [("cons2", 150)], epochs := [] }

theorem inactivePrevWitness_inv : Inv inactivePrevWitness := by
  refine ⟨?_, by unfold StoreOrdered; decide, ?_, ?_⟩
  · intro q hq; simp [inactivePrevWitness] at hq
  · intro e he; simp [inactivePrevWitness] at he
  · intro u hu; simp [inactivePrevWitness] at hu

/-- the re-imported chain resolves "oldCons" to op1 again; the original chain does not -/
theorem C18_inactive_prev_key_resurrected :
    Inv inactivePrevWitness ∧
    (roundtrip codePrefixes 0 0 inactivePrevWitness).reverse = [("newCons", "op1"), ("cons2", "op2"), ("oldCons", "op1")] ∧
    (roundtrip codePrefixes 0 0 inactivePrevWitness).reverse ≠ inactivePrevWitness.reverse ∧
    (roundtrip codePrefixes 0 0 inactivePrevWitness).queues = [] :=
  ⟨inactivePrevWitness_inv, by decide, by decide, by decide⟩

/-- a second refutation of the core statement, independent of F-18i -/
theorem C18_full_fails_inactive_prev : ¬ C18_full := by
  intro hfull
  have := (hfull 0 0 inactivePrevWitness inactivePrevWitness_inv).2.2.2.2.1
  revert this
  decide

end ExoVerif.Genesis
