import ExoVerif.Model.Genesis
import ExoVerif.Model.GenesisOperator
import ExoVerif.Props.C18
import ExoVerif.Props.C18Assets
/-!
# C18 — x/operator: operator infos, key records, opted states and USD values through export, Validate and import

`exportOperator` / `initOperator` / `validateOperator` mirror x/operator ExportGenesis / InitGenesis /
GenesisState.Validate (Model/GenesisOperator.lean); `optIn` and `epochEnd` are the two writers of the USD values.

* `C18_roundtrip_operator_module`: for every state of the stores as the keepers leave them (`OpStoreInv`: distinct operator
  addresses, every stored earnings address set, the three keyed stores ascending with the key derived from the value)
  `initOperator (exportOperator s) = some s` — no panic, every collection reproduced entry by entry, in particular an
  earnings address that differs from the operator's own (`C18_operator_earnings_kept`); hence the same second export
  (`C18_operator_reexport`).
* validation: `C18_operator_full` (the export of every such state whose cross references are those of reachable states —
  `OpValidInv` — validates) is REFUTED by three machine-checked witnesses, each one step of a modelled writer away from a
  state that validates, each reproduced on the real application by a boundary scenario of the `genesis` domain:
  - F-18o `C18_operator_optin_before_epoch_end_fails`: OptIn writes the (AVS, operator) USD entry at once, the AVS's own
    USD value is first written at the AVS's next epoch end: "the parsed AVS address should be in the avsUSDValues map";
  - F-18p `C18_operator_inactive_total_fails`: UpdateVotingPower adds only the ACTIVE operators' totals to the AVS's value
    but stores the total of an operator below the minimum self delegation too; Validate compares every total with it;
  - F-18r `C18_operator_avs_without_operators_fails`: an AVS nobody opted into gets USD value 0 at its epoch end;
    ValidateAVSUSDValues wants the AVS in some opted state.
  `C18_operator_export_validates_partial` is what holds: with the two extra hypotheses explicit (every AVS USD value
  belongs to an AVS of some opted state; every (AVS, operator) entry's AVS has a USD value not below the entry's total)
  the export passes Validate — in particular in the boundary cases total = AVS value, self = total, all three zero.
* F-18q `C18_inactive_prev_key_resurrected` (core model of Props/C18): an operator that is not in the validator set
  replaces its key — x/dogfood deletes the old key's reverse lookup at once, the PrevConsKey record stays until the epoch
  ends; SetAllPrevConsKeys rebuilds the lookup of every exported previous key, so the re-imported chain holds a lookup
  the original does not (and nothing ever prunes it). A second, independent refutation of `C18_full`.
-/
namespace ExoVerif.Genesis

/-! ## import loops -/

theorem initOperators_fresh (l pre : List (String × String)) (hn : ((pre ++ l).map (·.1)).Nodup)
    (he : ∀ o ∈ l, o.2 ≠ "") : initOperators l pre = some (pre ++ l) := by
  induction l generalizing pre with
  | nil => simp [initOperators]
  | cons o os ih =>
    have hnot : (pre.map (·.1)).contains o.1 = false := by
      rw [List.map_append, List.nodup_append] at hn
      apply Bool.eq_false_iff.mpr
      intro hc
      have hmem : o.1 ∈ pre.map (·.1) := by simpa using hc
      exact hn.2.2 _ hmem _ (by simp) rfl
    have hfill : fillEarnings o = o := by
      unfold fillEarnings
      simp [he o (by simp)]
    simp only [initOperators, hnot, Bool.false_eq_true, if_false, hfill]
    have := ih (pre ++ [o]) (by simpa [List.append_assoc] using hn) (fun q hq => he q (by simp [hq]))
    simpa [List.append_assoc] using this

theorem stepOptState_fresh (b : OptState) (pre : List (String × OptState)) (hlt : ∀ p ∈ pre, p.1 < b.key) (_ : True) :
    stepOptState b pre = some (pre ++ [(b.key, b)]) := by
  unfold stepOptState
  rw [ssSet_append _ _ _ hlt]

theorem stepUSD_fresh (b : OpUSD) (pre : List (String × OpUSD)) (hlt : ∀ p ∈ pre, p.1 < b.key) (_ : True) :
    stepUSD b pre = some (pre ++ [(b.key, b)]) := by
  unfold stepUSD
  rw [ssSet_append _ _ _ hlt]

theorem initAvsUsd_sorted (l pre : List (String × Int)) (hs : Sorted (pre ++ l)) : initAvsUsd l pre = pre ++ l := by
  induction l generalizing pre with
  | nil => simp [initAvsUsd]
  | cons a as ih =>
    have hlt : ∀ q ∈ pre, q.1 < a.1 := fun q hq => (List.pairwise_append.mp hs).2.2 q hq a (by simp)
    simp only [initAvsUsd, ssSet_append _ _ _ hlt]
    have := ih (pre ++ [a]) (by simpa [List.append_assoc] using hs)
    simpa [List.append_assoc] using this

theorem flatten_export_records (keys : List (String × String × String)) :
    flattenRecords ((groupAdj (fun k : String × String × String => k.1) keys).map (fun g => (g.1, g.2.map (·.2)))) = keys := by
  have := groupAdj_flat (fun k : String × String × String => k.1) (fun s r => (s, r.2.1, r.2.2)) (fun b => by cases b; rfl) keys
  simpa [flattenRecords, List.flatMap_map, List.map_map, Function.comp_def] using this

/-! ## the stores as the keepers leave them -/

structure OpStoreInv (s : OperatorMod) : Prop where
  /-- KeyPrefixOperatorInfo is keyed by the operator's address -/
  opsNodup : (s.operators.map (·.1)).Nodup
  /-- RegisterOperator: OperatorInfo.ValidateBasic wants a bech32 earnings address; InitGenesis fills an empty one -/
  earningsSet : ∀ o ∈ s.operators, o.2 ≠ ""
  optSorted : Sorted s.optStates
  /-- SetOptedInfo: key = GetJoinedStoreKey(operator, avs) -/
  optKey : ∀ p ∈ s.optStates, p.1 = p.2.key
  usdSorted : Sorted s.usd
  /-- InitOperatorUSDValue / UpdateOperatorUSDValue: key = GetJoinedStoreKey(avs, operator) -/
  usdKey : ∀ p ∈ s.usd, p.1 = p.2.key
  avsSorted : Sorted s.avsUsd

/-- **x/operator round trip.** Initialising an empty store from the exported document does not panic and reproduces the
    operator infos (earnings addresses included), the key records, the opted states and both kinds of USD values. -/
theorem C18_roundtrip_operator_module (s : OperatorMod) (h : OpStoreInv s) : initOperator (exportOperator s) = some s := by
  have ho := initOperators_fresh s.operators [] (by simpa using h.opsNodup) h.earningsSet
  have hs := runInit_sorted stepOptState OptState.key (fun _ => True) stepOptState_fresh s.optStates []
    (by simpa using h.optSorted) h.optKey (fun _ _ => trivial)
  have hu := runInit_sorted stepUSD OpUSD.key (fun _ => True) stepUSD_fresh s.usd []
    (by simpa using h.usdSorted) h.usdKey (fun _ _ => trivial)
  have ha := initAvsUsd_sorted s.avsUsd [] (by simpa using h.avsSorted)
  simp only [List.nil_append] at ho hs hu ha
  unfold initOperator exportOperator
  simp only [ho, hs, hu, ha, flatten_export_records]

/-- hence exporting the re-imported state yields the same document -/
theorem C18_operator_reexport (s : OperatorMod) (h : OpStoreInv s) :
    (initOperator (exportOperator s)).map exportOperator = some (exportOperator s) := by
  rw [C18_roundtrip_operator_module s h]; rfl

/-- in particular every operator keeps the earnings address it registered with, its own or another account's -/
theorem C18_operator_earnings_kept (s : OperatorMod) (h : OpStoreInv s) :
    (initOperator (exportOperator s)).map (·.operators) = some s.operators := by
  rw [C18_roundtrip_operator_module s h]; rfl

/-- an import that overwrote a set earnings address with the operator's own (`!=` for `==` in InitGenesis) would not: the
    model's `fillEarnings` leaves a set address alone and fills an empty one -/
theorem fillEarnings_spec (a e : String) : fillEarnings (a, e) = (a, if e = "" then a else e) := rfl

/-! ## validation of the export -/

/-- cross-collection facts of reachable states that the keepers maintain -/
structure OpValidInv (s : OperatorMod) : Prop where
  /-- the keys of one operator are adjacent in the store (the key starts with the operator's address) -/
  keyGroups : (dedupAdj (s.keys.map (·.1))).Nodup
  /-- setOperatorConsKeyForChainID is only reached for a registered operator -/
  keyOps : ∀ k ∈ s.keys, k.1 ∈ s.operators.map (·.1)
  /-- C07: per chain a consensus key belongs to one operator -/
  consDistinct : (s.keys.map (·.2)).Nodup
  /-- OptIn checks IsOperator; OptOut writes the current height, which is not below the opt-in height -/
  optOK : ∀ p ∈ s.optStates, p.2.operator ∈ s.operators.map (·.1) ∧ p.2.inH ≤ p.2.outH
  /-- UpdateVotingPower writes a sum of non-negative values -/
  avsNN : ∀ a ∈ s.avsUsd, 0 ≤ a.2
  /-- InitOperatorUSDValue writes zeros; UpdateVotingPower writes self ≤ total (a part of the operator's stake) and
      active ∈ {0, total}; the entry is written for a registered operator -/
  usdOK : ∀ p ∈ s.usd, 0 ≤ p.2.self ∧ p.2.self ≤ p.2.total ∧ 0 ≤ p.2.active ∧ p.2.active ≤ p.2.total ∧
            p.2.operator ∈ s.operators.map (·.1)

/-- extra hypothesis 1 (fails: F-18r): every AVS with a USD value occurs in some opted state -/
def AvsOpted (s : OperatorMod) : Prop := ∀ a ∈ s.avsUsd, a.1 ∈ optedAVSs (s.optStates.map (·.2))

/-- extra hypothesis 2 (fails: F-18o, F-18p): the AVS of every (AVS, operator) entry has a USD value, not below the
    entry's total -/
def UsdCovered (s : OperatorMod) : Prop :=
  ∀ p ∈ s.usd, ∃ v, avsValue s.avsUsd p.2.avs = some v ∧ p.2.total ≤ v

theorem contains_of_mem (l : List String) (x : String) (h : x ∈ l) : l.contains x = true := by
  simpa using h

theorem sorted_keys_nodup {β : Type} (l : List (String × β)) (hs : Sorted l) : (l.map (·.1)).Nodup := by
  unfold List.Nodup
  rw [List.pairwise_map]
  exact hs.imp (by intro a b hab e; rw [e] at hab; exact String.lt_irrefl _ hab)

/-- **What holds for the code as it is.** -/
theorem C18_operator_export_validates_partial (s : OperatorMod) (h : OpStoreInv s) (hv : OpValidInv s)
    (h1 : AvsOpted s) (h2 : UsdCovered s) : validateOperator (exportOperator s) = true := by
  have hops : validateOperators (exportOperator s).operators = true := decide_eq_true h.opsNodup
  have hkeys : validateKeyRecords ((exportOperator s).operators.map (·.1)) (exportOperator s).records = true := by
    have hflat : flattenRecords (exportOperator s).records = s.keys := flatten_export_records s.keys
    have hids : (exportOperator s).records.map (·.1) = dedupAdj (s.keys.map (·.1)) := by
      rw [← groupAdj_ids]
      simp only [exportOperator, List.map_map]
      apply List.map_congr_left; intro g _; rfl
    unfold validateKeyRecords
    rw [hflat, hids]
    simp only [Bool.and_eq_true, List.all_eq_true]
    refine ⟨⟨decide_eq_true hv.keyGroups, ?_⟩, decide_eq_true hv.consDistinct⟩
    intro r hr
    simp only [exportOperator] at hr
    obtain ⟨g, hg, rfl⟩ := List.mem_map.mp hr
    have hne := groupAdj_nonempty (fun k : String × String × String => k.1) s.keys g hg
    have hkey := groupAdj_key (fun k : String × String × String => k.1) s.keys g hg
    have hsub := groupAdj_sublist (fun k : String × String × String => k.1) s.keys g hg
    cases hg2 : g.2 with
    | nil => exact absurd hg2 hne
    | cons x xs =>
      have hx : x ∈ g.2 := by rw [hg2]; simp
      have := hv.keyOps x (hsub.subset hx)
      rw [hkey x hx] at this
      exact contains_of_mem _ _ this
  have hopt : validateOptStates ((exportOperator s).operators.map (·.1)) (exportOperator s).optStates = true := by
    unfold validateOptStates
    simp only [Bool.and_eq_true, List.all_eq_true]
    refine ⟨decide_eq_true (nodup_of_pairwise_lt _ OptState.key (sorted_values_distinct s.optStates OptState.key h.optKey h.optSorted)), ?_⟩
    intro o ho
    simp only [exportOperator] at ho
    obtain ⟨p, hp, rfl⟩ := List.mem_map.mp ho
    exact ⟨contains_of_mem _ _ (hv.optOK p hp).1, decide_eq_true (hv.optOK p hp).2⟩
  have havs : validateAvsUsd (optedAVSs (exportOperator s).optStates) (exportOperator s).avsUsd = true := by
    unfold validateAvsUsd
    simp only [Bool.and_eq_true, List.all_eq_true]
    refine ⟨decide_eq_true (sorted_keys_nodup s.avsUsd h.avsSorted), ?_⟩
    intro a ha
    exact ⟨contains_of_mem _ _ (h1 a ha), decide_eq_true (hv.avsNN a ha)⟩
  have husd : validateUSD ((exportOperator s).operators.map (·.1)) (exportOperator s).avsUsd (exportOperator s).usd = true := by
    unfold validateUSD
    simp only [Bool.and_eq_true, List.all_eq_true]
    refine ⟨decide_eq_true (nodup_of_pairwise_lt _ OpUSD.key (sorted_values_distinct s.usd OpUSD.key h.usdKey h.usdSorted)), ?_⟩
    intro u hu
    simp only [exportOperator] at hu
    obtain ⟨p, hp, rfl⟩ := List.mem_map.mp hu
    obtain ⟨a, b, c, d, e⟩ := hv.usdOK p hp
    obtain ⟨v, hv1, hv2⟩ := h2 p hp
    have htot : 0 ≤ p.2.total := Int.le_trans a b
    have hv1' : avsValue (exportOperator s).avsUsd p.2.avs = some v := hv1
    simp only [validateUSDItem, hv1', Bool.and_eq_true, decide_eq_true_eq]
    exact ⟨⟨⟨⟨⟨⟨a, htot⟩, c⟩, contains_of_mem _ _ e⟩, hv2⟩, b⟩, d⟩
  unfold validateOperator
  simp only [hops, hkeys, hopt, havs, husd, Bool.and_self]

/-- C18 for the x/operator validation at full strength: the export of every state the module can be in validates -/
def C18_operator_full : Prop :=
  ∀ s : OperatorMod, OpStoreInv s → OpValidInv s → validateOperator (exportOperator s) = true

/-! ### witnesses -/

def opA : String := "exo1aaa"
def opB : String := "exo1bbb"
def opC : String := "exo1ccc"
def chainAVS : String := "0x0a71"
def avs2 : String := "0xB2E7"
def never : Nat := 18446744073709551615

/-- three validators of the chain's own AVS (minimum self delegation 100) with self stakes 101 / 100 / 150 as the harness
    boots them; opC registered with ANOTHER account as earnings address -/
def baseState : OperatorMod :=
  { operators := [(opA, opA), (opB, opB), (opC, "exo1earn")],
    keys := [(opA, "exocoretestnet", "consA"), (opB, "exocoretestnet", "consB"), (opC, "exocoretestnet", "consC")],
    optStates := [(joinKey opA chainAVS, ⟨opA, chainAVS, 1, never⟩), (joinKey opB chainAVS, ⟨opB, chainAVS, 1, never⟩),
                  (joinKey opC chainAVS, ⟨opC, chainAVS, 1, never⟩)],
    usd := [(joinKey chainAVS opA, ⟨chainAVS, opA, 101, 101, 101⟩), (joinKey chainAVS opB, ⟨chainAVS, opB, 100, 100, 100⟩),
            (joinKey chainAVS opC, ⟨chainAVS, opC, 150, 150, 150⟩)],
    avsUsd := [(chainAVS, 351)] }

instance {α : Type} (l : List (String × α)) : Decidable (Sorted l) := by unfold Sorted; infer_instance

theorem storeInv_of_decide (s : OperatorMod)
    (h : (decide ((s.operators.map (·.1)).Nodup) && s.operators.all (fun o => o.2 != "") &&
         decide (Sorted s.optStates) && s.optStates.all (fun p => p.1 == p.2.key) &&
         decide (Sorted s.usd) && s.usd.all (fun p => p.1 == p.2.key) && decide (Sorted s.avsUsd)) = true) : OpStoreInv s := by
  simp only [Bool.and_eq_true, decide_eq_true_eq, List.all_eq_true, bne_iff_ne, ne_eq, beq_iff_eq] at h
  obtain ⟨⟨⟨⟨⟨⟨a, b⟩, c⟩, d⟩, e⟩, f⟩, g⟩ := h
  exact ⟨a, b, c, d, e, f, g⟩

theorem validInv_of_decide (s : OperatorMod)
    (h : decide ((dedupAdj (s.keys.map (·.1))).Nodup) && s.keys.all (fun k => (s.operators.map (·.1)).contains k.1) &&
         decide ((s.keys.map (·.2)).Nodup) &&
         s.optStates.all (fun p => (s.operators.map (·.1)).contains p.2.operator && decide (p.2.inH ≤ p.2.outH)) &&
         s.avsUsd.all (fun a => decide (0 ≤ a.2)) &&
         s.usd.all (fun p => decide (0 ≤ p.2.self) && decide (p.2.self ≤ p.2.total) && decide (0 ≤ p.2.active) &&
                      decide (p.2.active ≤ p.2.total) && (s.operators.map (·.1)).contains p.2.operator) = true) : OpValidInv s := by
  simp only [Bool.and_eq_true, decide_eq_true_eq, List.all_eq_true, List.contains_iff_mem] at h
  obtain ⟨⟨⟨⟨⟨a, b⟩, c⟩, d⟩, e⟩, f⟩ := h
  refine ⟨a, ?_, c, ?_, e, ?_⟩
  · intro k hk; simpa using b k hk
  · intro p hp; have := d p hp; exact ⟨by simpa using this.1, this.2⟩
  · intro p hp
    obtain ⟨⟨⟨⟨x1, x2⟩, x3⟩, x4⟩, x5⟩ := f p hp
    exact ⟨x1, x2, x3, x4, by simpa using x5⟩

theorem baseState_store : OpStoreInv baseState := storeInv_of_decide _ (by decide)
theorem baseState_valid : OpValidInv baseState := validInv_of_decide _ (by decide)

/-- the hypotheses of the partial theorem are met by a non-trivial state, and its export validates and re-imports -/
example : AvsOpted baseState := by intro a ha; revert a ha; decide
example : UsdCovered baseState := by
  intro p hp
  simp only [baseState, List.mem_cons, List.mem_nil_iff, or_false] at hp
  rcases hp with rfl | rfl | rfl <;> exact ⟨351, by decide, by decide⟩
example : validateOperator (exportOperator baseState) = true := by decide
example : initOperator (exportOperator baseState) = some baseState := by decide

/-- boundary: ONE operator in an AVS (its total EQUALS the AVS's value), self = total = active; a second entry 0/0/0 -/
def singleState : OperatorMod :=
  { baseState with
    optStates := [(joinKey opA chainAVS, ⟨opA, chainAVS, 1, never⟩), (joinKey opA avs2, ⟨opA, avs2, 5, never⟩),
                  (joinKey opB chainAVS, ⟨opB, chainAVS, 1, never⟩), (joinKey opB avs2, ⟨opB, avs2, 7, 7⟩),
                  (joinKey opC chainAVS, ⟨opC, chainAVS, 1, never⟩)],
    usd := [(joinKey chainAVS opA, ⟨chainAVS, opA, 101, 101, 101⟩), (joinKey chainAVS opB, ⟨chainAVS, opB, 0, 0, 0⟩),
            (joinKey chainAVS opC, ⟨chainAVS, opC, 150, 150, 150⟩), (joinKey avs2 opA, ⟨avs2, opA, 101, 101, 101⟩)],
    avsUsd := [(chainAVS, 251), (avs2, 101)] }

theorem C18_operator_equal_figures_validate :
    OpStoreInv singleState ∧ OpValidInv singleState ∧ validateOperator (exportOperator singleState) = true ∧
    initOperator (exportOperator singleState) = some singleState :=
  ⟨storeInv_of_decide _ (by decide), validInv_of_decide _ (by decide), by decide, by decide⟩

/-- **F-18o.** opA opts into avs2 (registered in the running epoch, no USD value written yet) -/
def optedInState : OperatorMod :=
  { baseState with
    optStates := [(joinKey opA chainAVS, ⟨opA, chainAVS, 1, never⟩), (joinKey opA avs2, ⟨opA, avs2, 5, never⟩),
                  (joinKey opB chainAVS, ⟨opB, chainAVS, 1, never⟩), (joinKey opC chainAVS, ⟨opC, chainAVS, 1, never⟩)],
    usd := baseState.usd ++ [(joinKey avs2 opA, ⟨avs2, opA, 0, 0, 0⟩)] }

/-- it is what OptIn makes of the base state -/
theorem optedInState_reached : optIn baseState opA avs2 5 = optedInState := by decide

theorem C18_operator_optin_before_epoch_end_fails :
    OpStoreInv optedInState ∧ OpValidInv optedInState ∧ validateOperator (exportOperator optedInState) = false ∧
    initOperator (exportOperator optedInState) = some optedInState :=
  ⟨storeInv_of_decide _ (by decide), validInv_of_decide _ (by decide), by decide, by decide⟩

/-- one AVS epoch end later the same state validates: the gap is the epoch of the opt-in -/
example : validateOperator (exportOperator (epochEnd optedInState avs2 0 (fun _ => (101, 101)))) = true := by decide

/-- **F-18p.** opB undelegated 10 of its own 100 (self 90 < 100: inactive) and stakers delegated 300 to it: at the epoch
    end its total is 390, the AVS's value 101 + 150 -/
def inactiveState : OperatorMod :=
  { baseState with
    usd := [(joinKey chainAVS opA, ⟨chainAVS, opA, 101, 101, 101⟩), (joinKey chainAVS opB, ⟨chainAVS, opB, 90, 390, 0⟩),
            (joinKey chainAVS opC, ⟨chainAVS, opC, 150, 150, 150⟩)],
    avsUsd := [(chainAVS, 251)] }

/-- it is what UpdateVotingPower (minimum self delegation 100) makes of the base state with these stakes -/
theorem inactiveState_reached :
    epochEnd baseState chainAVS 100 (fun o => if o = opB then (90, 390) else if o = opA then (101, 101) else (150, 150)) =
      inactiveState := by decide

theorem C18_operator_inactive_total_fails :
    OpStoreInv inactiveState ∧ OpValidInv inactiveState ∧ validateOperator (exportOperator inactiveState) = false ∧
    initOperator (exportOperator inactiveState) = some inactiveState :=
  ⟨storeInv_of_decide _ (by decide), validInv_of_decide _ (by decide), by decide, by decide⟩

/-- **F-18r.** avs2 exists, nobody opted in, its epoch ends -/
def lonelyAvsState : OperatorMod := { baseState with avsUsd := [(chainAVS, 351), (avs2, 0)] }

theorem lonelyAvsState_reached : epochEnd baseState avs2 0 (fun _ => (0, 0)) = lonelyAvsState := by decide

theorem C18_operator_avs_without_operators_fails :
    OpStoreInv lonelyAvsState ∧ OpValidInv lonelyAvsState ∧ validateOperator (exportOperator lonelyAvsState) = false ∧
    initOperator (exportOperator lonelyAvsState) = some lonelyAvsState :=
  ⟨storeInv_of_decide _ (by decide), validInv_of_decide _ (by decide), by decide, by decide⟩

theorem C18_operator_full_fails : ¬ C18_operator_full := by
  intro h
  have := h optedInState C18_operator_optin_before_epoch_end_fails.1 C18_operator_optin_before_epoch_end_fails.2.1
  rw [C18_operator_optin_before_epoch_end_fails.2.2.1] at this
  exact Bool.false_ne_true this

/-! ## F-18q: the reverse lookup of a previous key of an operator outside the validator set -/

/-- op1 is not in the validator set (below the minimum self delegation since the last epoch end) and replaced "oldCons" by
    "newCons": AfterOperatorKeyReplaced deleted the reverse lookup of "oldCons" at once, the PrevConsKey record is still
    there (ClearPreviousConsensusKeys runs at the epoch end) -/
def inactivePrevWitness : Core :=
  { unds := [], queues := [], curKeys := [("op1", "newCons"), ("op2", "cons2")], prevKeys := [("op1", "oldCons")],
    reverse := [("newCons", "op1"), ("cons2", "op2")], vals := [("cons2", 150)], epochs := [] }

theorem inactivePrevWitness_inv : Inv inactivePrevWitness := by
  refine ⟨?_, by unfold StoreOrdered; decide, ?_, ?_⟩
  · intro q hq; simp [inactivePrevWitness] at hq
  · intro e he; simp [inactivePrevWitness] at he
  · intro u hu; simp [inactivePrevWitness] at hu

/-- the re-imported chain resolves "oldCons" to op1 again; the original chain does not -/
theorem C18_inactive_prev_key_resurrected :
    Inv inactivePrevWitness ∧
    (roundtrip codePrefixes 0 0 inactivePrevWitness).reverse = [("newCons", "op1"), ("cons2", "op2"), ("oldCons", "op1")] ∧
    (roundtrip codePrefixes 0 0 inactivePrevWitness).reverse ≠ inactivePrevWitness.reverse ∧
    (roundtrip codePrefixes 0 0 inactivePrevWitness).queues = [] :=
  ⟨inactivePrevWitness_inv, by decide, by decide, by decide⟩

/-- a second refutation of the core statement, independent of F-18i -/
theorem C18_full_fails_inactive_prev : ¬ C18_full := by
  intro hfull
  have := (hfull 0 0 inactivePrevWitness inactivePrevWitness_inv).2.2.2.2.1
  revert this
  decide

end ExoVerif.Genesis
