import ExoVerif.Props.C16
import ExoVerif.Proofs.ConsKeysHist
/-!
# C16 — history-level completion: the three queues drain completely, exactly on time

`Props/C16.lean` proves the step-level facts (registration slot, a slot persists, the epoch end
moves exactly one slot, EndBlock applies and clears) and composes them for a given entry
(`C16_released_exactly_at`). What was missing is the statement over **whole histories**, for all
three queues, with the clock and with `EpochsUntilUnbonded` changing while entries are queued:

* a history is *well formed* (`wf`) when the epoch-end hook is delivered for the current epoch
  number, at most once per block (C15), `EpochsUntilUnbonded` is never set negative (params.go) and
  undelegation record keys are new (delegation keys.go). Nothing else is assumed: any interleaving
  of opt-ins, key replacements, opt-outs, jailing, undelegations, parameter changes, blocks that
  close an epoch and blocks that do not;
* the Go code computes the completion epoch **once, at registration**
  (`GetUnbondingCompletionEpoch` = current epoch + current `EpochsUntilUnbonded`) and stores the
  entry under that epoch; a later parameter change neither moves nor drops queued entries. The
  model does the same (`setUnbonding` only writes `nUnb`), and the theorems below quantify over
  histories that contain arbitrary `setUnbonding` operations between registration and release;
* `C16_hist_nothing_left_behind`: after every history no queue of an ended epoch holds anything,
  and outside a closing block the pending lists are empty;
* `C16_hist_each_entry_once`: an entry waits in at most one slot, at most once, never both in a
  slot and pending;
* `C16_hist_hold_exactly_once`: the hold count of every record moves by exactly +1 at
  registration and −1 at release over the whole history (never released twice, never kept);
* `C16_hist_…_not_before` / `…_released_on_time` / `…_completed_on_time`: an entry of slot `f`
  stays (held / removing / resolvable) as long as the epoch number is ≤ f, and is released by the
  EndBlock of the block whose BeginBlock ends epoch `f` — for undelegation holds and opt-outs here,
  for replaced keys in `Props/C07Hist.lean`;
* `C16_hist_removing_iff_scheduled_or_pending`: "removing without a stored finish epoch" occurs
  only for an operator pending in the closing block — as an invariant of all histories (the
  registry recorded this as checked by a monitor and proved for one step only).
-/
namespace ExoVerif.ConsKeys
open ExoVerif.VMap ExoVerif.ValSet

/-- The invariants (`Inv` of C07, `QInv`/`AInv` of the queues, `VInv` of the validator set) hold
after every well-formed history, of any length. -/
theorem C16_hist_inv_reachable (s : St) (ops : List Op) (h : Good s) (hw : wf s ops) : Good (run s ops) :=
  good_run s ops h hw

theorem C16_hist_inv_init (nOps nKeys : Nat) (e n : Int) (hn : 0 ≤ n) : Good (St.init nOps nKeys e n) :=
  good_init nOps nKeys e n hn

/-- **None is left behind.** After every well-formed history: every slot (of all three queues)
whose epoch has ended is empty, and outside a block that closes an epoch all three pending lists
are empty. -/
theorem C16_hist_nothing_left_behind (s : St) (ops : List Op) (h : Good s) (hw : wf s ops) :
    (∀ e, e < (run s ops).epoch →
      (run s ops).optOutsToFinish e = [] ∧ (run s ops).addrsToPrune e = [] ∧ (run s ops).undelToMature e = []) ∧
    ((run s ops).epochEnd = false →
      (run s ops).pendingOptOuts = [] ∧ (run s ops).pendingAddrs = [] ∧ (run s ops).pendingUndel = []) := by
  have g := good_run s ops h hw
  exact ⟨fun e he => ⟨(g.q.past e he).1, g.a.aPast e he, (g.q.past e he).2⟩,
    fun he => ⟨(g.q.pend he).1, g.a.aPend he, (g.q.pend he).2⟩⟩

/-- **Each exactly once.** After every well-formed history an entry occurs at most once in a
slot, in at most one slot, and never both in a slot and in the pending list — for all three
queues. (With `C16_hist_nothing_left_behind` and the timing theorems: an entry is applied by
exactly one EndBlock.) -/
theorem C16_hist_each_entry_once (s : St) (ops : List Op) (h : Good s) (hw : wf s ops) :
    (∀ e, ((run s ops).undelToMature e).Nodup ∧ ((run s ops).optOutsToFinish e).Nodup ∧
          ((run s ops).addrsToPrune e).Nodup) ∧
    ((run s ops).pendingUndel.Nodup ∧ (run s ops).pendingOptOuts.Nodup ∧ (run s ops).pendingAddrs.Nodup) ∧
    (∀ e e' r, r ∈ (run s ops).undelToMature e → r ∈ (run s ops).undelToMature e' → e = e') ∧
    (∀ e e' op, op ∈ (run s ops).optOutsToFinish e → op ∈ (run s ops).optOutsToFinish e' → e = e') ∧
    (∀ e e' k, k ∈ (run s ops).addrsToPrune e → k ∈ (run s ops).addrsToPrune e' → e = e') ∧
    (∀ e r, r ∈ (run s ops).undelToMature e → r ∉ (run s ops).pendingUndel) ∧
    (∀ e op, op ∈ (run s ops).optOutsToFinish e → op ∉ (run s ops).pendingOptOuts) ∧
    (∀ e k, k ∈ (run s ops).addrsToPrune e → k ∉ (run s ops).pendingAddrs) := by
  have g := good_run s ops h hw
  refine ⟨fun e => ⟨g.q.uNodup e, g.q.oNodup e, g.a.aNodup e⟩, ⟨g.q.uPendNodup, g.q.oPendNodup, g.a.aPendNodup⟩,
    ?_, ?_, ?_, ?_, ?_, ?_⟩
  · intro e e' r h1 h2
    have a := g.q.uSlot e r h1
    have b := g.q.uSlot e' r h2
    rw [a] at b; exact Option.some.inj b
  · intro e e' op h1 h2
    have a := g.q.oSlot e op h1
    have b := g.q.oSlot e' op h2
    rw [a] at b; exact Option.some.inj b
  · intro e e' k h1 h2
    by_cases hee : e' = e
    · exact hee.symm
    · exact absurd h2 ((g.inv.disj e k h1).2 e' hee)
  · intro e r h1 hp
    have a := g.q.uSlot e r h1
    have b := g.q.uPend r hp
    rw [a] at b
    have hee : e = (run s ops).epoch - 1 := Option.some.inj b
    have := (g.q.past e (by omega)).2
    rw [this] at h1; cases h1
  · intro e op h1 hp
    have a := g.q.oSlot e op h1
    have b := g.q.oPend op hp
    rw [a] at b; cases b
  · intro e k h1
    exact (g.inv.disj e k h1).1

/-- **"Removing without a finish epoch" = "pending in the closing block"**, in every history: an
operator carries the removal marker exactly while its opt-out is queued (finish epoch stored) or
pending (finish epoch consumed by the hook, completed by this block's EndBlock). -/
theorem C16_hist_removing_iff_scheduled_or_pending (s : St) (ops : List Op) (h : Good s) (hw : wf s ops) (op : Nat) :
    ((run s ops).removing op = true ↔
      (((run s ops).optOutFinishEpoch op).isSome = true ∨ op ∈ (run s ops).pendingOptOuts)) ∧
    (∀ f, (run s ops).optOutFinishEpoch op = some f →
      (run s ops).epoch ≤ f ∧ op ∈ (run s ops).optOutsToFinish f) := by
  have g := good_run s ops h hw
  refine ⟨g.q.oRemoving op, fun f hf => ?_⟩
  have hm := g.q.oBack op f hf
  refine ⟨?_, hm⟩
  by_cases hlt : f < (run s ops).epoch
  · rw [(g.q.past f hlt).1] at hm; cases hm
  · omega

/-- **Held exactly once.** Over any well-formed history the hold count of every undelegation
record changes by exactly `[waits at the end] − [waited at the start]`: +1 when it is registered,
−1 when it is released, nothing else — never decremented twice, never left incremented. -/
theorem C16_hist_hold_exactly_once (s : St) (ops : List Op) (h : Good s) (hw : wf s ops) (r : Nat) :
    (run s ops).holds r + waiting s r = s.holds r + waiting (run s ops) r :=
  holds_run s ops h.q hw r

/-! ## undelegation holds: not earlier, not later -/

/-- **Not earlier.** A record waiting in slot `f` is still there, still held, with the same hold
count, after *any* well-formed history during which epoch `f` has not ended — whatever else
happens, including changes of `EpochsUntilUnbonded` and downtime catch-up. -/
theorem C16_hist_undelegation_not_before (s : St) (ops : List Op) (f : Int) (r : Nat)
    (h : Good s) (hr : r ∈ s.undelToMature f) (hw : wf s ops) (hf : (run s ops).epoch ≤ f) :
    r ∈ (run s ops).undelToMature f ∧ (run s ops).undelMaturity r = some f ∧
    (run s ops).holds r = s.holds r ∧ r ∉ (run s ops).pendingUndel := by
  have g := good_run s ops h hw
  have hin := (C16_not_released_before s ops f (no_end_of s ops f hw hf)).1 r hr
  have hm := g.q.uSlot f r hin
  have hm0 := h.q.uSlot f r hr
  have hc := holds_run s ops h.q hw r
  simp only [waiting, hm, hm0, Option.isSome_some, if_true] at hc
  refine ⟨hin, hm, by omega, fun hp => ?_⟩
  have b := g.q.uPend r hp
  rw [hm] at b
  have : f = (run s ops).epoch - 1 := Option.some.inj b
  omega

/-- **Exactly then.** In the block whose BeginBlock ends epoch `f` the record is pending and
still held while the block's transactions run; the block's EndBlock releases it: the maturity
lookup is gone, the hold count is one less than before, no queue and no pending list mentions
it. Holds for every history `ops` before that block and every list of transactions in it. -/
theorem C16_hist_undelegation_released_on_time (s : St) (ops txs : List Op) (f : Int) (r : Nat)
    (power : Nat → Int) (maxVals : Nat) (h : Good s) (hr : r ∈ s.undelToMature f)
    (hw : wf s (ops ++ .epochEnd f :: (txs ++ [.endBlock power maxVals]))) (htx : ∀ o ∈ txs, isTx o) :
    (r ∈ (run s (ops ++ .epochEnd f :: txs)).pendingUndel ∧
     (run s (ops ++ .epochEnd f :: txs)).holds r = s.holds r) ∧
    ((run s (ops ++ .epochEnd f :: (txs ++ [.endBlock power maxVals]))).undelMaturity r = none ∧
     (run s (ops ++ .epochEnd f :: (txs ++ [.endBlock power maxVals]))).holds r + 1 = s.holds r ∧
     (∀ e, r ∉ (run s (ops ++ .epochEnd f :: (txs ++ [.endBlock power maxVals]))).undelToMature e) ∧
     r ∉ (run s (ops ++ .epochEnd f :: (txs ++ [.endBlock power maxVals]))).pendingUndel ∧
     (run s (ops ++ .epochEnd f :: (txs ++ [.endBlock power maxVals]))).epoch = f + 1) := by
  -- split the history
  obtain ⟨hw0, hw1⟩ := (wf_append s ops _).1 hw
  obtain ⟨hwe, hw2⟩ := hw1
  have hw2' := (wf_append _ txs _).1 hw2
  obtain ⟨hwt, hwb⟩ := hw2'
  have hfe : f = (run s ops).epoch := hwe.1
  -- before the closing block
  obtain ⟨hin, _, _, _⟩ := C16_hist_undelegation_not_before s ops f r h hr hw0 (by omega)
  -- the state after the hook and the block's transactions
  have hrun1 : run s (ops ++ .epochEnd f :: txs) = run (epochEndHook (run s ops) f) txs := by
    rw [run_append, run_cons]; rfl
  have hrun2 : run s (ops ++ .epochEnd f :: (txs ++ [.endBlock power maxVals]))
      = endBlock (run (epochEndHook (run s ops) f) txs) power maxVals := by
    rw [run_append, run_cons, run_append]; rfl
  have hwall1 : wf s (ops ++ .epochEnd f :: txs) :=
    (wf_append s ops _).2 ⟨hw0, hwe, hwt⟩
  have g1 := good_run s _ h hwall1
  have gall := good_run s _ h hw
  have hb := run_txs_sameB (epochEndHook (run s ops) f) txs htx
  have hpend : r ∈ (run s (ops ++ .epochEnd f :: txs)).pendingUndel := by
    rw [hrun1, hb.pU]; exact hin
  have hee : (run s (ops ++ .epochEnd f :: txs)).epochEnd = true := by rw [hrun1, hb.epochEnd]; rfl
  have hep : (run s (ops ++ .epochEnd f :: txs)).epoch = f + 1 := by rw [hrun1, hb.epoch]; rfl
  -- held while pending
  have hm1 := g1.q.uPend r hpend
  have hm0 := h.q.uSlot f r hr
  have hc1 := holds_run s _ h.q hwall1 r
  simp only [waiting, hm1, hm0, Option.isSome_some, if_true] at hc1
  -- the EndBlock
  have hmat : (run s (ops ++ .epochEnd f :: (txs ++ [.endBlock power maxVals]))).undelMaturity r = none := by
    rw [hrun2, ← hrun1, endBlock_closing _ power maxVals hee]
    show (endBlockPre _).undelMaturity r = none
    rw [(endBlockPre_undel _ g1.q.uPendNodup r).2, if_pos hpend]
  have hc2 := holds_run s _ h.q hw r
  simp only [waiting, hmat, hm0, Option.isSome_some, Option.isSome_none, if_true] at hc2
  refine ⟨⟨hpend, by omega⟩, hmat, by simp at hc2; omega, fun e he => ?_, ?_, ?_⟩
  · have := gall.q.uSlot e r he; rw [hmat] at this; cases this
  · intro hp; have := gall.q.uPend r hp; rw [hmat] at this; cases this
  · rw [hrun2, endBlock_epoch, ← hrun1]; exact hep

/-- **Registered while epoch e is current with N epochs of unbonding ⇒ released in the block
whose beginning closes e + N**, whatever happens to the parameter afterwards. An undelegation
from a validating operator at state `s` (epoch `s.epoch`, parameter `s.nUnb`), followed by any
well-formed history that reaches the end of epoch `s.epoch + s.nUnb`: the hold is released by
that block's EndBlock and was in place until then. -/
theorem C16_hist_undelegation_registered_then_released (s : St) (op rec k : Nat) (ops txs : List Op)
    (power : Nat → Int) (maxVals : Nat) (h : Good s) (hfresh : s.undelMaturity rec = none)
    (hnr : s.removing op = false) (hreg : s.registered op = true) (hfw : s.fwd op = some k)
    (hval : has s.vs.vals k = true)
    (hw : wf (undelegationStarted s op rec).2
      (ops ++ .epochEnd (s.epoch + s.nUnb) :: (txs ++ [.endBlock power maxVals])))
    (htx : ∀ o ∈ txs, isTx o) :
    let s' := (undelegationStarted s op rec).2
    s'.holds rec = s.holds rec + 1 ∧
    (run s' (ops ++ .epochEnd (s.epoch + s.nUnb) :: txs)).holds rec = s.holds rec + 1 ∧
    (run s' (ops ++ .epochEnd (s.epoch + s.nUnb) :: (txs ++ [.endBlock power maxVals]))).holds rec = s.holds rec ∧
    (run s' (ops ++ .epochEnd (s.epoch + s.nUnb) :: (txs ++ [.endBlock power maxVals]))).undelMaturity rec = none := by
  intro s'
  obtain ⟨h1, _, h3⟩ := C16_undelegation_slot s op rec k hnr hreg hfw hval
  have g' : Good s' := good_step s (.undelegate op rec) h hfresh
  obtain ⟨⟨_, a2⟩, a3, a4, _, _, _⟩ :=
    C16_hist_undelegation_released_on_time s' ops txs (s.epoch + s.nUnb) rec power maxVals g' h1 hw htx
  exact ⟨h3, by rw [a2]; exact h3, by rw [h3] at a4; omega, a3⟩

/-! ## opt-outs: not earlier, not later -/

theorem optout_persist (s : St) (ops : List Op) (f : Int) (op : Nat) (h : Good s)
    (ho : op ∈ s.optOutsToFinish f) (hw : wf s ops) (hne : ∀ o ∈ ops, ∀ e', o = .epochEnd e' → e' ≠ f) :
    op ∈ (run s ops).optOutsToFinish f ∧ (run s ops).removing op = true ∧ (run s ops).fwd op = s.fwd op := by
  induction ops generalizing s with
  | nil =>
    refine ⟨ho, ?_, rfl⟩
    exact (h.q.oRemoving op).2 (Or.inl (by rw [h.q.oSlot f op ho]; rfl))
  | cons o rest ih =>
    have g' := good_step s o h hw.1
    have ho' := (C16_slot_persists s o f (hne o (List.mem_cons_self ..))).2 op ho
    have hrm : s.removing op = true := (h.q.oRemoving op).2 (Or.inl (by rw [h.q.oSlot f op ho]; rfl))
    have hnp : op ∉ s.pendingOptOuts := fun hp => by
      have a := h.q.oSlot f op ho
      have b := h.q.oPend op hp
      rw [a] at b; cases b
    obtain ⟨_, hfw⟩ := removing_frame s o op h.q hrm (fun _ _ _ => hnp)
    obtain ⟨i1, i2, i3⟩ := ih (step s o).2 g' ho' hw.2 (fun x hx => hne x (List.mem_cons_of_mem _ hx))
    rw [run_cons]
    exact ⟨i1, i2, i3.trans hfw⟩

/-- **Not earlier.** An opt-out waiting in slot `f`: while epoch `f` has not ended the operator
keeps the removal marker, its finish epoch, and its key (so the key stays resolvable, C07). -/
theorem C16_hist_optout_not_before (s : St) (ops : List Op) (f : Int) (op : Nat)
    (h : Good s) (ho : op ∈ s.optOutsToFinish f) (hw : wf s ops) (hf : (run s ops).epoch ≤ f) :
    op ∈ (run s ops).optOutsToFinish f ∧ (run s ops).optOutFinishEpoch op = some f ∧
    (run s ops).removing op = true ∧ (run s ops).fwd op = s.fwd op ∧ op ∉ (run s ops).pendingOptOuts := by
  have g := good_run s ops h hw
  obtain ⟨p1, p2, p3⟩ := optout_persist s ops f op h ho hw (no_end_of s ops f hw hf)
  have hfe := g.q.oSlot f op p1
  refine ⟨p1, hfe, p2, p3, fun hp => ?_⟩
  have b := g.q.oPend op hp
  rw [hfe] at b; cases b

/-- **Exactly then.** In the block whose BeginBlock ends epoch `f` the operator is pending (and
still carries the marker while the block's transactions run); the block's EndBlock completes the
removal: marker, key and finish epoch are gone and no queue or pending list mentions the
operator. -/
theorem C16_hist_optout_completed_on_time (s : St) (ops txs : List Op) (f : Int) (op : Nat)
    (power : Nat → Int) (maxVals : Nat) (h : Good s) (ho : op ∈ s.optOutsToFinish f)
    (hw : wf s (ops ++ .epochEnd f :: (txs ++ [.endBlock power maxVals]))) (htx : ∀ o ∈ txs, isTx o) :
    (op ∈ (run s (ops ++ .epochEnd f :: txs)).pendingOptOuts ∧
     (run s (ops ++ .epochEnd f :: txs)).removing op = true) ∧
    ((run s (ops ++ .epochEnd f :: (txs ++ [.endBlock power maxVals]))).removing op = false ∧
     (run s (ops ++ .epochEnd f :: (txs ++ [.endBlock power maxVals]))).fwd op = none ∧
     (run s (ops ++ .epochEnd f :: (txs ++ [.endBlock power maxVals]))).optOutFinishEpoch op = none ∧
     (∀ e, op ∉ (run s (ops ++ .epochEnd f :: (txs ++ [.endBlock power maxVals]))).optOutsToFinish e) ∧
     op ∉ (run s (ops ++ .epochEnd f :: (txs ++ [.endBlock power maxVals]))).pendingOptOuts) := by
  obtain ⟨hw0, hw1⟩ := (wf_append s ops _).1 hw
  obtain ⟨hwe, hw2⟩ := hw1
  obtain ⟨hwt, _⟩ := (wf_append _ txs _).1 hw2
  have hfe : f = (run s ops).epoch := hwe.1
  obtain ⟨hin, _, _, _, _⟩ := C16_hist_optout_not_before s ops f op h ho hw0 (by omega)
  have hrun1 : run s (ops ++ .epochEnd f :: txs) = run (epochEndHook (run s ops) f) txs := by
    rw [run_append, run_cons]; rfl
  have hrun2 : run s (ops ++ .epochEnd f :: (txs ++ [.endBlock power maxVals]))
      = endBlock (run (epochEndHook (run s ops) f) txs) power maxVals := by
    rw [run_append, run_cons, run_append]; rfl
  have hwall1 : wf s (ops ++ .epochEnd f :: txs) := (wf_append s ops _).2 ⟨hw0, hwe, hwt⟩
  have g1 := good_run s _ h hwall1
  have gall := good_run s _ h hw
  have hb := run_txs_sameB (epochEndHook (run s ops) f) txs htx
  have hpend : op ∈ (run s (ops ++ .epochEnd f :: txs)).pendingOptOuts := by
    rw [hrun1, hb.pOO]; exact hin
  have hee : (run s (ops ++ .epochEnd f :: txs)).epochEnd = true := by rw [hrun1, hb.epochEnd]; rfl
  have hrm1 : (run s (ops ++ .epochEnd f :: txs)).removing op = true := (g1.q.oRemoving op).2 (Or.inr hpend)
  obtain ⟨hreg, hfs, _⟩ := g1.q.oFwd op hrm1
  cases hk : (run s (ops ++ .epochEnd f :: txs)).fwd op with
  | none => rw [hk] at hfs; cases hfs
  | some key =>
    obtain ⟨d1, d2, _⟩ := endBlockPre_completes _ op key hpend hreg hrm1 hk
    have hrmF : (run s (ops ++ .epochEnd f :: (txs ++ [.endBlock power maxVals]))).removing op = false := by
      rw [hrun2, ← hrun1, endBlock_closing _ power maxVals hee]; exact d1
    have hfwF : (run s (ops ++ .epochEnd f :: (txs ++ [.endBlock power maxVals]))).fwd op = none := by
      rw [hrun2, ← hrun1, endBlock_closing _ power maxVals hee]; exact d2
    have hnone : (run s (ops ++ .epochEnd f :: (txs ++ [.endBlock power maxVals]))).optOutFinishEpoch op = none := by
      cases hx : (run s (ops ++ .epochEnd f :: (txs ++ [.endBlock power maxVals]))).optOutFinishEpoch op with
      | none => rfl
      | some f' =>
        have := (gall.q.oRemoving op).2 (Or.inl (by rw [hx]; rfl))
        rw [hrmF] at this; cases this
    refine ⟨⟨hpend, hrm1⟩, hrmF, hfwF, hnone, fun e he => ?_, fun hp => ?_⟩
    · have := gall.q.oSlot e op he; rw [hnone] at this; cases this
    · have := (gall.q.oRemoving op).2 (Or.inr hp); rw [hrmF] at this; cases this

/-- **Matures together with the opt-out** — at history level. An undelegation from an operator
whose opt-out waits in slot `f` is queued for `f` (whatever `EpochsUntilUnbonded` is now); the hold
stays in place and the operator keeps the marker through every well-formed history up to and
including the transactions of the block whose BeginBlock ends epoch `f`, and that block's EndBlock
releases the hold and completes the opt-out together. -/
theorem C16_hist_matures_together_with_optout (s : St) (op rec : Nat) (f : Int) (ops txs : List Op)
    (power : Nat → Int) (maxVals : Nat) (h : Good s) (ho : op ∈ s.optOutsToFinish f)
    (hfresh : s.undelMaturity rec = none)
    (hw : wf (undelegationStarted s op rec).2 (ops ++ .epochEnd f :: (txs ++ [.endBlock power maxVals])))
    (htx : ∀ o ∈ txs, isTx o) :
    (undelegationStarted s op rec).2.holds rec = s.holds rec + 1 ∧
    rec ∈ (undelegationStarted s op rec).2.undelToMature f ∧
    (run (undelegationStarted s op rec).2 (ops ++ .epochEnd f :: txs)).holds rec = s.holds rec + 1 ∧
    (run (undelegationStarted s op rec).2 (ops ++ .epochEnd f :: txs)).removing op = true ∧
    (run (undelegationStarted s op rec).2 (ops ++ .epochEnd f :: (txs ++ [.endBlock power maxVals]))).holds rec = s.holds rec ∧
    (run (undelegationStarted s op rec).2 (ops ++ .epochEnd f :: (txs ++ [.endBlock power maxVals]))).undelMaturity rec = none ∧
    (run (undelegationStarted s op rec).2 (ops ++ .epochEnd f :: (txs ++ [.endBlock power maxVals]))).removing op = false := by
  have hfe := h.q.oSlot f op ho
  have hrm : s.removing op = true := (h.q.oRemoving op).2 (Or.inl (by rw [hfe]; rfl))
  obtain ⟨_, b2, _, b4⟩ := C16_matures_with_optout s op rec f hrm hfe
  have g' : Good (undelegationStarted s op rec).2 := good_step s (.undelegate op rec) h hfresh
  have ho' : op ∈ (undelegationStarted s op rec).2.optOutsToFinish f :=
    (C16_slot_persists s (.undelegate op rec) f (fun _ e => by cases e)).2 op ho
  obtain ⟨⟨_, a2⟩, a3, a4, _⟩ :=
    C16_hist_undelegation_released_on_time _ ops txs f rec power maxVals g' b2 hw htx
  obtain ⟨⟨_, c2⟩, c3, _⟩ := C16_hist_optout_completed_on_time _ ops txs f op power maxVals g' ho' hw htx
  exact ⟨b4, b2, by rw [a2]; exact b4, c2, by rw [b4] at a4; omega, a3, c3⟩

/-! ## non-vacuity: queued entries survive changes of the parameter in both directions -/

private def pwH : Nat → Int := fun _ => 100
/-- key 5 active after epoch 1; at epoch 2 (N = 2) an undelegation (slot 4) and a key replacement
(slot 4); N raised to 5: a second undelegation (slot 7); N lowered to 1: opt-out (slot 3) and a third
undelegation that matures with it (slot 3); then the epochs end one by one -/
private def hH : List Op :=
  [.register 0, .optIn 0 5 true, .epochEnd 1, .endBlock pwH 5,
   .undelegate 0 0, .setKey 0 4,
   .setUnbonding 5, .undelegate 0 1,
   .setUnbonding 1, .optOut 0, .undelegate 0 2,
   .endBlock pwH 5,                                   -- a block that closes nothing
   .epochEnd 2, .endBlock pwH 5, .epochEnd 3, .undelegate 0 3, .endBlock pwH 5,
   .epochEnd 4, .endBlock pwH 5]

example : wf (St.init 1 6 1 2) hH := by decide
example : Good (St.init 1 6 1 2) := C16_hist_inv_init 1 6 1 2 (by decide)
example : (run (St.init 1 6 1 2) (hH.take 11)).undelToMature 4 = [0] ∧
          (run (St.init 1 6 1 2) (hH.take 11)).undelToMature 7 = [1] ∧
          (run (St.init 1 6 1 2) (hH.take 11)).undelToMature 3 = [2] ∧
          (run (St.init 1 6 1 2) (hH.take 11)).optOutsToFinish 3 = [0] ∧
          (run (St.init 1 6 1 2) (hH.take 11)).addrsToPrune 4 = [5] := by decide
-- after epoch 3 closed: record 2 and the opt-out released, records 0 and 1 still held, the
-- undelegation made in the closing block (record 3) not held at all
example : (run (St.init 1 6 1 2) (hH.take 17)).holds 2 = 0 ∧ (run (St.init 1 6 1 2) (hH.take 17)).holds 0 = 1 ∧
          (run (St.init 1 6 1 2) (hH.take 17)).holds 1 = 1 ∧ (run (St.init 1 6 1 2) (hH.take 17)).holds 3 = 0 ∧
          (run (St.init 1 6 1 2) (hH.take 17)).removing 0 = false := by decide
-- after epoch 4 closed: record 0 released and key 5 pruned; record 1 waits for epoch 7
example : (run (St.init 1 6 1 2) hH).holds 0 = 0 ∧ (run (St.init 1 6 1 2) hH).rev 5 = none ∧
          (run (St.init 1 6 1 2) hH).holds 1 = 1 ∧ (run (St.init 1 6 1 2) hH).undelToMature 7 = [1] := by decide
example : ∀ o ∈ [Op.undelegate 0 3, Op.setKey 0 1, Op.setUnbonding 3], isTx o := by decide

end ExoVerif.ConsKeys
