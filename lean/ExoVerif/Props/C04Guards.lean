import ExoVerif.Generated.Facts
import ExoVerif.Model.SlashGuards
import ExoVerif.Props.C04
/-!
# C04 — every slash factor in [0, 1] is admitted (p = 0 and p = 100 % included)

C04 quantifies over "all powers and slash factors in [0,1]": a slash event with factor 0 (a
common setting of SlashFractionDowntime) is executed and recorded like any other — every cut is
`trunc(0 · amount) = 0` (`C04_pool_cut`, `C04_undelegation_cut`) — and is not refused. The guard
is `slashParamRejects` (CheckSlashParameter), tied to the regenerated Go text.
-/
namespace ExoVerif.Ledger
open ExoVerif ExoVerif.Dec

/-- tie: the model's guard is the regenerated CheckSlashParameter, for all inputs -/
theorem C04_tie_slash_param_guards (pNil pNeg : Bool) (evH h power : Int) (dogfood : Bool) :
    Gen.slashParamRejects pNil pNeg evH h power dogfood = slashParamRejects pNil pNeg evH h power dogfood := by
  unfold Gen.slashParamRejects slashParamRejects
  cases pNil <;> cases pNeg <;> cases dogfood <;> by_cases h1 : h < evH <;> by_cases h2 : power ≤ 0 <;>
    by_cases h3 : power = 0 <;> simp [h1, h2, h3, bne]

/-- a dogfood slash (downtime / double sign) for an infraction not in the future, with positive
infraction-time power, is admitted for **every** factor in [0, 1] -/
theorem C04_unit_factor_admitted (p : Dec) (hp : UnitP p) (evH h power : Int) (he : evH ≤ h) (hpow : 0 < power) :
    slashAdmitted p evH h power true = true := by
  have h0 : ¬ p.raw < 0 := by have := hp.1; omega
  have h1 : ¬ h < evH := by omega
  have h2 : ¬ power ≤ 0 := by omega
  simp [slashAdmitted, slashParamRejects, h0, h1, h2]

/-- in particular factor 0: admitted, and its execution cuts nothing from a pool … -/
theorem C04_zero_factor_admitted_cuts_nothing (evH h power : Int) (he : evH ≤ h) (hpow : 0 < power)
    (pl : Pool) (hl : Bool) (ha : 0 ≤ pl.amount) :
    slashAdmitted Dec.zero evH h power true = true ∧ (cutPool pl Dec.zero hl).2 = 0 ∧
    (cutPool pl Dec.zero hl).1.amount = pl.amount := by
  have hu : UnitP Dec.zero := by unfold UnitP; simp [Dec.zero, PREC]
  refine ⟨C04_unit_factor_admitted Dec.zero hu evH h power he hpow, ?_⟩
  have hc := C04_pool_cut pl Dec.zero hl hu ha
  have hz : (Dec.mulInt Dec.zero pl.amount).truncateInt = 0 := by
    simp [Dec.mulInt, Dec.zero, Dec.truncateInt]
  rw [hz] at hc
  exact ⟨hc.1, by rw [hc.2.1, hc.1]; omega⟩

/-- what is refused: a negative factor, an event in the future, a non-positive power -/
theorem C04_guard_rejects (p : Dec) (evH h power : Int) :
    (p.raw < 0 → slashAdmitted p evH h power true = false) ∧
    (h < evH → slashAdmitted p evH h power true = false) ∧
    (power ≤ 0 → slashAdmitted p evH h power true = false) := by
  refine ⟨?_, ?_, ?_⟩ <;> intro hh <;> simp [slashAdmitted, slashParamRejects, hh]

example : slashAdmitted Dec.zero 5 7 10 true = true ∧ slashAdmitted (Dec.ofInt 1) 7 7 1 true = true ∧
          slashAdmitted ⟨-1⟩ 5 7 10 true = false := by decide

end ExoVerif.Ledger
