import ExoVerif.Proofs.ValSet
/-!
# C06 — validator-set updates handed to consensus are exactly the eligible top set

Model: `ExoVerif.ValSet` (`Model/ValSet.lean`), a transcription of x/dogfood/keeper/abci.go:
EndBlock (vote-power diff), utils.SortByPower and validators.go: ApplyValidatorChanges. It is
tied to the Go code by the regenerated comparators / loop body (`Props/C06Tie.lean`) and by the
differential run of `./check C06` (real `app.EndBlock` against `endBlockEpoch`, epoch by epoch).

The theorems quantify over every previous validator set, every list of eligible candidates and
every maximum. The two side conditions on the candidates are exactly C07's guarantees (a key
belongs to one operator; a current key resolves to its operator).
-/
namespace ExoVerif.ValSet
open ExoVerif.VMap

/-- what C06 needs from the rest of the system about the inputs of one epoch-closing EndBlock -/
structure InputsOK (prev : VSet) (cands : List Cand) : Prop where
  prevNoDup : KV.NoDup prev                       -- store keys are unique (KV store)
  keysNodup : (cands.map (·.key)).Nodup           -- C07: a consensus key has one operator
  revOK : ∀ c ∈ cands, c.rev = true               -- C07: a current key resolves to its operator

/-! ## helper facts about the specification side -/

theorem key_inj_of_nodup (l : List Cand) (h : (l.map (·.key)).Nodup) (a b : Cand)
    (ha : a ∈ l) (hb : b ∈ l) (e : a.key = b.key) : a = b := by
  induction l with
  | nil => cases ha
  | cons c rest ih =>
    have hnd : c.key ∉ rest.map (·.key) ∧ (rest.map (·.key)).Nodup := by
      simpa only [List.map_cons, List.nodup_cons] using h
    rcases List.mem_cons.1 ha with h1 | ha2 <;> rcases List.mem_cons.1 hb with h2 | hb2
    · rw [h1, h2]
    · subst h1; exact absurd ((List.mem_map (f := fun x : Cand => x.key)).2 ⟨b, hb2, e.symm⟩) hnd.1
    · subst h2; exact absurd ((List.mem_map (f := fun x : Cand => x.key)).2 ⟨a, ha2, e⟩) hnd.1
    · exact ih hnd.2 ha2 hb2

theorem get_map_mem (l : List Cand) (h : (l.map (·.key)).Nodup) (c : Cand) (hc : c ∈ l) :
    VMap.get (l.map (fun c => (c.key, c.power))) c.key = some c.power := by
  induction l with
  | nil => cases hc
  | cons a rest ih =>
    have hnd : a.key ∉ rest.map (·.key) ∧ (rest.map (·.key)).Nodup := by
      simpa only [List.map_cons, List.nodup_cons] using h
    rcases List.mem_cons.1 hc with rfl | hc
    · simp [VMap.get, KV.find?]
    · have : ¬ a.key = c.key := fun e => hnd.1 (List.mem_map.2 ⟨c, hc, e.symm⟩)
      simp only [List.map_cons, VMap.get, KV.find?, this, if_false]
      exact ih hnd.2 hc

theorem get_map_not_mem (l : List Cand) (k : Nat) (h : k ∉ l.map (·.key)) :
    VMap.get (l.map (fun c => (c.key, c.power))) k = none := by
  apply KV.find?_none_of_not_mem
  simpa [KV.keys, List.map_map] using h

theorem sorted_keys_nodup (cands : List Cand) (h : (cands.map (·.key)).Nodup) :
    ((isort candLe cands).map (·.key)).Nodup :=
  (((isort_perm candLe cands).map (·.key)).nodup_iff).2 h

theorem sorted_by_power (cands : List Cand) :
    (isort candLe cands).Pairwise (fun a b => b.power ≤ a.power) := by
  refine (isort_sorted candLe cands candLe_total candLe_trans).imp ?_
  intro a b h
  rw [candLe_iff] at h; omega

theorem selected_eq_topK (cands : List Cand) (maxVals : Nat) :
    selected maxVals (isort candLe cands) 0 = topK cands maxVals := by
  rw [selected_eq_take_filter maxVals _ 0 (sorted_by_power cands)]; rfl

theorem topK_sublist (cands : List Cand) (maxVals : Nat) : (topK cands maxVals).Sublist (isort candLe cands) :=
  (List.filter_sublist).trans (List.take_sublist _ _)

theorem topK_keys_nodup (cands : List Cand) (maxVals : Nat) (h : (cands.map (·.key)).Nodup) :
    ((topK cands maxVals).map (·.key)).Nodup :=
  (sorted_keys_nodup cands h).sublist ((topK_sublist cands maxVals).map _)

theorem topK_power (cands : List Cand) (maxVals : Nat) : ∀ c ∈ topK cands maxVals, 1 ≤ c.power := by
  intro c hc
  have := (List.mem_filter.1 hc).2
  simpa using this

theorem topK_mem_cands (cands : List Cand) (maxVals : Nat) : ∀ c ∈ topK cands maxVals, c ∈ cands :=
  fun c hc => (isort_perm candLe cands).mem_iff.1 ((topK_sublist cands maxVals).subset hc)

/-- closed form of the list EndBlock hands to ApplyValidatorChanges -/
theorem diff_spec (prev : VSet) (cands : List Cand) (maxVals : Nat) (hnd : (cands.map (·.key)).Nodup) :
    ∃ pm : VSet,
      (∀ k, get pm k = if k ∈ (topK cands maxVals).map (·.key) then none else get prev k) ∧
      (diff prev cands maxVals).1
        = ((topK cands maxVals).filter (changed prev)).map toUpd ++ removals prev pm ∧
      (diff prev cands maxVals).2 = ((topK cands maxVals).map (·.power)).sum := by
  obtain ⟨h1, h2, h3⟩ := loop_char maxVals prev (isort candLe cands) 0 ⟨prev, [], 0⟩
    (sorted_keys_nodup cands hnd) (fun _ _ => rfl)
  rw [selected_eq_topK] at h1 h2 h3
  refine ⟨(loop maxVals (isort candLe cands) 0 ⟨prev, [], 0⟩).prevMap, h2, ?_, ?_⟩
  · simp only [diff, h1, List.nil_append]
  · simp only [diff, h3]; omega

/-- membership in the diff list -/
theorem mem_diff (prev : VSet) (cands : List Cand) (maxVals : Nat) (hnd : (cands.map (·.key)).Nodup) (u : Upd) :
    u ∈ (diff prev cands maxVals).1 ↔
      (∃ c ∈ topK cands maxVals, changed prev c = true ∧ u = toUpd c) ∨
      (u.power = 0 ∧ has prev u.key = true ∧ u.key ∉ (topK cands maxVals).map (·.key)) := by
  obtain ⟨pm, hpm, hD, _⟩ := diff_spec prev cands maxVals hnd
  rw [hD, List.mem_append, mem_removals]
  constructor
  · rintro (h | ⟨h0, hk, hp⟩)
    · obtain ⟨c, hc, rfl⟩ := List.mem_map.1 h
      have := List.mem_filter.1 hc
      exact Or.inl ⟨c, this.1, this.2, rfl⟩
    · right
      have hk' := get_isSome_of_mem_keys _ _ hk
      by_cases hm : u.key ∈ (topK cands maxVals).map (·.key)
      · simp [has, hpm, hm] at hp
      · exact ⟨h0, hk', hm⟩
  · rintro (⟨c, hc, hch, rfl⟩ | ⟨h0, hk, hm⟩)
    · exact Or.inl (List.mem_map.2 ⟨c, List.mem_filter.2 ⟨hc, hch⟩, rfl⟩)
    · right
      refine ⟨h0, ?_, ?_⟩
      · simp only [has] at hk
        cases hg : get prev u.key with
        | none => rw [hg] at hk; cases hk
        | some v => exact get_some_mem_keys _ _ v hg
      · simp only [has, hpm, hm, if_false]; exact hk

theorem diff_keys_nodup (prev : VSet) (cands : List Cand) (maxVals : Nat)
    (hp : KV.NoDup prev) (hnd : (cands.map (·.key)).Nodup) :
    ((diff prev cands maxVals).1.map (·.key)).Nodup := by
  obtain ⟨pm, hpm, hD, _⟩ := diff_spec prev cands maxVals hnd
  rw [hD, List.map_append, List.nodup_append]
  refine ⟨?_, removals_keys_nodup prev pm hp, ?_⟩
  · rw [List.map_map]
    have : ((fun u : Upd => u.key) ∘ toUpd) = (fun c : Cand => c.key) := rfl
    rw [this]
    exact (topK_keys_nodup cands maxVals hnd).sublist ((List.filter_sublist).map _)
  · intro a ha b hb e
    obtain ⟨u, hu, rfl⟩ := List.mem_map.1 ha
    obtain ⟨w, hw, rfl⟩ := List.mem_map.1 hb
    obtain ⟨c, hc, rfl⟩ := List.mem_map.1 hu
    have hc' := (List.mem_filter.1 hc).1
    have hw' := (mem_removals prev pm w).1 hw
    have hin : w.key ∈ (topK cands maxVals).map (·.key) := by
      rw [← e]; exact List.mem_map.2 ⟨c, hc', rfl⟩
    have := hw'.2.2
    simp [has, hpm, hin] at this

/-- applying any per-key update function to (a reordering of) the diff list yields the top set -/
theorem diff_apply_pointwise (prev : VSet) (cands : List Cand) (maxVals : Nat)
    (hp : KV.NoDup prev) (hnd : (cands.map (·.key)).Nodup)
    (f : VSet → Upd → VSet) (eff : Upd → Option Int)
    (hf1 : ∀ vs u, get (f vs u) u.key = eff u)
    (hf2 : ∀ vs u k, k ≠ u.key → get (f vs u) k = get vs k)
    (heff : ∀ u, 0 ≤ u.power → eff u = if u.power < 1 then none else some u.power)
    (L : List Upd) (hL : ∀ u, u ∈ L ↔ u ∈ (diff prev cands maxVals).1) (hLnd : (L.map (·.key)).Nodup)
    (cs : VSet) (hcs : ∀ k, get cs k = get prev k) (k : Nat) :
    get (L.foldl f cs) k = get (topMap cands maxVals) k := by
  have htopnd := topK_keys_nodup cands maxVals hnd
  by_cases hk : k ∈ (topK cands maxVals).map (·.key)
  · obtain ⟨c, hc, rfl⟩ := List.mem_map.1 hk
    have hcp := topK_power cands maxVals c hc
    rw [topMap, get_map_mem _ htopnd c hc]
    by_cases hch : changed prev c = true
    · have hmem : toUpd c ∈ L := (hL _).2 ((mem_diff prev cands maxVals hnd _).2 (Or.inl ⟨c, hc, hch, rfl⟩))
      have := fold_get_mem f eff hf1 hf2 L cs (toUpd c) hLnd hmem
      simp only [toUpd] at this
      rw [this, heff _ (by simp; omega)]
      have : ¬ c.power < 1 := by omega
      simp [this]
    · have hprev : get prev c.key = some c.power := by
        simp only [changed, bne_iff_ne, ne_eq, Decidable.not_not] at hch; exact hch
      have hnot : c.key ∉ L.map (·.key) := by
        intro hm
        obtain ⟨u, hu, hue⟩ := List.mem_map.1 hm
        rcases (mem_diff prev cands maxVals hnd u).1 ((hL u).1 hu) with ⟨c', hc', hch', rfl⟩ | ⟨_, _, hnk⟩
        · have : c' = c := key_inj_of_nodup _ htopnd c' c hc' hc hue
          subst this; exact hch hch'
        · exact hnk (hue ▸ hk)
      rw [fold_get_not_mem f hf2 L cs c.key hnot, hcs, hprev]
  · rw [topMap, get_map_not_mem _ k hk]
    by_cases hh : has prev k = true
    · have hmem : (⟨k, 0⟩ : Upd) ∈ L :=
        (hL _).2 ((mem_diff prev cands maxVals hnd _).2 (Or.inr ⟨rfl, hh, hk⟩))
      have := fold_get_mem f eff hf1 hf2 L cs ⟨k, 0⟩ hLnd hmem
      simp only at this
      rw [this, heff _ (by simp)]
      simp
    · have hprev : get prev k = none := by
        simp only [has] at hh
        cases hg : get prev k with
        | none => rfl
        | some v => rw [hg] at hh; simp at hh
      have hnot : k ∉ L.map (·.key) := by
        intro hm
        obtain ⟨u, hu, hue⟩ := List.mem_map.1 hm
        rcases (mem_diff prev cands maxVals hnd u).1 ((hL u).1 hu) with ⟨c', hc', _, rfl⟩ | ⟨_, hhas, _⟩
        · exact hk (List.mem_map.2 ⟨c', hc', hue⟩)
        · rw [hue] at hhas; exact hh hhas
      rw [fold_get_not_mem f hf2 L cs k hnot, hcs, hprev]

/-- every entry of the diff list is forwarded by ApplyValidatorChanges -/
theorem diff_all_forwarded (s : DState) (cands : List Cand) (maxVals : Nat) (h : InputsOK s.vals cands) :
    ((diff s.vals cands maxVals).1.foldl (applyChange (revOf cands)) (s.vals, [])).2
      = (diff s.vals cands maxVals).1 := by
  have := applyChanges_emit_all (revOf cands) (diff s.vals cands maxVals).1 s.vals []
    (diff_keys_nodup s.vals cands maxVals h.prevNoDup h.keysNodup) ?_
  · simpa using this
  · intro u hu
    rcases (mem_diff s.vals cands maxVals h.keysNodup u).1 hu with ⟨c, hc, _, rfl⟩ | ⟨h0, hhas, _⟩
    · have hcp := topK_power cands maxVals c hc
      have hcm := topK_mem_cands cands maxVals c hc
      refine ⟨fun hlt => by simp only [toUpd] at hlt; omega, fun _ _ => ?_⟩
      simp only [revOf, toUpd, List.any_eq_true]
      exact ⟨c, hcm, by simp [h.revOK c hcm]⟩
    · exact ⟨fun _ => hhas, fun h1 => by omega⟩

/-! ## the property -/

/-- **Main theorem.** At the end of the block that closes an epoch, for every previous set,
every candidate list and every maximum: the list returned to the consensus engine is one that
CometBFT accepts (no key twice, no negative power, no removal of an unknown key); applied to
the previous set (CometBFT's copy `cs`, equal as a map to the stored one) it yields exactly the
eligible top set; the stored set is the same map; the stored update list is the returned one. -/
theorem C06_updates_yield_topk (s : DState) (cands : List Cand) (maxVals : Nat)
    (h : InputsOK s.vals cands) (cs : VSet) (hcs : ∀ k, get cs k = get s.vals k) :
    let r := endBlockEpoch s cands maxVals
    cometAccepts cs r.2 ∧
    (∀ k, get (cometApply cs r.2) k = get (topMap cands maxVals) k) ∧
    (∀ k, get r.1.vals k = get (topMap cands maxVals) k) ∧
    r.1.valUpdates = r.2 := by
  intro r
  have hfw := diff_all_forwarded s cands maxVals h
  have hr2 : r.2 = isort updLe (diff s.vals cands maxVals).1 := by
    show (endBlockEpoch s cands maxVals).2 = _
    simp only [endBlockEpoch]
    rw [hfw]
  have hr1 : r.1.vals = (diff s.vals cands maxVals).1.foldl valStep s.vals := by
    show (endBlockEpoch s cands maxVals).1.vals = _
    simp only [endBlockEpoch]
    rw [foldl_applyChange_fst]
  have hperm := isort_perm updLe (diff s.vals cands maxVals).1
  have hDnd := diff_keys_nodup s.vals cands maxVals h.prevNoDup h.keysNodup
  have hLnd : (r.2.map (·.key)).Nodup := by
    rw [hr2]; exact ((hperm.map (·.key)).nodup_iff).2 hDnd
  have hL : ∀ u, u ∈ r.2 ↔ u ∈ (diff s.vals cands maxVals).1 := by
    intro u; rw [hr2]; exact hperm.mem_iff
  refine ⟨⟨hLnd, ?_⟩, ?_, ?_, ?_⟩
  · intro u hu
    rcases (mem_diff s.vals cands maxVals h.keysNodup u).1 ((hL u).1 hu) with ⟨c, hc, _, rfl⟩ | ⟨h0, hhas, _⟩
    · have hcp := topK_power cands maxVals c hc
      simp only [toUpd]
      exact ⟨by omega, fun e => by omega⟩
    · refine ⟨by omega, fun _ => ?_⟩
      simp only [has, hcs]; exact hhas
  · intro k
    exact diff_apply_pointwise s.vals cands maxVals h.prevNoDup h.keysNodup cometStep
      (fun u => if u.power == 0 then none else some u.power) cometStep_same cometStep_other
      (by intro u hu
          by_cases h0 : u.power = 0
          · simp [h0]
          · have : ¬ u.power < 1 := by omega
            simp [h0, this])
      r.2 hL hLnd cs hcs k
  · intro k
    rw [hr1]
    exact diff_apply_pointwise s.vals cands maxVals h.prevNoDup h.keysNodup valStep
      (fun u => if u.power < 1 then none else some u.power) valStep_same valStep_other
      (fun _ _ => rfl) _ (fun _ => Iff.rfl) hDnd s.vals (fun _ => rfl) k
  · rfl

/-- The update list never contains a key twice — for any previous set and any candidates with
distinct keys, whatever the reverse lookups say. -/
theorem C06_no_duplicate_keys (s : DState) (cands : List Cand) (maxVals : Nat)
    (hp : KV.NoDup s.vals) (hnd : (cands.map (·.key)).Nodup) :
    ((endBlockEpoch s cands maxVals).2.map (·.key)).Nodup := by
  obtain ⟨l, hl1, hl2⟩ := applyChanges_sublist (revOf cands) (diff s.vals cands maxVals).1 s.vals []
  have : (endBlockEpoch s cands maxVals).2 = isort updLe l := by
    simp only [endBlockEpoch]; rw [hl2]; simp
  rw [this]
  exact (((isort_perm updLe l).map (·.key)).nodup_iff).2
    ((diff_keys_nodup s.vals cands maxVals hp hnd).sublist (hl1.map _))

/-- It never adds a key with zero (or negative) power and never removes an unknown key: every
entry either carries a power ≥ 1, or has power exactly 0 and names a key of the previous set. -/
theorem C06_no_zero_add_no_unknown_remove (s : DState) (cands : List Cand) (maxVals : Nat)
    (hnd : (cands.map (·.key)).Nodup) :
    ∀ u ∈ (endBlockEpoch s cands maxVals).2,
      1 ≤ u.power ∨ (u.power = 0 ∧ has s.vals u.key = true) := by
  obtain ⟨l, hl1, hl2⟩ := applyChanges_sublist (revOf cands) (diff s.vals cands maxVals).1 s.vals []
  have : (endBlockEpoch s cands maxVals).2 = isort updLe l := by
    simp only [endBlockEpoch]; rw [hl2]; simp
  rw [this]
  intro u hu
  have hu' := hl1.subset ((isort_perm updLe l).mem_iff.1 hu)
  rcases (mem_diff s.vals cands maxVals hnd u).1 hu' with ⟨c, hc, _, rfl⟩ | ⟨h0, hhas, _⟩
  · exact Or.inl (topK_power cands maxVals c hc)
  · exact Or.inr ⟨h0, hhas⟩

/-- The list is sorted by a total order on its content (power descending, then key string
descending) … -/
theorem C06_updates_sorted (s : DState) (cands : List Cand) (maxVals : Nat) :
    (endBlockEpoch s cands maxVals).2.Pairwise (fun a b => updLe a b = true) := by
  simp only [endBlockEpoch]
  exact isort_sorted updLe _ updLe_total updLe_trans

/-- … hence identically ordered on every node: any list with the same content that respects
the comparator (whatever sorting algorithm produced it — Go's `sort.Slice` is not stable) is
this very list. -/
theorem C06_order_is_function_of_content (s : DState) (cands : List Cand) (maxVals : Nat)
    (other : List Upd) (hperm : other.Perm (endBlockEpoch s cands maxVals).2)
    (hsorted : other.Pairwise (fun a b => updLe a b = true)) :
    other = (endBlockEpoch s cands maxVals).2 :=
  List.Perm.eq_of_pairwise (le := fun a b => updLe a b = true)
    (fun a b _ _ h1 h2 => updLe_antisymm a b h1 h2) hsorted
    (C06_updates_sorted s cands maxVals) hperm

/-- The same for the candidate order (operator addresses are distinct): the sorted candidate
list, hence the cut at the maximum, does not depend on the sorting algorithm. -/
theorem C06_candidate_order_unique (cands other : List Cand) (hops : (cands.map (·.op)).Nodup)
    (hperm : other.Perm cands) (hsorted : other.Pairwise (fun a b => candLe a b = true)) :
    other = isort candLe cands := by
  have hp2 := isort_perm candLe cands
  refine List.Perm.eq_of_pairwise (le := fun a b => candLe a b = true) ?_ hsorted
    (isort_sorted candLe cands candLe_total candLe_trans) (hperm.trans hp2.symm)
  intro a b ha hb h1 h2
  have ha' := hperm.mem_iff.1 ha
  have hb' := hp2.mem_iff.1 hb
  refine candLe_antisymm a b (fun e => ?_) h1 h2
  -- distinct operators ⇒ equal `op` means the same candidate
  clear h1 h2 ha hb hperm hsorted hp2
  induction cands with
  | nil => cases ha'
  | cons c rest ih =>
    have hnd : c.op ∉ rest.map (·.op) ∧ (rest.map (·.op)).Nodup := by
      simpa only [List.map_cons, List.nodup_cons] using hops
    rcases List.mem_cons.1 ha' with h1 | ha2 <;> rcases List.mem_cons.1 hb' with h2 | hb2
    · rw [h1, h2]
    · subst h1; exact absurd ((List.mem_map (f := fun x : Cand => x.op)).2 ⟨b, hb2, e.symm⟩) hnd.1
    · subst h2; exact absurd ((List.mem_map (f := fun x : Cand => x.op)).2 ⟨a, ha2, e⟩) hnd.1
    · exact ih hnd.2 ha2 hb2

/-- The stored total power is the sum of the powers of the eligible top set whenever the update
list is non-empty, and is left alone otherwise (then the set did not change either, see
`C06_updates_yield_topk`). -/
theorem C06_total_power (s : DState) (cands : List Cand) (maxVals : Nat)
    (hnd : (cands.map (·.key)).Nodup) :
    (endBlockEpoch s cands maxVals).1.lastTotalPower =
      if (diff s.vals cands maxVals).1.length > 0 then ((topK cands maxVals).map (·.power)).sum
      else s.lastTotalPower := by
  obtain ⟨pm, _, _, h3⟩ := diff_spec s.vals cands maxVals hnd
  simp only [endBlockEpoch]
  rw [h3]

/-- In every other block the list is empty and neither the set nor the total changes. -/
theorem C06_non_epoch_block_empty (s : DState) :
    (endBlockOther s).2 = [] ∧ (endBlockOther s).1.valUpdates = [] ∧
    (endBlockOther s).1.vals = s.vals ∧ (endBlockOther s).1.lastTotalPower = s.lastTotalPower := by
  simp [endBlockOther]

/-- The store stays a map (no key twice) — the invariant the next epoch's hypothesis needs. -/
theorem C06_store_nodup_kept (s : DState) (cands : List Cand) (maxVals : Nat) (hp : KV.NoDup s.vals) :
    KV.NoDup (endBlockEpoch s cands maxVals).1.vals := by
  have : (endBlockEpoch s cands maxVals).1.vals = (diff s.vals cands maxVals).1.foldl valStep s.vals := by
    simp only [endBlockEpoch]; rw [foldl_applyChange_fst]
  rw [this]
  exact noDup_foldl_valStep _ _ hp

/-! ## any number of consecutive epochs -/

/-- one block: `none` = a block that does not close an epoch -/
def stepBlock (sc : DState × VSet) (b : Option (List Cand × Nat)) : DState × VSet :=
  match b with
  | none => ((endBlockOther sc.1).1, cometApply sc.2 (endBlockOther sc.1).2)
  | some (cands, maxVals) =>
    ((endBlockEpoch sc.1 cands maxVals).1, cometApply sc.2 (endBlockEpoch sc.1 cands maxVals).2)

def runBlocks (sc : DState × VSet) (bs : List (Option (List Cand × Nat))) : DState × VSet :=
  bs.foldl stepBlock sc

def blocksOK (bs : List (Option (List Cand × Nat))) : Prop :=
  ∀ b ∈ bs, match b with
    | none => True
    | some (cands, _) => (cands.map (·.key)).Nodup ∧ ∀ c ∈ cands, c.rev = true

/-- Over any number of consecutive blocks (epoch-closing or not, any candidates, any maxima):
the consensus engine's set, obtained only by applying the returned lists, and the stored set
stay the same map, and the store stays duplicate-free. -/
theorem C06_engine_and_store_agree_forever (s : DState) (cs : VSet)
    (bs : List (Option (List Cand × Nat)))
    (hp : KV.NoDup s.vals) (hcs : ∀ k, get cs k = get s.vals k) (hbs : blocksOK bs) :
    KV.NoDup (runBlocks (s, cs) bs).1.vals ∧
    ∀ k, get (runBlocks (s, cs) bs).2 k = get (runBlocks (s, cs) bs).1.vals k := by
  induction bs generalizing s cs with
  | nil => exact ⟨hp, hcs⟩
  | cons b rest ih =>
    simp only [runBlocks, List.foldl_cons]
    have hb := hbs b (List.mem_cons_self ..)
    have hrest : blocksOK rest := fun x hx => hbs x (List.mem_cons_of_mem _ hx)
    cases b with
    | none =>
      apply ih
      · exact hp
      · intro k; simp [endBlockOther, cometApply, hcs]
      · exact hrest
    | some p =>
      obtain ⟨cands, maxVals⟩ := p
      simp only at hb
      have hok : InputsOK s.vals cands := ⟨hp, hb.1, hb.2⟩
      obtain ⟨_, h2, h3, _⟩ := C06_updates_yield_topk s cands maxVals hok cs hcs
      apply ih
      · exact C06_store_nodup_kept s cands maxVals hp
      · intro k; simp only [stepBlock]; rw [h2, h3]
      · exact hrest

/-- … and after every epoch-closing block both are exactly the eligible top set of that block. -/
theorem C06_after_epoch_is_topk (s : DState) (cs : VSet) (bs : List (Option (List Cand × Nat)))
    (cands : List Cand) (maxVals : Nat)
    (hp : KV.NoDup s.vals) (hcs : ∀ k, get cs k = get s.vals k) (hbs : blocksOK (bs ++ [some (cands, maxVals)])) :
    ∀ k, get (runBlocks (s, cs) (bs ++ [some (cands, maxVals)])).2 k = get (topMap cands maxVals) k := by
  have hbs1 : blocksOK bs := fun x hx => hbs x (List.mem_append_left _ hx)
  have hlast := hbs (some (cands, maxVals)) (List.mem_append_right _ (List.mem_singleton.2 rfl))
  simp only at hlast
  obtain ⟨h1, h2⟩ := C06_engine_and_store_agree_forever s cs bs hp hcs hbs1
  intro k
  simp only [runBlocks, List.foldl_append, List.foldl_cons, List.foldl_nil, stepBlock]
  have hok : InputsOK (List.foldl stepBlock (s, cs) bs).1.vals cands := ⟨h1, hlast.1, hlast.2⟩
  exact (C06_updates_yield_topk _ cands maxVals hok _ h2).2.1 k

/-! ## what happens without C07's guarantee (the `ctx`-instead-of-`cc` write) -/

/-- If the reverse lookup of a re-powered validator is missing, the store is updated but the
engine is not told: the two sets diverge. (Recorded, not a C06 violation on its own: it needs
a C07 violation to fire.) -/
example :
    let s : DState := { vals := [(7, 10)], lastTotalPower := 10, valUpdates := [] }
    let r := endBlockEpoch s [⟨1, 7, 11, false⟩] 5
    r.2 = [] ∧ get r.1.vals 7 = some 11 := by decide

/-! ## non-vacuity -/

private def s0 : DState := { vals := [(1, 50), (2, 40), (3, 30)], lastTotalPower := 120, valUpdates := [] }
-- op 10 keeps key 1 with a new power, op 11 replaced key 2 by key 5, op 12 (key 3) dropped to
-- power 0, op 13/14 tie at 45 (address breaks the tie), maximum 3
private def c0 : List Cand := [⟨10, 1, 60, true⟩, ⟨11, 5, 40, true⟩, ⟨12, 3, 0, true⟩, ⟨14, 8, 45, true⟩, ⟨13, 9, 45, true⟩]

example : InputsOK s0.vals c0 := ⟨by unfold KV.NoDup KV.keys; decide, by decide, by decide⟩
example : (endBlockEpoch s0 c0 3).2 = [⟨1, 60⟩, ⟨9, 45⟩, ⟨8, 45⟩, ⟨3, 0⟩, ⟨2, 0⟩] := by decide
example : topMap c0 3 = [(1, 60), (9, 45), (8, 45)] := by decide
example : (endBlockEpoch s0 c0 3).1.lastTotalPower = 150 := by decide
example : blocksOK [none, some (c0, 3), none, some (c0, 1)] := by
  intro b hb; simp at hb; rcases hb with rfl | rfl | rfl | rfl <;> simp <;> decide

end ExoVerif.ValSet
