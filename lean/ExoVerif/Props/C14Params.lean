import ExoVerif.Props.C14
import ExoVerif.Model.OracleParams
/-!
# C14 — a refused parameter update leaves the in-memory context what a restart rebuilds

"right after a parameter change" (quantifier of C14) includes the parameter change that was *refused*:
the store is untouched, so a restarted node rebuilds the old params; the node that never stopped must
still hold the old params too. `updateParams` (Model/OracleParams.lean) transcribes the handler with
its edit-and-validate chain left abstract; what matters is where the edited value comes from — a fresh
decode of the store (tie `C14_tie_updateParams_base`) — so a refusal is the identity on the process.
-/
namespace ExoVerif.Oracle

/-- a refused UpdateParams returns the state it was given: store, aggregator context (`Agc`), cache -/
theorem C14_updateParams_refused_noop (s : State) (upd : ParamsUpdate) (h : (updateParams s upd).2 = false) :
    (updateParams s upd).1 = s := by
  unfold updateParams at h ⊢
  split
  · rfl
  · rename_i p' hp
    simp only [hp] at h
    split
    · rfl
    · rename_i s1 hs1
      simp [hs1] at h

/-- in particular whenever the edit-and-validate chain refuses -/
theorem C14_updateParams_refused_of_chain (s : State) (upd : ParamsUpdate) (h : upd s.store.params s.height = none) :
    updateParams s upd = (s, false) := by
  unfold updateParams; rw [h]

/-- and the context a refused update leaves is the one it found -/
theorem C14_updateParams_refused_keeps_agc (s : State) (upd : ParamsUpdate) (h : (updateParams s upd).2 = false) :
    (updateParams s upd).1.agc = s.agc ∧ (updateParams s upd).1.cache = s.cache ∧ (updateParams s upd).1.store = s.store := by
  rw [C14_updateParams_refused_noop s upd h]; exact ⟨rfl, rfl, rfl⟩

/-- an accepted update does not touch the context either (it changes at EndBlock, when the cache is
committed — on the restarted node as well, which reads the same committed params): in an initialised
process the context is the one found, the cache holds the new params with the update flag -/
theorem C14_updateParams_accepted_keeps_agc (s : State) (upd : ParamsUpdate) (g : Agc) (c : Cache) (p' : Params)
    (hg : s.agc = some g) (hc : s.cache = some c) (hu : upd s.store.params s.height = some p') :
    (updateParams s upd).1.agc = some g ∧ (updateParams s upd).1.store.params = p' ∧
    (updateParams s upd).1.cache = some { c with params := some p', pUpdate := true } ∧ (updateParams s upd).2 = true := by
  cases s with
  | mk store agc cache dogfood height blockTime =>
    simp only at hg hc hu
    subst hg; subst hc
    simp [updateParams, hu, getAgc, State.cacheD]

/-- refused updates anywhere in the deliver phase are invisible: the block runs as without them -/
theorem C14_refused_updates_transparent (items : List (Option Tx)) :
    ∀ s : State, runDeliver s items = runTxs s (items.filterMap id) := by
  induction items with
  | nil => intro s; rfl
  | cons it rest ih =>
    intro s
    cases it with
    | none =>
      have : (updateParams s refusedUpdate).1 = s := rfl
      simp only [runDeliver, this, List.filterMap_cons, id]
      exact ih s
    | some tx =>
      simp only [runDeliver, List.filterMap_cons, id, runTxs]
      rw [ih]

/-- a block whose deliver phase carries refused parameter updates between the transactions -/
structure BlockU where
  blockTime : Int
  items : List (Option Tx)
  updates : List (Nat × Int)

/-- the same block without them -/
def BlockU.strip (b : BlockU) : Block := { blockTime := b.blockTime, txs := b.items.filterMap id, updates := b.updates }

def runBlockU (s : State) (b : BlockU) : Option (State × List TxOut) :=
  let r := runDeliver (beginBlock s b.blockTime) b.items
  match endBlock r.1 b.updates with
  | some s2 => some (s2, r.2)
  | none => none

def runBlocksU : State → List BlockU → Option (State × List (List TxOut))
  | s, [] => some (s, [])
  | s, b :: bs =>
    match runBlockU s b with
    | none => none
    | some r =>
      match runBlocksU r.1 bs with
      | none => none
      | some rs => some (rs.1, r.2 :: rs.2)

theorem runBlockU_strip (s : State) (b : BlockU) : runBlockU s b = runBlock s b.strip := by
  unfold runBlockU runBlock BlockU.strip
  rw [C14_refused_updates_transparent]
  rfl

theorem runBlocksU_strip (bs : List BlockU) : ∀ s : State, runBlocksU s bs = runBlocks s (bs.map BlockU.strip) := by
  induction bs with
  | nil => intro s; rfl
  | cons b rest ih =>
    intro s
    simp only [runBlocksU, List.map_cons, runBlocks, runBlockU_strip]
    cases runBlock s b.strip with
    | none => rfl
    | some r => simp only [ih]; rfl

/-- **Restart equivalence is preserved by refused parameter updates**: for every genesis state and
every block sequence with refused `MsgUpdateParams` anywhere between its price transactions, if the
sequence without them is `Faithful` then the node restarted after the last committed block rebuilds —
from the committed store alone — the live process state, with a context equal to the live one up to
the recorded nonces (the conclusion of `C14_restart_equivalence_partial`, for the run WITH the refused
updates). -/
theorem C14_restart_equivalence_refused_updates_partial (s0 : State) (bs : List BlockU) (bt : Int)
    (hF : Faithful s0 (bs.map BlockU.strip)) :
    ∃ s outs gl gr, runBlocksU s0 bs = some (s, outs) ∧ s.agc = some gl ∧
      restartAt s bt = some { beginBlock s bt with agc := some gr } ∧ gr.Z = gl.Z := by
  rw [runBlocksU_strip]
  exact C14_restart_equivalence_partial s0 (bs.map BlockU.strip) bt hF

/-- non-vacuity: the history of Props/C14 with refused updates in three of its blocks -/
def exItems (b : Block) (i : Nat) : List (Option Tx) :=
  (if i % 4 = 2 then [none] else []) ++ b.txs.map some ++ (if i % 3 = 0 then [none] else [])

def exBlocksU : List BlockU :=
  exBlocks.zipIdx.map (fun bi => { blockTime := bi.1.blockTime, items := exItems bi.1 bi.2, updates := bi.1.updates })

example : exBlocksU.map BlockU.strip = exBlocks ∧ (exBlocksU.map (fun b => b.items.length)).sum = 9 := by decide
example : Faithful exGenesis (exBlocksU.map BlockU.strip) := by decide

/-- the edit a refused `{TokenFeeders: [{TokenID: 1, EndBlock: 16}]}` makes before Validate refuses it
("invalid EndBlock": 16 is the base block of a round of the feeder started at 2 with interval 7) -/
def exPhantomEnd (p : Params) : Params :=
  { p with feeders := p.feeders.map (fun f => if f.tokenID = 1 then { f with endBlock := 16 } else f) }

def endBlocksOf (s : State) : List Nat :=
  (s.agc.bind (fun g => g.params.map (fun p => p.feeders.map (·.endBlock)))).getD []

/-- the live node after the refused update under the shared-base variant, and what a restart of it
rebuilds: (store unchanged, rebuilt context = context before the message, rebuilt = live, end blocks
of the live / rebuilt feeders) -/
def exSharedObs (s : State) : Option (Bool × Bool × Bool × List Nat × List Nat) :=
  (restartAt (updateParamsSharedBaseRefused s exPhantomEnd) 100).map (fun s' =>
    (decide ((updateParamsSharedBaseRefused s exPhantomEnd).store = s.store),
     decide (s'.agc.map Agc.Z = s.agc.map Agc.Z),
     decide (s'.agc.map Agc.Z = (updateParamsSharedBaseRefused s exPhantomEnd).agc.map Agc.Z),
     endBlocksOf (updateParamsSharedBaseRefused s exPhantomEnd), endBlocksOf s'))

/-- What the shape fact excludes. Were the edited value the context's own params (`agc.GetParams()`:
shared element pointers — seeded change C14-f), the refused update of block 10 would stay in the live
context: the store is the same, the restarted node rebuilds the context the live node had BEFORE the
refused message, and the two differ (the live one ends feeder 1 at block 16, the restarted one never);
with the handler as it is (`updateParams`) the refused update changes nothing. -/
theorem C14_updateParams_shared_base_diverges :
    (runBlocks exGenesis exBlocks).bind (fun r => exSharedObs r.1) = some (true, true, false, [0, 16], [0, 0]) ∧
    (runBlocks exGenesis exBlocks).map (fun r => decide ((updateParams r.1 refusedUpdate).1 = r.1)) = some true := by
  refine ⟨?_, ?_⟩ <;> decide

end ExoVerif.Oracle
