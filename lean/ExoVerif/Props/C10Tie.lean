import ExoVerif.Generated.Facts
import ExoVerif.Model.Auth
/-!
# C10 tie: what each authority check reads, regenerated from the Go source

`ExoVerif.Gen.*` is rewritten by tools/exofacts (facts_atomic.go: genAuthFacts) on every run. The
decision functions of `Model/Auth.lean` assume exactly these reads; a changed comparison, a gateway
check that is no longer the first statement, an AVS method that starts to read `origin` (that would be
the fix of F-10b: `admitAvsOpt` would have to be re-transcribed), or an oracle branch that stops checking
the result of `VerifySignature` (F-10a, fixed by 8ec350f) changes a generated literal and breaks a
`decide` below.
-/
namespace ExoVerif.Auth
open ExoVerif.Gen

/-- every gateway-gated precompile method starts with
`err := p.assetsKeeper.CheckExocoreGatewayAddr(ctx, contract.CallerAddress); if err != nil { return nil, … }` -/
theorem C10_tie_gateway_check_first :
    gatewayCheckFirst =
      [("assets.DepositOrWithdraw", true), ("assets.RegisterOrUpdateClientChain", true), ("assets.RegisterToken", true),
       ("assets.UpdateToken", true), ("delegation.Delegate", true), ("delegation.Undelegate", true),
       ("delegation.AssociateOperatorWithStaker", true), ("delegation.DissociateOperatorFromStaker", true),
       ("reward.Reward", true)] := by decide

/-- CheckExocoreGatewayAddr rejects exactly when its argument differs from the stored parameter
(`admitGateway` = `callerAddress == gateway`) -/
theorem C10_tie_gateway_compare : gatewayCompare = "addr != exoCoreLzAppAddr" := by decide

/-- AVS precompile: the AVS / task-contract identity is always `contract.CallerAddress`; the acting
owner / operator identity is always an ABI argument (`admitManageAVS`, `admitAvsOpt`, `admitRegisterBLS`
read `arg0`), and `origin` is never looked at -/
theorem C10_tie_avs_reads :
    avsAuthReads =
      [("RegisterAVS.AvsAddress", "contract.CallerAddress"), ("DeregisterAVS.CallerAddress", "args[0]"),
       ("DeregisterAVS.AvsAddress", "contract.CallerAddress"), ("UpdateAVS.AvsAddress", "contract.CallerAddress"),
       ("BindOperatorToAVS.OperatorAddress", "args[0]"), ("BindOperatorToAVS.AvsAddress", "contract.CallerAddress"),
       ("UnbindOperatorToAVS.OperatorAddress", "args[0]"), ("UnbindOperatorToAVS.AvsAddress", "contract.CallerAddress"),
       ("CreateAVSTask.TaskContractAddress", "contract.CallerAddress"), ("Challenge.TaskContractAddress", "contract.CallerAddress"),
       ("Challenge.CallerAddress", "args[0]"), ("Challenge.OperatorAddress", "args[4]"),
       ("RegisterBLSPublicKey.Operator", "args[0]"), ("GetAVSParamsFromInputs.CallerAddress", "args[0]"),
       ("GetAVSParamsFromUpdateInputs.CallerAddress", "args[0]"), ("GetTaskParamsFromInputs.CallerAddress", "args[0]")] ∧
    avsOriginIgnored = true := by decide

/-- which owner list each AVS owner check consults: registration compares two *arguments* (`admitRegisterAVS`),
update / deregistration / task creation consult the **stored** AvsOwnerAddress of the caller-AVS
(`admitManageAVS`); an update that looked into the payload's list instead would let a non-owner take the AVS over -/
theorem C10_tie_avs_owner_lists :
    avsOwnerCheckReads =
      [("Precompile.RegisterAVS", "avsParams.AvsOwnerAddress contains avsParams.CallerAddress"),
       ("Precompile.UpdateAVS", "previousAVSInfo.Info.AvsOwnerAddress contains avsParams.CallerAddress"),
       ("Keeper.UpdateAVSInfo", "avsInfo.Info.AvsOwnerAddress contains params.CallerAddress"),
       ("Keeper.CreateAVSTask", "avsInfo.AvsOwnerAddress contains params.CallerAddress")] := by decide

/-- "rejected without any state change": in CreateAVSTask nothing is written before the owner-list check —
the only calls that precede `slices.Contains(avsInfo.AvsOwnerAddress, params.CallerAddress)` are the AVS lookup
and error formatting; the task-id allocation (`GetTaskID`, which stores the bumped counter) and `SetTaskInfo`
come after it; the precompile wrapper calls nothing but the argument parser before the keeper -/
theorem C10_tie_createTask_owner_check_before_writes :
    callSeqCreateAVSTask.takeWhile (· != "Contains") = ["GetAVSInfoByTaskAddress", "Wrap", "Sprintf"] ∧
    callSeqCreateAVSTask.filter (· ∈ ["Contains", "GetTaskID", "SetTaskInfo"]) = ["Contains", "GetTaskID", "SetTaskInfo"] ∧
    callSeqPrecompileCreateAVSTask.takeWhile (· != "CreateAVSTask") = ["GetTaskParamsFromInputs", "String"] := by decide

/-- SetTaskResultInfo compares the signer (`addr` = req.FromAddress = the field GetSigners returns) with
Info.OperatorAddress exactly once, as the first top-level statement, *before* `switch info.Stage`: it
dominates every phase branch (`admitTaskResult` has the comparison outside its `match`). A comparison moved
into one case clause shows up here as `case:…`. -/
theorem C10_tie_task_result_signer_check :
    taskResultSignerCheckSites = ["top-level:0:before-switch"] ∧
    taskResultStageCases = ["types.TwoPhaseCommitOne", "types.TwoPhaseCommitTwo", "default"] ∧
    taskResultSignerArg = "ctx, req.FromAddress, req.Info" ∧ taskResultGetSignersField = "m.FromAddress" := by decide

/-- oracle branch of SigVerificationDecorator: `VerifySignature` is no longer a statement of its own; it
stands in the condition of an `if` whose body returns an error (`admitOraclePrice` requires `sig = valid`).
Re-introducing F-10a (dropping the result, or dropping the call) flips one of the two literals. -/
theorem C10_tie_oracle_sig_checked : oracleSigResultDiscarded = false ∧ oracleSigResultChecked = true := by decide

/-- … and it is checked for EVERY signer of the transaction (`admitOraclePriceTx` = `rs.all …`): the
oracle branch holds exactly one loop, over the `sigs` of `GetSignaturesV2`; the only ways out of its body
are returns of an error; the VerifySignature guard is a statement of the loop body itself; `next` is
called after the loop. A `return next(…)` inside the loop (only the first creator's signature verified)
shows up in `oracleSigLoopExits` / `oracleSigLoopFollowedBy`. -/
theorem C10_tie_oracle_every_signer_checked :
    oracleSigLoopCount = 1 ∧ oracleSigLoopHeader = "for i, sig := range sigs" ∧
    oracleSigLoopSigsSource = "sigTx.GetSignaturesV2()" ∧
    oracleSigLoopExits = ["return-error", "return-error", "return-error"] ∧
    oracleSigLoopGuardTopLevel = true ∧ oracleSigLoopFollowedBy = "return next(ctx, tx, simulate)" := by decide

/-- all five UpdateParams handlers use the same condition (`admitUpdateParams`) -/
theorem C10_tie_update_params :
    updateParamsAuthority.map (·.2) =
      List.replicate 5 "utils.IsMainnet(CTX.ChainID()) && K.authority != M.Authority" ∧
    updateParamsAuthority.map (·.1) = ["oracle", "dogfood", "exomint", "feedistribution", "assets"] ∧
    isMainnetBody = "return strings.HasPrefix(chainID, MainnetChainID)" ∧ mainnetChainIDPrefix = "exocore_233" := by decide

end ExoVerif.Auth
