import ExoVerif.Proofs.OracleHistEx
/-!
# C13, history level — quota and fee-less traffic over whole rounds and histories

`Props/C13.lean` proves the admission rule for one transaction in an arbitrary state (`C13_admitted_iff`,
`C13_nonce_rule`, `C13_per_round_quota`: one admission moves one nonce entry up by one, never past
MaxNonce). Here the consequences for whole blocks, whole rounds and whole histories of the model
(`runTxs`, `runBlocks`) are proved: the nonce entry of a (validator, feeder) pair is a *remaining quota*
(`quotaLeft` = MaxNonce − stored nonce, 0 without an entry) that every admitted message spends one unit
of, that nothing inside a block refills, and that EndBlock refills only for feeders whose round opens
in that block; entries exist only for validators of the current set and configured feeders; hence
the per-round limit per validator and feeder, nothing for anybody else, and at most
validators × feeders × MaxNonce fee-less messages per block.

Standing hypothesis `PF p s`: see `Props/C12Hist.lean`.
-/
namespace ExoVerif.Oracle

/-! ## per block -/

/-- **One block, one (validator, feeder) pair.** Whatever the block's transactions are (any senders,
nonces, several messages per transaction, failing or finalizing ones), the messages admitted under
key `k` plus the quota `k` has left afterwards do not exceed the quota `k` had before — which is
at most MaxNonce. -/
theorem C13_hist_block_quota (p : Params) (s : State) (txs : List Tx) (hpf : PF p s) (k : Nat × Nat) :
    admittedTxs k txs (runTxs s txs).2 + quotaLeft s.store.params.maxNonce (runTxs s txs).1.store.nonces k ≤
      quotaLeft s.store.params.maxNonce s.store.nonces k ∧
    quotaLeft s.store.params.maxNonce s.store.nonces k ≤ s.store.params.maxNonce := by
  have := (runTxs_quota p k txs s hpf).1
  exact ⟨by omega, quotaLeft_le _ _ _⟩

/-! ## per round -/

/-- **Any stretch of blocks between two openings of the feeder's round.** If none of the EndBlocks of
the blocks `bs` opens a round of feeder `k.2`, everything admitted under `k` in all of `bs` is paid
from the quota `k` had at the start: at most MaxNonce in total, and what is left at the end is what
was not used. -/
theorem C13_hist_quota_between_openings (p : Params) (k : Nat × Nat) (s s' : State) (bs : List Block)
    (outs : List (List TxOut)) (hpf : PF p s) (hr : runBlocks s bs = some (s', outs))
    (hno : ∀ h, s.height < h → h ≤ s.height + bs.length → ¬ opensAt p k.2 h) :
    admittedBlocks k bs outs + quotaLeft s.store.params.maxNonce s'.store.nonces k ≤
      quotaLeft s.store.params.maxNonce s.store.nonces k ∧
    quotaLeft s.store.params.maxNonce s.store.nonces k ≤ s.store.params.maxNonce ∧
    s'.store.params = s.store.params := by
  have := runBlocks_quota p k bs s s' outs hpf hr hno
  exact ⟨by omega, quotaLeft_le _ _ _, this.2⟩

/-- **The per-round limit.** Feeder `fid` with parameters `f`; a state at a block boundary where the
feeder's round opens (offset 0); any blocks up to (excluding) the next opening, `len(bs) < Interval`:
validator `v` gets at most MaxNonce messages for feeder `fid` admitted in the whole round, whatever
it and everybody else sends. -/
theorem C13_hist_round_quota (p : Params) (fid : Nat) (f : Feeder) (v : Nat) (hf : p.feeder? fid = some f)
    (s s' : State) (bs : List Block) (outs : List (List TxOut)) (hpf : PF p s)
    (hr : runBlocks s bs = some (s', outs)) (hst : f.startBaseBlock ≤ s.height)
    (hopen : (s.height - f.startBaseBlock) % f.interval = 0) (hlen : bs.length < f.interval) :
    admittedBlocks (v, fid) bs outs ≤ s.store.params.maxNonce := by
  have hno : ∀ h, s.height < h → h ≤ s.height + bs.length → ¬ opensAt p (v, fid).2 h := by
    intro h h1 h2 ⟨f', hf', _, h0⟩
    simp only at hf'
    rw [hf] at hf'
    simp only [Option.some.injEq] at hf'
    subst hf'
    have e : h - f.startBaseBlock = (s.height - f.startBaseBlock) + (h - s.height) := by omega
    rw [e, Nat.add_mod, hopen, Nat.zero_add, Nat.mod_mod, Nat.mod_eq_of_lt (by omega)] at h0
    omega
  have := C13_hist_quota_between_openings p (v, fid) s s' bs outs hpf hr hno
  omega

/-- **Nobody else gets any.** Without a nonce entry at the start of such a stretch, nothing is
admitted under that key in the whole stretch. -/
theorem C13_hist_no_entry_nothing_admitted (p : Params) (k : Nat × Nat) (s s' : State) (bs : List Block)
    (outs : List (List TxOut)) (hpf : PF p s) (hr : runBlocks s bs = some (s', outs))
    (hno : ∀ h, s.height < h → h ≤ s.height + bs.length → ¬ opensAt p k.2 h)
    (hnone : alookup k s.store.nonces = none) : admittedBlocks k bs outs = 0 := by
  have := (C13_hist_quota_between_openings p k s s' bs outs hpf hr hno).1
  have e : quotaLeft s.store.params.maxNonce s.store.nonces k = 0 := by simp [quotaLeft, hnone]
  omega

/-! ## who holds entries: an invariant of every history -/

/-- **Entries only for current validators and configured feeders.** `NonceOK`: the nonce table holds
one entry per key, only for validators of the aggregator's current set and feeder ids
`1 ≤ fid < len(feeders)`. It is preserved by every list of blocks — submissions, finalizations,
roll-backs, forced seals, validators joining, leaving (F-13a repair: their entries are dropped in
the EndBlock that removes them) and changing power — and bounds the table by validators × feeders. -/
theorem C13_hist_nonce_entries_only_current_validators (p : Params) (s s' : State) (bs : List Block)
    (outs : List (List TxOut)) (g' : Agc) (hpf : PF p s) (hok : NonceOK p s)
    (hr : runBlocks s bs = some (s', outs)) (hg' : s'.agc = some g') :
    NonceOK p s' ∧
    (∀ v fid c, alookup (v, fid) s'.store.nonces = some c →
      (alookup v g'.vals).isSome = true ∧ 1 ≤ fid ∧ fid < p.feeders.length) ∧
    s'.store.nonces.length ≤ g'.vals.length * (p.feeders.length - 1) := by
  have hok' := runBlocks_nonceOK p bs s s' outs hpf hok hr
  refine ⟨hok', ?_, nonces_length_le p s' g' hok' hg'⟩
  intro v fid c hc
  have hm : (v, fid) ∈ akeys s'.store.nonces := by
    cases hd : decide ((v, fid) ∈ akeys s'.store.nonces) with
    | true => simpa using hd
    | false =>
      have : (v, fid) ∉ akeys s'.store.nonces := by simpa using hd
      rw [(alookup_none_iff _ _).mpr this] at hc; cases hc
  have := hok'.cur g' hg' (v, fid) hm
  refine ⟨?_, this.2⟩
  obtain ⟨x, hx⟩ := alookup_some_of_mem v g'.vals this.1
  rw [hx]; rfl

/-- **A sender outside the current validator set gets nothing admitted** in the block, for any feeder. -/
theorem C13_hist_non_validator_gets_nothing (p : Params) (s : State) (g : Agc) (txs : List Tx) (v fid : Nat)
    (hpf : PF p s) (hok : NonceOK p s) (hg : s.agc = some g) (hv : alookup v g.vals = none) :
    admittedTxs (v, fid) txs (runTxs s txs).2 = 0 := by
  have hnone : alookup (v, fid) s.store.nonces = none := by
    apply (alookup_none_iff _ _).mpr
    intro hm
    have := (hok.cur g hg (v, fid) hm).1
    exact (alookup_none_iff v g.vals).mp hv this
  have := (C13_hist_block_quota p s txs hpf (v, fid)).1
  have e : quotaLeft s.store.params.maxNonce s.store.nonces (v, fid) = 0 := by simp [quotaLeft, hnone]
  omega

/-! ## admitted only for an open round of the feeder -/

/-- **Entries — hence admissions — only while the feeder's round is open** (partial: F-09c). For the
observed feeder (`FeederHyp`, `1 ≤ MaxNonce < Interval`), the extended invariant `EHInv` — `HInv` of
`Props/C12Hist.lean`, `NonceOK`, and: every nonce entry for the feeder belongs to an open round of the
feeder — is preserved by every list of blocks without a late-failing transaction, and by the
transactions of the block that follows. So at every point of such a history, a nonce entry
`(v, fid)` exists only if `v` is a validator of the current set and the feeder's round is open. -/
theorem C13_hist_entries_only_for_open_round_partial (p : Params) (fid : Nat) (f : Feeder) (n0 : Nat)
    (H : FeederHyp p fid f) (hmn : 1 ≤ p.maxNonce) (hiv : p.maxNonce < f.interval) (s s' : State) (bs : List Block)
    (outs : List (List TxOut)) (txs : List Tx) (bt : Int) (h : EHInv p fid f n0 s)
    (hr : runBlocks s bs = some (s', outs)) (hnl : NoLateFail outs)
    (hnl2 : NoLateFailL (runTxs (beginBlock s' bt) txs).2) :
    EHInv p fid f n0 s' ∧
    ∀ g', (runTxs (beginBlock s' bt) txs).1.agc = some g' →
      ∀ v c, alookup (v, fid) (runTxs (beginBlock s' bt) txs).1.store.nonces = some c →
        (∃ r, alookup fid g'.rounds = some r ∧ r.status = .open) ∧ (alookup v g'.vals).isSome = true := by
  have h1 := runBlocks_einv p fid f H n0 hmn hiv bs s s' outs hr hnl h
  refine ⟨h1, ?_⟩
  have h0 : EInv p fid f n0 s'.height (beginBlock s' bt) :=
    ⟨⟨⟨h1.m.pf.agc, h1.m.pf.cache⟩, h1.m.wf, h1.m.inv⟩, ⟨h1.ok.sync, h1.ok.nodup, h1.ok.cur⟩, h1.ent, h1.wn⟩
  have h2 := runTxs_einv p fid f H n0 s'.height txs _ h0 hnl2
  intro g' hg' v c hc
  have hm : (v, fid) ∈ akeys (runTxs (beginBlock s' bt) txs).1.store.nonces := by
    cases hd : decide ((v, fid) ∈ akeys (runTxs (beginBlock s' bt) txs).1.store.nonces) with
    | true => simpa using hd
    | false =>
      have : (v, fid) ∉ akeys (runTxs (beginBlock s' bt) txs).1.store.nonces := by simpa using hd
      rw [(alookup_none_iff _ _).mpr this] at hc; cases hc
  have he := h2.ent (v, fid) hm rfl
  simp only [slOf, hg'] at he
  refine ⟨he, ?_⟩
  obtain ⟨x, hx⟩ := alookup_some_of_mem v g'.vals (h2.ok.cur g' hg' (v, fid) hm).1
  rw [hx]; rfl

/-- without the `NoLateFail` hypotheses -/
def C13_hist_entries_only_for_open_round_full : Prop :=
  ∀ (p : Params) (fid : Nat) (f : Feeder) (n0 : Nat), FeederHyp p fid f → 1 ≤ p.maxNonce → p.maxNonce < f.interval →
    ∀ (s : State) (txs : List Tx) (bt : Int), EHInv p fid f n0 s →
      ∀ g', (runTxs (beginBlock s bt) txs).1.agc = some g' →
        ∀ v c, alookup (v, fid) (runTxs (beginBlock s bt) txs).1.store.nonces = some c →
          ∃ r, alookup fid g'.rounds = some r ∧ r.status = .open

/-- F-09c: after validator 2's two-message transaction of `hBlocksBad` the round is closed in memory while
the rolled-back store still holds the nonce entries: further submissions for the closed round pass the
ante chain (and are then refused by the handler) -/
theorem C13_hist_entries_only_for_open_round_full_fails : ¬ C13_hist_entries_only_for_open_round_full := by
  intro hfull
  have hg : ((runTxs (beginBlock hState 101) [hTx 0, hTx 1, hTxTwo]).1.agc).isSome = true := by decide
  cases hg' : (runTxs (beginBlock hState 101) [hTx 0, hTx 1, hTxTwo]).1.agc with
  | none => rw [hg'] at hg; cases hg
  | some g' =>
    have hn : alookup (0, 1) (runTxs (beginBlock hState 101) [hTx 0, hTx 1, hTxTwo]).1.store.nonces = some 1 := by decide
    obtain ⟨r, hr, ho⟩ := hfull hParams 1 hFeeder 2 hHyp (by decide) (by decide) hState [hTx 0, hTx 1, hTxTwo] 101 hEInv g' hg' 0 1 hn
    have hst : ((runTxs (beginBlock hState 101) [hTx 0, hTx 1, hTxTwo]).1.agc.bind (fun g => alookup 1 g.rounds)).map (·.status) = some .closed := by decide
    rw [hg'] at hst
    simp only [Option.bind_some, hr, Option.map_some, Option.some.injEq] at hst
    rw [ho] at hst
    cases hst

/-- non-vacuity: the extended invariant holds of the concrete state, hence after the concrete history
(all of whose transactions carry one message) -/
example : ∃ s' outs, runBlocks hState hBlocks = some (s', outs) ∧ EHInv hParams 1 hFeeder 2 s' := by
  obtain ⟨s', outs, hr, _, _, _⟩ := runBlocks_pf hParams hBlocks hState hPF
  have hnl := runBlocks_single hBlocks hState s' outs hr (by simp [SingleMsg, hBlocks, hTx])
  exact ⟨s', outs, hr, runBlocks_einv hParams 1 hFeeder hHyp 2 (by decide) (by decide) hBlocks hState s' outs hr hnl hEInv⟩

/-! ## all senders together: bounded fee-less traffic -/

/-- **Fee-less traffic of one block.** All create-price messages admitted in one block, whoever sent
them, number at most validators × feeders × MaxNonce. -/
theorem C13_hist_block_traffic_bound (p : Params) (s : State) (g : Agc) (txs : List Tx)
    (hpf : PF p s) (hok : NonceOK p s) (hg : s.agc = some g) :
    admittedAll txs (runTxs s txs).2 ≤ g.vals.length * (p.feeders.length - 1) * s.store.params.maxNonce := by
  have h1 := runTxs_phi p txs s hpf
  have h2 := phi_le s.store.params.maxNonce s.store.nonces
  have h3 := nonces_length_le p s g hok hg
  have h4 : s.store.nonces.length * s.store.params.maxNonce ≤
      g.vals.length * (p.feeders.length - 1) * s.store.params.maxNonce := Nat.mul_le_mul_right _ h3
  omega

/-- … in every block of every history. -/
theorem C13_hist_every_block_traffic_bound (p : Params) (s s1 : State) (bs : List Block) (outs : List (List TxOut))
    (g1 : Agc) (b : Block) (hpf : PF p s) (hok : NonceOK p s) (hr : runBlocks s bs = some (s1, outs))
    (hg1 : s1.agc = some g1) :
    admittedAll b.txs (runTxs (beginBlock s1 b.blockTime) b.txs).2 ≤
      g1.vals.length * (p.feeders.length - 1) * s1.store.params.maxNonce := by
  obtain ⟨s1', o1', hr', _, hpf1, _⟩ := runBlocks_pf p bs s hpf
  rw [hr] at hr'
  simp only [Option.some.injEq, Prod.mk.injEq] at hr'
  rw [← hr'.1] at hpf1
  have hok1 := runBlocks_nonceOK p bs s s1 outs hpf hok hr
  exact C13_hist_block_traffic_bound p (beginBlock s1 b.blockTime) g1 b.txs ⟨hpf1.agc, hpf1.cache⟩
    ⟨hok1.sync, hok1.nodup, hok1.cur⟩ hg1

/-! ## counted only if … -/

/-- **Counted ⇒ every condition of the property.** A create-price message that the handler accepts
(`ok`: its report is in the aggregator, cached or final) has well-formed timestamps not more than 5 s
ahead of the block, comes from a validator of the current set, addresses an open round whose base
block it names, matches the feeder's rule and the token's decimals, and got something new through the
feeder's filter (first use of the nonce; a source round this validator had not reported). -/
theorem C13_counted_only_if (p : Params) (s : State) (m : Msg) (hpf : PF p s) (hok : (createPrice s m).2 = .ok) :
    ∃ g r, s.agc = some g ∧ checkTimestamp s.blockTime m = true ∧
      (alookup m.creator g.vals).isSome = true ∧ m.prices ≠ [] ∧ sanitySources p m.prices = none ∧
      alookup m.feederID g.rounds = some r ∧ r.status = .open ∧ m.basedBlock = r.basedBlock ∧
      checkRules p m.feederID m.prices = true ∧
      (m.prices.any (fun s => s.prices.any (fun d => d.decimal ≠ p.tokenDecimal m.feederID))) = false ∧
      ((alookup m.feederID g.workers).getD (newWorker p g m.feederID)).sealed = false ∧
      ∃ f, ((alookup m.feederID g.workers).getD (newWorker p g m.feederID)).f = some f ∧ (f.filtrate m).2.2 ≠ [] := by
  obtain ⟨g, hg, hp⟩ := hpf.agc
  by_cases hts : checkTimestamp s.blockTime m = true
  · cases hc : g.checkMsg p m with
    | some e =>
      rw [createPrice_check_fail s m g p e hg hp hts hc] at hok
      cases hok
    | none =>
      obtain ⟨hsan, r, hr, hopen, hbase, hrule, hdec⟩ := checkMsg_none g p m hc
      obtain ⟨hv, hne, hsrc⟩ := sanityCheck_none g p m hsan
      rw [createPrice_fill s m g p hg hp hts hc] at hok
      have hni : (g.fillPrice p m).2 ≠ .ignored := by
        intro hi
        rcases hf : g.fillPrice p m with ⟨g', res⟩
        rw [hf] at hi hok
        simp only at hi
        subst hi
        cases hok
      obtain ⟨hsl, f, hf, hfl⟩ := fillPrice_not_ignored g p m hni
      exact ⟨g, r, hg, hts, hv, hne, hsrc, hr, hopen, hbase, hrule, hdec, hsl, f, hf, hfl⟩
  · have hts' : checkTimestamp s.blockTime m = false := by simpa using hts
    rw [createPrice_bad_ts s m hts'] at hok
    cases hok

/-! ## admitted but not counted changes only the nonce -/

/-- the full statement for transactions with any number of messages: a transaction that is admitted
but fails in its handler (for a reason other than "ignored", where the feeder's filter has recorded
the nonce) leaves prices, aggregator context and cache as they were -/
def C13_not_counted_only_nonce_full : Prop :=
  ∀ (p : Params) (s : State) (tx : Tx) (i : Nat) (e : MsgErr), PF p s → (deliverTx s tx).2 = .msg i e → e ≠ .ignored →
    (deliverTx s tx).1.agc = s.agc ∧ (deliverTx s tx).1.cacheD = s.cacheD ∧
    (deliverTx s tx).1.store.prices = s.store.prices

/-- What holds on the code as it is: when it is the *first* message that is refused. (Only the nonce
entries of the transaction's messages moved: `anteNonces`.) -/
theorem C13_not_counted_only_nonce_partial (p : Params) (s : State) (tx : Tx) (e : MsgErr) (hpf : PF p s)
    (hout : (deliverTx s tx).2 = .msg 0 e) (hne : e ≠ .ignored) :
    (deliverTx s tx).1.agc = s.agc ∧ (deliverTx s tx).1.cacheD = s.cacheD ∧
    (deliverTx s tx).1.store.prices = s.store.prices ∧
    anteNonces s.store.params.maxNonce s.store tx.msgs = some (deliverTx s tx).1.store :=
  deliverTx_first_fail p s tx e hpf hout hne


/-- the state in which validator 2's two-message transaction of `hBlocksBad` is delivered: block 4 after
the reports of validators 0 and 1 -/
def hMid : State := (runTxs (beginBlock hState 101) [hTx 0, hTx 1]).1

theorem hMidPF : PF hParams hMid :=
  (runTxs_pf hParams [hTx 0, hTx 1] (beginBlock hState 101) ⟨hPF.agc, hPF.cache⟩).2.1

/-- The full statement fails on the code as it is (F-09c): validator 2's transaction `[report, report]`
is admitted, its second message is refused ("round": the first one has just finalized and closed the
round), the transaction fails — and the round stays closed in the aggregator context although the
price write was rolled back. -/
theorem C13_not_counted_only_nonce_full_fails : ¬ C13_not_counted_only_nonce_full := by
  intro hfull
  have hout : (deliverTx hMid hTxTwo).2 = .msg 1 (.invalidMsg "round") := by decide
  have h := (hfull hParams hMid hTxTwo 1 (.invalidMsg "round") hMidPF hout (by intro h; cases h)).1
  have h1 : ((deliverTx hMid hTxTwo).1.agc.bind (fun g => alookup 1 g.rounds)).map (·.status) = some .closed := by decide
  have h2 : (hMid.agc.bind (fun g => alookup 1 g.rounds)).map (·.status) = some .open := by decide
  rw [h, h2] at h1
  cases h1

/-! ## a concrete history (non-vacuity) -/

/-- validator `v`'s report with nonce `n` -/
def hTxN (v : Nat) (n : Int) : Tx :=
  { size := 300, infos := [{ pubkeyMatches := true, sigValid := true }], msgs := [hMsg v n 2] }

/-- validator 0 tries five submissions in block 4 (nonces 1..5), an outsider (id 7) one -/
def hSpam : List Tx := [hTxN 0 1, hTxN 0 2, hTxN 0 3, hTxN 0 4, hTxN 0 5, hTxN 7 1]

/-- the block-level theorem applies (PF holds of the concrete state) … -/
example : admittedTxs (0, 1) hSpam (runTxs (beginBlock hState 101) hSpam).2 +
      quotaLeft 3 (runTxs (beginBlock hState 101) hSpam).1.store.nonces (0, 1) ≤ 3 := by
  have h := (C13_hist_block_quota hParams (beginBlock hState 101) hSpam ⟨hPF.agc, hPF.cache⟩ (0, 1)).1
  have e : quotaLeft (beginBlock hState 101).store.params.maxNonce (beginBlock hState 101).store.nonces (0, 1) = 3 := by decide
  have e2 : (beginBlock hState 101).store.params.maxNonce = 3 := rfl
  rw [e, e2] at h
  exact h

/-- … and evaluating the model: exactly MaxNonce = 3 of validator 0's five submissions pass the ante
chain (the first is counted, the next two are admitted but ignored by the filter — same source round —,
the last two are refused: nonce beyond the limit), the outsider's is refused, the quota is used up -/
example : (runTxs (beginBlock hState 101) hSpam).2 =
      [.ok, .msg 0 .ignored, .msg 0 .ignored, .ante "nonce", .ante "nonce", .ante "nonce"] ∧
    admittedTxs (0, 1) hSpam (runTxs (beginBlock hState 101) hSpam).2 = 3 ∧
    admittedTxs (7, 1) hSpam (runTxs (beginBlock hState 101) hSpam).2 = 0 ∧
    quotaLeft 3 (runTxs (beginBlock hState 101) hSpam).1.store.nonces (0, 1) = 0 := by decide

example : admittedTxs (7, 1) hSpam (runTxs (beginBlock hState 101) hSpam).2 = 0 :=
  C13_hist_non_validator_gets_nothing hParams (beginBlock hState 101) hAgc hSpam 7 1 ⟨hPF.agc, hPF.cache⟩
    ⟨hOK.sync, hOK.nodup, hOK.cur⟩ rfl (by decide)

/-- the per-round theorem on the concrete history: after the first six blocks of `hBlocks` (block 9 opens
round 3 of feeder 1) validator 0 gets at most 3 messages admitted in any continuation shorter than the
interval -/
example : ∃ s9 o, runBlocks hState (hBlocks.take 6) = some (s9, o) ∧ s9.height = 9 ∧
    ∀ (bs : List Block) (s' : State) (outs : List (List TxOut)), runBlocks s9 bs = some (s', outs) → bs.length < 7 →
      admittedBlocks (0, 1) bs outs ≤ 3 := by
  obtain ⟨s9, o, hr, _, hpf9, hh⟩ := runBlocks_pf hParams (hBlocks.take 6) hState hPF
  have hp9 := runBlocks_store_params hParams (hBlocks.take 6) hState s9 o hPF hr
  have hh9 : s9.height = 9 := by rw [hh]; decide
  refine ⟨s9, o, hr, hh9, ?_⟩
  intro bs s' outs hr' hlen
  have := C13_hist_round_quota hParams 1 hFeeder 0 rfl s9 s' bs outs hpf9 hr' (by rw [hh9]; decide)
    (by rw [hh9]; decide) hlen
  rw [hp9] at this
  exact this

/-- the invariant `NonceOK` on the concrete history: it holds of `hState`, hence after all of `hBlocks` -/
example : ∃ s' outs g', runBlocks hState hBlocks = some (s', outs) ∧ s'.agc = some g' ∧ NonceOK hParams s' ∧
    s'.store.nonces.length ≤ g'.vals.length * (hParams.feeders.length - 1) := by
  obtain ⟨s', outs, hr, _, hpf', _⟩ := runBlocks_pf hParams hBlocks hState hPF
  obtain ⟨g', hg', _⟩ := hpf'.agc
  have := C13_hist_nonce_entries_only_current_validators hParams hState s' hBlocks outs g' hPF hOK hr hg'
  exact ⟨s', outs, g', hr, hg', this.1, this.2.2⟩

/-- evaluated: at block 9 (round 3 just opened) the table holds exactly validators × feeders = 3 fresh entries -/
example : (runBlocks hState (hBlocks.take 6)).map (fun r => r.1.store.nonces) =
    some [((0, 1), 0), ((1, 1), 0), ((2, 1), 0)] := by decide

/-- the traffic bound on the concrete state: at most 3 × 1 × 3 = 9 fee-less messages in the next block,
whatever is sent -/
example (txs : List Tx) : admittedAll txs (runTxs (beginBlock hState 101) txs).2 ≤ 9 :=
  C13_hist_block_traffic_bound hParams (beginBlock hState 101) hAgc txs ⟨hPF.agc, hPF.cache⟩
    ⟨hOK.sync, hOK.nodup, hOK.cur⟩ rfl

/-- `C13_counted_only_if` on a counted report -/
example : (createPrice (beginBlock hState 101) (hMsg 0 1 2)).2 = .ok := by decide

/-- `C13_not_counted_only_nonce_partial` on a refused one (wrong base block): only the nonce entry moved -/
example : (deliverTx (beginBlock hState 101)
      { size := 300, infos := [{ pubkeyMatches := true, sigValid := true }],
        msgs := [{ hMsg 0 1 2 with basedBlock := 3 }] }).2 = .msg 0 (.invalidMsg "baseblock") := by decide

end ExoVerif.Oracle
