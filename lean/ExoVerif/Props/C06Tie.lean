import ExoVerif.Generated.Facts
import ExoVerif.Proofs.ValSet
/-!
# C06 tie: the model's comparators, loop body and branch conditions *are* the Go code's

`ExoVerif.Gen.sortByPowerLess`, `valUpdateLess`, `endBlockLoopBody`, `avcRemoveCond`, `avcAddCond`,
`avcRepowerWriteCtx`, `endBlockRemovalPower`, `endBlockSetTotalCond`, `endBlockOrder` are regenerated
from utils/utils.go, x/dogfood/keeper/validators.go and abci.go on every run. A flipped
comparison (`<` → `<=`, `>` → `<`), a changed cut (`power < 1` → `power < 0`), a dropped
`delete(prevMap, …)`, a reordered step of EndBlock … changes the generated definition and breaks
one of these proofs.
-/
namespace ExoVerif.ValSet
open ExoVerif.Gen ExoVerif.VMap

/-- `bytes.Compare` on two account addresses (equal length ⇒ numeric order of the big-endian value) -/
def cmpNat (a b : Nat) : Int := if a < b then -1 else if a = b then 0 else 1

theorem C06_tie_sort_by_power (a b : Cand) :
    candLess a b = sortByPowerLess a.power b.power (cmpNat a.op b.op) := by
  unfold candLess sortByPowerLess cmpNat
  by_cases h : a.power = b.power
  · by_cases h1 : a.op < b.op
    · simp [h, h1]
    · by_cases h2 : a.op = b.op <;> simp [h, h1, h2]
  · simp [h]

theorem C06_tie_update_order (a b : Upd) :
    updLess a b = valUpdateLess a.power b.power a.key b.key := by
  unfold updLess valUpdateLess; rfl

/-- interpretation of the effect list of the generated loop body on the model's loop state -/
def applyEffs (c : Cand) (st : LoopSt) : List (String × Int) → LoopSt
  | [] => st
  | (tag, p) :: rest =>
    applyEffs c
      (if tag == "emit" then { st with res := st.res ++ [⟨c.key, p⟩] }
       else if tag == "del" then { st with prevMap := del st.prevMap c.key }
       else if tag == "add" then { st with total := st.total + p }
       else st) rest

/-- one iteration of the model's loop is the generated body of `for i := range operators` -/
theorem C06_tie_loop (maxVals : Nat) (c : Cand) (rest : List Cand) (i : Nat) (st : LoopSt) :
    loop maxVals (c :: rest) i st =
      match endBlockLoopBody i maxVals c.power ((get st.prevMap c.key).getD 0) (has st.prevMap c.key) with
      | none => st
      | some effs => loop maxVals rest (i + 1) (applyEffs c st effs) := by
  unfold endBlockLoopBody
  simp only [loop]
  by_cases h1 : i ≥ maxVals
  · have : (maxVals : Int) ≤ i := by omega
    simp [h1, this]
  · have h1' : ¬ (maxVals : Int) ≤ i := by omega
    by_cases h2 : c.power < 1
    · simp [h1, h1', h2]
    · simp only [h1, h1', h2, if_false, decide_false, Bool.false_eq_true]
      cases hg : get st.prevMap c.key with
      | none => simp [has, hg, loopStep, applyEffs]
      | some p =>
        by_cases hp : p = c.power
        · simp [has, hg, loopStep, applyEffs, hp]
        · simp [has, hg, loopStep, applyEffs, hp]

/-- the branch conditions of ApplyValidatorChanges -/
theorem C06_tie_apply_change (rev : Nat → Bool) (st : VSet × List Upd) (ch : Upd) :
    applyChange rev st ch =
      match get st.1 ch.key with
      | some _ =>
        if avcRemoveCond ch.power then (del st.1 ch.key, st.2 ++ [ch])
        else if rev ch.key then (put st.1 ch.key ch.power, st.2 ++ [ch])
        else (put st.1 ch.key ch.power, st.2)
      | none => if avcAddCond ch.power then (put st.1 ch.key ch.power, st.2 ++ [ch]) else st := by
  unfold applyChange avcRemoveCond avcAddCond
  cases get st.1 ch.key <;> simp

/-- in the re-power branch the new power is written to `ctx` (kept) before the reverse lookup -/
theorem C06_tie_repower_write : avcRepowerWriteCtx = ("ctx", true) := by decide

theorem C06_tie_removal_power : endBlockRemovalPower = 0 := by decide

theorem C06_tie_set_total (res : List Upd) :
    decide (res.length > 0) = endBlockSetTotalCond res.length := by
  unfold endBlockSetTotalCond; simp

/-- EndBlock's steps: pending lists are applied and cleared before the previous set is read, the
candidates are sorted before the diff loop, removals come after it, the total is stored before
ApplyValidatorChanges -/
theorem C06_tie_endblock_order :
    endBlockOrder = ["notEpochEnd-return", "defer-clearEpochEnd", "clearPrevKeys", "pendingUndelegations",
      "clearPendingUndelegations", "pendingOptOuts", "clearPendingOptOuts", "pendingConsAddrs",
      "clearPendingConsAddrs", "prevList", "activeOperators", "sortByPower", "diffLoop", "removalLoop",
      "setLastTotalPower", "applyValidatorChanges"] := by decide

end ExoVerif.ValSet
