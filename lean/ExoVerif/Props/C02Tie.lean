import ExoVerif.Generated.Kernels
import ExoVerif.Model.Ledger
/-! # C02 tie: the model's share⇄token conversions are the Go functions of x/delegation/keeper/share.go -/
namespace ExoVerif.Ledger
open ExoVerif.Gen

theorem C02_tie_tokensFromShares (sh S : Dec) (T : Int) :
    Gen.tokensFromShares sh S T = Ledger.tokensFromShares sh S T := by
  unfold Gen.tokensFromShares Ledger.tokensFromShares Dec.gt Dec.isZero
  by_cases h1 : S.raw < sh.raw <;> by_cases h2 : S.raw = 0 <;> by_cases h3 : T = 0 <;> simp [h1, h2, h3]

theorem C02_tie_sharesFromTokens (S : Dec) (x T : Int) :
    Gen.sharesFromTokens S x T = Ledger.sharesFromTokens S x T := by
  unfold Gen.sharesFromTokens Ledger.sharesFromTokens Dec.isZero
  by_cases h1 : T = 0 <;> by_cases h2 : S.raw = 0 <;> simp [h1, h2]

end ExoVerif.Ledger
