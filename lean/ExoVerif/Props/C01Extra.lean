import ExoVerif.Props.C01Nst
import ExoVerif.Props.C01Native
/-!
# C01, native-token clause, over histories that contain native-restaking balance adjustments

`C01_escrow_reachable` (Props/C01Native.lean) proves "for the native token the delegation escrow account always
holds at least the pools plus the pending amounts" over every history of the ten ledger operations.
`C01_reachable_with_nst` proves the conservation / published-total / non-negativity clauses over histories that
also contain `UpdateNSTBalance`. This file closes the remaining combination: the escrow clause over histories WITH
balance adjustments. An adjustment names a restaked asset (UpdateNSTBalance refuses the chain's own token in the
model's scope), moves only that asset's rows, records and pools, and never touches the bank: the native ledger
value and the escrow balance are what they were.
-/
namespace ExoVerif.Ledger
open ExoVerif ExoVerif.KV

/-- an accepted adjustment names a restaked asset -/
theorem nstUpdate_not_native {s s' : L} {st : SID} {a : AID} {x : Int} (h : nstUpdate s st a x = .ok s') :
    a ≠ nativeAID := by
  unfold nstUpdate at h
  split at h
  · cases h
  · rename_i hne; exact hne

/-- C01, native clause, one step of any operation including a balance adjustment -/
theorem C01_escrow_step_with_nst (s : L) (op : LOp') (hi : RecInv s) (hn : NN s) (hu : NativeUnreg s)
    (hc : EscrowCovers s) (hok : OpOk0' s op) :
    EscrowCovers (lstep' s op) ∧ NativeUnreg (lstep' s op) := by
  cases op with
  | base op => exact C01_escrow_step s op hi hn hu hc hok
  | nst st a0 x =>
    simp only [lstep']
    cases h : nstUpdate s st a0 x with
    | error e => exact ⟨hc, hu⟩
    | ok s' =>
      simp only []
      have hne := nstUpdate_not_native h
      obtain ⟨cWR, cP, e, _, _, _, _⟩ := nstUpdate_spec hi hn h
      refine ⟨?_, nativeUnreg_congr hu e.frame.totals⟩
      unfold EscrowCovers at *
      have hw := e.wr nativeAID
      have hp := e.pl nativeAID
      simp only [hne, if_false] at hw hp
      rw [value_split, hw, hp, e.frame.escrow]
      rw [value_split] at hc
      omega

/-- **C01, native-token clause over every finite history with balance adjustments**: the escrow account holds at
least the native pools plus the native amounts owed by pending undelegations after any finite interleaving of
the ten ledger operations and native-restaking balance adjustments. -/
theorem C01_escrow_reachable_with_nst (s : L) (ops : List LOp') (hi : RecInv s) (hn : NN s)
    (hu : NativeUnreg s) (hc : EscrowCovers s) (hok : AllOk0' s ops) :
    EscrowCovers (ops.foldl lstep' s) ∧ NativeUnreg (ops.foldl lstep' s) := by
  induction ops generalizing s with
  | nil => exact ⟨hc, hu⟩
  | cons op rest ih =>
    simp only [List.foldl_cons]
    obtain ⟨h1, h2⟩ := hok
    obtain ⟨c1, u1⟩ := C01_escrow_step_with_nst s op hi hn hu hc h1
    obtain ⟨_, _, nn1, i1⟩ := C01_nst_net_step s op "a" (by decide) hi hn h1
    exact ih (lstep' s op) i1 nn1 u1 c1 h2

/-- from genesis -/
theorem C01_escrow_from_genesis_with_nst (s : L) (ops : List LOp') (hf : Fresh s) (hu : NativeUnreg s)
    (hok : AllOk0' s ops) : value (ops.foldl lstep' s) nativeAID ≤ (ops.foldl lstep' s).escrow := by
  have hc : EscrowCovers s := by
    unfold EscrowCovers value
    rw [hf.stakers, hf.pools, hf.recs]
    simp only [sumP]
    have := hf.escrow
    omega
  exact (C01_escrow_reachable_with_nst s ops hf.recInv hf.nn hu hc hok).1

/-! non-vacuity: a native delegation and undelegation interleaved with deposits and balance adjustments of a
restaked asset -/

private def gN : L :=
  { height := 1, unbonding := 2, totals := [("A", 0)], operators := ["o"], clientChains := [],
    stakers := [], pools := [], deleg := [], slist := [], assoc := [], recs := [], sidx := [], pidx := [],
    holds := [], bal := [("n", 1000)], escrow := 0, gDep := [], gWd := [], gSlashed := [] }

private def opsN : List LOp' :=
  [.base (.delegate "n" nativeAID "o" 600), .base (.deposit "s" "A" 50), .nst "s" "A" 7,
   .base (.undelegate "n" nativeAID "o" 200 5 "h"), .nst "s" "A" (-9), .nst "n" nativeAID 5, .base .blockEnd]

example : Fresh gN := ⟨rfl, rfl, rfl, rfl, rfl, rfl, by decide, by decide, by decide, rfl, rfl, rfl⟩
example : NativeUnreg gN := by unfold NativeUnreg; decide
example : AllOk0' gN opsN :=
  ⟨trivial, trivial, trivial, freshNonce_of_all (by decide), trivial, trivial, trivial, trivial⟩
example : (opsN.foldl lstep' gN).escrow = 600 ∧ value (opsN.foldl lstep' gN) nativeAID = 600 ∧
    value (opsN.foldl lstep' gN) "A" = 48 := by decide

end ExoVerif.Ledger
