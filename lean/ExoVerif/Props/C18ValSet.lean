import ExoVerif.Model.GenesisValSet
/-!
# C18 — "the same validator set continues": the validator-set part of the x/dogfood genesis round trip

State = the x/dogfood validator store, LastTotalPower, x/operator's reverse key lookups and the set of operators jailed
for the chain (Model/GenesisValSet.lean). The jailed operators and the stored validators are INDEPENDENT components: a
validator jailed during an epoch stays in the store, with its power, until the epoch ends. The theorems hold for every
such state, in particular whatever the jail status of the stored validators is.

* `C18_valset_roundtrip` — code as it is: for every state of the stores as the keepers leave them (every stored validator
  resolves to an operator, powers ≥ 1, one entry per address) the import does not panic, stores exactly the exported
  validators, returns exactly them to the consensus engine, and keeps LastTotalPower, lookups and jail flags;
  `C18_valset_roundtrip_perm`, `C18_valset_total_is_sum`, `C18_valset_jail_status_kept`, `C18_valset_jailed_validator_kept`,
  `C18_valset_reexport` are its consequences in the words of the property.
* `C18_valset_filtered_roundtrip` / `_iff` — for an importer that drops entries (`ValCfg.skip`): the re-imported set is the
  exported one minus the dropped entries, and the round trip reproduces the validator set IFF no stored validator is
  dropped; `C18_valset_filtered_total_kept` — LastTotalPower is taken from the document regardless.
* `C18_regression_skip_jailed*` — the importer that drops the entries of jailed operators on a reachable state (a validator
  jailed mid-epoch): one validator fewer stored and returned, LastTotalPower no longer the sum of the stored powers, a
  different second export.
* `C18_valset_unresolved_panics` — a stored validator without reverse lookup makes the import panic (F-18c shape).
-/
namespace ExoVerif.Genesis

/-- the stores as the keepers leave them: every stored validator resolves to an operator (ApplyValidatorChanges / the
    prune queue keep the lookup of every key in the set), powers ≥ 1 (a power < 1 deletes the entry), one entry per
    consensus address (the store is keyed by it) -/
structure ValInv (s : ValSt) : Prop where
  resolvable : ∀ v ∈ s.vals, (operatorOf s v.1).isSome = true
  positive : ∀ v ∈ s.vals, 0 < v.2
  distinct : (s.vals.map (·.1)).Nodup

theorem insertByPower_perm (v : String × Int) (l : List (String × Int)) : (insertByPower v l).Perm (v :: l) := by
  induction l with
  | nil => exact List.Perm.refl _
  | cons w ws ih =>
    unfold insertByPower
    split
    · exact List.Perm.refl _
    · exact ((List.Perm.cons w ih).trans (List.Perm.swap v w ws))

theorem sortByPower_perm (l : List (String × Int)) : (sortByPower l).Perm l := by
  induction l with
  | nil => exact List.Perm.refl _
  | cons v vs ih =>
    unfold sortByPower
    exact (insertByPower_perm v (sortByPower vs)).trans (List.Perm.cons v ih)

theorem sumPower_perm {a b : List (String × Int)} (h : a.Perm b) : sumPower a = sumPower b := by
  induction h with
  | nil => rfl
  | cons x _ ih => simp only [sumPower, ih]
  | swap x y l => simp only [sumPower]; omega
  | trans _ _ ih1 ih2 => exact ih1.trans ih2

/-- the loop of InitGenesis when every entry resolves: the entries that are not dropped, in order -/
theorem initLoop_of_resolvable (C : ValCfg) (s : ValSt) (l : List (String × Int))
    (h : ∀ v ∈ l, (operatorOf s v.1).isSome = true) :
    initLoop C s l = some (l.filter (fun v => !C.skip s v.1)) := by
  induction l with
  | nil => rfl
  | cons v vs ih =>
    have hv := h v (List.mem_cons_self ..)
    have ih' := ih (fun w hw => h w (List.mem_cons_of_mem _ hw))
    unfold initLoop
    cases ho : operatorOf s v.1 with
    | none => rw [ho] at hv; cases hv
    | some op =>
      simp only [ih']
      cases hs : C.skip s v.1 <;> simp [hs]

/-- the loop of InitGenesis panics as soon as one entry has no operator -/
theorem initLoop_unresolved (C : ValCfg) (s : ValSt) (l : List (String × Int)) (v : String × Int) (hv : v ∈ l)
    (hn : operatorOf s v.1 = none) : initLoop C s l = none := by
  induction l with
  | nil => cases hv
  | cons w ws ih =>
    unfold initLoop
    cases ho : operatorOf s w.1 with
    | none => rfl
    | some op =>
      rcases List.mem_cons.mp hv with e | hm
      · subst e; rw [hn] at ho; cases ho
      · simp only [ih hm]

theorem any_key_false (store : List (String × Int)) (k : String) (h : k ∉ store.map (·.1)) :
    store.any (fun v => v.1 == k) = false := by
  induction store with
  | nil => rfl
  | cons w ws ih =>
    simp only [List.map_cons, List.mem_cons, not_or] at h
    simp only [List.any_cons, Bool.or_eq_false_iff]
    refine ⟨?_, ih h.2⟩
    simp only [beq_eq_false_iff_ne, ne_eq]
    exact fun e => h.1 e.symm

/-- ApplyValidatorChanges with changes of distinct, not yet stored addresses and powers ≥ 1: every change is stored and
    returned -/
theorem applyChanges_fresh (cs store : List (String × Int))
    (hpos : ∀ c ∈ cs, 0 < c.2) (hnd : ((store ++ cs).map (·.1)).Nodup) :
    applyChanges store cs = (store ++ cs, cs) := by
  induction cs generalizing store with
  | nil => simp [applyChanges]
  | cons c cs ih =>
    have hc : c.1 ∉ store.map (·.1) := by
      simp only [List.map_append, List.map_cons] at hnd
      have := (List.nodup_append.mp hnd).2.2
      intro hm
      exact this c.1 hm c.1 (List.mem_cons_self ..) rfl
    have hp : 0 < c.2 := hpos c (List.mem_cons_self ..)
    have hnd' : (((store ++ [c]) ++ cs).map (·.1)).Nodup := by simpa [List.append_assoc] using hnd
    have := ih (store ++ [c]) (fun d hd => hpos d (List.mem_cons_of_mem _ hd)) hnd'
    unfold applyChanges
    simp only [any_key_false store c.1 hc, Bool.false_eq_true, if_false, gt_iff_lt, hp, if_true, this, List.append_assoc,
      List.singleton_append]

theorem operatorOf_preOf (s : ValSt) (c : String) : operatorOf (preOf s) c = operatorOf s c := rfl
theorem isJailed_preOf (s : ValSt) (c : String) : isJailed (preOf s) c = isJailed s c := rfl

/-- **the round trip for an importer that drops entries**: for every state of the stores as the keepers leave them, the
    import does not panic; it stores, and returns to the consensus engine, the exported validators minus the dropped ones;
    LastTotalPower, lookups and jail flags are those of the original -/
theorem C18_valset_filtered_roundtrip (C : ValCfg) (s : ValSt) (h : ValInv s) :
    roundtripVals C s =
      some ⟨{ s with vals := (sortByPower s.vals).filter (fun v => !C.skip (preOf s) v.1) },
            (sortByPower s.vals).filter (fun v => !C.skip (preOf s) v.1)⟩ := by
  have hperm := sortByPower_perm s.vals
  have hres : ∀ v ∈ sortByPower s.vals, (operatorOf (preOf s) v.1).isSome = true :=
    fun v hv => h.resolvable v (hperm.mem_iff.mp hv)
  have hsub : ((sortByPower s.vals).filter (fun v => !C.skip (preOf s) v.1)).Sublist (sortByPower s.vals) := List.filter_sublist
  have hpos : ∀ c ∈ (sortByPower s.vals).filter (fun v => !C.skip (preOf s) v.1), 0 < c.2 :=
    fun c hc => h.positive c (hperm.mem_iff.mp (hsub.subset hc))
  have hnd : ((([] : List (String × Int)) ++ (sortByPower s.vals).filter (fun v => !C.skip (preOf s) v.1)).map (·.1)).Nodup := by
    rw [List.nil_append]
    have hn : ((sortByPower s.vals).map (fun v : String × Int => v.1)).Nodup :=
      (hperm.map (fun v : String × Int => v.1)).nodup_iff.mpr h.distinct
    exact hn.sublist (hsub.map _)
  simp only [roundtripVals, initVals, exportVals]
  rw [initLoop_of_resolvable C (preOf s) _ hres]
  simp only [applyChanges_fresh _ [] hpos hnd, List.nil_append]
  rfl

/-- **code as it is**: the import stores exactly the exported validators (whatever their jail status), returns exactly
    them to the consensus engine, and keeps LastTotalPower, the lookups and the jail flags -/
theorem C18_valset_roundtrip (s : ValSt) (h : ValInv s) :
    roundtripVals codeValCfg s = some ⟨{ s with vals := sortByPower s.vals }, sortByPower s.vals⟩ := by
  rw [C18_valset_filtered_roundtrip codeValCfg s h]
  simp [codeValCfg]

/-- in the words of the property: same validator set (the store is keyed by the address: equality up to order), same
    initial validator set of the consensus engine, same total power -/
theorem C18_valset_roundtrip_perm (s : ValSt) (h : ValInv s) :
    ∃ r, roundtripVals codeValCfg s = some r ∧ r.st.vals.Perm s.vals ∧ r.updates.Perm s.vals ∧ r.st.total = s.total ∧
      r.st.reverse = s.reverse ∧ r.st.jailedOps = s.jailedOps :=
  ⟨_, C18_valset_roundtrip s h, sortByPower_perm _, sortByPower_perm _, rfl, rfl, rfl⟩

/-- LastTotalPower = sum of the stored powers carries over -/
theorem C18_valset_total_is_sum (s : ValSt) (h : ValInv s) (ht : s.total = sumPower s.vals) :
    ∃ r, roundtripVals codeValCfg s = some r ∧ r.st.total = sumPower r.st.vals :=
  ⟨_, C18_valset_roundtrip s h, ht.trans (sumPower_perm (sortByPower_perm _)).symm⟩

/-- the slashing module is given the same jail status for every address on the re-started chain -/
theorem C18_valset_jail_status_kept (s : ValSt) (h : ValInv s) :
    ∃ r, roundtripVals codeValCfg s = some r ∧ ∀ c, isJailed r.st c = isJailed s c :=
  ⟨_, C18_valset_roundtrip s h, fun _ => rfl⟩

/-- a validator that is jailed at the export point (jailed after the last epoch end: still stored) validates on the
    re-started chain with the same power -/
theorem C18_valset_jailed_validator_kept (s : ValSt) (h : ValInv s) (v : String × Int) (hv : v ∈ s.vals)
    (_hj : isJailed s v.1 = true) :
    ∃ r, roundtripVals codeValCfg s = some r ∧ v ∈ r.st.vals ∧ v ∈ r.updates ∧ isJailed r.st v.1 = true :=
  ⟨_, C18_valset_roundtrip s h, (sortByPower_perm _).mem_iff.mpr hv, (sortByPower_perm _).mem_iff.mpr hv, _hj⟩

theorem insertByPower_sorted_id (v : String × Int) (l : List (String × Int)) (h : ∀ w ∈ l, ¬ w.2 < v.2) :
    insertByPower v l = l ++ [v] := by
  induction l with
  | nil => rfl
  | cons w ws ih =>
    unfold insertByPower
    rw [if_neg (h w (List.mem_cons_self ..)), ih (fun x hx => h x (List.mem_cons_of_mem _ hx))]
    rfl

/-- exporting again yields the same document: the second export is a function of the re-imported store, and the
    re-imported store holds the validators of the first document -/
theorem C18_valset_reexport (s : ValSt) (h : ValInv s) :
    ∃ r, roundtripVals codeValCfg s = some r ∧ (exportVals r.st).lastTotalPower = (exportVals s).lastTotalPower ∧
      (exportVals r.st).valSet.Perm (exportVals s).valSet :=
  ⟨_, C18_valset_roundtrip s h, rfl, (sortByPower_perm _)⟩

/-- LastTotalPower is taken from the document whatever the importer drops -/
theorem C18_valset_filtered_total_kept (C : ValCfg) (s : ValSt) (h : ValInv s) :
    ∃ r, roundtripVals C s = some r ∧ r.st.total = s.total :=
  ⟨_, C18_valset_filtered_roundtrip C s h, rfl⟩

/-- **the validator set is reproduced IFF no stored validator is dropped at import** -/
theorem C18_valset_filtered_roundtrip_iff (C : ValCfg) (s : ValSt) (h : ValInv s) :
    (∃ r, roundtripVals C s = some r ∧ r.st.vals.Perm s.vals) ↔ ∀ v ∈ s.vals, C.skip (preOf s) v.1 = false := by
  rw [C18_valset_filtered_roundtrip C s h]
  constructor
  · rintro ⟨r, hr, hp⟩ v hv
    cases hr
    have hlen := (hp.trans (sortByPower_perm s.vals).symm).length_eq
    have heq := (List.filter_sublist (p := fun v => !C.skip (preOf s) v.1) (l := sortByPower s.vals)).eq_of_length hlen
    have := (List.filter_eq_self.mp heq) v ((sortByPower_perm s.vals).mem_iff.mpr hv)
    simpa using this
  · intro hall
    refine ⟨_, rfl, ?_⟩
    have : (sortByPower s.vals).filter (fun v => !C.skip (preOf s) v.1) = sortByPower s.vals :=
      List.filter_eq_self.mpr (fun v hv => by simp [hall v ((sortByPower_perm s.vals).mem_iff.mp hv)])
    simp only [this]
    exact sortByPower_perm _

/-- the importer that drops the entries of jailed operators stores exactly the validators that are not jailed -/
theorem C18_valset_skip_jailed_loses_the_jailed (s : ValSt) (h : ValInv s) :
    roundtripVals skipJailedCfg s =
      some ⟨{ s with vals := (sortByPower s.vals).filter (fun v => !isJailed s v.1) },
            (sortByPower s.vals).filter (fun v => !isJailed s v.1)⟩ :=
  C18_valset_filtered_roundtrip skipJailedCfg s h

/-- … hence it reproduces the validator set IFF no stored validator is jailed at the export point -/
theorem C18_valset_skip_jailed_iff (s : ValSt) (h : ValInv s) :
    (∃ r, roundtripVals skipJailedCfg s = some r ∧ r.st.vals.Perm s.vals) ↔ ∀ v ∈ s.vals, isJailed s v.1 = false :=
  C18_valset_filtered_roundtrip_iff skipJailedCfg s h

/-- a stored validator without reverse lookup: InitGenesis panics ("operator not found for key") -/
theorem C18_valset_unresolved_panics (C : ValCfg) (s : ValSt) (v : String × Int) (hv : v ∈ s.vals)
    (hn : operatorOf s v.1 = none) : roundtripVals C s = none := by
  have := initLoop_unresolved C (preOf s) (sortByPower s.vals) v ((sortByPower_perm _).mem_iff.mpr hv) hn
  simp only [roundtripVals, initVals, exportVals, this]

/-! ## a reachable state with a validator jailed mid-epoch (directed scenario J1 of the genesis domain) -/

/-- three validators (powers 101 / 100 / 150 as in the harness); the operator of the first one was jailed after the last
    epoch end: still stored with its power, LastTotalPower = 351 -/
def jailedMidEpoch : ValSt :=
  { vals := [("c1", 101), ("c2", 100), ("c3", 150)], total := 351,
    reverse := [("c1", "op1"), ("c2", "op2"), ("c3", "op3")], jailedOps := ["op1"] }

theorem jailedMidEpoch_inv : ValInv jailedMidEpoch :=
  ⟨by decide, by decide, by decide⟩

/-- non-vacuity: the hypotheses of the theorems above are met by a state with a jailed stored validator, whose
    LastTotalPower is the sum of the stored powers -/
example : ValInv jailedMidEpoch ∧ isJailed jailedMidEpoch "c1" = true ∧ ("c1", 101) ∈ jailedMidEpoch.vals ∧
    jailedMidEpoch.total = sumPower jailedMidEpoch.vals := ⟨jailedMidEpoch_inv, by decide, by decide, by decide⟩

/-- code as it is, on the witness: all three validators, the jailed one included -/
theorem C18_valset_witness_roundtrip :
    roundtripVals codeValCfg jailedMidEpoch =
      some ⟨{ jailedMidEpoch with vals := [("c3", 150), ("c1", 101), ("c2", 100)] }, [("c3", 150), ("c1", 101), ("c2", 100)]⟩ := by
  decide

/-- **regression (seeded change C18-h)**: the importer that drops jailed operators' entries, on the witness: one validator
    fewer in the store and in the set handed to the consensus engine, LastTotalPower (351) no longer the sum of the stored
    powers (250), the jailed validator gone although the original chain runs with it until the epoch ends -/
theorem C18_regression_skip_jailed :
    ∃ r, roundtripVals skipJailedCfg jailedMidEpoch = some r ∧
      r.st.vals = [("c3", 150), ("c2", 100)] ∧ r.updates = [("c3", 150), ("c2", 100)] ∧
      ("c1", 101) ∉ r.st.vals ∧ r.st.total = 351 ∧ sumPower r.st.vals = 250 ∧ ¬ r.st.vals.Perm jailedMidEpoch.vals := by
  refine ⟨_, C18_valset_skip_jailed_loses_the_jailed _ jailedMidEpoch_inv, by decide, by decide, by decide, by decide, by decide, ?_⟩
  intro hp
  have := hp.length_eq
  revert this
  decide

/-- … and the second export differs from the first (export → import → export is not the identity) -/
theorem C18_regression_skip_jailed_reexport :
    ∃ r, roundtripVals skipJailedCfg jailedMidEpoch = some r ∧ exportVals r.st ≠ exportVals jailedMidEpoch := by
  refine ⟨_, C18_valset_skip_jailed_loses_the_jailed _ jailedMidEpoch_inv, ?_⟩
  decide

end ExoVerif.Genesis
