import ExoVerif.Props.C06
import ExoVerif.Proofs.ValSetHist
/-!
# C06 — history-level completion

`Props/C06.lean` proves the one-block statement for every (previous set, candidates, maximum) and
the agreement of engine and store over block sequences. This file closes the clauses that were
only stated for one step or not at all:

* "exactly the highest-power eligible operators … ties broken by operator address": a declarative
  characterisation of `topK` that does not mention the sorting algorithm
  (`C06_topk_characterisation`);
* "the stored validator set, the stored total power and what consensus was told always agree":
  an invariant over **all** block sequences — blocks that do not close an epoch, epochs without
  any change (empty diff: the total is *not* rewritten) and epochs with changes
  (`C06_hist_agree_forever`, `C06_hist_total_power_is_topk_sum`, `C06_hist_told_equals_stored`);
* "at most the configured maximum" when the maximum changes from epoch to epoch
  (`C06_hist_size_le_current_max`);
* "identically ordered on every node": the returned list is a function of the *content* of the
  store and of the candidate *set* — neither the order in which a node's store iterator yields
  the previous validators nor the order of the candidate list matters
  (`C06_hist_same_list_on_every_node`).
-/
namespace ExoVerif.ValSet
open ExoVerif.VMap

/-! ## the top set, declaratively -/

theorem isort_strict (cands : List Cand) (hops : (cands.map (·.op)).Nodup) :
    (isort candLe cands).Pairwise (fun a b => candLess a b = true ∧ candLess b a = false) := by
  have h1 := isort_sorted candLe cands candLe_total candLe_trans
  have h2 : ((isort candLe cands).map (·.op)).Nodup :=
    (((isort_perm candLe cands).map (·.op)).nodup_iff).2 hops
  have h3 : (isort candLe cands).Pairwise (fun a b => a.op ≠ b.op) := by
    have := List.pairwise_map.1 h2
    exact this
  exact (h1.and h3).imp (fun ⟨hle, hne⟩ => candLess_of_candLe _ _ hne hle)

/-- **The eligible top set, without reference to a sorting algorithm.** For operators with
distinct addresses, a candidate is in the set EndBlock selects iff it is a candidate, its power is
at least 1, and fewer than `maxVals` candidates stand strictly before it in the order "higher
power first, equal power: lower operator address first". In particular two candidates of equal
power on either side of the cut are separated by their operator address alone. -/
theorem C06_topk_characterisation (cands : List Cand) (maxVals : Nat)
    (hops : (cands.map (·.op)).Nodup) (c : Cand) :
    c ∈ topK cands maxVals ↔
      c ∈ cands ∧ 1 ≤ c.power ∧ (cands.filter (fun d => candLess d c)).length < maxVals := by
  have hperm := isort_perm candLe cands
  have hcnt : (cands.filter (fun d => candLess d c)).length
      = ((isort candLe cands).filter (fun d => candLess d c)).length :=
    ((hperm.filter _).length_eq).symm
  unfold topK
  rw [List.mem_filter, mem_take_iff_count_lt _ _ (isort_strict cands hops) c, hperm.mem_iff, hcnt]
  simp only [decide_eq_true_eq]
  constructor
  · rintro ⟨⟨h1, h2⟩, h3⟩; exact ⟨h1, h3, h2⟩
  · rintro ⟨h1, h3, h2⟩; exact ⟨⟨h1, h2⟩, h3⟩

/-- tie at the cut: of two eligible candidates with equal power the one with the lower address is
selected whenever the other one is -/
theorem C06_address_breaks_ties (cands : List Cand) (maxVals : Nat)
    (hops : (cands.map (·.op)).Nodup) (a b : Cand) (ha : a ∈ cands)
    (hpow : a.power = b.power) (hop : a.op < b.op) (hb : b ∈ topK cands maxVals) :
    a ∈ topK cands maxVals := by
  rw [C06_topk_characterisation cands maxVals hops] at hb ⊢
  refine ⟨ha, by omega, ?_⟩
  -- everything strictly before `a` is strictly before `b`
  have hsub : (cands.filter (fun d => candLess d a)).length ≤ (cands.filter (fun d => candLess d b)).length := by
    apply filter_length_mono
    intro d hd
    unfold candLess at hd ⊢
    by_cases h1 : d.power = a.power
    · have h2 : d.power = b.power := by omega
      simp only [h1, beq_self_eq_true, if_true, decide_eq_true_eq] at hd
      simp only [h2, beq_self_eq_true, if_true, decide_eq_true_eq]
      omega
    · have h2 : ¬ d.power = b.power := by omega
      simp only [beq_iff_eq, h1, if_false, decide_eq_true_eq] at hd
      simp only [beq_iff_eq, h2, if_false, decide_eq_true_eq]
      omega
  omega

/-! ## store, total power and engine agree over every block sequence -/

/-- the returned list under C07's guarantees: the sorted diff -/
theorem endBlockEpoch_ret_eq (s : DState) (cands : List Cand) (maxVals : Nat) (h : InputsOK s.vals cands) :
    (endBlockEpoch s cands maxVals).2 = isort updLe (diff s.vals cands maxVals).1 := by
  have hfw := diff_all_forwarded s cands maxVals h
  simp only [endBlockEpoch]
  rw [hfw]

theorem endBlockEpoch_vals_eq (s : DState) (cands : List Cand) (maxVals : Nat) :
    (endBlockEpoch s cands maxVals).1.vals = (diff s.vals cands maxVals).1.foldl valStep s.vals := by
  simp only [endBlockEpoch]; rw [foldl_applyChange_fst]

theorem noDup_topMap (cands : List Cand) (maxVals : Nat) (hnd : (cands.map (·.key)).Nodup) :
    KV.NoDup (topMap cands maxVals) := by
  unfold KV.NoDup KV.keys topMap
  rw [List.map_map]
  exact topK_keys_nodup cands maxVals hnd

theorem topMap_length_le (cands : List Cand) (maxVals : Nat) : (topMap cands maxVals).length ≤ maxVals := by
  unfold topMap topK
  rw [List.length_map]
  exact Nat.le_trans (List.length_filter_le _ _) (List.length_take_le _ _)

/-- what "agree" means: the store is a map, the engine's copy is a map with the same content, and
the stored total power is the sum of the stored powers -/
structure Agree (sc : DState × VSet) : Prop where
  storeMap : KV.NoDup sc.1.vals
  engineMap : KV.NoDup sc.2
  same : ∀ k, get sc.2 k = get sc.1.vals k
  total : sc.1.lastTotalPower = sumPowers sc.1.vals

theorem agree_step (sc : DState × VSet) (b : Option (List Cand × Nat)) (h : Agree sc)
    (hb : match b with
      | none => True
      | some (cands, _) => (cands.map (·.key)).Nodup ∧ ∀ c ∈ cands, c.rev = true) :
    Agree (stepBlock sc b) := by
  obtain ⟨s, cs⟩ := sc
  cases b with
  | none =>
    refine ⟨h.storeMap, ?_, ?_, h.total⟩
    · simpa [stepBlock, endBlockOther, cometApply] using h.engineMap
    · intro k; simpa [stepBlock, endBlockOther, cometApply] using h.same k
  | some p =>
    obtain ⟨cands, maxVals⟩ := p
    simp only at hb
    have hok : InputsOK s.vals cands := ⟨h.storeMap, hb.1, hb.2⟩
    obtain ⟨_, h2, h3, _⟩ := C06_updates_yield_topk s cands maxVals hok cs h.same
    have hnd' := C06_store_nodup_kept s cands maxVals h.storeMap
    refine ⟨hnd', noDup_cometApply _ _ h.engineMap, ?_, ?_⟩
    · intro k; simp only [stepBlock]; rw [h2, h3]
    · show (endBlockEpoch s cands maxVals).1.lastTotalPower = sumPowers (endBlockEpoch s cands maxVals).1.vals
      rw [C06_total_power s cands maxVals hb.1]
      by_cases hlen : (diff s.vals cands maxVals).1.length > 0
      · rw [if_pos hlen, ← sumPowers_map]
        exact (sumPowers_eq_of_get_eq _ _ hnd' (noDup_topMap cands maxVals hb.1) h3).symm
      · rw [if_neg hlen]
        have hnil : (diff s.vals cands maxVals).1 = [] := List.eq_nil_of_length_eq_zero (by omega)
        rw [endBlockEpoch_vals_eq, hnil]
        exact h.total

/-- **Over any number of consecutive blocks** — epoch-closing or not, with or without changes,
any candidates, any maxima — the stored validator set, the stored total power and the set the
consensus engine built from the returned lists agree: same map, and both sum to the stored
total. -/
theorem C06_hist_agree_forever (sc : DState × VSet) (bs : List (Option (List Cand × Nat)))
    (h : Agree sc) (hbs : blocksOK bs) :
    Agree (runBlocks sc bs) ∧
    sumPowers (runBlocks sc bs).2 = (runBlocks sc bs).1.lastTotalPower := by
  have key : Agree (runBlocks sc bs) := by
    induction bs generalizing sc with
    | nil => exact h
    | cons b rest ih =>
      simp only [runBlocks, List.foldl_cons]
      exact ih _ (agree_step sc b h (hbs b (List.mem_cons_self ..)))
        (fun x hx => hbs x (List.mem_cons_of_mem _ hx))
  exact ⟨key, by rw [key.total]; exact sumPowers_eq_of_get_eq _ _ key.engineMap key.storeMap key.same⟩

/-- … and after every epoch-closing block the stored total power is the sum of the powers of that
block's eligible top set — also when that block's update list was empty (nothing changed, the
total was not rewritten). -/
theorem C06_hist_total_power_is_topk_sum (sc : DState × VSet) (bs : List (Option (List Cand × Nat)))
    (cands : List Cand) (maxVals : Nat) (h : Agree sc) (hbs : blocksOK (bs ++ [some (cands, maxVals)])) :
    (runBlocks sc (bs ++ [some (cands, maxVals)])).1.lastTotalPower = ((topK cands maxVals).map (·.power)).sum := by
  have hbs1 : blocksOK bs := fun x hx => hbs x (List.mem_append_left _ hx)
  have hlast := hbs (some (cands, maxVals)) (List.mem_append_right _ (List.mem_singleton.2 rfl))
  simp only at hlast
  have hall := (C06_hist_agree_forever sc _ h hbs).1
  have hmid := (C06_hist_agree_forever sc bs h hbs1).1
  rw [hall.total, ← sumPowers_map]
  apply sumPowers_eq_of_get_eq _ _ hall.storeMap (noDup_topMap cands maxVals hlast.1)
  intro k
  simp only [runBlocks, List.foldl_append, List.foldl_cons, List.foldl_nil, stepBlock]
  have hok : InputsOK (List.foldl stepBlock sc bs).1.vals cands := ⟨hmid.storeMap, hlast.1, hlast.2⟩
  exact (C06_updates_yield_topk _ cands maxVals hok _ hmid.same).2.2.1 k

/-- **At most the configured maximum, whatever the maximum was before.** After a block that
closes an epoch with maximum `maxVals`, the stored set and the engine's set both have at most
`maxVals` validators — for every earlier block sequence with arbitrary other maxima (a lowered
maximum evicts in the same epoch-closing block). -/
theorem C06_hist_size_le_current_max (sc : DState × VSet) (bs : List (Option (List Cand × Nat)))
    (cands : List Cand) (maxVals : Nat) (h : Agree sc) (hbs : blocksOK (bs ++ [some (cands, maxVals)])) :
    (runBlocks sc (bs ++ [some (cands, maxVals)])).1.vals.length ≤ maxVals ∧
    (runBlocks sc (bs ++ [some (cands, maxVals)])).2.length ≤ maxVals := by
  have hbs1 : blocksOK bs := fun x hx => hbs x (List.mem_append_left _ hx)
  have hlast := hbs (some (cands, maxVals)) (List.mem_append_right _ (List.mem_singleton.2 rfl))
  simp only at hlast
  have hall := (C06_hist_agree_forever sc _ h hbs).1
  have hmid := (C06_hist_agree_forever sc bs h hbs1).1
  have hget : ∀ k, get (runBlocks sc (bs ++ [some (cands, maxVals)])).1.vals k = get (topMap cands maxVals) k := by
    intro k
    simp only [runBlocks, List.foldl_append, List.foldl_cons, List.foldl_nil, stepBlock]
    have hok : InputsOK (List.foldl stepBlock sc bs).1.vals cands := ⟨hmid.storeMap, hlast.1, hlast.2⟩
    exact (C06_updates_yield_topk _ cands maxVals hok _ hmid.same).2.2.1 k
  have hnt := noDup_topMap cands maxVals hlast.1
  have h1 := length_eq_of_get_eq _ _ hall.storeMap hnt hget
  have h2 := length_eq_of_get_eq _ _ hall.engineMap hnt (fun k => (hall.same k).trans (hget k))
  have h3 := topMap_length_le cands maxVals
  omega

/-- **What consensus was told is what is stored, in every block of every history**; in a block
that does not close an epoch both are empty. (`told` is the list the block's EndBlock returns.) -/
theorem C06_hist_told_equals_stored (sc : DState × VSet) (bs : List (Option (List Cand × Nat)))
    (b : Option (List Cand × Nat)) :
    let s := (runBlocks sc bs).1
    let told := match b with
      | none => (endBlockOther s).2
      | some (cands, maxVals) => (endBlockEpoch s cands maxVals).2
    (stepBlock (runBlocks sc bs) b).1.valUpdates = told ∧ (b = none → told = []) := by
  cases b with
  | none => exact ⟨rfl, fun _ => rfl⟩
  | some p => obtain ⟨cands, maxVals⟩ := p; exact ⟨rfl, fun h => by cases h⟩

/-! ## identically ordered on every node -/

/-- **The returned list is a function of content.** Two nodes whose stores hold the same
validators (possibly yielded in a different order by the iterator) and that see the same
candidates (in any order) return the *same list*, entry by entry. -/
theorem C06_hist_same_list_on_every_node (s s' : DState) (cands cands' : List Cand) (maxVals : Nat)
    (h : InputsOK s.vals cands) (h' : InputsOK s'.vals cands')
    (hops : (cands.map (·.op)).Nodup)
    (hvals : ∀ k, get s'.vals k = get s.vals k) (hperm : cands'.Perm cands) :
    (endBlockEpoch s' cands' maxVals).2 = (endBlockEpoch s cands maxVals).2 := by
  -- the candidate order is unique
  have hsort : isort candLe cands' = isort candLe cands :=
    C06_candidate_order_unique cands (isort candLe cands') hops
      ((isort_perm candLe cands').trans hperm) (isort_sorted candLe cands' candLe_total candLe_trans)
  have htop : topK cands' maxVals = topK cands maxVals := by unfold topK; rw [hsort]
  -- same membership
  have hmem : ∀ u, u ∈ (endBlockEpoch s' cands' maxVals).2 ↔ u ∈ (endBlockEpoch s cands maxVals).2 := by
    intro u
    rw [endBlockEpoch_ret_eq s' cands' maxVals h', endBlockEpoch_ret_eq s cands maxVals h,
      (isort_perm updLe _).mem_iff, (isort_perm updLe _).mem_iff,
      mem_diff s'.vals cands' maxVals h'.keysNodup, mem_diff s.vals cands maxVals h.keysNodup, htop]
    have hch : ∀ c, changed s'.vals c = changed s.vals c := by intro c; simp only [changed, hvals]
    have hhas : ∀ k, has s'.vals k = has s.vals k := by intro k; simp only [has, hvals]
    simp only [hch, hhas]
  have hnd : ∀ (t : DState) (cs : List Cand), KV.NoDup t.vals → (cs.map (·.key)).Nodup →
      (endBlockEpoch t cs maxVals).2.Nodup := fun t cs h1 h2 =>
    nodup_of_map_nodup (·.key) _ (C06_no_duplicate_keys t cs maxVals h1 h2)
  have hp : (endBlockEpoch s' cands' maxVals).2.Perm (endBlockEpoch s cands maxVals).2 :=
    (List.perm_ext_iff_of_nodup (hnd s' cands' h'.prevNoDup h'.keysNodup) (hnd s cands h.prevNoDup h.keysNodup)).2 hmem
  exact C06_order_is_function_of_content s cands maxVals _ hp (C06_updates_sorted s' cands' maxVals)

/-! ## non-vacuity -/

private def sH : DState := { vals := [(1, 50), (2, 40), (3, 30)], lastTotalPower := 120, valUpdates := [] }
private def sH' : DState := { vals := [(3, 30), (1, 50), (2, 40)], lastTotalPower := 120, valUpdates := [] }
-- operators 13 and 14 tie at power 45 around the cut (maximum 2): address decides
private def cH : List Cand := [⟨10, 1, 60, true⟩, ⟨11, 5, 40, true⟩, ⟨12, 3, 0, true⟩, ⟨14, 8, 45, true⟩, ⟨13, 9, 45, true⟩]
private def cH' : List Cand := [⟨13, 9, 45, true⟩, ⟨12, 3, 0, true⟩, ⟨10, 1, 60, true⟩, ⟨14, 8, 45, true⟩, ⟨11, 5, 40, true⟩]
-- an epoch in which nothing changes (the candidates are exactly the stored set)
private def cSame : List Cand := [⟨10, 1, 50, true⟩, ⟨11, 2, 40, true⟩, ⟨12, 3, 30, true⟩]

example : Agree (sH, sH.vals) := ⟨by unfold KV.NoDup KV.keys; decide, by unfold KV.NoDup KV.keys; decide, fun _ => rfl, by decide⟩
example : topK cH 2 = [⟨10, 1, 60, true⟩, ⟨13, 9, 45, true⟩] := by decide
example : (cH.map (·.op)).Nodup := by decide
example : (cH.filter (fun d => candLess d ⟨14, 8, 45, true⟩)).length = 2 ∧
          (cH.filter (fun d => candLess d ⟨13, 9, 45, true⟩)).length = 1 := by decide
-- no-change epoch: empty list, total not rewritten and still the sum
example : (endBlockEpoch sH cSame 5).2 = [] ∧ (endBlockEpoch sH cSame 5).1.lastTotalPower = 120 := by decide
-- maximum lowered from 3 to 1 between epochs: two validators evicted in the same block
example : (runBlocks (sH, sH.vals) [none, some (cSame, 3), none, some (cSame, 1)]).1.vals = [(1, 50)] ∧
          (runBlocks (sH, sH.vals) [none, some (cSame, 3), none, some (cSame, 1)]).2 = [(1, 50)] ∧
          (runBlocks (sH, sH.vals) [none, some (cSame, 3), none, some (cSame, 1)]).1.lastTotalPower = 50 := by decide
-- different iteration orders, same returned list
example : cH'.Perm cH := by decide
example : (endBlockEpoch sH' cH' 3).2 = (endBlockEpoch sH cH 3).2 := by decide

end ExoVerif.ValSet
