import ExoVerif.Model.GenesisMods
import ExoVerif.Props.C18Assets
/-!
# C18 — x/exomint, x/feedistribution, x/oracle: what export + init reproduce and what they lose

* `C18_roundtrip_mint`, `C18_roundtrip_feedistribution_params`: the params of both modules are reproduced (the epoch they name
  must exist, else InitGenesis panics).
* F-18e as theorems about the model: `C18_feedistribution_loses_state` (after the round trip every collection other than the
  params is empty, for EVERY state) and `C18_feedistribution_roundtrip_iff` (the state is reproduced iff it held nothing
  but params).
* x/oracle: `C18_roundtrip_oracle` — for the code as it is (after the F-18l repair) every persisted collection except the
  nonces is reproduced: params, prices with NextRoundID, validator update block, both indexes, recent msgs / params, staker
  infos and staker lists; `C18_oracle_loses_nonces` (F-18f, open): the nonces are empty after the round trip for every state.
  Regression (F-18l, `preFixOracleCfg`): `C18_regression_F18l_key_doubled` — every staker list came back under its key
  with the store prefix prepended once more —, `C18_regression_F18l_full_fails`.
* native restaking writer (F-18m / F-18n, repaired): `C18_oracle_nst_remove_keeps_valid` — removing a staker keeps the
  asset's list / infos pair acceptable to Validate; `C18_regression_F18m` / `C18_regression_F18n` keep the pre-repair
  counter-examples (empty list left behind; stale StakerIndex). Directed scenarios D6 / D7 replay all three.
-/
namespace ExoVerif.Genesis
open ExoVerif

/-! ## x/exomint, x/feedistribution -/

theorem C18_roundtrip_mint (epochs : List String) (s : MintParams) (h : s.epochIdentifier ∈ epochs) :
    initMint epochs (exportMint s) = some s := by
  simp [initMint, exportMint, h]

/-- an exported epoch identifier that x/epochs does not know makes InitGenesis panic -/
theorem C18_mint_unknown_epoch_panics (epochs : List String) (s : MintParams) (h : s.epochIdentifier ∉ epochs) :
    initMint epochs (exportMint s) = none := by
  simp [initMint, exportMint, h]

example : initMint ["day", "hour"] (exportMint ⟨"hua", 20, "day"⟩) = some ⟨"hua", 20, "day"⟩ := by decide

theorem C18_roundtrip_feedistribution_params (epochs : List String) (s : Distr) (h : s.params.epochIdentifier ∈ epochs) :
    (initDistr epochs (exportDistr s)).map (·.params) = some s.params := by
  simp [initDistr, exportDistr, h]

/-- **F-18e.** For every state: the re-imported module holds the params and NOTHING else — fee pool, accumulated
    commissions, current and outstanding validator rewards, staker rewards are all empty. -/
theorem C18_feedistribution_loses_state (epochs : List String) (s : Distr) (h : s.params.epochIdentifier ∈ epochs) :
    initDistr epochs (exportDistr s) = some ⟨s.params, [], [], [], [], []⟩ := by
  simp [initDistr, exportDistr, h]

/-- the state is reproduced iff it held nothing but params -/
theorem C18_feedistribution_roundtrip_iff (epochs : List String) (s : Distr) (h : s.params.epochIdentifier ∈ epochs) :
    initDistr epochs (exportDistr s) = some s ↔
      s.feePool = [] ∧ s.commissions = [] ∧ s.currentRewards = [] ∧ s.outstanding = [] ∧ s.stakerRewards = [] := by
  rw [C18_feedistribution_loses_state epochs s h]
  cases s with
  | mk p a b c d e =>
    simp only [Option.some.injEq, Distr.mk.injEq, true_and]
    constructor
    · rintro ⟨h1, h2, h3, h4, h5⟩; exact ⟨h1.symm, h2.symm, h3.symm, h4.symm, h5.symm⟩
    · rintro ⟨h1, h2, h3, h4, h5⟩; exact ⟨h1.symm, h2.symm, h3.symm, h4.symm, h5.symm⟩

/-- a state after one fee-distribution epoch: 7 units in the community pool, commission and rewards outstanding -/
def distrWitness : Distr :=
  ⟨⟨"day", 20000000000000000⟩, [("hua", 7)], [("val1", 3)], [("val1", 11)], [("val1", 14)], [("staker1", 5)]⟩

/-- C18 for x/feedistribution is refuted by a concrete state (machine-checked form of F-18e) -/
theorem C18_feedistribution_full_fails : ¬ ∀ (epochs : List String) (s : Distr), s.params.epochIdentifier ∈ epochs →
    initDistr epochs (exportDistr s) = some s := by
  intro h
  have := h ["day"] distrWitness (by decide)
  revert this
  decide

/-! ## x/oracle -/
section KV
variable {κ α β : Type} [DecidableEq κ]

theorem kvset_append (m : List (κ × α)) (k : κ) (v : α) (h : k ∉ KV.keys m) : KV.set m k v = m ++ [(k, v)] := by
  induction m with
  | nil => rfl
  | cons p r ih =>
    obtain ⟨k', v'⟩ := p
    have h1 : ¬ k' = k := fun e => h (by simp [KV.keys, e])
    have h2 : k ∉ KV.keys r := fun hm => h (by simp only [KV.keys, List.map_cons, List.mem_cons]; right; exact hm)
    simp only [KV.set, h1, if_false, List.cons_append, ih h2]

/-- an import loop that Sets one entry per exported element rebuilds a duplicate-free collection -/
theorem kv_rebuild (f : β → κ × α) (bs : List β) (pre : List (κ × α)) (h : (KV.keys (pre ++ bs.map f)).Nodup) :
    bs.foldl (fun m b => KV.set m (f b).1 (f b).2) pre = pre ++ bs.map f := by
  induction bs generalizing pre with
  | nil => simp
  | cons b bs ih =>
    have hk : (f b).1 ∉ KV.keys pre := by
      intro hm
      simp only [KV.keys, List.map_append, List.map_cons] at h hm
      have := (List.nodup_append.mp h).2.2 _ hm (f b).1 (by simp)
      exact this rfl
    simp only [List.foldl_cons, kvset_append pre _ _ hk]
    have := ih (pre ++ [((f b).1, (f b).2)]) (by simpa [List.append_assoc] using h)
    simpa [List.append_assoc] using this

theorem kv_rebuild_id (l : List (κ × α)) (h : (KV.keys l).Nodup) : l.foldl (fun m r => KV.set m r.1 r.2) [] = l := by
  have := kv_rebuild (fun r : κ × α => r) l [] (by simpa using h)
  simpa using this

end KV

/-- the persisted oracle collections as the keepers leave them -/
structure OracleInv (s : Oracle) : Prop where
  pricesND : (KV.keys s.prices).Nodup
  /-- AppendPriceTR / SetPrices: every round is stored under its own RoundID, the nextRoundID entry exists -/
  roundsOK : ∀ p ∈ s.prices, (KV.keys p.2.rounds).Nodup ∧ (∀ q ∈ p.2.rounds, q.1 = q.2.roundID) ∧ p.2.nextRound.isSome
  msgsND : (KV.keys s.recentMsgs).Nodup
  paramsND : (KV.keys s.recentParams).Nodup
  infosND : (KV.keys s.stakerInfos).Nodup
  /-- NativeTokenStakerKey(assetID, stakerInfo.StakerAddr) -/
  infosKey : ∀ p ∈ s.stakerInfos, p.1.2 = p.2.addr
  listsND : (KV.keys s.stakerLists).Nodup

theorem prices_rebuild (l pre : List (Nat × TokenPrices)) (h : (KV.keys (pre ++ l)).Nodup)
    (hr : ∀ p ∈ l, (KV.keys p.2.rounds).Nodup ∧ (∀ q ∈ p.2.rounds, q.1 = q.2.roundID) ∧ p.2.nextRound.isSome) :
    (l.map (fun p => (⟨p.1, p.2.rounds.map (·.2), p.2.nextRound.getD 0⟩ : PricesDoc))).foldl setPrices pre = pre ++ l := by
  induction l generalizing pre with
  | nil => simp
  | cons p l ih =>
    have hk : p.1 ∉ KV.keys pre := by
      intro hm
      simp only [KV.keys, List.map_append, List.map_cons] at h hm
      exact (List.nodup_append.mp h).2.2 _ hm p.1 (by simp) rfl
    obtain ⟨h1, h2, h3⟩ := hr p (by simp)
    have hrounds : (p.2.rounds.map (·.2)).foldl (fun m r => KV.set m r.roundID r) [] = p.2.rounds := by
      have := kv_rebuild (fun r : PriceRound => (r.roundID, r)) (p.2.rounds.map (·.2)) [] (by
        have e : (p.2.rounds.map (·.2)).map (fun r : PriceRound => (r.roundID, r)) = p.2.rounds := by
          rw [List.map_map]
          conv => rhs; rw [← List.map_id p.2.rounds]
          apply List.map_congr_left
          intro q hq
          simp only [Function.comp, id]
          rw [← h2 q hq]
        simpa [e] using h1)
      have e : (p.2.rounds.map (·.2)).map (fun r : PriceRound => (r.roundID, r)) = p.2.rounds := by
        rw [List.map_map]
        conv => rhs; rw [← List.map_id p.2.rounds]
        apply List.map_congr_left
        intro q hq
        simp only [Function.comp, id]
        rw [← h2 q hq]
      simpa [e] using this
    obtain ⟨n, hn⟩ := Option.isSome_iff_exists.mp h3
    have hstep : setPrices pre ⟨p.1, p.2.rounds.map (·.2), p.2.nextRound.getD 0⟩ = pre ++ [p] := by
      unfold setPrices
      simp only [KV.getD, KV.find?_none_of_not_mem pre p.1 hk, Option.getD_none, hrounds, hn, Option.getD_some]
      rw [kvset_append pre _ _ hk]
      cases p with
      | mk k v => cases v with
        | mk r nr => simp at hn; subst hn; rfl
    simp only [List.map_cons, List.foldl_cons, hstep]
    have := ih (pre ++ [p]) (by simpa [List.append_assoc] using h) (fun q hq => hr q (by simp [hq]))
    simpa [List.append_assoc] using this

theorem infos_rebuild (l : List ((String × String) × StakerInfo)) (hnd : (KV.keys l).Nodup) (hk : ∀ p ∈ l, p.1.2 = p.2.addr) :
    ((groupInfos l).flatMap (fun g => g.2.map (fun i => (g.1, i)))).foldl (fun m r => KV.set m (r.1, r.2.addr) r.2) [] = l := by
  have hflat : (groupInfos l).flatMap (fun g => g.2.map (fun i => (g.1, i))) = l.map (fun r => (r.1.1, r.2)) := by
    have := groupAdj_flat (fun r : (String × String) × StakerInfo => r.1.1) (fun s r => ((s, r.1.2), r.2)) (fun b => rfl) l
    have e := congrArg (List.map (fun r : (String × String) × StakerInfo => (r.1.1, r.2))) this
    rw [← e]
    simp [groupInfos, List.flatMap_map, List.map_flatMap, List.map_map, Function.comp_def]
  rw [hflat]
  have := kv_rebuild (fun r : String × StakerInfo => ((r.1, r.2.addr), r.2)) (l.map (fun r => (r.1.1, r.2))) [] (by
    have e : (l.map (fun r => (r.1.1, r.2))).map (fun r : String × StakerInfo => ((r.1, r.2.addr), r.2)) = l := by
      rw [List.map_map]
      conv => rhs; rw [← List.map_id l]
      apply List.map_congr_left
      intro q hq
      simp only [Function.comp, id]
      rw [← hk q hq]
    simpa [e] using hnd)
  have e : (l.map (fun r => (r.1.1, r.2))).map (fun r : String × StakerInfo => ((r.1, r.2.addr), r.2)) = l := by
    rw [List.map_map]
    conv => rhs; rw [← List.map_id l]
    apply List.map_congr_left
    intro q hq
    simp only [Function.comp, id]
    rw [← hk q hq]
  simpa [e] using this

/-- **x/oracle, persisted collections.** Params, prices (every stored round and NextRoundID), the validator update block,
    both recent-indexes, the recent msgs / params lists and the staker infos are reproduced exactly, for the code as it is. -/
theorem C18_roundtrip_oracle_persisted (cfg : OracleCfg) (s : Oracle) (h : OracleInv s) :
    let r := roundtripOracle cfg s
    r.params = s.params ∧ r.prices = s.prices ∧ r.valUpdateBlock = s.valUpdateBlock ∧ r.idxRecentParams = s.idxRecentParams ∧
    r.idxRecentMsg = s.idxRecentMsg ∧ r.recentMsgs = s.recentMsgs ∧ r.recentParams = s.recentParams ∧
    r.stakerInfos = s.stakerInfos := by
  refine ⟨rfl, ?_, rfl, rfl, rfl, ?_, ?_, ?_⟩
  · have := prices_rebuild s.prices [] (by simpa using h.pricesND) h.roundsOK
    simpa [roundtripOracle, initOracle, exportOracle] using this
  · exact kv_rebuild_id s.recentMsgs h.msgsND
  · exact kv_rebuild_id s.recentParams h.paramsND
  · exact infos_rebuild s.stakerInfos h.infosND h.infosKey

/-- **F-18f.** The validator nonces are in no genesis field: empty after the round trip, for every state. -/
theorem C18_oracle_loses_nonces (cfg : OracleCfg) (s : Oracle) : (roundtripOracle cfg s).nonces = [] := rfl

/-- what the round trip does to the staker lists, for every configuration: with `listKeyFull` every list comes back
    under its key with the store prefix prepended once more -/
theorem C18_roundtrip_oracle_stakerlists_actual (cfg : OracleCfg) (s : Oracle) (h : OracleInv s) :
    (roundtripOracle cfg s).stakerLists =
      s.stakerLists.map (fun p => (if cfg.listKeyFull then cfg.listPrefix ++ p.1 else p.1, p.2)) := by
  have hnd : (KV.keys (s.stakerLists.map (fun p => (if cfg.listKeyFull then cfg.listPrefix ++ p.1 else p.1, p.2)))).Nodup := by
    have : KV.keys (s.stakerLists.map (fun p => (if cfg.listKeyFull then cfg.listPrefix ++ p.1 else p.1, p.2))) =
        (KV.keys s.stakerLists).map (fun k => if cfg.listKeyFull then cfg.listPrefix ++ k else k) := by
      simp [KV.keys, List.map_map, Function.comp_def]
    rw [this]
    unfold List.Nodup
    rw [List.pairwise_map]
    refine List.Pairwise.imp (fun hab e => hab ?_) h.listsND
    by_cases hf : cfg.listKeyFull = true
    · simp only [hf, if_true] at e
      exact (String.append_right_inj _).mp e
    · simpa [hf] using e
  have := kv_rebuild_id _ hnd
  simpa [roundtripOracle, initOracle, exportOracle] using this

/-- Repaired code (F-18l): the staker lists are reproduced -/
theorem C18_roundtrip_oracle_stakerlists (s : Oracle) (h : OracleInv s) :
    (roundtripOracle codeOracleCfg s).stakerLists = s.stakerLists := by
  rw [C18_roundtrip_oracle_stakerlists_actual codeOracleCfg s h]
  simp [codeOracleCfg]

/-- Pre-repair regression (F-18l): for every state each staker list was re-imported under its key with the store
    prefix prepended once more (GetAllStakerListAssets exported the full store key as asset id, SetStakerList adds the
    prefix again): GetStakerList(assetID) found nothing on the re-imported chain. -/
theorem C18_regression_F18l_key_doubled (s : Oracle) (h : OracleInv s) :
    (roundtripOracle preFixOracleCfg s).stakerLists = s.stakerLists.map (fun p => (preFixOracleCfg.listPrefix ++ p.1, p.2)) := by
  rw [C18_roundtrip_oracle_stakerlists_actual preFixOracleCfg s h]
  simp [preFixOracleCfg]

/-- two native-restaking stakers, one price round, one pending nonce -/
def oracleWitness : Oracle :=
  { params := "p", prices := [(1, ⟨[(1, ⟨1, "100"⟩), (2, ⟨2, "101"⟩)], some 3⟩)], valUpdateBlock := some 5,
    idxRecentParams := some "i", idxRecentMsg := none, recentMsgs := [(4, "m")], recentParams := [(1, "rp")],
    stakerInfos := [(("nst", "0xa"), ⟨"0xa", 0, "v"⟩), (("nst", "0xb"), ⟨"0xb", 1, "w"⟩)],
    stakerLists := [("nst", ["0xa", "0xb"])], nonces := [("val1", "n")] }

theorem oracleWitness_inv : OracleInv oracleWitness := by
  refine ⟨by decide, ?_, by decide, by decide, by decide, by decide, by decide⟩
  intro p hp
  simp only [oracleWitness, List.mem_cons, List.not_mem_nil, or_false] at hp
  subst hp
  refine ⟨by decide, by decide, by decide⟩

/-- C18 for the persisted oracle state (nonces aside), for an exporter configuration -/
def C18_oracle_full (cfg : OracleCfg) : Prop :=
  ∀ s : Oracle, OracleInv s → { roundtripOracle cfg s with nonces := s.nonces } = s

/-- **x/oracle round trip, code as it is.** Every persisted collection except the nonces is reproduced exactly. -/
theorem C18_roundtrip_oracle : C18_oracle_full codeOracleCfg := by
  intro s h
  obtain ⟨h1, h2, h3, h4, h5, h6, h7, h8⟩ := C18_roundtrip_oracle_persisted codeOracleCfg s h
  have h9 := C18_roundtrip_oracle_stakerlists s h
  cases s with
  | mk a b c d e f g i j k =>
    simp only at h1 h2 h3 h4 h5 h6 h7 h8 h9
    simp only [Oracle.mk.injEq]
    exact ⟨h1, h2, h3, h4, h5, h6, h7, h8, h9, trivial⟩

/-- Pre-repair regression (F-18l): the statement was refuted by any state with a native-restaking staker list -/
theorem C18_regression_F18l_full_fails : ¬ C18_oracle_full preFixOracleCfg := by
  intro h
  have := congrArg Oracle.stakerLists (h oracleWitness oracleWitness_inv)
  revert this
  decide

/-! ## native restaking: removing a staker keeps the export valid -/

theorem indexedFrom_renumber (k : Int) (l : List (String × Int)) : indexedFrom k (renumber k l) = true := by
  induction l generalizing k with
  | nil => rfl
  | cons p r ih => obtain ⟨a, i⟩ := p; simp [renumber, indexedFrom, ih]

theorem renumber_keys (k : Int) (l : List (String × Int)) : (renumber k l).map (·.1) = l.map (·.1) := by
  induction l generalizing k with
  | nil => rfl
  | cons p r ih => obtain ⟨a, i⟩ := p; simp [renumber, ih]

theorem indexedFrom_remove (addr : String) (k : Int) (l : List (String × Int)) (h : indexedFrom k l = true) :
    indexedFrom k (removeFrom true addr k l) = true := by
  induction l generalizing k with
  | nil => rfl
  | cons p r ih =>
    obtain ⟨a, i⟩ := p
    simp only [indexedFrom, Bool.and_eq_true, decide_eq_true_eq] at h
    unfold removeFrom
    by_cases e : a = addr
    · simp only [e, if_true]
      exact indexedFrom_renumber k r
    · simp only [e, if_false, indexedFrom, Bool.and_eq_true, decide_eq_true_eq]
      exact ⟨h.1, ih (k + 1) h.2⟩

theorem remove_keys_sublist (shift : Bool) (addr : String) (k : Int) (l : List (String × Int)) :
    ((removeFrom shift addr k l).map (·.1)).Sublist (l.map (·.1)) := by
  induction l generalizing k with
  | nil => simp [removeFrom]
  | cons p r ih =>
    obtain ⟨a, i⟩ := p
    unfold removeFrom
    by_cases e : a = addr
    · simp only [e, if_true, List.map_cons]
      cases shift
      · simp
      · simp only [if_true, renumber_keys]
        exact List.Sublist.cons _ (List.Sublist.refl _)
    · simp only [e, if_false, List.map_cons]
      exact (ih (k + 1)).cons_cons a

/-- **Repaired code (F-18m, F-18n).** An asset whose staker list / staker infos pass the oracle's genesis validation
    still passes it after UpdateNSTValidatorListForStaker removed a staker — the last one included. -/
theorem C18_oracle_nst_remove_keeps_valid (s : Nst) (addr : String) (h : validateNst s = true) :
    validateNst (removeStaker codeNstCfg s addr) = true := by
  simp only [validateNst, Bool.and_eq_true, decide_eq_true_eq, beq_iff_eq] at h ⊢
  obtain ⟨⟨h1, h2⟩, h3⟩ := h
  refine ⟨⟨?_, ?_⟩, ?_⟩
  · simp only [removeStaker, codeNstCfg, Bool.and_true]
    by_cases he : (removeFrom true addr 0 s.stakers).isEmpty = true
    · simp [he]
    · simp only [he, Bool.false_eq_true, if_false, Bool.not_false]
      rw [h1]
      cases hs : s.stakers with
      | nil => rw [hs] at he; simp [removeFrom] at he
      | cons _ _ => rfl
  · exact List.Nodup.sublist (remove_keys_sublist true addr 0 s.stakers) h2
  · exact indexedFrom_remove addr 0 s.stakers h3

def nstTwo : Nst := ⟨true, [("0xa", 0), ("0xb", 1)]⟩
example : validateNst nstTwo = true := by decide
example : removeStaker codeNstCfg nstTwo "0xa" = ⟨true, [("0xb", 0)]⟩ := by decide
example : removeStaker codeNstCfg (removeStaker codeNstCfg nstTwo "0xa") "0xb" = ⟨false, []⟩ := by decide

/-- Pre-repair regression (F-18n): after the first of two stakers left, the second one's stored StakerIndex was stale and
    the export failed Validate ("has index 1, not match which from stakerList 0") -/
theorem C18_regression_F18n : removeStaker ⟨true, false⟩ nstTwo "0xa" = ⟨true, [("0xb", 1)]⟩ ∧
    validateNst (removeStaker ⟨true, false⟩ nstTwo "0xa") = false := by decide

/-- Pre-repair regression (F-18m): after the last staker left, the empty list entry stayed and the export failed Validate
    ("length not equal for stakerListAssets and stakerInfosAssets") -/
theorem C18_regression_F18m : removeStaker ⟨false, true⟩ (removeStaker ⟨false, true⟩ nstTwo "0xa") "0xb" = ⟨true, []⟩ ∧
    validateNst (removeStaker ⟨false, true⟩ (removeStaker ⟨false, true⟩ nstTwo "0xa") "0xb") = false := by decide

/-- both, as the code was -/
theorem C18_regression_F18mn : validateNst (removeStaker preFixNstCfg nstTwo "0xa") = false ∧
    validateNst (removeStaker preFixNstCfg (removeStaker preFixNstCfg nstTwo "0xa") "0xb") = false := by decide

example : (roundtripOracle codeOracleCfg oracleWitness).prices = oracleWitness.prices := by decide
example : (roundtripOracle codeOracleCfg oracleWitness).stakerInfos = oracleWitness.stakerInfos := by decide
example : (roundtripOracle codeOracleCfg oracleWitness).stakerLists = oracleWitness.stakerLists := by decide
example : (roundtripOracle preFixOracleCfg oracleWitness).stakerLists =
    [("NativeToken/stakerList/value/nst", ["0xa", "0xb"])] := by decide
example : (roundtripOracle codeOracleCfg oracleWitness).nonces = [] := by decide

end ExoVerif.Genesis
