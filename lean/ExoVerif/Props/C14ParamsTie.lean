import ExoVerif.Props.C14Params
import ExoVerif.Generated.Facts
/-! C14 tie: where the oracle's UpdateParams takes the value it edits from (regenerated from source by
tools/exofacts/facts_oracle_atomic.go). -/
namespace ExoVerif.Oracle

/-- msg_server_update_params.go: `p := ms.GetParams(ctx)`; keeper/params.go: GetParams unmarshals the
stored bytes into its fresh named result. The edited value therefore shares nothing with the
aggregator context — the premise under which `updateParams` (Model/OracleParams.lean) models a refusal
as the identity (`C14_updateParams_refused_noop`); every later value of `p` is computed from `p`. -/
theorem C14_tie_updateParams_base :
    ExoVerif.Gen.oracleUpdateParamsBase = "ms.GetParams(ctx)" ∧
    ExoVerif.Gen.oracleUpdateParamsSteps =
      ["p.AddSources", "p.AddChains", "p.UpdateTokens", "p.AddRules", "p.UpdateMaxPriceCount", "p.UpdateTokenFeeder"] ∧
    ExoVerif.Gen.oracleGetParamsShape = ["func(ctx sdk.Context) (params types.Params)", "store := ctx.KVStore(k.storeKey)",
      "bz := store.Get(types.ParamsKey)", "if bz != nil { k.cdc.MustUnmarshal(bz, &params) }", "return"] := by decide

/-- the context is fetched only after the store write, on the success path (it is not what the handler
starts from) -/
theorem C14_tie_updateParams_order :
    ExoVerif.Gen.callSeqOracleUpdateParams.filter (· ∈ ["GetParams", "Validate", "SetParams", "GetAggregatorContext", "AddCache"]) =
      ["GetParams", "Validate", "SetParams", "GetAggregatorContext", "AddCache"] := by decide

end ExoVerif.Oracle
