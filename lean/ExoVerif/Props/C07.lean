import ExoVerif.Proofs.ConsKeys
/-!
# C07 — the consensus-key registry stays injective, consistent and slashable

Model: `ExoVerif.ConsKeys` (`Model/ConsKeys.lean`): the five key indexes of x/operator, the
dogfood pruning schedule and the operations OptIntoAVS / SetConsKey / OptOutOfAVS / Jail /
undelegation hook / epoch end / EndBlock, replayed line by line against the real keepers by
`./check C07`. The registry invariant `Inv` is proved for **all** histories (`C07_full`). Before
"fix: opt-out before the key is active" it held only for histories in which no operator opted
out while its current key was not in the validator set; the pre-fix hook is kept as
`optOutPreFix` and the old counter-example as a regression `example` (finding F-07a).
-/
namespace ExoVerif.ConsKeys
open ExoVerif.VMap ExoVerif.ValSet

theorem C07_inv_step (s : St) (o : Op) (h : Inv s) : Inv (step s o).2 := by
  cases o with
  | register op => exact h.congr rfl rfl rfl rfl rfl
  | optIn op key ok => exact inv_optIn s op key ok h
  | setKey op key => exact inv_setKey s op key h
  | optOut op => exact inv_optOut s op h
  | jail key b => exact inv_setJailed s key b h
  | undelegate op rec => exact inv_undelegationStarted s op rec h
  | setUnbonding n => exact h.congr rfl rfl rfl rfl rfl
  | epochEnd e => exact inv_epochEndHook s e h
  | endBlock power maxVals => exact inv_endBlock s power maxVals h

theorem setKeyCore_reject_used (t : St) (op key : Nat) (h : (t.rev key).isSome = true) :
    (setKeyCore t op key).1 ≠ .ok ∧ (setKeyCore t op key).2 = t := by
  unfold setKeyCore
  split
  · simp
  · simp [h]

theorem setKeyCore_reject_removing (t : St) (op key : Nat) (h : t.removing op = true) :
    (setKeyCore t op key).1 ≠ .ok ∧ (setKeyCore t op key).2 = t := by
  unfold setKeyCore
  simp [h]

theorem optIn_of_core_fail (s : St) (op key : Nat) (ok : Bool)
    (hc : (setKeyCore { s with hasInfo := upd s.hasInfo op true, optedIn := upd s.optedIn op true,
                               jailed := upd s.jailed op false } op key).1 ≠ .ok) :
    (optIn s op key ok).1 ≠ .ok ∧ (optIn s op key ok).2 = s := by
  unfold optIn
  split
  · simp
  · split
    · simp
    · split
      · simp
      · dsimp only
        revert hc
        generalize setKeyCore _ op key = r
        intro hc
        obtain ⟨o, s2⟩ := r
        cases o <;> simp at hc ⊢

/-- The invariant holds after every history, of any length, over any number of operators, keys
and epochs (induction over the history). -/
theorem C07_inv_reachable (s : St) (ops : List Op) (h : Inv s) : Inv (run s ops) := by
  induction ops generalizing s with
  | nil => exact h
  | cons o rest ih =>
    simp only [run, List.foldl_cons]
    exact ih _ (C07_inv_step s o h)

theorem C07_inv_init (nOps nKeys : Nat) (e n : Int) : Inv (St.init nOps nKeys e n) := by
  refine ⟨fun _ => rfl, ?_, ?_, ?_, ?_⟩
  · intro op k hk; simp [St.init] at hk
  · intro k hk; rcases hk with hk | ⟨e, hk⟩ <;> simp [St.init] at hk
  · intro k hk; rcases hk with hk | ⟨e, hk⟩ <;> simp [St.init] at hk
  · intro e k hk; simp [St.init] at hk

/-- The operator→key, chain→operator→key and chain→address→operator indexes agree. -/
theorem C07_indexes_agree (s : St) (ops : List Op) (h : Inv s) (op k : Nat) :
    ((run s ops).fwd op = (run s ops).fwd2 op) ∧
    ((run s ops).fwd op = some k → (run s ops).rev k = some op) :=
  ⟨(C07_inv_reachable s ops h).fwdEq op, (C07_inv_reachable s ops h).back op k⟩

/-- A consensus key belongs to at most one operator at a time … -/
theorem C07_key_has_one_operator (s : St) (ops : List Op) (h : Inv s)
    (op1 op2 k : Nat) (h1 : (run s ops).fwd op1 = some k) (h2 : (run s ops).fwd op2 = some k) : op1 = op2 :=
  (C07_inv_reachable s ops h).injective op1 op2 k h1 h2

/-- … including keys that were replaced and have not yet matured: such a key is nobody's
current key, is still resolvable, and any attempt to set it (by anybody, including its former
owner) is rejected without a state change. -/
theorem C07_replaced_key_reserved (s : St) (ops : List Op) (h : Inv s)
    (k : Nat) (hk : sched (run s ops) k) :
    (∀ op, (run s ops).fwd op ≠ some k) ∧ ((run s ops).rev k).isSome = true ∧
    (∀ op, (setKey (run s ops) op k).1 ≠ .ok ∧ (setKey (run s ops) op k).2 = run s ops) ∧
    (∀ op ok, (optIn (run s ops) op k ok).1 ≠ .ok ∧ (optIn (run s ops) op k ok).2 = run s ops) := by
  have hi := C07_inv_reachable s ops h
  have hrev := hi.schedRev k hk
  refine ⟨hi.schedFree k hk, hrev, ?_, ?_⟩
  · intro op
    unfold setKey
    split
    · simp
    · exact setKeyCore_reject_used _ op k hrev
  · intro op ok
    exact optIn_of_core_fail _ op k ok (setKeyCore_reject_used { (run s ops) with hasInfo := upd (run s ops).hasInfo op true, optedIn := upd (run s ops).optedIn op true, jailed := upd (run s ops).jailed op false } op k hrev).1

/-- Any key that is still mapped to an operator is rejected (all histories, no guard needed). -/
theorem C07_used_key_rejected (s : St) (op key : Nat) (ok : Bool) (h : (s.rev key).isSome = true) :
    (setKey s op key).1 ≠ .ok ∧ (setKey s op key).2 = s ∧
    (optIn s op key ok).1 ≠ .ok ∧ (optIn s op key ok).2 = s := by
  have h1 : (setKey s op key).1 ≠ .ok ∧ (setKey s op key).2 = s := by
    unfold setKey
    split
    · simp
    · exact setKeyCore_reject_used _ op key h
  have h2 := optIn_of_core_fail s op key ok (setKeyCore_reject_used { s with hasInfo := upd s.hasInfo op true, optedIn := upd s.optedIn op true, jailed := upd s.jailed op false } op key h).1
  exact ⟨h1.1, h1.2, h2.1, h2.2⟩

/-- An operator that is removing its key cannot set a new one (all histories, no guard). -/
theorem C07_removing_blocks_set (s : St) (op key : Nat) (ok : Bool) (h : s.removing op = true) :
    (setKey s op key).1 ≠ .ok ∧ (setKey s op key).2 = s ∧
    (optIn s op key ok).1 ≠ .ok ∧ (optIn s op key ok).2 = s := by
  have h1 : (setKey s op key).1 ≠ .ok ∧ (setKey s op key).2 = s := by
    unfold setKey
    split
    · simp
    · exact setKeyCore_reject_removing _ op key h
  have h2 := optIn_of_core_fail s op key ok (setKeyCore_reject_removing { s with hasInfo := upd s.hasInfo op true, optedIn := upd s.optedIn op true, jailed := upd s.jailed op false } op key h).1
  exact ⟨h1.1, h1.2, h2.1, h2.2⟩

/-! ## slashability: resolvable until matured, pruned then -/

/-- Replacing a key that is in the validator set schedules the old key for the epoch
`current + EpochsUntilUnbonded` (first replacement of the epoch). -/
theorem C07_replacement_schedules_old_key (s : St) (op key pk : Nat)
    (hact : s.optedIn op = true ∧ s.jailed op = false) (hrm : s.removing op = false)
    (hfree : s.rev key = none) (hf : s.fwd op = some pk) (hne : pk ≠ key)
    (hfirst : s.prevKey op = none) (hval : has s.vs.vals pk = true) :
    pk ∈ (setKey s op key).2.addrsToPrune (s.epoch + s.nUnb) ∧
    (setKey s op key).2.rev pk = s.rev pk ∧ (setKey s op key).2.fwd op = some key := by
  have hne' : ¬ key = pk := fun e => hne e.symm
  simp [setKey, setKeyCore, hact.1, hact.2, hrm, hfree, hf, hne, hfirst, hookReplaced, hval, completionEpoch,
    upd_apply, hne']

/-- A scheduled address stays in its slot under every operation except the end of that epoch. -/
theorem C07_prune_slot_persists (s : St) (o : Op) (e : Int) (k : Nat) (hk : k ∈ s.addrsToPrune e)
    (ho : ∀ e', o = .epochEnd e' → e' ≠ e) : k ∈ (step s o).2.addrsToPrune e := by
  have hHook : ∀ (t : St) (old : Nat), k ∈ t.addrsToPrune e → k ∈ (hookReplaced t old).addrsToPrune e := by
    intro t old ht
    unfold hookReplaced
    split
    · simp only [upd_apply]; split
      · rename_i he; subst he; exact List.mem_append_left _ ht
      · exact ht
    · exact ht
  have hCore : ∀ (t : St) (op key : Nat), k ∈ t.addrsToPrune e → k ∈ (setKeyCore t op key).2.addrsToPrune e := by
    intro t op key ht
    unfold setKeyCore
    split
    · exact ht
    · split
      · exact ht
      · cases t.fwd op with
        | none => exact ht
        | some pk =>
          simp only []
          split
          · exact ht
          · split
            · exact ht
            · exact hHook _ pk ht
  cases o with
  | register op => exact hk
  | optIn op key ok =>
    simp only [step, optIn]
    split
    · exact hk
    · split
      · exact hk
      · split
        · exact hk
        · have := hCore { s with hasInfo := upd s.hasInfo op true, optedIn := upd s.optedIn op true, jailed := upd s.jailed op false } op key hk
          revert this
          generalize setKeyCore _ op key = r
          intro this
          obtain ⟨o, s2⟩ := r
          cases o <;> first | exact this | exact hk
  | setKey op key =>
    simp only [step, setKey]
    split
    · exact hk
    · exact hCore s op key hk
  | optOut op =>
    simp only [step, optOut]
    repeat' split
    all_goals first
      | exact hk
      | (show k ∈ (completeRemoval _ op).addrsToPrune e; rw [(completeRemoval_fields _ op).1]; exact hk)
  | jail key b =>
    simp only [step, setJailed]
    repeat' split
    all_goals exact hk
  | undelegate op rec =>
    simp only [step, undelegationStarted]
    repeat' split
    all_goals exact hk
  | setUnbonding n => exact hk
  | epochEnd e' =>
    have hne := ho e' rfl
    simp only [step, epochEndHook, upd_apply]
    have : ¬ e = e' := fun x => hne x.symm
    simp only [this, if_false]; exact hk
  | endBlock power maxVals =>
    simp only [step, endBlock]
    split
    · exact hk
    · simp only []
      have := (releaseUndel_fields s.pendingUndel { s with prevKey := fun _ => none }).2.2.2.1
      have h2 : ∀ (l : List Nat) (t : St), (l.foldl completeRemoval t).addrsToPrune = t.addrsToPrune := by
        intro l
        induction l with
        | nil => intro t; rfl
        | cons a rest ih =>
          intro t
          simp only [List.foldl_cons]
          rw [ih]
          unfold completeRemoval
          repeat' split
          all_goals rfl
      show k ∈ (List.foldl completeRemoval _ _).addrsToPrune e
      rw [h2]
      show k ∈ (List.foldl releaseUndel _ _).addrsToPrune e
      rw [this]; exact hk

theorem foldl_completeRemoval_pendingAddrs (l : List Nat) (t : St) :
    (l.foldl completeRemoval t).pendingAddrs = t.pendingAddrs := by
  induction l generalizing t with
  | nil => rfl
  | cons a rest ih =>
    simp only [List.foldl_cons]
    rw [ih]
    unfold completeRemoval
    repeat' split
    all_goals rfl

/-- EndBlock of an epoch-closing block deletes the reverse lookup of every pending address and
clears the pending list -/
theorem endBlock_prunes (t : St) (power : Nat → Int) (maxVals : Nat) (he : t.epochEnd = true)
    (k : Nat) (hk : k ∈ t.pendingAddrs) :
    (endBlock t power maxVals).rev k = none ∧ (endBlock t power maxVals).pendingAddrs = [] := by
  unfold endBlock
  simp only [he, Bool.not_true, Bool.false_eq_true, if_false]
  refine ⟨?_, trivial⟩
  show (if k ∈ (List.foldl completeRemoval _ _).pendingAddrs then none else _) = none
  rw [foldl_completeRemoval_pendingAddrs]
  show (if k ∈ (List.foldl releaseUndel _ _).pendingAddrs then none else _) = none
  rw [(releaseUndel_fields _ _).2.2.2.2]
  simp [hk]

/-- When the epoch of its slot ends the address becomes pending, and the EndBlock of that same
block deletes its reverse lookup: pruned then, not before (`C07_replaced_key_reserved`
keeps it resolvable while scheduled). -/
theorem C07_pruned_when_slot_ends (s : St) (e : Int) (k : Nat) (power : Nat → Int) (maxVals : Nat)
    (hk : k ∈ s.addrsToPrune e) :
    k ∈ (step s (.epochEnd e)).2.pendingAddrs ∧
    (step (step s (.epochEnd e)).2 (.endBlock power maxVals)).2.rev k = none ∧
    (step (step s (.epochEnd e)).2 (.endBlock power maxVals)).2.pendingAddrs = [] :=
  ⟨hk, endBlock_prunes (epochEndHook s e) power maxVals rfl k hk⟩

/-! ## the full statement (no restriction on histories) -/

/-- in every history every current key maps back to its operator -/
def C07_full : Prop :=
  ∀ (ops : List Op) (op k : Nat),
    (run (St.init 3 6 1 2) ops).fwd op = some k → (run (St.init 3 6 1 2) ops).rev k = some op

theorem C07_full_holds : C07_full :=
  fun ops op k => (C07_inv_reachable _ ops (C07_inv_init 3 6 1 2)).back op k

/-- An opt-out before the key is active (current and previous key not in the validator set)
completes at once: nothing of the operator's registration is left, so the key is free again and
the operator may opt in again. -/
theorem C07_optout_inactive_completes (s : St) (op key : Nat) (hreg : s.registered op = true)
    (hact : s.optedIn op = true ∧ s.jailed op = false) (hf : s.fwd op = some key)
    (hcur : has s.vs.vals key = false) (hprev : ∀ pk, s.prevKey op = some pk → has s.vs.vals pk = false) :
    (optOut s op).1 = .ok ∧ (optOut s op).2.fwd op = none ∧ (optOut s op).2.fwd2 op = none ∧
    (optOut s op).2.rev key = none ∧ (optOut s op).2.removing op = false ∧ (optOut s op).2.optedIn op = false := by
  cases hp : s.prevKey op with
  | none => simp [optOut, hreg, hact.1, hact.2, hf, hcur, hp, completeRemoval, upd_apply]
  | some pk => simp [optOut, hreg, hact.1, hact.2, hf, hcur, hp, hprev pk hp, completeRemoval, upd_apply]

/-- Key replaced and opt-out in the same epoch: the previous key is still validating, so the
opt-out is scheduled like any other (finish epoch stored, marker and current key kept until
then) and the scheduled pruning of the previous key is untouched. -/
theorem C07_optout_after_replacement_scheduled (s : St) (op key pk : Nat) (hreg : s.registered op = true)
    (hact : s.optedIn op = true ∧ s.jailed op = false) (hf : s.fwd op = some key)
    (hp : s.prevKey op = some pk) (hval : has s.vs.vals pk = true) :
    (optOut s op).2.optOutFinishEpoch op = some (s.epoch + s.nUnb) ∧
    op ∈ (optOut s op).2.optOutsToFinish (s.epoch + s.nUnb) ∧
    (optOut s op).2.fwd op = some key ∧ (optOut s op).2.rev = s.rev ∧
    (optOut s op).2.addrsToPrune = s.addrsToPrune ∧ (optOut s op).2.removing op = true := by
  simp [optOut, hreg, hact.1, hact.2, hf, hp, hval, setOptOutInformation, completionEpoch, upd_apply]

/-! ## regression: the pre-fix hook (finding F-07a) -/

/-- opt in with a key and opt out again before the key is active -/
def f07aWitness : List Op := [.register 0, .register 1, .optIn 0 5 true, .optOut 0]

/-- with the pre-fix hook the current key no longer maps back, the marker stays without a finish
epoch, a second operator takes the same key and an undelegation from the first panics -/
example :
    let s := runPreFix (St.init 3 6 1 2) (f07aWitness ++ [.optIn 1 5 true])
    s.fwd 0 = some 5 ∧ s.fwd 1 = some 5 ∧ s.rev 5 = some 1 ∧ s.removing 0 = true ∧
    s.optOutFinishEpoch 0 = none ∧ (undelegationStartedPreFix s 0 0).1 = .panic := by decide

example : (runPreFix (St.init 3 6 1 2) f07aWitness).fwd 0 = some 5 ∧
          (runPreFix (St.init 3 6 1 2) f07aWitness).rev 5 = none := by decide

/-- the same history on the repaired code: everything of operator 0 is gone, the key is free -/
example :
    let s := run (St.init 3 6 1 2) f07aWitness
    s.fwd 0 = none ∧ s.rev 5 = none ∧ s.removing 0 = false ∧ (undelegationStarted s 0 0).1 = .ok ∧
    (undelegationStarted s 0 0).2.holds 0 = 0 ∧
    (optIn s 0 4 true).1 = .ok := by decide

/-! ## non-vacuity: a multi-epoch history with replacement, opt-out and pruning -/

private def pw : Nat → Int := fun op => if op = 0 then 120 else 100
private def hist : List Op :=
  [.register 0, .register 1, .optIn 0 1 true, .optIn 1 2 true, .epochEnd 1, .endBlock pw 5,  -- keys 1, 2 active
   .setKey 0 3,                                  -- replace the active key 1: scheduled for epoch 2 + 2
   .setKey 1 1,                                  -- rejected: key 1 still reserved
   .epochEnd 2, .endBlock pw 5, .optOut 1,       -- key 2 is in the set: scheduled
   .epochEnd 3, .endBlock pw 5, .epochEnd 4, .endBlock pw 5]

example : (run (St.init 2 6 1 2) (hist.take 8)).addrsToPrune 4 = [1] ∧
          (run (St.init 2 6 1 2) (hist.take 8)).rev 1 = some 0 ∧
          (run (St.init 2 6 1 2) (hist.take 8)).fwd 1 = some 2 := by decide
example : (run (St.init 2 6 1 2) hist).rev 1 = none ∧ (run (St.init 2 6 1 2) hist).fwd 0 = some 3 := by decide

end ExoVerif.ConsKeys
