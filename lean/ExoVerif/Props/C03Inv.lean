import ExoVerif.Proofs.LedgerPend
import ExoVerif.Props.C01
/-!
# C03 (last sentence) — the pending-undelegation figures equal the sums of the unreleased records

"At all times each staker's and each operator's 'pending undelegation' figure equals the sum of
the unreleased records that name them."

`PendInv s` (Proofs/LedgerPend.lean): for every staker `st` and every non-native asset `a`,
`StakerAssetInfo.PendingUndelegationAmount (st, a)` = Σ `Amount` over the live records of `(st, a)`;
for every operator `o` and every asset `a`, `OperatorAssetInfo.PendingUndelegationAmount (o, a)` =
Σ `Amount` over the live records of `(o, a)`; and for every delegation `(st, a, o)`,
`DelegationAmounts.WaitUndelegationAmount` = Σ `Amount` over its live records. (For the native token
x/delegation keeps no staker row: RemoveShare and EndBlock skip it, so the staker figure is stated
for the other assets.) The figures track the ORIGINAL amount of a record: a slash lowers
`ActualCompletedAmount` only and touches neither side of the equations.

Every operation of the ledger model keeps `PendInv` (under the record-store invariant `RecInv`, and
the nonce discipline `FreshNonce` for an undelegation — the hypotheses C01/C03 already carry), hence
so does every finite history (`C03_pending_figures_reachable`). No further hypothesis was needed.
-/
namespace ExoVerif.Ledger
open ExoVerif ExoVerif.KV

theorem C03_pending_deposit {s s' : L} {st : SID} {a : AID} {x : Int} (hp : PendInv s)
    (h : deposit s st a x = .ok s') : PendInv s' := pendInv_of_same hp (samePend_deposit h)

theorem C03_pending_withdraw {s s' : L} {st : SID} {a : AID} {x : Int} (hp : PendInv s)
    (h : withdraw s st a x = .ok s') : PendInv s' := pendInv_of_same hp (samePend_withdraw h)

theorem C03_pending_delegate {s s' : L} {st : SID} {a : AID} {o : OID} {x : Int} (hp : PendInv s)
    (h : delegate s st a o x = .ok s') : PendInv s' := pendInv_of_same hp (samePend_delegate h)

/-- an accepted undelegation (fresh nonce) raises the staker's, the operator's and the delegation's
figure by the removed tokens and writes exactly one record of that amount -/
theorem C03_pending_undelegate {s s' : L} {st : SID} {a : AID} {o : OID} {x : Int} {n : Nat} {hash : String}
    (hi : RecInv s) (hf : FreshNonce s n) (hp : PendInv s)
    (h : undelegate s st a o x n hash = .ok s') : PendInv s' := pendInv_undelegate hi hf hp h

theorem C03_pending_associate {s s' : L} {st : SID} {o : OID} (hp : PendInv s)
    (h : associate s st o = .ok s') : PendInv s' := pendInv_of_same hp (samePend_associate h)

theorem C03_pending_dissociate {s s' : L} {st : SID} (hp : PendInv s)
    (h : dissociate s st = .ok s') : PendInv s' := pendInv_of_same hp (samePend_dissociate h)

theorem C03_pending_hold (s : L) (k : RecKey) (hp : PendInv s) : PendInv (hold s k) :=
  pendInv_of_same hp (samePend_hold s k)

theorem C03_pending_release {s s' : L} {k : RecKey} (hp : PendInv s) (h : release s k = .ok s') :
    PendInv s' := pendInv_of_same hp (samePend_release h)

/-- completion of one live record: the three figures drop by its original amount and it is deleted -/
theorem C03_pending_completeRecord {s s' : L} {r : URec} (hp : PendInv s) (hl : Live s r)
    (h : completeRecord s r = .ok s') : PendInv s' := pendInv_completeRecord hp hl h

/-- a block end (completion of the due un-held records, re-queueing of the held ones, skipping of the
records whose completion fails) -/
theorem C03_pending_endBlock {s : L} (hi : RecInv s) (hp : PendInv s) : PendInv (nextBlock (endBlock s)) :=
  pendInv_endBlock hi hp

/-- a slash moves no pending figure and no record's original amount (no hypothesis on the proportion) -/
theorem C03_pending_slash (s : L) (o : OID) (inf : Nat) (p : Dec) (hp : PendInv s) :
    PendInv (slashAssets s o inf p) := pendInv_slashAssets o inf p hp

/-- C03, pending figures, one step: every operation of the ledger, accepted or rejected, keeps every
pending-undelegation figure equal to the sum of the live records naming it. -/
theorem C03_pending_figures_step (s : L) (op : LOp) (hi : RecInv s) (hp : PendInv s) (hok : OpOk s op) :
    PendInv (lstep s op) := by
  cases op with
  | deposit st a x =>
    simp only [lstep]; split
    · rename_i s' h; exact C03_pending_deposit hp h
    · exact hp
  | withdraw st a x =>
    simp only [lstep]; split
    · rename_i s' h; exact C03_pending_withdraw hp h
    · exact hp
  | delegate st a o x =>
    simp only [lstep]; split
    · rename_i s' h; exact C03_pending_delegate hp h
    · exact hp
  | undelegate st a o x n hash =>
    simp only [lstep]; split
    · rename_i s' h; exact C03_pending_undelegate hi hok hp h
    · exact hp
  | associate st o =>
    simp only [lstep]; split
    · rename_i s' h; exact C03_pending_associate hp h
    · exact hp
  | dissociate st =>
    simp only [lstep]; split
    · rename_i s' h; exact C03_pending_dissociate hp h
    · exact hp
  | hold k => exact C03_pending_hold s k hp
  | release k =>
    simp only [lstep]; split
    · rename_i s' h; exact C03_pending_release hp h
    · exact hp
  | blockEnd => exact C03_pending_endBlock hi hp
  | slash o inf p => exact C03_pending_slash s o inf p hp

/-- **C03, pending figures, over every finite history**: after any finite interleaving of deposits,
withdrawals, delegations, undelegations, associations, dissociations, holds, releases, block ends and
slashes (each issued under `OpOk`), from a state with consistent record stores in which the figures
equal the record sums, they still do. -/
theorem C03_pending_figures_reachable (s : L) (ops : List LOp) (hi : RecInv s) (hp : PendInv s)
    (hok : AllOk s ops) : PendInv (ops.foldl lstep s) := by
  induction ops generalizing s with
  | nil => exact hp
  | cons op rest ih =>
    simp only [List.foldl_cons]
    obtain ⟨h1, h2⟩ := hok
    have i1 : RecInv (lstep s op) := (C01_net_step s op "a" (by decide) hi h1).2
    exact ih (lstep s op) i1 (C03_pending_figures_step s op hi hp h1) h2

/-! non-vacuity: a concrete state meets the hypotheses; a concrete history — an accepted undelegation
that is slashed while pending and completed two blocks later, then a second accepted undelegation that
is still pending at the end — is `AllOk`; the theorem applies to it, and the figures it speaks about
are non-zero on the way (10) and at the end (4). -/

private def e1 : L :=
  { height := 5, unbonding := 2, totals := [("a", 100)], operators := ["o1", "o2"], clientChains := [],
    stakers := [(("s", "a"), ⟨100, 0, 0⟩)],
    pools := [(("o1", "a"), ⟨50, 0, ⟨50000000000000000000⟩, ⟨0⟩⟩), (("o2", "a"), ⟨50, 0, ⟨50000000000000000000⟩, ⟨0⟩⟩)],
    deleg := [(("s", "a", "o1"), ⟨⟨50000000000000000000⟩, 0⟩), (("s", "a", "o2"), ⟨⟨50000000000000000000⟩, 0⟩)],
    slist := [(("o1", "a"), ["s"]), (("o2", "a"), ["s"])], assoc := [], recs := [], sidx := [], pidx := [],
    holds := [], bal := [], escrow := 0, gDep := [], gWd := [], gSlashed := [] }

/-- up to the first undelegation (10 from o1, nonce 7) and one block end: the record is live -/
private def opsA : List LOp :=
  [.deposit "s" "a" 40, .delegate "s" "a" "o1" 30, .undelegate "s" "a" "o1" 10 7 "0xh", .blockEnd]

/-- …then a slash of o1 while the record is pending, two block ends (the second completes it), a
second undelegation (4 from o2, nonce 8) and one more block end -/
private def opsAB : List LOp :=
  [.deposit "s" "a" 40, .delegate "s" "a" "o1" 30, .undelegate "s" "a" "o1" 10 7 "0xh", .blockEnd,
   .slash "o1" 4 ⟨100000000000000000⟩, .blockEnd, .blockEnd, .undelegate "s" "a" "o2" 4 8 "0xg", .blockEnd]

private theorem e1_recInv : RecInv e1 :=
  ⟨by unfold NoDup keys; decide, by unfold NoDup keys; decide, by unfold NoDup keys; decide,
   by intro k r h; simp [e1] at h, by intro k r h; simp [e1] at h,
   by intro k r h; simp [e1] at h, by intro k1 k2 r1 r2 h; simp [e1] at h⟩

private theorem e1_pendInv : PendInv e1 :=
  pendInv_of_no_records rfl (by decide) (by decide) (by decide)

private theorem opsA_ok : AllOk e1 opsA := by
  refine ⟨trivial, trivial, ?_, trivial, trivial⟩
  exact freshNonce_of_no_records (by decide) 7

private theorem opsAB_ok : AllOk e1 opsAB := by
  refine ⟨trivial, trivial, ?_, trivial, ⟨?_, ?_, ?_⟩, trivial, trivial, ?_, trivial, trivial⟩
  · exact freshNonce_of_no_records (by decide) 7
  · unfold UnitP; decide
  · unfold RecsNonneg; decide
  · unfold PoolsNonneg; decide
  · exact freshNonce_of_no_records (by decide) 8

example : RecInv e1 := e1_recInv
example : PendInv e1 := e1_pendInv
example : AllOk e1 opsA := opsA_ok
example : AllOk e1 opsAB := opsAB_ok

/-- the state after `opsA`: one live record of amount 10, and the three figures are 10 -/
example : PendInv (opsA.foldl lstep e1) ∧
    (opsA.foldl lstep e1).recs = [(⟨"o1", 5, 7, "0xh"⟩, ⟨"s", "a", "o1", "0xh", 7, 5, 7, 10, 10⟩)] ∧
    (getD (opsA.foldl lstep e1).stakers ("s", "a") zeroStaker).pending = 10 ∧
    (getD (opsA.foldl lstep e1).pools ("o1", "a") zeroPool).pending = 10 ∧
    (getD (opsA.foldl lstep e1).deleg ("s", "a", "o1") zeroDeleg).wait = 10 :=
  ⟨C03_pending_figures_reachable e1 opsA e1_recInv e1_pendInv opsA_ok, by decide, by decide, by decide, by decide⟩

/-- the state after `opsAB`: the first record (slashed to actual 9, amount 10) was completed and its
figures went back to 0; the second record (amount 4) is live and its figures are 4 -/
example : PendInv (opsAB.foldl lstep e1) ∧
    (opsAB.foldl lstep e1).recs = [(⟨"o2", 8, 8, "0xg"⟩, ⟨"s", "a", "o2", "0xg", 8, 8, 10, 4, 4⟩)] ∧
    (getD (opsAB.foldl lstep e1).stakers ("s", "a") zeroStaker) = ⟨140, 19, 4⟩ ∧
    (getD (opsAB.foldl lstep e1).pools ("o1", "a") zeroPool).pending = 0 ∧
    (getD (opsAB.foldl lstep e1).pools ("o2", "a") zeroPool).pending = 4 ∧
    (getD (opsAB.foldl lstep e1).deleg ("s", "a", "o1") zeroDeleg).wait = 0 ∧
    (getD (opsAB.foldl lstep e1).deleg ("s", "a", "o2") zeroDeleg).wait = 4 :=
  ⟨C03_pending_figures_reachable e1 opsAB e1_recInv e1_pendInv opsAB_ok, by decide, by decide, by decide,
   by decide, by decide, by decide⟩

end ExoVerif.Ledger
