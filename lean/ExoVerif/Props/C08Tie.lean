import ExoVerif.Generated.Facts
import ExoVerif.Props.C08
/-!
# C08 tie: the regenerated facts about the Go sources are covered by the theorems

A new `range` over a map in consensus code, a new use of the wall clock / randomness / goroutines /
floats, or a new unguarded writer of the oracle's in-memory cache changes a generated list and breaks
one of these proofs until the site is reviewed and registered.
-/
namespace ExoVerif.Det
open ExoVerif.Gen

theorem C08_all_map_ranges_covered : ∀ s ∈ mapRangeSites, s ∈ registered := by decide

theorem C08_unresolved_ranges_reviewed : mapRangeUnresolved = reviewedNonMap := by rfl

theorem C08_no_ambient_nondeterminism : ambientUses = [] := by rfl

/-- every slice built inside a map range is reviewed, with its fate -/
theorem C08_order_carrying_results_reviewed : orderCarryingResults = orderReview.map (·.1) := by rfl

/-- the callers that receive a map-ordered slice: the oracle EndBlocker, CreatePrice and the recache
(which discards SealRound's results) -/
theorem C08_order_carrying_consumers : orderCarryingConsumers = [
    "GetValidators <- x/oracle/keeper/msg_server_create_price.go:msgServer.CreatePrice",
    "GetValidators <- x/oracle/module.go:AppModule.EndBlock",
    "SealRound <- x/oracle/keeper/single.go:recacheAggregatorContext",
    "SealRound <- x/oracle/module.go:AppModule.EndBlock"] := by rfl

/-- every in-place slice removal in consensus code is the order-preserving splice; in particular the
removal from the oracle nonce list, whose argument order is map-derived (`sealed`) -/
theorem C08_slice_removals_are_splices : sliceRemovalShapes = [
    "x/appchain/coordinator/keeper/timeout.go:Keeper.RemoveChainFromInitTimeout:prev.List:splice",
    "x/delegation/keeper/delegation_state.go:Keeper.DeleteStakerForOperator:stakers.Stakers:splice",
    "x/oracle/keeper/native_token.go:Keeper.UpdateNSTValidatorListForStaker:stakerInfo.ValidatorPubkeyList:splice",
    "x/oracle/keeper/native_token.go:Keeper.UpdateNSTValidatorListForStaker:stakerList.StakerAddrs:splice",
    "x/oracle/keeper/nonce.go:Keeper.RemoveNonceWithValidatorAndFeederID:nonce.NonceList:splice",
    "x/oracle/keeper/nonce.go:Keeper.removeNonceWithValidatorAndFeederID:nonce.NonceList:splice",
    "x/reward/keeper/reward_record.go:rewardRecord.ClearRewards:p.Rewards:splice"] := by rfl

/-- every variable that a map-range body carries from one iteration to the next is a reviewed one -/
theorem C08_loop_carried_state_reviewed : mapRangeCarriedState = carriedReview.map (·.1) := by rfl

/-- the only plain assignments among them (the order-sensitive kind): the first-error / message variables
of GetMultipleAssetsPrices and the running maxima of recacheAggregatorContext -/
theorem C08_plain_assignments_carried :
    mapRangePlainAssignments = [
      "x/oracle/keeper/prices.go:Keeper.GetMultipleAssetsPrices:assets|err|assign",
      "x/oracle/keeper/prices.go:Keeper.GetMultipleAssetsPrices:assets|prices|assign",
      "x/oracle/keeper/single.go:recacheAggregatorContext:recentParamsMap#2|prev|assign",
      "x/oracle/keeper/single.go:recacheAggregatorContext:recentParamsMap#3|prev|assign",
      "x/oracle/keeper/single.go:recacheAggregatorContext:recentParamsMap|prev|assign"] := by rfl

/-- no function that ranges over a map singles out the first / last element of a slice loop (the way a
map-derived order becomes observable after a tie-tolerant sort) -/
theorem C08_no_position_dependent_use : positionDependentUses = [] := by rfl

/-- No message handler (anything outside the EndBlocker and the (re)initialisation in single.go, which
never run on the check state) writes the oracle's process-global cache / aggregator without an
`IsCheckTx` guard. This is the source-level fact `C08_checktx_does_not_touch_deliver_state` models;
re-introducing an unguarded `cs.AddCache` in a handler (F-08a) makes the list non-empty. -/
theorem C08_unguarded_cache_writers : oracleUnguardedTxWriters = [] := by rfl

/-- the handler-side writers the model covers (`updateParamsHandler`, `registerTokenHandler`,
`createPriceHandler`), each with the guard the model gives it: cache writes inside `if !ctx.IsCheckTx()`,
aggregator writes on the context GetAggregatorContext(ctx) hands out (the CheckTx copy on the check state) -/
theorem C08_guarded_cache_writers : oracleGuardedTxWriters = [
    "x/oracle/keeper/msg_server_create_price.go:msgServer.CreatePrice:agc.NewCreatePrice:mode-dispatched",
    "x/oracle/keeper/msg_server_create_price.go:msgServer.CreatePrice:cs.AddCache:checktx-guarded",
    "x/oracle/keeper/msg_server_create_price.go:msgServer.CreatePrice:cs.RemoveCache:checktx-guarded",
    "x/oracle/keeper/msg_server_update_params.go:msgServer.UpdateParams:cs.AddCache:checktx-guarded",
    "x/oracle/keeper/params.go:Keeper.RegisterNewTokenAndSetTokenFeeder:cs.AddCache:checktx-guarded"] := by rfl

end ExoVerif.Det
