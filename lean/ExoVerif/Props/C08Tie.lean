import ExoVerif.Generated.Facts
import ExoVerif.Props.C08
/-!
# C08 tie: the regenerated facts about the Go sources are covered by the theorems

A new `range` over a map in consensus code, a new use of the wall clock / randomness / goroutines /
floats, or a new unguarded writer of the oracle's in-memory cache changes a generated list and breaks
one of these proofs until the site is reviewed and registered.
-/
namespace ExoVerif.Det
open ExoVerif.Gen

theorem C08_all_map_ranges_covered : ∀ s ∈ mapRangeSites, s ∈ registered := by decide

theorem C08_unresolved_ranges_reviewed : mapRangeUnresolved = reviewedNonMap := by rfl

theorem C08_no_ambient_nondeterminism : ambientUses = [] := by rfl

/-- who mutates the oracle's process-global cache / aggregator without a CheckTx guard: the block
hooks and (re)initialisation, which never run on the check state — and UpdateParams (F-08a). -/
theorem C08_unguarded_cache_writers :
    oracleUnguardedTxWriters =
    ["x/oracle/keeper/msg_server_update_params.go:msgServer.UpdateParams:cs.AddCache:unguarded"] := by rfl

end ExoVerif.Det
