import ExoVerif.Model.MsgOrder
/-!
# C08 — the result of a multi-entry message is a function of the message

Clause: "the same block gives byte-identical transaction result codes / data / gas on every execution".
For a message that executes a list of entries on a cache context and fails as a whole at the first
failing entry (x/delegation MsgDelegation / MsgUndelegation):

* `C08_msg_first_failing_entry_decides_code_and_gas`, `C08_msg_all_entries_succeed`,
  `C08_msg_result_decomposition`: executed in list order, the reported error is the error of the FIRST
  failing entry on the state its predecessors left, the gas is the gas of exactly the entries up to and
  including it, nothing behind it is looked at — for every per-entry step, every gas function, every
  state and every list. With `C08_msg_in_message_order_schedule_free` (the builder the code has does not
  consult a schedule) this is the clause for the code as it is.
* `C08_msg_map_order_full_fails` (+ the witnesses): if the executed list followed the iteration order
  of a Go map (entries merged per operator, then `range` over the map), code, gas and — for
  undelegations, through the nonce-keyed indexes of finding F-03a — even the committed state would
  depend on the schedule.
* `C08_msg_commuting_entries_commit_order_independent`: why nothing else notices: when the per-entry
  steps commute up to the error value, WHETHER the message fails and WHAT it commits are the same under
  every order; only code and gas move.
* `C08_msg_single_entry_any_schedule`: one entry has one order (single-operator messages cannot show it).
-/
namespace ExoVerif.MsgOrder
open ExoVerif ExoVerif.KV ExoVerif.Ledger

section generic
variable {σ ε : Type} (step : σ → ε → Except String σ) (cost : σ → ε → Nat)

/-- the metered loop = (entries one after another, gas of the executed entries, position of the first failure) -/
theorem runFrom_eq : ∀ (es : List ε) (s : σ) (i g : Nat),
    runFrom step cost es s i g =
      (match execAll step es s with
       | .ok s' => Res.ok s' (g + gasAll step cost es s)
       | .error err => Res.fail (i + okPrefix step es s) err (g + gasAll step cost es s)) := by
  intro es
  induction es with
  | nil => intro s i g; simp [runFrom, execAll, gasAll]
  | cons e es ih =>
    intro s i g
    simp only [runFrom, execAll, gasAll, okPrefix]
    cases h : step s e with
    | error err => simp
    | ok s' =>
      simp only []
      rw [ih]
      cases execAll step es s' <;> simp [Nat.add_assoc]

theorem run_eq (es : List ε) (s : σ) :
    run step cost es s =
      (match execAll step es s with
       | .ok s' => Res.ok s' (gasAll step cost es s)
       | .error err => Res.fail (okPrefix step es s) err (gasAll step cost es s)) := by
  simp only [run, runFrom_eq]
  cases execAll step es s <;> simp

/-- everything before the first failing entry succeeds, it fails: the rest of the list is irrelevant -/
theorem prefix_then_fail : ∀ (pre : List ε) (e : ε) (post : List ε) (s s' : σ) (err : String),
    execAll step pre s = .ok s' → step s' e = .error err →
      execAll step (pre ++ e :: post) s = .error err ∧
      okPrefix step (pre ++ e :: post) s = pre.length ∧
      gasAll step cost (pre ++ e :: post) s = gasAll step cost pre s + cost s' e := by
  intro pre
  induction pre with
  | nil =>
    intro e post s s' err h1 h2
    simp only [execAll] at h1
    injection h1 with h1
    subst h1
    simp [execAll, okPrefix, gasAll, h2]
  | cons a pre ih =>
    intro e post s s' err h1 h2
    simp only [execAll] at h1
    cases ha : step s a with
    | error x => rw [ha] at h1; simp at h1
    | ok s1 =>
      rw [ha] at h1
      simp only [] at h1
      obtain ⟨i1, i2, i3⟩ := ih e post s1 s' err h1 h2
      simp only [List.cons_append, execAll, okPrefix, gasAll, ha, List.length_cons]
      refine ⟨i1, ?_, ?_⟩
      · omega
      · omega

/-- **the clause, for a failing message**: in list order the error is the first failing entry's (on
the state its predecessors left), the position is its position and the gas is the gas of exactly the
entries up to and including it — whatever stands behind it -/
theorem C08_msg_first_failing_entry_decides_code_and_gas (pre : List ε) (e : ε) (post : List ε) (s s' : σ) (err : String)
    (hpre : execAll step pre s = .ok s') (hfail : step s' e = .error err) :
    run step cost (pre ++ e :: post) s = .fail pre.length err (gasAll step cost pre s + cost s' e) := by
  obtain ⟨h1, h2, h3⟩ := prefix_then_fail step cost pre e post s s' err hpre hfail
  rw [run_eq, h1, h2, h3]

/-- **the clause, for a successful message** -/
theorem C08_msg_all_entries_succeed (es : List ε) (s s' : σ) (h : execAll step es s = .ok s') :
    run step cost es s = .ok s' (gasAll step cost es s) := by
  rw [run_eq, h]

/-- a failing list has a first failing entry -/
theorem exists_first_failure : ∀ (es : List ε) (s : σ) (err : String), execAll step es s = .error err →
    ∃ pre e post s', es = pre ++ e :: post ∧ execAll step pre s = .ok s' ∧ step s' e = .error err := by
  intro es
  induction es with
  | nil => intro s err h; simp [execAll] at h
  | cons a es ih =>
    intro s err h
    simp only [execAll] at h
    cases ha : step s a with
    | error x =>
      rw [ha] at h
      simp only [] at h
      injection h with h
      subst h
      exact ⟨[], a, es, s, rfl, rfl, ha⟩
    | ok s1 =>
      rw [ha] at h
      simp only [] at h
      obtain ⟨pre, e, post, s', h1, h2, h3⟩ := ih s1 err h
      refine ⟨a :: pre, e, post, s', by rw [h1]; rfl, ?_, h3⟩
      simp only [execAll, ha]
      exact h2

/-- every message falls under one of the two cases: the result is decided by the list order alone -/
theorem C08_msg_result_decomposition (es : List ε) (s : σ) :
    (∃ s', execAll step es s = .ok s' ∧ run step cost es s = .ok s' (gasAll step cost es s)) ∨
    (∃ pre e post s' err, es = pre ++ e :: post ∧ execAll step pre s = .ok s' ∧ step s' e = .error err ∧
        run step cost es s = .fail pre.length err (gasAll step cost pre s + cost s' e)) := by
  cases h : execAll step es s with
  | ok s' => exact Or.inl ⟨s', rfl, C08_msg_all_entries_succeed step cost es s s' h⟩
  | error err =>
    obtain ⟨pre, e, post, s', h1, h2, h3⟩ := exists_first_failure step es s err h
    refine Or.inr ⟨pre, e, post, s', err, h1, h2, h3, ?_⟩
    rw [h1]
    exact C08_msg_first_failing_entry_decides_code_and_gas step cost pre e post s s' err h2 h3

/-- a failing message commits nothing (the cache context is dropped): whichever entry failed -/
theorem C08_msg_failure_commits_nothing (es : List ε) (s : σ) (h : (run step cost es s).code ≠ none) :
    (run step cost es s).committed s = s := by
  cases hr : run step cost es s with
  | ok s' g => rw [hr] at h; simp [Res.code] at h
  | fail i e g => rfl

/-- a list with at most one entry has one order -/
theorem C08_msg_single_entry_any_schedule (l₁ l₂ : List ε) (hp : l₁.Perm l₂) (h1 : l₁.length ≤ 1) (s : σ) :
    run step cost l₁ s = run step cost l₂ s := by
  have : l₁ = l₂ := by
    match l₁, h1 with
    | [], _ => exact (List.Perm.nil_eq hp)
    | [a], _ => exact (List.perm_singleton.mp hp.symm).symm
  rw [this]

/-! ### what IS order independent: whether the message fails, and what it commits -/

theorem execAll_cons (a : ε) (l : List ε) (s : σ) :
    execAll step (a :: l) s = (match step s a with | .error err => .error err | .ok s' => execAll step l s') := rfl

/-- two entries, one after the other -/
def two (a b : ε) (s : σ) : Except String σ :=
  match step s a with
  | .error err => .error err
  | .ok s' => step s' b

/-- if any two entries commute up to the error value (same success state, or both orders fail), then
for every two orders of the same entries the message fails under both or succeeds under both with the
same state -/
theorem commuting_entries_state (hc : ∀ s a b, stateOf (two step a b s) = stateOf (two step b a s)) :
    ∀ {o₁ o₂ : List ε}, o₁.Perm o₂ → ∀ s, stateOf (execAll step o₁ s) = stateOf (execAll step o₂ s) := by
  intro o₁ o₂ h
  induction h with
  | nil => intro s; rfl
  | cons x _ ih =>
    intro s
    simp only [execAll_cons]
    cases step s x with
    | error e => rfl
    | ok s' => exact ih s'
  | swap x y l =>
    intro s
    have := hc s y x
    simp only [two] at this
    simp only [execAll_cons]
    cases hy : step s y with
    | error e1 =>
      rw [hy] at this
      cases hx : step s x with
      | error e2 => rfl
      | ok sx =>
        rw [hx] at this
        simp only [] at this ⊢
        cases hxy : step sx y with
        | error e3 => rfl
        | ok s2 => rw [hxy] at this; simp [stateOf] at this
    | ok sy =>
      rw [hy] at this
      simp only [] at this ⊢
      cases hx : step s x with
      | error e2 =>
        rw [hx] at this
        simp only [] at this ⊢
        cases hyx : step sy x with
        | error e3 => rfl
        | ok s2 => rw [hyx] at this; simp [stateOf] at this
      | ok sx =>
        rw [hx] at this
        simp only [] at this ⊢
        cases hyx : step sy x with
        | error e3 =>
          rw [hyx] at this
          cases hxy : step sx y with
          | error e4 => rfl
          | ok s2 => rw [hxy] at this; simp [stateOf] at this
        | ok s2 =>
          rw [hyx] at this
          cases hxy : step sx y with
          | error e4 => rw [hxy] at this; simp [stateOf] at this
          | ok s3 =>
            rw [hxy] at this
            simp only [stateOf, Option.some.injEq] at this
            subst this
            rfl
  | trans _ _ ih1 ih2 => intro s; rw [ih1, ih2]

/-- **the part of the result that does not depend on the order**: with commuting entries, every order of
the same entries commits the same state (the new one if all succeed, the old one otherwise) -/
theorem C08_msg_commuting_entries_commit_order_independent
    (hc : ∀ s a b, stateOf (two step a b s) = stateOf (two step b a s))
    {o₁ o₂ : List ε} (hp : o₁.Perm o₂) (s : σ) :
    (run step cost o₁ s).committed s = (run step cost o₂ s).committed s ∧
    ((run step cost o₁ s).code = none ↔ (run step cost o₂ s).code = none) := by
  have h := commuting_entries_state step hc hp s
  rw [run_eq, run_eq]
  cases h1 : execAll step o₁ s <;> cases h2 : execAll step o₂ s <;> rw [h1, h2] at h <;>
    simp [stateOf, Res.committed, Res.code] at h ⊢
  exact h

end generic

/-! ### non-vacuity of the commutation hypothesis: debiting an account -/

/-- a bank debit that fails on an insufficient balance (amounts are naturals: ValidateBasic) -/
def debit (b : Int) (x : Nat) : Except String Int :=
  if (x : Int) ≤ b then .ok (b - x) else .error "ErrInsufficientFunds"

theorem debit_commutes (s : Int) (a b : Nat) : stateOf (two debit a b s) = stateOf (two debit b a s) := by
  simp only [two, debit]
  by_cases h1 : (a : Int) ≤ s <;> by_cases h2 : (b : Int) ≤ s <;>
    by_cases h3 : (b : Int) ≤ s - a <;> by_cases h4 : (a : Int) ≤ s - b <;>
    simp [h1, h2, h3, h4, stateOf] <;> omega

example : (run debit unitCost [3, 9, 2] 10).code = some "ErrInsufficientFunds" ∧ (run debit unitCost [3, 9, 2] 10).gas = 2 ∧
    (run debit unitCost [9, 3, 2] 10).gas = 2 ∧ (run debit unitCost [2, 3, 9] 10).gas = 3 := by decide

example : (run debit unitCost [3, 9, 2] 10).committed 10 = (run debit unitCost [2, 3, 9] 10).committed 10 :=
  (C08_msg_commuting_entries_commit_order_independent debit unitCost debit_commutes (by decide) 10).1

/-! ## the code as it is: no schedule involved -/

/-- a builder is schedule free when the executed list does not depend on the runtime's iteration order -/
def ScheduleFree (b : Builder) : Prop := ∀ (o₁ o₂ : List OID) (es : List Entry), o₁.Perm o₂ → b o₁ es = b o₂ es

/-- newDelegationParams ranges over the slice: every schedule gives the message order -/
theorem C08_msg_in_message_order_schedule_free : ScheduleFree paramsInMessageOrder := fun _ _ _ _ => rfl

/-- with a schedule-free builder code, gas and committed state of MsgDelegation / MsgUndelegation are
the same on every execution (for every per-entry step, in particular `delegateStep`, `undelegateStep`) -/
theorem C08_msg_schedule_free_result_deterministic (b : Builder) (hb : ScheduleFree b)
    (step : L → Entry → Except String L) (es : List Entry) (s : L) (o₁ o₂ : List OID) (hp : o₁.Perm o₂) :
    handleWith b o₁ step es s = handleWith b o₂ step es s := by
  simp only [handleWith, hb o₁ o₂ es hp]

/-! ## the shape it must not take: executed in the iteration order of a map -/

/-- the full statement for the map-merged builder: the result does not depend on the schedule -/
def C08_msg_map_order_full : Prop :=
  ∀ (s : L) (st : SID) (a : AID) (es : List Entry) (o₁ o₂ : List OID), o₁.Perm o₂ →
    (handleWith paramsMerged o₁ (delegateStep st a) es s).code = (handleWith paramsMerged o₂ (delegateStep st a) es s).code ∧
    (handleWith paramsMerged o₁ (delegateStep st a) es s).gas = (handleWith paramsMerged o₂ (delegateStep st a) es s).gas

/-- a native-token staker with balance 100 and two registered operators -/
def wNative : L :=
  { height := 5, unbonding := 10, totals := [], operators := ["A", "B"], clientChains := [],
    stakers := [], pools := [], deleg := [], slist := [], assoc := [], recs := [], sidx := [], pidx := [],
    holds := [], bal := [("s", 100)], escrow := 0, gDep := [], gWd := [], gSlashed := [] }

/-- witness 1 (gas): one registered operator and one address that is not an operator; the error is the
same, the gas is not -/
theorem C08_msg_map_order_gas_differs :
    handleWith paramsMerged ["A", "U"] (delegateStep "s" nativeAID) [⟨"A", 5, false⟩, ⟨"U", 5, false⟩] wNative
      = .fail 1 "ErrOperatorNotExist" 2 ∧
    handleWith paramsMerged ["U", "A"] (delegateStep "s" nativeAID) [⟨"A", 5, false⟩, ⟨"U", 5, false⟩] wNative
      = .fail 0 "ErrOperatorNotExist" 1 := by decide

/-- witness 2 (code): an entry above the balance and an address that is not an operator -/
theorem C08_msg_map_order_code_differs :
    (handleWith paramsMerged ["A", "U"] (delegateStep "s" nativeAID) [⟨"A", 500, false⟩, ⟨"U", 5, false⟩] wNative).code
      = some "ErrInsufficientFunds" ∧
    (handleWith paramsMerged ["U", "A"] (delegateStep "s" nativeAID) [⟨"A", 500, false⟩, ⟨"U", 5, false⟩] wNative).code
      = some "ErrOperatorNotExist" := by decide

theorem C08_msg_map_order_full_fails : ¬ C08_msg_map_order_full := by
  intro h
  have := (h wNative "s" nativeAID [⟨"A", 500, false⟩, ⟨"U", 5, false⟩] ["A", "U"] ["U", "A"] (List.Perm.swap _ _ _)).1
  rw [C08_msg_map_order_code_differs.1, C08_msg_map_order_code_differs.2] at this
  exact absurd this (by decide)

/-- the staker of `wNative` after delegating 10 to A and 10 to B -/
def wPositions : L := (msgDelegate wNative "s" nativeAID 0 [⟨"A", 10, false⟩, ⟨"B", 10, false⟩]).1

/-- witness 3 (committed state): a SUCCESSFUL MsgUndelegation naming two operators. All records of one
message share the nonce, and the pending-by-height index is keyed by (completion height, nonce) only
(finding F-03a): the index keeps the record of the entry executed LAST, so under a map-ordered builder
even the state — which record the EndBlocker will ever release — would depend on the schedule. In
message order it is the message's last entry, on every node. -/
theorem C08_msg_map_order_committed_state_differs :
    let r₁ := handleWith paramsMerged ["A", "B"] (undelegateStep "s" nativeAID 7 "0xh") [⟨"A", 4, false⟩, ⟨"B", 3, false⟩] wPositions
    let r₂ := handleWith paramsMerged ["B", "A"] (undelegateStep "s" nativeAID 7 "0xh") [⟨"A", 4, false⟩, ⟨"B", 3, false⟩] wPositions
    r₁.code = none ∧ r₂.code = none ∧ r₁.gas = r₂.gas ∧
    (r₁.committed wPositions).pidx = [((15, 7), ⟨"B", 5, 7, "0xh"⟩)] ∧
    (r₂.committed wPositions).pidx = [((15, 7), ⟨"A", 5, 7, "0xh"⟩)] := by decide

/-- the same two messages executed as the code executes them: one result each, whatever the schedule -/
example (o₁ o₂ : List OID) :
    handleWith paramsInMessageOrder o₁ (delegateStep "s" nativeAID) [⟨"A", 5, false⟩, ⟨"U", 5, false⟩] wNative
      = handleWith paramsInMessageOrder o₂ (delegateStep "s" nativeAID) [⟨"A", 5, false⟩, ⟨"U", 5, false⟩] wNative := rfl

example : (msgDelegate wNative "s" nativeAID 10 [⟨"A", 5, false⟩, ⟨"U", 5, false⟩, ⟨"B", 500, false⟩]).2
    = .fail 1 "ErrOperatorNotExist" 2 := by decide

/-- a failing MsgDelegation keeps only the fee -/
example : (msgDelegate wNative "s" nativeAID 10 [⟨"A", 5, false⟩, ⟨"U", 5, false⟩]).1 = payFee wNative "s" 10 := by decide

end ExoVerif.MsgOrder
