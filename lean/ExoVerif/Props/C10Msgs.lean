import ExoVerif.Model.AuthMsgs
/-!
# C10 — every Cosmos message of the exocore modules: rejected, or acting only for its signer

"Every other caller is rejected without any state change" quantifies over the entry points. The statements here
quantify over ALL of them on the Cosmos side: `msgTable` lists every type an exocore module registers as `sdk.Msg`
(tied to the source by `C10_tie_msg_routes`, to the running application by the harness' enumeration of the
InterfaceRegistry / MsgServiceRouter), `admitMsg` decides a signed transaction carrying one.

* whatever the class, an admitted message was signed by the account its sender field names, and every record it writes
  is that account's (`C10_msg_admit_implies_rightful`, `C10_msg_records_are_signers`);
* an account that is no operator, no validator and not the authority gets nothing privileged through
  (`C10_msg_outsider_privileged_rejected`);
* AVS registration / deregistration / task creation have NO Cosmos-side door: their messages are routed to handlers
  that do not return (`C10_avs_management_msgs_never_admitted`) — the binding "AVS address = calling contract" of the
  precompile cannot be side-stepped;
* and the door that suggests itself — a handler that takes the AVS address from the payload and checks the sender
  against the payload's own owner list — admits ANY account for ANY unregistered address
  (`C10_msgRegisterAVS_payload_addressed_admits_any_outsider`, `…_full_fails`).
-/
namespace ExoVerif.Auth

/-- the rightful sender of a message of each class -/
def rightfulMsg (cls : MsgClass) (st : AuthState) (r : Request) : Prop :=
  match cls with
  | .operatorMsg | .delegationMsg => r.sig = .valid ∧ r.arg0 = r.origin
  | .taskResult => r.sig = .valid ∧ r.arg0 = r.origin ∧ r.subject = r.origin ∧ st.isOperator r.origin = true
  | .oraclePrice => r.sig = .valid ∧ st.isValidator r.arg0 = true
  | .updateParams => r.sig = .valid ∧ r.arg0 = r.origin ∧ (st.mainnet = true → r.origin = st.authority)
  | .stub | .unrouted => False

/-- admitted ⇒ sent by the rightful account of its class -/
theorem C10_msg_admit_implies_rightful (cls : MsgClass) (st : AuthState) (r : Request) (handlerOk : Bool)
    (h : admitMsg cls st r handlerOk = true) : rightfulMsg cls st r := by
  cases cls <;>
    simp only [admitMsg, admitOpMsg, admitSdkMsg, admitTaskResult, admitOraclePrice, admitUpdateParams,
      Bool.and_eq_true, Bool.or_eq_true, Bool.not_eq_true', beq_iff_eq, rightfulMsg] at h ⊢
  · exact h.1
  · exact h.1
  · obtain ⟨⟨⟨⟨h1, h2⟩, h3⟩, h4⟩, _⟩ := h
    refine ⟨h1, h2, ?_, ?_⟩
    · rw [← h3, h2]
    · rw [← h2, h3]; exact h4
  · exact h.1
  · obtain ⟨⟨⟨h1, h2⟩, h3⟩, _⟩ := h
    refine ⟨h1, h2, fun hm => ?_⟩
    rcases h3 with h3 | h3
    · rw [hm] at h3; cases h3
    · rw [← h2]; exact h3
  · cases h
  · cases h

/-- every record an admitted message writes is keyed by the account that signed -/
theorem C10_msg_records_are_signers (cls : MsgClass) (st : AuthState) (r : Request) (handlerOk : Bool)
    (h : admitMsg cls st r handlerOk = true) : ∀ a ∈ msgRecordOwners cls r, a = r.origin := by
  have hr := C10_msg_admit_implies_rightful cls st r handlerOk h
  intro a ha
  cases cls <;> simp only [msgRecordOwners, List.mem_singleton, List.not_mem_nil] at ha
  · rw [ha]; exact hr.2
  · rw [ha]; exact hr.2
  · rw [ha]; exact hr.2.2.1

/-- a sender field that names somebody else than the signing account, or a signature that does not verify, is
refused for every class but the oracle's (whose signer IS the validator key: `C10_oraclePrice_admit_implies_rightful`) -/
theorem C10_msg_foreign_sender_rejected (cls : MsgClass) (st : AuthState) (r : Request) (handlerOk : Bool)
    (hc : cls ≠ .oraclePrice) (h : r.sig ≠ .valid ∨ r.arg0 ≠ r.origin) : admitMsg cls st r handlerOk = false := by
  cases hb : admitMsg cls st r handlerOk with
  | false => rfl
  | true =>
    have hr := C10_msg_admit_implies_rightful cls st r handlerOk hb
    cases cls <;> simp only [rightfulMsg] at hr
    · rcases h with h | h
      · exact absurd hr.1 h
      · exact absurd hr.2 h
    · rcases h with h | h
      · exact absurd hr.1 h
      · exact absurd hr.2 h
    · rcases h with h | h
      · exact absurd hr.1 h
      · exact absurd hr.2.1 h
    · exact absurd rfl hc
    · rcases h with h | h
      · exact absurd hr.1 h
      · exact absurd hr.2.1 h

/-- an outsider — no operator, no validator, not the authority — on a mainnet chain id: nothing but the messages that
act on the sender's own stake / own registration can be admitted for it -/
theorem C10_msg_outsider_privileged_rejected (cls : MsgClass) (st : AuthState) (r : Request) (handlerOk : Bool)
    (hcls : cls ≠ .operatorMsg ∧ cls ≠ .delegationMsg)
    (hop : st.isOperator r.origin = false) (hval : st.isValidator r.arg0 = false)
    (hau : r.origin ≠ st.authority) (hm : st.mainnet = true) : admitMsg cls st r handlerOk = false := by
  cases hb : admitMsg cls st r handlerOk with
  | false => rfl
  | true =>
    have hr := C10_msg_admit_implies_rightful cls st r handlerOk hb
    cases cls <;> simp only [rightfulMsg] at hr
    · exact absurd rfl hcls.1
    · exact absurd rfl hcls.2
    · rw [hop] at hr; cases hr.2.2.2
    · rw [hval] at hr; cases hr.2
    · exact absurd (hr.2.2 hm) hau

/-- a message whose handler does not return, or that has no handler, is admitted for nobody -/
theorem C10_msg_stub_or_unrouted_never_admitted (cls : MsgClass) (hc : cls = .stub ∨ cls = .unrouted)
    (st : AuthState) (r : Request) (handlerOk : Bool) : admitMsg cls st r handlerOk = false := by
  rcases hc with hc | hc <;> subst hc <;> rfl

/-- AVS registration, deregistration and task creation have no Cosmos-message entry point: each of the three
messages is in the table, and is admitted for no request at all — the only way in is the precompile, which binds the
AVS to `contract.CallerAddress` (`C10_registerAVS_admit_implies_rightful`, `C10_manageAVS_admit_implies_rightful`) -/
theorem C10_avs_management_msgs_never_admitted :
    ∀ url ∈ avsManagementMsgs, ∃ cls, classOf url = some cls ∧
      ∀ (st : AuthState) (r : Request) (handlerOk : Bool), admitMsg cls st r handlerOk = false := by
  intro url hu
  simp only [avsManagementMsgs, List.mem_cons, List.not_mem_nil, or_false] at hu
  rcases hu with hu | hu | hu <;> subst hu <;> exact ⟨.stub, by decide, fun _ _ _ => rfl⟩

/-- the table has one row per type url and `classOf` reads it -/
theorem C10_msgTable_wellformed :
    (msgTable.map (·.1)).Nodup ∧ ∀ p ∈ msgTable, classOf p.1 = some p.2 := by
  constructor <;> decide

/-- the full statement for the payload-addressed variant: an admitted registration is a registration of the
account that acts -/
def C10_msgRegisterAVS_payload_addressed_full : Prop :=
  ∀ (st : AuthState) (r : Request) (avs : Addr) (owners : List Addr),
    admitRegisterAVSMsgPayloadAddressed st r avs owners = true → avs = r.origin

/-- … which such a handler does not satisfy: for ANY account `o` and ANY address `a` that is not registered yet,
`o` — listing itself as the owner — is admitted to create the AVS record of `a`. The owner check is vacuous (the
list comes from the same payload), the AVS address is free. -/
theorem C10_msgRegisterAVS_payload_addressed_admits_any_outsider (st : AuthState) (o a : Addr)
    (hfree : st.isAVS a = false) :
    admitRegisterAVSMsgPayloadAddressed st { callerAddress := 0, origin := o, arg0 := o, sig := .valid } a [o] = true := by
  simp [admitRegisterAVSMsgPayloadAddressed, admitSdkMsg, hfree]

theorem C10_msgRegisterAVS_payload_addressed_full_fails : ¬ C10_msgRegisterAVS_payload_addressed_full := by
  intro h
  have := h { gateway := 1, avsOwners := fun _ => [], isAVS := fun _ => false, isOperator := fun _ => false,
              isValidator := fun _ => false, authority := 99, mainnet := true }
    { callerAddress := 0, origin := 7, arg0 := 7, sig := .valid } 50 [7] (by decide)
  cases this

/-! non-vacuity -/
/-- a state with operator 7, validator 8, authority 99 on mainnet -/
def exMsgState : AuthState :=
  { gateway := 1, avsOwners := fun _ => [], isAVS := fun _ => false, isOperator := fun a => a == 7,
    isValidator := fun a => a == 8, authority := 99, mainnet := true }

example : admitMsg .operatorMsg exMsgState { callerAddress := 0, origin := 5, arg0 := 5, sig := .valid } true = true := by decide
example : admitMsg .delegationMsg exMsgState { callerAddress := 0, origin := 5, arg0 := 5, sig := .valid } true = true := by decide
example : admitMsg .taskResult exMsgState { callerAddress := 0, origin := 7, arg0 := 7, sig := .valid, subject := 7 } true = true := by decide
example : admitMsg .taskResult exMsgState { callerAddress := 0, origin := 5, arg0 := 5, sig := .valid, subject := 7 } true = false := by decide
example : admitMsg .updateParams exMsgState { callerAddress := 0, origin := 99, arg0 := 99, sig := .valid } true = true := by decide
example : admitMsg .updateParams exMsgState { callerAddress := 0, origin := 5, arg0 := 5, sig := .valid } true = false := by decide
example : admitMsg .oraclePrice exMsgState { callerAddress := 0, origin := 8, arg0 := 8, sig := .valid } true = true := by decide
example : admitMsg .stub exMsgState { callerAddress := 0, origin := 5, arg0 := 5, sig := .valid } true = false := by decide
example : msgRecordOwners .delegationMsg { callerAddress := 0, origin := 5, arg0 := 5, sig := .valid } = [5] := by decide
example : classOf "/exocore.avs.v1.RegisterAVSReq" = some .stub := by decide
example : classOf "/exocore.avs.v1.NoSuchReq" = none := by decide
/-- the hypotheses of `C10_msg_outsider_privileged_rejected` are met by account 5 in `exMsgState` -/
example : exMsgState.isOperator 5 = false ∧ exMsgState.isValidator 5 = false ∧ (5 : Addr) ≠ exMsgState.authority ∧
    exMsgState.mainnet = true := by decide

end ExoVerif.Auth
