import ExoVerif.Generated.Facts
import ExoVerif.Model.Auth
/-!
# C10 tie: which expression keys the writes of the operator messages

`opMsgRecordKeys _ r _ = [r.arg0]` (`Model/Auth.lean`): every record an operator message writes is keyed by
the from-field — the field `GetSigners` returns — and by nothing taken from the payload. Regenerated from
the Go source by tools/exofacts (facts_opmsg.go): the field each `GetSigners` parses, what each handler of
x/operator/keeper/msg_server.go hands to the keeper, and — inside `setOperatorInfo` — every assignment of
the variable that keys `store.Set`. A second assignment of that variable (for instance from
`info.EarningsAddr`) or a handler passing another field changes a literal below.
-/
namespace ExoVerif.Auth
open ExoVerif.Gen

/-- the signer of each operator message is its from-field (`Request.arg0`) -/
theorem C10_tie_operator_msg_signers :
    opMsgGetSigners =
      [("RegisterOperatorReq", "m.FromAddress"), ("OptIntoAVSReq", "m.FromAddress"),
       ("OptOutOfAVSReq", "m.FromAddress"), ("SetConsKeyReq", "m.Address")] := rfl

/-- each handler derives the operator address from that same field, once, and hands exactly it to the keeper -/
theorem C10_tie_operator_msg_server_keying :
    opMsgServerKeying =
      [("RegisterOperator", "SetOperatorInfo(ctx, req.FromAddress, req.Info)"),
       ("OptIntoAVS", "accAddr, _ := sdk.AccAddressFromBech32(req.FromAddress) ; OptIn(ctx, accAddr, req.AvsAddress) ; OptInWithConsKey(ctx, accAddr, req.AvsAddress, key)"),
       ("OptOutOfAVS", "accAddr, _ := sdk.AccAddressFromBech32(req.FromAddress) ; OptOut(ctx, accAddr, req.AvsAddress)"),
       ("SetConsKey", "accAddr, _ := sdk.AccAddressFromBech32(req.Address) ; IsActive(ctx, accAddr, req.AvsAddress) ; SetOperatorConsKeyForChainID(ctx, accAddr, chainID, wrappedKey)")] := rfl

/-- SetOperatorInfo forwards its address parameter; setOperatorInfo assigns the key variable `opAccAddr`
exactly once, from that parameter, checks "already an operator" with it and writes the record under it -/
theorem C10_tie_operator_msg_keying :
    setOperatorInfoKeying =
      ["SetOperatorInfo: return k.setOperatorInfo(ctx, addr, info, false)",
       "opAccAddr, err := sdk.AccAddressFromBech32(addr)",
       "IsOperator(ctx, opAccAddr)",
       "store.Set(opAccAddr, bz)"] := rfl

end ExoVerif.Auth
